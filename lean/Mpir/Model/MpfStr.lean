/-
  mpf <-> string (property C13): `mpf_set_str` (mpf/set_str.c) and `mpf_get_str` (mpf/get_str.c).
  Core Lean only.  Strings are `List Nat` (bytes), most significant / first character first; an mpf is
  `Mpir.Mpf.F`.  Line numbers refer to /repo/mpf/set_str.c and /repo/mpf/get_str.c.

  Specification part
    `parse`         the accepted input syntax of mpf_set_str and what it denotes (sign, digits, fraction length,
                    written exponent): white space, `-`, digits with at most one `.`, `@` / `e` / `E` exponent marker
    `GetOk`         "at most n digits, none of them superfluous, denoting a value within one unit of the last
                    requested digit" as a decidable statement about integers
  Bit-exact models (value level: mpn_set_str / mpn_get_str / mpn_mul / mpn_sqr / mpn_tdiv_qr / divrem are taken
  as the exact integer functions; limb selection, truncation and exponent bookkeeping follow the C)
    `powHigh`       mpn_pow_1_highpart (both files): base^exp by left-to-right squaring, truncated to `prec` limbs
    `convert`       the numeric part of mpf_set_str
    `set_str`, `get_str`, `roundtrip`
-/
import Mpir.Base
import Mpir.Model.Mpf
import Mpir.Model.Radix
namespace Mpir.MpfStr
open Mpir

/-! ## The accepted strings and what they denote -/

/-- result of reading a string: value = (-1)^neg · ofDigits base digits · base^(exp - frac) -/
structure Parsed where
  neg : Bool
  base : Nat           -- 2..62
  digits : List Nat    -- mantissa digit values, most significant first (white space and point removed)
  frac : Nat           -- number of mantissa digits after the point (0 without a point)
  exp : Int            -- the written exponent (0 when there is none)
  deriving Repr, BEq, DecidableEq

/-- the integer mantissa -/
def Parsed.mant (p : Parsed) : Nat := Radix.ofDigits p.base p.digits
/-- power of the base applied to the integer mantissa (`exp_in_base` after set_str.c:378-379) -/
def Parsed.scale (p : Parsed) : Int := p.exp - (p.frac : Int)

/-- set_str.c:257: `c == '@' || (base <= 10 && (c == 'e' || c == 'E'))` -/
def isMarker (b c : Nat) : Bool := c == 64 || (decide (b ≤ 10) && (c == 101 || c == 69))

/-- set_str.c:252-263: the right-most marker; `splitLast b s = some (before, after)` -/
def splitLast (b : Nat) : List Nat → Option (List Nat × List Nat)
  | [] => none
  | c :: cs =>
    match splitLast b cs with
    | some (m, e) => some (c :: m, e)
    | none => if isMarker b c then some ([], cs) else none

/-- set_str.c:269-304, the mantissa: white space skipped, at most one point, every other byte a digit of
    the base.  Returns the digit values and, if there is a point, the number of digits after it
    (`s - dotpos`). -/
def scanMant (dv : Nat → Nat) (b : Nat) : List Nat → Option (List Nat × Option Nat)
  | [] => some ([], none)
  | c :: cs =>
    match scanMant dv b cs with
    | none => none
    | some (ds, dot) =>
      if Radix.isSpace c then some (ds, dot)                                     -- :272
      else if c = 46 then (match dot with | some _ => none | none => some (ds, some ds.length))   -- :276-290
      else if dv c < b then some (dv c :: ds, dot) else none                     -- :294-300

/-- set_str.c:352-376, the exponent: optional sign, then the longest run of digits below `eb`, at least one;
    whatever follows the run is not looked at. -/
def scanExp (dv : Nat → Nat) (eb : Nat) (s : List Nat) : Option Int :=
  let (sgn, t) := match s with
    | 43 :: r => (false, r)
    | 45 :: r => (true, r)
    | _ => (false, s)
  let ds := (t.takeWhile (fun c => decide (dv c < eb))).map dv
  if ds.isEmpty then none                                                        -- :368 `!cnt`
  else
    let v : Int := (Radix.ofDigits eb ds : Nat)
    some (if sgn then -v else v)

/-- the base the digits are read in (set_str.c:223-228): |base|, 10 for base 0 -/
def baseOf (base : Int) : Nat := if base < 0 then (-base).toNat else if base = 0 then 10 else base.toNat
/-- the base the exponent is written in (set_str.c:223-226): the base itself, decimal for base ≤ 0 -/
def expBaseOf (base : Int) : Nat := if base ≤ 0 then 10 else base.toNat

/-- set_str.c:232-304 and 352-376 on the string after white space and sign; `b` = base of the digits (2..62),
    `eb` = base of the exponent -/
def parseBody (neg : Bool) (b eb : Nat) (s : List Nat) : Option Parsed :=
  let dv := Radix.digitValue (if 36 < b then 224 else 0)                         -- :232-237
  match s with
  | [] => none                                                                   -- :240 (NUL is neither digit nor point)
  | c :: rest =>
    if ¬ (dv c < b ∨ (c = 46 ∧ dv (rest.headD 0) < b)) then none else            -- :240-248
    let sp := splitLast b rest                                                   -- :252-263 (positions >= 1 only)
    let mant := match sp with
      | some (m, _) => c :: m
      | none => c :: rest
    match scanMant dv b mant with                                                -- :269-304
    | none => none
    | some (ds, dot) =>
      -- :336-342: with a zero mantissa the function returns 0 before the exponent is looked at
      if Radix.ofDigits b ds = 0 then some ⟨neg, b, ds, dot.getD 0, 0⟩ else
      match sp with
      | none => some ⟨neg, b, ds, dot.getD 0, 0⟩
      | some (_, e) =>
        match scanExp dv eb e with                                               -- :352-376
        | none => none
        | some x => some ⟨neg, b, ds, dot.getD 0, x⟩

/-- mpf_set_str's reading of its arguments (set_str.c:209-304 and 352-376).  `none` = return value -1.
    `s0` is the C string (cut at the first NUL). -/
def parse (base : Int) (s0 : List Nat) : Option Parsed :=
  let s1 := (s0.takeWhile (· != 0)).dropWhile Radix.isSpace                     -- :212
  let neg := s1.head? == some 45                                                 -- :216
  let s := if neg then s1.tail else s1
  if baseOf base < 2 ∨ 62 < baseOf base then none                                -- :230
  else parseBody neg (baseOf base) (expBaseOf base) s

/-! ## mpn_pow_1_highpart -/

/-- number of limbs of a natural number (0 for 0) -/
def limbLen (v : Nat) : Nat := if v = 0 then 0 else v.log2 / 64 + 1

/-- keep the `prec` most significant limbs: (kept value, number of dropped limbs) -/
def keepTop (prec v : Nat) : Nat × Nat :=
  let n := limbLen v
  if n > prec then (v / B ^ (n - prec), n - prec) else (v, 0)

/-- one round of the loop, set_str.c:155-178 / get_str.c:74-96: square, drop what exceeds `prec` limbs
    (`ign` doubles and grows by the dropped count), multiply by the base if the exponent bit is set -/
def powStep (base prec : Nat) (st : Nat × Nat) (bit : Bool) : Nat × Nat :=
  let k := keepTop prec (st.1 * st.1)
  (if bit then k.1 * base else k.1, 2 * st.2 + k.2)

/-- the state after the loop has consumed the leading bits that spell `e` (e ≥ 1) -/
def powLoop (base prec : Nat) (e : Nat) : Nat × Nat :=
  if h : e ≤ 1 then (base, 0)
  else powStep base prec (powLoop base prec (e / 2)) (e % 2 == 1)
termination_by e
decreasing_by omega

/-- mpn_pow_1_highpart (rp, &ign, base, e, prec, tp) for e ≥ 1: (value of the returned limbs, ign);
    base^e ≈ value · B^ign -/
def powHigh (base e prec : Nat) : Nat × Nat :=
  let st := powLoop base prec e
  let k := keepTop prec st.1                                                     -- :181-186
  (k.1, st.2 + k.2)

/-- get_str.c:60-65: the get_str copy also accepts e = 0 -/
def powHigh0 (base e prec : Nat) : Nat × Nat := if e = 0 then (1, 0) else powHigh base e prec

/-! ## mpf_set_str: the conversion -/

/-- set_str.c:344-351 and 383-390: exponent of the base is 0 — the (truncated) integer mantissa itself -/
def convInt (prec : Nat) (neg : Bool) (M : Nat) : Mpf.F :=
  let km := keepTop (prec + 1) M                                                 -- :344-351
  let mn := limbLen km.1
  Mpf.mk prec neg ((mn : Int) + (km.2 : Int)) (toLimbs mn km.1)                  -- :385-387

/-- set_str.c:395, 440-461: mantissa times base^e (e ≥ 1) -/
def convMul (prec : Nat) (neg : Bool) (M b e : Nat) : Mpf.F :=
  let P := prec + 1                                                              -- :314
  let km := keepTop P M                                                          -- :344-351
  let pw := powHigh b e P                                                        -- :395
  let t := pw.1 * km.1                                                           -- :442-446
  let tn := limbLen t                                                            -- :447-448
  let kt := keepTop P t                                                          -- :451-456
  Mpf.mk prec neg ((tn : Int) + (km.2 : Int) + (pw.2 : Int)) (toLimbs (min tn P) kt.1)   -- :449, 459-461

/-- set_str.c:395-437, 459-461: mantissa divided by base^e (e ≥ 1) -/
def convDiv (prec : Nat) (neg : Bool) (M b e : Nat) : Mpf.F :=
  let P := prec + 1                                                              -- :314
  let km := keepTop P M                                                          -- :344-351
  let m := km.1
  let mn := limbLen m
  let pw := powHigh b e P                                                        -- :395
  let r := pw.1
  let rn := limbLen r
  let pad := rn - mn                                                             -- :405-414 (0 unless mn < rn)
  let m1 := m * B ^ pad
  let cnt := 64 * rn - 1 - r.log2                                                -- :415-424 normalise the divisor
  let r2 := r * 2 ^ cnt
  let m2 := m1 * 2 ^ cnt
  let mn2 := limbLen m2
  let qxn := P - (mn2 - rn)                                                      -- :427
  let Q := m2 * B ^ qxn / r2                                                     -- mpn_intdivrem: P limbs and qlimb
  let qlimb := Q / B ^ P
  let ex : Int := (qlimb : Int) + ((mn2 - rn : Nat) : Int) + ((km.2 : Int) - (pad : Int) - (pw.2 : Int))   -- :412, 429
  Mpf.mk prec neg ex (toLimbs P (if qlimb ≠ 0 then Q / B else Q))                -- :430-437, 459-461

/-- set_str.c:314-463 for an accepted string; `prec` = PREC(x) -/
def convert (prec : Nat) (p : Parsed) : Mpf.F :=
  if p.mant = 0 then Mpf.zero prec                                               -- :332-342 mpn_set_str, MPN_NORMALIZE, mn == 0
  else if p.scale.natAbs = 0 then convInt prec p.neg p.mant                      -- :378-390
  else if p.scale < 0 then convDiv prec p.neg p.mant p.base p.scale.natAbs       -- :380, 397
  else convMul prec p.neg p.mant p.base p.scale.natAbs

/-- mpf_set_str (x, s, base): return value and the new content of x (`dst` = old content) -/
def set_str (prec : Nat) (dst : Mpf.F) (base : Int) (s : List Nat) : Int × Mpf.F :=
  match parse base s with
  | none => (-1, dst)
  | some p => (0, convert prec p)

/-- the exact rational denoted by an accepted string, as numerator / denominator (sign apart) -/
def Parsed.num (p : Parsed) : Nat := if p.scale ≥ 0 then p.mant * p.base ^ p.scale.toNat else p.mant
def Parsed.den (p : Parsed) : Nat := if p.scale ≥ 0 then 1 else p.base ^ (-p.scale).toNat

/-! ## mpf_get_str -/

/-- `(size_t) (n / chars_per_bit_exactly)`: size_t → binary64, binary64 division (round to nearest even),
    truncation.  `bits` = the divisor's bit pattern (a normal number in (0,1]). -/
def divTrunc (n : Nat) (bits : Nat) : Nat :=
  let d := Radix.decodeDouble bits                  -- divisor = d.1 / 2^d.2
  let t := Radix.rn53 n 0                           -- (double) n = t.1 · 2^t.2.1
  let N := (t.1 <<< t.2.1) <<< d.2                  -- quotient = N / d.1
  if N = 0 then 0 else
  let s := 60 + d.1.log2 - min N.log2 (60 + d.1.log2)      -- scale so that the integer quotient has ≥ 58 bits
  let Q := (N <<< s) / d.1
  let sticky := (N <<< s) % d.1 ≠ 0
  let sh := Q.log2 + 1 - 53
  let q := Q >>> sh
  let rem := Q % 2 ^ sh
  let half := 2 ^ (sh - 1)
  let up := rem > half ∨ (rem = half ∧ sticky) ∨ (rem = half ∧ ¬ sticky ∧ q % 2 = 1)
  let q53 := if up then q + 1 else q
  if sh ≥ s then q53 <<< (sh - s) else q53 >>> (s - sh)

/-- MPF_SIGNIFICANT_DIGITS (gmp-impl.h:3963): `2 + (size_t) (((size_t) prec - 1) * 64 * chars_per_bit_exactly)` -/
def maxDigits (base prec : Nat) : Nat := 2 + Radix.mulTrunc ((prec - 1) * 64) (Radix.cpbeBits base)

/-- get_str.c:180 -/
def nLimbsNeeded (base nd : Nat) : Nat := 3 + divTrunc nd (Radix.cpbeBits base) / 64

/-- the digit count mpf_get_str works to (get_str.c:149-151) -/
def effDigits (base prec nd : Nat) : Nat :=
  let m := maxDigits base prec
  if nd = 0 ∨ nd > m then m else nd

/-- get_str.c:259-280: add one unit to the last kept digit; digits that become `base` are cut off
    (`n_digits_computed--`), a carry out of the first digit gives `1` and exponent + 1 -/
def roundUp (base : Nat) (ds : List Nat) (x : Int) : List Nat × Int :=
  match ds.reverse.dropWhile (fun d => d + 1 == base) with
  | [] => ([1], x + 1)
  | d :: rest => (((d + 1) :: rest).reverse, x)

def stripTrailingZeros (ds : List Nat) : List Nat := (ds.reverse.dropWhile (· == 0)).reverse

/-- get_str.c:253-291 on the computed digits `ds` (more than requested, normally) with exponent `x` -/
def finish (base nd : Nat) (ds : List Nat) (x : Int) : List Nat × Int :=
  let r := if ds.length > nd ∧ 2 * ds.getD nd 0 ≥ base then roundUp base (ds.take nd) x else (ds.take nd, x)
  (stripTrailingZeros r.1, r.2)

/-- get_str.c:180-250 for a non-zero operand: the integer whose digits are developed and the power of the base
    it was scaled by (`(N, s)`: |u| ≈ N · base^(-s)); `nln` = n_limbs_needed -/
def scaledInt (base nln : Nat) (u : Mpf.F) : Nat × Int :=
  let up := Mpf.top nln u.d                                                      -- :191-195 / :228-232
  let un := up.length
  let cb := Radix.cpbeBits base
  if u.exp ≤ (nln : Int) then
    let more := ((nln : Int) - u.exp).toNat                                      -- :188
    let e := Radix.mulTrunc (64 * more) cb                                       -- :189
    let pw := powHigh0 base e nln                                                -- :199
    let t := val up * pw.1                                                       -- :200-205
    let off : Int := (un : Int) - u.exp - (pw.2 : Int)                           -- :206
    (if off < 0 then t * B ^ (-off).toNat else t / B ^ off.toNat, (e : Int))     -- :207-214, 216
  else
    let less := (u.exp - (nln : Int)).toNat                                      -- :225
    let e := Radix.mulTrunc (64 * less) cb                                       -- :226
    let pw := powHigh0 base e nln                                                -- :236
    let xn := nln + (less - pw.2)                                                -- :238
    let x := val up * B ^ (xn - un)                                              -- :239-242
    (x / pw.1, -(e : Int))                                                       -- :245-248, 250

/-- mpf_get_str (NULL, &exp, base, nd0, u) for 2 ≤ base ≤ 62: digit values (without the sign) and exponent -/
def get_digits (base nd0 : Nat) (u : Mpf.F) : List Nat × Int :=
  let nd := effDigits base u.prec nd0                                            -- :149-151
  if u.d.length = 0 then ([], 0) else                                            -- :161-167
  let sc := scaledInt base (nLimbsNeeded base nd) u                              -- :180-250
  let ds := Radix.digitsOf base sc.1                                             -- mpn_get_str
  finish base nd ds ((ds.length : Int) - sc.2)                                   -- :216 / :250, :253-291

/-- the conditions under which `MpirProofs` proves "within one unit of the last requested digit" for `get_digits`
    (theorem get_digits_accuracy): n_limbs_needed leaves two guard limbs beyond the digits worked to, at least
    three more digits are developed than delivered, the scaling exponent is below 2^59, and in the division branch
    the power's ignored limbs do not exceed n_less_limbs_needed.  They depend on the binary64 computations of
    get_str.c:180/189/226; the driver evaluates them on every mpf_get_str13 line (marker `!adequacy`). -/
def adequate (base nd0 : Nat) (u : Mpf.F) : Bool :=
  let nd := effDigits base u.prec nd0
  let nln := nLimbsNeeded base nd
  let sc := scaledInt base nln u
  decide (base ^ nd * 2 ^ 64 ≤ B ^ (nln - 1)) &&
  decide (nd + 3 ≤ (Radix.digitsOf base sc.1).length) &&
  decide (sc.2.natAbs + 1 ≤ 2 ^ 59) &&
  (decide (u.exp ≤ (nln : Int)) ||
   decide ((powHigh0 base (Radix.mulTrunc (64 * (u.exp - (nln : Int)).toNat) (Radix.cpbeBits base)) nln).2 ≤
     (u.exp - (nln : Int)).toNat))

/-- the returned string and exponent; `base` in 2..62 or -36..-2 -/
def get_str (base : Int) (nd0 : Nat) (u : Mpf.F) : List Nat × Int :=
  let r := get_digits base.natAbs nd0 u
  ((if u.size < 0 then [45] else []) ++ r.1.map (Radix.digitChar base), r.2)     -- :293-306

/-- decimal text of an integer -/
def decimal (z : Int) : List Nat :=
  (if z < 0 then [45] else []) ++ (Nat.toDigits 10 z.natAbs).map Char.toNat

/-- the text the round-trip op builds from get_str's answer: `[-]0.<digits>@<exponent in decimal>` -/
def roundtripText (g : List Nat × Int) : List Nat :=
  let (sgn, ds) := match g.1 with
    | 45 :: r => ([45], r)
    | r => ([], r)
  sgn ++ [48, 46] ++ (if ds.isEmpty then [48] else ds) ++ [64] ++ decimal g.2

/-- get_str with all significant digits, then set_str into a variable two limbs more precise -/
def roundtrip (base : Int) (u : Mpf.F) : List Nat × Int × Mpf.F :=
  let t := roundtripText (get_str base 0 u)
  let r := set_str (u.prec + 2) ⟨u.prec + 2, 2, -3, [5, 7]⟩ (-(base.natAbs : Int)) t
  (t, r.1, r.2)

/-! ## The property of mpf_get_str's answer, on integers -/

/-- value of a digit character under the output alphabet of `base` (inverse of `Radix.digitChar`) -/
def charDigit (base : Int) (c : Nat) : Option Nat :=
  if 48 ≤ c ∧ c ≤ 57 then some (c - 48)
  else if base < 0 then (if 65 ≤ c ∧ c ≤ 90 then some (c - 65 + 10) else none)
  else if base ≤ 36 then (if 97 ≤ c ∧ c ≤ 122 then some (c - 97 + 10) else none)
  else if 65 ≤ c ∧ c ≤ 90 then some (c - 65 + 10)
  else if 97 ≤ c ∧ c ≤ 122 then some (c - 97 + 36)
  else none

/-- `|0.d1…dL · b^x − num/den| ≤ b^(x − n)` with L = ds.length ≤ n, D = the integer d1…dL, written without
    fractions:  with y = x − L (the exponent of D's unit) and j = n − L:
      y ≥ 0 :  |D · b^y · den − num| · b^j ≤ b^y · den
      y < 0 :  |D · den − num · b^(−y)| · b^j ≤ den            -/
def withinUnit (b : Nat) (ds : List Nat) (x : Int) (n : Nat) (num den : Nat) : Bool :=
  let D := Radix.ofDigits b ds
  let y : Int := x - (ds.length : Int)
  let j := n - ds.length
  if y ≥ 0 then
    let s := b ^ y.toNat * den
    decide ((((D * s : Nat) : Int) - (num : Int)).natAbs * b ^ j ≤ s)
  else
    decide ((((D * den : Nat) : Int) - ((num * b ^ (-y).toNat : Nat) : Int)).natAbs * b ^ j ≤ den)

/-- what C13 and the manual say of mpf_get_str's digits `ds` / exponent `x` for the non-zero magnitude
    num/den, base b, n digits worked to: between 1 and n digits, all below the base, no leading zero digit,
    "trailing zeros are not returned", and the value denoted is within one unit of the n-th digit -/
def GetOk (b : Nat) (ds : List Nat) (x : Int) (n : Nat) (num den : Nat) : Bool :=
  decide (1 ≤ ds.length) && decide (ds.length ≤ n) && ds.all (fun d => decide (d < b)) &&
  decide (ds.head? ≠ some 0) && decide (ds.getLast? ≠ some 0) && withinUnit b ds x n num den

end Mpir.MpfStr
