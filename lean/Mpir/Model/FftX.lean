/-
  FFT transforms (property C01), VALUE level: the coefficient array `ii[0..2n)` (`ii[0..4n)` for the √2
  variants) is a `List Int` of residues modulo p = 2^(wn)+1, wn = 64·limbs, limbs = (w·n)/64 as every C function
  computes it.  Core Lean only (linked into the driver).

  The arithmetic is exact integer arithmetic (no reduction): every C step is a ring operation modulo p
  (its limb-level model and theorem are in Model/FftRing.lean, Props/C01_fftring.lean):
      mpir_fft_butterfly(s,t,a,b,i,w)          (a + b, (a − b)·2^(i·w))                  `bfly`        butterfly_val
      mpir_ifft_butterfly                      b' = b/2^(i·w); (a + b', a − b')           `ibfly`       ifft_butterfly_val
      mpir_fft_adjust(r,a,i,w)                 a·2^(i·w)                                  `adj`         adjust_val
      mpir_fft_adjust_sqrt2 / butterfly_sqrt2  twiddle 2^(i/2 + wn/4 + i·(w/2))·(2^(wn/2) − 1) = (√2)^(i·w), i, w odd
                                                                                          `sq2`         adjust_sqrt2_val, butterfly_sqrt2_val
      mpir_ifft_butterfly_sqrt2                (a − b·ω', a + b·ω'), ω' = 2^(wn − i/2 − i·(w/2) − 1 + wn/4)·(2^(wn/2) − 1)
                                                                                          `isq2`        ifft_butterfly_sqrt2_val
      mpir_(i)fft_butterfly_twiddle            ((a + b)·2^b1, (a − b)·2^b2) / its inverse `bflyTw`, `ibflyTw`
      mpn_add_n / mpn_sub_n on limbs+1 limbs   + / −  (signed top limb)
      mpn_div_2expmod_2expp1(x, d)             x·2^(2wn − d)      (2^(2wn) ≡ 1 modulo p)
  A division by 2^e is written as the multiplication by 2^(2wn − e).  The driver compares `x mod p` with the
  C result after mpn_normmod_2expp1.

  The recursion `f(ii, n/2, 2w)` of the C is recursion on the depth d with n = 2^d (the C is only ever called with n
  a power of two; n = 0 would not terminate).  MP_PTR_SWAP(ii[i], *t1) is the assignment ii[i] = (new value).

  Mirrored (tie: ops `fftx_*` in Mpir/Ops/FftX.lean ↔ harness/ops_fftx.c, whole array compared):
    fft/fft_radix2.c:47-74      mpir_fft_radix2            fft_radix2
    fft/ifft_radix2.c:48-74     mpir_ifft_radix2           ifft_radix2
    fft/fft_trunc.c:33-61       mpir_fft_trunc1            fft_trunc1
    fft/fft_trunc.c:63-89       mpir_fft_trunc             fft_trunc
    fft/ifft_trunc.c:33-84      mpir_ifft_trunc1           ifft_trunc1
    fft/ifft_trunc.c:86-119     mpir_ifft_trunc            ifft_trunc
    fft/fft_trunc_sqrt2.c:78-116   mpir_fft_trunc_sqrt2    fft_trunc_sqrt2
    fft/ifft_trunc_sqrt2.c:80-121  mpir_ifft_trunc_sqrt2   ifft_trunc_sqrt2
    fft/revbin.c                mpir_revbin                revbin
    fft/fft_mfa_trunc_sqrt2.c:64-110   mpir_fft_radix2_twiddle    fft_radix2_twiddle
    fft/fft_mfa_trunc_sqrt2.c:112-142  mpir_fft_trunc1_twiddle    fft_trunc1_twiddle
    fft/fft_mfa_trunc_sqrt2.c:144-250  mpir_fft_mfa_trunc_sqrt2   fft_mfa_trunc_sqrt2
    fft/ifft_mfa_trunc_sqrt2.c:64-92   mpir_ifft_radix2_twiddle   ifft_radix2_twiddle
    fft/ifft_mfa_trunc_sqrt2.c:94-144  mpir_ifft_trunc1_twiddle   ifft_trunc1_twiddle
    fft/ifft_mfa_trunc_sqrt2.c:146-254 mpir_ifft_mfa_trunc_sqrt2  ifft_mfa_trunc_sqrt2
    fft/mul_trunc_sqrt2.c       mpn_mul_trunc_sqrt2        mul_trunc_sqrt2  (split/combine/pointwise product: the limb models of FftRing)
-/
import Mpir.Model.FftRing
namespace Mpir.FftX
open Mpir

/-- `ii[i]` -/
def el (xs : List Int) (i : Nat) : Int := xs.getD i 0

/-- `limbs*GMP_LIMB_BITS` with `limbs = (w*n)/GMP_LIMB_BITS` (first statement of every transform) -/
def wnOf (n w : Nat) : Nat := w * n / 64 * 64

/-- the modulus 2^wn + 1 -/
def pOf (wn : Nat) : Int := 2 ^ wn + 1

/-! ### the ring operations at value level -/

/-- mpir_fft_butterfly (fft_radix2.c:34-45) -/
def bfly (a b : Int) (i w : Nat) : Int × Int := (a + b, (a - b) * 2 ^ (i * w))
/-- mpir_ifft_butterfly (ifft_radix2.c:34-46) -/
def ibfly (wn : Nat) (a b : Int) (i w : Nat) : Int × Int :=
  let b' := b * 2 ^ (2 * wn - i * w)
  (a + b', a - b')
/-- mpir_fft_adjust (adjust.c) -/
def adj (a : Int) (i w : Nat) : Int := a * 2 ^ (i * w)
/-- the √2 twiddle of adjust_sqrt2.c:45 / fft_trunc_sqrt2.c:45: 2^(i/2 + wn/4 + i·(w/2))·(2^(wn/2) − 1) -/
def sq2 (wn i w : Nat) : Int := 2 ^ (i / 2 + wn / 4 + i * (w / 2)) * (2 ^ (wn / 2) - 1)
/-- mpir_fft_adjust_sqrt2 (adjust_sqrt2.c) -/
def adjSqrt2 (wn : Nat) (a : Int) (i w : Nat) : Int := a * sq2 wn i w
/-- mpir_fft_butterfly_sqrt2 (fft_trunc_sqrt2.c:34-75) -/
def bflySqrt2 (wn : Nat) (a b : Int) (i w : Nat) : Int × Int := (a + b, (a - b) * sq2 wn i w)
/-- the inverse √2 twiddle of ifft_trunc_sqrt2.c:44 (up to sign) -/
def isq2 (wn i w : Nat) : Int := 2 ^ (wn - i / 2 - i * (w / 2) - 1 + wn / 4) * (2 ^ (wn / 2) - 1)
/-- mpir_ifft_butterfly_sqrt2 (ifft_trunc_sqrt2.c:34-78) -/
def ibflySqrt2 (wn : Nat) (a b : Int) (i w : Nat) : Int × Int :=
  let b' := b * isq2 wn i w
  (a - b', a + b')
/-- mpir_fft_butterfly_twiddle (fft_mfa_trunc_sqrt2.c:34-63), b1, b2 < 2wn -/
def bflyTw (a b : Int) (b1 b2 : Nat) : Int × Int := ((a + b) * 2 ^ b1, (a - b) * 2 ^ b2)
/-- mpir_ifft_butterfly_twiddle (ifft_mfa_trunc_sqrt2.c:34-63) -/
def ibflyTw (wn : Nat) (a b : Int) (b1 b2 : Nat) : Int × Int :=
  let a' := a * 2 ^ (2 * wn - b1)
  let b' := b * 2 ^ (2 * wn - b2)
  (a' + b', a' - b')
/-- mpn_div_2expmod_2expp1(x, x, limbs, 1) -/
def half (wn : Nat) (a : Int) : Int := a * 2 ^ (2 * wn - 1)

/-- the values `ii[i]`, i < n, after a loop `for (i = 0; i < n; i++) (ii[i], ii[n+i]) = f i` -/
def fsts (n : Nat) (f : Nat → Int × Int) : List Int := (List.range n).map fun i => (f i).1
/-- the values `ii[n+i]`, i < n, after that loop -/
def snds (n : Nat) (f : Nat → Int × Int) : List Int := (List.range n).map fun i => (f i).2

/-! ### mpir_fft_radix2 (fft_radix2.c:47-74): 2n coefficients, n = 2^d -/

def fft_radix2 : Nat → Nat → List Int → List Int
  | 0, w, xs =>                                                              -- :53-61 (n == 1)
    let f := fun i => bfly (el xs i) (el xs (1 + i)) i w
    fsts 1 f ++ snds 1 f
  | d + 1, w, xs =>
    let n := 2 ^ (d + 1)
    let f := fun i => bfly (el xs i) (el xs (n + i)) i w                      -- :63-69
    fft_radix2 d (2 * w) (fsts n f) ++ fft_radix2 d (2 * w) (snds n f)        -- :71-72

/-! ### mpir_ifft_radix2 (ifft_radix2.c:48-74) -/

def ifft_radix2 : Nat → Nat → List Int → List Int
  | 0, w, xs =>                                                              -- :54-62
    let f := fun i => ibfly (wnOf 1 w) (el xs i) (el xs (1 + i)) i w
    fsts 1 f ++ snds 1 f
  | d + 1, w, xs =>
    let n := 2 ^ (d + 1)
    let ys := ifft_radix2 d (2 * w) (xs.take n) ++ ifft_radix2 d (2 * w) (xs.drop n)     -- :64-65
    let f := fun i => ibfly (wnOf n w) (el ys i) (el ys (n + i)) i w          -- :67-73
    fsts n f ++ snds n f

/-! ### mpir_fft_trunc1 (fft_trunc.c:33-61): the first `trunc` outputs of the full transform; trunc even,
    2 ≤ trunc ≤ 2n (an odd or zero trunc reaches n = 0, where the C does not terminate: the d = 0 case
    returns the input there and the ops reject such calls) -/

def fft_trunc1 : Nat → Nat → Nat → List Int → List Int
  | 0, w, trunc, xs => if trunc = 2 then fft_radix2 0 w xs else xs
  | d + 1, w, trunc, xs =>
    let n := 2 ^ (d + 1)
    if trunc = 2 * n then fft_radix2 (d + 1) w xs                            -- :40-41
    else if trunc ≤ n then
      let s := (List.range n).map fun i => el xs i + el xs (i + n)           -- :44-45
      fft_trunc1 d (2 * w) trunc s ++ xs.drop n                              -- :47
    else
      let f := fun i => bfly (el xs i) (el xs (n + i)) i w                    -- :50-56
      fft_radix2 d (2 * w) (fsts n f) ++ fft_trunc1 d (2 * w) (trunc - n) (snds n f)      -- :58-59

/-! ### mpir_fft_trunc (fft_trunc.c:63-89): inputs zero from `trunc` on -/

def fft_trunc : Nat → Nat → Nat → List Int → List Int
  | 0, w, trunc, xs => if trunc = 2 then fft_radix2 0 w xs else xs
  | d + 1, w, trunc, xs =>
    let n := 2 ^ (d + 1)
    if trunc = 2 * n then fft_radix2 (d + 1) w xs                            -- :69-70
    else if trunc ≤ n then fft_trunc d (2 * w) trunc (xs.take n) ++ xs.drop n      -- :71-72
    else
      let f := fun i =>
        if i < trunc - n then bfly (el xs i) (el xs (n + i)) i w              -- :75-81
        else (el xs i, adj (el xs i) i w)                                     -- :83-84
      fft_radix2 d (2 * w) (fsts n f) ++ fft_trunc1 d (2 * w) (trunc - n) (snds n f)      -- :86-87

/-! ### mpir_ifft_trunc1 (ifft_trunc.c:33-84) -/

def ifft_trunc1 : Nat → Nat → Nat → List Int → List Int
  | 0, w, trunc, xs => if trunc = 2 then ifft_radix2 0 w xs else xs
  | d + 1, w, trunc, xs =>
    let n := 2 ^ (d + 1)
    let wn := wnOf n w
    if trunc = 2 * n then ifft_radix2 (d + 1) w xs                           -- :39-40
    else if trunc ≤ n then
      let first := (List.range n).map fun i =>
        if trunc ≤ i then half wn (el xs i + el xs (i + n)) else el xs i      -- :43-47
      let first := ifft_trunc1 d (2 * w) trunc first                          -- :49
      (List.range n).map (fun i =>
        if i < trunc then 2 * el first i - el xs (n + i) else el first i)     -- :51-59
        ++ xs.drop n
    else
      let first := ifft_radix2 d (2 * w) (xs.take n)                          -- :63
      let g := fun i =>
        if trunc - n ≤ i then
          let v := el first i - el xs (i + n)                                 -- :67
          (el first i + v, adj v i w)                                         -- :68-70
        else (el first i, el xs (i + n))
      let first := fsts n g
      let second := ifft_trunc1 d (2 * w) (trunc - n) (snds n g)              -- :73
      let h := fun i =>
        if i < trunc - n then ibfly wn (el first i) (el second i) i w         -- :75-81
        else (el first i, el second i)
      fsts n h ++ snds n h

/-! ### mpir_ifft_trunc (ifft_trunc.c:86-119) -/

def ifft_trunc : Nat → Nat → Nat → List Int → List Int
  | 0, w, trunc, xs => if trunc = 2 then ifft_radix2 0 w xs else xs
  | d + 1, w, trunc, xs =>
    let n := 2 ^ (d + 1)
    let wn := wnOf n w
    if trunc = 2 * n then ifft_radix2 (d + 1) w xs                           -- :92-93
    else if trunc ≤ n then
      let first := ifft_trunc d (2 * w) trunc (xs.take n)                     -- :96
      (List.range n).map (fun i => if i < trunc then 2 * el first i else el first i)    -- :98-99
        ++ xs.drop n
    else
      let first := ifft_radix2 d (2 * w) (xs.take n)                          -- :102
      let second := (List.range n).map fun i =>
        if trunc - n ≤ i then adj (el first i) i w else el xs (i + n)         -- :104-105
      let second := ifft_trunc1 d (2 * w) (trunc - n) second                  -- :107
      let h := fun i =>
        if i < trunc - n then ibfly wn (el first i) (el second i) i w         -- :109-115
        else (2 * el first i, el second i)                                    -- :117-118
      fsts n h ++ snds n h

/-! ### mpir_fft_trunc_sqrt2 (fft_trunc_sqrt2.c:78-116): 4n coefficients, 2n < trunc ≤ 4n, trunc even -/

def fft_trunc_sqrt2 (d w trunc : Nat) (xs : List Int) : List Int :=
  let n := 2 ^ d
  let wn := wnOf n w
  if w % 2 = 0 then fft_trunc (d + 1) (w / 2) trunc xs                       -- :84-88
  else
    let f := fun i =>
      if i < trunc - 2 * n then
        if i % 2 = 0 then bfly (el xs i) (el xs (2 * n + i)) (i / 2) w        -- :92
        else bflySqrt2 wn (el xs i) (el xs (2 * n + i)) i w                   -- :99
      else
        (el xs i, if i % 2 = 0 then adj (el xs i) (i / 2) w                   -- :107
                  else adjSqrt2 wn (el xs i) i w)                             -- :111
    fft_radix2 d w (fsts (2 * n) f) ++ fft_trunc1 d w (trunc - 2 * n) (snds (2 * n) f)    -- :114-115

/-! ### mpir_ifft_trunc_sqrt2 (ifft_trunc_sqrt2.c:80-121) -/

def ifft_trunc_sqrt2 (d w trunc : Nat) (xs : List Int) : List Int :=
  let n := 2 ^ d
  let wn := wnOf n w
  if w % 2 = 0 then ifft_trunc (d + 1) (w / 2) trunc xs                      -- :86-90
  else
    let first := ifft_radix2 d w (xs.take (2 * n))                            -- :92
    let second := (List.range (2 * n)).map fun i =>
      if trunc - 2 * n ≤ i then
        if i % 2 = 0 then adj (el first i) (i / 2) w                          -- :96
        else adjSqrt2 wn (el first i) i w                                     -- :100
      else el xs (i + 2 * n)
    let second := ifft_trunc1 d w (trunc - 2 * n) second                      -- :103
    let h := fun i =>
      if i < trunc - 2 * n then
        if i % 2 = 0 then ibfly wn (el first i) (el second i) (i / 2) w       -- :107
        else ibflySqrt2 wn (el first i) (el second i) i w                     -- :114
      else (2 * el first i, el second i)                                      -- :120-121
    fsts (2 * n) h ++ snds (2 * n) h

/-! ### mpir_revbin (revbin.c) -/

def revtab : List (List Nat) :=
  [[0], [0, 1], [0, 2, 1, 3], [0, 4, 2, 6, 1, 5, 3, 7], [0, 8, 4, 12, 2, 10, 6, 14, 1, 9, 5, 13, 3, 11, 7, 15]]

/-- the loop :52-57 -/
def revLoop : Nat → Nat → Nat → Nat
  | 0, _, out => out
  | k + 1, x, out => revLoop k (x / 2) (2 * out + x % 2)

def revbin (x bits : Nat) : Nat :=
  if bits ≤ 4 then (revtab.getD bits []).getD x 0                             -- :49-50
  else revLoop bits x 0

/-- `for (j = 0; j < m; j++) { s = mpir_revbin(j, depth); if (j < s) MP_PTR_SWAP(c[j], c[s]); }`: every pair
    {j, rev j} is swapped once, i.e. new c[j] = old c[rev j] -/
def revPerm (depth : Nat) (c : List Int) : List Int :=
  (List.range c.length).map fun j => el c (revbin j depth)

/-- the first `cnt` pairs {j, rev j}, j < cnt, swapped (ifft_mfa_trunc_sqrt2.c:199-203: j runs to trunc2 only) -/
def revSwaps (depth cnt : Nat) (c : List Int) : List Int :=
  (List.range cnt).foldl (fun c j =>
    let s := revbin j depth
    if j < s then (c.set j (el c s)).set s (el c j) else c) c

/-- `depth = 0; while ((1 << depth) < m) depth++;` -/
def clog2 (m : Nat) : Nat := if m ≤ 1 then 0 else Nat.log2 (m - 1) + 1

/-! ### strided access: column `ii[off + j*is]`, j < cnt -/

def getCol (xs : List Int) (off is cnt : Nat) : List Int := (List.range cnt).map fun j => el xs (off + j * is)

def setCol (xs : List Int) (off is : Nat) (col : List Int) : List Int :=
  (List.range xs.length).map fun k =>
    if off ≤ k ∧ (k - off) % is = 0 ∧ (k - off) / is < col.length then el col ((k - off) / is) else el xs k

/-! ### mpir_fft_radix2_twiddle (fft_mfa_trunc_sqrt2.c:64-110) on the column `ii[0], ii[is], …` (2n entries) -/

def fft_radix2_twiddle : Nat → Nat → Nat → Nat → Nat → Nat → List Int → List Int
  | 0, _, ws, r, c, rs, xs =>                                                 -- :78-88
    let tw1 := r * c
    let tw2 := tw1 + rs * c
    let uv := bflyTw (el xs 0) (el xs 1) (tw1 * ws) (tw2 * ws)
    [uv.1, uv.2]
  | d + 1, w, ws, r, c, rs, xs =>
    let n := 2 ^ (d + 1)
    let f := fun i => bfly (el xs i) (el xs (n + i)) i w                      -- :90-96
    fft_radix2_twiddle d (2 * w) ws r c (2 * rs) (fsts n f) ++                -- :98
      fft_radix2_twiddle d (2 * w) ws (r + rs) c (2 * rs) (snds n f)          -- :107

/-! ### mpir_fft_trunc1_twiddle (fft_mfa_trunc_sqrt2.c:112-142) -/

def fft_trunc1_twiddle : Nat → Nat → Nat → Nat → Nat → Nat → Nat → List Int → List Int
  | 0, w, ws, r, c, rs, trunc, xs => if trunc = 2 then fft_radix2_twiddle 0 w ws r c rs xs else xs
  | d + 1, w, ws, r, c, rs, trunc, xs =>
    let n := 2 ^ (d + 1)
    if trunc = 2 * n then fft_radix2_twiddle (d + 1) w ws r c rs xs           -- :119-120
    else if trunc ≤ n then
      let s := (List.range n).map fun i => el xs i + el xs (i + n)            -- :123-124
      fft_trunc1_twiddle d (2 * w) ws r c (2 * rs) trunc s ++ xs.drop n       -- :126
    else
      let f := fun i => bfly (el xs i) (el xs (n + i)) i w                     -- :129-135
      fft_radix2_twiddle d (2 * w) ws r c (2 * rs) (fsts n f) ++               -- :137
        fft_trunc1_twiddle d (2 * w) ws (r + rs) c (2 * rs) (trunc - n) (snds n f)      -- :138-139

/-- rows `[i*n1, (i+1)*n1)` of `xs` (from offset `off`) replaced by `f` of them, for the listed rows -/
def onRows (xs : List Int) (off n1 : Nat) (rows : List Nat) (f : List Int → List Int) : List Int :=
  rows.foldl (fun xs i =>
    let a := off + i * n1
    xs.take a ++ f ((xs.drop a).take n1) ++ xs.drop (a + n1)) xs

/-! ### mpir_fft_mfa_trunc_sqrt2 (fft_mfa_trunc_sqrt2.c:144-250): 4n coefficients as two n2 × n1 matrices,
    n2 = 2n/n1; n1 even, n2 ≥ 2, 2n < trunc ≤ 4n, trunc a multiple of 2·n1 -/

def fft_mfa_trunc_sqrt2 (d w n1 trunc : Nat) (xs : List Int) : List Int :=
  let n := 2 ^ d
  let n2 := 2 * n / n1
  let trunc2 := (trunc - 2 * n) / n1
  let wn := wnOf n w
  let depth := clog2 n2
  let depth2 := clog2 n1
  -- first half: FFTs on columns (:160-204)
  let xs := (List.range n1).foldl (fun xs i =>
    let ca := getCol xs i n1 n2
    let cb := getCol xs (2 * n + i) n1 n2
    let f := fun m =>
      let j := i + m * n1
      if w % 2 = 1 then                                                       -- :163
        if j < trunc - 2 * n then
          if j % 2 = 1 then bflySqrt2 wn (el ca m) (el cb m) j w              -- :167-168
          else bfly (el ca m) (el cb m) (j / 2) w                             -- :170
        else
          (el ca m, if i % 2 = 1 then adjSqrt2 wn (el ca m) j w               -- :178-179
                    else adj (el ca m) (j / 2) w)                             -- :181
      else
        if j < trunc - 2 * n then bfly (el ca m) (el cb m) j (w / 2)          -- :187
        else (el ca m, adj (el ca m) j (w / 2))                               -- :194
    let ca := fft_radix2_twiddle (depth - 1) (w * n1) w 0 i 1 (fsts n2 f)     -- :202
    let ca := revPerm depth ca                                                -- :203-207
    setCol (setCol xs i n1 ca) (2 * n + i) n1 (snds n2 f)) xs
  -- FFTs on rows (:211-219)
  let xs := onRows xs 0 n1 (List.range n2) fun row => revPerm depth2 (fft_radix2 (depth2 - 1) (w * n2) row)
  -- second half: FFTs on columns (:225-239)
  let xs := (List.range n1).foldl (fun xs i =>
    let cb := getCol xs (2 * n + i) n1 n2
    let cb := fft_trunc1_twiddle (depth - 1) (w * n1) w 0 i 1 trunc2 cb       -- :232
    setCol xs (2 * n + i) n1 (revPerm depth cb)) xs                           -- :233-237
  -- FFTs on relevant rows (:242-252)
  onRows xs (2 * n) n1 ((List.range trunc2).map fun s => revbin s depth)
    fun row => revPerm depth2 (fft_radix2 (depth2 - 1) (w * n2) row)

/-! ### mpir_ifft_radix2_twiddle (ifft_mfa_trunc_sqrt2.c:64-92) -/

def ifft_radix2_twiddle : Nat → Nat → Nat → Nat → Nat → Nat → List Int → List Int
  | 0, w, ws, r, c, rs, xs =>                                                 -- :71-81
    let tw1 := r * c
    let tw2 := tw1 + rs * c
    let uv := ibflyTw (wnOf 1 w) (el xs 0) (el xs 1) (tw1 * ws) (tw2 * ws)
    [uv.1, uv.2]
  | d + 1, w, ws, r, c, rs, xs =>
    let n := 2 ^ (d + 1)
    let ys := ifft_radix2_twiddle d (2 * w) ws r c (2 * rs) (xs.take n) ++    -- :83
      ifft_radix2_twiddle d (2 * w) ws (r + rs) c (2 * rs) (xs.drop n)        -- :84
    let f := fun i => ibfly (wnOf n w) (el ys i) (el ys (n + i)) i w          -- :86-92
    fsts n f ++ snds n f

/-! ### mpir_ifft_trunc1_twiddle (ifft_mfa_trunc_sqrt2.c:94-144) -/

def ifft_trunc1_twiddle : Nat → Nat → Nat → Nat → Nat → Nat → Nat → List Int → List Int
  | 0, w, ws, r, c, rs, trunc, xs => if trunc = 2 then ifft_radix2_twiddle 0 w ws r c rs xs else xs
  | d + 1, w, ws, r, c, rs, trunc, xs =>
    let n := 2 ^ (d + 1)
    let wn := wnOf n w
    if trunc = 2 * n then ifft_radix2_twiddle (d + 1) w ws r c rs xs          -- :101-102
    else if trunc ≤ n then
      let first := (List.range n).map fun i =>
        if trunc ≤ i then half wn (el xs i + el xs (i + n)) else el xs i      -- :105-109
      let first := ifft_trunc1_twiddle d (2 * w) ws r c (2 * rs) trunc first  -- :111
      (List.range n).map (fun i =>
        if i < trunc then 2 * el first i - el xs (n + i) else el first i)     -- :113-121
        ++ xs.drop n
    else
      let first := ifft_radix2_twiddle d (2 * w) ws r c (2 * rs) (xs.take n)  -- :125
      let g := fun i =>
        if trunc - n ≤ i then
          let v := el first i - el xs (i + n)                                 -- :129
          (el first i + v, adj v i w)                                         -- :130-132
        else (el first i, el xs (i + n))
      let first := fsts n g
      let second := ifft_trunc1_twiddle d (2 * w) ws (r + rs) c (2 * rs) (trunc - n) (snds n g)     -- :135
      let h := fun i =>
        if i < trunc - n then ibfly wn (el first i) (el second i) i w         -- :137-143
        else (el first i, el second i)
      fsts n h ++ snds n h

/-! ### mpir_ifft_mfa_trunc_sqrt2 (ifft_mfa_trunc_sqrt2.c:146-254) -/

def ifft_mfa_trunc_sqrt2 (d w n1 trunc : Nat) (xs : List Int) : List Int :=
  let n := 2 ^ d
  let n2 := 2 * n / n1
  let trunc2 := (trunc - 2 * n) / n1
  let wn := wnOf n w
  let depth := clog2 n2
  let depth2 := clog2 n1
  -- first half: row IFFTs (:163-172)
  let xs := onRows xs 0 n1 (List.range n2) fun row => ifft_radix2 (depth2 - 1) (w * n2) (revPerm depth2 row)
  -- column IFFTs (:175-188)
  let xs := (List.range n1).foldl (fun xs i =>
    let ca := revPerm depth (getCol xs i n1 n2)
    setCol xs i n1 (ifft_radix2_twiddle (depth - 1) (w * n1) w 0 i 1 ca)) xs
  -- second half: row IFFTs on the relevant rows (:194-204)
  let xs := onRows xs (2 * n) n1 ((List.range trunc2).map fun s => revbin s depth)
    fun row => ifft_radix2 (depth2 - 1) (w * n2) (revPerm depth2 row)
  -- column IFFTs with the √2 layer (:207-260)
  (List.range n1).foldl (fun xs i =>
    let ca := getCol xs i n1 n2
    let cb := revSwaps depth trunc2 (getCol xs (2 * n + i) n1 n2)             -- :209-213
    let cb := (List.range n2).map fun j =>
      if trunc2 ≤ j then
        let u := i + j * n1
        if w % 2 = 1 then
          if i % 2 = 1 then adjSqrt2 wn (el ca j) u w                         -- :221
          else adj (el ca j) (u / 2) w                                        -- :223
        else adj (el ca j) u (w / 2)                                          -- :225
      else el cb j
    let cb := ifft_trunc1_twiddle (depth - 1) (w * n1) w 0 i 1 trunc2 cb      -- :232
    let h := fun m =>
      let j := i + m * n1
      if j < trunc - 2 * n then
        if w % 2 = 1 then
          if j % 2 = 1 then ibflySqrt2 wn (el ca m) (el cb m) j w             -- :240
          else ibfly wn (el ca m) (el cb m) (j / 2) w                         -- :242
        else ibfly wn (el ca m) (el cb m) j (w / 2)                           -- :252
      else (2 * el ca m, el cb m)                                             -- :259-260
    setCol (setCol xs i n1 (fsts n2 h)) (2 * n + i) n1 (snds n2 h)) xs

/-! ### mpn_mul_trunc_sqrt2 (mul_trunc_sqrt2.c): limbs → coefficients → transforms → pointwise products → limbs -/

/-- the canonical residue of `v` modulo 2^(64·limbs)+1 as mpn_normmod_2expp1 leaves it: `limbs` low limbs and
    top limb 0, or (0,…,0,1) for 2^(64·limbs) -/
def canon (limbs : Nat) (v : Int) : List Nat :=
  let r := (v % pOf (64 * limbs)).toNat
  if r = 2 ^ (64 * limbs) then List.replicate limbs 0 ++ [1] else toLimbs limbs r ++ [0]

/-- pointwise product (mul_trunc_sqrt2.c:96-103): normalise, c = 2·ii[j][limbs] + jj[j][limbs], basecase product -/
def pointwise (limbs nw : Nat) (a b : Int) : Int :=
  let x := canon limbs a                                                      -- :98
  let y := canon limbs b                                                      -- :99
  let c := 2 * Fft.top x + Fft.top y                                          -- :100
  let r := Fft.mulmod_2expp1_basecase (Fft.lo x) (Fft.lo y) c nw              -- :102
  (val r.1 : Int) + 2 ^ nw * (r.2 : Int)

def mul_trunc_sqrt2 (i1 i2 : List Nat) (depth w : Nat) : List Nat :=
  let n := 2 ^ depth                                                          -- :37
  let bits1 := (n * w - (depth + 1)) / 2                                      -- :38
  let r_limbs := i1.length + i2.length                                        -- :40
  let limbs := n * w / 64                                                     -- :41
  let j1 := (i1.length * 64 - 1) / bits1 + 1                                  -- :44
  let j2 := (i2.length * 64 - 1) / bits1 + 1                                  -- :45
  let trunc := j1 + j2 - 1                                                    -- :78
  let trunc := if trunc ≤ 2 * n then 2 * n + 1 else trunc                     -- :79
  let trunc := 2 * ((trunc + 1) / 2)                                          -- :80
  let pad := fun (cs : List (List Nat)) =>
    (cs.map fun c => Fft.rval c) ++ List.replicate (4 * n - cs.length) (0 : Int)     -- :82-84
  let ii := fft_trunc_sqrt2 depth w trunc (pad (Fft.split_bits i1 bits1 limbs))      -- :82-86
  let jj := fft_trunc_sqrt2 depth w trunc (pad (Fft.split_bits i2 bits1 limbs))      -- :90-93
  let ii := (List.range (4 * n)).map fun j =>
    if j < trunc then pointwise limbs (n * w) (el ii j) (el jj j) else el ii j       -- :96-103
  let ii := ifft_trunc_sqrt2 depth w trunc ii                                 -- :105
  let cs := (List.range (j1 + j2 - 1)).map fun j =>
    canon limbs (el ii j * 2 ^ (2 * (64 * limbs) - (depth + 2)))              -- :106-110
  Fft.combine_bits (List.replicate r_limbs 0) cs bits1 limbs                  -- :112-113

end Mpir.FftX
