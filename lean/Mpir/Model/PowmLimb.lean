/-
  C08, limb level of modular exponentiation.  Core Lean only (linked into the driver).

  Source mirrored (tie = correspondence, ops in Mpir/Ops/PowmLimb.lean, C side harness/ops_powmlimb.c):
    mpn/generic/redc_n.c   mpn_redc_n       limb lists, the scratch area `yp[0..2n)`, the wrap-around
                                            recovery with its borrow, final subtraction and add-back
    mpn/generic/powm.c     mpn_powm         memory model: `rp`, the caller's scratch `tp` (itch limbs),
                                            the table `pp` (n << (w-1) limbs), every access bounds-checked
    mpn/generic/powlo.c    mpn_powlo        memory model: `rp`, `tp` (3n limbs), `pp`
  The value-level models and the scalar code (`getbits`, `win_size`, `redc_1`, `redc_n`, `binvert`,
  `windowExp`, …) are those of Mpir/Model/Powm.lean; the theorems in MpirProofs/Props/C08_limb.lean show
  that the memory-level models compute the same limbs and never leave their areas.
-/
import Mpir.Base
import Mpir.Model.Kernels
import Mpir.Model.Powm
namespace Mpir.PowmL
open Mpir Mpir.Powm

/-! ## mpn_redc_n (redc_n.c) -/

/-- mpn_mulmod_bnm1 (yp, rn, xp, n, mp, n, scratch) for `2n ≥ rn` (mulmod_2expm1.c:297): SOME
    representative in `rn` limbs of the product modulo `B^rn − 1`; the product 0 is represented by 0,
    the class of 0 otherwise by 0 or by `B^rn − 1` (mulmod_2expm1.c:34).  The executable model takes
    the least representative; `redc_n_limb_spec` holds for every representative. -/
def mulmodBnm1 (rn : Nat) (xp mp : List Nat) : List Nat :=
  toLimbs rn ((val xp * val mp) % (B ^ rn - 1))

/-- redc_n.c:71-78 from the output `yres = yp[0..rn)` of mpn_mulmod_bnm1 on.
    Returns `rp[0..n)` and a flag: `false` if ASSERT_ALWAYS (2n > rn) fails or if the borrow of
    MPN_DECR_U runs off the end of `yp[0..2n)`. -/
def redcNCore (rn : Nat) (up mp yres : List Nat) : List Nat × Bool :=
  let n := mp.length
  if 2 * n ≤ rn then ([], false) else                         -- ASSERT_ALWAYS (2 * n > rn)
  let k := 2 * n - rn
  let (d, cy) := sub_n (yres.take k) (up.take k)              -- cy = mpn_sub_n (yp + rn, yp, up, 2*n - rn)
  let yp := yres ++ d                                         -- yp[0..2n)
  let (seg, bw) := sub_1 (yp.drop k) cy                       -- MPN_DECR_U (yp + 2*n - rn, rn, cy)
  let yp := yp.take k ++ seg
  let (rp, cy2) := sub_n (up.drop n) ((yp.drop n).take n)     -- cy = mpn_sub_n (rp, up + n, yp + n, n)
  let rp := if cy2 != 0 then (add_n rp mp).1 else rp          -- if (cy != 0) mpn_add_n (rp, rp, mp, n)
  (rp, bw == 0)

/-- mpn_redc_n (rp, up, mp, n, ip), `rn = mpn_mulmod_bnm1_next_size (n)`:
    `up` has 2n limbs, `mp` and `ip` n limbs, `ip·m ≡ +1 (mod B^n)` (the inverse as mpn_binvert returns
    it, NOT negated — redc_1/redc_2 take the negated inverse). -/
def redcN (rn : Nat) (up mp ip : List Nat) : List Nat × Bool :=
  let n := mp.length
  let xp := toLimbs n (val (up.take n) * val ip)              -- mpn_mullow_n (xp, up, ip, n)
  let yres := mulmodBnm1 rn xp mp                             -- mpn_mulmod_bnm1 (yp, rn, xp, n, mp, n, ...)
  redcNCore rn up mp yres

end Mpir.PowmL
