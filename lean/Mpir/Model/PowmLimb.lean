/-
  C08, limb level of modular exponentiation.  Core Lean only (linked into the driver).

  Source mirrored (tie = correspondence, ops in Mpir/Ops/PowmLimb.lean, C side harness/ops_powmlimb.c):
    mpn/generic/redc_n.c   mpn_redc_n       limb lists, the scratch area `yp[0..2n)`, the wrap-around
                                            recovery with its borrow, final subtraction and add-back
    mpn/generic/powm.c     mpn_powm         memory model: `rp`, the caller's scratch `tp` (itch limbs),
                                            the table `pp` (n << (w-1) limbs), every access bounds-checked
    mpn/generic/powlo.c    mpn_powlo        memory model: `rp`, `tp` (3n limbs), `pp`
  The value-level models and the scalar code (`getbits`, `win_size`, `redc_1`, `redc_n`, `binvert`,
  `windowExp`, …) are those of Mpir/Model/Powm.lean; the theorems in MpirProofs/Props/C08_limb.lean show
  that the memory-level models compute the same limbs and never leave their areas.
-/
import Mpir.Base
import Mpir.Model.Kernels
import Mpir.Model.Powm
namespace Mpir.PowmL
open Mpir Mpir.Powm

/-! ## mpn_redc_n (redc_n.c) -/

/-- mpn_mulmod_bnm1 (yp, rn, xp, n, mp, n, scratch) for `2n ≥ rn` (mulmod_2expm1.c:297): SOME
    representative in `rn` limbs of the product modulo `B^rn − 1`; the product 0 is represented by 0,
    the class of 0 otherwise by 0 or by `B^rn − 1` (mulmod_2expm1.c:34).  The executable model takes
    the least representative; `redc_n_limb_spec` holds for every representative. -/
def mulmodBnm1 (rn : Nat) (xp mp : List Nat) : List Nat :=
  toLimbs rn ((val xp * val mp) % (B ^ rn - 1))

/-- redc_n.c:71-78 from the output `yres = yp[0..rn)` of mpn_mulmod_bnm1 on.
    Returns `rp[0..n)` and a flag: `false` if ASSERT_ALWAYS (2n > rn) fails or if the borrow of
    MPN_DECR_U runs off the end of `yp[0..2n)`. -/
def redcNCore (rn : Nat) (up mp yres : List Nat) : List Nat × Bool :=
  let n := mp.length
  if 2 * n ≤ rn then ([], false) else                         -- ASSERT_ALWAYS (2 * n > rn)
  let k := 2 * n - rn
  let (d, cy) := sub_n (yres.take k) (up.take k)              -- cy = mpn_sub_n (yp + rn, yp, up, 2*n - rn)
  let yp := yres ++ d                                         -- yp[0..2n)
  let (seg, bw) := sub_1 (yp.drop k) cy                       -- MPN_DECR_U (yp + 2*n - rn, rn, cy)
  let yp := yp.take k ++ seg
  let (rp, cy2) := sub_n (up.drop n) ((yp.drop n).take n)     -- cy = mpn_sub_n (rp, up + n, yp + n, n)
  let rp := if cy2 != 0 then (add_n rp mp).1 else rp          -- if (cy != 0) mpn_add_n (rp, rp, mp, n)
  (rp, bw == 0)

/-- mpn_redc_n (rp, up, mp, n, ip), `rn = mpn_mulmod_bnm1_next_size (n)`:
    `up` has 2n limbs, `mp` and `ip` n limbs, `ip·m ≡ +1 (mod B^n)` (the inverse as mpn_binvert returns
    it, NOT negated — redc_1/redc_2 take the negated inverse). -/
def redcN (rn : Nat) (up mp ip : List Nat) : List Nat × Bool :=
  let n := mp.length
  let xp := toLimbs n (val (up.take n) * val ip)              -- mpn_mullow_n (xp, up, ip, n)
  let yres := mulmodBnm1 rn xp mp                             -- mpn_mulmod_bnm1 (yp, rn, xp, n, mp, n, ...)
  redcNCore rn up mp yres


/-! ## memory areas

An area is the list of its limbs; `store`/`load` are bounds-checked: an access that leaves the area
returns `false` (and leaves the area unchanged / yields zeros).  The models below AND every such flag
into their `ok`. -/

def store (a : List Nat) (off : Nat) (d : List Nat) : List Nat × Bool :=
  if off + d.length ≤ a.length then (a.take off ++ d ++ a.drop (off + d.length), true) else (a, false)

def load (a : List Nat) (off len : Nat) : List Nat × Bool :=
  if off + len ≤ a.length then ((a.drop off).take len, true) else (zeros len, false)

/-! ## mpn_powm (powm.c:158-580), build without WANT_REDC_2 (config.h: no native addmul_2 / redc_2) -/

/-- powm.c:211-222: `mip[0] = -modlimb_invert (mp[0])` below REDC_1_TO_REDC_N_THRESHOLD, else the
    n-limb `mpn_binvert (mip, mp, n, tp)` (positive inverse). -/
def mipOf (thr : Nat) (mp : List Nat) : List Nat :=
  if mp.length < thr then [(B - modlimb_invert (mp.headD 1)) % B]
  else toLimbs mp.length (binvert (val mp) mp.length)

/-- MPN_REDC_1 (rp, tp, mp, n, mip[0]) / mpn_redc_n (rp, tp, mp, n, mip) on the 2n limbs `u` read from `tp`. -/
def reduceL (thr : Nat) (nextSize : Nat → Nat) (mp mip u : List Nat) : List Nat × Bool :=
  if mp.length < thr then (redc_1 u mp (mip.headD 0), true)
  else redcN (nextSize mp.length) u mp mip

/-- `mpn_mul_n (tp, a, b, n)` / `mpn_sqr (tp, a, n)` followed by the reduction of `tp[0..2n)`:
    returns the n result limbs, the new `tp` and the access flag. -/
def mulRed (red : List Nat → List Nat × Bool) (n : Nat) (tp a b : List Nat) : List Nat × List Nat × Bool :=
  let (tp, ok1) := store tp 0 (toLimbs (2 * n) (val a * val b))     -- product: 2n limbs at tp
  let (u, ok2) := load tp 0 (2 * n)                                  -- REDC reads tp[0..2n)
  let (r, ok3) := red u
  (r, tp, ok1 && ok2 && ok3)

/-- `pp = TMP_ALLOC_LIMBS (n << (windowsize - 1))`: entry `i` is `pp[n·i .. n·i + n)`.  The table is kept
    as the list of its entries; an access to entry `i` is inside the allocation iff `inPP n w i`. -/
def inPP (n w i : Nat) : Bool := n * i + n ≤ n <<< (w - 1)

structure St where
  rp : List Nat      -- n limbs
  tp : List Nat      -- the caller's scratch
  ok : Bool

/-- powm.c:244-259: `c` further odd powers; `j` = index of `this_pp`; `b2` = the limbs at `rp`. -/
def precomp (red : List Nat → List Nat × Bool) (n w : Nat) (b2 : List Nat) :
    Nat → Nat → List (List Nat) → List Nat → Bool → List (List Nat) × List Nat × Bool
  | 0, _, pp, tp, ok => (pp, tp, ok)
  | c + 1, j, pp, tp, ok =>
      let x := pp.getD j (zeros n)
      let p := mulRed red n tp x b2                       -- mpn_mul_n (tp, this_pp, rp, n)
      -- this_pp += n; REDC (this_pp, tp, mp, n, mip)
      precomp red n w b2 c (j + 1) (pp.set (j + 1) p.1) p.2.1 (ok && p.2.2 && inPP n w j && inPP n w (j + 1))

/-- powm.c:224-259: `pp` allocated, `redcify`, `b^2` at `rp`, the odd powers.  Returns (pp, tp, ok). -/
def powmTable (red : List Nat → List Nat × Bool) (n w : Nat) (tp : List Nat) (ok : Bool) (b m : Nat) :
    List (List Nat) × List Nat × Bool :=
  let pp := List.replicate (2 ^ (w - 1)) (zeros n)                  -- pp = TMP_ALLOC_LIMBS (n << (windowsize - 1))
  let pp := pp.set 0 (toLimbs n ((b * B ^ n) % m))                  -- redcify (this_pp, bp, bn, mp, n)
  let e0 := pp.getD 0 (zeros n)
  let p := mulRed red n tp e0 e0                                    -- mpn_sqr (tp, this_pp, n); REDC (rp, tp)
  precomp red n w p.1 (2 ^ (w - 1) - 1) 0 pp p.2.1 (ok && inPP n w 0 && p.2.2)

/-- `MPN_SQR (tp, rp, n); MPN_REDUCE (rp, tp, mp, n, mip)` -/
def sqrSt (red : List Nat → List Nat × Bool) (n : Nat) (s : St) : St :=
  let p := mulRed red n s.tp s.rp s.rp
  { rp := p.1, tp := p.2.1, ok := s.ok && p.2.2 }

/-- `MPN_MUL_N (tp, rp, pp + n * (expbits >> 1), n); MPN_REDUCE (rp, tp, mp, n, mip)`; `t` = the table entry
    as `tableSt` delivers it (its `ok` is the bounds check of the entry). -/
def mulSt (red : List Nat → List Nat × Bool) (n : Nat) (s t : St) : St :=
  let p := mulRed red n s.tp s.rp t.rp
  { rp := p.1, tp := p.2.1, ok := s.ok && t.ok && p.2.2 }

/-- `pp + n * i` read as n limbs (powm.c:271 `MPN_COPY (rp, pp + n * (expbits >> 1), n)` and :312). -/
def tableSt (n w : Nat) (pp : List (List Nat)) (tp : List Nat) (ok : Bool) (i : Nat) : St :=
  { rp := pp.getD i (zeros n), tp := tp, ok := ok && inPP n w i }

/-- powm.c:559-577: conversion out of Montgomery form and canonicalisation. -/
def powmFinish (red : List Nat → List Nat × Bool) (mp : List Nat) (s : St) : List Nat × Bool :=
  let n := mp.length
  let a := store s.tp 0 s.rp                                        -- MPN_COPY (tp, rp, n)
  let b := store a.1 n (zeros n)                                    -- MPN_ZERO (tp + n, n)
  let u := load b.1 0 (2 * n)
  let r := red u.1                                                  -- REDC (rp, tp, mp, n, mip)
  let rp := if cmp r.1 mp ≥ 0 then (sub_n r.1 mp).1 else r.1        -- if (mpn_cmp (rp, mp, n) >= 0) mpn_sub_n (rp, rp, mp, n)
  (rp, s.ok && a.2 && b.2 && u.2 && r.2)

/-- mpn_powm (rp, bp, bn, ep, en, mp, n, tp) with `tp` an area of `itch` limbs.
    `thr` = REDC_1_TO_REDC_N_THRESHOLD, `nextSize` = mpn_mulmod_bnm1_next_size, `binvItch` = mpn_binvert_itch.
    Returns `rp[0..n)` and `ok` (false if any access left `tp` or `pp`, or redc_n's recovery overflowed). -/
def mpnPowmMem (thr : Nat) (nextSize binvItch : Nat → Nat) (itch : Nat) (bp ep mp : List Nat) : List Nat × Bool :=
  let n := mp.length
  let ebi := sizeinbase2 ep                                         -- MPN_SIZEINBASE_2EXP (ebi, ep, en, 1)
  let w := win_size ebi                                             -- windowsize = win_size (ebi)
  let tp := zeros itch
  let mip := mipOf thr mp
  let ok := if n < thr then true else decide (binvItch n ≤ itch)    -- mpn_binvert (mip, mp, n, tp) uses tp[0..binvert_itch(n))
  let red := reduceL thr nextSize mp mip
  let t := powmTable red n w tp ok (val bp) (val mp)
  -- powm.c:261-314 through the generic window code (windowInit = lines 261-271, windowLoop = INNERLOOP)
  let s := windowExp (sqrSt red n) (mulSt red n) (tableSt n w t.1 t.2.1 t.2.2) ep ebi w
  powmFinish red mp s


/-! ## mpn_powlo (powlo.c:88-173) on memory -/

/-- `pp = TMP_ALLOC_LIMBS ((n << (windowsize - 1)) + n)`: the table plus n spare limbs for the high half
    that the last mpn_mullow_n writes (MPIR's mpn_mullow_n sets 2n limbs, mullow_n.c:25). -/
def inPPlo (n w i : Nat) : Bool := n * i + n ≤ (n <<< (w - 1)) + n

/-- `mpn_sqr (tp, rp, n)` or `mpn_mullow_n (tp, rp, y, n)` (both set `tp[0..2n)`), then `MPN_COPY (rp, tp, n)`. -/
def mulLo (n : Nat) (s : St) (y : List Nat) (yok : Bool) : St :=
  let a := store s.tp 0 (toLimbs (2 * n) (val s.rp * val y))
  let l := load a.1 0 n
  { rp := l.1, tp := a.1, ok := s.ok && yok && a.2 && l.2 }

def tableLo (n w : Nat) (pp : List (List Nat)) (tp : List Nat) (ok : Bool) (i : Nat) : St :=
  { rp := pp.getD i (zeros n), tp := tp, ok := ok && inPPlo n w i }

/-- powlo.c:121-128: `mpn_mullow_n (this_pp, last_pp, b2p, n)` writes entry `j+1` (the low half) and
    entry `j+2` (the high half: junk, overwritten by the next round or left in the spare limbs). -/
def precompLo (n w : Nat) (tp : List Nat) : Nat → Nat → List (List Nat) → Bool → List (List Nat) × Bool
  | 0, _, pp, ok => (pp, ok)
  | c + 1, j, pp, ok =>
      let b2 := load tp (2 * n) n                                   -- b2p = tp + 2*n
      let prod := toLimbs (2 * n) (val (pp.getD j (zeros n)) * val b2.1)
      precompLo n w tp c (j + 1) ((pp.set (j + 1) (prod.take n)).set (j + 2) (prod.drop n))
        (ok && b2.2 && inPPlo n w j && inPPlo n w (j + 1) && inPPlo n w (j + 2))

/-- mpn_powlo (rp, bp, ep, en, n, tp) with `tp` an area of `itch` limbs ("Uses scratch space tp[3n-1..0]"). -/
def mpnPowloMem (itch : Nat) (bp ep : List Nat) (n : Nat) : List Nat × Bool :=
  let ebi := sizeinbase2 ep
  let w := win_size_lo ebi
  let tp := zeros itch
  let pp := List.replicate (2 ^ (w - 1) + 1) (zeros n)              -- pp = TMP_ALLOC_LIMBS ((n << (windowsize - 1)) + n)
  let pp := pp.set 0 (bp.take n)                                    -- MPN_COPY (this_pp, bp, n)
  let a := store tp 0 (toLimbs (2 * n) (val (bp.take n) * val (bp.take n)))   -- mpn_sqr (tp, bp, n)
  let l := load a.1 0 n
  let c := store a.1 (2 * n) l.1                                    -- MPN_COPY (b2p, tp, n)
  let t := precompLo n w c.1 (2 ^ (w - 1) - 1) 0 pp (inPPlo n w 0 && a.2 && l.2 && c.2)
  let s := windowExp (fun s => mulLo n s s.rp true)
    (fun s t => mulLo n s t.rp t.ok) (tableLo n w t.1 c.1 t.2) ep ebi w
  (s.rp, s.ok)

end Mpir.PowmL
