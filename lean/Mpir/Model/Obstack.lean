/-
  The obstack member of the printf family (property C18, part c18_obstack).  Core Lean only.

  MODEL  `obMemory` / `obReps` / `obFormat`  = printf/obprntffuns.c  gmp_obstack_memory :47-52,
         gmp_obstack_reps :54-60 and the `format` slot of `__gmp_obstack_printf_funs` :62-66 (glibc's
         obstack_vprintf), working on
         `Ob`  = the part of glibc's `struct obstack` (<obstack.h>, malloc/obstack.c) that the three
         callbacks touch: the object being grown, the room left in the current chunk, which chunk that is.
  `gmp_obstack_printf` / `gmp_obstack_vprintf` (printf/obprintf.c:64, obvprintf.c:44) are
  `__gmp_doprnt (&__gmp_obstack_printf_funs, ob, fmt, ap)`: the call sequence `Mpir.Printf.doprnt` computes,
  run through these three callbacks (`obCalls`), the return value being the sum of what they return
  (doprnt.c DOPRNT_ACCUMULATE).

  Memory is modelled far enough to tell a store into the growing object from a store through a pointer that
  went stale when `_obstack_newchunk` moved the object: a pointer is (chunk number, offset from the object's
  base), a byte of the object is `none` until something is stored in it.
-/
import Mpir.Model.Printf
namespace Mpir.Obstack
open Mpir.Printf

/-- `struct obstack` as far as obstack_grow / obstack_blank / obstack_next_free see it.
    `obj` = the bytes object_base .. next_free (`none` = allocated by obstack_blank, never stored);
    `room` = chunk_limit - next_free;  `cur` = which chunk h->chunk is (0 = the one obstack_begin made,
    +1 for every `_obstack_newchunk`);  `atStart` = "the object is the only data in its chunk"
    (obstack.c:271-273: object_base is the chunk's first aligned byte and !maybe_empty_object);
    `freed` = chunks handed to the free function;  `ok` = every store so far stayed below chunk_limit;
    `stale` = bytes stored through a pointer that does not point into the growing object. -/
structure Ob where
  chunkSize : Nat
  obj : List (Option Char) := []
  room : Nat
  cur : Nat := 0
  atStart : Bool := true
  freed : List Nat := []
  ok : Bool := true
  stale : Nat := 0
  deriving Repr

/-- a `char *` into the obstack: chunk and offset from that chunk's object_base -/
structure Ptr where
  chunk : Nat
  off : Nat
  deriving Repr, DecidableEq

/-- sizeof (struct _obstack_chunk) up to `contents` (limit, prev) = the first aligned byte on x86-64 -/
def chunkHeader : Nat := 16
/-- h->alignment_mask for the default alignment (obstack.c DEFAULT_ALIGNMENT = 16 on x86-64) -/
def alignMask : Nat := 15

def alignUp (n : Nat) : Nat := (n + alignMask) / (alignMask + 1) * (alignMask + 1)

/-- `_obstack_begin (h, size, 0, …)` (obstack.c:109-140; size 0 means 4096 - 32), then optionally an earlier
    object of `pre` bytes made with obstack_blank and closed with obstack_finish (which aligns next_free up and
    never lets it pass chunk_limit; the harness only uses `pre` values that fit the first chunk). -/
def init (size pre : Nat) : Ob :=
  let size := if size = 0 then 4064 else size
  { chunkSize := size, room := size - chunkHeader - alignUp pre, atStart := decide (pre = 0) }

/-- `_obstack_newchunk (h, length)` (obstack.c:240-289): a chunk of
    max (chunk_size, obj_size + length + alignment_mask + obj_size/8 + 100) bytes, the object copied to its
    start, the old chunk freed if the object was all it held. -/
def newchunk (o : Ob) (length : Nat) : Ob :=
  let objSize := o.obj.length
  let sum2 := objSize + length + alignMask
  let newSize := max (sum2 + objSize / 8 + 100) o.chunkSize
  { o with cur := o.cur + 1, room := newSize - chunkHeader - objSize, atStart := true,
           freed := if o.atStart then o.freed ++ [o.cur] else o.freed }

/-- `obstack_next_free (h)` -/
def nextFree (o : Ob) : Ptr := { chunk := o.cur, off := o.obj.length }

/-- the test both macros start with:  if (obstack_room (h) < length) _obstack_newchunk (h, length); -/
def ensure (o : Ob) (n : Nat) : Ob := if o.room < n then newchunk o n else o

/-- `obstack_grow (h, where, length)` (obstack.h): the room test, then
    memcpy (h->next_free, where, len); h->next_free += len. -/
def grow (o : Ob) (s : List Char) : Ob :=
  let o := ensure o s.length
  { o with obj := o.obj ++ s.map some, room := o.room - s.length, ok := o.ok && decide (s.length ≤ o.room) }

/-- `obstack_blank (h, length)`: the same test, then obstack_blank_fast: next_free += length, nothing stored. -/
def blank (o : Ob) (n : Nat) : Ob :=
  let o := ensure o n
  { o with obj := o.obj ++ List.replicate n none, room := o.room - n, ok := o.ok && decide (n ≤ o.room) }

/-- `memset (p, c, n)`: inside the growing object the bytes are stored; anywhere else (another chunk — after a
    move that is the old, possibly freed one — or beyond next_free) they are counted in `stale`. -/
def memset (o : Ob) (p : Ptr) (c : Char) (n : Nat) : Ob :=
  if p.chunk = o.cur ∧ p.off + n ≤ o.obj.length then
    { o with obj := o.obj.take p.off ++ List.replicate n (some c) ++ o.obj.drop (p.off + n) }
  else { o with stale := o.stale + n }

/-- gmp_obstack_memory (obprntffuns.c:47-52):  obstack_grow (ob, ptr, len); return len; -/
def obMemory (o : Ob) (s : List Char) : Ob × Nat :=
  (grow o s, s.length)

/-- gmp_obstack_reps (obprntffuns.c:54-60):
      obstack_blank (ob, reps);
      memset ((char *) obstack_next_free(ob) - reps, c, reps);      -- next_free is read AFTER the blank
      return reps;
    (`off - n` is exact: after the blank the object has at least `n` bytes.) -/
def obReps (o : Ob) (c : Char) (n : Nat) : Ob × Nat :=
  let o := blank o n
  let nf := nextFree o
  (memset o { nf with off := nf.off - n } c n, n)

/-- NOT the code: the variant that saves the pointer BEFORE obstack_blank (`p = obstack_next_free (ob);
    obstack_blank (ob, reps); memset (p, c, reps)`).  Kept to show what the model, and the check built on it,
    distinguishes: equal to `obReps` as long as the run fits the chunk, a store into the old chunk and
    `none` bytes in the object when it does not. -/
def obRepsStale (o : Ob) (c : Char) (n : Nat) : Ob × Nat :=
  let p := nextFree o
  let o := blank o n
  (memset o p c n, n)

/-- the `format` slot: glibc's obstack_vprintf appends what the C library makes of the piece (`out`, computed
    by `Printf.libcFormat` inside `doprnt`) to the object and returns its length.  How it asks for room
    (libio/obprintf.c) is glibc's business: modelled as one obstack_grow. -/
def obFormat (o : Ob) (out : List Char) : Ob × Nat :=
  (grow o out, out.length)

/-- one callback of `__gmp_obstack_printf_funs` -/
def obCall (o : Ob) : Call → Ob × Nat
  | .format out => obFormat o out
  | .memory s => obMemory o s
  | .reps c n => obReps o c n

/-- `__gmp_doprnt` with these funs: the callbacks in order, `retval += ret` after each (doprnt.c:60-69). -/
def obCalls : Ob → List Call → Nat → Ob × Nat
  | o, [], ret => (o, ret)
  | o, c :: cs, ret => let (o', r) := obCall o c; obCalls o' cs (ret + r)

/-- several gmp_obstack_printf calls on the same object: (state, sum of the return values) -/
def obSeq : Ob → List (List Call) → Nat → Ob × Nat
  | o, [], sum => (o, sum)
  | o, cs :: rest, sum => let (o', r) := obCalls o cs 0; obSeq o' rest (sum + r)

/-- the object as bytes; a never-stored byte reads as 0xEE (what the harness fills fresh chunks with) -/
def Ob.text (o : Ob) : List Char := o.obj.map (fun b => b.getD (Char.ofNat 0xEE))

/-- every byte of the object has been stored -/
def Ob.initialised (o : Ob) : Bool := o.obj.all Option.isSome

end Mpir.Obstack
