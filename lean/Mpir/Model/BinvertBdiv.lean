/-
  C08: the Hensel (2-adic) divisions under mpn_binvert's base case, VALUE level (operands are natural numbers).
  Core Lean only (linked into the driver).

  Source mirrored (ops in Mpir/Ops/Binvert.lean, C side harness/ops_binvert.c):
    dc_bdiv_qr_n.c:42-75   mpn_dc_bdiv_qr_n   dcBdivQrN — the recursion on the low ⌊n/2⌋ and the high ⌈n/2⌉ quotient
                                              limbs, the two mpn_mul corrections with mpn_incr_u of the carried borrow,
                                              mpn_sub / mpn_sub_n with their borrows added into the return value
    sb_bdiv_qr.c           mpn_sb_bdiv_qr     a parameter `sb` with the contract `SbSpec` (MpirProofs/Lemmas/BinvertBdiv.lean);
                                              the driver passes `sbBdivQrVal` (the unique quotient / remainder / borrow)
    dc_bdiv_q.c:41-112     mpn_dc_bdiv_q      bdivQVal: the unique quotient N·D⁻¹ mod B^nn (what mpn_binvert's base case
                                              uses of it); compared limb by limb with the library by op `bi_dc_bdiv_q`
  Convention of mpn_*_bdiv_qr (dc_bdiv_qr_n.c:27-37): Q = N·D⁻¹ mod B^n, N − Q·D = r·B^n with −B^n < r < B^n; the n low
  limbs of r are left in the high half of np and the borrow is returned:  N + rh·B^2n = Q·D + R·B^n.
-/
import Mpir.Base
import Mpir.Model.Powm
namespace Mpir.Binvert
open Mpir Mpir.Powm

/-- BELOW_THRESHOLD (size, thresh) (gmp-impl.h:1821) -/
def belowThr (size thr : Nat) : Bool := !(thr == 0 || decide (size ≥ thr))

/-- the value every mpn_*_bdiv_qr returns for odd `D < B^n`, `N < B^2n`: quotient, remainder limbs, borrow -/
def sbBdivQrVal (N D n : Nat) : Nat × Nat × Nat :=
  let Q := (N * binvert D n) % B ^ n
  if Q * D ≤ N then (Q, (N - Q * D) / B ^ n, 0)
  else (Q, B ^ n - (Q * D - N) / B ^ n, 1)

/-- mpn_dc_bdiv_qr_n (qp, np, dp, n, dinv, tp) (dc_bdiv_qr_n.c:42-75) on values: `N = {np, 2n}`, `D = {dp, n}`;
    returns (`{qp, n}`, `{np + n, n}`, return value).  `thr` = DC_BDIV_QR_THRESHOLD, `sb` = mpn_sb_bdiv_qr (.., 2m, .., m, ..);
    the first argument bounds the depth of the recursion (the sizes halve). -/
def dcBdivQrN (thr : Nat) (sb : Nat → Nat → Nat → Nat × Nat × Nat) : Nat → Nat → Nat → Nat → Nat × Nat × Nat
  | 0, N, D, n => sb N D n
  | f + 1, N, D, n =>
    let lo := n / 2                                           -- :50 lo = n >> 1
    let hi := n - lo                                          -- :51
    let a := if belowThr lo thr then sb (N % B ^ (2 * lo)) (D % B ^ lo) lo                  -- :53-54
             else dcBdivQrN thr sb f (N % B ^ (2 * lo)) (D % B ^ lo) lo                     -- :55-56
    let tp := (D / B ^ lo) * a.1 + a.2.2 * B ^ lo             -- :58 mpn_mul (tp, dp + lo, hi, qp, lo); :60 mpn_incr_u (tp + lo, cy)
    let M := a.2.1 + B ^ lo * (N / B ^ (2 * lo))              -- {np + lo, n + hi}
    let rh := if M < tp then 1 else 0                         -- :61 rh = mpn_sub (np + lo, np + lo, n + hi, tp, n)
    let M' := (M + B ^ (n + hi) - tp) % B ^ (n + hi)
    let b := if belowThr hi thr then sb (M' % B ^ (2 * hi)) (D % B ^ hi) hi                 -- :63-64
             else dcBdivQrN thr sb f (M' % B ^ (2 * hi)) (D % B ^ hi) hi                    -- :65-66
    let tp2 := b.1 * (D / B ^ hi) + b.2.2 * B ^ hi            -- :68 mpn_mul (tp, qp + lo, hi, dp + hi, lo); :70 mpn_incr_u (tp + hi, cy)
    let Rn := b.2.1 + B ^ hi * (M' / B ^ (2 * hi))            -- {np + n, n}
    let rh2 := if Rn < tp2 then 1 else 0                      -- :71 rh += mpn_sub_n (np + n, np + n, tp, n)
    (a.1 + B ^ lo * b.1, (Rn + B ^ n - tp2) % B ^ n, rh + rh2)

/-- mpn_dc_bdiv_q (qp, np, nn, dp, dn, dinv) (dc_bdiv_q.c:41-112), result only: "Computes Q = N / D mod B^nn" — unique. -/
def bdivQVal (N D nn : Nat) : Nat := (N * binvert D nn) % B ^ nn

end Mpir.Binvert
