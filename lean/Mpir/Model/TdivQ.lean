/-
  C02, multi-limb layer: the glue of mpn_tdiv_q (quotient only, what mpz_tdiv_q calls).  Core Lean only.

  Source mirrored statement by statement:  mpn/generic/tdiv_q.c  (whole file; line numbers below refer to it).
  Tie = correspondence: ops `tdiv_q_model` (handler) and `tdiv_q_guard` (predicate) in Mpir/Ops/TdivQ.lean,
  harness/ops_tdivq.c.  Theorems: MpirProofs/Props/C02_tdivq.lean.

  What is modelled limb for limb: the size bookkeeping, the FUDGE case split, count_leading_zeros, both
  mpn_lshift calls with the extra limb `cy`, `new_nn = nn + (cy != 0)`, the truncation of the operands in the second
  branch (top 2qn+1 dividend limbs, top qn+1 divisor limbs with the bits of the next limb shifted in), the threshold
  dispatch, the `cy == 0` / `qh != 0` stores, MPN_COPY (qp, tp+1, qn), the guard-limb test, the multiply-back,
  `rn`, the compare and mpn_decr_u; dn == 1 calls the limb-level model of mpn_divrem_1 (proved in C02_word).

  What is a CONTRACT (a parameter of the model): the seven quotient functions called.  A callee is applied to
  ({np,nn}, {dp,dn}) with dp normalised and returns (nn-dn quotient limbs, qh) with
        qh·B^(nn-dn) + q = ⌊N/D⌋ + err.
  For the exact callees (mpn_divrem_2, mpn_sb_div_q, mpn_dc_div_q, mpn_inv_div_q) err = 0; for the approximate ones
  (mpn_sb_divappr_q, mpn_dc_divappr_q, mpn_inv_divappr_q: "The quotient returned is either correct, or one too large",
  sb_divappr_q.c:3) err is the model's argument `e`, chosen by the adversary.  Every pair (q, qh) of nn-dn proper limbs
  and a number with qh·B^(nn-dn) + val q = ⌊N/D⌋ + e IS `quotOracle e` (theorem `oracle_complete`), so quantifying over
  `e` quantifies over every behaviour the contract allows.  mpn_mul is used by its value (C01).
-/
import Mpir.Base
import Mpir.Model.Kernels
import Mpir.Model.DivWord
namespace Mpir.TdivQ
open Mpir Mpir.DivWord

/-- tdiv_q.c:79 `#define FUDGE 5`.  (The file says "FUDGE must be >= 2 for the code to be correct" and
    ASSERT_ALWAYSes it at :100; the model is proved correct for every FUDGE ≥ 1, see `tdivQF` and
    `branch2_indices` in MpirProofs/Props/C02_tdivq.lean.) -/
def FUDGE : Nat := 5

/-- the quotient functions mpn_tdiv_q can call -/
inductive Callee where
  | divrem_1 | divrem_2 | sb_div_q | dc_div_q | inv_div_q | sb_divappr_q | dc_divappr_q | inv_divappr_q
  deriving DecidableEq, Repr, Inhabited

/-- the callees whose documented result is ⌊N/D⌋ or ⌊N/D⌋+1 -/
def Callee.approx : Callee → Bool
  | .sb_divappr_q | .dc_divappr_q | .inv_divappr_q => true
  | _ => false

/-- number printed by the harness for the callee (harness/ops_tdivq.c) -/
def Callee.tag : Callee → Nat
  | .divrem_1 => 0 | .divrem_2 => 1 | .sb_div_q => 2 | .dc_div_q => 3 | .inv_div_q => 4
  | .sb_divappr_q => 5 | .dc_divappr_q => 6 | .inv_divappr_q => 7

/-- the four tuned constants tdiv_q.c reads from gmp-mparam.h (`none` = MP_SIZE_T_MAX) -/
structure Thresholds where
  dcDivQ : Gen.Threshold          -- DC_DIV_Q_THRESHOLD
  invDivQ : Gen.Threshold         -- INV_DIV_Q_THRESHOLD
  dcDivapprQ : Gen.Threshold      -- DC_DIVAPPR_Q_THRESHOLD
  invDivapprQ : Gen.Threshold     -- INV_DIVAPPR_Q_THRESHOLD
  deriving Repr

/-- gmp-mparam.h of the pinned build (mpn/x86_64/…): 65, 998, 21, 14326.  No answer of the model depends on them
    except the callee tag. -/
def shipped : Thresholds := ⟨some 65, some 998, some 21, some 14326⟩

/-- contract of a quotient function applied to ({np,nn}, {dp,dn}): nn-dn limbs and the returned high limb,
    of ⌊N/D⌋ + e -/
def quotOracle (e : Nat) (np dp : List Nat) : List Nat × Nat :=
  let m := np.length - dp.length
  let Q := val np / val dp + e
  (toLimbs m Q, Q / B ^ m)

/-- call of callee `c`: the error `e` is only available to the approximate callees -/
def call (c : Callee) (e : Nat) (np dp : List Nat) : List Nat × Nat :=
  quotOracle (if c.approx then e else 0) np dp

/-- mpn_mul (rp, up, un, vp, vn) by its value: un+vn limbs of U·V (property C01) -/
def mul (u v : List Nat) : List Nat := toLimbs (u.length + v.length) (val u * val v)

/-- tdiv_q.c:130-151 (and :169-190 with new_nn = nn): which function divides in the first branch.
    `2 * INV_DIV_Q_THRESHOLD` with the threshold MP_SIZE_T_MAX overflows in C; the test before the `||` is then true,
    so the value of the second one is irrelevant — here `none` stays `none`. -/
def dispatchDivQ (T : Thresholds) (dn new_nn nn : Nat) : Callee :=
  if dn = 2 then .divrem_2                                                                     -- :130
  else if BELOW_THRESHOLD dn T.dcDivQ || BELOW_THRESHOLD (new_nn - dn) T.dcDivQ then .sb_div_q  -- :134-135
  else if BELOW_THRESHOLD dn T.invDivQ || BELOW_THRESHOLD nn (T.invDivQ.map (2 * ·)) then .dc_div_q  -- :140-141
  else .inv_div_q                                                                              -- :146

/-- tdiv_q.c:217-236 (and :256-275): which function divides in the second branch (divisor of qn+1 limbs) -/
def dispatchDivapprQ (T : Thresholds) (qn : Nat) : Callee :=
  if qn + 1 = 2 then .divrem_2                                                                 -- :217
  else if BELOW_THRESHOLD (qn - 1) T.dcDivapprQ then .sb_divappr_q                             -- :221
  else if BELOW_THRESHOLD (qn - 1) T.invDivapprQ then .dc_divappr_q                            -- :226
  else .inv_divappr_q                                                                          -- :231

/-- the sizes each callee ASSERTs (sb_div_q.c:52-53, dc_div_q.c:42-43, inv_div_q.c:45-46, sb_divappr_q.c:61-62,
    dc_divappr_q.c:44-45, inv_divappr_q.c:45-46, divrem_2.c:76); the normalised divisor is a separate fact -/
def Callee.domain : Callee → Nat → Nat → Prop
  | .divrem_1, nn, dn => dn = 1 ∧ nn ≥ 1
  | .divrem_2, nn, dn => dn = 2 ∧ nn ≥ 2
  | .sb_div_q, nn, dn => dn > 2 ∧ nn ≥ dn
  | .dc_div_q, nn, dn => dn ≥ 6 ∧ nn - dn ≥ 3 ∧ nn ≥ dn
  | .inv_div_q, nn, dn => dn ≥ 6 ∧ nn - dn ≥ 3 ∧ nn ≥ dn
  | .sb_divappr_q, nn, dn => dn > 2 ∧ nn ≥ dn
  | .dc_divappr_q, nn, dn => dn ≥ 6 ∧ nn ≥ dn + 3
  | .inv_divappr_q, nn, dn => dn ≥ 6 ∧ nn > dn

/-- `t >= k` for a threshold (MP_SIZE_T_MAX counts as large) -/
def thrGe (k : Nat) : Gen.Threshold → Prop
  | none => True
  | some t => k ≤ t

/-- the stores after the call, tdiv_q.c:152-163 and :237-248:
    `if (cy == 0) qp[m] = qh; else if (qh != 0) { for (i = 0; i < n; i++) qp[i] = GMP_NUMB_MAX; }`
    `q` = the limbs the callee wrote (m if cy = 0, else m+1 = n of them). -/
def storeQh (cy : Nat) (q : List Nat) (qh : Nat) : List Nat :=
  if cy = 0 then q ++ [qh]                                       -- :152-153
  else if qh ≠ 0 then List.replicate q.length (B - 1)            -- :154-161
  else q

/-- first branch, tdiv_q.c:113-193: `qn + FUDGE >= dn`, the whole dividend is divided by an exact callee.
    Returns (quotient limbs, callee). -/
def branch1 (T : Thresholds) (np dp : List Nat) : List Nat × Callee :=
  let nn := np.length
  let dn := dp.length
  let dh := dp.getD (dn - 1) 0                                   -- :118
  if dh &&& HIGHBIT == 0 then                                    -- :119
    let cnt := count_leading_zeros dh                            -- :121
    let sh := lshift np cnt                                      -- :123 cy = mpn_lshift (new_np, np, nn, cnt)
    let cy := sh.2
    let new_np := sh.1 ++ [cy]                                   -- :124 new_np[nn] = cy
    let new_nn := nn + (if cy ≠ 0 then 1 else 0)                 -- :125
    let new_dp := (lshift dp cnt).1                              -- :128
    let c := dispatchDivQ T dn new_nn nn                         -- :130-151
    let r := call c 0 (new_np.take new_nn) new_dp
    (storeQh cy r.1 r.2, c)                                      -- :152-163
  else                                                           -- :165 divisor is already normalised
    let c := dispatchDivQ T dn nn nn                             -- :169-190 (new_np = copy of np, :167)
    let r := call c 0 np dp
    (r.1 ++ [r.2], c)                                            -- :191 qp[nn - dn] = qh

/-- second branch, tdiv_q.c:200-216 / :252-254: the operands handed to the approximate division.
    Returns (new_np (new_nn limbs), new_dp (qn+1 limbs), cy). -/
def prep2 (np dp : List Nat) : List Nat × List Nat × Nat :=
  let nn := np.length
  let dn := dp.length
  let qn := nn - dn + 1
  let new_nn := 2 * qn + 1                                       -- :201
  let dh := dp.getD (dn - 1) 0                                   -- :203
  if dh &&& HIGHBIT == 0 then                                    -- :204
    let cnt := count_leading_zeros dh                            -- :206
    let sh := lshift (np.drop (nn - new_nn)) cnt                 -- :208 mpn_lshift (new_np, np + nn - new_nn, new_nn, cnt)
    let cy := sh.2
    let new_np := sh.1 ++ [cy]                                   -- :209
    let new_nn := new_nn + (if cy ≠ 0 then 1 else 0)             -- :211
    let d0 := (lshift (dp.drop (dn - (qn + 1))) cnt).1           -- :214
    let new_dp := (d0.getD 0 0 ||| (dp.getD (dn - (qn + 1) - 1) 0 >>> (64 - cnt))) :: d0.drop 1   -- :215
    (new_np.take new_nn, new_dp, cy)
  else                                                           -- :250
    (np.drop (nn - new_nn), dp.drop (dn - (qn + 1)), 0)          -- :252, :254

/-- second branch up to tp[]: tdiv_q.c:217-248 / :256-276.  Returns (tp (qn+1 limbs), callee). -/
def tpOf (T : Thresholds) (e : Nat) (np dp : List Nat) : List Nat × Callee :=
  let qn := np.length - dp.length + 1
  let p := prep2 np dp
  let c := dispatchDivapprQ T qn
  let r := call c e p.1 p.2.1
  -- normalised divisor: `tp[qn] = qh` (:276) is the `cy == 0` store
  (storeQh p.2.2 r.1 r.2, c)

/-- tdiv_q.c:279-291: copy, guard-limb test, multiply-back, compare, decrement.
    Returns (qp, multiply-back done, decrement done). -/
def finish2 (np dp tp : List Nat) : List Nat × Bool × Bool :=
  let nn := np.length
  let dn := dp.length
  let qn := nn - dn + 1
  let qp := tp.drop 1                                            -- :279 MPN_COPY (qp, tp + 1, qn)
  if tp.getD 0 0 ≤ 4 then                                        -- :280
    let rp := mul dp qp                                          -- :285 mpn_mul (rp, dp, dn, tp + 1, qn)
    let rn := dn + qn - (if rp.getD (dn + qn - 1) 0 = 0 then 1 else 0)   -- :286-287
    if rn > nn || cmp np (rp.take nn) < 0 then                   -- :289
      ((decr qp).1, true, true)                                  -- :290 mpn_decr_u (qp, 1)
    else (qp, true, false)
  else (qp, false, false)

/-- second branch, tdiv_q.c:195-292 -/
def branch2 (T : Thresholds) (e : Nat) (np dp : List Nat) : List Nat × Callee :=
  let t := tpOf T e np dp
  ((finish2 np dp t.1).1, t.2)

/-- mpn_tdiv_q with FUDGE as a parameter.  nn ≥ dn ≥ 1, dp[dn-1] ≠ 0 (tdiv_q.c:94-96).
    Returns (the nn-dn+1 quotient limbs, branch tag, callee); branch tag: 0 dn == 1, 1 / 2 first branch
    (unnormalised / normalised divisor), 3 / 4 second branch. -/
def tdivQF (F : Nat) (T : Thresholds) (e : Nat) (np dp : List Nat) : List Nat × Nat × Callee :=
  let nn := np.length
  let dn := dp.length
  if dn = 1 then                                                 -- :102
    ((divrem_1 0 np (dp.getD (dn - 1) 0)).1, 0, .divrem_1)       -- :104 mpn_divrem_1 (qp, 0L, np, nn, dp[dn - 1])
  else
    let qn := nn - dn + 1                                        -- :110
    let norm := if dp.getD (dn - 1) 0 &&& HIGHBIT == 0 then 0 else 1
    if qn + F ≥ dn then                                          -- :112
      let r := branch1 T np dp
      (r.1, 1 + norm, r.2)
    else
      let r := branch2 T e np dp
      (r.1, 3 + norm, r.2)

/-- mpn_tdiv_q (qp, np, nn, dp, dn): the quotient limbs -/
def tdiv_q (T : Thresholds) (e : Nat) (np dp : List Nat) : List Nat := (tdivQF FUDGE T e np dp).1

end Mpir.TdivQ
