/-
  Formatted output (property C18).  Core Lean only.  Strings are `List Char`; a `Char` stands for one byte.

  SPEC   `cFormatCore` / `cprintfInt`: ISO C99 7.19.6.1 integer conversions d i o u x X with the flags
         `- + space # 0`, field width and precision, written from the standard (validated against glibc
         by the harness on every run: the ops print glibc's own output beside the implementation's).
  MODEL  `doprntInteger`  = printf/doprnti.c  `__gmp_doprnt_integer`   (statement by statement)
         `doprnt`         = printf/doprnt.c   `__gmp_doprnt`           (format parser, hand-off to libc)
         `snRun`          = printf/snprntffuns.c  (bounded writer)
         `asRun`          = printf/asprntffuns.c + vasprintf.c (growing buffer, realloc to fit)
         `doprntMpf`      = printf/doprntf.c  `__gmp_doprnt_mpf` around the digits `mpfGetStr` specifies
         `libcFormat`     = what the C library does with the pieces handed to it (only the integer,
                            %c, %s, %% conversions; written from the standard, same `cFormatCore`).
  The code mirrored is /repo after the repairs 802f527, bbc62f3, 214972f, 68441a0 (C99 flag rules); the
  `old := true` variants are the code before them, kept only to document what was wrong.
-/
import Mpir.Base
namespace Mpir.Printf

/-! ## Digits (what mpz_get_str produces) -/

def digitTab (upper : Bool) : List Char :=
  if upper then ['0', '1', '2', '3', '4', '5', '6', '7', '8', '9', 'A', 'B', 'C', 'D', 'E', 'F', 'G', 'H', 'I', 'J', 'K', 'L', 'M',
                 'N', 'O', 'P', 'Q', 'R', 'S', 'T', 'U', 'V', 'W', 'X', 'Y', 'Z']
  else ['0', '1', '2', '3', '4', '5', '6', '7', '8', '9', 'a', 'b', 'c', 'd', 'e', 'f', 'g', 'h', 'i', 'j', 'k', 'l', 'm',
        'n', 'o', 'p', 'q', 'r', 's', 't', 'u', 'v', 'w', 'x', 'y', 'z']

def digitChar (upper : Bool) (d : Nat) : Char := (digitTab upper).getD d '?'

/-- Digits of `n` in base `b`, most significant first, no leading zeros, "0" for zero. -/
def natDigits (b : Nat) (upper : Bool) (n : Nat) : List Char :=
  if _h : n < b ∨ b < 2 then [digitChar upper n]
  else natDigits b upper (n / b) ++ [digitChar upper (n % b)]
termination_by n
decreasing_by
  have _h' : ¬ (n < b ∨ b < 2) := _h
  exact Nat.div_lt_self (by omega) (by omega)

/-- `mpz_get_str (NULL, base, z)`: base 10, 8, 16 lower case; base −16 upper case. -/
def mpzGetStr (base : Int) (v : Int) : List Char :=
  (if v < 0 then ['-'] else []) ++ natDigits base.natAbs (decide (base < 0)) v.natAbs

/-- `mpq_get_str` (mpq/get_str.c:48-55): numerator, then `/` and the denominator unless it is 1. -/
def mpqGetStr (base : Int) (n d : Int) : List Char :=
  mpzGetStr base n ++ (if d = 1 then [] else '/' :: mpzGetStr base d)

/-! ## SPEC: C99 integer conversions -/

structure Flags where
  minus : Bool := false
  plus : Bool := false
  space : Bool := false
  hash : Bool := false
  zero : Bool := false
  deriving DecidableEq, Repr, Inhabited

inductive Conv where
  | d | i | o | u | x | X
  deriving DecidableEq, Repr, Inhabited

def Conv.signed : Conv → Bool
  | .d | .i => true
  | _ => false
def Conv.base : Conv → Nat
  | .o => 8
  | .x | .X => 16
  | _ => 10
def Conv.upper : Conv → Bool
  | .X => true
  | _ => false

/-- The sign characters of a signed conversion (7.19.6.1p6 `+`, space: "if the space and + flags both
    appear, the space flag is ignored"). -/
def signChars (f : Flags) (neg : Bool) : List Char :=
  if neg then ['-'] else if f.plus then ['+'] else if f.space then [' '] else []

/-- Layout of magnitude `mag` in base `base` with sign characters `sign`.
    7.19.6.1p8 d,i,o,u,x,X: "The precision specifies the minimum number of digits to appear; if the value
    can be represented in fewer digits, it is expanded with leading zeros.  The default precision is 1.
    The result of converting a zero value with a precision of zero is no characters."
    p6 `#`: "For o conversion, it increases the precision, if and only if necessary, to force the first
    digit of the result to be a zero (if the value and precision are both 0, a single 0 is printed).  For
    x (or X) conversion, a nonzero result has 0x (or 0X) prefixed to it."
    p6 `0`: "leading zeros (following any indication of sign or base) are used to pad to the field width
    rather than performing space padding ... If the 0 and - flags both appear, the 0 flag is ignored.  For
    d, i, o, u, x, and X conversions, if a precision is specified, the 0 flag is ignored."
    p6 `-`: left-justified within the field.  p4: width = minimum field width, padded with spaces. -/
def layoutFrom (f : Flags) (width : Nat) (prec : Option Nat) (base : Nat) (upper : Bool)
    (sign : List Char) (mag : Nat) (ds0 : List Char) : List Char :=
  let p := prec.getD 1
  let ds1 := List.replicate (p - ds0.length) '0' ++ ds0
  let ds := if f.hash ∧ base = 8 ∧ ds1.head? ≠ some '0' then '0' :: ds1 else ds1
  let pre := if f.hash ∧ base = 16 ∧ mag ≠ 0 then (if upper then ['0', 'X'] else ['0', 'x']) else []
  let pad := width - (sign.length + pre.length + ds.length)
  if f.minus then sign ++ pre ++ ds ++ List.replicate pad ' '
  else if f.zero ∧ prec.isNone then sign ++ pre ++ List.replicate pad '0' ++ ds
  else List.replicate pad ' ' ++ sign ++ pre ++ ds

def layoutCore (f : Flags) (width : Nat) (prec : Option Nat) (base : Nat) (upper : Bool)
    (sign : List Char) (mag : Nat) : List Char :=
  layoutFrom f width prec base upper sign mag
    (if mag = 0 ∧ prec.getD 1 = 0 then [] else natDigits base upper mag)

/-- C conversion of an already converted argument: `neg`/`mag` for signed conversions, `mag` alone for
    unsigned ones (`+` and space are defined for signed conversions only; glibc ignores them otherwise,
    as it ignores `#` for d,i,u). -/
def cFormatCore (f : Flags) (width : Nat) (prec : Option Nat) (conv : Conv) (neg : Bool) (mag : Nat) : List Char :=
  layoutCore f width prec conv.base conv.upper (if conv.signed then signChars f neg else []) mag

/-- Argument conversion for a `bits`-wide integer type: signed conversions see the two's complement
    value, unsigned ones the value modulo 2^bits. -/
def cFormatInt (bits : Nat) (f : Flags) (width : Nat) (prec : Option Nat) (conv : Conv) (v : Int) : List Char :=
  if conv.signed then
    let w := ((v + 2 ^ (bits - 1)) % 2 ^ bits) - 2 ^ (bits - 1)
    cFormatCore f width prec conv (decide (w < 0)) w.natAbs
  else cFormatCore f width prec conv false (v % 2 ^ bits).toNat

/-- `printf ("%<flags><width>.<prec>l<conv>", (long) v)`. -/
def cprintfIntL (f : Flags) (width : Nat) (prec : Option Nat) (conv : Conv) (v : Int) : List Char :=
  cFormatInt 64 f width prec conv v

def cprintfInt (f : Flags) (width : Nat) (prec : Option Nat) (conv : Conv) (v : Int) : String :=
  String.ofList (cprintfIntL f width prec conv v)

/-- The rule the manual gives for Z, Q, N: the same layout, but o, x, X are signed too
    (doc/mpir.texi "Formatted Output Strings": "for types Z, Q and N they are signed"). -/
def gmpLayoutSpec (f : Flags) (width : Nat) (prec : Option Nat) (conv : Conv) (v : Int) : List Char :=
  layoutCore f width prec conv.base conv.upper (signChars f (decide (v < 0))) v.natAbs

/-! ## MODEL: doprnt parameters and `__gmp_doprnt_integer` -/

inductive Justify where
  | none | left | right | internal
  deriving DecidableEq, Repr, Inhabited

inductive Showbase where
  | yes | no | nonzero
  deriving DecidableEq, Repr, Inhabited

/-- `struct doprnt_params_t` (gmp-impl.h:4009); the float-only fields are kept for `%F`. -/
structure Params where
  base : Int := 10
  conv : Nat := 0               -- 0, DOPRNT_CONV_FIXED 1, SCIENTIFIC 2, GENERAL 3
  expUpper : Bool := false      -- expfmt "e%c%02ld" / "E%c%02ld"
  expHex : Bool := false        -- expfmt "p%c%ld" / "P%c%ld"
  exptimes4 : Bool := false
  fill : Char := ' '
  justify : Justify := .right
  prec : Int := 6
  showbase : Showbase := .no
  showpoint : Bool := false
  showtrailing : Bool := true
  sign : Option Char := none     -- '\0' = none
  width : Int := 0
  deriving Repr, Inhabited

/-- One call of the output callbacks `funs->format / memory / reps`; `format` carries what the C library
    produced for the piece handed to it. -/
inductive Call where
  | format (out : List Char)
  | memory (s : List Char)
  | reps (c : Char) (n : Nat)
  deriving Repr, Inhabited, DecidableEq

def Call.bytes : Call → List Char
  | .format o => o
  | .memory s => s
  | .reps c n => List.replicate n c

def callsBytes (cs : List Call) : List Char := cs.flatMap Call.bytes

/-- split at the first '/': (up to and including the slash, rest) -/
def splitSlash : List Char → Option (List Char × List Char)
  | [] => none
  | c :: cs => if c = '/' then some ([c], cs) else
      match splitSlash cs with
      | some (a, b) => some (c :: a, b)
      | none => none

def repsMaybe (c : Char) (n : Nat) : List Call := if n ≠ 0 then [.reps c n] else []
def memoryMaybe (s : List Char) : List Call := if s.length ≠ 0 then [.memory s] else []

/-- `__gmp_doprnt_integer` (printf/doprnti.c) from line 66 on: `sign` is the sign character decided at
    :54-60, `s` the string after :63-64, `showbase` the prefix chosen at :69-79 (empty = NULL). -/
def doprntIntegerCore (old : Bool) (p : Params) (sign : Option Char) (s showbase : List Char) : List Call :=
  let signlen : Int := if sign.isSome then 1 else 0
  -- :66-67
  let slen : Int := s.length
  let slash := splitSlash s
  let showbaselen0 : Int := showbase.length
  -- :81-84
  let denShowbaselen : Int :=
    match slash with
    | none => 0
    | some (_, den) => if p.showbase = .nonzero ∧ den.head? = some '0' then 0 else showbaselen0
  -- :86-87
  let showbaselen1 : Int := if p.showbase = .nonzero ∧ s.head? = some '0' then 0 else showbaselen0
  -- :90  zeros = MAX (0, p->prec - slen)
  let zeros : Int := max 0 (p.prec - slen)
  -- :94-95  if (zeros > 0 && showbaselen == 1) showbaselen = 0;   (octal: the precision zeros serve as prefix)
  let showbaselen : Int := if ¬ old ∧ zeros > 0 ∧ showbaselen1 = 1 then 0 else showbaselen1
  -- :98-99
  let justlen : Int := p.width - (slen + signlen + showbaselen + denShowbaselen + zeros)
  -- :101-103
  let justify := if justlen ≤ 0 then Justify.none else p.justify
  -- :105-106 pad right
  (if justify = .right then [Call.reps p.fill justlen.toNat] else []) ++
  -- :108 sign
  (match sign with | some c => [Call.reps c 1] | none => []) ++
  -- :110 base
  memoryMaybe (showbase.take showbaselen.toNat) ++
  -- :112 zeros
  repsMaybe '0' zeros.toNat ++
  -- :114-115 pad internal
  (if justify = .internal then [Call.reps p.fill justlen.toNat] else []) ++
  -- :119-127 numerator and slash, denominator's base;  :129 number or denominator
  (match slash with
   | some (num, den) =>
       if denShowbaselen ≠ 0 then [Call.memory num, Call.memory (showbase.take denShowbaselen.toNat), Call.memory den]
       else [Call.memory s]
   | none => [Call.memory s]) ++
  -- :131-132 pad left
  (if justify = .left then [Call.reps p.fill justlen.toNat] else [])

/-- the base prefix chosen at doprnti.c:69-79 -/
def showbaseStr (p : Params) : List Char :=
  if p.showbase ≠ .no then
    (if p.base = 16 then ['0', 'x'] else if p.base = -16 then ['0', 'X'] else if p.base = 8 then ['0'] else [])
  else []

/-- `__gmp_doprnt_integer` (printf/doprnti.c:41-139).  `s0` is the get_str string.
    `old` = the code before commit 68441a0 (no `showbaselen = 0` when precision zeros are present). -/
def doprntIntegerG (old : Bool) (p : Params) (s0 : List Char) : List Call :=
  -- :54-60  sign = p->sign; if (s[0] == '-') { sign = s[0]; s++; }  signlen = (sign != '\0')
  let neg : Bool := s0.head? = some '-'
  let sign : Option Char := if neg then some '-' else p.sign
  let s1 : List Char := if neg then s0.tail else s0
  -- :63-64  if (*s == '0' && p->prec == 0) s++;
  let s : List Char := if s1.head? = some '0' ∧ p.prec = 0 then s1.tail else s1
  doprntIntegerCore old p sign s (showbaseStr p)

def doprntInteger := doprntIntegerG false
def doprntIntegerOld := doprntIntegerG true

/-! ## MODEL: bounded writer (printf/snprntffuns.c) -/

/-- `struct gmp_snprintf_t`: `written` = bytes stored before `buf`, `size` = space left at `buf`. -/
structure SnState where
  written : List Char := []
  size : Nat
  deriving Repr

/-- gmp_snprintf_memory :110-119, gmp_snprintf_reps :127-136 and gmp_snprintf_format :60-75 (with a C99
    vsnprintf: it stores min(ret, avail-1) characters and a terminator that the next call overwrites)
    all do:  if (d->size > 1) { n = MIN (d->size-1, len); store n bytes; d->buf += n; d->size -= n; }
    return len. -/
def snCall (d : SnState) (c : Call) : SnState × Nat :=
  let s := c.bytes
  if d.size > 1 then
    let n := min (d.size - 1) s.length
    ({ written := d.written ++ s.take n, size := d.size - n }, s.length)
  else (d, s.length)

def snCalls : SnState → List Call → Nat → SnState × Nat
  | d, [], ret => (d, ret)
  | d, c :: cs, ret => let (d', r) := snCall d c; snCalls d' cs (ret + r)

structure SnResult where
  ret : Nat                 -- return value of gmp_vsnprintf
  text : List Char          -- bytes stored before the terminator
  stored : Nat              -- bytes stored in all, terminator included
  deriving Repr, DecidableEq

/-- gmp_vsnprintf (printf/vsnprintf.c): run the calls, then gmp_snprintf_final :141-145 stores the
    terminator if (d->size >= 1). -/
def snRun (size : Nat) (cs : List Call) : SnResult :=
  let (d, ret) := snCalls { size := size } cs 0
  { ret := ret, text := d.written, stored := d.written.length + (if d.size ≥ 1 then 1 else 0) }

/-! ## MODEL: gmp_vasprintf (printf/vasprintf.c, asprntffuns.c, GMP_ASPRINTF_T_* in gmp-impl.h) -/

structure AsState where
  buf : List Char := []     -- d->buf[0 .. d->size)
  alloc : Nat := 256        -- GMP_ASPRINTF_T_INIT
  ok : Bool := true         -- every store so far stayed inside `alloc`
  reallocs : List (Nat × Nat) := []   -- (old, new) sizes passed to the reallocate function
  deriving Repr

/-- GMP_ASPRINTF_T_NEED (gmp-impl.h:4065): if (alloc <= size + n) realloc to 2*(size + n). -/
def asNeed (d : AsState) (n : Nat) : AsState :=
  let newsize := d.buf.length + n
  if d.alloc ≤ newsize then { d with alloc := 2 * newsize, reallocs := d.reallocs ++ [(d.alloc, 2 * newsize)] } else d

/-- __gmp_asprintf_memory / __gmp_asprintf_reps (asprntffuns.c:43-59). -/
def asStore (d : AsState) (s : List Char) : AsState :=
  let d := asNeed d s.length
  { d with buf := d.buf ++ s, ok := d.ok && decide (d.buf.length + s.length ≤ d.alloc) }

/-- gmp_asprintf_format (vasprintf.c:68-99) with a C99 vsnprintf returning `out.length`; the loop runs at
    most three times (`fuel`).  vsnprintf stores min(ret, space-1) bytes and a terminator inside `space`. -/
def asFormat (d : AsState) (out : List Char) : Nat → Nat → Option AsState
  | 0, _ => none
  | fuel + 1, space =>
    let d := asNeed d space
    let space := d.alloc - d.buf.length
    let ret := out.length
    if ret < space - 1 then
      some { d with buf := d.buf ++ out, ok := d.ok && decide (d.buf.length + ret + 1 ≤ d.alloc) }
    else if ret = space - 1 then asFormat d out fuel (space * 2)
    else asFormat d out fuel (ret + 2)

def asCall (d : AsState) : Call → Option AsState
  | .format o => asFormat d o 3 256
  | c => some (asStore d c.bytes)

def asCalls : AsState → List Call → Option AsState
  | d, [] => some d
  | d, c :: cs => match asCall d c with
    | some d' => asCalls d' cs
    | none => none

structure AsResult where
  ret : Nat
  text : List Char
  block : Nat                -- size of the block handed to the caller
  ok : Bool
  deriving Repr, DecidableEq

/-- gmp_vasprintf: INIT, calls, __gmp_asprintf_final (asprntffuns.c:62-71: store the terminator at
    buf[size] and reallocate from `alloc` to `size+1` unless equal). -/
def asRun (cs : List Call) : Option AsResult :=
  match asCalls {} cs with
  | some d => some { ret := (callsBytes cs).length, text := d.buf, block := d.buf.length + 1,
                     ok := d.ok && decide (d.buf.length + 1 ≤ d.alloc) }
  | none => none


/-! ## The C library's side: what `funs->format` does with a piece of the format

Only what the correspondence needs: literal text, `%%`, integer conversions with every length modifier,
`%c`, `%s`.  Anything else makes the model answer `none` (the driver prints `?unsupported`). -/

/-- One variable argument.  `int` is any integer scalar (the harness passes one 64-bit slot). -/
inductive Arg where
  | int (v : Int)
  | str (s : List Char)
  | mpz (v : Int)
  | mpq (n d : Int)
  | limbs (l : List Nat)
  | cell                    -- pointer to a C integer object (target of %n)
  | mpzOut                  -- mpz_t target of %Zn
  | mpqOut                  -- mpq_t target of %Qn
  | mpf (prec : Nat) (neg : Bool) (limbs : List Nat) (exp : Int)   -- mpf_t: _mp_prec, sign, limbs, _mp_exp
  deriving Repr, Inhabited, BEq

def isDigit (c : Char) : Bool := '0' ≤ c && c ≤ '9'
def digitVal (c : Char) : Nat := c.toNat - '0'.toNat

/-- two's complement reading of the low `bits` bits -/
def wrapSigned (bits : Nat) (v : Int) : Int := ((v + 2 ^ (bits - 1)) % 2 ^ bits) - 2 ^ (bits - 1)

def takeFlags : List Char → Flags → Flags × List Char
  | [], f => (f, [])
  | c :: cs, f =>
    if c = '-' then takeFlags cs { f with minus := true }
    else if c = '+' then takeFlags cs { f with plus := true }
    else if c = ' ' then takeFlags cs { f with space := true }
    else if c = '#' then takeFlags cs { f with hash := true }
    else if c = '0' then takeFlags cs { f with zero := true }
    else (f, c :: cs)

def takeNum : List Char → Nat → Nat × List Char
  | [], n => (n, [])
  | c :: cs, n => if isDigit c then takeNum cs (n * 10 + digitVal c) else (n, c :: cs)

/-- length modifier → width of the integer type in bits (x86-64 LP64) -/
def takeLen : List Char → Nat × List Char
  | 'h' :: 'h' :: cs => (8, cs)
  | 'h' :: cs => (16, cs)
  | 'l' :: 'l' :: cs => (64, cs)
  | 'l' :: cs => (64, cs)
  | 'j' :: cs => (64, cs)
  | 'z' :: cs => (64, cs)
  | 't' :: cs => (64, cs)
  | 'L' :: cs => (64, cs)
  | 'q' :: cs => (64, cs)
  | cs => (32, cs)

def convOfChar (c : Char) : Option Conv :=
  if c = 'd' then some .d else if c = 'i' then some .i else if c = 'o' then some .o
  else if c = 'u' then some .u else if c = 'x' then some .x else if c = 'X' then some .X else none

def padTo (minus : Bool) (width : Nat) (s : List Char) : List Char :=
  if minus then s ++ List.replicate (width - s.length) ' ' else List.replicate (width - s.length) ' ' ++ s

/-- One conversion specification after the `%` (C99 7.19.6.1p4): flags, width, precision, length
    modifier, conversion.  Returns the produced characters, the rest of the format, the rest of the
    arguments. -/
def libcSpec (cs : List Char) (args : List Arg) : Option (List Char × List Char × List Arg) :=
  let (f0, cs) := takeFlags cs {}
  -- width: `*` takes an int; "a negative field width argument is taken as a - flag followed by a
  -- positive field width"
  let wres : Option (Flags × Nat × List Char × List Arg) := match cs, args with
    | '*' :: cs', .int n :: as =>
        let n := wrapSigned 32 n
        some (if n < 0 then ({ f0 with minus := true }, n.natAbs, cs', as) else (f0, n.toNat, cs', as))
    | '*' :: _, _ => none
    | _, _ => let (w, cs') := takeNum cs 0; some (f0, w, cs', args)
  match wres with
  | none => none
  | some (f, width, cs, args) =>
  -- precision: "if only the period is specified, the precision is taken as zero"; "a negative precision
  -- argument is taken as if the precision were omitted"
  let pres : Option (Option Nat × List Char × List Arg) := match cs, args with
    | '.' :: '*' :: cs', .int n :: as =>
        let n := wrapSigned 32 n
        some (if n < 0 then none else some n.toNat, cs', as)
    | '.' :: '*' :: _, _ => none
    | '.' :: cs', _ => let (p, cs'') := takeNum cs' 0; some (some p, cs'', args)
    | _, _ => some (none, cs, args)
  match pres with
  | none => none
  | some (prec, cs, args) =>
  let (bits, cs) := takeLen cs
  match cs with
  | [] => none
  | c :: rest =>
    match convOfChar c with
    | some conv =>
        match args with
        | .int v :: as => some (cFormatInt bits f width prec conv v, rest, as)
        | _ => none
    | none =>
      if c = 'c' then
        match args with
        | .int v :: as => some (padTo f.minus width [Char.ofNat (v % 256).toNat], rest, as)
        | _ => none
      else if c = 's' then
        match args with
        | .str s :: as => some (padTo f.minus width (match prec with | some p => s.take p | none => s), rest, as)
        | _ => none
      else if c = '%' then some (['%'], rest, args)
      else none

/-- vsnprintf-style formatting of a whole piece (fuel = a bound on the number of steps). -/
def libcFormatAux : Nat → List Char → List Arg → List Char → Option (List Char)
  | 0, _, _, _ => none
  | _ + 1, [], _, acc => some acc
  | fuel + 1, c :: cs, args, acc =>
    if c = '%' then
      match libcSpec cs args with
      | some (o, rest, as) => libcFormatAux fuel rest as (acc ++ o)
      | none => none
    else libcFormatAux fuel cs args (acc ++ [c])

def libcFormat (piece : List Char) (args : List Arg) : Option (List Char) :=
  libcFormatAux (piece.length + 1) piece args []

/-! ## MODEL: `__gmp_doprnt_mpf` (printf/doprntf.c) on the digits of mpf_get_str

`mpfGetStr` is the SPECIFICATION of mpf_get_str (exact value, truncated to the requested number of digits
and rounded half up on the next digit, trailing zeros removed); its accuracy is property C13's business.
The correspondence for `%F` therefore only uses values whose mantissa has at most two limbs (mpf/get_str.c
then multiplies/divides exactly). -/

/-- digits (as numbers) of `n` in base `b`, most significant first; [] for 0 -/
def digitList (b : Nat) (n : Nat) : List Nat :=
  if _h : n = 0 ∨ b < 2 then [] else digitList b (n / b) ++ [n % b]
termination_by n
decreasing_by
  have h' : ¬ (n = 0 ∨ b < 2) := _h
  exact Nat.div_lt_self (by omega) (by omega)

/-- smallest j ≥ 1 with num * b^j ≥ den (num > 0) -/
def firstDigitPos (b num den : Nat) : Nat → Nat → Nat
  | 0, j => j
  | fuel + 1, j => if num * b ^ j ≥ den then j else firstDigitPos b num den fuel (j + 1)

/-- MPF_SIGNIFICANT_DIGITS (gmp-impl.h:3963): 2 + floor((prec-1)*64*chars_per_bit_exactly) -/
def mpfSignificantDigits (base : Nat) (prec : Nat) : Nat :=
  if base = 16 then 2 + ((prec - 1) * 64) / 4
  else 2 + ((prec - 1) * 64 * 3010299956639812) / 10000000000000000

/-- mpf_get_str (NULL, &exp, base, ndigits, f) for |f| = mant * 2^e2, mant > 0: (digit values, exp). -/
def mpfGetStr (base : Nat) (ndigits : Nat) (prec : Nat) (mant : Nat) (e2 : Int) : List Nat × Int :=
  let maxd := mpfSignificantDigits base prec
  let n := if ndigits = 0 ∨ ndigits > maxd then maxd else ndigits
  let num := if e2 ≥ 0 then mant * 2 ^ e2.toNat else mant
  let den := if e2 ≥ 0 then 1 else 2 ^ (-e2).toNat
  -- exponent: base^(E-1) ≤ value < base^E
  let E : Int := if num ≥ den then ((digitList base (num / den)).length : Int)
                 else 1 - (firstDigitPos base num den (den.log2 + 2) 1 : Int)
  -- value * base^(n-E), rounded half up
  let sh : Int := n - E
  let numS := if sh ≥ 0 then num * base ^ sh.toNat else num
  let denS := if sh ≥ 0 then den else den * base ^ (-sh).toNat
  let q := (2 * numS + denS) / (2 * denS)
  let (ds, E) : List Nat × Int := if q ≥ base ^ n then ([1], E + 1) else (digitList base q, E)
  ((ds.reverse.dropWhile (· == 0)).reverse, E)

/-- `snprintf (exponent, ..., p->expfmt, expsign, expval)`: "e%c%02ld" / "p%c%ld" and upper-case twins -/
def expText (p : Params) (expval : Int) : List Char :=
  let letter : Char := if p.expHex then (if p.expUpper then 'P' else 'p') else (if p.expUpper then 'E' else 'e')
  let sgn : Char := if expval ≥ 0 then '+' else '-'
  let ds := natDigits 10 false expval.natAbs
  let ds := if ¬ p.expHex ∧ ds.length < 2 then '0' :: ds else ds
  letter :: sgn :: ds

/-- chars_per_limb of mp_bases (64-bit limbs) for the two bases `%F` conversions use -/
def charsPerLimb (base : Nat) : Int := if base = 16 then 16 else 19

/-- `__gmp_doprnt_mpf` (printf/doprntf.c:55-385), decimal point ".". -/
def doprntMpf (p : Params) (fprec : Nat) (neg : Bool) (limbs : List Nat) (fexp : Int) : List Call :=
  let base := p.base.natAbs
  let upper := decide (p.base < 0)
  let mant := val limbs
  let zero := limbs.isEmpty ∨ mant = 0
  -- :73-114 how many digits to ask for
  let prec0 : Int := p.prec
  let (prec1, ndigits) : Int × Int :=
    if prec0 ≤ -1 then
      (if p.conv = 3 then (mpfSignificantDigits base fprec : Int) else prec0, 0)
    else if p.conv = 1 then (prec0, max (prec0 + 2 + fexp * (charsPerLimb base + (if fexp ≥ 0 then 1 else 0))) 1)
    else if p.conv = 2 then (prec0, prec0 + 1)
    else (prec0, max prec0 1)
  -- :117 mpf_get_str
  let (dvals, exp0) : List Nat × Int :=
    if zero then ([], 0) else mpfGetStr base ndigits.toNat fprec mant (64 * (fexp - limbs.length))
  let s0 : List Char := dvals.map (digitChar upper)
  -- :131-138 sign
  let sign : Option Char := if neg ∧ ¬ zero then some '-' else p.sign
  let signlen : Int := if sign.isSome then 1 else 0
  -- the three layouts
  let fixedPart (s : List Char) (exp : Int) : Int × Int × Int × Int :=     -- intlen intzeros fraczeros fraclen
    if exp ≤ 0 then (0, 1, -exp, s.length)
    else
      let intlen := min (s.length : Int) exp
      (intlen, exp - intlen, 0, s.length - intlen)
  let sciPart (s : List Char) (exp : Int) : Int × Int × Int × Int × List Char :=
    let intlen : Int := min 1 s.length
    let expval : Int := (exp - intlen) * (if p.exptimes4 then 4 else 1)
    (intlen, if intlen = 0 then 1 else 0, 0, s.length - intlen, expText p expval)
  -- :140-215 FIXED: truncate to prec fraction digits with round to nearest
  let fixedRound (s : List Char) (exp : Int) (prec : Int) : List Char × Int :=
    let newlen := exp + prec
    if newlen < 0 then ([], 0)
    else if (s.length : Int) ≤ newlen then (s, exp)
    else
      let keep := s.take newlen.toNat
      let n := (dvals.getD newlen.toNat 0)
      if n ≥ (base + 1) / 2 then
        -- propagate a carry
        let kv := (dvals.take newlen.toNat)
        let stripped := (kv.reverse.dropWhile (· == base - 1)).reverse
        match stripped.reverse with
        | [] => (['1'], exp + 1)
        | last :: restRev => ((restRev.reverse ++ [last + 1]).map (digitChar upper), exp)
      else
        let t := (keep.reverse.dropWhile (· == '0')).reverse
        (t, if t.isEmpty then 0 else exp)
  let (s, prec, intlen, intzeros, fraczeros, fraclen, expStr) :
      List Char × Int × Int × Int × Int × Int × List Char :=
    if p.conv = 1 then
      let prec := if prec1 ≤ -1 then max 0 ((s0.length : Int) - exp0) else prec1
      let (s, exp) := fixedRound s0 exp0 prec
      let (a, b, c, d) := fixedPart s exp
      (s, prec, a, b, c, d, [])
    else if p.conv = 2 then
      let prec := if prec1 ≤ -1 then max 0 ((s0.length : Int) - 1) else prec1
      let (a, b, c, d, e) := sciPart s0 exp0
      (s0, prec, a, b, c, d, e)
    else
      -- GENERAL :263-271
      if exp0 - 1 < -4 ∨ exp0 - 1 ≥ max 1 prec1 then
        let (a, b, c, d, e) := sciPart s0 exp0
        (s0, prec1, a, b, c, d, e)
      else
        let (a, b, c, d) := fixedPart s0 exp0
        (s0, prec1, a, b, c, d, [])
  let explen : Int := expStr.length
  -- :281-292 trailing zeros up to the precision
  let preczeros : Int :=
    if p.showtrailing then max 0 (prec - (fraczeros + fraclen + (if p.conv = 3 then intlen + intzeros else 0))) else 0
  -- :296-298 radix point
  let pointlen : Int := if fraczeros + fraclen + preczeros ≠ 0 ∨ p.showpoint then 1 else 0
  -- :303-324 base prefix
  let showbase : List Char :=
    if p.showbase = .no then []
    else if p.showbase = .nonzero ∧ intlen = 0 ∧ fraclen = 0 then []
    else (if p.base = 16 then ['0', 'x'] else if p.base = -16 then ['0', 'X'] else if p.base = 8 then ['0'] else [])
  let showbaselen : Int := showbase.length
  -- :329-336
  let justlen : Int := p.width - (signlen + showbaselen + intlen + intzeros + pointlen + fraczeros + fraclen + preczeros + explen)
  let justify := if justlen ≤ 0 then Justify.none else p.justify
  (if justify = .right then [Call.reps p.fill justlen.toNat] else []) ++
  (match sign with | some c => [Call.reps c 1] | none => []) ++
  memoryMaybe showbase ++
  (if justify = .internal then [Call.reps p.fill justlen.toNat] else []) ++
  [Call.memory (s.take intlen.toNat)] ++
  repsMaybe '0' intzeros.toNat ++
  (if pointlen ≠ 0 then [Call.memory ['.']] else []) ++
  repsMaybe '0' fraczeros.toNat ++
  memoryMaybe ((s.drop intlen.toNat).take fraclen.toNat) ++
  repsMaybe '0' preczeros.toNat ++
  memoryMaybe expStr ++
  (if justify = .left then [Call.reps p.fill justlen.toNat] else [])

/-! ## MODEL: the format parser `__gmp_doprnt` (printf/doprnt.c) -/

/-- what a `%n` stored -/
inductive Store where
  | cell (v : Nat)
  | mpz (v : Int)
  | mpq (n d : Int)
  deriving Repr, Inhabited

/-- state of one `%` sequence (doprnt.c:213-228 initialisation) -/
structure PS where
  param : Params := {}
  type : Char := '\x00'
  inPrec : Bool := false     -- value == &param.prec
  seenPrec : Bool := false   -- seen_precision
  inNum : Bool := false      -- inside the digit loop :598-610
  deriving Repr, Inhabited

/-- state of `__gmp_doprnt`; `pending` is the text from `last_fmt` up to `fmt`, reversed -/
structure DS where
  ap : List Arg
  lastAp : List Arg
  pending : List Char := []
  calls : List Call := []
  retval : Nat := 0
  stores : List Store := []
  deriving Repr, Inhabited

inductive Mode where
  | text
  | spec (ps : PS) (thisPending : List Char)    -- thisPending = `pending` at `this_fmt`
  deriving Repr, Inhabited

def DS.emit (st : DS) (cs : List Call) : DS :=
  { st with calls := st.calls ++ cs, retval := st.retval + (callsBytes cs).length }

/-- FLUSH() (doprnt.c:135-149): nothing if this_fmt == last_fmt, else the text before this `%` goes to
    funs->format with last_ap. -/
def flush (st : DS) (thisPending : List Char) : Option DS :=
  if thisPending.isEmpty then some st else
    match libcFormat thisPending.reverse st.lastAp with
    | some out => some (st.emit [.format out])
    | none => none

/-- after a conversion done here: va_copy (last_ap, ap); last_fmt = fmt; -/
def DS.sync (st : DS) : DS := { st with lastAp := st.ap, pending := [] }

def popInt : List Arg → Option (Int × List Arg)
  | .int v :: as => some (v, as)
  | _ => none

/-- `*value = n` -/
def PS.setValue (ps : PS) (n : Int) : PS :=
  if ps.inPrec then { ps with param := { ps.param with prec := n } }
  else { ps with param := { ps.param with width := n } }
def PS.getValue (ps : PS) : Int := if ps.inPrec then ps.param.prec else ps.param.width

/-- the flag characters (doprnt.c:525-545 `#`, `+`, space, `-`; :581-596 `0`).  `old` = before the
    repairs 802f527 / 214972f. -/
def stepFlag (old : Bool) (ps : PS) (c : Char) : PS :=
  if c = '#' then { ps with param := { ps.param with showbase := .nonzero } }
  else if c = '+' then { ps with param := { ps.param with sign := some '+' } }
  else if c = ' ' then
    (if old ∨ ps.param.sign = none then { ps with param := { ps.param with sign := some ' ' } } else ps)
  else if c = '-' then { ps with param := { ps.param with justify := .left } }
  else if c = '0' then
    (if ¬ ps.inPrec then
      let j : Justify := if ps.param.justify = .right then .internal else ps.param.justify
      let p0 : Params := { ps.param with fill := '0' }
      { ps with param := { p0 with justify := j } }
     else ps.setValue 0)
  else ps

/-- `case '*'` (doprnt.c:552-579) -/
def stepStar (old : Bool) (ps : PS) (n : Int) : PS :=
  if ¬ ps.inPrec then
    (if n < 0 then { ps with param := { ps.param with justify := .left, width := -n } }
     else { ps with param := { ps.param with width := n } })
  else if old then { ps with param := { ps.param with prec := max 0 n } }
  else if n < 0 then { ps with seenPrec := false, param := { ps.param with prec := 6 } }
  else { ps with param := { ps.param with prec := n } }

/-- `case '.'` (:546-550) -/
def stepDot (ps : PS) : PS :=
  { ps with seenPrec := true, inPrec := true, param := { ps.param with prec := -1 } }

/-- label `integer:` (:269-281): default precision, then (214972f) the C99 rule that `-` or a precision
    cancels the `0` flag. -/
def integerParams (old : Bool) (ps : PS) (base : Int) : Params :=
  let p := { ps.param with base := base }
  let p := if ¬ ps.seenPrec then { p with prec := -1 } else p
  if ¬ old ∧ (p.justify = .left ∨ p.prec ≥ 0) then
    { p with fill := ' ', justify := if p.justify = .internal then .right else p.justify }
  else p

/-- the value of an `N` argument: `xsize = (int) va_arg`, MPN_NORMALIZE, sign of xsize (:300-314) -/
def mpnValue (l : List Nat) (xsize : Int) : Option Int :=
  let n := (wrapSigned 32 xsize).natAbs
  if l.length < n then none else
  let v := val (l.take n)
  some (if wrapSigned 32 xsize ≥ 0 then (v : Int) else -(v : Int))

/-- The conversion characters d i u o x X once the type is known (:282-356).  Returns the new state. -/
def doInteger (old : Bool) (ps : PS) (tp : List Char) (base : Int) (st : DS) : Option DS :=
  let p := integerParams old ps base
  let gmp (st : DS) (str : List Char) : Option DS :=
    some ((st.emit (doprntIntegerG old p str)).sync)
  if ps.type = 'Z' then
    match flush st tp with
    | some st => (match st.ap with
      | .mpz v :: as => gmp { st with ap := as } (mpzGetStr base v)
      | _ => none)
    | none => none
  else if ps.type = 'Q' then
    match flush st tp with
    | some st => (match st.ap with
      | .mpq n d :: as => gmp { st with ap := as } (mpqGetStr base n d)
      | _ => none)
    | none => none
  else if ps.type = 'N' then
    match flush st tp with
    | some st => (match st.ap with
      | .limbs l :: .int xs :: as =>
        (match mpnValue l xs with
         | some v => gmp { st with ap := as } (mpzGetStr base v)
         | none => none)
      | _ => none)
    | none => none
  else
    -- every standard type: (void) va_arg (ap, <type>); the piece stays pending for the C library
    match popInt st.ap with
    | some (_, as) => some { st with ap := as }
    | none => none

/-- `case 'n'` (:454-511) -/
def doN (ps : PS) (tp : List Char) (st : DS) : Option DS :=
  match flush st tp with
  | none => none
  | some st =>
    let r := st.retval
    let t := ps.type
    match st.ap with
    | .cell :: as =>
      let bytes : Option Nat :=
        if t = '\x00' then some 4 else if t = 'H' then some 1 else if t = 'h' then some 2
        else if t = 'j' ∨ t = 'l' ∨ t = 'q' ∨ t = 'L' ∨ t = 't' ∨ t = 'z' then some 8 else none
      (match bytes with
       | some b => some ({ st with ap := as, stores := st.stores ++ [Store.cell (r % 2 ^ (8 * b))] }.sync)
       | none => none)
    | .mpzOut :: as => if t = 'Z' then some ({ st with ap := as, stores := st.stores ++ [Store.mpz r] }.sync) else none
    | .mpqOut :: as => if t = 'Q' then some ({ st with ap := as, stores := st.stores ++ [Store.mpq r 1] }.sync) else none
    | _ => none

/-- the float conversions a A e E f g G (doprnt.c:241-258, 358-396, 398-421); only the MPIR type F is
    modelled (double and long double arguments are not passed by the harness). -/
def doFloat (old : Bool) (ps : PS) (tp : List Char) (c : Char) (st : DS) : Option DS :=
  let p := ps.param
  -- per conversion character
  let p : Params :=
    if c = 'a' ∨ c = 'A' then
      { p with base := if c = 'a' then 16 else -16, expHex := true, expUpper := decide (c = 'A'), conv := 2, exptimes4 := true,
               prec := if ¬ ps.seenPrec then -1 else p.prec, showbase := .yes, showtrailing := true }
    else
      let p := if c = 'E' ∨ c = 'G' then { p with base := -10, expUpper := true } else p
      let p := if c = 'e' ∨ c = 'E' then { p with conv := 2 }
               else if c = 'f' then { p with conv := 1 }
               else { p with conv := 3, showtrailing := false }
      -- label `floating:` "# in %e, %f and %g"
      if p.showbase = .nonzero then { p with showpoint := true, showtrailing := true } else p
  -- label `floating_a:` (214972f): the 0 flag is ignored if the - flag is present
  let p := if ¬ old ∧ p.justify = .left then { p with fill := ' ' } else p
  if ps.type = 'F' then
    match flush st tp with
    | some st => (match st.ap with
      | .mpf fprec neg limbs fexp :: as =>
          some (({ st with ap := as }.emit (doprntMpf p fprec neg limbs fexp)).sync)
      | _ => none)
    | none => none
  else none

/-- outcome of one character inside a `%` sequence -/
inductive Step where
  | fail                              -- outside the modelled subset / undefined by the manual
  | cont (mode : Mode) (st : DS)      -- go on with the next character
  deriving Repr, Inhabited

def Step.ofOpt (m : Mode) : Option DS → Step
  | some st => .cont m st
  | none => .fail

/-- the `switch (fchar)` of doprnt.c:239-616 for one character `c` of a `%` sequence; `st0` is the state
    before `c` is appended to the pending text. -/
def specStep (old : Bool) (c : Char) (ps : PS) (tp : List Char) (st0 : DS) : Step :=
  let st := { st0 with pending := c :: st0.pending }
  if ps.inNum ∧ isDigit c then
    .cont (.spec (ps.setValue (ps.getValue * 10 + digitVal c)) tp) st
  else
  let ps := { ps with inNum := false }
  if c = 'd' ∨ c = 'i' ∨ c = 'u' then Step.ofOpt .text (doInteger old ps tp 10 st)
  else if c = 'o' then Step.ofOpt .text (doInteger old ps tp 8 st)
  else if c = 'x' then Step.ofOpt .text (doInteger old ps tp 16 st)
  else if c = 'X' then Step.ofOpt .text (doInteger old ps tp (-16) st)
  else if c = 'c' then
    match popInt st.ap with | some (_, as) => .cont .text { st with ap := as } | none => .fail
  else if c = 's' ∨ c = 'p' then
    match st.ap with | _ :: as => .cont .text { st with ap := as } | [] => .fail
  else if c = 'm' ∨ c = '%' then .cont .text st
  else if c = 'n' then Step.ofOpt .text (doN ps tp st)
  else if c = 'F' ∨ c = 'j' ∨ c = 'L' ∨ c = 'N' ∨ c = 'q' ∨ c = 'Q' ∨ c = 't' ∨ c = 'z' ∨ c = 'Z' then
    .cont (.spec { ps with type := c } tp) st
  else if c = 'h' then .cont (.spec { ps with type := if ps.type ≠ 'h' then 'h' else 'H' } tp) st
  else if c = 'l' then .cont (.spec { ps with type := if ps.type ≠ 'l' then 'l' else 'L' } tp) st
  else if c = 'M' then
    -- :440-452 with _LONG_LONG_LIMB: the `M` becomes `ll` in the copy of the format; type = 'L'
    .cont (.spec { ps with type := 'L' } tp) { st0 with pending := 'l' :: 'l' :: st0.pending }
  else if c = '#' ∨ c = '+' ∨ c = ' ' ∨ c = '-' ∨ c = '0' then .cont (.spec (stepFlag old ps c) tp) st
  else if c = '\'' then .cont (.spec ps tp) st
  else if c = '.' then .cont (.spec (stepDot ps) tp) st
  else if c = '*' then
    match popInt st.ap with
    | some (n, as) => .cont (.spec (stepStar old ps (wrapSigned 32 n)) tp) { st with ap := as }
    | none => .fail
  else if isDigit c then .cont (.spec ({ ps with inNum := true }.setValue (digitVal c)) tp) st
  else if c = 'a' ∨ c = 'A' ∨ c = 'e' ∨ c = 'E' ∨ c = 'f' ∨ c = 'g' ∨ c = 'G' then
    Step.ofOpt .text (doFloat old ps tp c st)
  else .cont .text st         -- :612-615 default: "something invalid", goto next

/-- `__gmp_doprnt` main loops (:190-640), one character at a time.  `none` = outside the modelled
    subset or undefined by the manual (argument of the wrong kind, unterminated `%`, float conversions). -/
def run (old : Bool) : List Char → Mode → DS → Option DS
  | [], .text, st =>
    -- :625-626  if (*last_fmt != '\0') DOPRNT_FORMAT (last_fmt, last_ap);
    if st.pending.isEmpty then some st else
      match libcFormat st.pending.reverse st.lastAp with
      | some out => some (st.emit [.format out])
      | none => none
  | [], .spec _ _, _ => none       -- :236-237 `fchar == '\0'`: the outer strchr then starts past the terminator
  | c :: cs, .text, st =>
    if c = '%' then run old cs (.spec {} st.pending) { st with pending := c :: st.pending }
    else run old cs .text { st with pending := c :: st.pending }
  | c :: cs, .spec ps tp, st0 =>
    match specStep old c ps tp st0 with
    | .fail => none
    | .cont m st => run old cs m st

structure DoprntResult where
  calls : List Call
  retval : Nat
  stores : List Store
  deriving Repr

def doprntG (old : Bool) (fmt : List Char) (args : List Arg) : Option DoprntResult :=
  match run old fmt .text { ap := args, lastAp := args } with
  | some st => some { calls := st.calls, retval := st.retval, stores := st.stores }
  | none => none

def doprnt := doprntG false
def doprntOld := doprntG true

/-! ## The single-conversion view used by the property theorems -/

inductive WidthArg where
  | none | num (n : Nat) | star (n : Int)
  deriving Repr, DecidableEq, Inhabited
inductive PrecArg where
  | none | dot | num (n : Nat) | star (n : Int)
  deriving Repr, DecidableEq, Inhabited

/-- what C makes of the flag characters (any order, repeats allowed) and of a negative `*` width -/
def cFlags (fl : List Char) (w : WidthArg) : Flags :=
  { minus := fl.contains '-' || (match w with | .star n => decide (n < 0) | _ => false),
    plus := fl.contains '+', space := fl.contains ' ', hash := fl.contains '#', zero := fl.contains '0' }
def cWidth : WidthArg → Nat
  | .none => 0 | .num n => n | .star n => n.natAbs
def cPrec : PrecArg → Option Nat
  | .none => none | .dot => some 0 | .num n => some n | .star n => if n < 0 then none else some n.toNat

def convBase : Conv → Int
  | .o => 8 | .x => 16 | .X => -16 | _ => 10

/-- the parameters `__gmp_doprnt` arrives at for `% fl w p Z conv`, computed with the parser's own step
    functions -/
def specParams (old : Bool) (fl : List Char) (w : WidthArg) (p : PrecArg) (conv : Conv) : Params :=
  let ps := fl.foldl (stepFlag old) {}
  let ps := match w with
    | .none => ps
    | .num n => ps.setValue n
    | .star n => stepStar old ps n
  let ps := match p with
    | .none => ps
    | .dot => stepDot ps
    | .num n => (stepDot ps).setValue n
    | .star n => stepStar old (stepDot ps) n
  integerParams old ps (convBase conv)

/-- bytes `gmp_printf ("%<fl><w><p>Z<conv>", v)` produces according to the model -/
def layoutModelG (old : Bool) (fl : List Char) (w : WidthArg) (p : PrecArg) (conv : Conv) (v : Int) : List Char :=
  callsBytes (doprntIntegerG old (specParams old fl w p conv) (mpzGetStr (convBase conv) v))
def layoutModel := layoutModelG false

/-- The combinations compared with the C library: outside MPIR's documented deviations
    (doc/mpir.texi "Formatted Output Strings" and the statement of C18):
    o, x, X are signed for Z, Q, N (so a negative value, `+` and space differ from C's unsigned view);
    an empty precision `.` means "not given" (C: zero);  `#` with precision 0 on the value 0 prints the
    bare `0x`/`0X` prefix;  `u` is not meaningful for Z. -/
def Comparable (fl : List Char) (p : PrecArg) (conv : Conv) (v : Int) : Prop :=
  conv ≠ .u ∧ p ≠ .dot ∧
  (conv.signed = true ∨ (0 ≤ v ∧ ¬ '+' ∈ fl ∧ ¬ ' ' ∈ fl)) ∧
  ¬ ('#' ∈ fl ∧ cPrec p = some 0 ∧ v = 0 ∧ conv.base = 16)

instance (fl : List Char) (p : PrecArg) (conv : Conv) (v : Int) : Decidable (Comparable fl p conv v) := by
  unfold Comparable; infer_instance


end Mpir.Printf
