/-
  C02, multi-limb layer: the glue of mpn_tdiv_qr and the wrapper mpn_divrem, limb for limb.  Core Lean only.

  Source mirrored (tie = correspondence, ops `tdiv_qr_model`, `divrem_model`, `divrem_2_contract` in Mpir/Ops/TdivQr.lean,
  harness/ops_tdivqr.c):
    mpn/generic/tdiv_qr.c   (whole file)
    mpn/generic/divrem.c    (whole file)
  Kernels used through their limb-level models (Mpir/Model/Kernels.lean, proved in C03): mpn_lshift, mpn_rshift,
  mpn_add_n, mpn_sub_n, mpn_sub, mpn_sub_1, mpn_submul_1, mpn_decr_u (`decr`); mpn_mul enters as the value product
  (C01).  count_leading_zeros, udiv_qrnnd, umul_ppmm: the trusted word primitives of Mpir/Model/DivWord.lean.

  The inner division callees:
    mpn_divrem_1                       the limb-level model DivWord.divrem_1 (proved: C02_word, divrem_1_val)
    mpn_sb_div_qr                      the limb-level model SbDiv.sb_div_qr (proved: C02_sb, sb_div_qr_contract)
    mpn_dc_div_qr, mpn_dc_div_qr_n     CONTRACT `divQrSpec`: exact quotient / remainder of a normalised division
    mpn_inv_div_qr, mpn_inv_div_qr_n   CONTRACT `divQrSpec` (assumption)
    mpn_divrem_2 (assembly)            CONTRACT `divrem_2`  (assumption; compared with the real function by the op
                                       `divrem_2_contract`)
  Which of sb / dc / inv is called is decided by `dispatchQr` / `dispatchQrN` exactly as in the C, with the two
  thresholds as parameters; the theorems (MpirProofs/Props/C02_tdivqr.lean) hold for every value of them.

  Memory.  qp (nn-dn+1 limbs) and rp (dn limbs) are returned as lists.  A temporary area (n2p, d2p, tp) is a list
  of exactly the limbs that are live; where the C keeps a count beside an area (rn beside n2p) the list has that
  length.  The third component `ok` of every result is false iff an `ASSERT_NOCARRY` / `ASSERT_ALWAYS` of the C
  would fail on this input or a limb outside rp would be touched (tdiv_qr.c:361, see `lt2Final`).
-/
import Mpir.Base
import Mpir.Model.Kernels
import Mpir.Model.DivWord
import Mpir.Model.SbDiv
namespace Mpir.TdivQr
open Mpir Mpir.DivWord

/-- DC_DIV_QR_THRESHOLD and INV_DIV_QR_THRESHOLD (gmp-mparam.h; 50 and 1589 in the pinned build). -/
structure Thresholds where
  dc : Nat
  inv : Nat

/-- which normalised division is called -/
inductive Callee where
  | sb | dc | inv
  deriving DecidableEq, Repr

/-- tdiv_qr.c:135-145: `if (BELOW_THRESHOLD (dn, DC_DIV_QR_THRESHOLD)) sb else if (BELOW_THRESHOLD (dn, INV_DIV_QR_THRESHOLD)
    || BELOW_THRESHOLD (nn, 2 * INV_DIV_QR_THRESHOLD)) dc else inv` -/
def dispatchQr (T : Thresholds) (nn dn : Nat) : Callee :=
  if dn < T.dc then .sb
  else if dn < T.inv ∨ nn < 2 * T.inv then .dc
  else .inv

/-- tdiv_qr.c:262-273: sb_div_qr (2qn, qn) / dc_div_qr_n / inv_div_qr_n -/
def dispatchQrN (T : Thresholds) (qn : Nat) : Callee :=
  if qn < T.dc then .sb
  else if qn < T.inv then .dc
  else .inv

/-- CONTRACT of mpn_sb_div_qr / mpn_dc_div_qr(_n) / mpn_inv_div_qr(_n) (qp, np, nn, dp, dn, …), divisor normalised:
    the nn-dn low limbs of ⌊n/d⌋, the remainder on dn limbs (left in np), the returned high limb ⌊n/d⌋ / B^(nn-dn). -/
def divQrSpec (n d : List Nat) : List Nat × List Nat × Nat :=
  let qn := n.length - d.length
  let Q := val n / val d
  (toLimbs qn Q, toLimbs d.length (val n % val d), Q / B ^ qn)

/-- the callee chosen by the dispatch: schoolbook through its limb-level model, the others through their contract -/
def callDivQr (c : Callee) (n d : List Nat) : List Nat × List Nat × Nat :=
  match c with
  | .sb => SbDiv.sb_div_qr n d (invert_pi1 (d.getD (d.length - 1) 0) (d.getD (d.length - 2) 0))   -- :134 / :261 mpir_invert_pi1
  | .dc => divQrSpec n d
  | .inv => divQrSpec n d

/-- CONTRACT of mpn_divrem_2 (qp, qxn, np, nn, dp) (assembly in this build): dp two limbs, normalised, nn ≥ 2.
    Divides n·B^qxn; nn-2+qxn quotient limbs, the remainder in np[0], np[1], returns the most significant quotient limb. -/
def divrem_2 (qxn : Nat) (n d : List Nat) : List Nat × List Nat × Nat :=
  let N := val n * B ^ qxn
  let qn := n.length - 2 + qxn
  (toLimbs qn (N / val d), toLimbs 2 (N % val d), N / val d / B ^ qn)

/-- `p[0] |= v` -/
def orLow (l : List Nat) (v : Nat) : List Nat :=
  match l with
  | [] => []
  | x :: xs => (x ||| v) :: xs

/-! ### dn = 1, dn = 2 -/

/-- tdiv_qr.c:54-58: `rp[0] = mpn_divrem_1 (qp, 0, np, nn, dp[0])` -/
def case1 (n d : List Nat) : List Nat × List Nat × Bool :=
  let qr := divrem_1 0 n (d.getD 0 0)
  (qr.1, [qr.2], true)

/-- tdiv_qr.c:60-97 -/
def case2 (n d : List Nat) : List Nat × List Nat × Bool :=
  let nn := n.length
  let d0 := d.getD 0 0
  let d1 := d.getD 1 0
  if d1 &&& HIGHBIT = 0 then                                        -- :66
    let cnt := count_leading_zeros d1                               -- :70
    let d2p := [(d0 <<< cnt) % B,                                   -- :74 d2p[0]
                ((d1 <<< cnt) % B) ||| (d0 >>> (64 - cnt))]         -- :73 d2p[1]
    let sh := lshift n cnt                                          -- :76 cy = mpn_lshift (n2p, np, nn, cnt)
    let n2p := sh.1 ++ [sh.2]                                       -- :77 n2p[nn] = cy
    let res := divrem_2 0 (n2p.take (nn + (if sh.2 ≠ 0 then 1 else 0))) d2p   -- :78 nn + (cy != 0)
    let qp := if sh.2 = 0 then res.1 ++ [res.2.2] else res.1        -- :79-80 if (cy == 0) qp[nn - 2] = qhl
    let r0 := res.2.1.getD 0 0
    let r1 := res.2.1.getD 1 0
    (qp, [(r0 >>> cnt) ||| ((r1 <<< (64 - cnt)) % B), r1 >>> cnt], true)      -- :81-83
  else
    let res := divrem_2 0 n d                                       -- :87-90 on a copy of np
    (res.1 ++ [res.2.2], [res.2.1.getD 0 0, res.2.1.getD 1 0], true)          -- :91-93

/-! ### default case, nn + adjust ≥ 2·dn: normalise, divide, shift the remainder back -/

/-- tdiv_qr.c:113-132: (cnt, d2p, n2p) with n2p on nn+1 limbs -/
def firstNorm (n d : List Nat) : Nat × List Nat × List Nat :=
  let dtop := d.getD (d.length - 1) 0
  if dtop &&& HIGHBIT = 0 then                                      -- :113
    let cnt := count_leading_zeros dtop                             -- :115
    let sh := lshift n cnt                                          -- :120
    (cnt, (lshift d cnt).1, sh.1 ++ [sh.2])                         -- :118, :121 n2p[nn] = cy
  else (0, d, n ++ [0])                                             -- :126-130

/-- tdiv_qr.c:107-153.  `qp[nn - dn] = 0` (:112, old nn) survives iff the callee stores nn-dn limbs (adjust = 0). -/
def first (T : Thresholds) (n d : List Nat) (adjust : Nat) : List Nat × List Nat × Bool :=
  let nn := n.length
  let dn := d.length
  let nm := firstNorm n d
  let cnt := nm.1
  let d2p := nm.2.1
  let n2p := nm.2.2
  let nn2 := nn + adjust                                            -- :122 / :131 nn += adjust
  let res := callDivQr (dispatchQr T nn2 dn) (n2p.take nn2) d2p     -- :134-145
  let qp := if adjust = 0 then res.1 ++ [0] else res.1
  let rp := if cnt ≠ 0 then (rshift res.2.1 cnt).1 else res.2.1     -- :147-150
  (qp, rp, res.2.2 == 0)                                            -- ASSERT_NOCARRY

/-! ### default case, nn + adjust < 2·dn ("the numerator is less than twice the size of the denominator") -/

/-- tdiv_qr.c:214-247: (cnt, d2p (qn limbs), n2p (2qn limbs, after `n2p++` when adjust)) -/
def lt2Extract (n d : List Nat) (adjust qn in_ : Nat) : Nat × List Nat × List Nat :=
  let nn := n.length
  let dtop := d.getD (d.length - 1) 0
  if dtop &&& HIGHBIT = 0 then                                      -- :214
    let cnt := count_leading_zeros dtop                             -- :216
    let d2p := orLow (lshift (d.drop in_) cnt).1 (d.getD (in_ - 1) 0 >>> (64 - cnt))      -- :220-221
    let sh := lshift (n.drop (nn - 2 * qn)) cnt                     -- :224
    let n2p := if adjust ≠ 0 then (sh.1 ++ [sh.2]).drop 1           -- :225-229 n2p[2 * qn] = cy; n2p++
               else orLow sh.1 (n.getD (nn - 2 * qn - 1) 0 >>> (64 - cnt))                -- :232
    (cnt, d2p, n2p)
  else
    let top := n.drop (nn - 2 * qn)                                 -- :241
    (0, d.drop in_, if adjust ≠ 0 then (top ++ [0]).drop 1 else top)                     -- :238, :242-246

/-- tdiv_qr.c:250-274: approximate quotient from the extracted operands: (qn quotient limbs, qn remainder limbs left in
    n2p[0 … qn-1], ASSERT_NOCARRY holds) -/
def lt2Estimate (T : Thresholds) (n2p d2p : List Nat) (qn : Nat) : List Nat × List Nat × Bool :=
  if qn = 1 then
    let qr := udiv_qrnnd (n2p.getD 1 0) (n2p.getD 0 0) (d2p.getD 0 0)         -- :253
    ([qr.1], [qr.2], true)                                          -- :254-255
  else if qn = 2 then
    let res := divrem_2 0 n2p d2p                                   -- :258 (return value not used)
    (res.1, res.2.1, true)
  else
    let res := callDivQr (dispatchQrN T qn) n2p d2p                 -- :261-273
    (res.1, res.2.1, res.2.2 == 0)                                  -- ASSERT_NOCARRY

/-- the first (at least partially) ignored divisor limb, normalised, tdiv_qr.c:286-292:
    `x = (dp[in - 1] << cnt) | ((dl >> 1) >> ((~cnt) % GMP_LIMB_BITS))`; (~cnt) % 64 = 63 - cnt. -/
def lt2X (d : List Nat) (in_ cnt : Nat) : Nat :=
  let dl := if in_ < 2 then 0 else d.getD (in_ - 2) 0               -- :286-289
  ((d.getD (in_ - 1) 0 <<< cnt) % B) ||| ((dl >>> 1) >>> (63 - cnt))

/-- tdiv_qr.c:276-313: `if (n2p[qn - 1] < h) { decrement the quotient, add the divisor back; a carry becomes n2p[qn] }`.
    Returns (qp, n2p on rn limbs). -/
def lt2Step2 (d : List Nat) (in_ cnt qn : Nat) (qp rem d2p : List Nat) : List Nat × List Nat :=
  let x := lt2X d in_ cnt
  let h := (umul_ppmm x (qp.getD (qn - 1) 0)).1                     -- :298
  if rem.getD (qn - 1) 0 < h then                                   -- :300
    let qp' := (decr qp).1                                          -- :304 mpn_decr_u (qp, 1)
    let s := add_n rem d2p                                          -- :305
    if s.2 ≠ 0 then (qp', s.1 ++ [s.2])                             -- :306-311 n2p[qn] = cy; ++rn
    else (qp', s.1)
  else (qp, rem)

/-- tdiv_qr.c:316-339 (cnt ≠ 0): append the partially used numerator limb, subtract q times the partially used
    divisor limb.  Returns (n2p on qn+1 limbs, quotient_too_large, ASSERT_ALWAYS (n2p[qn] >= cy2) holds). -/
def lt2Partial (n d : List Nat) (in_ cnt qn : Nat) (qp rem : List Nat) : List Nat × Nat × Bool :=
  let rn := rem.length
  let sh := lshift rem (64 - cnt)                                   -- :321 cy1
  let mask := (B - 1) >>> cnt                                       -- GMP_NUMB_MASK >> cnt
  let l := orLow sh.1 (n.getD (in_ - 1) 0 &&& mask)                 -- :322
  let sm := submul_1 (l.take qn) (qp.take qn) (d.getD (in_ - 1) 0 &&& mask)             -- :325 cy2
  if qn ≠ rn then                                                   -- :326
    let top := l.getD qn 0
    (sm.1 ++ [(top + B - sm.2) % B], 0, decide (top ≥ sm.2))        -- :328-329
  else
    (sm.1 ++ [(sh.2 + B - sm.2) % B], if sh.2 < sm.2 then 1 else 0, true)               -- :333-336

/-- tdiv_qr.c:342-362 with in ≠ 0: tp = q × (low `in` limbs of d); subtract.  Returns (rp, quotient_too_large,
    no limb outside rp is touched).
    `mpn_sub_1 (rp + in, rp + in, rn, cy)` (:361) is called with rn limbs although only dn - in limbs of rp lie above
    rp + in; rn is dn - in or dn - in + 1.  mpn_sub_1 stops at the first limb that does not borrow, so the limb rp[dn]
    is touched iff the borrow runs through all dn - in limbs; this sets `ok` to false. -/
def lt2Final (n d : List Nat) (in_ qn : Nat) (qp rem : List Nat) (tooLarge : Nat) : List Nat × Nat × Bool :=
  let dn := d.length
  let rn := rem.length
  let tp := toLimbs (qn + in_) (val (qp.take qn) * val (d.take in_))          -- :352 / :355 mpn_mul
  let s := sub rem (tp.drop in_)                                    -- :357 cy = mpn_sub (n2p, n2p, rn, tp + in, qn)
  let hi := s.1.take (dn - in_)                                     -- :358 MPN_COPY (rp + in, n2p, dn - in)
  let tooLarge := tooLarge ||| s.2                                  -- :359
  let lo := sub_n (n.take in_) (tp.take in_)                        -- :360 cy = mpn_sub_n (rp, np, tp, in)
  let s1 := sub_1 hi lo.2                                           -- :361 mpn_sub_1 (rp + in, rp + in, rn, cy)
  let past := decide (rn > dn - in_) && s1.2 != 0
  let cy := if rn > dn - in_ then 0 else s1.2
  (lo.1 ++ s1.1, tooLarge ||| cy, !past)                            -- :362

/-- tdiv_qr.c:158-369 -/
def lt2 (T : Thresholds) (n d : List Nat) (adjust : Nat) : List Nat × List Nat × Bool :=
  let nn := n.length
  let dn := d.length
  let qn := nn - dn + adjust                                        -- :199-201; qp[nn - dn] = 0
  let pad := if adjust = 0 then [0] else []                         -- the limb zeroed at :200 lies above the qn limbs iff adjust = 0
  if qn = 0 then ([0], n.take dn, true)                             -- :203-208 MPN_COPY (rp, np, dn)
  else
  let in_ := dn - qn                                                -- :210
  let ex := lt2Extract n d adjust qn in_                            -- :214-247
  let cnt := ex.1
  let d2p := ex.2.1
  let est := lt2Estimate T ex.2.2 d2p qn                            -- :250-274
  let st := lt2Step2 d in_ cnt qn (est.1 ++ pad) est.2.1 d2p        -- :276-313
  let qp := st.1
  let pt := if cnt ≠ 0 then lt2Partial n d in_ cnt qn qp st.2       -- :316-339
            else (st.2, 0, true)
  let in2 := if cnt ≠ 0 then in_ - 1 else in_                       -- :338 --in
  let fin :=
    if in2 = 0 then (pt.1, pt.2.1, decide (pt.1.length = dn))       -- :346-351 MPN_COPY (rp, n2p, rn); ASSERT_ALWAYS (rn == dn)
    else lt2Final n d in2 qn qp pt.1 pt.2.1                         -- :352-362
  let ok := est.2.2 && pt.2.2 && fin.2.2
  if fin.2.1 ≠ 0 then                                               -- :364
    ((decr qp).1, (add_n fin.1 d).1, ok)                            -- :366-367
  else (qp, fin.1, ok)

/-! ### mpn_tdiv_qr -/

/-- mpn_tdiv_qr (qp, rp, 0, np, nn, dp, dn), tdiv_qr.c:37-374: `none` = DIVIDE_BY_ZERO (dn = 0), otherwise
    (qp on nn-dn+1 limbs, rp on dn limbs, ok). -/
def tdiv_qr (T : Thresholds) (n d : List Nat) : Option (List Nat × List Nat × Bool) :=
  match d.length with
  | 0 => none                                                       -- :51-52
  | 1 => some (case1 n d)                                           -- :54
  | 2 => some (case2 n d)                                           -- :60
  | _ =>
    let adjust := if n.getD (n.length - 1) 0 ≥ d.getD (d.length - 1) 0 then 1 else 0     -- :105
    if n.length + adjust ≥ 2 * d.length then some (first T n d adjust)                   -- :106
    else some (lt2 T n d adjust)

/-- the branch taken, as a number computed from the sizes and the top limbs only (the C harness recomputes it):
    1 dn=1; 2 / 3 dn=2 unnormalised / normalised; 0x10 + 2·unnormalised + adjust: first branch;
    0x20: qn = 0; 0x100 + 0x10·min(qn,3) + 2·unnormalised + adjust: "less than twice" branch. -/
def branchCode (n d : List Nat) : Nat :=
  let nn := n.length
  let dn := d.length
  let dtop := d.getD (dn - 1) 0
  let unnorm := if dtop &&& HIGHBIT = 0 then 1 else 0
  if dn = 0 then 0
  else if dn = 1 then 1
  else if dn = 2 then 2 + (1 - unnorm)
  else
    let adjust := if n.getD (nn - 1) 0 ≥ dtop then 1 else 0
    if nn + adjust ≥ 2 * dn then 0x10 + 2 * unnorm + adjust
    else
      let qn := nn - dn + adjust
      if qn = 0 then 0x20 else 0x100 + 0x10 * (min qn 3) + 2 * unnorm + adjust

/-! ### mpn_divrem -/

/-- mpn_divrem (qp, qxn, np, nn, dp, dn), divrem.c:29-101; dp normalised, nn ≥ dn ≥ 1.
    Returns (the nn-dn+qxn limbs stored at qp, the dn remainder limbs left in np[0 … dn-1], the returned limb, ok). -/
def divrem (T : Thresholds) (qxn : Nat) (n d : List Nat) : List Nat × List Nat × Nat × Bool :=
  let nn := n.length
  let dn := d.length
  if dn = 1 then                                                    -- :44
    let qr := divrem_1 qxn n (d.getD 0 0)                           -- :54 np[0] = mpn_divrem_1 (q2p, qxn, np, nn, dp[0])
    let qn := nn + qxn - 1                                          -- :55
    (qr.1.take qn, [qr.2], qr.1.getD qn 0, true)                    -- :56-57
  else if dn = 2 then                                               -- :62
    let res := divrem_2 qxn n d                                     -- :64
    (res.1, res.2.1, res.2.2, true)
  else
    let n2p := if qxn ≠ 0 then List.replicate qxn 0 ++ n else n     -- :74-79 MPN_ZERO (n2p, qxn); MPN_COPY (n2p + qxn, np, nn)
    match tdiv_qr T n2p d with                                      -- :82 / :92
    | none => ([], [], 0, false)
    | some res =>
      let qn := nn - dn + qxn                                       -- :84 / :94
      (res.1.take qn, res.2.1, res.1.getD qn 0, res.2.2)            -- :83-86 / :93-96

end Mpir.TdivQr
