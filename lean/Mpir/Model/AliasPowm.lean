/-
  C05 (aliasing), pointer level: mpz_powm, mpz_powm_ui, mpz_addmul / mpz_submul, mpz_sqrt, mpz_lcm, mpz_invert on the
  memory model of Mpir/Model/AliasMem.lean.  Core Lean only (linked into the driver).

  mpz_powm fetches `mp = PTR (m)` (powm.c:77), `ep = PTR (e)` (:115) and `bp = PTR (b)` (:121 / :191) early and
  uses them to the end; all the mpn work happens in TMP space and is taken here at its VALUE (the value-level
  model Mpir/Model/Powm.lean, proved against b^e mod m in C08, applied to the canonical limbs of the values
  that were read through those pointers); `r` is touched only at `ret:` (:279-283), in the `es == 0` exit
  (:88-89) and in the `bn == 0` exit (:110).  What the model spells out is the ORDER of the reads of the
  operands and the writes of `r`.
-/
import Mpir.Model.AliasMul
import Mpir.Model.Powm
import Mpir.Model.Gcd
namespace Mpir.AliasMem
open Mpir
open Mpir.DivZ (sizeNat siz sameSign)

/-- the C as it is, and plausible wrong versions for the negative examples -/
structure PowmVariant where
  resultInTmp : Bool := true       -- powm.c:187-189 `rp = tp` is TMP space; the wrong variant computes into PTR (r),
                                   -- so that the correction `mpn_sub (rp, PTR (m), n, rp, rn)` (:272-277) reads a clobbered m when r = m
  readBeforeWrite : Bool := true   -- powm.c:88-89 (powm_ui.c:139-140): `mp[0]` is tested BEFORE `PTR (r)[0] = 1` is stored
  deriving Repr

def PowmVariant.c : PowmVariant := {}

/-- powm.c:84-92 / powm_ui.c:135-142: `SIZ (r) = n != 1 || mp[0] != 1; PTR (r)[0] = 1;` — no MPZ_REALLOC: relies on
    1 ≤ ALLOC (r).  `mp` is the pointer fetched at the top. -/
def powmE0 (V : PowmVariant) (r mp n : Nat) (s : St) : R St :=
  if V.readBeforeWrite then do
    let m0 ← limbAt s mp 0                                    -- powm.c:88 mp[0]
    let s := s.setSize r (if n ≠ 1 ∨ m0 ≠ 1 then 1 else 0)    -- :88
    s.storeAt (s.ptr r) 0 [1]                                 -- :89
  else do
    let s ← s.storeAt (s.ptr r) 0 [1]                         -- (wrong variant: the store first)
    let m0 ← limbAt s mp 0
    pure (s.setSize r (if n ≠ 1 ∨ m0 ≠ 1 then 1 else 0))

/-- powm.c:279-282 `ret: MPZ_REALLOC (r, rn); SIZ (r) = rn; MPN_COPY (PTR (r), rp, rn);`
    (powm_ui.c:273-275 is the same text with xp, xn) -/
def powmRet (r rp rn : Nat) (s : St) : R St := do
  let s := s.mpzRealloc r rn                                  -- powm.c:280
  let s := s.setSize r rn                                     -- :281
  let l ← s.load rp rn                                        -- :282
  s.store (s.ptr r) l

/-- the result `(limbs, rn)` of the mpn work sits in TMP space; `ret:`; TMP_FREE (powm.c:284) -/
def powmTail (r : Nat) (p : List Nat × Nat) (s : St) : R St := do
  let t := s.malloc p.1                                       -- rp = TMP_ALLOC_LIMBS … (powm.c:120 / :187-189)
  let s ← powmRet r t.1 p.2 t.2                               -- :279-282
  pure (s.free t.1)                                           -- :284

/-- powm.c:153-277 with the two reads of the modulus kept apart: `mp` (the early pointer, :77 — strip, mpn_powm, CRT)
    and `m2` = what `PTR (m)` holds when the final correction `mpn_sub (rp, PTR (m), n, rp, rn)` (:274) runs. -/
def powmMain2 (bneg : Bool) (bp ep mp m2 : List Nat) : List Nat × Nat :=
  let u := Powm.powmMain false bp ep mp                       -- :153-270 (the sign of b plays no role up to here)
  if ep.headD 0 % 2 = 1 && bneg && u.2 != 0 then              -- :272
    let rp := (Mpir.sub m2 (u.1.take u.2)).1                  -- :274
    (rp, Powm.mpnNormalize rp mp.length)                      -- :275-276
  else u

/-- powm.c:104-284: after the sign of the exponent has been dealt with (`b` may be the local `new_b`).
    `mp`, `n`: fetched at :73-77. -/
def powmCore (V : PowmVariant) (r b e m mp n : Nat) (s : St) : R St := do
  let bn := (s.size b).natAbs                                 -- powm.c:106
  if bn = 0 then pure (s.setSize r 0)                         -- :108-113
  else do
    let en := (s.size e).natAbs                               -- :104 (es or -es)
    let el ← s.load (s.ptr e) en                              -- :115 ep = PTR (e)
    let ml ← s.load mp n
    let bl ← s.load (s.ptr b) bn                              -- :121 / :191 bp = PTR (b)
    let E := natLimbs (val el)
    let M := natLimbs (val ml)
    let Bl := natLimbs (val bl)
    let bneg : Bool := decide (s.size b < 0)
    if E.length = 1 && E.headD 0 = 1 then                     -- :118 en == 1 && ep[0] == 1
      powmTail r (Powm.powmE1 bneg Bl M) s                    -- :120-151 (the correction there uses `mp`), goto ret
    else if V.resultInTmp then do
      let m2 ← s.load (s.ptr m) n                             -- :274 PTR (m), fetched again; r has not been written yet
      powmTail r (powmMain2 bneg Bl E M (natLimbs (val m2))) s          -- :153-284
    else do                                                   -- (wrong variant: rp = PTR (r))
      let u := Powm.powmMain false Bl E M
      let s := s.mpzRealloc r n
      let s ← s.store (s.ptr r) u.1                           -- mpn_powm … write rp
      let m2 ← s.load (s.ptr m) n                             -- :274
      let p := powmMain2 bneg Bl E M (natLimbs (val m2))
      let s ← s.store (s.ptr r) p.1
      powmRet r (s.ptr r) p.2 s

/-- mpz_powm (r, b, e, m): mpz/powm.c:63-285 (HANDLE_NEGATIVE_EXPONENT = 1).  mpz_invert (new_b, b, m) writes only the
    local `new_b`; it is taken at its value-level contract (`Powm.mpz_invert`, the one `Powm.mpz_powm` uses). -/
def powmV (V : PowmVariant) (r b e m : Nat) (s : St) : R St := do
  let n := (s.size m).natAbs                                  -- powm.c:73
  if n = 0 then throw "div0"                                  -- :74-75
  let mp := s.ptr m                                           -- :77
  let es := s.size e                                          -- :81
  if es = 0 then powmE0 V r mp n s                            -- :84-92
  else if es < 0 then do                                      -- :82, :93-99
    let t := s.tmpInit (n + 1)                                -- :94 MPZ_TMP_INIT (new_b, n + 1)
    let bl ← t.2.load (t.2.ptr b) (s.size b).natAbs           -- :96 mpz_invert (new_b, b, m) reads b and m
    let ml ← t.2.load (t.2.ptr m) n
    match Powm.mpz_invert (sgnv (s.size b) (val bl)) (sgnv (s.size m) (val ml)) with
    | none => throw "div0"                                    -- :97
    | some nb => do
      let s ← t.2.setInt t.1 (nb : Int)                       -- new_b = the inverse, in [0, |m|)
      let s ← powmCore V r t.1 e m mp n s                     -- :98 b = new_b; :99 es = -es
      pure s.tmpDone                                          -- :284 TMP_FREE
  else powmCore V r b e m mp n s

def powm := powmV .c

/-- mpz_powm_ui (r, b, el, m): mpz/powm_ui.c:118-288.  `el < 20`: `mp = PTR (m)` (:130) and `bp = PTR (b)` (:161) are
    fetched early, everything is computed in TMP space (value: `Powm.mpz_powm_ui`), `PTR (m)` is read once more by the
    final correction (:268) — before r is touched — and r is written at :273-275.  `el ≥ 20`: a local mpz_t holding el
    (MPZ_FAKE_UI, :283-285) and mpz_powm (:286). -/
def powm_uiV (V : PowmVariant) (r b : Nat) (el : Nat) (m : Nat) (s : St) : R St :=
  if el < 20 then do                                          -- powm_ui.c:120
    let mp := s.ptr m                                         -- :130
    let mn := (s.size m).natAbs                               -- :131
    if mn = 0 then throw "div0"                               -- :132-133
    if el = 0 then powmE0 V r mp mn s                         -- :135-142
    else do
      let ml ← s.load mp mn                                   -- :148-158
      let bl ← s.load (s.ptr b) (s.size b).natAbs             -- :160-161
      match Powm.mpz_powm_ui (sgnv (s.size b) (val bl)) el (sgnv (s.size m) (val ml)) with
      | .div0 => throw "div0"
      | .mk rp rn => powmTail r (rp, rn) s                    -- :175-180 (SIZ (r) = 0) / :273-277
  else do                                                     -- :279-287
    let t := s.tmpInit 1                                      -- :283-285 mpz_t e; mp_limb_t ep[1]; MPZ_FAKE_UI (e, ep, el)
    let s ← t.2.setInt t.1 (el : Int)
    let s ← powmV V r b t.1 m s                               -- :286
    pure s.tmpDone

def powm_ui := powm_uiV .c

/-! ## mpz_addmul, mpz_submul -/

structure AorsmulVariant where
  reallocThenPtr : Bool := true    -- aorsmul.c:81-82 MPZ_REALLOC (w, …) first; PTR (x), PTR (y) are fetched at the calls :88 / :97
  productInTmp : Bool := true      -- aorsmul.c:95-97: the product goes to TMP space, w is still needed
  deriving Repr

def AorsmulVariant.c : AorsmulVariant := {}

/-- mpz_aorsmul_1 (w, x, y, sub) of mpz/aorsmul_i.c:61-189 for a one-limb `y`: `MPZ_REALLOC (w, new_wsize + 1)` (:93; :80 when w = 0),
    THEN `wp = PTR (w); xp = PTR (x)` (:94-95; :81-82); mpn_addmul_1 / mpn_submul_1 / mpn_mul_1 work with `wp == xp`
    (same index read before it is written).  `sub` is the sign word of the C: `< 0` iff `subm`. -/
def aorsmul_1 (w x : Nat) (y : Nat) (subm : Bool) (s : St) : R St := do
  let xsize := s.size x                                       -- aorsmul_i.c:69
  if xsize = 0 ∨ y = 0 then pure s                            -- :70-71
  else
    let wsize := s.size w                                     -- :76
    let n := max xsize.natAbs wsize.natAbs                    -- :92 new_wsize (:80 xsize when w = 0)
    let s := s.mpzRealloc w (n + 1)                           -- :93 (:80)
    let xl ← s.load (s.ptr x) xsize.natAbs                    -- :95 xp = PTR (x) (:82)
    let wl ← s.load (s.ptr w) wsize.natAbs                    -- :94 wp = PTR (w) (:81)
    let xv := sgnv xsize (val xl) * (y : Int)
    let wv := sgnv wsize (val wl)
    s.setInt w (if subm then wv - xv else wv + xv)            -- :97-188 (:82-85)

/-- aorsmul.c:73-142: both operands have at least two limbs, `|SIZ (y)| ≤ |SIZ (x)|`; `subm` already holds `sub ^ ysize`. -/
def aorsmulGen (V : AorsmulVariant) (subm : Bool) (w x y : Nat) (s : St) : R St := do
  let xsize := s.size x
  let ysz := (s.size y).natAbs
  let subm : Bool := subm != decide (xsize < 0)             -- aorsmul.c:73 sub ^= xsize
  let xsz := xsize.natAbs                                   -- :74
  let wsize0 := s.size w                                    -- :76
  let subm : Bool := subm != decide (wsize0 < 0)            -- :77 sub ^= wsize
  let wsz := wsize0.natAbs                                  -- :78
  let tsize := xsz + ysz                                    -- :80
  let early := (s.ptr x, s.ptr y)
  let s := s.mpzRealloc w (max wsz tsize + 1)               -- :81
  let wp := s.ptr w                                         -- :82
  let xp := if V.reallocThenPtr then s.ptr x else early.1   -- :88 / :97 PTR (x), PTR (y) evaluated at the call
  let yp := if V.reallocThenPtr then s.ptr y else early.2
  if wsize0 = 0 then do                                     -- :84 "Nothing to add to, just set w = x*y"
    let r ← mpn_mul wp xp xsz yp ysz s                      -- :88 (w ≠ x, w ≠ y here: x, y ≠ 0 but w == 0)
    let tn := tsize - (if r.1 = 0 then 1 else 0)            -- :89
    pure (r.2.setSize w (if subm then -(tn : Int) else (tn : Int)))   -- :90
  else do
    let t := s.tmpAlloc tsize                               -- :95 tp = TMP_ALLOC_LIMBS (tsize)
    let tp := if V.productInTmp then t.1 else wp
    let s := if V.productInTmp then t.2 else s
    let r ← mpn_mul tp xp xsz yp ysz s                      -- :97
    let tn := tsize - (if r.1 = 0 then 1 else 0)            -- :98
    let tl ← r.2.load tp tn
    let wl ← r.2.load wp wsz                                -- :100-138 mpn_add / mpn_sub / mpn_cmp on wp and tp
    let neg0 : Bool := decide (wsize0 < 0)
    let z : Int := if subm then (val wl : Int) - (val tl : Int) else (val wl : Int) + (val tl : Int)
    let s ← r.2.setInt w (if neg0 then -z else z)           -- :140 SIZ (w) = (wsize_signed >= 0 ? wsize : -wsize)
    pure (if V.productInTmp then s.free tp else s)          -- :142 TMP_FREE

/-- aorsmul.c:63-142, after "make x the bigger of the two" -/
def aorsmulCore (V : AorsmulVariant) (subm : Bool) (w x y : Nat) (s : St) : R St := do
  let ysize := s.size y
  let subm : Bool := subm != decide (ysize < 0)               -- aorsmul.c:63 sub ^= ysize
  if ysize.natAbs = 1 then do                                 -- :64, :67 "use mpn_addmul_1/mpn_submul_1 if possible"
    let y0 ← limbAt s (s.ptr y) 0                             -- :69 PTR (y)[0]
    aorsmul_1 w x y0 subm s
  else aorsmulGen V subm w x y s

/-- mpz_aorsmul (w, x, y, sub) of mpz/aorsmul.c:43-143 (mpz_addmul: sub = 0; mpz_submul: sub = -1). -/
def aorsmulV (V : AorsmulVariant) (subm : Bool) (w x y : Nat) (s : St) : R St :=
  let xsize := s.size x                                       -- aorsmul.c:51
  let ysize := s.size y                                       -- :52
  if xsize = 0 ∨ ysize = 0 then pure s                        -- :53-54
  else if ysize.natAbs > xsize.natAbs then aorsmulCore V subm w y x s   -- :56-61 "make x the bigger of the two"
  else aorsmulCore V subm w x y s

def addmul := aorsmulV .c false
def submul := aorsmulV .c true

/-! ## mpz_sqrt -/

/-- mpn_sqrtrem (sp, NULL, np, nn): mpn/generic/sqrtrem.c:298-301 with a NULL remainder pointer — only the (nn+1)/2 root
    limbs are stored; S may not overlap N. -/
def mpn_sqrt (sp np nn : Nat) (s : St) : R St := do
  if sp = np then throw "ub:mpn_sqrtrem operands overlap"
  let n ← s.load np nn
  if ¬ 1 ≤ nn then throw "ub:mpn_sqrtrem sizes"
  if n.getD (nn - 1) 0 = 0 then throw "ub:mpn_sqrtrem operand not normalised"
  s.store sp (toLimbs ((nn + 1) / 2) (Nat.sqrt (val n)))

structure SqrtVariant where
  copyOp : Bool := true          -- sqrt.c:69-76 "Make OP not overlap with ROOT"
  deriving Repr

def SqrtVariant.c : SqrtVariant := {}

/-- mpz_sqrt (root, op): mpz/sqrt.c:27-86.  The destination block is managed by hand as in mpz_mul: too small — free it
    and allocate a new one, the release postponed (`free_me`, :54-58, :83-84) if the block is also op's (cannot happen for
    a well-formed operand: ALLOC (op) ≥ op_size ≥ root_size); large enough and root == op — op is copied to TMP space. -/
def mpz_sqrtV (V : SqrtVariant) (root op : Nat) (s : St) : R St := do
  let op_size := s.size op                                    -- sqrt.c:37
  if op_size < 0 then throw "sqrtneg"                         -- :40-41
  if op_size = 0 then pure (s.setSize root 0)                 -- :42-43
  else
    let n := op_size.natAbs
    let root_size := (n + 1) / 2                              -- :47
    let root_ptr := s.ptr root                                -- :49
    let op_ptr := s.ptr op                                    -- :50
    if s.alloc root < root_size then do                       -- :52
      let keep : Bool := root_ptr = op_ptr                    -- :54-58 free_me = root_ptr
      let s := if keep then s else s.free root_ptr            -- :60
      let s := s.newBlock root root_size                      -- :62-64
      let s ← mpn_sqrt (s.ptr root) op_ptr n s                -- :79
      let s := s.setSize root root_size                       -- :81
      pure (if keep then s.free root_ptr else s)              -- :83-84
    else do
      let c : Bool := V.copyOp ∧ root_ptr = op_ptr            -- :69
      let (op_ptr, s) ← s.copyIf c op_ptr n                   -- :72-75
      let s ← mpn_sqrt root_ptr op_ptr n s                    -- :79
      let s := s.setSize root root_size                       -- :81
      pure (if c then s.free op_ptr else s)                   -- :85 TMP_FREE

def mpz_sqrt := mpz_sqrtV .c

/-! ## mpz_lcm -/

/-- lcm.c:50-63, the `one:` arm: `v` has one limb.  MPZ_REALLOC (r, usize+1) first, THEN `up = PTR (u)`, `PTR (v)[0]`,
    `rp = PTR (r)`; mpn_mul_1 works with rp == up. -/
def lcmOne (r u v usize : Nat) (s : St) : R St := do
  let s := s.mpzRealloc r (usize + 1)                         -- lcm.c:51
  let up := s.ptr u                                           -- :53
  let vl ← limbAt s (s.ptr v) 0                               -- :54
  let ul ← s.load up usize
  let gl := Nat.gcd (val ul) vl                               -- :55 mpn_gcd_1 (up, usize, vl)
  let vl := vl / gl                                           -- :56
  let rp := s.ptr r                                           -- :58
  let c ← mpn_mul_1 rp up usize vl s                          -- :59
  let s ← c.2.storeAt rp usize [c.1]                          -- :60
  pure (s.setSize r ((usize + (if c.1 ≠ 0 then 1 else 0) : Nat) : Int))   -- :61-62

/-- mpz_lcm (r, u, v): mpz/lcm.c:28-84.  General case: a local `g` (MPZ_TMP_INIT, MAX (usize, vsize) limbs — enough for
    the gcd and for u / gcd, so neither callee reallocates it), mpz_gcd (g, u, v); mpz_divexact (g, u, g); mpz_mul (r, g, v). -/
def mpz_lcm (r u v : Nat) (s : St) : R St := do
  let usize := s.size u                                       -- lcm.c:34
  let vsize := s.size v                                       -- :35
  if usize = 0 ∨ vsize = 0 then pure (s.setSize r 0)          -- :36-40
  else
    let usz := usize.natAbs                                   -- :41
    let vsz := vsize.natAbs                                   -- :42
    if vsz = 1 then lcmOne r u v usz s                        -- :44-64
    else if usz = 1 then lcmOne r v u vsz s                   -- :66-71 swap, goto one
    else do
      let t := s.tmpInit (max usz vsz)                        -- :74-75 MPZ_TMP_INIT (g, size)
      let s ← mpz_gcd t.1 u v t.2                             -- :77
      let s ← divexact t.1 u t.1 s                            -- :78
      let s ← mpz_mul r t.1 v s                               -- :79
      let s := s.setSize r ((s.size r).natAbs : Int)          -- :81 SIZ (r) = ABS (SIZ (r))
      pure s.tmpDone                                          -- :83 TMP_FREE

/-! ## mpz_invert -/

/-- invert.c:46-71: the two locals, mpz_gcdext, the test of the gcd, the positive representative -/
def invertMain (inverse x n xsize nsize : Nat) (s : St) : R (Bool × St) := do
  let size := max xsize nsize + 1                             -- invert.c:39
  let t1 := s.tmpInit size                                    -- :48 MPZ_TMP_INIT (gcd, size)
  let t2 := t1.2.tmpInit size                                 -- :49 MPZ_TMP_INIT (tmp, size)
  let xl ← t2.2.load (t2.2.ptr x) xsize                       -- :50 mpz_gcdext (gcd, tmp, NULL, x, n)
  let nl ← t2.2.load (t2.2.ptr n) nsize
  let ge := Gcd.mpz_gcdext (sgnv (s.size x) (val xl)) (sgnv (s.size n) (val nl))
  let s ← t2.2.setInt t1.1 ge.1
  let s ← s.setInt t2.1 ge.2.1
  let g0 ← limbAt s (s.ptr t1.1) 0                            -- :53 PTR (gcd)[0]  (ALLOC (gcd) = size ≥ 1)
  if s.size t1.1 ≠ 1 ∨ g0 ≠ 1 then                            -- :53
    pure (false, s.tmpDone.tmpDone)                           -- :55-56
  else do
    let s ← (if s.size t2.1 < 0 then                          -- :60
        (if s.size n < 0 then mpz_sub inverse t2.1 n s        -- :62-63
         else mpz_add inverse t2.1 n s)                       -- :65
      else mpz_set inverse t2.1 s)                            -- :68
    pure (true, s.tmpDone.tmpDone)                            -- :70-71

/-- mpz_invert (inverse, x, n): mpz/invert.c:29-72.  Returns (return value ≠ 0, state).  mpz_gcdext (gcd, tmp, NULL, x, n)
    (:50) writes only the two locals; it is taken at its value (`Gcd.mpz_gcdext`).  `inverse` is written only at :63-68,
    by mpz_sub / mpz_add / mpz_set from the local `tmp` and n — after the last read of x. -/
def mpz_invert (inverse x n : Nat) (s : St) : R (Bool × St) := do
  let xsize := (s.size x).natAbs                              -- invert.c:35, :37
  let nsize := (s.size n).natAbs                              -- :36, :38
  if xsize = 0 then pure (false, s)                           -- :43-44
  else do
    let n0 ← (if nsize = 1 then limbAt s (s.ptr n) 0 else pure 0)   -- :43 (PTR (n))[0], evaluated only when nsize == 1
    if nsize = 1 ∧ n0 = 1 then pure (false, s)                -- :43-44
    else invertMain inverse x n xsize nsize s                 -- :46-71

/-- what the examples look at -/
def lookP (r : R St) (k : Nat) : R (List (Int × Nat × Nat)) := r.map (·.view k)

end Mpir.AliasMem
