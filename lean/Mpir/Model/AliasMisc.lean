/-
  C05 (aliasing), pointer level: mpz_root, mpz_remove, mpz_bin_ui on the memory model of Mpir/Model/AliasMem.lean.
  Core Lean only (linked into the driver).
-/
import Mpir.Model.AliasPowm
import Mpir.Model.Numth
namespace Mpir.AliasMem
open Mpir
open Mpir.DivZ (sizeNat siz sameSign)

/-! ## mpz_root -/

/-- mpn_rootrem (rootp, NULL, up, un, k): mpn/generic/rootrem.c:70-84 with a NULL remainder pointer — only the
    (un-1)/k+1 root limbs are stored, the size of the remainder is returned; the root may not overlap the operand. -/
def mpn_root (rootp up un k : Nat) (s : St) : R (Nat × St) := do
  if rootp = up then throw "ub:mpn_rootrem operands overlap"
  let n ← s.load up un
  if ¬ (1 ≤ un ∧ 2 ≤ k) then throw "ub:mpn_rootrem arguments"
  if n.getD (un - 1) 0 = 0 then throw "ub:mpn_rootrem operand not normalised"
  let r := Root.irootFast k (val n)
  let s ← s.store rootp (toLimbs ((un - 1) / k + 1) r)
  pure (sizeNat (val n - Root.powS r k), s)

structure RootVariant where
  rootInTmp : Bool := true       -- root.c:56-59: `u == root` — the root is built in TMP space and copied back (:76-77)
  deriving Repr

def RootVariant.c : RootVariant := {}

/-- root.c:63-71: `MPN_COPY (rootp, up, un); remn = 0` for nth = 1, else `remn = mpn_rootrem (rootp, NULL, up, un, nth)` -/
def rootCompute (nth rootp up un : Nat) (s : St) : R (Nat × St) :=
  if nth = 1 then do                                          -- root.c:63
    let l ← s.load up un                                      -- :65
    let s ← s.store rootp l
    pure (0, s)                                               -- :66
  else mpn_root rootp up un nth s                             -- :70

/-- mpz_root (root, u, nth): mpz/root.c:26-82 (root ≠ NULL).  Returns (exact?, state). -/
def mpz_rootV (V : RootVariant) (root u nth : Nat) (s : St) : R (Bool × St) := do
  let us := s.size u                                          -- root.c:32
  if us < 0 ∧ nth % 2 = 0 then throw "sqrtneg"                -- :35-36
  if nth = 0 then throw "div0"                                -- :40-41
  if us = 0 then pure (true, s.setSize root 0)                -- :43-48
  else
    let un := us.natAbs                                       -- :50
    let rootn := (un - 1) / nth + 1                           -- :51
    let tmp : Bool := V.rootInTmp ∧ u = root                  -- :56
    let t := s.tmpAlloc rootn
    let s1 := if tmp then t.2 else s.mpzRealloc root rootn    -- :57 / :59
    let rootp := if tmp then t.1 else s1.ptr root
    let up := s1.ptr u                                        -- :61
    let (remn, s2) ← rootCompute nth rootp up un s1           -- :63-71
    let s3 := s2.setSize root (if us ≥ 0 then (rootn : Int) else -(rootn : Int))   -- :75
    let s4 ← (if u = root then do                             -- :76
        let l ← s3.load rootp rootn                           -- :77 MPN_COPY (up, rootp, rootn)
        s3.store up l
      else pure s3)
    pure (decide (remn = 0), if tmp then s4.free rootp else s4)   -- :80-81

def mpz_root := mpz_rootV .c

/-! ## mpz_remove -/

structure RemoveVariant where
  copyFFirst : Bool := true      -- remove.c:60-61: `mpz_set (fpow[0], f)` BEFORE `mpz_set (dest, src)` — dest may be f
  deriving Repr

def RemoveVariant.c : RemoveVariant := {}

/-- remove.c:64-72, "Divide by f, f^2, ..., f^(2^k) until we get a remainder for f^(2^k)"; `fpow[j]` is the variable
    `fp0 + j`; `fpow[p+1]` is created by mpz_init (a one-limb heap block) as the next variable.  Returns p.  The C loop has
    no bound; the fuel (as in `Numth.removeUp`: more than log2 |src| steps are impossible) only makes the definition total,
    and running out of it stops the loop the way the value-level model does. -/
def removeUp (dest x rem fp0 : Nat) : Nat → Nat → St → R (Nat × St)
  | 0, p, s => pure (p, s)
  | fuel + 1, p, s => do
    let s ← tdiv_qr x rem dest (fp0 + p) s                    -- remove.c:66
    if s.size rem ≠ 0 then pure (p, s)                        -- :67-68
    else do
      let t := s.tmpInit 1                                    -- :69 mpz_init (fpow[p + 1])
      let s ← mpz_mul t.1 (fp0 + p) (fp0 + p) t.2             -- :70
      let s ← mpz_set dest x s                                -- :71
      removeUp dest x rem fp0 fuel (p + 1) s

/-- remove.c:80-89, `while (--p >= 0)`: the argument is the p before the decrement; `mpz_clear (fpow[p])` releases the
    last variable. -/
def removeDown (dest x rem fp0 : Nat) : Nat → Nat → St → R (Nat × St)
  | 0, pwr, s => pure (pwr, s)
  | p + 1, pwr, s => do
    let s ← tdiv_qr x rem dest (fp0 + p) s                    -- remove.c:82
    let (pwr, s) ← (if s.size rem = 0 then do                 -- :83
        let s ← mpz_set dest x s                              -- :86
        pure (pwr + 2 ^ p, s)                                 -- :85
      else pure (pwr, s))
    removeDown dest x rem fp0 p pwr s.tmpDone                 -- :88

/-- mpz_remove (dest, src, f): mpz/remove.c:26-94.  Returns (multiplicity, state).  The locals rem, x, fpow[] are mpz_init'ed
    (heap, one limb, grown by their users) and mpz_clear'ed in the reverse order.  mpz_cmp_ui and mpz_scan1 only read. -/
def mpz_removeV (V : RemoveVariant) (dest src f : Nat) (s : St) : R (Nat × St) := do
  if s.value f ≤ 1 then throw "div0"                          -- remove.c:33-34
  if s.size src = 0 then do                                   -- :36
    let s ← (if src ≠ dest then mpz_set dest src s else pure s)   -- :38-39
    pure (0, s)                                               -- :40
  else if s.value f = 2 then do                               -- :43
    let a := (s.value src).natAbs
    let s0 := Numth.ctzAux (a.log2 + 1) a                     -- :46 mpz_scan1 (src, 0)
    let s ← fdiv_q_2exp dest src s0 s                         -- :47
    pure (s0, s)                                              -- :48
  else do
    let t1 := s.tmpInit 1                                     -- :55 mpz_init (rem)
    let t2 := t1.2.tmpInit 1                                  -- :56 mpz_init (x)
    let t3 := t2.2.tmpInit 1                                  -- :59 mpz_init (fpow[0])
    let fuel := (s.value src).natAbs.log2 + 2
    let s ← (if V.copyFFirst then do
        let s ← mpz_set t3.1 f t3.2                           -- :60
        mpz_set dest src s                                    -- :61
      else do
        let s ← mpz_set dest src t3.2                         -- (wrong variant: the other order)
        mpz_set t3.1 f s)
    let (p, s) ← removeUp dest t2.1 t1.1 t3.1 fuel 0 s        -- :64-72
    let pwr := 2 ^ p - 1                                      -- :74
    let s := s.tmpDone                                        -- :76 mpz_clear (fpow[p])
    let (pwr, s) ← removeDown dest t2.1 t1.1 t3.1 p pwr s     -- :80-89
    pure (pwr, s.tmpDone.tmpDone)                             -- :91-93

def mpz_remove := mpz_removeV .c

/-! ## mpz_bin_ui -/

structure BinVariant where
  niBeforeR : Bool := true       -- bin_ui.c:53-54 / :69 (ni computed from n) precede :75 `SIZ (r) = 1; PTR (r)[0] = 1` — r may be n
  deriving Repr

def BinVariant.c : BinVariant := {}

/-- DIVIDE () of bin_ui.c:33-38: `MPN_DIVREM_OR_DIVEXACT_1 (PTR (r), PTR (r), SIZ (r), kacc)` in place, then
    `SIZ (r) -= (PTR (r)[SIZ (r) - 1] == 0)` — for `SIZ (r) > 0` (ASSERTed, :35) exactly the statements of mpz_tdiv_q_ui /
    mpz_divexact_ui (r, r, kacc) (`div_q_ui`: its `MPZ_REALLOC (r, SIZ (r))` is a no-op, the quotient is formed in place
    through `PTR (r)`, the size comes from the top limb). -/
def binDivide (r kacc : Nat) (s : St) : R St := do
  if ¬ (0 < s.size r) then throw "ub:DIVIDE with SIZ (r) <= 0"    -- bin_ui.c:35
  let q ← div_q_ui 0 r r kacc s                               -- :36-37
  pure q.2

/-- bin_ui.c:91-124: the loop over i = 1 … k (the first argument is the fuel, k, as in `Numth.binUiLoop`).  Returns kacc. -/
def binLoop (r ni nacc k : Nat) : Nat → Nat → Nat → St → R (Nat × St)
  | 0, _, kacc, s => pure (kacc, s)
  | fuel + 1, i, kacc, s =>
    if i > k then pure (kacc, s) else do                      -- bin_ui.c:91
      let s ← mpz_add_ui ni ni 1 s                            -- :108
      let s ← mpz_mul nacc nacc ni s                          -- :109
      let kk := kacc * i                                      -- :110 umul_ppmm (k1, k0, kacc, i)
      if kk / B ≠ 0 then do                                   -- :111
        let s ← mpz_mul r r nacc s                            -- :114
        let s ← s.setInt nacc 1                               -- :115 SIZ (nacc) = 1; PTR (nacc)[0] = 1
        let s ← binDivide r kacc s                            -- :116
        binLoop r ni nacc k fuel (i + 1) i s                  -- :117 kacc = i
      else binLoop r ni nacc k fuel (i + 1) (kk % B) s        -- :122

/-- bin_ui.c:75-131, once `ni` (a mpz_init'ed local, the last variable) holds n - k resp. -n - 1 -/
def binMain (r ni k : Nat) (negate : Bool) (s : St) : R St := do
  let s := s.setSize r 1                                      -- bin_ui.c:75 SIZ (r) = 1
  let s ← s.storeAt (s.ptr r) 0 [1]                           -- :75 PTR (r)[0] = 1  (no realloc: relies on ALLOC ≥ 1)
  let (k, s) ← (if s.value ni < (k : Int) then do             -- :80 mpz_cmp_ui (ni, k) < 0
      let k' := (s.value ni).toNat                            -- :84 k = mpz_get_ui (ni)
      let s ← s.setInt ni (k : Int)                           -- :85 mpz_set_ui (ni, tmp)
      pure (k', s)
    else pure (k, s))
  let t := s.tmpInit 1                                        -- :89 mpz_init_set_ui (nacc, 1)
  let s ← t.2.setInt t.1 1
  let (kacc, s) ← binLoop r ni t.1 k k 1 1 s                  -- :88, :91-124
  let s ← mpz_mul r r t.1 s                                   -- :126
  let s ← binDivide r kacc s                                  -- :127
  let s := s.setSize r (if negate then -(s.size r) else s.size r)   -- :128
  pure s.tmpDone.tmpDone                                      -- :130-131 mpz_clear (nacc); mpz_clear (ni)

/-- mpz_bin_ui (r, n, k): mpz/bin_ui.c:41-132 (k an mpir_ui, i.e. < 2^64). -/
def mpz_bin_uiV (V : BinVariant) (r n : Nat) (k : Nat) (s : St) : R St := do
  let nneg : Bool := decide (s.size n < 0)                    -- bin_ui.c:49
  if ¬ nneg ∧ s.value n < (k : Int) then pure (s.setSize r 0) -- :61-65 mpz_cmp_ui (n, k) < 0
  else do
    let s ← (if V.niBeforeR then pure s else do               -- (wrong variant: :75 first)
        let s := s.setSize r 1
        s.storeAt (s.ptr r) 0 [1])
    let t := s.tmpInit 1                                      -- :52 / :68 mpz_init (ni)
    let s ← (if nneg then do
        let s ← mpz_neg t.1 n t.2                             -- :53
        mpz_sub_ui t.1 t.1 1 s                                -- :54
      else mpz_sub_ui t.1 n k t.2)                            -- :69
    binMain r t.1 k (nneg ∧ k % 2 = 1) s                      -- :55 / :70 negate; :75-131

def mpz_bin_ui := mpz_bin_uiV .c

end Mpir.AliasMem
