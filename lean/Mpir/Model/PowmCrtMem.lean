/-
  C08: the even-modulus (CRT) path of mpz_powm (mpz/powm.c:176-268): where every callee reads and writes inside the
  single scratch block, as index ranges.  Core Lean only.  The sizes n, nodd, ncnt are those of `Powm.stripM`; the values are
  those of `Powm.powmEven` (value-level theorem `powmEven_correct`); this file adds the ranges.
    itch = 3 * n + MAX (mpn_binvert_itch (MAX (ncnt, nodd)), 2 * n); rp = tp; tp += n     (powm.c:180-193)
  After `tp += n` the block has `A = itch − n` limbs; offsets below are relative to it.
-/
import Mpir.Model.Powm
namespace Mpir.PowmCrt
open Mpir Mpir.Powm

structure Rng where
  off : Nat
  len : Nat

def inside (A : Nat) (r : Rng) : Bool := decide (r.off + r.len ≤ A)
def disjoint (r s : Rng) : Bool := decide (r.off + r.len ≤ s.off) || decide (s.off + s.len ≤ r.off)

/-- every access of powm.c:204-268 into the block of `A` limbs; `binvItch` = mpn_binvert_itch -/
def crtOk (n nodd ncnt A : Nat) (binvItch : Nat → Nat) : Bool :=
  let r2 : Rng := ⟨0, ncnt⟩                           -- :215 r2 = tp
  let powloScr : Rng := ⟨ncnt, 3 * ncnt⟩              -- :240 mpn_powlo (r2, bp, ep, en, ncnt, tp + ncnt), scratch 3·ncnt (powlo.c:84)
  let oddInv : Rng := ⟨n, ncnt⟩                       -- :251 odd_inv_2exp = tp + n
  let binvScr : Rng := ⟨2 * n, binvItch ncnt⟩         -- :252 mpn_binvert (odd_inv_2exp, mp, ncnt, tp + 2 * n)
  let xpW : Rng := ⟨2 * n, 2 * ncnt⟩                  -- :259 mpn_mullow_n (xp, ..): sets 2·ncnt limbs (mullow_n.c:25)
  let xp : Rng := ⟨2 * n, ncnt⟩                       -- :256 xp = tp + 2 * n
  let yp : Rng := ⟨0, nodd + ncnt⟩                    -- :264-268 yp = tp; mpn_mul writes nodd + ncnt limbs
  inside A r2 && inside A powloScr && disjoint r2 powloScr              -- mpn_powlo: result and scratch
  && inside A oddInv && inside A binvScr && disjoint oddInv binvScr     -- mpn_binvert: result and scratch
  && disjoint r2 oddInv && disjoint r2 binvScr                          -- r2 survives mpn_binvert
  && decide (min nodd ncnt ≤ ncnt)                                      -- :254 mpn_sub (r2, r2, ncnt, rp, min (nodd, ncnt))
  && inside A xpW && disjoint xpW oddInv && disjoint xpW r2             -- mpn_mullow_n: destination apart from both sources
  && inside A yp && disjoint yp xp                                      -- mpn_mul: destination apart from xp (mp is outside)
  && decide (1 ≤ nodd) && decide (1 ≤ ncnt)                             -- operand sizes ≥ 1
  && decide (nodd ≤ n) && decide (n ≤ nodd + ncnt)                      -- :270 mpn_add (rp, yp, n, rp, nodd) reads yp[0..n)

/-- mpz_powm for an even modulus `mp` (n limbs, normal form), pinned mpn_binvert_itch `bi`: the flags of the CRT path -/
def mpzPowmCrtOk (mp : List Nat) (bi : Nat → Nat) : Bool :=
  let n := mp.length
  let s := stripM mp
  let nodd := s.2.1; let ncnt := s.2.2.1
  if ncnt = 0 then true
  else crtOk n nodd ncnt (2 * n + max (bi (max ncnt nodd)) (2 * n)) bi

end Mpir.PowmCrt
