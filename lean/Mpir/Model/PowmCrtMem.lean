/-
  C08: the even-modulus (CRT) path of mpz_powm (mpz/powm.c:176-268): where every callee reads and writes inside the
  single scratch block, as index ranges.  Core Lean only.  The sizes n, nodd, ncnt are those of `Powm.stripM`; the values are
  those of `Powm.powmEven` (value-level theorem `powmEven_correct`); this file adds the ranges.
    itch = 3 * n + MAX (mpn_binvert_itch (MAX (ncnt, nodd)), 2 * n); rp = tp; tp += n     (powm.c:180-193)
  After `tp += n` the block has `A = itch − n` limbs; offsets below are relative to it.
-/
import Mpir.Model.Powm
namespace Mpir.PowmCrt
open Mpir Mpir.Powm

structure Rng where
  off : Nat
  len : Nat

def inside (A : Nat) (r : Rng) : Bool := decide (r.off + r.len ≤ A)
def disjoint (r s : Rng) : Bool := decide (r.off + r.len ≤ s.off) || decide (s.off + s.len ≤ r.off)

/-- every access of powm.c:204-268 into the block of `A` limbs; `binvItch` = mpn_binvert_itch -/
def crtOk (n nodd ncnt A : Nat) (binvItch : Nat → Nat) : Bool :=
  let r2 : Rng := ⟨0, ncnt⟩                           -- :215 r2 = tp
  let powloScr : Rng := ⟨ncnt, 3 * ncnt⟩              -- :240 mpn_powlo (r2, bp, ep, en, ncnt, tp + ncnt), scratch 3·ncnt (powlo.c:84)
  let oddInv : Rng := ⟨n, ncnt⟩                       -- :251 odd_inv_2exp = tp + n
  let binvScr : Rng := ⟨2 * n, binvItch ncnt⟩         -- :252 mpn_binvert (odd_inv_2exp, mp, ncnt, tp + 2 * n)
  let xpW : Rng := ⟨2 * n, 2 * ncnt⟩                  -- :259 mpn_mullow_n (xp, ..): sets 2·ncnt limbs (mullow_n.c:25)
  let xp : Rng := ⟨2 * n, ncnt⟩                       -- :256 xp = tp + 2 * n
  let yp : Rng := ⟨0, nodd + ncnt⟩                    -- :264-268 yp = tp; mpn_mul writes nodd + ncnt limbs
  inside A r2 && inside A powloScr && disjoint r2 powloScr              -- mpn_powlo: result and scratch
  && inside A oddInv && inside A binvScr && disjoint oddInv binvScr     -- mpn_binvert: result and scratch
  && disjoint r2 oddInv && disjoint r2 binvScr                          -- r2 survives mpn_binvert
  && decide (min nodd ncnt ≤ ncnt)                                      -- :254 mpn_sub (r2, r2, ncnt, rp, min (nodd, ncnt))
  && inside A xpW && disjoint xpW oddInv && disjoint xpW r2             -- mpn_mullow_n: destination apart from both sources
  && inside A yp && disjoint yp xp                                      -- mpn_mul: destination apart from xp (mp is outside)
  && decide (1 ≤ nodd) && decide (1 ≤ ncnt)                             -- operand sizes ≥ 1
  && decide (nodd ≤ n) && decide (n ≤ nodd + ncnt)                      -- :270 mpn_add (rp, yp, n, rp, nodd) reads yp[0..n)

/-- mpz_powm for an even modulus `mp` (n limbs, normal form), pinned mpn_binvert_itch `bi`: the flags of the CRT path -/
def mpzPowmCrtOk (mp : List Nat) (bi : Nat → Nat) : Bool :=
  let n := mp.length
  let s := stripM mp
  let nodd := s.2.1; let ncnt := s.2.2.1
  if ncnt = 0 then true
  else crtOk n nodd ncnt (2 * n + max (bi (max ncnt nodd)) (2 * n)) bi


/-! ## the same path with the values going through the block

The block is a map from offsets to limbs; `storeF` overwrites a range, `loadF` reads one.  A read of a range that a
later-needed operand shares with an earlier write returns the overwritten limbs, so the theorem
`powmEvenMemF = powmEven` also says that no callee destroys an operand that is still needed — for ANY contents the
callees leave in their scratch areas (`junkP`: mpn_powlo, `junkB`: mpn_binvert) and any initial contents `mem0`. -/

abbrev Mem := Nat → Nat

def storeF (mem : Mem) (off : Nat) (d : List Nat) : Mem :=
  fun i => if off ≤ i ∧ i < off + d.length then d.getD (i - off) 0 else mem i

def loadF (mem : Mem) (off len : Nat) : List Nat := (List.range len).map (fun j => mem (off + j))

/-- `xp[ncnt - 1] &= (CNST_LIMB(1) << cnt) - 1` -/
def maskCnt (xp : List Nat) (ncnt cnt : Nat) : List Nat :=
  xp.take (ncnt - 1) ++ [xp.getD (ncnt - 1) 0 &&& (2 ^ cnt - 1)] ++ xp.drop (ncnt - 1 + 1)

/-- powm.c:204-270 on the block after `tp += n`; `rodd` = what mpn_powm left at `rp[0..nodd)`; `bi` = mpn_binvert_itch (ncnt) -/
def powmEvenMemF (n : Nat) (bp ep modd : List Nat) (nodd ncnt cnt : Nat) (rodd : List Nat) (bi : Nat)
    (junkP junkB : List Nat) (mem0 : Mem) : List Nat :=
  let bn := bp.length; let en := ep.length
  let bpl := if bn < ncnt then bp ++ zeros (ncnt - bn) else bp          -- :206-212
  let b0 := bpl.headD 0
  let t := (ncnt - (if cnt != 0 then 1 else 0)) * 64 + cnt
  let bcnt := (0x1213 >>> ((b0 &&& 7) <<< 1)) &&& 3
  -- r2 = tp: MPN_ZERO (r2, ncnt) (:220, :233) or mpn_powlo (r2, bp, ep, en, ncnt, tp + ncnt) (:240)
  let mem :=
    if b0 % 2 = 0 ∧ (en > 1 ∨ (ep.headD 0 * bcnt) % B ≥ t) then storeF mem0 0 (zeros ncnt)
    else storeF (storeF mem0 ncnt (junkP.take (3 * ncnt))) 0 (mpn_powlo bpl ep ncnt)
  let mpl := if nodd < ncnt then modd ++ zeros (ncnt - nodd) else modd    -- :243-249 (outside the block)
  -- :251-252 mpn_binvert (odd_inv_2exp = tp + n, mp, ncnt, tp + 2 * n)
  let mem := storeF (storeF mem (2 * n) (junkB.take bi)) n (toLimbs ncnt (binvert (val (mpl.take ncnt)) ncnt))
  -- :254 mpn_sub (r2, r2, ncnt, rp, nodd > ncnt ? ncnt : nodd)
  let mem := storeF mem 0 (sub (loadF mem 0 ncnt) (rodd.take (min nodd ncnt))).1
  -- :259 mpn_mullow_n (xp = tp + 2 * n, odd_inv_2exp, r2, ncnt): sets 2·ncnt limbs
  let mem := storeF mem (2 * n) (toLimbs (2 * ncnt) (val (loadF mem n ncnt) * val (loadF mem 0 ncnt)))
  -- :261-262 if (cnt != 0) xp[ncnt - 1] &= (CNST_LIMB(1) << cnt) - 1
  let mem := if cnt != 0 then storeF mem (2 * n) (maskCnt (loadF mem (2 * n) ncnt) ncnt cnt) else mem
  -- :264-268 mpn_mul (yp = tp, xp, ncnt, mp, nodd) (or with the operands swapped)
  let mem := storeF mem 0 (toLimbs (ncnt + nodd) (val (loadF mem (2 * n) ncnt) * val modd))
  -- :270 mpn_add (rp, yp, n, rp, nodd)
  (add (loadF mem 0 n) rodd).1

end Mpir.PowmCrt
