/-
  C04 — size-aware models, second continuation: mpz/setbit.c, clrbit.c, combit.c (in place on one variable through the
  pointer `dp` taken on entry; negative operands: borrow / carry past the top limb, bit index beyond the size, the
  reallocations to `limb_index + 1` and `dsize + 1`), mpz/cfdiv_q_2exp.c (the `+ 1` limb for the rounding `mpn_add_1`).
  Theorems: MpirProofs/Props/C04_allocsafe3.lean (setbit, clrbit, combit; cfdiv_q_2exp is tied by the ops only).
  Core Lean only.  On the memory model of Mpir/Model/AllocSafe.lean; statement by statement after the C, file:line cited.
  The list functions applied to the limbs are those of the C10 models (Mpir/Model/Bits.lean).
-/
import Mpir.Model.AllocSafeMpz2
namespace Mpir.AllocSafe
open Mpir
open Mpir.Mpz (sgn)

/-! ### helpers shared by setbit.c / clrbit.c / combit.c -/

/-- `if (UNLIKELY (d->_mp_alloc < n)) dp = _mpz_realloc (d, n);` — the state and the pointer variable `dp` afterwards.
    `reread = false` is the WRONG variant `_mpz_realloc (d, n);` that forgets to assign the result to `dp`. -/
def reallocDp (reread : Bool) (s : St) (d : Nat) (dp : Ptr) (n : Nat) : St × Ptr :=
  if s.ALLOC d < n then
    let s := _mpz_realloc s d n
    (s, if reread then s.PTR d else dp)
  else (s, dp)

/-- `for (zero_bound = 0; ; zero_bound++) if (dp[zero_bound] != 0) break;` (setbit.c:65-67, clrbit.c:67-69) — "No upper
    bound on this loop": it reads dp[0 .. zero_bound]; on the `n` limbs of the operand, checked as reads of [0, zb + 1) -/
def zeroBoundScan (s : St) (dp : Ptr) (n : Nat) : Nat × St :=
  let zb := Bits.zeroBound (s.rd dp n)
  (zb, s.chk (s.rdOk dp (zb + 1)))

/-- setbit.c:78-85 / clrbit.c:42-49: `do dsize--; while (dsize > 0 && dp[dsize-1] == 0);` entered with dp[dsize-1] == 0:
    what MPN_NORMALIZE computes; reads a suffix of dp[0, dsize) -/
def stripLoop (s : St) (dp : Ptr) (dsize : Nat) : Nat × St := MPN_NORMALIZE s dp dsize

/-- setbit.c:94-107 / clrbit.c:94-108: the limb at `limb_index` became 0; `for (i = limb_index + 1; i < dsize; i++)
    { dp[i] += 1; if (dp[i] != 0) goto fin; }`, then — carry out of the top limb — `dsize++; if (ALLOC < dsize)
    dp = _mpz_realloc (d, dsize); dp[i] = 1; SIZ = -dsize`.  `plus` = 1 in the C (the `dsize++` before the test). -/
def carryTail (reread : Bool) (plus : Nat) (s : St) (d : Nat) (dp : Ptr) (limb_index dsize : Nat) : St :=
  let m := dsize - (limb_index + 1)
  let r := Bits.incr (s.rd (dp.add (limb_index + 1)) m)                       -- the loop: limbs [limb_index+1, dsize)
  let s := (s.chk (s.rdOk (dp.add (limb_index + 1)) m)).wr (dp.add (limb_index + 1)) r.1
  if r.2 != 0 then
    let (s, dp) := reallocDp reread s d dp (dsize + plus)                     -- setbit.c:102-104 / clrbit.c:102-104
    let s := s.store dp dsize 1                                               -- :105 / :106  dp[i] = 1, i = old dsize
    s.setSize d (sgn true (dsize + 1))                                        -- :106 / :107
  else s                                                                      -- fin:

/-- setbit.c:41-50 / clrbit.c:75-85: the bit lies above the number: `if (ALLOC < limb_index + 1) dp = _mpz_realloc (d,
    limb_index + 1); MPN_ZERO (dp + dsize, limb_index - dsize); dp[limb_index] = bit; SIZ = ±(limb_index + 1)` -/
def extendTail (reread : Bool) (plus : Nat) (neg : Bool) (s : St) (d : Nat) (dp : Ptr) (limb_index dsize bit : Nat) : St :=
  let (s, dp) := reallocDp reread s d dp (limb_index + plus)                  -- setbit.c:44-45 / clrbit.c:79-80
  let s := MPN_ZERO s (dp.add dsize) (limb_index - dsize)                     -- :46 / :82
  let s := s.store dp limb_index bit                                          -- :47 / :83
  s.setSize d (sgn neg (limb_index + 1))                                      -- :48 / :84

/-- setbit.c:74-85 / clrbit.c:38-49: clear the bit in a limb of the magnitude, normalise when the top limb became zero -/
def clearTail (neg : Bool) (s : St) (d : Nat) (dp : Ptr) (limb_index dsize bit : Nat) : St :=
  let (x, s) := s.load dp limb_index                                          -- dlimb = dp[limb_index]
  let dlimb := x &&& Bits.lnotL bit                                           -- dlimb &= ~bit
  let s := s.store dp limb_index dlimb                                        -- dp[limb_index] = dlimb
  if dlimb == 0 && limb_index == dsize - 1 then
    let (dsize, s) := stripLoop s dp dsize
    s.setSize d (sgn neg dsize)
  else s

/-! ### mpz_setbit — mpz/setbit.c -/

def setbit (reread : Bool) (plus : Nat) (s : St) (d : Nat) (bit_index : Nat) : St :=
  let dsize := s.SIZ d                                                        -- setbit.c:28
  let dp := s.PTR d                                                           -- :29
  let limb_index := bit_index / 64                                            -- :32
  let bit := 2 ^ (bit_index % 64)
  if dsize ≥ 0 then                                                           -- :33
    let dsize := dsize.natAbs
    if limb_index < dsize then                                                -- :35
      let (x, s) := s.load dp limb_index
      let s := s.store dp limb_index (x ||| bit)                              -- :37
      s.setSize d dsize                                                       -- :38
    else extendTail reread plus false s d dp limb_index dsize bit             -- :41-50
  else
    let dsize := dsize.natAbs                                                 -- :61
    let (zero_bound, s) := zeroBoundScan s dp dsize                           -- :65-67
    if limb_index > zero_bound then                                           -- :69
      if limb_index < dsize then clearTail true s d dp limb_index dsize bit   -- :71-86
      else s
    else if limb_index == zero_bound then                                     -- :88
      let (x, s) := s.load dp limb_index
      let y := ((((x + B - 1) % B) &&& Bits.lnotL bit) + 1) % B               -- :90-91
      let s := s.store dp limb_index y
      if y == 0 then carryTail reread plus s d dp limb_index dsize            -- :92-109
      else s
    else
      let m := dsize - limb_index
      let r := (Bits.subLimb (s.rd (dp.add limb_index) m) bit).1              -- :113 mpn_decr_u (dp + limb_index, bit)
      let s := (s.chk (s.rdOk (dp.add limb_index) m)).wr (dp.add limb_index) r
      let (top, s) := s.load dp (dsize - 1)                                   -- :115
      s.setSize d (sgn true (dsize - (if top == 0 then 1 else 0)))            -- :115-116

def mpz_setbit (s : St) (d : Nat) (bit_index : Nat) : St := setbit true 1 s d bit_index

/-! ### mpz_clrbit — mpz/clrbit.c -/

def clrbit (reread : Bool) (plus : Nat) (s : St) (d : Nat) (bit_index : Nat) : St :=
  let dsize := s.SIZ d                                                        -- clrbit.c:27
  let dp := s.PTR d                                                           -- :28
  let limb_index := bit_index / 64                                            -- :31
  let bit := 2 ^ (bit_index % 64)
  if dsize ≥ 0 then                                                           -- :32
    let dsize := dsize.natAbs
    if limb_index < dsize then clearTail false s d dp limb_index dsize bit    -- :34-50
    else s                                                                    -- :51-52
  else
    let dsize := dsize.natAbs                                                 -- :63
    let (zero_bound, s) := zeroBoundScan s dp dsize                           -- :67-69
    if limb_index > zero_bound then                                           -- :71
      if limb_index < dsize then                                              -- :73
        let (x, s) := s.load dp limb_index
        s.store dp limb_index (x ||| bit)                                     -- :74
      else extendTail reread plus true s d dp limb_index dsize bit            -- :75-85
    else if limb_index == zero_bound then                                     -- :87
      let (x, s) := s.load dp limb_index
      let y := ((((x + B - 1) % B) ||| bit) + 1) % B                          -- :89-91
      let s := s.store dp limb_index y
      if y == 0 then carryTail reread plus s d dp limb_index dsize            -- :92-110
      else s
    else s                                                                    -- :112-113

def mpz_clrbit (s : St) (d : Nat) (bit_index : Nat) : St := clrbit true 1 s d bit_index

/-! ### mpz_combit — mpz/combit.c -/

/-- combit.c:43-81, what follows the extension to `limb_index + 1` limbs; `plus` = 1 in the C
    (`MPZ_REALLOC (d, dsize + 1)`, combit.c:67) -/
def combit_body (plus : Nat) (s : St) (d : Nat) (limb_index bit dsize : Nat) : St :=
  let dp := s.PTR d                                                           -- :29 / :37
  if s.SIZ d ≥ 0 then                                                         -- :43
    let (x, s) := s.load dp limb_index
    let s := s.store dp limb_index (x ^^^ bit)                                -- :45
    let (dsize, s) := MPN_NORMALIZE s dp dsize                                -- :46
    s.setSize d dsize                                                         -- :47
  else
    let (x0, s) := s.load dp limb_index                                       -- :51 x = -dp[limb_index]
    let low := s.rd dp limb_index                                             -- :55-60 the loop reads a suffix of dp[0, limb_index)
    let s := s.chk (s.rdOk dp limb_index)
    let x := if low.any (· != 0) then (Bits.negL x0 + B - 1) % B else Bits.negL x0
    if x &&& bit != 0 then                                                    -- :62
      let s := MPZ_REALLOC s d (dsize + plus)                                 -- :67
      let dp := s.PTR d                                                       -- :68
      let m := dsize - limb_index
      let r := Bits.addLimb (s.rd (dp.add limb_index) m) bit                  -- :70-71 __GMPN_ADD_1
      let s := (s.chk (s.rdOk (dp.add limb_index) m)).wr (dp.add limb_index) r.1
      let s := s.store dp dsize r.2                                           -- :72 dp[dsize] = c
      let dsize := dsize + r.2                                                -- :73
      let (dsize, s) := MPN_NORMALIZE s dp dsize                              -- :79
      s.setSize d (sgn true dsize)                                            -- :80
    else
      -- :77 mpn_sub_1 (dp+limb_index, dp+limb_index, dsize + limb_index, bit): the length argument is `dsize + limb_index`
      -- (it should be `dsize - limb_index`).  The inline __GMPN_SUB_1 (mpir.h) stops at the first limb that absorbs the
      -- borrow and, source and destination being the same pointer, copies nothing: only limbs below `dsize` are touched.
      -- Modelled with the length that is touched (ASSUMPTIONS of the part).
      let m := dsize - limb_index
      let r := (Bits.subLimb (s.rd (dp.add limb_index) m) bit).1
      let s := (s.chk (s.rdOk (dp.add limb_index) m)).wr (dp.add limb_index) r
      let (dsize, s) := MPN_NORMALIZE s dp dsize                              -- :79
      s.setSize d (sgn true dsize)                                            -- :80

def combit (plus : Nat) (s : St) (d : Nat) (bit_index : Nat) : St :=
  let dsize := s.ABSIZ d                                                      -- combit.c:28
  let limb_index := bit_index / 64                                            -- :31
  let bit := 2 ^ (bit_index % 64)                                             -- :32
  if limb_index ≥ dsize then                                                  -- :34
    let s := MPZ_REALLOC s d (limb_index + 1)                                 -- :36
    let dp := s.PTR d                                                         -- :37
    let s := MPN_ZERO s (dp.add dsize) (limb_index + 1 - dsize)               -- :39
    combit_body plus s d limb_index bit (limb_index + 1)                      -- :40
  else combit_body plus s d limb_index bit dsize

def mpz_combit (s : St) (d : Nat) (bit_index : Nat) : St := combit 1 s d bit_index

/-! ### mpz_cdiv_q_2exp, mpz_fdiv_q_2exp — mpz/cfdiv_q_2exp.c -/

/-- cfdiv_q_2exp.c:74-89: `if (round != 0) { if (wsize != 0) { cy = mpn_add_1 (wp, wp, wsize, 1); wp[wsize] = cy;
    wsize += cy; } else { wp[0] = 1; wsize = 1; } }` -/
def roundTail (s : St) (wp : Ptr) (wsize : Nat) (round : Bool) : St × Nat :=
  if round then                                                               -- :74
    if wsize != 0 then                                                        -- :76
      let (s, cy) := mpn_add_1 s wp wp wsize 1                                -- :79
      let s := s.store wp wsize cy                                            -- :80
      (s, wsize + cy)                                                         -- :81
    else (s.store wp 0 1, 1)                                                  -- :86-87
  else (s, wsize)

/-- cfdiv_q_2exp.c:32-91; `dir` = 1 (ceil) or -1 (floor); `plus` = 1 in the C ("+1 limb to allow for mpn_add_1 below") -/
def cfdiv_q_2exp (plus : Nat) (s : St) (w u : Nat) (cnt : Nat) (dir : Int) : St :=
  let usize := s.SIZ u                                                        -- :39
  let abs_usize := usize.natAbs                                               -- :40
  let limb_cnt := cnt / 64                                                    -- :41
  if abs_usize ≤ limb_cnt then                                                -- :42-43 wsize <= 0
    let s := s.store (s.PTR w) 0 1                                            -- :46 PTR(w)[0] = 1 (no realloc: alloc >= 1)
    s.setSize w (if usize == 0 || (decide (usize < 0) != decide (dir < 0)) then 0 else dir)   -- :47
  else
    let wsize := abs_usize - limb_cnt
    let s := MPZ_REALLOC s w (wsize + plus)                                   -- :52
    let up := s.PTR u                                                         -- :56
    let rmask := decide (usize < 0) == decide (dir < 0)                       -- :58 (usize ^ dir) >= 0
    let low := s.rd up limb_cnt                                               -- :59-61 reads a prefix of up[0, limb_cnt)
    let s := if rmask then s.chk (s.rdOk up limb_cnt) else s
    let round0 := rmask && low.any (· != 0)
    let wp := s.PTR w                                                         -- :63
    let c := cnt % 64                                                         -- :64
    if c != 0 then                                                            -- :65
      let (s, out) := mpn_rshift s wp (up.add limb_cnt) wsize c               -- :67
      let (top, s) := s.load wp (wsize - 1)                                   -- :68
      let (s, wsize) := roundTail s wp (wsize - (if top == 0 then 1 else 0)) (round0 || (rmask && out != 0))
      s.setSize w (sgn (usize < 0) wsize)                                     -- :90
    else
      let s := MPN_COPY s wp (up.add limb_cnt) wsize                          -- :71
      let (s, wsize) := roundTail s wp wsize round0
      s.setSize w (sgn (usize < 0) wsize)                                     -- :90

def mpz_cdiv_q_2exp (s : St) (w u : Nat) (cnt : Nat) : St := cfdiv_q_2exp 1 s w u cnt 1
def mpz_fdiv_q_2exp (s : St) (w u : Nat) (cnt : Nat) : St := cfdiv_q_2exp 1 s w u cnt (-1)

end Mpir.AllocSafe
