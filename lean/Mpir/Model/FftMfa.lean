/-
  The matrix Fourier MULTIPLICATION (property C01), value level: the three passes mpn_mul_mfa_trunc_sqrt2 is made of and
  the function itself, continuing Mpir/Model/FftX.lean (same conventions: the coefficient array `ii[0..4n)` is a
  `List Int` of residues modulo p = 2^(wn)+1, exact integer arithmetic, every C step a ring operation whose limb-level
  model and theorem are in Model/FftRing.lean / Props/C01_fftring.lean).  Core Lean only (linked into the driver).

  Mirrored (tie: ops `fftx_mfa_outer`, `fftx_mfa_inner`, `fftx_imfa_outer`, `fftx_mul_mfa`, `fftx_mul_mfa_sqr` in
  Mpir/Ops/FftMfa.lean ↔ harness/ops_fftmfa.c, whole array / whole product compared):
    fft/fft_mfa_trunc_sqrt2.c:253-338          mpir_fft_mfa_trunc_sqrt2_outer     fft_mfa_trunc_sqrt2_outer
    fft/fft_mfa_trunc_sqrt2_inner.c:34-88      mpir_fft_mfa_trunc_sqrt2_inner     fft_mfa_trunc_sqrt2_inner
    fft/ifft_mfa_trunc_sqrt2.c:264-367         mpir_ifft_mfa_trunc_sqrt2_outer    ifft_mfa_trunc_sqrt2_outer
    fft/mul_mfa_trunc_sqrt2.c:34-107           mpn_mul_mfa_trunc_sqrt2            mul_mfa_trunc_sqrt2
    fft/mul_fft_main.c:37-104                  mpn_mul_fft_main                   mul_fft_main (parameter choice: Model/FftParams.lean)
  The pointwise product is mpn_normmod_2expp1 on both entries followed by mpn_mulmod_Bexpp1 in its branch
  limbs ≤ FFT_MULMOD_2EXPP1_CUTOFF (`Fft.mulmod_Bexpp1`, limb level).
-/
import Mpir.Model.FftX
import Mpir.Model.FftParams
namespace Mpir.FftX
open Mpir

/-! ### mpir_fft_mfa_trunc_sqrt2_outer (fft_mfa_trunc_sqrt2.c:253-338): the two COLUMN passes of
    mpir_fft_mfa_trunc_sqrt2 (its loops 1 and 3; the row passes are done by the `inner` function) -/

def fft_mfa_trunc_sqrt2_outer (d w n1 trunc : Nat) (xs : List Int) : List Int :=
  let n := 2 ^ d
  let n2 := 2 * n / n1                                                        -- :258
  let trunc2 := (trunc - 2 * n) / n1                                          -- :259
  let wn := wnOf n w                                                          -- :260
  let depth := clog2 n2                                                       -- :264
  -- first half: FFTs on columns (:270-318)
  let xs := (List.range n1).foldl (fun xs i =>
    let ca := getCol xs i n1 n2
    let cb := getCol xs (2 * n + i) n1 n2
    let f := fun m =>
      let j := i + m * n1
      if w % 2 = 1 then                                                       -- :273
        if j < trunc - 2 * n then
          if j % 2 = 1 then bflySqrt2 wn (el ca m) (el cb m) j w              -- :277-278
          else bfly (el ca m) (el cb m) (j / 2) w                             -- :280
        else
          (el ca m, if i % 2 = 1 then adjSqrt2 wn (el ca m) j w               -- :288-289
                    else adj (el ca m) (j / 2) w)                             -- :291
      else
        if j < trunc - 2 * n then bfly (el ca m) (el cb m) j (w / 2)          -- :297
        else (el ca m, adj (el ca m) j (w / 2))                               -- :304
    let ca := fft_radix2_twiddle (depth - 1) (w * n1) w 0 i 1 (fsts n2 f)     -- :312
    let ca := revPerm depth ca                                                -- :313-317
    setCol (setCol xs i n1 ca) (2 * n + i) n1 (snds n2 f)) xs
  -- second half: FFTs on columns (:324-337)
  (List.range n1).foldl (fun xs i =>
    let cb := getCol xs (2 * n + i) n1 n2
    let cb := fft_trunc1_twiddle (depth - 1) (w * n1) w 0 i 1 trunc2 cb       -- :331
    setCol xs (2 * n + i) n1 (revPerm depth cb)) xs                           -- :332-336

/-! ### mpir_fft_mfa_trunc_sqrt2_inner (fft_mfa_trunc_sqrt2_inner.c:34-88): per row, the two row transforms, the
    pointwise products, the inverse row transform -/

/-- `mpn_normmod_2expp1(ii[t]); mpn_normmod_2expp1(jj[t]); mpn_mulmod_Bexpp1(ii[t], ii[t], jj[t], limbs, tt)`
    (fft_mfa_trunc_sqrt2_inner.c:61-63, :81-83) -/
def pointwiseB (limbs : Nat) (a b : Int) : Int :=
  Fft.rval (Fft.mulmod_Bexpp1 (canon limbs a) (canon limbs b)).1

/-- one row (:54-66, :74-86): mpir_fft_radix2 on the row of ii and of jj, products, mpir_ifft_radix2 -/
def rowConv (e wr n1 limbs : Nat) (ra rb : List Int) : List Int :=
  let fa := fft_radix2 e wr ra                                                -- :55 / :75
  let fb := fft_radix2 e wr rb                                                -- :56 / :76
  let pr := (List.range n1).map fun j => pointwiseB limbs (el fa j) (el fb j)      -- :58-64 / :78-84
  ifft_radix2 e wr pr                                                         -- :66 / :86

/-- rows `[off + i*n1, off + (i+1)*n1)` of `xs` replaced by `f i` of them, for the listed rows -/
def onRowsI (xs : List Int) (off n1 : Nat) (rows : List Nat) (f : Nat → List Int → List Int) : List Int :=
  rows.foldl (fun xs i =>
    let a := off + i * n1
    xs.take a ++ f i ((xs.drop a).take n1) ++ xs.drop (a + n1)) xs

/-- `ii` after the call (jj is transformed too but never read again; for a squaring jj = ii and every row of jj is
    read before the same row of ii is overwritten, so `jj` below is the array as passed in) -/
def fft_mfa_trunc_sqrt2_inner (d w n1 trunc : Nat) (ii jj : List Int) : List Int :=
  let n := 2 ^ d
  let n2 := 2 * n / n1                                                        -- :39
  let trunc2 := (trunc - 2 * n) / n1                                          -- :40
  let limbs := n * w / 64                                                     -- :41
  let depth := clog2 n2                                                       -- :45
  let depth2 := clog2 n1                                                      -- :46
  let conv := fun (off i : Nat) (row : List Int) =>
    rowConv (depth2 - 1) (w * n2) n1 limbs row ((jj.drop (off + i * n1)).take n1)
  -- convolutions on relevant rows of the second half (:52-67)
  let ii := onRowsI ii (2 * n) n1 ((List.range trunc2).map fun s => revbin s depth) (conv (2 * n))
  -- convolutions on rows of the first half (:73-87)
  onRowsI ii 0 n1 (List.range n2) (conv 0)

/-! ### mpir_ifft_mfa_trunc_sqrt2_outer (ifft_mfa_trunc_sqrt2.c:264-367): the two COLUMN passes of
    mpir_ifft_mfa_trunc_sqrt2 followed by the division by 4n = 2^(depth+depth2+1) of everything that is read later -/

def ifft_mfa_trunc_sqrt2_outer (d w n1 trunc : Nat) (xs : List Int) : List Int :=
  let n := 2 ^ d
  let n2 := 2 * n / n1                                                        -- :268
  let trunc2 := (trunc - 2 * n) / n1                                          -- :269
  let wn := wnOf n w                                                          -- :272
  let depth := clog2 n2                                                       -- :274
  let depth2 := clog2 n1                                                      -- :275
  let sc := fun (v : Int) => v * 2 ^ (2 * wn - (depth + depth2 + 1))          -- mpn_div_2expmod_2expp1(…, depth + depth2 + 1)
  -- first half: column IFFTs (:280-293)
  let xs := (List.range n1).foldl (fun xs i =>
    let ca := revPerm depth (getCol xs i n1 n2)                               -- :282-286
    setCol xs i n1 (ifft_radix2_twiddle (depth - 1) (w * n1) w 0 i 1 ca)) xs  -- :292
  -- second half: column IFFTs with the √2 layer (:299-366)
  (List.range n1).foldl (fun xs i =>
    let ca := getCol xs i n1 n2
    let cb := revSwaps depth trunc2 (getCol xs (2 * n + i) n1 n2)             -- :301-305
    let cb := (List.range n2).map fun j =>
      if trunc2 ≤ j then
        let u := i + j * n1
        if w % 2 = 1 then
          if i % 2 = 1 then adjSqrt2 wn (el ca j) u w                         -- :313
          else adj (el ca j) (u / 2) w                                        -- :315
        else adj (el ca j) u (w / 2)                                          -- :317
      else el cb j
    let cb := ifft_trunc1_twiddle (depth - 1) (w * n1) w 0 i 1 trunc2 cb      -- :324
    let h := fun m =>
      let j := i + m * n1
      if j < trunc - 2 * n then
        if w % 2 = 1 then
          if j % 2 = 1 then ibflySqrt2 wn (el ca m) (el cb m) j w             -- :332
          else ibfly wn (el ca m) (el cb m) (j / 2) w                         -- :334
        else ibfly wn (el ca m) (el cb m) j (w / 2)                           -- :343
      else (2 * el ca m, el cb m)                                             -- :350-351
    let ca := (fsts n2 h).map sc                                              -- :360-365
    let cb := (List.range n2).map fun j =>
      if j < trunc2 then sc (el (snds n2 h) j) else el (snds n2 h) j          -- :353-358
    setCol (setCol xs i n1 ca) (2 * n + i) n1 cb) xs

/-! ### mpn_mul_mfa_trunc_sqrt2 (mul_mfa_trunc_sqrt2.c:33-106) -/

def mul_mfa_trunc_sqrt2 (i1 i2 : List Nat) (depth w : Nat) : List Nat :=
  let n := 2 ^ depth                                                          -- :38
  let bits1 := (n * w - (depth + 1)) / 2                                      -- :39
  let sqrt := 2 ^ (depth / 2)                                                 -- :40
  let r_limbs := i1.length + i2.length                                        -- :42
  let limbs := n * w / 64                                                     -- :43
  let j1 := (i1.length * 64 - 1) / bits1 + 1                                  -- :46 (= the value mpir_fft_split_bits returns, :84)
  let j2 := (i2.length * 64 - 1) / bits1 + 1                                  -- :47 (:92)
  let trunc := j1 + j2 - 1                                                    -- :80
  let trunc := if trunc ≤ 2 * n then 2 * n + 1 else trunc                     -- :81
  let trunc := 2 * sqrt * ((trunc + 2 * sqrt - 1) / (2 * sqrt))               -- :82
  let pad := fun (cs : List (List Nat)) =>
    (cs.map fun c => Fft.rval c) ++ List.replicate (4 * n - cs.length) (0 : Int)     -- :84-86
  let ii := fft_mfa_trunc_sqrt2_outer depth w sqrt trunc (pad (Fft.split_bits i1 bits1 limbs))     -- :84-88
  let jj := fft_mfa_trunc_sqrt2_outer depth w sqrt trunc (pad (Fft.split_bits i2 bits1 limbs))     -- :92-95 (jj = ii for a squaring)
  let ii := fft_mfa_trunc_sqrt2_inner depth w sqrt trunc ii jj                -- :100
  let ii := ifft_mfa_trunc_sqrt2_outer depth w sqrt trunc ii                  -- :101
  let cs := (List.range (j1 + j2 - 1)).map fun j => canon limbs (el ii j)     -- normalised by the outer inverse (:359, :366)
  Fft.combine_bits (List.replicate r_limbs 0) cs bits1 limbs                  -- :103-104

/-! ### mpn_mul_fft_main (mul_fft_main.c:37-104): parameter choice, then one of the two multipliers -/

def mul_fft_main (tab : List (List Int)) (i1 i2 : List Nat) : Option (List Nat) :=
  match FftParams.fftParams tab i1.length i2.length with
  | none => none
  | some c =>
    if c.mfa then some (mul_mfa_trunc_sqrt2 i1 i2 c.depth c.w)                -- :101
    else some (mul_trunc_sqrt2 i1 i2 c.depth c.w)                             -- :92

end Mpir.FftX
