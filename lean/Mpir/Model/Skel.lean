/-
  Call skeletons: the target language of tools/gen_mul_dispatch.py.
  A C function whose control flow depends on sizes only (mpn_mul, mpn_mul_n, mpn_sqr) is translated
  into a pure Lean function that returns the *trace* of calls it makes, with every size argument
  evaluated and every pointer argument as (base, limb offset).  Limb data never influences the
  control flow of these functions (the translator refuses sources where it does), so data arguments
  are opaque.  Core Lean only.
-/
namespace Mpir.Skel

/-- One actual argument of a call. -/
inductive Arg where
  | sz (v : Int)                 -- size / integer expression, evaluated
  | ptr (base off : Int)         -- pointer: base object id and limb offset into it
  | data                         -- limb value (data dependent; opaque)
  deriving Repr, DecidableEq, Inhabited

/-- One call made by the translated function (also `ASSERT`, array declarations, allocations). -/
structure Ev where
  name : String
  args : List Arg
  deriving Repr, DecidableEq, Inhabited

/-- Result of running a skeleton.  The trace is in *reverse* order (latest call first). -/
inductive Res where
  | ret (tr : List Ev) (v : Arg)     -- `return e;`
  | void (tr : List Ev)              -- fell off the end of a `void` function
  | nofuel (tr : List Ev)            -- a loop exhausted its fuel (never for sufficient fuel; proved)
  deriving Repr, DecidableEq, Inhabited

def Res.trace : Res → List Ev
  | .ret tr _ => tr.reverse
  | .void tr => tr.reverse
  | .nofuel tr => tr.reverse

def Res.finished : Res → Bool
  | .nofuel _ => false
  | _ => true

/-- `ABOVE_THRESHOLD(size, thresh)` of gmp-impl.h:
    `((thresh) == 0 || ((thresh) != MP_SIZE_T_MAX && (size) >= (thresh)))`. -/
def Above (sizeMax size thresh : Int) : Prop :=
  thresh = 0 ∨ (thresh ≠ sizeMax ∧ size ≥ thresh)

instance (a b c : Int) : Decidable (Above a b c) := by unfold Above; infer_instance

/-- C integer division of `mp_size_t` values (truncation towards zero). -/
def cdiv (a b : Int) : Int := Int.tdiv a b

/-- base ids of the pointer parameters / local buffers are assigned by the translator -/
def sizeArgs (e : Ev) : List Int := e.args.filterMap (fun a => match a with | .sz v => some v | _ => none)

end Mpir.Skel
