/-
  C20 (part) — statements THROUGH the accessors of mpq_class (mpirxx.h).  Core Lean only.

  `q.get_num()` / `q.get_den()` (mpirxx.h:1967-1974) are `mpz_class &` references to the numerator / denominator
  field of the `mpq_t` inside `q`.  As sub-expressions they are the leaves `E.zn` / `E.zd` of `Mpir.Cxx.E`
  (Model/Cxx.lean: `evalTmp` reads a component of the mpq store, `evalZ` / `evalQ` hand the field object to the
  function objects).  This file adds what can be done with them as *targets*:

    `q.get_num() = e; q.get_den() = e'; q.get_num() += r; …; q.canonicalize();`     (`AStmt.acc`)
    `mpq_class t(e, e'); t.canonicalize();`                                          (`AStmt.init2`)

  Between the first assignment and `canonicalize()` the two fields are not a canonical pair, so the specification
  (`accTmp`) is the temporaries semantics over the *raw* contents of the mpz_t objects (`evalTmpZ`), statement after
  statement, followed by the rational `n/d` (`mpq_canonicalize`: DIVIDE_BY_ZERO for a zero denominator).
  The implementation side (`execAcc`, `execInit2`) is what mpirxx.h does: `mpz_class::operator=` on the field object,
  i.e. `__gmp_set_expr(mpq_numref(q), e)` = `evalZ` with the field as destination (which may itself occur in `e`).

  Also here: `convZSeeded`, the two statements of `__gmp_set_expr(mpq_ptr, const __gmp_expr<mpz_t,T>&)` in the WRONG
  order (denominator := 1 before the integer expression is evaluated), used as a negative example in Props/C20_acc.lean.
-/
import Mpir.Model.Cxx
namespace Mpir.Cxx

/-- a field of mpq object `i`: `false` = numerator (`get_num()`), `true` = denominator (`get_den()`) -/
def fld (i : Nat) (den : Bool) : ZLoc := if den then .den i else .num i

/-- the accessor leaf of that field -/
def fldLeaf (i : Nat) (den : Bool) : E := if den then .zd i else .zn i

inductive AStmt where
  /-- `q_i.get_X() = e;` for every `(X, e)` of the list, in order, then `q_i.canonicalize();`
      (a compound assignment `q_i.get_X() op= r` is the step `(X, expand)` with the tree mpirxx.h's operator builds,
      `get_X() op r`, mpirxx.h:3199) -/
  | acc (i : Nat) (steps : List (Bool × E))
  /-- `mpq_class t(n, d); t.canonicalize();`  (mpirxx.h:1881: `mpq_class(const mpz_class &num, const mpz_class &den)`) -/
  | init2 (n d : E)
  deriving Repr, DecidableEq, Inhabited

def AStmt.wt : AStmt → Bool
  | .acc _ steps => steps.all fun s => decide (s.2.ty = .z) && s.2.wt
  | .init2 n d => decide (n.ty = .z) && n.wt && decide (d.ty = .z) && d.wt

/-! ### specification: statement after statement into temporaries, over the raw fields -/

/-- `mpq_canonicalize` on the pair (n, d): DIVIDE_BY_ZERO for d = 0 (mpq/canonicalize.c:33), else the rational n/d
    (lowest terms, positive denominator) -/
def canonVal (n d : Int) : Option Rat := if d = 0 then none else some (Rat.divInt n d)

/-- the assignments through the accessors of mpq object `i`, in order: each right-hand side is evaluated into
    temporaries from the CURRENT raw contents (it may read the field assigned before), then stored into the field -/
def accSteps (i : Nat) : List (Bool × E) → Heap → Option Heap
  | [], h => some h
  | (d, e) :: r, h => (evalTmpZ h.get e).bind fun x => accSteps i r (h.set (fld i d) x)

/-- value of the statement: the rational the object holds afterwards; `none` = an exception was raised -/
def accTmp (h : Heap) : AStmt → Option Rat
  | .acc i steps => (accSteps i steps h).bind fun s => canonVal (s (.num i)) (s (.den i))
  | .init2 n d => (evalTmpZ h.get n).bind fun x => (evalTmpZ h.get d).bind fun y => canonVal x y

/-! ### what mpirxx.h does -/

/-- `mpq_canonicalize(q)` (mpq/canonicalize.c): exception for a zero denominator; gcd removed, sign moved to the numerator -/
def mpq_canonicalize (p : Nat) : M := fun h =>
  if h (.den p) = 0 then none else some (h.setQ p (Rat.divInt (h (.num p)) (h (.den p))))

/-- `q_i.get_X() = e`: `mpz_class::operator=(const __gmp_expr<T,U>&)` on the field object (mpirxx.h:1681),
    `__gmp_set_expr(mp, expr)` with `mp` = the field; `K` = index of the first unused temporary -/
def execAccSteps (cst : Bool) (K i : Nat) : List (Bool × E) → M
  | [] => fun h => some h
  | (d, e) :: r => fun h => (evalZ cst K (fld i d) e h).bind (execAccSteps cst K i r)

def execAcc (cst : Bool) (K i : Nat) (steps : List (Bool × E)) : M := fun h =>
  (execAccSteps cst K i steps h).bind (mpq_canonicalize i)

/-- `mpq_class t(n, d); t.canonicalize();` — each argument is bound to an `mpz_class const&` (the object itself for a
    leaf, else a temporary `mpz_class` constructed from the expression: `bindZ`), the constructor copies both
    (`mpz_init_set`), the new object is mpq object `K`.  (The order in which the two temporaries are constructed is
    unspecified in C++; they are independent: neither evaluation writes an object the other reads.) -/
def execInit2 (cst : Bool) (K : Nat) (n d : E) (h : Heap) : Option Heap :=
  (bindZ cst K n h).bind fun (ln, h1) => (bindZ cst (K + 1) d h1).bind fun (ld, h2) =>
    mpq_canonicalize K (mpz_set (.den K) ld (mpz_set (.num K) ln h2))

/-! ### the seeded order (negative example) -/

/-- `__gmp_set_expr(mpq_ptr q, const __gmp_expr<mpz_t, T> &)` with its two statements swapped: denominator := 1 FIRST,
    then the integer expression into the numerator — the expression reads the already overwritten denominator.
    NOT what mpirxx.h does (`convZ`); `q = q.get_den() * 2` on q = 3/7 gives 2 here instead of 14. -/
def convZSeeded (cst : Bool) (k p : Nat) (e : E) : M := fun h =>
  evalZ cst k (.num p) e (mpz_set_ui (.den p) 1 h)

end Mpir.Cxx
