/-
  The float layout of formatted output (property C18, part `c18_flayout`).  Core Lean only.

  MODEL  `floatParams`   = printf/doprnt.c:241-258, 358-376, 398-400, 413-421: what the conversion characters
                           a A e E f g G make of `struct doprnt_params_t` (a copy of the `let` chain inside
                           `Printf.doFloat`; `MpirProofs` proves the two equal by `rfl`)
         `request`       = printf/doprntf.c:74-116: the precision used for the style decision and the number of
                           digits asked of mpf_get_str
         `layoutOn`      = printf/doprntf.c:132-376 on the answer of mpf_get_str (:119), whatever it is:
                           sign, digit VALUES (mpf/get_str.c:293-306 maps them to characters with the alphabet of
                           the base; doprntf.c's DIGIT_VALUE / num_to_text are the inverse for |base| ≤ 36) and the
                           exponent.  Statement by statement, line numbers of /repo/printf/doprntf.c.
         `doprntMpfOn`   = the whole function on a bit-exact model of mpf_get_str (`MpfStr.get_digits`), any
                           number of limbs
  SPEC   `specF`         = what ISO C99 7.19.6.1 says for f e E g G a A (sign, digit placement, precision
                           defaults, `#`, zero padding / left adjustment / width, exponent with at least two
                           digits, the %g rule), written on the digit string and exponent delivered by
                           mpf_get_str, with MPIR's deviations explicit (D-F1 … D-F4 below).
-/
import Mpir.Model.Printf
import Mpir.Model.MpfStr
namespace Mpir.PrintfF
open Mpir Mpir.Printf

/-! ## MODEL -/

/-- doprnt.c:241-258 (`a`, `A`), :358-362 (`E`, `e`), :398-400 (`f`), :413-421 (`G`, `g`), label `floating:` :363-369,
    label `floating_a:` :370-373.  `old` = before commit 214972f. -/
def floatParams (old : Bool) (ps : PS) (c : Char) : Params :=
  let p := ps.param
  let p : Params :=
    if c = 'a' ∨ c = 'A' then
      { p with base := if c = 'a' then 16 else -16, expHex := true, expUpper := decide (c = 'A'), conv := 2, exptimes4 := true,
               prec := if ¬ ps.seenPrec then -1 else p.prec, showbase := .yes, showtrailing := true }
    else
      let p := if c = 'E' ∨ c = 'G' then { p with base := -10, expUpper := true } else p
      let p := if c = 'e' ∨ c = 'E' then { p with conv := 2 }
               else if c = 'f' then { p with conv := 1 }
               else { p with conv := 3, showtrailing := false }
      if p.showbase = .nonzero then { p with showpoint := true, showtrailing := true } else p
  if ¬ old ∧ p.justify = .left then { p with fill := ' ' } else p

/-- doprntf.c:74-116: (`prec` as it stands at :117, `ndigits`); `fprec` = PREC(f), `fexp` = EXP(f) -/
def request (p : Params) (fprec : Nat) (fexp : Int) : Int × Int :=
  let base := p.base.natAbs
  if p.prec ≤ -1 then                                                                       -- :75
    (if p.conv = 3 then (MpfStr.maxDigits base fprec : Int) else p.prec, 0)             -- :78-83
  else if p.conv = 1 then                                                                   -- :88
    (p.prec, max (p.prec + 2 + fexp * (charsPerLimb base + (if fexp ≥ 0 then 1 else 0))) 1) -- :95-97
  else if p.conv = 2 then (p.prec, p.prec + 1)                                              -- :103
  else (p.prec, max p.prec 1)                                                               -- :113

/-- the lengths decided at :213-232 / :242-271 -/
structure Parts where
  intlen : Int
  intzeros : Int
  fraczeros : Int
  fraclen : Int
  exponent : List Char
  deriving Repr, DecidableEq

/-- label `fixed:` doprntf.c:213-232 -/
def fixedParts (len : Int) (exp : Int) : Parts :=
  if exp ≤ 0 then ⟨0, 1, -exp, len, []⟩                                                      -- :215-222
  else
    let intlen := min len exp                                                               -- :226
    ⟨intlen, exp - intlen, 0, len - intlen, []⟩                                             -- :227-229

/-- label `scientific:` doprntf.c:242-271 -/
def sciParts (p : Params) (len : Int) (exp : Int) : Parts :=
  let intlen : Int := min 1 len                                                             -- :245
  let expval : Int := (exp - intlen) * (if p.exptimes4 then 4 else 1)                       -- :250-252
  ⟨intlen, if intlen = 0 then 1 else 0, 0, len - intlen, expText p expval⟩                  -- :246-248, 256-261

/-- doprntf.c:148-211: truncate so that the fraction has at most `prec` digits, round to nearest.
    The carry loop :178-197 is the loop of mpf/get_str.c:259-280 (`MpfStr.roundUp`). -/
def fixedRound (base : Nat) (ds : List Nat) (exp prec : Int) : List Nat × Int :=
  let newlen := exp + prec                                                                  -- :148
  if newlen < 0 then ([], 0)                                                                -- :149-155
  else if (ds.length : Int) ≤ newlen then (ds, exp)                                         -- :156-159
  else
    let len := newlen.toNat                                                                 -- :172
    let n := ds.getD len 0                                                                  -- :173
    let r : List Nat × Int :=
      if n ≥ (base + 1) / 2 then MpfStr.roundUp base (ds.take len) exp                      -- :175-198
      else (MpfStr.stripTrailingZeros (ds.take len), exp)                                   -- :199-204
    (r.1, if r.1.length = 0 then 0 else r.2)                                                -- :209-210

/-- doprntf.c:141-288: digits to print, `prec`, lengths -/
def choose (p : Params) (prec1 : Int) (ds0 : List Nat) (exp0 : Int) : List Nat × Int × Parts :=
  let base := p.base.natAbs
  let len0 : Int := ds0.length
  if p.conv = 1 then
    let prec := if prec1 ≤ -1 then max 0 (len0 - exp0) else prec1                           -- :143-144
    let fr := fixedRound base ds0 exp0 prec                                                 -- :148-211
    (fr.1, prec, fixedParts fr.1.length fr.2)
  else if p.conv = 2 then
    let prec := if prec1 ≤ -1 then max 0 (len0 - 1) else prec1                              -- :239-240
    (ds0, prec, sciParts p len0 exp0)
  else if exp0 - 1 < -4 ∨ exp0 - 1 ≥ max 1 prec1 then (ds0, prec1, sciParts p len0 exp0)    -- :284-285
  else (ds0, prec1, fixedParts len0 exp0)                                                   -- :286-287

/-- doprntf.c:296-376: trailing zeros, point, base prefix, justification, the output calls -/
def emit (p : Params) (sign : Option Char) (s : List Char) (prec : Int) (q : Parts) : List Call :=
  let signlen : Int := if sign.isSome then 1 else 0                                         -- :138
  let explen : Int := q.exponent.length
  let preczeros : Int :=                                                                    -- :296-306
    if p.showtrailing then max 0 (prec - (q.fraczeros + q.fraclen + (if p.conv = 3 then q.intlen + q.intzeros else 0))) else 0
  let pointlen : Int := if q.fraczeros + q.fraclen + preczeros ≠ 0 ∨ p.showpoint then 1 else 0   -- :311-312
  let showbase : List Char :=                                                               -- :317-336
    if p.showbase = .no then []
    else if p.showbase = .nonzero ∧ q.intlen = 0 ∧ q.fraclen = 0 then []
    else (if p.base = 16 then ['0', 'x'] else if p.base = -16 then ['0', 'X'] else if p.base = 8 then ['0'] else [])
  let showbaselen : Int := showbase.length
  let justlen : Int := p.width - (signlen + showbaselen + q.intlen + q.intzeros + pointlen  -- :341-342
                                  + q.fraczeros + q.fraclen + preczeros + explen)
  let justify := if justlen ≤ 0 then Justify.none else p.justify                            -- :345-347
  (if justify = .right then [Call.reps p.fill justlen.toNat] else []) ++                    -- :352-353
  (match sign with | some c => [Call.reps c 1] | none => []) ++                             -- :355-356
  memoryMaybe showbase ++                                                                   -- :358
  (if justify = .internal then [Call.reps p.fill justlen.toNat] else []) ++                 -- :360-361
  [Call.memory (s.take q.intlen.toNat)] ++                                                  -- :363
  repsMaybe '0' q.intzeros.toNat ++                                                         -- :364
  (if pointlen ≠ 0 then [Call.memory ['.']] else []) ++                                     -- :366
  repsMaybe '0' q.fraczeros.toNat ++                                                        -- :368
  memoryMaybe ((s.drop q.intlen.toNat).take q.fraclen.toNat) ++                             -- :369
  repsMaybe '0' preczeros.toNat ++                                                          -- :371
  memoryMaybe q.exponent ++                                                                 -- :373
  (if justify = .left then [Call.reps p.fill justlen.toNat] else [])                        -- :375-376

/-- `__gmp_doprnt_mpf` from :132 on.  `neg` = "the string of mpf_get_str starts with `-`", `ds0` the digit values,
    `exp0` the exponent it stored; `prec1` = `prec` as it stands after :74-116. -/
def layoutOn (p : Params) (prec1 : Int) (neg : Bool) (ds0 : List Nat) (exp0 : Int) : List Call :=
  let sign : Option Char := if neg then some '-' else p.sign                                -- :132-137
  let r := choose p prec1 ds0 exp0
  emit p sign (r.1.map (digitChar (decide (p.base < 0)))) r.2.1 r.2.2

/-- `__gmp_doprnt_mpf` (printf/doprntf.c:55-385) on the bit-exact model of mpf_get_str -/
def doprntMpfOn (p : Params) (u : Mpf.F) : List Call :=
  let rq := request p u.prec u.exp
  let g := MpfStr.get_digits p.base.natAbs rq.2.toNat u                                     -- :119
  layoutOn p rq.1 (decide (u.size < 0)) g.1 g.2

/-! ## The single-conversion view -/

inductive FConv where
  | f | e | E | g | G | a | A
  deriving DecidableEq, Repr, Inhabited

def FConv.char : FConv → Char
  | .f => 'f' | .e => 'e' | .E => 'E' | .g => 'g' | .G => 'G' | .a => 'a' | .A => 'A'
def FConv.ofChar (c : Char) : Option FConv :=
  if c = 'f' then some .f else if c = 'e' then some .e else if c = 'E' then some .E else if c = 'g' then some .g
  else if c = 'G' then some .G else if c = 'a' then some .a else if c = 'A' then some .A else none
def FConv.base : FConv → Nat
  | .a | .A => 16
  | _ => 10
def FConv.upper : FConv → Bool
  | .E | .G | .A => true
  | _ => false

/-- the parameters `__gmp_doprnt` arrives at for `% fl w p F conv`, computed with the parser's own step functions
    (as `Printf.specParams` does for the integer conversions) -/
def fSpecParams (fl : List Char) (w : WidthArg) (p : PrecArg) (c : FConv) : Params :=
  let ps := fl.foldl (stepFlag false) {}
  let ps := match w with
    | .none => ps
    | .num n => ps.setValue n
    | .star n => stepStar false ps n
  let ps := match p with
    | .none => ps
    | .dot => stepDot ps
    | .num n => (stepDot ps).setValue n
    | .star n => stepStar false (stepDot ps) n
  floatParams false ps c.char

/-- bytes `gmp_printf ("%<fl><w><p>F<conv>", f)` produces according to the model, when mpf_get_str answers
    `(neg, ds, x)` to the request made; `fprec`, `fexp` = PREC(f), EXP(f) -/
def layoutModelF (fl : List Char) (w : WidthArg) (p : PrecArg) (c : FConv) (fprec : Nat) (fexp : Int)
    (neg : Bool) (ds : List Nat) (x : Int) : List Char :=
  let P := fSpecParams fl w p c
  callsBytes (layoutOn P (request P fprec fexp).1 neg ds x)

/-! ## SPEC: ISO C99 7.19.6.1 for f e E g G a A, on the digits of mpf_get_str

The value is ±0.d₁d₂…d_L · b^x with `ds = [d₁,…,d_L]` (no leading, no trailing zero digit; `[]` and x = 0 for zero).

Deviations of MPIR from C99 made explicit here:
* D-F1  `%#g`, fixed style, value below 1: the fraction is padded to P−1 digits (the `0` before the point and the
        zeros after it are counted as significant digits); C99: P significant digits.
* D-F2  `%f`: the digits are those mpf_get_str has already rounded to the requested count; they are rounded a
        second time at the precision (`roundAt`).  C99: one correct rounding of the exact value.
* D-F3  both roundings are half away from zero on the digit that follows (C99: the current rounding direction,
        glibc: to even on exact ties).
* D-F4  `%a`: the `#` flag has no effect (C99: a point is always written); one hexadecimal digit before the point and
        an exponent that is a multiple of 4 (C99 leaves the normalisation open).
* the MPIR extension `%.Ff`, `%.Fe`, `%.Fg` (empty precision) = all significant digits, none more (`FPrec.all`);
  `%Fa` without a precision is the same (as in C99). -/

/-- the precision as C reads it, with MPIR's "all digits" for the empty precision -/
inductive FPrec where
  | dflt | all | num (n : Nat)
  deriving DecidableEq, Repr, Inhabited

/-- 7.19.6.1p4/p5: "if only the period is specified, the precision is taken as zero" is replaced by MPIR's documented
    `all`; "a negative precision argument is taken as if the precision were omitted" -/
def cPrecF : PrecArg → FPrec
  | .none => .dflt
  | .dot => .all
  | .num n => .num n
  | .star n => if n < 0 then .dflt else .num n.toNat

def zeros (n : Nat) : List Nat := List.replicate n 0

/-- `l` followed by zero digits up to `n` digits in all -/
def padZeros (l : List Nat) (n : Nat) : List Nat := l ++ zeros (n - l.length)

/-- style f, the digits before the point: the first x digits of the value (zeros where the string has ended),
    a single `0` for a value below 1 -/
def intDigits (ds : List Nat) (x : Int) : List Nat :=
  if x ≤ 0 then [0] else ds.take x.toNat ++ zeros (x.toNat - ds.length)

/-- style f, the digits after the point: −x zeros and then the digits from position x on -/
def fracDigits (ds : List Nat) (x : Int) : List Nat :=
  zeros (-x).toNat ++ ds.drop x.toNat

/-- D-F2 / D-F3: round the digit string to its first `k` digits, half away from zero on digit k+1, with the rule
    of mpf_get_str itself (`MpfStr.finish`: carry propagation, a carry out of the first digit gives `1` and x+1,
    trailing zeros dropped); nothing left = zero -/
def roundAt (b : Nat) (ds : List Nat) (x : Int) (k : Int) : List Nat × Int :=
  if k < 0 then ([], 0)
  else if (ds.length : Int) ≤ k then (ds, x)
  else
    let r := MpfStr.finish b k.toNat ds x
    if r.1.length = 0 then ([], 0) else r

/-- 7.19.6.1p8 `f`: "[-]ddd.ddd, where the number of digits after the decimal-point character is equal to the
    precision specification ... if the precision is zero and the # flag is not specified, no decimal-point character
    appears.  If a decimal-point character appears, at least one digit appears before it."
    `fracLen = none`: exactly the digits there are. -/
def styleF (up : Bool) (ds : List Nat) (x : Int) (fracLen : Option Nat) (point : Bool) : List Char :=
  let fr := match fracLen with
    | some P => padZeros (fracDigits ds x) P
    | none => fracDigits ds x
  (intDigits ds x).map (digitChar up) ++ (if fr.length ≠ 0 ∨ point then '.' :: fr.map (digitChar up) else [])

/-- 7.19.6.1p8 `e`: "The exponent always contains at least two digits, and only as many more digits as necessary to
    represent the exponent."  `a`: `p`, no minimum. -/
def expChars (letter : Char) (minDigits : Nat) (e : Int) : List Char :=
  let dsE := natDigits 10 false e.natAbs
  letter :: (if e ≥ 0 then '+' else '-') :: (List.replicate (minDigits - dsE.length) '0' ++ dsE)

/-- 7.19.6.1p8 `e`: "[-]d.ddde±dd, where there is one digit (which is nonzero if the argument is nonzero) before the
    decimal-point character and the number of digits after it is equal to the precision ... If the value is zero, the
    exponent is zero."  `mul` = 4 for `a` (binary exponent of a hexadecimal digit string). -/
def styleE (up : Bool) (ds : List Nat) (x : Int) (fracLen : Option Nat) (point : Bool)
    (letter : Char) (minDigits : Nat) (mul : Int) : List Char :=
  let lead := ds.headD 0
  let rest := ds.tail
  let X : Int := if ds.length = 0 then 0 else x - 1
  let fr := match fracLen with
    | some P => padZeros rest P
    | none => rest
  digitChar up lead :: (if fr.length ≠ 0 ∨ point then '.' :: fr.map (digitChar up) else []) ++
    expChars letter minDigits (X * mul)

/-- 7.19.6.1p6: `-` left-justified; `0`: "leading zeros (following any indication of sign or base) are used to pad to
    the field width rather than performing space padding ... If the 0 and - flags both appear, the 0 flag is ignored"
    (no precision exception for the floating conversions); p4: width = minimum field width, padded with spaces. -/
def padF (f : Flags) (width : Nat) (sign pre body : List Char) : List Char :=
  let pad := width - (sign.length + pre.length + body.length)
  if f.minus then sign ++ pre ++ body ++ List.replicate pad ' '
  else if f.zero then sign ++ pre ++ List.replicate pad '0' ++ body
  else List.replicate pad ' ' ++ sign ++ pre ++ body

/-- the number itself, without sign, prefix and padding -/
def bodyF (c : FConv) (hash : Bool) (prec : FPrec) (sig : Nat) (ds : List Nat) (x : Int) : List Char :=
  let up := c.upper
  match c with
  | .f =>
    -- p8 f: default precision 6; the value is rounded to the precision (D-F2, D-F3)
    (match prec with
     | .all => styleF up ds x none hash
     | .dflt => let r := roundAt 10 ds x (x + 6); styleF up r.1 r.2 (some 6) hash
     | .num P => let r := roundAt 10 ds x (x + P); styleF up r.1 r.2 (some P) hash)
  | .e | .E =>
    -- p8 e: default precision 6; mpf_get_str was asked for precision+1 digits, so no rounding is left to do
    styleE up ds x (match prec with | .all => none | .dflt => some 6 | .num P => some P) hash
      (if up then 'E' else 'e') 2 1
  | .g | .G =>
    -- p8 g: "Let P equal the precision if nonzero, 6 if the precision is omitted, or 1 if it is zero.  Then, if a
    -- conversion with style E would have an exponent of X: if P > X ≥ −4, the conversion is with style f and precision
    -- P − (X + 1); otherwise with style e and precision P − 1.  Unless the # flag is used, any trailing zeros are
    -- removed from the fractional portion of the result and the decimal-point character is removed if there is no
    -- fractional portion remaining."   MPIR: an empty precision stands for `sig` = MPF_SIGNIFICANT_DIGITS.
    let P0 : Nat := match prec with | .dflt => 6 | .all => sig | .num n => n
    let P : Nat := max 1 P0
    if x - 1 < -4 ∨ x - 1 ≥ (P : Int) then
      styleE up ds x (if hash then some (P - 1) else none) hash (if up then 'E' else 'e') 2 1
    else
      -- D-F1: C99 has P − x fraction digits for every x; MPIR P0 − 1 when x ≤ 0
      styleF up ds x (if hash then some (if x ≥ 1 then P0 - x.toNat else P0 - 1) else none) hash
  | .a | .A =>
    -- p8 a: "[-]0xh.hhhhp±d ... if the precision is missing then the precision is sufficient for an exact representation
    -- of the value"; D-F4: `#` is ignored
    styleE up ds x (match prec with | .num P => some P | _ => none) false (if up then 'P' else 'p') 1 4

/-- The C99 specification function for `%<flags><width><prec>F<conv>` on the answer `(neg, ds, x)` of mpf_get_str;
    `sig` = MPF_SIGNIFICANT_DIGITS of the operand (used by `%.Fg` only). -/
def specF (c : FConv) (f : Flags) (width : Nat) (prec : FPrec) (sig : Nat) (neg : Bool) (ds : List Nat) (x : Int) : List Char :=
  padF f width (signChars f neg)
    (match c with | .a => ['0', 'x'] | .A => ['0', 'X'] | _ => [])
    (bodyF c f.hash prec sig ds x)

/-! ## What the request is for: the digit count mpf_get_str works to -/

/-- the number of digits mpf_get_str works to for the request of `% … p F c` on an operand of precision `fprec` limbs
    and exponent `fexp` (get_str.c:149-151 applied to doprntf.c:74-116) -/
def workDigits (P : Params) (fprec : Nat) (fexp : Int) : Nat :=
  MpfStr.effDigits P.base.natAbs fprec (request P fprec fexp).2.toNat

end Mpir.PrintfF
