/-
  C07 — the half-gcd layer at value level.  Core Lean only.

  Mirrors (x86_64 build, 64-bit limbs, no nails; file:line cited at each definition)
    mpn/generic/hgcd_matrix.c            mpn_hgcd_matrix_init / _update_q / _mul_1 / _mul / _adjust,
                                         mpn_hgcd_mul_matrix1_vector
    mpn/generic/matrix22_mul.c           abs_sub_n, add_signed_n, mpn_matrix22_mul (basecase and
                                         mpn_matrix22_mul_strassen with its sign bookkeeping)
    mpn/generic/matrix22_mul1_inverse_vector.c
    mpn/generic/gcd_subdiv_step.c        with s > 0 and the hook of hgcd_step.c (hgcd_hook)
    mpn/generic/hgcd_step.c              mpn_hgcd_step
    mpn/generic/hgcd.c                   mpn_hgcd
    mpn/generic/hgcd_reduce.c            submul, hgcd_matrix_apply (wrap-around products), mpn_hgcd_reduce
    mpn/generic/hgcd_appr.c              mpn_hgcd_appr

  A limb array {p, n} is its value (a natural below B^n); a size field is a natural.  Where the C
  stores a carry limb the value is exact; where the C DROPS a carry/borrow (ASSERT_NOCARRY, ASSERT
  (h0 == h1), ASSERT (cy <= ah)) the model reduces modulo the size of the destination, so that "the
  assertion holds" is a theorem about the model and not an assumption built into it.
  The thresholds are parameters (`Thr`): the theorems hold for all values ≥ their minima.
-/
import Mpir.Base
import Mpir.Model.Gcd
namespace Mpir.Hgcd
open Mpir Mpir.Gcd

/-! ## matrix22_mul.c -/

/-- abs_sub_n (matrix22_mul.c:38): MPN_CMP, then mpn_sub_n of the larger minus the smaller; returns
    (|a - b|, a < b).  Operands are n-limb values. -/
def absSubN (a b : Nat) : Nat × Bool := if b ≤ a then (a - b, false) else (b - a, true)

/-- add_signed_n (matrix22_mul.c:55) on n limbs: signs differ → abs_sub_n; equal →
    ASSERT_NOCARRY (mpn_add_n): the carry out of limb n-1 is dropped. -/
def addSignedN (a : Nat) (as : Bool) (b : Nat) (bs : Bool) (n : Nat) : Nat × Bool :=
  if as != bs then ((absSubN a b).1, as != (absSubN a b).2)
  else ((a + b) % B ^ n, as)

/-- the basecase of mpn_matrix22_mul (matrix22_mul.c:281-306): R := R·M, every entry of the product
    stored in rn + mn + 1 limbs (`r0[rn+mn] = mpn_add_n (...)`: the carry limb is kept). -/
def matrix22MulBase (r0 r1 r2 r3 m0 m1 m2 m3 : Nat) : Nat × Nat × Nat × Nat :=
  (r1 * m2 + r0 * m0, r0 * m1 + r1 * m3, r3 * m2 + r2 * m0, r2 * m1 + r3 * m3)

/-- mpn_matrix22_mul_strassen (matrix22_mul.c:124-279), statement by statement.  Magnitudes are
    naturals, the C's sign flags r1s, r3s, s0s, t0s, u1s are Booleans (true = negative).
    `rn`, `mn` are the operand sizes; r_i < B^rn, m_i < B^mn. -/
def strassen (r0 r1 r2 r3 rn m0 m1 m2 m3 mn : Nat) : Nat × Nat × Nat × Nat :=
  let K := B ^ rn                                                -- weight of limb rn of the r-operands
  let L := B ^ mn                                                -- weight of limb mn of the m-operands
  let P := B ^ (rn + mn + 1)                                     -- size of the result areas
  let u0 := r1 * m2                                              -- :135 MUL (u0, r1, rn, m2, mn)    u5 = s5·t6
  let r3' := absSubN r3 r2                                       -- :136 r3s = abs_sub_n (r3, r3, r2, rn)
  let r3 := r3'.1; let r3s := r3'.2
  let r1' : Nat × Bool :=                                        -- :137-146
    if r3s then absSubN r1 r3                                    --   r1s = abs_sub_n (r1, r1, r3, rn); r1[rn] = 0
    else (r1 + r3, false)                                        --   r1[rn] = mpn_add_n (r1, r1, r3, rn); r1s = 0
  let r1 := r1'.1; let r1s := r1'.2
  let s0' : Nat × Bool :=                                        -- :147-162
    if r1s then (r1 + r0, false)                                 --   s0[rn] = mpn_add_n (s0, r1, r0, rn); s0s = 0
    else if r1 / K ≠ 0 then                                      --   r1[rn] != 0
      ((r1 % K + K - r0) % K                                     --   s0[rn] = r1[rn] - mpn_sub_n (s0, r1, r0, rn)
        + ((r1 / K + B - (if r1 % K < r0 then 1 else 0)) % B) * K, true)   -- s0s = 1
    else absSubN r0 r1                                           --   s0s = abs_sub_n (s0, r0, r1, rn); s0[rn] = 0
  let s0 := s0'.1; let s0s := s0'.2
  let u1 := r0 * m0                                              -- :163 MUL (u1, r0, rn, m0, mn)   u0 = s0·t0
  let r0 := u0 + u1                                              -- :164 r0[rn+mn] = mpn_add_n (r0, u0, u1, rn + mn)
  let t0' := absSubN m3 m2                                       -- :167 t0s = abs_sub_n (t0, m3, m2, mn)
  let t0 := t0'.1; let t0s := t0'.2
  let u1s := !(r3s != t0s)                                       -- :168 u1s = r3s^t0s^1
  let u1 := r3 * t0                                              -- :169 MUL (u1, r3, rn, t0, mn)    u2 = s2·t2
  let t0' : Nat × Bool :=                                        -- :171-179
    if t0s then absSubN m1 t0                                    --   t0s = abs_sub_n (t0, m1, t0, mn); t0[mn] = 0
    else (t0 + m1, false)                                        --   t0[mn] = mpn_add_n (t0, t0, m1, mn)
  let t0 := t0'.1; let t0s := t0'.2
  let r3 :=                                                      -- :187-198                          u3 = s3·t3
    if t0 / L ≠ 0 then                                           --   t0[mn] != 0
      ((r1 % K) * t0                                             --   MUL (r3, r1, rn, t0, mn + 1)
        + (if r1 / K ≠ 0 then K * t0 else 0)) % P                -- mpn_add_n (r3 + rn, r3 + rn, t0, mn + 1), carry dropped
    else r1 * t0                                                 --   MUL (r3, r1, rn + 1, t0, mn)
  let r3' : Nat × Bool :=                                        -- :202-211  (u0[rn+mn] = 0)
    if r1s != t0s then absSubN u0 r3                             --   r3s = abs_sub_n (r3, u0, r3, rn + mn + 1)
    else ((r3 + u0) % P, false)                                  --   ASSERT_NOCARRY (mpn_add_n (r3, r3, u0, rn + mn + 1)); r3s = 0
  let r3 := r3'.1; let r3s := r3'.2
  let t0' : Nat × Bool :=                                        -- :213-224
    if t0s then (t0 + m0, true)                                  --   t0[mn] = mpn_add_n (t0, t0, m0, mn)
    else if t0 / L ≠ 0 then                                      --   t0[mn] -= mpn_sub_n (t0, t0, m0, mn)
      ((t0 % L + L - m0) % L
        + ((t0 / L + B - (if t0 % L < m0 then 1 else 0)) % B) * L, false)
    else absSubN t0 m0                                           --   t0s = abs_sub_n (t0, t0, m0, mn)
  let t0 := t0'.1; let t0s := t0'.2
  let u0 := r2 * t0                                              -- :225 MUL (u0, r2, rn, t0, mn + 1)  u6 = s6·t4
  let r1 :=                                                      -- :227-234
    if r1s then (r2 + K - r1) % K                                --   ASSERT_NOCARRY (mpn_sub_n (r1, r2, r1, rn))
    else r1 + r2                                                 --   r1[rn] += mpn_add_n (r1, r1, r2, rn)
  let rn := rn + 1                                               -- :235
  let r2' := addSignedN r3 r3s u0 t0s (rn + mn)                  -- :236 t0s = add_signed_n (r2, r3, r3s, u0, t0s, rn + mn)
  let r2 := r2'.1; let t0s := r2'.2
  let r3' := addSignedN r3 r3s u1 u1s (rn + mn)                  -- :239 r3s = add_signed_n (r3, r3, r3s, u1, u1s, rn + mn)
  let r3 := r3'.1; let r3s := r3'.2
  let u0 := s0 * m1                                              -- :242 MUL (u0, s0, rn, m1, mn)      u4 = s4·t5
  let t0 := m3 + m1                                              -- :244 t0[mn] = mpn_add_n (t0, m3, m1, mn)
  let u1 := r1 * t0                                              -- :245 MUL (u1, r1, rn, t0, mn + 1)  u1 = s1·t1
  let mn := mn + rn                                              -- :246
  let r1 := (addSignedN r3 r3s u0 s0s mn).1                      -- :249 ASSERT_NOCARRY (add_signed_n (r1, r3, r3s, u0, s0s, mn))
  let r3 :=                                                      -- :252-261
    if r3s then (u1 + r3) % B ^ mn                               --   ASSERT_NOCARRY (mpn_add_n (r3, u1, r3, mn))
    else (u1 + B ^ mn - r3) % B ^ mn                             --   ASSERT_NOCARRY (mpn_sub_n (r3, u1, r3, mn))
  let r2 :=                                                      -- :263-272
    if t0s then (u1 + r2) % B ^ mn                               --   ASSERT_NOCARRY (mpn_add_n (r2, u1, r2, mn))
    else (u1 + B ^ mn - r2) % B ^ mn                             --   ASSERT_NOCARRY (mpn_sub_n (r2, u1, r2, mn))
  (r0, r1, r2, r3)

/-- mpn_matrix22_mul (matrix22_mul.c:281): dispatch on MATRIX22_STRASSEN_THRESHOLD (`thr`). -/
def matrix22Mul (thr : Nat) (r0 r1 r2 r3 rn m0 m1 m2 m3 mn : Nat) : Nat × Nat × Nat × Nat :=
  if rn < thr ∨ mn < thr then matrix22MulBase r0 r1 r2 r3 m0 m1 m2 m3
  else strassen r0 r1 r2 r3 rn m0 m1 m2 m3 mn

/-! ## hgcd_matrix.c -/

/-- struct hgcd_matrix (gmp-impl.h:3773) at value level: the four entries, the common size field
    `n` (every entry occupies n limbs, high limbs may be zero) and `alloc`. -/
structure HM where
  alloc : Nat
  n : Nat
  e00 : Nat
  e01 : Nat
  e10 : Nat
  e11 : Nat
  deriving Repr, BEq, DecidableEq

/-- mpn_hgcd_matrix_init (hgcd_matrix.c:31): s = (n+1)/2 + 1 limbs per entry, M = identity, M->n = 1. -/
def matInit (n : Nat) : HM := ⟨(n + 1) / 2 + 1, 1, 1, 0, 0, 1⟩

/-- column `c` of M as (row 0, row 1) -/
def HM.col (M : HM) (c : Nat) : Nat × Nat := if c = 0 then (M.e00, M.e10) else (M.e01, M.e11)

def HM.setCol (M : HM) (c : Nat) (x0 x1 n : Nat) : HM :=
  if c = 0 then { M with e00 := x0, e10 := x1, n := n } else { M with e01 := x0, e11 := x1, n := n }

/-- mpn_hgcd_matrix_update_q (hgcd_matrix.c:49): column `col` += q · column (1 - col); {qp, qn} is
    normalised (hgcd_hook does MPN_NORMALIZE), so qn = nlimbs q ≥ 1. -/
def updateQ (M : HM) (q : Nat) (col : Nat) : HM :=
  let qn := nlimbs q
  let o := M.col (1 - col)
  let c := M.col col
  if qn = 1 then
    let x0 := c.1 + q * o.1                                       -- :60 c0 = mpn_addmul_1 (...); :63 p[0][col][M->n] = c0
    let x1 := c.2 + q * o.2                                       -- :61, :64
    M.setCol col x0 x1 (if x0 / B ^ M.n ≠ 0 ∨ x1 / B ^ M.n ≠ 0 then M.n + 1 else M.n)   -- :66 M->n += (c0 | c1) != 0
  else
    -- :80-85 `for (n = M->n; n + qn > M->n; n--) if (top limb of column 1-col non-zero) break`
    let n := max (max (nlimbs o.1) (nlimbs o.2)) (M.n - qn)
    let x0 := c.1 + o.1 * q                                       -- :89-98 mpn_mul, c[row] = mpn_add (...)
    let x1 := c.2 + o.2 * q
    let n := n + qn                                               -- :101
    let n :=
      if x0 / B ^ n ≠ 0 ∨ x1 / B ^ n ≠ 0 then n + 1               -- :103-108 carries stored in limb n
      else if limbAt x0 (n - 1) ||| limbAt x1 (n - 1) = 0 then n - 1 else n    -- :111
    M.setCol col x0 x1 n

/-- mpn_hgcd_mul_matrix1_vector (hgcd_matrix.c:254): (r; b) := (a; b)·M1 as row vector, i.e.
    r = u00·a + u10·b, b = u01·a + u11·b, n+1 limbs each (`rp[n] = ah`: the sum of the two carry
    limbs, truncated to a limb); returns (r, b', n + ((ah | bh) > 0)). -/
def mulMatrix1Vector (m : M1) (a b n : Nat) : Nat × Nat × Nat :=
  let r := (m.u00 * a + m.u10 * b) % B ^ (n + 1)
  let b' := (m.u11 * b + m.u01 * a) % B ^ (n + 1)
  (r, b', if r / B ^ n ≠ 0 ∨ b' / B ^ n ≠ 0 then n + 1 else n)

/-- mpn_hgcd_matrix_mul_1 (hgcd_matrix.c:126): M := M·M1, row by row; M->n = MAX (n0, n1). -/
def matMul1 (M : HM) (m : M1) : HM :=
  let r0 := mulMatrix1Vector m M.e00 M.e01 M.n
  let r1 := mulMatrix1Vector m M.e10 M.e11 M.n
  { M with e00 := r0.1, e01 := r0.2.1, e10 := r1.1, e11 := r1.2.1, n := max r0.2.2 r1.2.2 }

/-- the limb of index i of the four entries or-ed together -/
def HM.topOr (e00 e01 e10 e11 i : Nat) : Nat := limbAt e00 i ||| limbAt e01 i ||| limbAt e10 i ||| limbAt e11 i

/-- mpn_hgcd_matrix_mul (hgcd_matrix.c:146): M := M·M1 through mpn_matrix22_mul, then the size is
    M->n + M1->n + 1 minus up to three high zero limbs (:188-194). -/
def matMul (thr : Nat) (M M1 : HM) : HM :=
  let p := matrix22Mul thr M.e00 M.e01 M.e10 M.e11 M.n M1.e00 M1.e01 M1.e10 M1.e11 M1.n
  let n := M.n + M1.n
  let n := if HM.topOr p.1 p.2.1 p.2.2.1 p.2.2.2 n = 0 then n - 1 else n
  let n := if HM.topOr p.1 p.2.1 p.2.2.1 p.2.2.2 n = 0 then n - 1 else n
  let n := if HM.topOr p.1 p.2.1 p.2.2.1 p.2.2.2 n = 0 then n - 1 else n
  { M with e00 := p.1, e01 := p.2.1, e10 := p.2.2.1, e11 := p.2.2.2, n := n + 1 }

/-- mpn_hgcd_matrix_adjust (hgcd_matrix.c:202): the high limbs of (a; b) (from limb p on) have been
    reduced by M⁻¹ already; multiply the low p limbs by M⁻¹ and add.  a, b are n-limb values.
    The top limbs ah, bh are `ah = carry of mpn_add; ah -= borrow of mpn_sub` — as (n+1)-limb
    quantities the results are computed modulo B^(n+1).  Returns (new n, a, b). -/
def matAdjust (M : HM) (n a b p : Nat) : Nat × Nat × Nat :=
  let al := a % B ^ p; let bl := b % B ^ p
  let a' := (M.e11 * al + B ^ p * (a / B ^ p) + B ^ (n + 1) - M.e01 * bl) % B ^ (n + 1)   -- :220-242
  let b' := (M.e00 * bl + B ^ p * (b / B ^ p) + B ^ (n + 1) - M.e10 * al) % B ^ (n + 1)   -- :244-254
  if a' / B ^ n ≠ 0 ∨ b' / B ^ n ≠ 0 then (n + 1, a', b')                                -- :256-261
  else if limbAt a' (n - 1) = 0 ∧ limbAt b' (n - 1) = 0 then (n - 1, a', b')              -- :265
  else (n, a', b')

/-! ## matrix22_mul1_inverse_vector.c -/

/-- mpn_matrix22_mul1_inverse_vector (matrix22_mul1_inverse_vector.c:29): (r; b) := M⁻¹(a; b) =
    (u11·a - u01·b; u00·b - u10·a) on n limbs — the two high limbs h0, h1 are only compared in an
    ASSERT, so the stored result is the difference modulo B^n; n -= (rp[n-1] | bp[n-1]) == 0. -/
def mul1InvVec (m : M1) (a b n : Nat) : Nat × Nat × Nat :=
  let r := (m.u11 * a + B ^ (n + 1) - m.u01 * b) % B ^ n
  let b' := (m.u00 * b + B ^ (n + 1) - m.u10 * a) % B ^ n
  (r, b', if limbAt r (n - 1) ||| limbAt b' (n - 1) = 0 then n - 1 else n)

/-! ## gcd_subdiv_step.c with s > 0, hook = hgcd_hook -/

/-- hgcd_hook (hgcd_step.c:29): MPN_NORMALIZE (qp, qn); if (qn > 0) mpn_hgcd_matrix_update_q (M, qp, qn, d, tp). -/
def hgcdHook (M : HM) (q : Nat) (d : Bool) : HM := if q = 0 then M else updateQ M q (if d then 1 else 0)

/-- result of one step: return value (0 = no step possible / stop), the two numbers, the matrix -/
structure StepRes where
  ret : Nat
  a : Nat
  b : Nat
  M : HM
  deriving Repr, BEq, DecidableEq

/-- mpn_gcd_subdiv_step (gcd_subdiv_step.c:62) for s > 0 with hgcd_hook.  `sw` = the local pointers
    ap, bp are exchanged w.r.t. the caller's.  When 0 is returned after the subtraction has been
    recorded (:139, a = b after subtracting) the caller's buffers and M HAVE been modified. -/
def subdivStepS (a b s : Nat) (M : HM) : StepRes :=
  let an := nlimbs a; let bn := nlimbs b                         -- :75-77 MPN_NORMALIZE
  if an = bn ∧ a = b then ⟨0, a, b, M⟩                           -- :87-94 c == 0 (s > 0: no hook)
  else
    let sw := if an = bn then decide (a > b) else decide (an > bn)   -- :95-108
    let la := if sw then b else a
    let lb := if sw then a else b
    if nlimbs la ≤ s then ⟨0, a, b, M⟩                           -- :109-114
    else
      let lb := lb - la                                          -- :116 mpn_sub (bp, bp, bn, ap, an)
      if nlimbs lb ≤ s then ⟨0, a, b, M⟩                         -- :120-127 undo subtraction
      else if nlimbs la = nlimbs lb ∧ la = lb then               -- :134-145 c == 0: record subtraction, return 0
        ⟨0, if sw then lb else la, if sw then la else lb, hgcdHook M 1 sw⟩
      else
        let M := hgcdHook M 1 sw                                 -- :147 / :157 hook (q = 1, swapped)
        let sw2 := if nlimbs la = nlimbs lb then decide (la > lb) else decide (nlimbs la > nlimbs lb)
        let la2 := if sw2 then lb else la                        -- :149-153 / :159-163
        let lb2 := if sw2 then la else lb
        let sw := if sw2 then !sw else sw
        let q := lb2 / la2                                       -- :166 mpn_tdiv_qr
        let r := lb2 % la2
        if nlimbs r ≤ s then                                     -- :171
          -- :179-190 quotient one too large: add back A, decrement Q
          let r := r + la2
          let M := hgcdHook M (q - 1) sw                         -- :193
          ⟨nlimbs r, if sw then r else la2, if sw then la2 else r, M⟩     -- return an (after `bp[an++] = cy`)
        else
          let M := hgcdHook M q sw                               -- :193
          ⟨nlimbs la2, if sw then r else la2, if sw then la2 else r, M⟩   -- :194 return an

/-! ## hgcd_step.c -/

/-- the four limbs handed to mpn_hgcd2 by mpn_hgcd_step (hgcd_step.c:77-103); `none` = goto subtract. -/
def stepTop (n a b s : Nat) : Option (Nat × Nat × Nat × Nat) :=
  let mask := limbAt a (n - 1) ||| limbAt b (n - 1)
  if n = s + 1 then
    if mask < 4 then none
    else some (limbAt a (n - 1), limbAt a (n - 2), limbAt b (n - 1), limbAt b (n - 2))
  else if 2 ^ 63 ≤ mask then
    some (limbAt a (n - 1), limbAt a (n - 2), limbAt b (n - 1), limbAt b (n - 2))
  else
    let shift := clz mask
    some (extractNumb shift (limbAt a (n - 1)) (limbAt a (n - 2)), extractNumb shift (limbAt a (n - 2)) (limbAt a (n - 3)),
          extractNumb shift (limbAt b (n - 1)) (limbAt b (n - 2)), extractNumb shift (limbAt b (n - 2)) (limbAt b (n - 3)))

/-- mpn_hgcd_step (hgcd_step.c:66): an mpn_hgcd2 step on the top limbs if it succeeds
    (M := M·M1, (a; b) := M1⁻¹(a; b)), else mpn_gcd_subdiv_step with hgcd_hook. -/
def hgcdStep (n a b s : Nat) (M : HM) : StepRes :=
  match (stepTop n a b s).bind (fun t => hgcd2 t.1 t.2.1 t.2.2.1 t.2.2.2) with
  | some m1 =>
      let v := mul1InvVec m1 a b n                               -- :109-114
      ⟨v.2.2, v.1, v.2.1, matMul1 M m1⟩
  | none => subdivStepS a b s M                                  -- :119

/-! ## hgcd_reduce.c: hgcd_matrix_apply -/

/-- submul (hgcd_reduce.c:31): R -= A·B on rn limbs (ASSERT_NOCARRY), size normalised down to an. -/
def submul (r rn a an q : Nat) : Nat × Nat :=
  let r' := (r + B ^ rn * B - a * q) % B ^ rn
  (r', max (nlimbs r') (min an rn))

/-- the end-around-carry fold of an n-limb value into modn limbs (hgcd_reduce.c:141-150):
    cy = mpn_add (ap, ap, modn, ap + modn, n - modn); MPN_INCR_U (ap, modn, cy). -/
def foldBnm1 (a modn : Nat) : Nat :=
  let t := a % B ^ modn + a / B ^ modn
  (t % B ^ modn + t / B ^ modn) % B ^ modn

/-- cy = mpn_sub_n (tp, tp, sp, modn); MPN_DECR_U (tp, modn, cy)  (hgcd_reduce.c:161-162, 176-177) -/
def subBnm1 (t s modn : Nat) : Nat :=
  if s ≤ t then t - s else (t + B ^ modn - s + B ^ modn - 1) % B ^ modn

/-- mpir_fft_adjust_limbs (fft/mulmod_2expp1.c:181) with the constants FFT_MULMOD_2EXPP1_CUTOFF,
    FFT_N_NUM and the table MULMOD_TAB as parameters. -/
def fftAdjustLimbs (cutoff numN : Nat) (tab : List Nat) (limbs : Nat) : Nat :=
  if limbs ≤ cutoff then limbs
  else
    let clog (x : Nat) : Nat := if x ≤ 2 then 1 else (x - 1).log2 + 1     -- least depth ≥ 1 with 2^depth ≥ x
    let bits1 := limbs * 64
    let limbs2 := 2 ^ clog limbs
    let bits2 := limbs2 * 64
    let off (d : Nat) : Nat := if d < 12 then tab.getD 0 0 else tab.getD (min d (numN + 11) - 12) 0
    let depth1 := clog bits1 / 2 - off (clog bits1)
    let depth2 := clog bits2 / 2 - off (clog bits2)
    let depth1 := max depth1 depth2
    let adj := 2 ^ (depth1 + 1)
    let limbs2 := adj * ((limbs + adj - 1) / adj)
    let bits1 := limbs2 * 64
    let bits2 := 2 ^ (depth1 * 2)
    let bits1 := bits2 * ((bits1 + bits2 - 1) / bits2)
    bits1 / 64

/-- mpn_mulmod_bnm1_next_size (gmp-impl.h:3876) -/
def bnm1NextSize (cutoff numN : Nat) (tab : List Nat) (x : Nat) : Nat :=
  if x ≤ 2 * cutoff then x else 2 * fftAdjustLimbs cutoff numN tab ((x + 1) / 2)

/-- mpn_mulmod_bnm1 (rp, rn, ap, an, bp, bn) as used here (mulmod_2expm1.c:297): the exact product
    when an + bn < rn (only an + bn limbs are written, hgcd_matrix_apply zeroes the rest), otherwise
    SOME representative of the product modulo B^rn - 1 — the executable model takes the least one;
    `wrap_exact` shows that the result of hgcd_matrix_apply does not depend on the choice. -/
def mulmodBnm1 (rn a an b bn : Nat) : Nat :=
  if an + bn < rn then a * b else (a * b) % (B ^ rn - 1)

/-- hgcd_matrix_apply (hgcd_reduce.c:69): (a; b) := M⁻¹(a; b), returns (nn, a, b).  `nextSize` is
    mpn_mulmod_bnm1_next_size. -/
def matApply (nextSize : Nat → Nat) (M : HM) (a b n : Nat) : Nat × Nat × Nat :=
  let an := nlimbs a; let bn := nlimbs b
  let mn00 := nlimbs M.e00; let mn01 := nlimbs M.e01; let mn10 := nlimbs M.e10; let mn11 := nlimbs M.e11
  if mn01 = 0 then                                               -- :102 M = (1, 0; q, 1): B -= q·A
    let r := submul b bn a an M.e10
    (r.2, a, r.1)
  else if mn10 = 0 then                                          -- :114 M = (1, q; 0, 1): A -= q·B
    let r := submul a an b bn M.e01
    (r.2, r.1, b)
  else
    let un := min (an - mn00) (bn - mn10) + 1                    -- :128
    let vn := min (an - mn01) (bn - mn11) + 1
    let nn := max un vn
    let modn := nextSize (nn + 1)
    let fold := decide (n > modn)
    let af := if fold then foldBnm1 a modn else a
    let bf := if fold then foldBnm1 b modn else b
    let n := if fold then modn else n
    let tp := mulmodBnm1 modn af n M.e11 mn11                    -- :152
    let sp := mulmodBnm1 modn bf n M.e01 mn01                    -- :153
    let a' := subBnm1 tp sp modn % B ^ nn                        -- :161-165 ... MPN_COPY (ap, tp, nn)
    let sp := mulmodBnm1 modn af n M.e10 mn10                    -- :166
    let tp := mulmodBnm1 modn bf n M.e00 mn00                    -- :168
    let b' := subBnm1 tp sp modn % B ^ nn                        -- :176-180
    (max (nlimbs a') (nlimbs b'), a', b')                        -- :182-186 strip common high zero limbs

/-! ## hgcd.c, hgcd_reduce.c, hgcd_appr.c: the recursion -/

/-- the thresholds of the build; the C compares with BELOW_THRESHOLD / ABOVE_THRESHOLD. -/
structure Thr where
  hgcd : Nat          -- HGCD_THRESHOLD
  appr : Nat          -- HGCD_APPR_THRESHOLD
  reduce : Nat        -- HGCD_REDUCE_THRESHOLD
  strassen : Nat      -- MATRIX22_STRASSEN_THRESHOLD
  deriving Repr

/-- the loops `while (n > n2) { nn = mpn_hgcd_step (...); if (!nn) return success ? n : 0; ... }`
    (hgcd.c:103-112, `lim` = n2) and `for (;;)` (hgcd.c:161-170, lim = 0).
    Result: `inl` = returned from inside the loop, `inr` = fell out of the while. -/
def stepLoop : Nat → Nat → Nat → Nat → Nat → Nat → HM → Bool → (StepRes ⊕ (StepRes × Bool))
  | 0, _, n, a, b, _, M, success => .inr (⟨n, a, b, M⟩, success)
  | f + 1, lim, n, a, b, s, M, success =>
      if n > lim then
        let r := hgcdStep n a b s M
        if r.ret = 0 then .inl ⟨if success then n else 0, r.a, r.b, r.M⟩
        else stepLoop f lim r.ret r.a r.b s r.M true
      else .inr (⟨n, a, b, M⟩, success)

/-- state of the BELOW_THRESHOLD loop of mpn_hgcd_appr (hgcd_appr.c:77-130): after each successful
    step possibly drop low limbs.  a, b are the values from the CURRENT ap, bp on. -/
def apprLoop1 : Nat → Nat → Nat → Nat → Nat → Nat → HM → Bool → (Nat × Nat × Nat × Nat × Nat × HM × Bool)
  | 0, n, a, b, s, eb, M, success => (n, a, b, s, eb, M, success)
  | f + 1, n, a, b, s, eb, M, success =>
      if n > 2 then
        let r := hgcdStep n a b s M                              -- :84
        if r.ret = 0 then (n, r.a, r.b, s, eb, r.M, success)     -- :85 break
        else
          let n := r.ret; let a := r.a; let b := r.b; let M := r.M
          if 64 * (n + 1) + 2 * eb ≤ 2 * 64 * s then             -- :101
            let p := (64 * (2 * s - n) - 2 * eb) / 64            -- :103
            if eb = 0 then
              if s + 1 = n ∨ a / B ^ (s + 1) = 0 ∨ b / B ^ (s + 1) = 0 then   -- :110-112 continue
                apprLoop1 f n a b s eb M true
              else                                               -- :115-116 extra_bits = 63; s++
                apprLoop1 f (n - p) (a / B ^ p) (b / B ^ p) (s + 1 - p) 63 M true   -- :124
            else
              apprLoop1 f (n - p) (a / B ^ p) (b / B ^ p) (s - p) (eb - 1) M true   -- :120, :124
          else apprLoop1 f n a b s eb M true
      else (n, a, b, s, eb, M, success)

/-- second loop of the BELOW_THRESHOLD branch (hgcd_appr.c:149-162): `inl` = `return 1` from inside. -/
def apprLoop2 : Nat → Nat → Nat → Nat → Nat → HM → (StepRes ⊕ (Nat × Nat × Nat × HM))
  | 0, n, a, b, _, M => .inr (n, a, b, M)
  | f + 1, n, a, b, s, M =>
      if n > 2 then
        let r := hgcdStep n a b s M
        if r.ret = 0 then .inl ⟨1, r.a, r.b, r.M⟩
        else apprLoop2 f r.ret r.a r.b s r.M
      else .inr (n, a, b, M)

/-- BELOW_THRESHOLD (n, HGCD_APPR_THRESHOLD) branch of mpn_hgcd_appr (hgcd_appr.c:72-180).  Result: ret = the
    returned flag, M; a, b = the numbers at the current ap, bp (the inputs are "destroyed"; they are
    what the caller finds in the buffers when 0 is returned, since then no limb was dropped). -/
def apprBase (n a b : Nat) (M : HM) : StepRes :=
  let s := n / 2 + 1
  let st := apprLoop1 (a + b + 1) n a b s 0 M false
  let n := st.1; let a := st.2.1; let b := st.2.2.1; let s := st.2.2.2.1; let eb := st.2.2.2.2.1
  let M := st.2.2.2.2.2.1; let success := st.2.2.2.2.2.2
  let fin (n a b : Nat) (M : HM) (success : Bool) : StepRes :=   -- :165-179
    if n = 2 then
      match hgcd2 (limbAt a 1) (limbAt a 0) (limbAt b 1) (limbAt b 0) with
      | some m1 => ⟨1, a, b, matMul1 M m1⟩
      | none => ⟨boolToNat success, a, b, M⟩
    else ⟨boolToNat success, a, b, M⟩
  if eb > 0 then
    -- :134-147 ap--, bp--; ap[0] = mpn_rshift (ap+1, ap+1, n, 64 - eb): the (n+1)-limb value a·2^eb
    let a := a * 2 ^ eb; let b := b * 2 ^ eb
    let n := if limbAt a n ||| limbAt b n ≠ 0 then n + 1 else n
    match apprLoop2 (a + b + 1) n a b s M with
    | .inl r => r                                                  -- :159 return 1
    | .inr (n, a, b, M) => fin n a b M success
  else fin n a b M success

/-- the three mutually recursive functions one recursion level down (the C recursion
    mpn_hgcd → mpn_hgcd_reduce → mpn_hgcd / mpn_hgcd_appr → mpn_hgcd_reduce …). -/
structure Fns where
  hgcd : Nat → Nat → Nat → HM → StepRes                -- n a b M
  reduce : HM → Nat → Nat → Nat → Nat → StepRes        -- M a b n p
  appr : Nat → Nat → Nat → HM → StepRes                -- n a b M

/-- the final `for (;;)` of mpn_hgcd (hgcd.c:161-170) -/
def hgcdFin (n a b s : Nat) (M : HM) (success : Bool) : StepRes :=
  match stepLoop (a + b + 1) 0 n a b s M success with
  | .inl r => r
  | .inr (r, _) => r

/-- hgcd.c:114-170: after the `while (n > n2)` loop — the second recursive call (if n > s + 2) followed by
    mpn_hgcd_matrix_adjust and mpn_hgcd_matrix_mul, then the final `for (;;)`.  `r` = (n, a, b, M) at that point. -/
def hgcdTail (thr : Thr) (rc : Fns) (s : Nat) (r : StepRes) (success : Bool) : StepRes :=
  if r.ret > s + 2 then                                           -- :114
    let p := 2 * s - r.ret + 1
    let M1 := matInit (r.ret - p)                                 -- :122
    let r1 := rc.hgcd (r.ret - p) (r.a / B ^ p) (r.b / B ^ p) M1  -- :127
    let a1 := r.a % B ^ p + B ^ p * r1.a
    let b1 := r.b % B ^ p + B ^ p * r1.b
    if r1.ret > 0 then
      let adj := matAdjust r1.M (p + r1.ret) a1 b1 p              -- :144
      hgcdFin adj.1 adj.2.1 adj.2.2 s (matMul thr.strassen r.M r1.M) true          -- :157
    else hgcdFin r.ret a1 b1 s r.M success
  else hgcdFin r.ret r.a r.b s r.M success

/-- mpn_hgcd (hgcd.c:73); `rc` = the functions called recursively. -/
def hgcdBody (thr : Thr) (rc : Fns) (n a b : Nat) (M : HM) : StepRes :=
  let s := n / 2 + 1
  if n ≤ s then ⟨0, a, b, M⟩                                      -- :82
  else if n > thr.hgcd then                                       -- :90 ABOVE_THRESHOLD
    let n2 := 3 * n / 4 + 1
    let p := n / 2
    let r := rc.reduce M a b n p                                  -- :95
    let st : StepRes × Bool := if r.ret ≠ 0 then (r, true) else (⟨n, r.a, r.b, r.M⟩, false)
    match stepLoop (st.1.a + st.1.b + 1) n2 st.1.ret st.1.a st.1.b s st.1.M st.2 with   -- :103
    | .inl r => r
    | .inr (r, success) => hgcdTail thr rc s r success
  else hgcdFin n a b s M false

/-- mpn_hgcd_reduce (hgcd_reduce.c:213): (ret, a, b, M). -/
def reduceBody (thr : Thr) (nextSize : Nat → Nat) (rc : Fns) (M : HM) (a b n p : Nat) : StepRes :=
  if n < thr.reduce then                                          -- :219
    let r := rc.hgcd (n - p) (a / B ^ p) (b / B ^ p) M
    let a1 := a % B ^ p + B ^ p * r.a
    let b1 := b % B ^ p + B ^ p * r.b
    if r.ret > 0 then
      let adj := matAdjust r.M (p + r.ret) a1 b1 p                -- :225
      ⟨adj.1, adj.2.1, adj.2.2, r.M⟩
    else ⟨0, a1, b1, r.M⟩
  else
    let r := rc.appr (n - p) (a / B ^ p) (b / B ^ p) M            -- :229-231 on copies
    if r.ret ≠ 0 then
      let v := matApply nextSize r.M a b n                        -- :232
      ⟨v.1, v.2.1, v.2.2, r.M⟩
    else ⟨0, a, b, r.M⟩

/-- the final `for (;;)` of mpn_hgcd_appr (hgcd_appr.c:243-257) -/
def apprFin (n a b s : Nat) (M : HM) (success : Bool) : StepRes :=
  match stepLoop (a + b + 1) 0 n a b s M success with
  | .inl r => ⟨if r.ret ≠ 0 then 1 else 0, r.a, r.b, r.M⟩
  | .inr (r, su) => ⟨boolToNat su, r.a, r.b, r.M⟩

/-- mpn_hgcd_appr (hgcd_appr.c:50): ret = the returned flag (0/1), M; the inputs are destroyed — a, b
    are the buffer contents, which matter to the caller only when 0 is returned. -/
def apprBody (thr : Thr) (rc : Fns) (n a b : Nat) (M : HM) : StepRes :=
  if n ≤ 2 then ⟨0, a, b, M⟩                                      -- :60
  else if n < thr.appr then apprBase n a b M                      -- :72
  else
    let s := n / 2 + 1
    let n2 := 3 * n / 4 + 1
    let p := n / 2
    let r := rc.reduce M a b n p                                  -- :188
    let st : StepRes × Bool := if r.ret ≠ 0 then (r, true) else (⟨n, r.a, r.b, r.M⟩, false)
    match stepLoop (st.1.a + st.1.b + 1) n2 st.1.ret st.1.a st.1.b s st.1.M st.2 with   -- :196
    | .inl r => ⟨if r.ret ≠ 0 then 1 else 0, r.a, r.b, r.M⟩       -- :202 return success
    | .inr (r, success) =>
        if r.ret > s + 2 then                                     -- :208
          let p := 2 * s - r.ret + 1
          let M1 := matInit (r.ret - p)
          let r1 := rc.appr (r.ret - p) (r.a / B ^ p) (r.b / B ^ p) M1   -- :216
          if r1.ret ≠ 0 then ⟨1, r.a, r.b, matMul thr.strassen r.M r1.M⟩       -- :238-239
          else apprFin r.ret (r.a % B ^ p + B ^ p * r1.a) (r.b % B ^ p + B ^ p * r1.b) s r.M success
        else apprFin r.ret r.a r.b s r.M success

/-- recursion by levels: level 0 does nothing (never reached: the depth is below the limb count). -/
def fns (thr : Thr) (nextSize : Nat → Nat) : Nat → Fns
  | 0 => ⟨fun _ a b M => ⟨0, a, b, M⟩, fun M a b _ _ => ⟨0, a, b, M⟩, fun _ a b M => ⟨0, a, b, M⟩⟩
  | f + 1 =>
      let rc := fns thr nextSize f
      ⟨hgcdBody thr rc, reduceBody thr nextSize rc, apprBody thr rc⟩

/-- recursion depth that always suffices for n limbs: every mpn_hgcd / mpn_hgcd_appr call reached
    through one or two levels is on fewer limbs. -/
def depth (n : Nat) : Nat := 2 * n + 2

def hgcd (thr : Thr) (nextSize : Nat → Nat) (n a b : Nat) (M : HM) : StepRes :=
  (fns thr nextSize (depth n)).hgcd n a b M
def hgcdReduce (thr : Thr) (nextSize : Nat → Nat) (M : HM) (a b n p : Nat) : StepRes :=
  (fns thr nextSize (depth n)).reduce M a b n p
def hgcdAppr (thr : Thr) (nextSize : Nat → Nat) (n a b : Nat) (M : HM) : StepRes :=
  (fns thr nextSize (depth n)).appr n a b M

end Mpir.Hgcd
