/-
  C05 (aliasing), pointer level, part 3: the mpf functions that move limbs INSIDE the block of `r` when `r == u`
  (mpf_floor / mpf_ceil / mpf_trunc, mpf_mul_2exp / mpf_div_2exp) and mpf_ui_div, on the memory model of
  Mpir/Model/AliasMem.lean with the mpf variables of Mpir/Model/AliasMpf.lean.  Core Lean only.

  With `r == u` and an operand that has limbs the result does not keep (fraction limbs for floor/ceil/trunc, limbs beyond
  PREC (r) for the shifts) the kept limbs move DOWN inside one block: the copy / shift must run from the low end, and
  whatever is to be learnt from the dropped limbs must be read before.  The value-level answers are those of
  Mpir/Model/Mpf.lean (`Mpf.ceilOrFloor`, `Mpf.trunc`, `Mpf.mul_2exp`, `Mpf.div_2exp`, `Mpf.ui_div`).
-/
import Mpir.Model.AliasMpf
namespace Mpir.AliasMem
open Mpir
open Mpir.DivZ (sizeNat siz sameSign)

/-- the C as it is, and wrong versions for the negative examples -/
structure FVariant3 where
  scanBeforeMove : Bool := true   -- ceilfloor.c:79-99: the dropped limbs of u are inspected before anything is stored through rp
  copyIncr : Bool := true         -- ceilfloor.c:103, trunc.c:65, mul_2exp.c:95, div_2exp.c:101: MPN_COPY_INCR (not MPN_COPY_DECR)
  rshiftWhenLong : Bool := true   -- mul_2exp.c:102-113, div_2exp.c:108-118: mpn_rshift into rp+1 when u is longer than prec
  copyV : Bool := true            -- ui_div.c:86-91 "ensure divisor doesn't overlap quotient"
  deriving Repr

def FVariant3.c : FVariant3 := {}

/-- `if (rp != up + uoff) MPN_COPY_INCR (rp, up + uoff, n);` (`incr = false`: MPN_COPY_DECR) -/
def copyTop (incr : Bool) (rp up uoff n : Nat) (s : St) : R St :=
  if rp = up ∧ uoff = 0 then pure s else mpn_copy incr rp 0 up uoff n s

/-- mpn_add_1 (rp, up + uoff, n, c): works from the low end, destination at the start of its block (at or below the source,
    or a different block); n ≥ 1.  Returns the carry. -/
def mpn_add_1_off (rp up uoff n c : Nat) (s : St) : R (Nat × St) := do
  if ¬ 1 ≤ n then throw "ub:mpn_add_1 size"
  let a ← s.loadAt up uoff n
  let s ← s.storeAt rp 0 (toLimbs n (val a + c))
  pure ((val a + c) / B ^ n, s)

/-- mpf_ceil_or_floor (r, u, dir): mpf/ceilfloor.c:34-104; dir = 1 ceil, -1 floor. -/
def mpf_ceilfloorV (V : FVariant3) (r u : Nat) (dir : Int) (s : FSt) : R FSt := do
  let size := s.st.size u                                     -- ceilfloor.c:41
  if size = 0 then pure (s.setSE r 0 0)                       -- :42-48
  else
    let rp := s.st.ptr r                                      -- :50
    let exp := s.exp u                                        -- :51
    if exp ≤ 0 then                                           -- :52 u is only a fraction
      if decide (size < 0) != decide (dir < 0) then pure (s.setSE r 0 0)   -- :55-56 (size ^ dir) < 0: goto zero
      else do
        let st ← s.st.storeAt rp 0 [1]                        -- :57 rp[0] = 1
        pure ((s.withSt st).setSE r dir 1)                    -- :58-59
    else
      let s1 := s.setExp r exp                                -- :62 EXP(r) = exp
      let up := s.st.ptr u                                    -- :64
      let asize0 := size.natAbs                               -- :65
      let asize := min (min asize0 exp.toNat) (s.prec r + 1)  -- :69, :72, :75
      let uoff := asize0 - asize                              -- :66, :77  up += asize0; up -= asize
      let sgn (n : Nat) : Int := if size ≥ 0 then (n : Int) else -(n : Int)
      let sameDir : Bool := decide (size < 0) == decide (dir < 0)          -- :79 (size ^ dir) >= 0
      if V.scanBeforeMove then do
        -- :83-85 for (p = PTR(u); p != up; p++) if (*p != 0)
        let round ← (if sameDir then do
            let ign ← s1.st.loadAt up 0 uoff
            pure (ign.any (· != 0))
          else pure false)
        if round then do
          let (cy, st) ← mpn_add_1_off rp up uoff asize 1 s1.st      -- :87
          if cy ≠ 0 then do
            let st ← st.storeAt rp 0 [1]                             -- :91 rp[0] = 1
            let s2 := (s1.withSt st).setExp r (exp + 1)              -- :92-93 asize = 1; EXP(r)++
            pure (s2.withSt (s2.st.setSize r (sgn 1)))               -- :95
          else pure (s1.withSt (st.setSize r (sgn asize)))           -- :95
        else do
          let st := s1.st.setSize r (sgn asize)                      -- :101
          let st ← copyTop V.copyIncr rp up uoff asize st            -- :102-103
          pure (s1.withSt st)
      else do
        -- (wrong variant) the integer limbs are moved first, the dropped limbs are looked at afterwards, through PTR(u)
        let st := s1.st.setSize r (sgn asize)
        let st ← copyTop V.copyIncr rp up uoff asize st
        let round ← (if sameDir then do
            let ign ← st.loadAt up 0 uoff
            pure (ign.any (· != 0))
          else pure false)
        if round then do
          let (cy, st) ← mpn_add_1_off rp rp 0 asize 1 st
          if cy ≠ 0 then do
            let st ← st.storeAt rp 0 [1]
            let s2 := (s1.withSt st).setExp r (exp + 1)
            pure (s2.withSt (s2.st.setSize r (sgn 1)))
          else pure (s1.withSt st)
        else pure (s1.withSt st)

def mpf_ceilfloor := mpf_ceilfloorV .c
/-- mpf_floor (r, u): ceilfloor.c:114-118 -/
def mpf_floor (r u : Nat) (s : FSt) : R FSt := mpf_ceilfloor r u (-1) s
/-- mpf_ceil (r, u): ceilfloor.c:107-111 -/
def mpf_ceil (r u : Nat) (s : FSt) : R FSt := mpf_ceilfloor r u 1 s

/-- mpf_trunc (r, u): mpf/trunc.c:30-66. -/
def mpf_truncV (V : FVariant3) (r u : Nat) (s : FSt) : R FSt := do
  let exp := s.exp u                                          -- trunc.c:37
  let size := s.st.size u                                     -- :38
  if size = 0 ∨ exp ≤ 0 then pure (s.setSE r 0 0)             -- :39-45
  else
    let up := s.st.ptr u                                      -- :47
    let s1 := s.setExp r exp                                  -- :48
    let asize0 := size.natAbs                                 -- :49
    let asize := min (min asize0 exp.toNat) (s.prec r + 1)    -- :53, :56, :59
    let uoff := asize0 - asize                                -- :50, :61
    let rp := s.st.ptr r                                      -- :62
    let st := s1.st.setSize r (if size ≥ 0 then (asize : Int) else -(asize : Int))   -- :63
    let st ← copyTop V.copyIncr rp up uoff asize st           -- :64-65
    pure (s1.withSt st)

def mpf_trunc := mpf_truncV .c

/-- mpf_mul_2exp (r, u, e) (`mul = true`, mpf/mul_2exp.c:64-125) and mpf_div_2exp (r, u, e) (`mul = false`,
    mpf/div_2exp.c:70-131): the same code up to the shift counts and the exponent.  Line numbers: mul_2exp.c / div_2exp.c. -/
def mpf_2expV (V : FVariant3) (mul : Bool) (r u e : Nat) (s : FSt) : R FSt := do
  let rp := s.st.ptr r                                        -- :67 / :73
  let prec := s.prec r                                        -- :70 / :76
  let uexp := s.exp u                                         -- :71 / :77
  let usize := s.st.size u                                    -- :73 / :79
  if usize = 0 then pure (s.setSE r 0 0)                      -- :75-80 / :81-86
  else
    let abs_usize := usize.natAbs                             -- :82 / :88
    let up := s.st.ptr u                                      -- :83 / :89
    let sgn (n : Nat) : Int := if usize ≥ 0 then (n : Int) else -(n : Int)
    if e % 64 = 0 then do                                     -- :85 / :91
      let prec1 := prec + 1                                   -- :87 / :93
      let uoff := if abs_usize > prec1 then abs_usize - prec1 else 0     -- :89-93 / :95-99
      let abs_usize := if abs_usize > prec1 then prec1 else abs_usize
      let st ← copyTop V.copyIncr rp up uoff abs_usize s.st   -- :94-95 / :100-101
      let s1 := (s.withSt st).setExp r (if mul then uexp + (e / 64 : Nat) else uexp - (e / 64 : Nat))   -- :96 / :102
      pure (s1.withSt (s1.st.setSize r (sgn abs_usize)))      -- :124 / :130
    else do
      -- the data is `u · 2^k` with k = e % 64 (mul) or 64 - e % 64 (div): mpn_lshift by k, or mpn_rshift by 64 - k one limb up
      let k := if mul then e % 64 else 64 - e % 64
      let (abs_usize, adj, st) ← (if abs_usize > prec then do              -- :102 / :108
          let uoff := abs_usize - prec                                      -- :104-105 / :110-111
          let abs_usize := prec
          if V.rshiftWhenLong then do
            let (cy, st) ← mpn_rshift rp 1 up uoff abs_usize (64 - k) s.st  -- :109-110 / :115
            let st ← st.storeAt rp 0 [cy]                                   -- :111 / :116
            let top ← limbAt st rp abs_usize                                -- :112 / :117 adj = rp[abs_usize] != 0
            pure (abs_usize, (if top ≠ 0 then 1 else 0), st)
          else do
            -- (wrong variant) mpn_lshift works from the high end: with r == u it would clobber limbs of u before using them
            let (cy, st) ← mpn_lshift rp 0 up uoff abs_usize k s.st
            let st ← st.storeAt rp abs_usize [cy]
            pure (abs_usize, (if cy ≠ 0 then 1 else 0), st)
        else do
          let (cy, st) ← mpn_lshift rp 0 up 0 abs_usize k s.st             -- :116 / :121-122
          let st ← st.storeAt rp abs_usize [cy]                             -- :117 / :123
          pure (abs_usize, (if cy ≠ 0 then 1 else 0), st))                  -- :118 / :124
      let abs_usize := abs_usize + adj                                      -- :121 / :127
      let s1 := (s.withSt st).setExp r (if mul then uexp + (e / 64 : Nat) + (adj : Nat)
                                        else uexp - (e / 64 : Nat) - 1 + (adj : Nat))   -- :122 / :128
      pure (s1.withSt (s1.st.setSize r (sgn abs_usize)))                    -- :124 / :130

def mpf_mul_2exp (r u e : Nat) (s : FSt) : R FSt := mpf_2expV .c true r u e s
def mpf_div_2exp (r u e : Nat) (s : FSt) : R FSt := mpf_2expV .c false r u e s

/-- mpf_ui_div (r, u, v): mpf/ui_div.c:30-119 (BITS_PER_UI == GMP_NUMB_BITS: :96-106 compiled out; `u` one limb).  The TMP
    areas are separate blocks, as under WANT_TMP_DEBUG (:68-76). -/
def mpf_ui_divV (V : FVariant3) (r : Nat) (u : Nat) (v : Nat) (s : FSt) : R FSt := do
  let vs := s.st.size v                                       -- ui_div.c:41
  let vsize := vs.natAbs                                      -- :43
  let prec := s.prec r                                        -- :44
  if vsize = 0 then throw "div0"                              -- :46-47
  if u = 0 then pure (s.setSE r 0 0)                          -- :49-54
  else
    let rexp : Int := 1 - s.exp v + 1                         -- :57
    let rp := s.st.ptr r                                      -- :59
    let vp := s.st.ptr v                                      -- :60
    let rsize := prec + 1                                     -- :63
    -- :62 prospective_rsize = 1 - vsize + 1; :65 zeros = rsize - prospective_rsize = prec + vsize - 1; :66 tsize = 1 + zeros
    let tsize := prec + vsize
    let r1 := s.st.tmpAlloc vsize                             -- :71 remp
    let remp := r1.1
    let r2 := r1.2.malloc (List.replicate (tsize - 1) 0 ++ [u])   -- :72 tp, :93 MPN_ZERO (tp, tsize-1), :95 tp[tsize-1] = u
    let tp := r2.1
    let st := r2.2
    -- :86-91 ensure divisor doesn't overlap quotient
    let (vp, t2, st) ← (if V.copyV ∧ rp = vp then do
        let r3 ← st.tmpCopy vp vsize                          -- :75, :89
        pure (r3.1, [r3.1], r3.2)                             -- :90
      else pure (vp, [], st))
    let st ← mpn_tdiv_qr rp remp tp tsize vp vsize st         -- :109
    let top ← limbAt st rp (rsize - 1)                        -- :112 high_zero = (rp[rsize-1] == 0)
    let hz := if top = 0 then 1 else 0
    let rsize := rsize - hz                                   -- :113
    let rexp := rexp - hz                                     -- :114
    let s' := (s.withSt st).setSE r (if vs ≥ 0 then (rsize : Int) else -(rsize : Int)) rexp   -- :116-117
    pure (s'.withSt ((remp :: tp :: t2).foldl St.free s'.st)) -- :118 TMP_FREE

def mpf_ui_div := mpf_ui_divV .c

end Mpir.AliasMem
