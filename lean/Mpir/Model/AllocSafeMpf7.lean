/-
  C04 (allocation safety), part c04_allocsafe7: index-checked mirrors of the mpf assignment / addition functions on a
  destination that is NEVER reallocated.  Core Lean only.

  An `mpf_t` owns one block for its whole life (mpf/init2.c: PREC + 1 limbs).  No mpf function can grow it, so every store
  through `r->_mp_d` must stay below the block length whatever the operands look like: an operand may carry more limbs than
  the destination's precision, and after mpf_set_prec_raw an object carries more limbs than its OWN PREC + 1 (this is the
  state of the aliased calls `f (r, r)` below: the block is then longer than PREC (r) + 1, but a correct function still
  writes at most PREC (r) + 1 limbs).

  Memory: a block is its length `alloc` and its limbs; every load / store names its offset and count and clears `ok` when
  it leaves [0, alloc).  State = the destination `r`, two further variables `u`, `v`, one TMP area.  An argument of a
  function is a selector (`Src.r`, `.u`, `.v`): the aliased call `mpf_add (r, r, v)` is `mpf_add s .r .v`, and the pointer
  comparisons of the C (`r != v`, `rp != up`) are comparisons of selectors and offsets.

  Line numbers: /repo/mpf/<file>.c.  Value-level sub-operations (mpn_add, mpn_mul_1 with its carry-in) are those of the bit-exact
  C13 model Mpir/Model/Mpf.lean.
-/
import Mpir.Base
import Mpir.Model.Mpf
namespace Mpir.AllocSafe7
open Mpir

/-- what malloc'ed memory holds (the harness fills fresh blocks with the same pattern) -/
def junk : Nat := 0xA5A5A5A5A5A5A5A5

/-- a limb block of `alloc` limbs -/
structure Blk where
  alloc : Nat
  limbs : List Nat
  deriving Repr, DecidableEq, Inhabited

def Blk.new (n : Nat) : Blk := ⟨n, List.replicate n junk⟩

/-- a block holding `l`, padded with junk to at least `n` limbs -/
def Blk.ofLimbs (l : List Nat) (n : Nat) : Blk := ⟨max n l.length, l ++ List.replicate (n - l.length) junk⟩

/-- the limbs p[off, off+n); the Boolean says whether all of them are inside the block -/
def Blk.read (b : Blk) (off n : Nat) : List Nat × Bool :=
  ((b.limbs.drop off).take n, decide (off + n ≤ b.alloc))

/-- store `l` to p[off, off+|l|); outside the block nothing is stored and the access is reported -/
def Blk.write (b : Blk) (off : Nat) (l : List Nat) : Blk × Bool :=
  if off + l.length ≤ b.alloc then
    ({ b with limbs := b.limbs.take off ++ l ++ b.limbs.drop (off + l.length) }, true)
  else (b, false)

/-- an `mpf_t`: `_mp_prec`, `_mp_size`, `_mp_exp` and the block `_mp_d` points to -/
structure FObj where
  prec : Nat
  size : Int
  exp : Int
  blk : Blk
  deriving Repr, DecidableEq, Inhabited

/-- the object as the bit-exact value-level model (C13) sees it: the |size| limbs in use -/
def FObj.view (o : FObj) : Mpf.F := ⟨o.prec, o.size, o.exp, o.blk.limbs.take o.size.natAbs⟩

inductive Src where
  | r | u | v
  deriving Repr, DecidableEq, Inhabited

structure St where
  r : FObj
  u : FObj
  v : FObj
  t : Blk          -- the TMP area of the running call
  ok : Bool
  deriving Repr, Inhabited

def St.obj (s : St) : Src → FObj
  | .r => s.r
  | .u => s.u
  | .v => s.v

/-- load n limbs at offset off of the block of variable `x` -/
def St.rd (s : St) (x : Src) (off n : Nat) : List Nat × St :=
  let q := (s.obj x).blk.read off n
  (q.1, { s with ok := s.ok && q.2 })

/-- store through `r->_mp_d + off` -/
def St.wrR (s : St) (off : Nat) (l : List Nat) : St :=
  let q := s.r.blk.write off l
  { s with r := { s.r with blk := q.1 }, ok := s.ok && q.2 }

/-- `TMP_ALLOC (n limbs)` -/
def St.tmpAlloc (s : St) (n : Nat) : St := { s with t := Blk.new n }

def St.rdT (s : St) (off n : Nat) : List Nat × St :=
  let q := s.t.read off n
  (q.1, { s with ok := s.ok && q.2 })

def St.wrT (s : St) (off : Nat) (l : List Nat) : St :=
  let q := s.t.write off l
  { s with t := q.1, ok := s.ok && q.2 }

/-- `r->_mp_size = sz; r->_mp_exp = e` -/
def St.setSE (s : St) (sz e : Int) : St := { s with r := { s.r with size := sz, exp := e } }

/-- MPN_COPY_INCR (rp + roff, xp + off, n) resp. MPN_COPY: all loads, then all stores.  (For the overlapping case
    rp ≤ xp of the aliased calls the incrementing copy gives the same result: C05 part c05_ptr, `copy_incr_spec`.) -/
def St.copyToR (s : St) (roff : Nat) (x : Src) (off n : Nat) : St :=
  let q := s.rd x off n
  q.2.wrR roff q.1

/-- `pplus`: 0 in the C; 1 gives the seeded variants (`prec + 1` → `prec + 2`) of the negative examples -/
abbrev Variant := Nat

/- ------------------------------------------------------------------ set.c -/

/-- mpf_set (r, u), mpf/set.c:26-47 -/
def mpf_set (pplus : Variant) (s : St) (x : Src) : St :=
  let prec := s.r.prec + 1 + pplus                            -- set.c:33 prec = r->_mp_prec + 1
  let size := (s.obj x).size                                  -- :34
  let asize := size.natAbs                                    -- :35
  let exp := (s.obj x).exp
  let off := if asize > prec then asize - prec else 0         -- :39-43 up += asize - prec
  let asize := if asize > prec then prec else asize
  let s := s.setSE (if size ≥ 0 then asize else -(asize : Int)) exp   -- :45-46
  s.copyToR 0 x off asize                                     -- :47 MPN_COPY_INCR (rp, up, asize)

/- ------------------------------------------------------------------ set_ui.c / set_si.c -/

/-- mpf_set_ui (f, val), mpf/set_ui.c:26-40 (BITS_PER_UI == GMP_NUMB_BITS) -/
def mpf_set_ui (s : St) (v : Nat) : St :=
  let s := s.wrR 0 [v % B]                                    -- set_ui.c:31 f->_mp_d[0] = val & GMP_NUMB_MASK
  let size : Int := if v ≠ 0 then 1 else 0                    -- :32
  s.setSE size size                                           -- :40

/-- mpf_set_si (dest, val), mpf/set_si.c:27-47 -/
def mpf_set_si (s : St) (v : Int) : St :=
  let vl := v.natAbs                                          -- set_si.c:33
  let s := s.wrR 0 [vl % B]                                   -- :35
  let size : Int := if vl ≠ 0 then 1 else 0                   -- :36
  s.setSE (if v ≥ 0 then size else -size) size                -- :44-45

/- ------------------------------------------------------------------ set_z.c -/

/-- mpf_set_z (r, u), mpf/set_z.c:26-48; the mpz operand is a block `zb` (ALLOC (u) limbs) and its SIZ -/
def mpf_set_z (pplus : Variant) (s : St) (zsize : Int) (zb : Blk) : St :=
  let prec := s.r.prec + 1 + pplus                            -- set_z.c:33
  let asize := zsize.natAbs                                   -- :35
  let exp : Int := asize                                      -- :39 EXP (r) = asize
  let off := if asize > prec then asize - prec else 0         -- :41-45
  let asize := if asize > prec then prec else asize
  let s := s.setSE (if zsize ≥ 0 then asize else -(asize : Int)) exp   -- :47
  let q := zb.read off asize                                  -- :48 MPN_COPY (rp, up, asize)
  { s with ok := s.ok && q.2 }.wrR 0 q.1

/- ------------------------------------------------------------------ mul_ui.c -/

/-- mpf_mul_ui (r, u, v), mpf/mul_ui.c:82-173, 0 ≤ v < 2^64 -/
def mpf_mul_ui (pplus : Variant) (s : St) (x : Src) (v : Nat) : St :=
  let usize := (s.obj x).size                                 -- mul_ui.c:91
  if v = 0 ∨ usize = 0 then s.setSE 0 0                       -- :92-97
  else
    let size := usize.natAbs                                  -- :115
    let prec := s.r.prec + pplus                              -- :116
    let uexp := (s.obj x).exp
    let excess := size - prec                                 -- :119 (> 0 iff size > prec)
    -- :122-158 the carry-in scan loads up[excess-1], up[excess-2], … (a suffix of up[0, excess)); the whole range is checked
    let lo := s.rd x 0 excess
    let s := lo.2
    let size := if excess > 0 then prec else size             -- :157
    let hi := s.rd x excess size                              -- :164 mpn_mul_1 loads up[excess, excess + size)
    let s := hi.2
    let t := (val (lo.1 ++ hi.1) * v) / B ^ excess            -- mpn_mul_1 + carry-in (Mpf.mul_ui)
    let s := s.wrR 0 (toLimbs size t)                         -- :164-165 stores rp[0, size)
    let cy := t / B ^ size                                    -- :166
    let s := s.wrR size [cy]                                  -- :168 rp[size] = cy_limb
    let c : Nat := if cy ≠ 0 then 1 else 0                    -- :169
    let size := size + c                                      -- :171
    s.setSE (if usize ≥ 0 then size else -(size : Int)) (uexp + c)   -- :170, :172

/- ------------------------------------------------------------------ add.c -/

/-- add.c:126-164, `ediff < prec`: the three alignments into the TMP area.  Returns the state, rsize and the carry. -/
def addAlign (s : St) (us : Src) (uoff usize : Nat) (vs : Src) (voff vsize ed : Nat) : St × Nat × Nat :=
  if usize > ed then                                          -- :129
    if vsize + ed ≤ usize then                                -- :132  uuuu / v
      let size := usize - ed - vsize                          -- :137
      let a := s.rd us uoff size                              -- :138 MPN_COPY (tp, up, size)
      let s := a.2.wrT 0 a.1
      let x := s.rd us (uoff + size) (usize - size)           -- :139 mpn_add (tp + size, up + size, usize - size, vp, vsize)
      let y := x.2.rd vs voff vsize
      let w := Mpf.addv x.1 y.1
      (y.2.wrT size w.1, usize, w.2)                          -- :140
    else                                                      -- :142  uuuu / vvvvv
      let size := vsize + ed - usize                          -- :147
      let a := s.rd vs voff size                              -- :148 MPN_COPY (tp, vp, size)
      let s := a.2.wrT 0 a.1
      let x := s.rd us uoff usize                             -- :149 mpn_add (tp + size, up, usize, vp + size, usize - ediff)
      let y := x.2.rd vs (voff + size) (usize - ed)
      let w := Mpf.addv x.1 y.1
      (y.2.wrT size w.1, vsize + ed, w.2)                     -- :150
  else                                                        -- :153  uuuu / (gap) vv
    let size := vsize + ed - usize                            -- :158
    let a := s.rd vs voff vsize                               -- :159 MPN_COPY (tp, vp, vsize)
    let s := a.2.wrT 0 a.1
    let s := s.wrT vsize (List.replicate (ed - usize) 0)      -- :160 MPN_ZERO (tp + vsize, ediff - usize)
    let b := s.rd us uoff usize                               -- :161 MPN_COPY (tp + size, up, usize)
    (b.2.wrT size b.1, size + usize, 0)                       -- :162-163

/-- add.c:166-167: `MPN_COPY (rp, tp, rsize); rp[rsize] = cy;` -/
def addStore (q : St × Nat × Nat) : St × Nat × Nat :=
  let c := q.1.rdT 0 q.2.1                                    -- :166 MPN_COPY (rp, tp, rsize)
  let s := c.2.wrR 0 c.1
  let s := s.wrR q.2.1 [q.2.2]                                -- :167 rp[rsize] = cy
  (s, q.2.1, q.2.2)

/-- add.c:126-170, `ediff < prec` -/
def addOverlap (s : St) (us : Src) (uoff usize : Nat) (vs : Src) (voff vsize ed : Nat) : St × Nat × Nat :=
  addStore (addAlign s us uoff usize vs voff vsize ed)

/-- add.c:80-174 after the exponent swap: `us` is the operand with the larger (or equal) exponent -/
def addSameSign (pplus : Variant) (s : St) (negate : Bool) (us vs : Src) : St :=
  let usize := (s.obj us).size.natAbs                         -- :80
  let vsize := (s.obj vs).size.natAbs                         -- :81
  let prec := s.r.prec + pplus                                -- :85
  let uexp := (s.obj us).exp                                  -- :86
  let ediff : Int := uexp - (s.obj vs).exp                    -- :87
  let uoff := if usize > prec then usize - prec else 0        -- :90-94
  let usize := if usize > prec then prec else usize
  let vcut : Bool := (vsize : Int) + ediff > prec             -- :98
  let voff := if vcut then ((vsize : Int) + ediff - prec).toNat else 0   -- :100
  let vsize : Int := if vcut then (prec : Int) - ediff else vsize        -- :101 "this may make vsize negative"
  let s := s.tmpAlloc prec                                    -- :115 tp = TMP_ALLOC (prec * BYTES_PER_MP_LIMB)
  if ediff ≥ prec then                                        -- :117
    let s := if us = .r ∧ uoff = 0 then s else s.copyToR 0 us uoff usize   -- :120-121 if (rp != up) MPN_COPY_INCR
    s.setSE (if negate then -(usize : Int) else usize) uexp   -- :122, :172-173
  else
    let q := addOverlap s us uoff usize vs voff vsize.toNat ediff.toNat
    let rsize := q.2.1 + q.2.2                                -- :168
    q.1.setSE (if negate then -(rsize : Int) else rsize) (uexp + q.2.2)   -- :169, :172-173

/- ------------------------------------------------------------------ sub.c (store level) -/

/-- mpf_sub (r, u, v) for non-zero operands of equal sign, mpf/sub.c:65-410, at STORE level.  Every store through `rp` in
    sub.c is one of `MPN_COPY_INCR (rp, vp, vsize)` (:122, cancellation), `MPN_COPY (rp, up, usize)` (:286 `ediff >= prec`,
    :297 V out of range), `MPN_COPY (rp, vp, vsize)` (:309) and `MPN_COPY (rp, tp, rsize)` (:402, after the strip of high zero
    limbs): exactly the rsize result limbs at rp[0, rsize), then the header (:406-409).  The limbs, SIZ and EXP are those of
    the bit-exact C13 model (`Mpf.subMag`: cancellation scan, x+1 000…/x fff… path, the alignments with borrow, strip), passed
    in as `F`.  The operands are loaded inside their |SIZ| limbs only (the scan goes down from up[usize-1] / vp[vsize-1], the
    alignments take sub-ranges): checked as one load of the whole range each.  The TMP area (`prec = PREC + 1` limbs, :199,
    :280) is allocated; its traffic is NOT index-checked here. -/
def subStore (s : St) (us vs : Src) (F : Mpf.F) : St :=
  let a := s.rd us 0 (s.obj us).size.natAbs                   -- up[0, usize)
  let b := a.2.rd vs 0 (s.obj vs).size.natAbs                 -- vp[0, vsize)
  let s := b.2.tmpAlloc (s.r.prec + 1)                        -- :199 / :280 tp = TMP_ALLOC (prec limbs), prec = PREC + 1 (:85)
  (s.wrR 0 F.d).setSE F.size F.exp                            -- :122 / :286 / :297 / :309 / :402, then :406-409

/-- mpf_add (r, u, v), mpf/add.c:26-175.  Operands of different sign (add.c:56-64): `mpf_sub (r, u, &v_negated)` with a
    local header that shares v's limbs — non-zero operands of equal sign there, i.e. `subStore` with C13's `Mpf.subMag`.
    (The result stays an `Option` for the callers written before sub.c was mirrored; it is always `some`.) -/
def mpf_add (pplus : Variant) (s : St) (us vs : Src) : Option St :=
  let usize := (s.obj us).size                                -- add.c:38
  let vsize := (s.obj vs).size                                -- :39
  if usize = 0 then some (if vs ≠ .r then mpf_set 0 s vs else s)          -- :42-48
  else if vsize = 0 then some (if us ≠ .r then mpf_set 0 s us else s)     -- :49-53
  else if (usize < 0) != (vsize < 0) then                     -- :56-64
    let v := (s.obj vs).view
    some (subStore s us vs (Mpf.subMag s.r.prec (decide (usize < 0)) (s.obj us).view { v with size := -v.size }))
  else
    let negate := usize < 0                                   -- :69
    let sw := (s.obj us).exp < (s.obj vs).exp                 -- :72-78 make U the operand with the largest exponent
    some (addSameSign pplus s negate (if sw then vs else us) (if sw then us else vs))

/- ------------------------------------------------------------------ neg.c, sub.c -/

/-- mpf_neg (r, u), mpf/neg.c:25-53 -/
def mpf_neg (s : St) (x : Src) : St :=
  let size := -(s.obj x).size                                 -- neg.c:30
  if x = .r then s.setSE size s.r.exp                         -- :31, :52 (r == u: only the sign)
  else
    let prec := s.r.prec + 1                                  -- :37
    let asize := size.natAbs                                  -- :38
    let off := if asize > prec then asize - prec else 0       -- :42-46
    let asize := if asize > prec then prec else asize
    let s := s.setSE (if size ≥ 0 then asize else -(asize : Int)) (s.obj x).exp   -- :49-50, :52
    s.copyToR 0 x off asize                                   -- :48 MPN_COPY (rp, up, asize)

/-- mpf_sub (r, u, v), mpf/sub.c:27-411 -/
def mpf_sub (s : St) (us vs : Src) : St :=
  let usize := (s.obj us).size                                -- sub.c:38
  let vsize := (s.obj vs).size                                -- :39
  if usize = 0 then mpf_neg s vs                              -- :42-46
  else if vsize = 0 then (if us ≠ .r then mpf_set 0 s us else s)          -- :47-52
  else if (usize < 0) != (vsize < 0) then                     -- :55-63 mpf_add (r, u, &v_negated): equal signs there
    let sw := (s.obj us).exp < (s.obj vs).exp                 -- add.c:72-78
    addSameSign 0 s (usize < 0) (if sw then vs else us) (if sw then us else vs)   -- add.c:69, :80-174
  else subStore s us vs (Mpf.subMag s.r.prec (decide (usize < 0)) (s.obj us).view (s.obj vs).view)   -- :65-410

/- ------------------------------------------------------------------ mul_2exp.c / div_2exp.c -/

/-- the shift arm of mul_2exp.c:98-122 / div_2exp.c:104-128 (`k` = the left-shift count, 0 < k < 64: `exp % 64` resp.
    `64 - exp % 64`).  Both paths leave the n + 1 limbs of `up * 2^k` in rp[0, n]: operand longer than `prec` —
    `mpn_rshift (rp + 1, up, n, 64 - k)` stores rp[1, n], then `rp[0] = cy_limb`, then rp[n] is read back
    (`adj = rp[abs_usize] != 0`); otherwise `mpn_lshift (rp, up, n, k)` stores rp[0, n), then `rp[n] = cy_limb`.
    Returns the state, abs_usize and adj. -/
def shiftArm (pplus : Variant) (s : St) (x : Src) (k : Nat) : St × Nat × Nat :=
  let abs_usize := (s.obj x).size.natAbs
  let prec := s.r.prec + pplus
  if abs_usize > prec then                                    -- mul_2exp.c:102 / div_2exp.c:108
    let a := s.rd x (abs_usize - prec) prec                   -- :104-105 up += abs_usize - prec; abs_usize = prec
    let full := toLimbs (prec + 1) (val a.1 * 2 ^ k)
    let s := a.2.wrR 1 (full.drop 1)                          -- :109 mpn_rshift (rp + 1, up, abs_usize, …)
    let s := s.wrR 0 (full.take 1)                            -- :111 rp[0] = cy_limb
    let t := s.rd .r prec 1                                   -- :112 adj = rp[abs_usize] != 0 (the limb just stored: top of `full`)
    (t.2, prec, if Mpf.topLimb full ≠ 0 then 1 else 0)
  else
    let a := s.rd x 0 abs_usize
    let full := toLimbs (abs_usize + 1) (val a.1 * 2 ^ k)
    let s := a.2.wrR 0 (full.take abs_usize)                  -- :116 mpn_lshift (rp, up, abs_usize, …)
    let s := s.wrR abs_usize (full.drop abs_usize)            -- :117 rp[abs_usize] = cy_limb
    (s, abs_usize, if Mpf.topLimb full ≠ 0 then 1 else 0)     -- :118 adj = cy_limb != 0

/-- the whole-limb arm, mul_2exp.c:85-97 / div_2exp.c:91-103: `prec++`, cut, `if (rp != up) MPN_COPY_INCR`.  Returns state and abs_usize. -/
def copyArm (pplus : Variant) (s : St) (x : Src) : St × Nat :=
  let abs_usize := (s.obj x).size.natAbs
  let prec := s.r.prec + 1 + pplus                            -- :87 prec++
  let off := if abs_usize > prec then abs_usize - prec else 0 -- :89-93
  let abs_usize := if abs_usize > prec then prec else abs_usize
  (if x = .r ∧ off = 0 then s else s.copyToR 0 x off abs_usize, abs_usize)   -- :94-95

/-- mpf_mul_2exp (r, u, exp), mpf/mul_2exp.c:64-125 -/
def mpf_mul_2exp (pplus : Variant) (s : St) (x : Src) (e : Nat) : St :=
  let usize := (s.obj x).size                                 -- mul_2exp.c:73
  let uexp := (s.obj x).exp                                   -- :71
  if usize = 0 then s.setSE 0 0                               -- :75-80
  else if e % 64 = 0 then                                     -- :85
    let q := copyArm pplus s x
    q.1.setSE (if usize ≥ 0 then (q.2 : Int) else -(q.2 : Int)) (uexp + (e / 64 : Nat))   -- :96, :124
  else
    let q := shiftArm pplus s x (e % 64)
    let n := q.2.1 + q.2.2                                    -- :121
    q.1.setSE (if usize ≥ 0 then (n : Int) else -(n : Int)) (uexp + (e / 64 : Nat) + q.2.2)   -- :122, :124

/-- mpf_div_2exp (r, u, exp), mpf/div_2exp.c:70-131 -/
def mpf_div_2exp (pplus : Variant) (s : St) (x : Src) (e : Nat) : St :=
  let usize := (s.obj x).size                                 -- div_2exp.c:79
  let uexp := (s.obj x).exp                                   -- :77
  if usize = 0 then s.setSE 0 0                               -- :81-86
  else if e % 64 = 0 then                                     -- :91
    let q := copyArm pplus s x
    q.1.setSE (if usize ≥ 0 then (q.2 : Int) else -(q.2 : Int)) (uexp - (e / 64 : Nat))   -- :102, :130
  else
    let q := shiftArm pplus s x (64 - e % 64)
    let n := q.2.1 + q.2.2                                    -- :127
    q.1.setSE (if usize ≥ 0 then (n : Int) else -(n : Int)) (uexp - (e / 64 : Nat) - 1 + q.2.2)   -- :128, :130

/- ------------------------------------------------------------------ what the harness prints -/

/-- SIZ, EXP and the WHOLE destination block (so that a stray store inside the block is seen too) -/
def St.out (s : St) : Int × Int × List Nat := (s.r.size, s.r.exp, s.r.blk.limbs)

/-- the state of an op line: destination of `prec` with a fresh block of exactly prec + 1 limbs (value 0), operands in blocks
    of exactly their length (at least one limb) -/
def mkObj (prec : Nat) (neg : Bool) (exp : Int) (d : List Nat) (n : Nat) : FObj :=
  ⟨prec, if neg then -(d.length : Int) else d.length, exp, Blk.ofLimbs d n⟩

def mkSt (r u v : FObj) : St := ⟨r, u, v, Blk.new 0, true⟩

end Mpir.AllocSafe7
