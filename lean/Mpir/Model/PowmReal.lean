/-
  C08, limb level: mpn_redc_n and mpn_powm with mpn_mulmod_bnm1 AS IT IS (mulmod_2expm1.c, model
  Mpir/Model/Mulmod2expm1.lean) instead of "some residue".  Core Lean only (linked into the driver).
    mpn/generic/redc_n.c:47-80   mpn_redc_n   redcNR
    mpn/generic/powm.c:158-580   mpn_powm     mpnPowmMemR (= the memory model of Mpir/Model/PowmLimb.lean with this reduction)
-/
import Mpir.Model.PowmLimb
import Mpir.Model.Mulmod2expm1
namespace Mpir.PowmR
open Mpir Mpir.Powm Mpir.PowmL Mpir.Mm1

abbrev P1 := List Nat → List Nat → Nat → Nat → List Nat × Nat

/-- mpn_redc_n (rp, up, mp, n, ip) (redc_n.c:47-80), `rn = mpn_mulmod_bnm1_next_size (n)`; `mthr` =
    MULMOD_2EXPM1_THRESHOLD, `pp1` = mpn_mulmod_2expp1_basecase.  The flag is false if a carry is lost inside
    mpn_mulmod_2expm1, if ASSERT_ALWAYS (2n > rn) fails or if the borrow of MPN_DECR_U leaves `yp[0..2n)`. -/
def redcNR (mthr : Nat) (pp1 : P1) (rn : Nat) (up mp ip : List Nat) : List Nat × Bool :=
  let n := mp.length
  let xp := toLimbs n (val (up.take n) * val ip)        -- :71 mpn_mullow_n (xp, up, ip, n)
  let y := bnm1 mthr pp1 rn xp mp                       -- :73 mpn_mulmod_bnm1 (yp, rn, xp, n, mp, n, scratch)
  let r := redcNCore rn up mp y.1                       -- :75-80
  (r.1, y.2 && r.2)

/-- MPN_REDC_1 / mpn_redc_n as mpn_powm selects them (powm.c:211-222, 136-146) -/
def reduceLR (thr mthr : Nat) (pp1 : P1) (nextSize : Nat → Nat) (mp mip u : List Nat) : List Nat × Bool :=
  if mp.length < thr then (redc_1 u mp (mip.headD 0), true)
  else redcNR mthr pp1 (nextSize mp.length) u mp mip

/-- mpn_powm on memory (the statements of `PowmL.mpnPowmMem`, powm.c:158-580) over an arbitrary reduction -/
def mpnPowmMemG (red : List Nat → List Nat × Bool) (thr : Nat) (binvItch : Nat → Nat) (itch : Nat)
    (bp ep mp : List Nat) : List Nat × Bool :=
  let n := mp.length
  let ebi := sizeinbase2 ep
  let w := win_size ebi
  let tp := zeros itch
  let ok := if n < thr then true else decide (binvItch n ≤ itch)
  let t := powmTable red n w tp ok (val bp) (val mp)
  let s := windowExp (sqrSt red n) (mulSt red n) (tableSt n w t.1 t.2.1 t.2.2) ep ebi w
  powmFinish red mp s

/-- mpn_powm (rp, bp, bn, ep, en, mp, n, tp) on memory with the real mpn_redc_n / mpn_mulmod_bnm1 -/
def mpnPowmMemR (thr mthr : Nat) (pp1 : P1) (nextSize binvItch : Nat → Nat) (itch : Nat) (bp ep mp : List Nat) :
    List Nat × Bool :=
  mpnPowmMemG (reduceLR thr mthr pp1 nextSize mp (mipOf thr mp)) thr binvItch itch bp ep mp

end Mpir.PowmR
