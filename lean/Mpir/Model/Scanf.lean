/-
  Formatted input (property C18).  Core Lean only.
  MODEL  `gmpscan`  = scanf/doscan.c `gmpscan`   (sign, base detection for %i, digits, `/` of a rational,
                      width limit, one character of push-back) for the types Z and Q
         `doscan`   = scanf/doscan.c `__gmp_doscan` (white space, literals, `%%`, `*`, width, type letters,
                      d u i o x X n, hand-off of the standard conversions to the C library)
         `libcScan` = what the C library's sscanf/fscanf does with one standard conversion (only d i u o x X with
                      64-bit targets, s, c; written from C99 7.19.6.2; enough for mixed formats)
         `setStr`   = mpz_set_str on the strings the scanner builds (mpz/set_str.c)
  The input is a list of bytes; `get`/`unget` of sscanffuns.c and fgetc/ungetc are the same thing on a list.
-/
import Mpir.Model.Printf
namespace Mpir.Scanf
open Mpir.Printf

def isSpace (c : Char) : Bool := c = ' ' || c = '\t' || c = '\n' || c = '\x0b' || c = '\x0c' || c = '\r'

/-- value of a digit character, as `__gmp_digit_value_tab` (bases ≤ 36: case-insensitive); 255 = not a digit -/
def digitValue (c : Char) : Nat :=
  if '0' ≤ c ∧ c ≤ '9' then c.toNat - '0'.toNat
  else if 'a' ≤ c ∧ c ≤ 'z' then c.toNat - 'a'.toNat + 10
  else if 'A' ≤ c ∧ c ≤ 'Z' then c.toNat - 'A'.toNat + 10
  else 255

/-- mpz_set_str (mpz/set_str.c:36-140) without the white-space allowances (the scanner stores none). -/
def setStr (s : List Char) (base : Nat) : Option Int :=
  let neg : Bool := s.head? = some '-'
  let s := if neg then s.tail else s
  match s.head? with
  | none => none
  | some c =>
    if digitValue c ≥ (if base = 0 then 10 else base) then none else
    let (base, s) : Nat × List Char :=
      if base = 0 then
        match s with
        | '0' :: 'x' :: t => (16, t)
        | '0' :: 'X' :: t => (16, t)
        | '0' :: 'b' :: t => (2, t)
        | '0' :: 'B' :: t => (2, t)
        | '0' :: t => (8, t)
        | _ => (10, s)
      else (base, s)
    if s.all (fun c => digitValue c < base) then
      let v : Nat := s.foldl (fun a c => a * base + digitValue c) 0
      some (if neg then -(v : Int) else v)
    else none

/-- mpq_set_str (mpq/set_str.c): numerator, optional `/` denominator (1 if absent); base 0 is detected
    separately for each part. -/
def setStrQ (s : List Char) (base : Nat) : Option (Int × Int) :=
  match splitSlash s with
  | none => (setStr s base).map (fun n => (n, 1))
  | some (numSlash, den) =>
    match setStr numSlash.dropLast base, setStr den base with
    | some n, some d => some (n, d)
    | _, _ => none

/-! ## gmpscan -/

structure GS where
  chars : Nat
  c : Option Char          -- current character, `none` = EOF
  rest : List Char         -- input after `c`
  s : List Char := []      -- STORE()d characters
  base : Nat
  seenDigit : Bool := false
  over : Bool := false     -- GET() hit the width: chars = width+1, `c` must not be pushed back
  deriving Repr

/-- GET(c) (doscan.c:186-192) -/
def GS.get (g : GS) (width : Nat) : GS :=
  if g.chars + 1 > width then { g with chars := g.chars + 1, over := true }
  else match g.rest with
    | [] => { g with chars := g.chars + 1, c := none }
    | x :: xs => { g with chars := g.chars + 1, c := some x, rest := xs }

def GS.store (g : GS) (c : Char) : GS := { g with s := g.s ++ [c] }

def isDigitIn (base : Nat) (c : Char) : Bool :=
  if base = 16 then (('0' ≤ c && c ≤ '9') || ('a' ≤ c && c ≤ 'f') || ('A' ≤ c && c ≤ 'F'))
  else ('0' ≤ c && c ≤ '9') && !(base = 8 && (c = '8' || c = '9'))

/-- the `digits:` loop (:268-286) -/
def digitsLoop (width : Nat) : Nat → GS → GS
  | 0, g => g
  | fuel + 1, g =>
    if g.over then g else
    match g.c with
    | some c => if isDigitIn g.base c then digitsLoop width fuel ({ (g.store c) with seenDigit := true }.get width) else g
    | none => g

/-- from label `another:` to the end of the digit loop (:233-286), for types Z and Q -/
def number (width pbase : Nat) (g : GS) : GS :=
  let g := { g with seenDigit := false }
  -- :234-244 sign
  let g := match g.c with
    | some '-' => (g.store '-').get width
    | some '+' => g.get width
    | _ => g
  if g.over then g else
  -- :246-266 base detection
  let g := if g.base = 0 then
      let g := { g with base := 10 }
      if g.c = some '0' then
        let g := ({ (g.store '0') with seenDigit := true, base := 8 }).get width
        if g.over then g else
        if g.c = some 'x' ∨ g.c = some 'X' then
          match g.c with
          | some c => ({ (g.store c) with base := 16, seenDigit := false }).get width
          | none => g
        else g
      else g
    else g
  let _ := pbase
  digitsLoop width (g.rest.length + 2) g

structure ScanParams where
  base : Nat := 0
  ignore : Bool := false
  type : Char := '\x00'
  width : Nat := 0
  deriving Repr

inductive Scanned where
  | z (v : Int) | q (n d : Int) | none
  deriving Repr

/-- result of gmpscan: chars (−1 invalid, −2 EOF), the input left after push-back, the value -/
structure GResult where
  ret : Int
  rest : List Char
  val : Scanned := .none
  deriving Repr

/-- `gmpscan` (doscan.c:211-441) for type 'Z' or 'Q'. -/
def gmpscan (p : ScanParams) (inp : List Char) : GResult :=
  match inp with
  | [] => { ret := -2, rest := [] }                        -- :224-226
  | c0 :: rest0 =>
    let width := if p.width = 0 then 2147483646 else p.width
    let g0 : GS := { chars := 1, c := some c0, rest := rest0, base := p.base }
    let g := number width p.base g0
    -- :314-327 denominator
    let (g, invalid) : GS × Bool :=
      if ¬ g.over ∧ p.type = 'Q' ∧ g.c = some '/' then
        if ¬ g.seenDigit then (g, true)
        else
          let g := ({ (g.store '/') with seenDigit := false, base := p.base }).get width     -- do_second
          if g.over then (g, false) else (number width p.base g, false)
      else (g, false)
    -- :330-336 convert
    let invalid := invalid || !g.seenDigit
    let val : Scanned :=
      if invalid ∨ p.ignore then .none
      else if p.type = 'Q' then (match setStrQ g.s p.base with | some (n, d) => .q n d | none => .none)
      else (match setStr g.s p.base with | some v => .z v | none => .none)
    -- :379-386 done: push the look-ahead back unless the width stopped us
    let rest := if g.chars ≠ width + 1 then (match g.c with | some c => c :: g.rest | none => g.rest) else g.rest
    { ret := if invalid then -1 else (g.chars - 1 : Nat), rest := rest, val := val }

/-! ## the C library's part -/

/-- target of one conversion -/
inductive Out where
  | int (v : Int)            -- a C integer object (the harness uses 64-bit cells)
  | str (s : List Char)
  | z (v : Int)
  | q (n d : Int)
  deriving Repr

def skipWhite : List Char → Nat × List Char
  | [] => (0, [])
  | c :: cs => if isSpace c then let (n, r) := skipWhite cs; (n + 1, r) else (0, c :: cs)

def takeWhileN (p : Char → Bool) : Nat → List Char → List Char × List Char
  | 0, cs => ([], cs)
  | _, [] => ([], [])
  | n + 1, c :: cs => if p c then let (a, b) := takeWhileN p n cs; (c :: a, b) else ([], c :: cs)

/-- One standard conversion handled by sscanf/fscanf: returns (assigned value or none when suppressed,
    characters consumed, input left); `none` = matching failure; input failure is signalled by `eof`. -/
inductive LibcRes where
  | ok (v : Option Out) (chars : Nat) (rest : List Char)
  | fail (rest : List Char)      -- matching failure; `rest` = input left (white space and a sign stay consumed)
  | eof (rest : List Char)       -- input failure
  deriving Repr

def libcScanInt (signed : Bool) (base : Nat) (width : Nat) (inp : List Char) : LibcRes :=
  let (nw, inp1) := skipWhite inp
  match inp1 with
  | [] => .eof []
  | _ =>
    let w := if width = 0 then 1000000 else width
    let (sgn, r, w1) : List Char × List Char × Nat := match inp1 with
      | '-' :: t => (['-'], t, w - 1)
      | '+' :: t => (['+'], t, w - 1)
      | _ => ([], inp1, w)
    -- optional 0x for base 16 / detection for base 0 (strtol rules)
    let (b, pre, r, w2) : Nat × List Char × List Char × Nat :=
      match r with
      | '0' :: x :: t =>
        if (x = 'x' ∨ x = 'X') ∧ (base = 16 ∨ base = 0) ∧ w1 ≥ 2 then (16, ['0', x], t, w1 - 2)
        else if base = 0 then (8, [], r, w1) else (base, [], r, w1)
      | '0' :: _ => if base = 0 then (8, [], r, w1) else (base, [], r, w1)
      | _ => (if base = 0 then 10 else base, [], r, w1)
    let (ds, rest) := takeWhileN (fun c => digitValue c < b) w2 r
    if ds.isEmpty ∧ pre.isEmpty then .fail r
    else
      let m : Nat := ds.foldl (fun a c => a * b + digitValue c) 0
      -- strtol / strtoul: clamp on overflow; an unsigned conversion negates modulo 2^64; the harness prints the
      -- 64-bit object as a signed number
      let v : Int :=
        if signed then
          (if sgn = ['-'] then max (-(m : Int)) (-(2 ^ 63 : Int)) else min (m : Int) (2 ^ 63 - 1))
        else
          wrapSigned 64 (if m ≥ 2 ^ 64 then 2 ^ 64 - 1 else if sgn = ['-'] then -(m : Int) else m)
      .ok (some (.int v)) (nw + sgn.length + pre.length + ds.length) rest

/-! ## __gmp_doscan -/

structure SS where
  inp : List Char
  fields : Int := 0
  chars : Nat := 0
  outs : List Out := []
  deriving Repr

structure SP where
  p : ScanParams := {}
  inNum : Bool := false
  deriving Repr

inductive SMode where
  | text
  | spec (sp : SP)
  deriving Repr

/-- result: fields (EOF = −1), assigned values in order, input left -/
structure ScanResult where
  fields : Int
  outs : List Out
  rest : List Char
  deriving Repr

def finishS (st : SS) : ScanResult := { fields := st.fields, outs := st.outs, rest := st.inp }
/-- `eof_no_match:` (:505-507) -/
def eofS (st : SS) : ScanResult := { fields := if st.fields = 0 then -1 else st.fields, outs := st.outs, rest := st.inp }

/-- the numeric conversions for an MPIR type (:600-617) -/
def doNumeric (sp : SP) (st : SS) : Sum ScanResult SS :=
  let (nw, inp) := skipWhite st.inp
  let st := { st with inp := inp, chars := st.chars + nw }
  let r := gmpscan sp.p st.inp
  if r.ret = -2 then .inl (eofS st)
  else if r.ret = -1 then .inl (finishS { st with inp := r.rest })
  else
    let st := { st with inp := r.rest, chars := st.chars + r.ret.toNat }
    if sp.p.ignore then .inr st
    else match r.val with
      | .z v => .inr { st with fields := st.fields + 1, outs := st.outs ++ [.z v] }
      | .q n d => .inr { st with fields := st.fields + 1, outs := st.outs ++ [.q n d] }
      | .none => .inr { st with fields := st.fields + 1 }

/-- a standard conversion handed to the C library (:533-585 `libc_type`) -/
def doLibc (sp : SP) (conv : Char) (st : SS) : Option (Sum ScanResult SS) :=
  let res : Option LibcRes :=
    if conv = 'd' then some (libcScanInt true 10 sp.p.width st.inp)
    else if conv = 'u' then some (libcScanInt false 10 sp.p.width st.inp)
    else if conv = 'i' then some (libcScanInt true 0 sp.p.width st.inp)
    else if conv = 'o' then some (libcScanInt false 8 sp.p.width st.inp)
    else if conv = 'x' ∨ conv = 'X' then some (libcScanInt false 16 sp.p.width st.inp)
    else if conv = 's' then
      let (nw, inp1) := skipWhite st.inp
      match inp1 with
      | [] => some (.eof [])
      | _ =>
        let (w, rest) := takeWhileN (fun c => !isSpace c) (if sp.p.width = 0 then 1000000 else sp.p.width) inp1
        some (.ok (some (.str w)) (nw + w.length) rest)
    else if conv = 'c' then
      let n := if sp.p.width = 0 then 1 else sp.p.width
      if st.inp.isEmpty then some (.eof [])
      else some (.ok (some (.str (st.inp.take n))) (min n st.inp.length) (st.inp.drop n))
    else none
  match res with
  | none => none
  | some (.eof rest) => some (.inl (eofS { st with inp := rest }))
  | some (.fail rest) => some (.inl (finishS { st with inp := rest }))
  | some (.ok v chars rest) =>
    let st := { st with inp := rest, chars := st.chars + chars }
    if sp.p.ignore then some (.inr st)
    else match v with
      | some o => some (.inr { st with fields := st.fields + 1, outs := st.outs ++ [o] })
      | none => some (.inr st)

def isMpirType (c : Char) : Bool := c = 'F' || c = 'Q' || c = 'Z'

/-- `__gmp_doscan` (doscan.c:466-718), one format character at a time; `none` = outside the modelled subset. -/
def scanRun : List Char → SMode → SS → Option ScanResult
  | [], .text, st => some (finishS st)
  | [], .spec _, _ => none                                    -- unterminated % sequence
  | f :: fs, .text, st =>
    if isSpace f then
      let (nw, inp) := skipWhite st.inp
      scanRun fs .text { st with inp := inp, chars := st.chars + nw }
    else if f = '%' then scanRun fs (.spec {}) st
    else
      -- :494-510 literal
      match st.inp with
      | c :: rest => if c = f then scanRun fs .text { st with inp := rest, chars := st.chars + 1 } else some (finishS st)
      | [] => some (eofS st)
  | f :: fs, .spec sp, st =>
    if sp.inNum ∧ isDigit f then
      scanRun fs (.spec { sp with p := { sp.p with width := sp.p.width * 10 + digitVal f } }) st
    else
    let sp := { sp with inNum := false }
    let numeric (base : Nat) : Option ScanResult :=
      let sp := { sp with p := { sp.p with base := base } }
      if isMpirType sp.p.type then
        if sp.p.type = 'F' then none else
        match doNumeric sp st with
        | .inl r => some r
        | .inr st => scanRun fs .text st
      else
        match doLibc sp f st with
        | some (.inl r) => some r
        | some (.inr st) => scanRun fs .text st
        | none => none
    if f = '%' then
      match st.inp with
      | c :: rest => if c = '%' then scanRun fs .text { st with inp := rest, chars := st.chars + 1 } else some (finishS st)
      | [] => some (eofS st)
    else if f = 'c' ∨ f = 's' then
      (match doLibc sp f st with
       | some (.inl r) => some r
       | some (.inr st) => scanRun fs .text st
       | none => none)
    else if f = 'd' ∨ f = 'u' then numeric 10
    else if f = 'i' then numeric 0
    else if f = 'o' then numeric 8
    else if f = 'x' ∨ f = 'X' then numeric 16
    else if f = 'n' then
      if sp.p.ignore then scanRun fs .text st
      else
        let o : Out := if sp.p.type = 'Z' then .z st.chars else if sp.p.type = 'Q' then .q st.chars 1 else .int st.chars
        scanRun fs .text { st with outs := st.outs ++ [o] }
    else if f = 'F' ∨ f = 'j' ∨ f = 'L' ∨ f = 'q' ∨ f = 'Q' ∨ f = 't' ∨ f = 'z' ∨ f = 'Z' then
      scanRun fs (.spec { sp with p := { sp.p with type := f } }) st
    else if f = 'h' then scanRun fs (.spec { sp with p := { sp.p with type := if sp.p.type ≠ 'h' then 'h' else 'H' } }) st
    else if f = 'l' then scanRun fs (.spec { sp with p := { sp.p with type := if sp.p.type ≠ 'l' then 'l' else 'L' } }) st
    else if isDigit f then
      scanRun fs (.spec { sp with inNum := true, p := { sp.p with width := digitVal f } }) st
    else if f = '*' then scanRun fs (.spec { sp with p := { sp.p with ignore := true } }) st
    else none

def doscan (fmt inp : List Char) : Option ScanResult := scanRun fmt .text { inp := inp }

end Mpir.Scanf
