/-
  C05 (aliasing), pointer level: a small memory model in which an aliasing bug is *expressible*.
  Core Lean only (linked into the driver).

  The value-level models (Mpir/Model/DivZ.lean, Mpz.lean) take variable ids but read "the value before
  the call" wherever the C makes a temporary copy — they cannot show what happens when the copy is
  missing.  Here an `mpz_t` is a header `{alloc, size, ptr}` and the limbs live in numbered blocks:

    * `MPZ_REALLOC (v, n)` (gmp-impl.h:1737, mpz/realloc.c) moves the limbs of `v` to a NEW block and
      frees the old one — a pointer fetched before the realloc is stale, reading it is an error
      (this is what the harness's always-moving, poisoning allocator makes visible on the real library);
    * `TMP_ALLOC` hands out a fresh block filled with `junk`; `TMP_FREE` frees it;
    * `PTR (v)` is a block id, and the C's pointer comparisons (`dp == qp`) compare block ids;
    * an mpn call loads its source operands from the blocks it is given at the moment of the call, refuses
      (error `ub:…`) operand overlaps its contract forbids, and stores its results into the destination blocks;
    * `SIZ (v) = n` is a separate store to the header, in the place where the C has it.

  So "which variable's limbs are read after which variable was written" is exactly what a model function
  spells out, and a variant without the temporary copy / with a pointer fetched too early fails (see the
  negative examples in MpirProofs/Props/C05_div.lean).  mpn callees are replaced by their contract on values
  (`/`, `%`, `+`, `-` on the magnitudes loaded), the limb-level proofs of those are C01–C03.

  A function returns `Except String St`: `.error "div0"` = DIVIDE_BY_ZERO, `.error "ub:…"` = the model
  caught the C doing something undefined (stale read, overlap, write past a block).
-/
import Mpir.Base
import Mpir.Model.DivZ
import Mpir.Model.Bits
import Mpir.Model.Root
namespace Mpir.AliasMem
open Mpir
open Mpir.DivZ (sizeNat siz sameSign)

/-- header of an `mpz_t` -/
structure Var where
  alloc : Nat
  size : Int
  ptr : Nat
  deriving Repr, DecidableEq, Inhabited

/-- variables `0 … nv-1` exist; `blk p = none`: block `p` is not allocated (never was, or freed);
    block ids `≥ next` have never been handed out -/
structure St where
  nv : Nat
  vars : Nat → Var
  blk : Nat → Option (List Nat)
  next : Nat

abbrev R := Except String

/-- content of freshly allocated limbs (the harness's allocator fills new bytes with a pattern too) -/
def junk : Nat := 0xdeadbeefdeadbeef

namespace St

def size (s : St) (v : Nat) : Int := (s.vars v).size       -- SIZ (v)
def alloc (s : St) (v : Nat) : Nat := (s.vars v).alloc     -- ALLOC (v)
def ptr (s : St) (v : Nat) : Nat := (s.vars v).ptr         -- PTR (v)

def setVar (s : St) (v : Nat) (x : Var) : St :=
  { s with vars := fun j => if j = v then x else s.vars j }
def setBlk (s : St) (p : Nat) (b : Option (List Nat)) : St :=
  { s with blk := fun q => if q = p then b else s.blk q }

/-- `SIZ (v) = n` -/
def setSize (s : St) (v : Nat) (n : Int) : St := s.setVar v { s.vars v with size := n }

/-- read `n` limbs at the start of block `p` -/
def load (s : St) (p n : Nat) : R (List Nat) :=
  match s.blk p with
  | none => .error "ub:read of a freed block"
  | some l => if n ≤ l.length then .ok (l.take n) else .error "ub:read past the end of a block"

/-- write the limbs `l` at the start of block `p` -/
def store (s : St) (p : Nat) (l : List Nat) : R St :=
  match s.blk p with
  | none => .error "ub:write to a freed block"
  | some b => if l.length ≤ b.length then .ok (s.setBlk p (some (l ++ b.drop l.length)))
              else .error "ub:write past the end of a block"

/-- a fresh block holding `l` -/
def malloc (s : St) (l : List Nat) : Nat × St :=
  (s.next, { s.setBlk s.next (some l) with next := s.next + 1 })

def free (s : St) (p : Nat) : St := s.setBlk p none

/-- `MPZ_REALLOC (v, n)`: gmp-impl.h:1737 `if (n > ALLOC(v)) _mpz_realloc (v, n)`; realloc.c:36-45: the
    block moves (old limbs copied, the rest junk), the old block is freed, `SIZ` is kept (it is only
    zeroed when the value no longer fits, which cannot happen when growing). -/
def mpzRealloc (s : St) (v n : Nat) : St :=
  if s.alloc v < n then
    let old := (s.blk (s.ptr v)).getD []
    let r := (s.free (s.ptr v)).malloc (old ++ List.replicate (n - old.length) junk)
    r.2.setVar v { alloc := n, size := s.size v, ptr := r.1 }
  else s

/-- `TMP_ALLOC_LIMBS (n)` -/
def tmpAlloc (s : St) (n : Nat) : Nat × St := s.malloc (List.replicate n junk)

/-- `tp = TMP_ALLOC (n limbs); MPN_COPY (tp, p, n)`: returns `tp` -/
def tmpCopy (s : St) (p n : Nat) : R (Nat × St) := do
  let l ← s.load p n
  pure (s.malloc l)

/-- `if (c) { tp = TMP_ALLOC …; MPN_COPY (tp, p, n); p = tp; }` -/
def copyIf (c : Bool) (s : St) (p n : Nat) : R (Nat × St) :=
  if c then s.tmpCopy p n else pure (p, s)

/-- `mpz_t x; MPZ_TMP_INIT (x, n)` (gmp-impl.h:1727): a local variable — the next unused id — whose limbs
    are TMP space.  C leaves `SIZ (x)` uninitialised; the model puts 0 there (no function below reads it
    before writing it). -/
def tmpInit (s : St) (n : Nat) : Nat × St :=
  let r := s.tmpAlloc n
  (s.nv, { r.2.setVar s.nv { alloc := n, size := 0, ptr := r.1 } with nv := s.nv + 1 })

/-- the local variable made by the matching `tmpInit` goes out of scope, `TMP_FREE` releases its limbs -/
def tmpDone (s : St) : St := { s.free (s.ptr (s.nv - 1)) with nv := s.nv - 1 }

/-- the significant limbs of `v`, its magnitude and its value -/
def limbs (s : St) (v : Nat) : List Nat := ((s.blk (s.ptr v)).getD []).take (s.size v).natAbs
def mag (s : St) (v : Nat) : Nat := val (s.limbs v)
def value (s : St) (v : Nat) : Int := if s.size v < 0 then -(s.mag v : Int) else (s.mag v : Int)

/-- store the integer `z` into `v` through `PTR (v)` *as it is now* and set `SIZ (v)`: the tail of every
    function whose mpn callee may work in place (`mpn_add`, `mpn_sub`, `mpn_add_1`, `MPN_COPY` with equal
    pointers …).  Needs `ALLOC (v)` large enough: the caller has done its `MPZ_REALLOC`. -/
def setInt (s : St) (v : Nat) (z : Int) : R St := do
  let s ← s.store (s.ptr v) (toLimbs (sizeNat z.natAbs) z.natAbs)
  pure (s.setSize v (siz z))

end St

/-- `n` limbs with sign taken from a size field -/
def sgnv (sz : Int) (m : Nat) : Int := if sz < 0 then -(m : Int) else (m : Int)

/-! ## the small mpz functions the division wrappers call -/

/-- mpz_set (w, u): set.c:35-45.  The source pointer is fetched after the realloc (:41-42). -/
def mpz_set (w u : Nat) (s : St) : R St := do
  let usize := s.size u                                       -- set.c:35
  let s := s.mpzRealloc w usize.natAbs                        -- :38-39
  let up ← s.load (s.ptr u) usize.natAbs                      -- :41-44 MPN_COPY (wp, up, size)
  let s ← s.store (s.ptr w) up
  pure (s.setSize w usize)                                    -- :45

/-- mpz_add / mpz_sub (w, u, v): aors.h:50-116.  `MPZ_REALLOC (w, max (|usize|, |vsize|) + 1)` (:66-68),
    THEN `up = PTR (u); vp = PTR (v)` (:71-73); mpn_add / mpn_sub / mpn_sub_n accept `wp == up`, `wp == vp`;
    their combined effect on values is `u ± v` (limb-level proof: C03_mpz `mpz_add_exact`). -/
def mpz_aors (sub : Bool) (w u v : Nat) (s : St) : R St := do
  let usize := s.size u                                       -- aors.h:50
  let vsize := if sub then -(s.size v) else s.size v          -- :51
  let s := s.mpzRealloc w (max usize.natAbs vsize.natAbs + 1) -- :55-68
  let up ← s.load (s.ptr u) usize.natAbs                      -- :71
  let vp ← s.load (s.ptr v) vsize.natAbs                      -- :72
  s.setInt w (sgnv usize (val up) + sgnv vsize (val vp))      -- :75-116

def mpz_add := mpz_aors false
def mpz_sub := mpz_aors true

/-- mpz_add_ui / mpz_sub_ui (w, u, c): aors_ui.h:71-112; `MPZ_REALLOC (w, |usize| + 1)` (:75-77) then
    `up = PTR (u)` (:80). -/
def mpz_aors_ui (sub : Bool) (w u : Nat) (c : Nat) (s : St) : R St := do
  let usize := s.size u                                       -- aors_ui.h:71
  let s := s.mpzRealloc w (usize.natAbs + 1)                  -- :75-77
  let up ← s.load (s.ptr u) usize.natAbs                      -- :80
  s.setInt w (if sub then sgnv usize (val up) - c else sgnv usize (val up) + c)

def mpz_add_ui := mpz_aors_ui false
def mpz_sub_ui := mpz_aors_ui true

/-! ## mpn division entry points: contract + overlap rules -/

/-- mpn_tdiv_qr (qp, rp, 0, np, nl, dp, dl): mpn/generic/tdiv_qr.c:43-47 (`dp[dn-1] != 0`, Q must not
    overlap N or D) and the manual ("no overlap is permitted between arguments").  Loads N and D, stores
    `nl-dl+1` quotient limbs and `dl` remainder limbs. -/
def mpn_tdiv_qr (qp rp np nl dp dl : Nat) (s : St) : R St := do
  if qp = np ∨ qp = dp ∨ rp = np ∨ rp = dp ∨ qp = rp then throw "ub:mpn_tdiv_qr operands overlap"
  let n ← s.load np nl
  let d ← s.load dp dl
  if ¬ (1 ≤ dl ∧ dl ≤ nl) then throw "ub:mpn_tdiv_qr sizes"
  if d.getD (dl - 1) 0 = 0 then throw "ub:mpn_tdiv_qr divisor not normalised"
  let s ← s.store qp (toLimbs (nl - dl + 1) (val n / val d))
  s.store rp (toLimbs dl (val n % val d))

/-- mpn_tdiv_q (qp, np, nl, dp, dl): mpn/generic/tdiv_q.c:94-98. -/
def mpn_tdiv_q (qp np nl dp dl : Nat) (s : St) : R St := do
  if qp = np ∨ qp = dp then throw "ub:mpn_tdiv_q operands overlap"
  let n ← s.load np nl
  let d ← s.load dp dl
  if ¬ (1 ≤ dl ∧ dl ≤ nl) then throw "ub:mpn_tdiv_q sizes"
  if d.getD (dl - 1) 0 = 0 then throw "ub:mpn_tdiv_q divisor not normalised"
  s.store qp (toLimbs (nl - dl + 1) (val n / val d))

/-- `qp[i]` -/
def limbAt (s : St) (p i : Nat) : R Nat :=
  match s.blk p with
  | none => .error "ub:read of a freed block"
  | some l => if i < l.length then .ok (l.getD i 0) else .error "ub:read past the end of a block"

/-- `MPN_NORMALIZE (p, n)`: the new n -/
def normSize (s : St) (p n : Nat) : R Nat := do
  let l ← s.load p n
  pure (sizeNat (val l))

/-! ## mpz_tdiv_qr, mpz_tdiv_q, mpz_tdiv_r -/

/-- variants used by the negative examples: the C as it is (`c`), and plausible wrong versions -/
structure Variant where
  copyDen : Bool := true     -- tdiv_qr.c:77-83 / tdiv_q.c:64-70 / tdiv_r.c:70-76
  copyNum : Bool := true     -- tdiv_qr.c:86-92 / tdiv_q.c:72-78 / tdiv_r.c:78-84
  ptrAfterRealloc : Bool := true   -- the operand pointers are fetched after the MPZ_REALLOCs (tdiv_qr.c:65-68)
  quotSizeLast : Bool := true      -- tdiv_qr.c:57-59: `SIZ (quot) = 0` after the copy to rem
  fdivCopy : Bool := true          -- fdiv_qr.c:39-44, fdiv_r.c:38-43, mod.c:38-43: temp_divisor
  divexactTmp : Bool := true       -- divexact.c:68-69: quotient built in TMP space when quot is num or den
  copyBeforeFree : Bool := true    -- divexact.c:79-82: the copy back to quot precedes TMP_FREE
  zeroAfterShift : Bool := true    -- mul_2exp.c:64-66: MPN_ZERO (wp, limb_cnt) after the shift "not to lose for U == W"
  roundBeforeShift : Bool := true  -- cfdiv_q_2exp.c:57-62: the skipped low limbs are inspected before the shift
  reread : Bool := true            -- and.c:58-63, ior.c:52-55, xor.c:52-55 …: pointers re-read after `_mpz_realloc (res, …)`
  deriving Repr

def Variant.c : Variant := {}

/-- tdiv_qr.c:94-100: the mpn call, the two normalisations and the two size stores -/
def tdiv_qr_core (quot rem qp rp np nl dp dl : Nat) (ns ds : Int) (s : St) : R St := do
  let ql := nl - dl + 1
  let s ← mpn_tdiv_qr qp rp np nl dp dl s                     -- :94
  let top ← limbAt s qp (ql - 1)                              -- :96 ql -= qp[ql - 1] == 0
  let ql := ql - (if top = 0 then 1 else 0)
  let dl ← normSize s rp dl                                   -- :97 MPN_NORMALIZE (rp, dl)
  let s := s.setSize quot (if sameSign ns ds then (ql : Int) else -(ql : Int))   -- :99
  pure (s.setSize rem (if ns ≥ 0 then (dl : Int) else -(dl : Int)))             -- :100

/-- tdiv_q.c:81-85 -/
def tdiv_q_core (quot qp np nl dp dl : Nat) (ns ds : Int) (s : St) : R St := do
  let ql := nl - dl + 1
  let s ← mpn_tdiv_q qp np nl dp dl s                         -- :81
  let top ← limbAt s qp (ql - 1)                              -- :83
  let ql := ql - (if top = 0 then 1 else 0)
  pure (s.setSize quot (if sameSign ns ds then (ql : Int) else -(ql : Int)))     -- :85

/-- tdiv_r.c:87-91 -/
def tdiv_r_core (rem qp rp np nl dp dl : Nat) (ns : Int) (s : St) : R St := do
  let s ← mpn_tdiv_qr qp rp np nl dp dl s                     -- :87
  let dl ← normSize s rp dl                                   -- :89
  pure (s.setSize rem (if ns ≥ 0 then (dl : Int) else -(dl : Int)))              -- :91

/-- mpz_tdiv_qr (quot, rem, num, den): mpz/tdiv_qr.c:36-101. -/
def tdiv_qrV (V : Variant) (quot rem num den : Nat) (s : St) : R St := do
  let ns := s.size num                                        -- tdiv_qr.c:36
  let ds := s.size den                                        -- :37
  let nl := ns.natAbs
  let dl := ds.natAbs
  let ql : Int := (nl : Int) - (dl : Int) + 1                 -- :40
  if dl = 0 then throw "div0"                                 -- :42-43
  let early := (s.ptr num, s.ptr den)                         -- (wrong variant only: pointers fetched here)
  let s := s.mpzRealloc rem dl                                -- :45
  if ql ≤ 0 then                                              -- :47
    let s := if V.quotSizeLast then s else s.setSize quot 0
    let s ← (if num ≠ rem then do                             -- :49
        let np ← s.load (s.ptr num) nl                        -- :52-54 MPN_COPY (rp, np, nl)
        let s ← s.store (s.ptr rem) np
        pure (s.setSize rem (s.size num))                     -- :55 SIZ (rem) = SIZ (num)
      else pure s)
    pure (if V.quotSizeLast then s.setSize quot 0 else s)     -- :59
  else
    let ql := ql.toNat
    let s := s.mpzRealloc quot ql                             -- :63
    let qp := s.ptr quot                                      -- :65-68
    let rp := s.ptr rem
    let np := if V.ptrAfterRealloc then s.ptr num else early.1
    let dp := if V.ptrAfterRealloc then s.ptr den else early.2
    -- :77-83 copy the denominator if it overlaps the quotient or remainder
    let c1 : Bool := V.copyDen ∧ (dp = rp ∨ dp = qp)
    let (dp, s) ← s.copyIf c1 dp dl
    let t1 := if c1 then [dp] else []
    -- :86-92 the same for the numerator
    let c2 : Bool := V.copyNum ∧ (np = rp ∨ np = qp)
    let (np, s) ← s.copyIf c2 np nl
    let t2 := if c2 then [np] else []
    let s ← tdiv_qr_core quot rem qp rp np nl dp dl ns ds s   -- :94-100
    pure ((t1 ++ t2).foldl St.free s)                         -- :101 TMP_FREE

def tdiv_qr := tdiv_qrV .c

/-- mpz_tdiv_q (quot, num, den): mpz/tdiv_q.c:36-86. -/
def tdiv_qV (V : Variant) (quot num den : Nat) (s : St) : R St := do
  let ns := s.size num                                        -- tdiv_q.c:36
  let ds := s.size den
  let nl := ns.natAbs
  let dl := ds.natAbs
  let ql : Int := (nl : Int) - (dl : Int) + 1
  if dl = 0 then throw "div0"                                 -- :42-43
  if ql ≤ 0 then pure (s.setSize quot 0)                      -- :45-49
  else
    let ql := ql.toNat
    let early := (s.ptr num, s.ptr den)
    let s := s.mpzRealloc quot ql                             -- :51
    let qp := s.ptr quot                                      -- :54-56
    let np := if V.ptrAfterRealloc then s.ptr num else early.1
    let dp := if V.ptrAfterRealloc then s.ptr den else early.2
    let c1 : Bool := V.copyDen ∧ (dp = qp)                 -- :64-70
    let (dp, s) ← s.copyIf c1 dp dl
    let t1 := if c1 then [dp] else []
    let c2 : Bool := V.copyNum ∧ (np = qp)                 -- :72-78
    let (np, s) ← s.copyIf c2 np nl
    let t2 := if c2 then [np] else []
    let s ← tdiv_q_core quot qp np nl dp dl ns ds s           -- :81-85
    pure ((t1 ++ t2).foldl St.free s)                         -- :86

def tdiv_q := tdiv_qV .c

/-- mpz_tdiv_r (rem, num, den): mpz/tdiv_r.c:36-92.  The quotient goes to TMP space (:63). -/
def tdiv_rV (V : Variant) (rem num den : Nat) (s : St) : R St := do
  let ns := s.size num                                        -- tdiv_r.c:36
  let ds := s.size den
  let nl := ns.natAbs
  let dl := ds.natAbs
  let ql : Int := (nl : Int) - (dl : Int) + 1
  if dl = 0 then throw "div0"                                 -- :42-43
  let early := (s.ptr num, s.ptr den)
  let s := s.mpzRealloc rem dl                                -- :45
  if ql ≤ 0 then                                              -- :47
    if num ≠ rem then do                                      -- :49
      let np ← s.load (s.ptr num) nl                          -- :52-54
      let s ← s.store (s.ptr rem) np
      pure (s.setSize rem (s.size num))                       -- :55
    else pure s
  else
    let ql := ql.toNat
    let r := s.tmpAlloc ql                                    -- :63
    let qp := r.1
    let s := r.2
    let rp := s.ptr rem                                       -- :64-66
    let np := if V.ptrAfterRealloc then s.ptr num else early.1
    let dp := if V.ptrAfterRealloc then s.ptr den else early.2
    let c1 : Bool := V.copyDen ∧ (dp = rp)                 -- :70-76
    let (dp, s) ← s.copyIf c1 dp dl
    let t1 := if c1 then [dp] else []
    let c2 : Bool := V.copyNum ∧ (np = rp)                 -- :78-84
    let (np, s) ← s.copyIf c2 np nl
    let t2 := if c2 then [np] else []
    let s ← tdiv_r_core rem qp rp np nl dp dl ns s            -- :87-91
    pure ((qp :: t1 ++ t2).foldl St.free s)                   -- :92

def tdiv_r := tdiv_rV .c

/-! ## floor / ceiling wrappers, mpz_mod -/

/-- fdiv_qr.c:39-44 (also fdiv_r.c:38-43, mod.c:38-43 and the cdiv files):
    `if (…) { MPZ_TMP_INIT (temp_divisor, ABS (divisor_size)); mpz_set (temp_divisor, divisor); divisor = temp_divisor; }`
    — returns the variable to use as divisor from here on -/
def tempDivisor (copied : Bool) (divisor : Nat) (s : St) : R (Nat × St) :=
  if copied then do
    let r := s.tmpInit (s.size divisor).natAbs
    let s ← mpz_set r.1 divisor r.2
    pure (r.1, s)
  else pure (divisor, s)

/-- mpz_fdiv_qr / mpz_cdiv_qr: fdiv_qr.c:29-57, cdiv_qr.c:29-57 (`ceil`: the test is `xsize >= 0`, the
    adjustment `add_ui` / `sub`). -/
def cfdiv_qrV (V : Variant) (ceil : Bool) (quot rem dividend divisor : Nat) (s : St) : R St := do
  let divisor_size := s.size divisor                          -- fdiv_qr.c:29
  -- :39-44 temp_divisor
  let copied : Bool := V.fdivCopy ∧ (quot = divisor ∨ rem = divisor)
  let (dv, s) ← tempDivisor copied divisor s                  -- :41-43
  let same : Bool := sameSign (s.size dividend) divisor_size  -- :46 xsize = dividend->_mp_size ^ divisor_size
  let s ← tdiv_qrV V quot rem dividend dv s                   -- :47
  let s ← (if (if ceil then same else !same) ∧ s.size rem ≠ 0 then do   -- :49
      let s ← mpz_aors_ui (!ceil) quot quot 1 s               -- :51 mpz_sub_ui (quot, quot, 1) / mpz_add_ui
      mpz_aors ceil rem rem dv s                              -- :52 mpz_add (rem, rem, divisor) / mpz_sub
    else pure s)
  pure (if copied then s.tmpDone else s)                      -- :55 TMP_FREE

def fdiv_qr := cfdiv_qrV .c false
def cdiv_qr := cfdiv_qrV .c true

/-- mpz_fdiv_q / mpz_cdiv_q: fdiv_q.c:29-46, cdiv_q.c. -/
def cfdiv_qV (V : Variant) (ceil : Bool) (quot dividend divisor : Nat) (s : St) : R St := do
  let dividend_size := s.size dividend                        -- fdiv_q.c:29
  let divisor_size := s.size divisor                          -- :30
  let r := s.tmpInit divisor_size.natAbs                      -- :36 MPZ_TMP_INIT (rem, ABS (divisor_size))
  let rem := r.1
  let s ← tdiv_qrV V quot rem dividend divisor r.2            -- :38
  let same : Bool := sameSign divisor_size dividend_size
  let s ← (if (if ceil then same else !same) ∧ s.size rem ≠ 0 then     -- :40
      mpz_aors_ui (!ceil) quot quot 1 s                       -- :41
    else pure s)
  pure s.tmpDone                                              -- :43

def fdiv_q := cfdiv_qV .c false
def cdiv_q := cfdiv_qV .c true

/-- mpz_fdiv_r / mpz_cdiv_r: fdiv_r.c:29-50, cdiv_r.c.  `dividend->_mp_size` is read after the division
    (:47): when rem is the dividend variable it is the size of the preliminary remainder. -/
def cfdiv_rV (V : Variant) (ceil : Bool) (rem dividend divisor : Nat) (s : St) : R St := do
  let divisor_size := s.size divisor                          -- fdiv_r.c:29
  let copied : Bool := V.fdivCopy ∧ rem = divisor             -- :38
  let (dv, s) ← tempDivisor copied divisor s                  -- :40-42
  let s ← tdiv_rV V rem dividend dv s                         -- :45
  let same : Bool := sameSign divisor_size (s.size dividend)  -- :47
  let s ← (if (if ceil then same else !same) ∧ s.size rem ≠ 0 then
      mpz_aors ceil rem rem dv s                              -- :48
    else pure s)
  pure (if copied then s.tmpDone else s)                      -- :50

def fdiv_r := cfdiv_rV .c false
def cdiv_r := cfdiv_rV .c true

/-- mpz_mod (rem, dividend, divisor): mod.c:29-62. -/
def modV (V : Variant) (rem dividend divisor : Nat) (s : St) : R St := do
  -- mod.c:29 divisor_size = divisor->_mp_size (used by MPZ_TMP_INIT only: inside `tempDivisor`)
  let copied : Bool := V.fdivCopy ∧ rem = divisor             -- :38
  let (dv, s) ← tempDivisor copied divisor s                  -- :40-42
  let s ← tdiv_rV V rem dividend dv s                         -- :45
  let s ← (if s.size rem ≠ 0 then                             -- :47
      if s.size dividend < 0 then                             -- :49
        if s.size dv < 0 then mpz_aors true rem rem dv s      -- :51-52
        else mpz_aors false rem rem dv s                      -- :54
      else pure s
    else pure s)
  pure (if copied then s.tmpDone else s)                      -- :60

def mod := modV .c

/-! ## mpz_divexact -/

/-- mpn_divexact (qp, np, nn, dp, dn): mpn/generic/divexact.c:1-3 "Overlap allowed between Q and N; all other
    overlap disallowed", :50-52 `dn > 0`, `nn >= dn`, `dp[dn-1] > 0`.  The quotient is specified only when D divides
    N; the model stores `N / D`. -/
def mpn_divexact (qp np nn dp dn : Nat) (s : St) : R St := do
  if qp = dp then throw "ub:mpn_divexact operands overlap"
  let n ← s.load np nn
  let d ← s.load dp dn
  if ¬ (1 ≤ dn ∧ dn ≤ nn) then throw "ub:mpn_divexact sizes"
  if d.getD (dn - 1) 0 = 0 then throw "ub:mpn_divexact divisor not normalised"
  s.store qp (toLimbs (nn - dn + 1) (val n / val d))

/-- mpz_divexact (quot, num, den): mpz/divexact.c:49-82 (the WANT_ASSERT block :38-46 is compiled out).
    There is no test for den = 0 in the C (mpn_divexact ASSERTs dn > 0): the model reports it as `ub`. -/
def divexactV (V : Variant) (quot num den : Nat) (s : St) : R St := do
  let nn := (s.size num).natAbs                               -- divexact.c:49
  let dn := (s.size den).natAbs                               -- :50
  let qn : Int := (nn : Int) - (dn : Int) + 1                 -- :52
  let s := s.mpzRealloc quot qn.toNat                         -- :53
  if nn < dn then pure (s.setSize quot 0)                     -- :55-62
  else
    if dn = 0 then throw "ub:mpz_divexact by zero"
    let qn := qn.toNat
    let c : Bool := V.divexactTmp ∧ (quot = num ∨ quot = den) -- :68
    let r := s.tmpAlloc qn                                    -- :69 qp = TMP_ALLOC_LIMBS (qn)
    let qp := if c then r.1 else s.ptr quot                   -- :66, :69
    let s := if c then r.2 else s
    let np := s.ptr num                                       -- :71
    let dp := s.ptr den                                       -- :72
    let s ← mpn_divexact qp np nn dp dn s                     -- :74
    let qn ← normSize s qp qn                                 -- :75 MPN_NORMALIZE (qp, qn)
    let s := s.setSize quot (if sameSign (s.size num) (s.size den) then (qn : Int) else -(qn : Int))   -- :77
    let s := if c ∧ !V.copyBeforeFree then s.free qp else s   -- (wrong variant: TMP_FREE first)
    let s ← (if qp ≠ s.ptr quot then do                       -- :79
        let l ← s.load qp qn                                  -- :80 MPN_COPY (PTR(quot), qp, qn)
        s.store (s.ptr quot) l
      else pure s)
    pure (if c ∧ V.copyBeforeFree then s.free qp else s)      -- :82 TMP_FREE

def divexact := divexactV .c

/-! ## shifts by whole limbs + bits: mpz_mul_2exp, mpz_tdiv_q_2exp, mpz_cdiv_q_2exp / mpz_fdiv_q_2exp -/

/-- `b` with `l` written at offset `off` -/
def wrAt (b : List Nat) (off : Nat) (l : List Nat) : List Nat := b.take off ++ l ++ b.drop (off + l.length)

/-- read `n` limbs at `p + off` -/
def St.loadAt (s : St) (p off n : Nat) : R (List Nat) :=
  match s.blk p with
  | none => .error "ub:read of a freed block"
  | some l => if off + n ≤ l.length then .ok ((l.drop off).take n) else .error "ub:read past the end of a block"

/-- write `l` at `p + off` -/
def St.storeAt (s : St) (p off : Nat) (l : List Nat) : R St :=
  match s.blk p with
  | none => .error "ub:write to a freed block"
  | some b => if off + l.length ≤ b.length then .ok (s.setBlk p (some (wrAt b off l)))
              else .error "ub:write past the end of a block"

/-- mpn_lshift (rp+roff, up+uoff, n, cnt): mpn/generic/lshift.c ASSERTs `n >= 1`, `1 <= cnt < GMP_NUMB_BITS`,
    `MPN_SAME_OR_DECR_P (rp, up, n)` (destination at or above the source, or disjoint).  Returns the bits shifted out. -/
def mpn_lshift (rp roff up uoff n cnt : Nat) (s : St) : R (Nat × St) := do
  if ¬ (1 ≤ n ∧ 1 ≤ cnt ∧ cnt < 64) then throw "ub:mpn_lshift arguments"
  if rp = up ∧ roff < uoff ∧ uoff < roff + n then throw "ub:mpn_lshift overlap"
  let u ← s.loadAt up uoff n
  let v := val u * 2 ^ cnt
  let s ← s.storeAt rp roff (toLimbs n v)
  pure (v / B ^ n, s)

/-- mpn_rshift (rp+roff, up+uoff, n, cnt): `MPN_SAME_OR_INCR_P` (destination at or below the source, or disjoint).
    Returns the bits shifted out, in the high end of a limb. -/
def mpn_rshift (rp roff up uoff n cnt : Nat) (s : St) : R (Nat × St) := do
  if ¬ (1 ≤ n ∧ 1 ≤ cnt ∧ cnt < 64) then throw "ub:mpn_rshift arguments"
  if rp = up ∧ uoff < roff ∧ roff < uoff + n then throw "ub:mpn_rshift overlap"
  let u ← s.loadAt up uoff n
  let s ← s.storeAt rp roff (toLimbs n (val u / 2 ^ cnt))
  pure (val u % 2 ^ cnt * 2 ^ (64 - cnt), s)

/-- MPN_COPY_INCR (overlap rule of rshift) / MPN_COPY_DECR (overlap rule of lshift); n = 0 allowed -/
def mpn_copy (incr : Bool) (rp roff up uoff n : Nat) (s : St) : R St := do
  if incr ∧ rp = up ∧ uoff < roff ∧ roff < uoff + n then throw "ub:MPN_COPY_INCR overlap"
  if !incr ∧ rp = up ∧ roff < uoff ∧ uoff < roff + n then throw "ub:MPN_COPY_DECR overlap"
  let u ← s.loadAt up uoff n
  s.storeAt rp roff u

/-- mpz_mul_2exp (w, u, cnt): mpz/mul_2exp.c:28-69 -/
def mul_2expV (V : Variant) (w u cnt : Nat) (s : St) : R St := do
  let usize := s.size u                                       -- mul_2exp.c:28
  let abs_usize := usize.natAbs                               -- :29
  if usize = 0 then pure (s.setSize w 0)                      -- :35-39
  else
    let limb_cnt := cnt / 64                                  -- :41
    let s := s.mpzRealloc w (abs_usize + limb_cnt + 1)        -- :42-44
    let wp := s.ptr w                                         -- :46
    let s ← (if V.zeroAfterShift then pure s else s.storeAt wp 0 (List.replicate limb_cnt 0))   -- (wrong variant)
    let c := cnt % 64                                         -- :49
    let (wsize, s) ← (if c ≠ 0 then do                        -- :50
        let r ← mpn_lshift wp limb_cnt (s.ptr u) 0 abs_usize c s          -- :52 (u->_mp_d fetched here)
        if r.1 ≠ 0 then do                                    -- :53
          let s ← r.2.storeAt wp (abs_usize + limb_cnt) [r.1] -- :55
          pure (abs_usize + limb_cnt + 1, s)                  -- :56
        else pure (abs_usize + limb_cnt, r.2)
      else do
        let s ← mpn_copy false wp limb_cnt (s.ptr u) 0 abs_usize s        -- :61 MPN_COPY_DECR
        pure (abs_usize + limb_cnt, s))
    let s ← (if V.zeroAfterShift then s.storeAt wp 0 (List.replicate limb_cnt 0) else pure s)   -- :66 MPN_ZERO
    pure (s.setSize w (if usize ≥ 0 then (wsize : Int) else -(wsize : Int)))                     -- :68

def mul_2exp := mul_2expV .c

/-- mpz_tdiv_q_2exp (w, u, cnt): mpz/tdiv_q_2exp.c:32-62 -/
def tdiv_q_2exp (w u cnt : Nat) (s : St) : R St := do
  let usize := s.size u                                       -- tdiv_q_2exp.c:32
  let limb_cnt := cnt / 64                                    -- :33
  let wsize : Int := (usize.natAbs : Int) - (limb_cnt : Int)  -- :34
  if wsize ≤ 0 then pure (s.setSize w 0)                      -- :35-36
  else
    let wsize := wsize.toNat
    let s := s.mpzRealloc w wsize                             -- :42-43
    let wp := s.ptr w                                         -- :45
    let up := s.ptr u                                         -- :46
    let c := cnt % 64                                         -- :48
    if c ≠ 0 then do                                          -- :49
      let r ← mpn_rshift wp 0 up limb_cnt wsize c s           -- :51
      let top ← limbAt r.2 wp (wsize - 1)                     -- :52
      let wsize := wsize - (if top = 0 then 1 else 0)
      pure (r.2.setSize w (if usize ≥ 0 then (wsize : Int) else -(wsize : Int)))   -- :59
    else do
      let s ← mpn_copy true wp 0 up limb_cnt wsize s          -- :56 MPN_COPY_INCR
      pure (s.setSize w (if usize ≥ 0 then (wsize : Int) else -(wsize : Int)))     -- :59

/-- tdiv_r_2exp.c:70-72: `if (res != in) MPN_COPY (res->_mp_d, in->_mp_d, limb_cnt); res->_mp_size = in->_mp_size >= 0 ? res_size : -res_size` -/
def tdivR2expTail (res inp res_size limb_cnt : Nat) (s : St) : R St := do
  let s ← (if res ≠ inp then do
      let l ← s.loadAt (s.ptr inp) 0 limb_cnt
      s.storeAt (s.ptr res) 0 l
    else pure s)
  pure (s.setSize res (if s.size inp ≥ 0 then (res_size : Int) else -(res_size : Int)))

/-- mpz_tdiv_r_2exp (res, in, cnt): mpz/tdiv_r_2exp.c:29-78.  `in_ptr = in->_mp_d` is fetched at the top (:32) and used
    only before the reallocation of res; the final copy re-reads `in->_mp_d` (:71).  With `res = in` nothing is copied:
    the masked high limb is stored in place (:46). -/
def tdiv_r_2exp (res inp cnt : Nat) (s : St) : R St := do
  let in_size := (s.size inp).natAbs                          -- tdiv_r_2exp.c:29
  let limb_cnt := cnt / 64                                    -- :31
  let in_ptr := s.ptr inp                                     -- :32
  let (res_size, limb_cnt, s) ← (if in_size > limb_cnt then do                 -- :34
      let xl ← limbAt s in_ptr limb_cnt                       -- :39
      let x := xl % 2 ^ (cnt % 64)
      if x ≠ 0 then do                                        -- :40
        let s := s.mpzRealloc res (limb_cnt + 1)              -- :42-44
        let s ← s.storeAt (s.ptr res) limb_cnt [x]            -- :46
        pure (limb_cnt + 1, limb_cnt, s)
      else do
        let lo ← s.loadAt in_ptr 0 limb_cnt                   -- :51 MPN_NORMALIZE (in_ptr, res_size)
        let res_size := sizeNat (val lo)
        let s := s.mpzRealloc res res_size                    -- :53-54
        pure (res_size, res_size, s)                          -- :56
    else do
      let s := s.mpzRealloc res in_size                       -- :63-65
      pure (in_size, in_size, s))                             -- :67
  tdivR2expTail res inp res_size limb_cnt s                   -- :70-72

/-- cfdiv_r_2exp.c:124-144: `high = wp[limb_cnt] & LOW_MASK (cnt); wp[limb_cnt] = high;`, strip the high zero limbs,
    `SIZ (w) = ±limb_cnt`.  `wp` is the pointer fetched earlier by the caller. -/
def cfdivRMask (w wp lc c : Nat) (neg : Bool) (s : St) : R St := do
  let l ← s.load wp (lc + 1)
  let s ← s.storeAt wp lc [l.getD lc 0 % 2 ^ c]               -- :125-127
  let v := val l % (B ^ lc * 2 ^ c)
  pure (s.setSize w (if neg then -(sizeNat v : Int) else (sizeNat v : Int)))   -- :130-143

/-- cfdiv_r_2exp.c:109-123, the `negate:` path: `MPZ_REALLOC (w, limb_cnt+1); up = PTR(u); wp = PTR(w);` (re-fetched: w may
    be u here), one's complement of the low limbs of u filled up with ones, + 1, `usize = -usize`. -/
def cfdivRNegate (w u n lc c : Nat) (neg : Bool) (s : St) : R St := do
  let s := s.mpzRealloc w (lc + 1)                            -- :109
  let up := s.ptr u                                           -- :110
  let wp := s.ptr w                                           -- :111
  let l ← s.loadAt up 0 (min n (lc + 1))                      -- :114-117
  let s ← s.storeAt wp 0 (toLimbs (lc + 1) (B ^ (lc + 1) - val l))   -- :121
  cfdivRMask w wp lc c neg s                                  -- :123-144

/-- cfdiv_r_2exp.c:90-100: must the result be negated?  (|u| < 2^cnt, or a skipped low limb is non-zero, or the partial
    limb has a low bit set) — read through the early `up`, before any reallocation -/
def cfdivRNeedNeg (up n lc c : Nat) (s : St) : R Bool :=
  if n ≤ lc then pure true else do                            -- :90-91
    let lo ← s.loadAt up 0 lc                                 -- :94-96
    if val lo ≠ 0 then pure true else do
      let x ← limbAt s up lc                                  -- :99
      pure (decide (x % 2 ^ c ≠ 0))

/-- cfdiv_r_2exp (w, u, cnt, dir) of mpz/cfdiv_r_2exp.c:36-145 (`dir = 1`: mpz_cdiv_r_2exp, `dir = -1`: mpz_fdiv_r_2exp).
    `up = PTR (u)` is fetched early (:57) "MPZ_REALLOC(w) below is only when w!=u": true on the truncating side (:59-84), and
    the `negate:` side re-fetches it after its realloc. -/
def cfdiv_r_2exp (w u cnt : Nat) (dir : Int) (s : St) : R St := do
  let usize := s.size u                                       -- cfdiv_r_2exp.c:43
  if usize = 0 then pure (s.setSize w 0)                      -- :44-48
  else
    let lc := cnt / 64                                        -- :50
    let c := cnt % 64                                         -- :51
    let n := usize.natAbs                                     -- :52
    let up := s.ptr u                                         -- :57
    if ¬ sameSign usize dir then                              -- :59 round towards zero: truncate
      if w = u then                                           -- :63
        if n ≤ lc then pure s                                 -- :66-67
        else cfdivRMask w (s.ptr w) lc c (decide (usize < 0)) s       -- :68, :124-144
      else do
        let i := min n (lc + 1)                               -- :72
        let s := s.mpzRealloc w i                             -- :73
        let wp := s.ptr w                                     -- :74
        let l ← s.loadAt up 0 i                               -- :75 MPN_COPY (wp, up, i)
        let s ← s.storeAt wp 0 l
        if n ≤ lc then pure (s.setSize w usize)               -- :78-82
        else cfdivRMask w wp lc c (decide (usize < 0)) s
    else do                                                   -- :85 round away from zero
      let needNeg ← cfdivRNeedNeg up n lc c s                 -- :90-100
      if !needNeg then pure (s.setSize w 0)                   -- :103-104
      else cfdivRNegate w u n lc c (decide (usize ≥ 0)) s     -- :106-123

def cdiv_r_2exp (w u cnt : Nat) := cfdiv_r_2exp w u cnt 1
def fdiv_r_2exp (w u cnt : Nat) := cfdiv_r_2exp w u cnt (-1)

/-- cfdiv_q_2exp (w, u, cnt, dir) of mpz/cfdiv_q_2exp.c:33-91 (`dir = 1`: mpz_cdiv_q_2exp, `dir = -1`: mpz_fdiv_q_2exp).
    With `w = u` the shift overwrites the low limbs of u: the C looks at the limbs it is going to skip BEFORE the
    shift (:57-62). -/
def cfdiv_q_2expV (V : Variant) (w u cnt : Nat) (dir : Int) (s : St) : R St := do
  let usize := s.size u                                       -- cfdiv_q_2exp.c:40
  let abs_usize := usize.natAbs                               -- :41
  let limb_cnt := cnt / 64                                    -- :42
  let wsize : Int := (abs_usize : Int) - (limb_cnt : Int)     -- :43
  if wsize ≤ 0 then do                                        -- :44
    let s ← s.storeAt (s.ptr w) 0 [1]                         -- :47 PTR(w)[0] = 1  (no realloc: relies on ALLOC ≥ 1)
    pure (s.setSize w (if usize = 0 ∨ ¬ sameSign usize dir then 0 else dir))    -- :48
  else
    let wsize := wsize.toNat
    let s := s.mpzRealloc w (wsize + 1)                       -- :53
    let up := s.ptr u                                         -- :57
    let rmask : Bool := sameSign usize dir                    -- :59
    let lowNonzero (s : St) : R Bool := do                    -- :60-62 for (i = 0; i < limb_cnt && round == 0; i++) round = up[i]
      let lo ← s.loadAt up 0 limb_cnt
      pure (decide (val lo ≠ 0))
    let round0 ← (if rmask ∧ V.roundBeforeShift then lowNonzero s else pure false)
    let wp := s.ptr w                                         -- :64
    let c := cnt % 64                                         -- :65
    let (round1, wsize, s) ← (if c ≠ 0 then do                -- :66
        let r ← mpn_rshift wp 0 up limb_cnt wsize c s         -- :68
        let top ← limbAt r.2 wp (wsize - 1)                   -- :69
        pure (rmask && decide (r.1 ≠ 0), wsize - (if top = 0 then 1 else 0), r.2)
      else do
        let s ← mpn_copy true wp 0 up limb_cnt wsize s        -- :72
        pure (false, wsize, s))
    let round0 ← (if rmask ∧ !V.roundBeforeShift then lowNonzero s else pure round0)   -- (wrong variant: after the shift)
    let (wsize, s) ← (if round0 || round1 then                -- :74
        if wsize ≠ 0 then do                                  -- :76
          let l ← s.load wp wsize                             -- :79 cy = mpn_add_1 (wp, wp, wsize, 1)
          let v := val l + 1
          let s ← s.storeAt wp 0 (toLimbs (wsize + 1) v)      -- :80 wp[wsize] = cy
          pure (wsize + v / B ^ wsize, s)                     -- :81
        else do
          let s ← s.storeAt wp 0 [1]                          -- :86
          pure (1, s)                                         -- :87
      else pure (wsize, s))
    pure (s.setSize w (if usize ≥ 0 then (wsize : Int) else -(wsize : Int)))    -- :90

def cdiv_q_2exp (w u cnt : Nat) := cfdiv_q_2expV .c w u cnt 1
def fdiv_q_2exp (w u cnt : Nat) := cfdiv_q_2expV .c w u cnt (-1)

/-! ## mpz_{t,f,c}div_q_ui: the quotient may be formed in place -/

/-- mpn_divrem_1 (qp, 0, np, nn, d): mpn/generic/divrem_1.c ASSERTs `nn >= 0`, `d != 0`, `MPN_SAME_OR_SEPARATE_P (qp, np, nn)`:
    `qp == np` is allowed.  Stores nn quotient limbs, returns the remainder. -/
def mpn_divrem_1 (qp np nn d : Nat) (s : St) : R (Nat × St) := do
  if ¬ (1 ≤ d ∧ d < B) then throw "ub:mpn_divrem_1 divisor"
  let n ← s.load np nn
  let s ← s.store qp (toLimbs nn (val n / d))
  pure (val n % d, s)

/-- mpz_tdiv_q_ui (`dir = 0`, tdiv_q_ui.c:34-77), mpz_fdiv_q_ui (`dir = -1`, fdiv_q_ui.c:34-92), mpz_cdiv_q_ui (`dir = 1`,
    cdiv_q_ui.c); BITS_PER_UI == GMP_NUMB_BITS: the two-limb divisor code is compiled out.  Returns (return value, state). -/
def div_q_ui (dir : Int) (quot dividend divisor : Nat) (s : St) : R (Nat × St) := do
  if divisor = 0 then throw "div0"                            -- tdiv_q_ui.c:34-35
  let ns := s.size dividend                                   -- :37
  if ns = 0 then pure (0, s.setSize quot 0)                   -- :38-42
  else
    let nn := ns.natAbs                                       -- :44
    let s := s.mpzRealloc quot nn                             -- :45
    let qp := s.ptr quot                                      -- :46
    let np := s.ptr dividend                                  -- :47
    let r ← mpn_divrem_1 qp np nn divisor s                   -- :70
    let adj : Bool := r.1 ≠ 0 ∧ ((dir = -1 ∧ ns < 0) ∨ (dir = 1 ∧ ns ≥ 0))   -- fdiv_q_ui.c:82 / cdiv_q_ui.c:83
    let (rl, s) ← (if adj then do
        let l ← r.2.load qp nn                                -- fdiv_q_ui.c:84 mpn_incr_u (qp, 1)
        if val l + 1 ≥ B ^ nn then throw "ub:mpn_incr_u runs off the quotient"
        let s ← r.2.store qp (toLimbs nn (val l + 1))
        pure (divisor - r.1, s)                               -- :85
      else pure (r.1, r.2))
    let top ← limbAt s qp (nn - 1)                            -- tdiv_q_ui.c:71 qn = nn - (qp[nn - 1] == 0)
    let qn := nn - (if top = 0 then 1 else 0)
    pure (rl, s.setSize quot (if ns ≥ 0 then (qn : Int) else -(qn : Int)))    -- :74

/-- mpz_divexact_ui (dst, src, divisor): dive_ui.c:32-60.  The pointer plumbing is that of mpz_tdiv_q_ui statement for
    statement (`SIZ (src) == 0` exit :47-52, `MPZ_REALLOC (dst, abs_size)` :55, `dst_ptr = PTR (dst)` :56 then `PTR (src)`,
    MPN_DIVREM_OR_DIVEXACT_1 with dst == src allowed :58, size from the top limb :59-60); no value is returned.  Inside the
    documented domain (divisor ∣ src) mpn_divexact_1 and mpn_divrem_1 store the same quotient. -/
def divexact_ui (dst src divisor : Nat) (s : St) : R St := do
  let r ← div_q_ui 0 dst src divisor s
  pure r.2

/-- mpz_tdiv_r_ui / mpz_fdiv_r_ui (= mpz_mod_ui with a destination) / mpz_cdiv_r_ui (`dir` = 0 / -1 / 1): tdiv_r_ui.c:34-88,
    fdiv_r_ui.c:34-98, cdiv_r_ui.c.  `PTR (rem)[0] = rl` is stored without a realloc ("no function ever makes zero
    space", tdiv_r_ui.c:82-83): relies on ALLOC ≥ 1.  rem = dividend allowed: mpn_mod_1 has read the operand before. -/
def div_r_ui (dir : Int) (rem dividend divisor : Nat) (s : St) : R (Nat × St) := do
  if divisor = 0 then throw "div0"                            -- tdiv_r_ui.c:34-35
  let ns := s.size dividend                                   -- :37
  if ns = 0 then pure (0, s.setSize rem 0)                    -- :38-42
  else
    let nn := ns.natAbs                                       -- :44
    let np := s.ptr dividend                                  -- :45
    let n ← s.load np nn                                      -- :77 rl = mpn_mod_1 (np, nn, divisor)
    let rl := val n % divisor
    if rl = 0 then pure (0, s.setSize rem 0)                  -- :78-79
    else
      let adj : Bool := (dir = -1 ∧ ns < 0) ∨ (dir = 1 ∧ ns ≥ 0)   -- fdiv_r_ui.c:90 / cdiv_r_ui.c
      let rl := if adj then divisor - rl else rl
      let s ← s.storeAt (s.ptr rem) 0 [rl]                    -- :85 PTR(rem)[0] = rl
      let sz : Int := if dir = 0 then (if ns ≥ 0 then 1 else -1) else if dir = -1 then 1 else -1   -- :84 / fdiv :94 / cdiv
      pure (rl, s.setSize rem sz)

/-- tdiv_qr_ui.c:92-96: `qn = nn - (qp[nn - 1] == 0); SIZ (quot) = ns >= 0 ? qn : -qn; return rl` -/
def qrUiEnd (quot qp nn : Nat) (ns : Int) (rl : Nat) (s : St) : R (Nat × St) := do
  let top ← limbAt s qp (nn - 1)
  let qn := nn - (if top = 0 then 1 else 0)
  pure (rl, s.setSize quot (if ns ≥ 0 then (qn : Int) else -(qn : Int)))

/-- tdiv_qr_ui.c:89-90 (fdiv_qr_ui.c:102-103): `SIZ (rem) = ±1; PTR (rem)[0] = rl;`, then the end -/
def qrUiRem (dir : Int) (quot rem qp nn : Nat) (ns : Int) (rl : Nat) (s : St) : R (Nat × St) := do
  let s ← s.storeAt (s.ptr rem) 0 [rl]                        -- :90
  let sz : Int := if dir = 0 then (if ns ≥ 0 then 1 else -1) else if dir = -1 then 1 else -1   -- :89
  qrUiEnd quot qp nn ns rl (s.setSize rem sz)                 -- :92-96

/-- mpz_tdiv_qr_ui / mpz_fdiv_qr_ui / mpz_cdiv_qr_ui (`dir` = 0 / -1 / 1): tdiv_qr_ui.c:35-98, fdiv_qr_ui.c:35-110,
    cdiv_qr_ui.c.  quot ≠ rem; quot = dividend (quotient in place) or rem = dividend (`PTR (rem)[0] = rl` lands on the
    operand after mpn_divrem_1 has read it) allowed. -/
def div_qr_ui (dir : Int) (quot rem dividend divisor : Nat) (s : St) : R (Nat × St) := do
  if divisor = 0 then throw "div0"                            -- tdiv_qr_ui.c:35-36
  let ns := s.size dividend                                   -- :38
  if ns = 0 then pure (0, (s.setSize quot 0).setSize rem 0)   -- :39-44
  else
    let nn := ns.natAbs                                       -- :46
    let s := s.mpzRealloc quot nn                             -- :47
    let qp := s.ptr quot                                      -- :48
    let np := s.ptr dividend                                  -- :49
    let r ← mpn_divrem_1 qp np nn divisor s                   -- :81
    if r.1 = 0 then qrUiEnd quot qp nn ns 0 (r.2.setSize rem 0)              -- :82-83, :92-96
    else do
      let adj : Bool := (dir = -1 ∧ ns < 0) ∨ (dir = 1 ∧ ns ≥ 0)             -- fdiv_qr_ui.c:96 / cdiv_qr_ui.c:96
      let (rl, s) ← (if adj then do
          let l ← r.2.load qp nn                              -- fdiv_qr_ui.c:98 mpn_incr_u (qp, 1)
          if val l + 1 ≥ B ^ nn then throw "ub:mpn_incr_u runs off the quotient"
          let s ← r.2.store qp (toLimbs nn (val l + 1))
          pure (divisor - r.1, s)                             -- :99
        else pure (r.1, r.2))
      qrUiRem dir quot rem qp nn ns rl s                      -- tdiv_qr_ui.c:89-96

/-! ## mpz_and, mpz_ior, mpz_xor, mpz_com: pointers fetched early, re-read after the reallocation -/

/-- what a sign case of and.c / ior.c / xor.c does before its limb loops: which operands were replaced by a TMP copy
    (`opx = TMP_ALLOC …; mpn_sub_1 (opx, opN_ptr, …, 1); opN_ptr = opx`), how many limbs it asks for, and the result
    of the limb loops as a function of the operand magnitudes (value-level mirror: Mpir/Model/Bits.lean, proved equal
    to Int.land / lor / xor in C10).  The model's TMP block keeps |op| where the C keeps |op| - 1: the decrement is
    part of `result`; what matters here is WHICH block is read after the reallocation. -/
structure LogicPlan where
  tmp1 : Bool
  tmp2 : Bool
  need : Nat
  result : Bits.Z

/-- mpz/and.c: PP exact size after the scan (:48-62); NN `1 + MAX` (:95), both operands in TMP (:97-104);
    PN `op1_size` if the non-negative operand is longer (:219-221), else the exact size (:245-253), the negative
    operand in TMP (:212-215).  In the two PN cases and in PP the request equals the length of the result. -/
def andPlan (n1 : Bool) (a : List Nat) (n2 : Bool) (b : List Nat) : LogicPlan :=
  let z := Bits.mpz_and ⟨n1, a⟩ ⟨n2, b⟩
  if n1 && n2 then ⟨true, true, 1 + max a.length b.length, z⟩
  else ⟨n1, n2, z.mag.length, z⟩

/-- mpz/xor.c: PP `MAX` (:48-80); NN `MAX`, both in TMP (:106-120); PN `MAX + 1`, the negative operand in TMP (:166-177). -/
def xorPlan (n1 : Bool) (a : List Nat) (n2 : Bool) (b : List Nat) : LogicPlan :=
  let z := Bits.mpz_xor ⟨n1, a⟩ ⟨n2, b⟩
  if n1 && n2 then ⟨true, true, max a.length b.length, z⟩
  else if n1 || n2 then ⟨n1, n2, max a.length b.length + 1, z⟩
  else ⟨false, false, max a.length b.length, z⟩

/-- mpz/ior.c: PP `MAX` (:48-80); NN `MIN`, both in TMP (:106-120); PN the size of the negative operand, which is in
    TMP (:178-187). -/
def iorPlan (n1 : Bool) (a : List Nat) (n2 : Bool) (b : List Nat) : LogicPlan :=
  let z := Bits.mpz_ior ⟨n1, a⟩ ⟨n2, b⟩
  if n1 && n2 then ⟨true, true, min a.length b.length, z⟩
  else if n1 then ⟨true, false, a.length, z⟩
  else if n2 then ⟨false, true, b.length, z⟩
  else ⟨false, false, max a.length b.length, z⟩

/-- the pointer plumbing common to mpz_and / mpz_ior / mpz_xor (and.c:37-43, 55-63, 106-113, 223-231 …) -/
def logicV (V : Variant) (plan : Bool → List Nat → Bool → List Nat → LogicPlan) (res op1 op2 : Nat) (s : St) : R St := do
  let sz1 := s.size op1                                       -- and.c:37
  let sz2 := s.size op2                                       -- :38
  let p1 := s.ptr op1                                         -- :40  (early: before any reallocation)
  let p2 := s.ptr op2                                         -- :41
  let pr := s.ptr res                                         -- :42
  let a ← s.load p1 sz1.natAbs                                -- the size scan / mpn_sub_1 into TMP read through these
  let b ← s.load p2 sz2.natAbs
  let pl := plan (decide (sz1 < 0)) a (decide (sz2 < 0)) b
  let (p1, s) ← s.copyIf pl.tmp1 p1 sz1.natAbs                -- op1_ptr = opx
  let t1 := if pl.tmp1 then [p1] else []
  let (p2, s) ← s.copyIf pl.tmp2 p2 sz2.natAbs                -- op2_ptr = opx
  let t2 := if pl.tmp2 then [p2] else []
  let moved : Bool := s.alloc res < pl.need                   -- if (res->_mp_alloc < …)
  let s := s.mpzRealloc res pl.need                           --   _mpz_realloc (res, …);
  let pr := if moved ∧ V.reread then s.ptr res else pr        --   res_ptr = res->_mp_d;
  let p1 := if moved ∧ V.reread ∧ !pl.tmp1 then s.ptr op1 else p1   -- op1_ptr = op1->_mp_d; unless it points to TMP
  let p2 := if moved ∧ V.reread ∧ !pl.tmp2 then s.ptr op2 else p2   -- ("Don't re-read OP2_PTR.  It points to temporary space")
  let a ← s.load p1 sz1.natAbs                                -- the limb loops (same index read before it is written:
  let b ← s.load p2 sz2.natAbs                                --  res_ptr == op1_ptr / op2_ptr is harmless)
  let z := (plan (decide (sz1 < 0)) a (decide (sz2 < 0)) b).result
  let s ← s.store pr z.mag
  let s := s.setSize res (if z.neg then -(z.mag.length : Int) else (z.mag.length : Int))
  pure ((t1 ++ t2).foldl St.free s)                           -- TMP_FREE

def mpz_and := logicV .c andPlan
def mpz_xor := logicV .c xorPlan
def mpz_ior := logicV .c iorPlan

/-- mpz_com (dst, src): com.c:27-86.  `_mpz_realloc` first, THEN `src_ptr = src->_mp_d` (:42-43, :71-72). -/
def mpz_comV (V : Variant) (dst src : Nat) (s : St) : R St := do
  let size := s.size src                                      -- com.c:29
  let early := s.ptr src
  let need := if size ≥ 0 then size.natAbs + 1 else size.natAbs   -- :39, :68
  let s := s.mpzRealloc dst need                              -- :39-40 / :68-69
  let sp := if V.ptrAfterRealloc then s.ptr src else early    -- :42 / :71
  let a ← s.load sp size.natAbs
  let z := Bits.mpz_com ⟨decide (size < 0), a⟩                -- :45-65 / :74-83
  let s ← s.store (s.ptr dst) z.mag
  pure (s.setSize dst (if z.neg then -(z.mag.length : Int) else (z.mag.length : Int)))

def mpz_com := mpz_comV .c

/-! ## mpz_neg, mpz_abs -/

/-- mpz_neg (`isAbs = false`, neg.c:33-48) and mpz_abs (`isAbs = true`, abs.c:33-46): `if (u != w)` copy — realloc, THEN
    the two pointers — else only the size field is written. -/
def mpz_negabs (isAbs : Bool) (w u : Nat) (s : St) : R St := do
  let usize := s.size u                                       -- neg.c:33
  let s ← (if u ≠ w then do                                   -- :35
      let size := usize.natAbs                                -- :37
      let s := s.mpzRealloc w size                            -- :39-40
      let up ← s.load (s.ptr u) size                          -- :42-45
      s.store (s.ptr w) up
    else pure s)
  pure (s.setSize w (if isAbs then (usize.natAbs : Int) else -usize))     -- :48

def mpz_neg := mpz_negabs false
def mpz_abs := mpz_negabs true

/-! ## mpz_gcd -/

/-- gcd.c:46-50 (and :57-61): `SIZ (g) = wsize; if (g == w) return; MPZ_REALLOC (g, wsize); MPN_COPY (PTR (g), wp, wsize);`
    with `wp`, `wsize` fetched at the top of the function -/
def gcdCopy (g w wp wsize : Nat) (s : St) : R St := do
  let s := s.setSize g wsize
  if g = w then pure s
  else do
    let s := s.mpzRealloc g wsize
    let l ← s.load wp wsize
    s.store (s.ptr g) l

/-- gcd.c:66-68 (and :73-75): `SIZ (g) = 1; PTR (g)[0] = mpn_gcd_1 (wp, wsize, xp[0]);` -/
def gcdOne (g wp wsize xp : Nat) (s : St) : R St := do
  let s := s.setSize g 1
  let b ← s.load wp wsize
  let x ← limbAt s xp 0
  s.storeAt (s.ptr g) 0 [Nat.gcd (val b) x]

/-- mpz_gcd (g, u, v): mpz/gcd.c:39-161.  `up`, `vp` and the sizes are fetched at the top (:39-42); the zero-operand
    cases write SIZ (g) first and copy afterwards (:46-50, :56-60); the one-limb cases store SIZ (g) = 1 and then
    `PTR (g)[0] = mpn_gcd_1 (vp, vsize, up[0])` (:64-76); in the general case both operands are shifted into TMP space
    (:81-111, through the early pointers — nothing has been reallocated yet), mpn_gcd works there, and g is
    reallocated to exactly the size of the result (:141-158).  mpn_gcd_1 / mpn_gcd are taken at their value (`Nat.gcd`,
    limb-level proofs: C07). -/
def mpz_gcd (g u v : Nat) (s : St) : R St := do
  let up := s.ptr u                                           -- gcd.c:39
  let usize := (s.size u).natAbs                              -- :40
  let vp := s.ptr v                                           -- :41
  let vsize := (s.size v).natAbs                              -- :42
  if usize = 0 then gcdCopy g v vp vsize s                    -- :44-52
  else if vsize = 0 then gcdCopy g u up usize s               -- :55-63
  else if usize = 1 then gcdOne g vp vsize up s               -- :64-69
  else if vsize = 1 then gcdOne g up usize vp s               -- :71-76
  else do
    let a ← s.load up usize                                   -- :81-95
    let b ← s.load vp vsize                                   -- :97-111
    let G := Nat.gcd (val a) (val b)                          -- :130-132
    let s := s.mpzRealloc g (sizeNat G)                       -- :144 / :154
    s.setInt g G                                              -- :145-158

/-! ## mpz_sqrtrem -/

/-- mpn_sqrtrem (sp, rp, np, nn): mpn/generic/sqrtrem.c:298-301 `np[nn-1] != 0`, `MPN_SAME_OR_SEPARATE_P (np, rp, nn)`,
    S overlaps neither R nor N.  Stores the (nn+1)/2 root limbs and the remainder limbs; returns the remainder size. -/
def mpn_sqrtrem (sp rp np nn : Nat) (s : St) : R (Nat × St) := do
  if sp = np ∨ sp = rp then throw "ub:mpn_sqrtrem operands overlap"
  let n ← s.load np nn
  if ¬ 1 ≤ nn then throw "ub:mpn_sqrtrem sizes"
  if n.getD (nn - 1) 0 = 0 then throw "ub:mpn_sqrtrem operand not normalised"
  let r := Nat.sqrt (val n)
  let s ← s.store sp (toLimbs ((nn + 1) / 2) r)
  let rem := val n - r * r
  let s ← s.store rp (toLimbs (sizeNat rem) rem)
  pure (sizeNat rem, s)

/-- `(*__gmp_free_func) (PTR (v), …); ALLOC (v) = n; PTR (v) = (*__gmp_allocate_func) (n limbs)` (sqrtrem.c:64-69):
    a new block with junk contents, SIZ untouched -/
def St.freshBlock (s : St) (v n : Nat) : St :=
  let r := (s.free (s.ptr v)).malloc (List.replicate n junk)
  r.2.setVar v { alloc := n, size := s.size v, ptr := r.1 }

/-- mpz_sqrtrem (root, rem, op): mpz/sqrtrem.c:37-98.  root ≠ rem (manual). -/
def sqrtremV (V : Variant) (root rem op : Nat) (s : St) : R St := do
  let op_size := s.size op                                    -- sqrtrem.c:38
  if op_size < 0 then throw "sqrtneg"                         -- :41-42
  if op_size = 0 then pure ((s.setSize root 0).setSize rem 0) -- :43-45
  else
    let n := op_size.natAbs
    let s := s.mpzRealloc rem n                               -- :48-49
    let root_size := (n + 1) / 2                              -- :52
    let root_ptr := s.ptr root                                -- :54
    let op_ptr := s.ptr op                                    -- :55
    -- :57-83.  (`root_ptr == op_ptr` with `ALLOC (root) < root_size` cannot happen: ALLOC ≥ op_size ≥ root_size,
    -- so the `free_me` arm :59-63 is dead code and the old block is always released at once.)
    let grow : Bool := s.alloc root < root_size               -- :57
    let s := if grow then s.freshBlock root root_size else s  -- :64-69
    let root_ptr := if grow then s.ptr root else root_ptr
    let c : Bool := !grow ∧ V.copyNum ∧ root_ptr = op_ptr      -- :74
    let (op_ptr, s) ← s.copyIf c op_ptr n                     -- :77-80 "Make OP not overlap with ROOT"
    let r ← mpn_sqrtrem root_ptr (s.ptr rem) op_ptr n s       -- :86 (rem->_mp_d fetched here)
    let s := r.2.setSize root root_size                       -- :88
    let s := s.setSize rem r.1                                -- :93 "Write remainder size last"
    pure (if c then s.free op_ptr else s)                     -- :97 TMP_FREE

def sqrtrem := sqrtremV .c

/-! ## mpz_rootrem (model + differential tie only: no theorem yet) -/

/-- mpn_rootrem (rootp, remp, up, un, k): mpn/generic/rootrem.c:70-84 "(d) the operands do not overlap", `un > 0`,
    `up[un-1] != 0`, `k > 1`.  Stores the (un-1)/k+1 root limbs and the remainder limbs; returns the remainder size. -/
def mpn_rootrem (rootp remp up un k : Nat) (s : St) : R (Nat × St) := do
  if rootp = up ∨ rootp = remp ∨ remp = up then throw "ub:mpn_rootrem operands overlap"
  let n ← s.load up un
  if ¬ (1 ≤ un ∧ 2 ≤ k) then throw "ub:mpn_rootrem arguments"
  if n.getD (un - 1) 0 = 0 then throw "ub:mpn_rootrem operand not normalised"
  let r := Root.irootFast k (val n)
  let s ← s.store rootp (toLimbs ((un - 1) / k + 1) r)
  let rem := val n - Root.powS r k
  let s ← s.store remp (toLimbs (sizeNat rem) rem)
  pure (sizeNat rem, s)

/-- mpz_rootrem (root, rem, u, nth): mpz/rootrem.c:35-92, root ≠ rem (and root not NULL).  root = u: the root is built
    in TMP space and copied back (:60-63, :82-83); rem = u likewise (:65-68, :84-85); `up = PTR (u)` is fetched after the
    two reallocations (:70). -/
def rootrem (root rem u nth : Nat) (s : St) : R St := do
  let us := s.size u                                          -- rootrem.c:35
  if us < 0 ∧ nth % 2 = 0 then throw "sqrtneg"                -- :38-39
  if nth = 0 then throw "div0"                                -- :43-44
  if us = 0 then pure ((s.setSize root 0).setSize rem 0)      -- :46-52
  else
    let un := us.natAbs                                       -- :54
    let rootn := (un - 1) / nth + 1                           -- :55
    let r1 := s.tmpAlloc rootn
    let s1 := if u ≠ root then s.mpzRealloc root rootn else r1.2        -- :60-63
    let rootp := if u ≠ root then s1.ptr root else r1.1
    let r2 := s1.tmpAlloc un
    let s2 := if u ≠ rem then s1.mpzRealloc rem un else r2.2            -- :65-68
    let remp := if u ≠ rem then s2.ptr rem else r2.1
    let up := s2.ptr u                                        -- :70
    let (remn, s3) ← (if nth = 1 then do                      -- :72
        let l ← s2.load up un                                 -- :74 MPN_COPY (rootp, up, un)
        let s ← s2.store rootp l
        pure (0, s)
      else mpn_rootrem rootp remp up un nth s2)               -- :79
    let s4 := s3.setSize root (if us ≥ 0 then (rootn : Int) else -(rootn : Int))       -- :84
    let s5 ← (if u = root then do                             -- :85-86
        let l ← s4.load rootp rootn
        s4.store up l
      else if u = rem then do                                 -- :87-88
        let l ← s4.load remp remn
        s4.store up l
      else pure s4)
    let s6 := s5.setSize rem (if us < 0 ∧ remn > 0 then -(remn : Int) else (remn : Int))   -- :91
    let s7 := if u = root then s6.free rootp else s6          -- :92 TMP_FREE
    pure (if u = rem then s7.free remp else s7)

/-! ## building a state from values (driver, examples) -/

/-- variables `0 … k-1` holding `zs` in exact-size blocks (the harness's `tok_mpz`) -/
def ofInts (zs : List Int) : St :=
  { nv := zs.length
    vars := fun i =>
      let z := zs.getD i 0
      { alloc := max (sizeNat z.natAbs) 1, size := siz z, ptr := i }
    blk := fun p =>
      if p < zs.length then
        let z := zs.getD p 0
        some (toLimbs (max (sizeNat z.natAbs) 1) z.natAbs)
      else none
    next := zs.length }

/-- what the examples and the driver look at: value, ALLOC and "PTR changed" of the first `k` variables -/
def St.view (s : St) (k : Nat) : List (Int × Nat × Nat) :=
  (List.range k).map fun i => (s.value i, s.alloc i, s.ptr i)

end Mpir.AliasMem
