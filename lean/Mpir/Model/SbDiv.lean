/-
  C02, multi-limb layer: schoolbook division mpn_sb_div_qr, limb for limb.  Core Lean only.

  Source mirrored (tie = correspondence, op `mpn_sb_div_qr` in Mpir/Ops/DivZ.lean, harness/ops_divz.c):
    mpn/generic/sb_div_qr.c           (whole file)
    gmp-impl.h  udiv_qr_3by2, mpir_invert_pi1   (models: Mpir/Model/DivWord.lean, proved in C02_word)
    mpn/x86_64/longlong_inc.h:49  sub_333         (subq/sbbq/sbbq: a three-limb subtraction)
    mpn_cmp, mpn_sub_n, mpn_add_n, mpn_submul_1  (models: Mpir/Model/Kernels.lean)

  Shape of the model.  The C walks a pointer `np` down the dividend area and keeps the top limb of the
  partial remainder in the register `n1` (the memory cell above np[1] is stale and never read again).
  Here the dividend area is split into the pieces the C touches:
    * `xs`  the dividend limbs not yet consumed, MOST significant first (np[-dn-1], np[-dn-2], … of the C
            with dn already offset by 2),
    * `w`   the dn-1 memory limbs of the partial remainder (C: np-dn+1 … np+1 before `np--`),
    * `n1`  the register copy of its top limb.
  One loop iteration takes the next limb `x`, forms the window `a = x :: w` (C: np-dn … np+1 after `np--`,
  dn+2 limbs with the offset dn) and returns the quotient limb, the new `w` and the new `n1`.
  Theorems: MpirProofs/Props/C02_sb.lean.
-/
import Mpir.Base
import Mpir.Model.Kernels
import Mpir.Model.DivWord
namespace Mpir.SbDiv
open Mpir Mpir.DivWord

/-- sub_333 (sh, sm, sl, 0, am, al, 0, 0, bl): ⟨0,am,al⟩ − ⟨0,0,bl⟩ on three limbs
    (mpn/x86_64/longlong_inc.h:49; the generic longlong.h:369 computes the same).  Returns (sh, sm, sl). -/
def sub_333_0 (am al bl : Nat) : Nat × Nat × Nat :=
  let t := (am * B + al + B * B * B - bl) % (B * B * B)
  (t / (B * B), t / B % B, t % B)

/-- sb_div_qr.c:78-83, the branch `n1 == d1 && np[1] == d0`: q = GMP_NUMB_MASK,
    mpn_submul_1 (np - dn, dp, dn + 2, q) on the whole window (the borrow is dropped), n1 = np[1].
    `a` = np-dn … np+1.  Returns (q, new memory limbs np-dn … np, new n1). -/
def sbSpecial (dp a : List Nat) : Nat × List Nat × Nat :=
  let dn := dp.length - 2                                    -- :72 "offset dn by 2"
  let q := B - 1                                             -- :80
  let r := (submul_1 a dp q).1                               -- :81
  (q, r.take (dn + 1), r.getD (dn + 1) 0)                    -- :82 n1 = np[1]

/-- sb_div_qr.c:94-98: `n1 += d1 + mpn_add_n (np - dn, np - dn, dp, dn + 1); q--;`
    `r` = np-dn … np (dn+1 limbs). -/
def sbAddBack (dp : List Nat) (d1 q n1 : Nat) (r : List Nat) : Nat × List Nat × Nat :=
  let dn := dp.length - 2
  let sc := add_n r (dp.take (dn + 1))                       -- :96
  ((q + B - 1) % B, sc.1, (n1 + d1 + sc.2) % B)              -- :96-97

/-- sb_div_qr.c:85-99, the ordinary branch. -/
def sbRegular (dp : List Nat) (d1 d0 dinv : Nat) (a : List Nat) (n1 : Nat) : Nat × List Nat × Nat :=
  let dn := dp.length - 2
  let qr := udiv_qr_3by2 n1 (a.getD (dn + 1) 0) (a.getD dn 0) d1 d0 dinv   -- :86 (q, n1, n0)
  let rc := submul_1 (a.take dn) (dp.take dn) qr.1           -- :88 cy2 = mpn_submul_1 (np - dn, dp, dn, q)
  let s := sub_333_0 qr.2.1 qr.2.2 rc.2                      -- :90 sub_333 (cy, n1, n0, 0, n1, n0, 0, 0, cy2)
  let r := rc.1 ++ [s.2.2]                                   -- :92 np[0] = n0
  if s.1 ≠ 0 then sbAddBack dp d1 qr.1 s.2.1 r               -- :94 if (UNLIKELY (cy != 0))
  else (qr.1, r, s.2.1)

/-- one iteration of the loop sb_div_qr.c:75-102 after `np--` -/
def sbStep (dp : List Nat) (d1 d0 dinv : Nat) (a : List Nat) (n1 : Nat) : Nat × List Nat × Nat :=
  let dn := dp.length - 2
  if n1 = d1 ∧ a.getD (dn + 1) 0 = d0 then sbSpecial dp a    -- :78
  else sbRegular dp d1 d0 dinv a n1

/-- the loop sb_div_qr.c:75-102.  `xs`: unconsumed dividend limbs, most significant first; `w`, `n1`: partial
    remainder (memory limbs, register); `qs`: quotient limbs stored so far, least significant first (`*--qp = q`). -/
def sbLoop (dp : List Nat) (d1 d0 dinv : Nat) : List Nat → List Nat → Nat → List Nat → List Nat × List Nat × Nat
  | [], w, n1, qs => (qs, w, n1)
  | x :: xs, w, n1, qs =>
    let s := sbStep dp d1 d0 dinv (x :: w) n1
    sbLoop dp d1 d0 dinv xs s.2.1 s.2.2 (s.1 :: qs)          -- :101 *--qp = q

/-- mpn_sb_div_qr (qp, np, nn, dp, dn, dinv): dn > 2, nn ≥ dn, dp normalised, dinv = mpir_invert_pi1 (dp[dn-1], dp[dn-2]).
    Returns (the nn-dn quotient limbs, the dn remainder limbs left in np[0 … dn-1], qh). -/
def sb_div_qr (np dp : List Nat) (dinv : Nat) : List Nat × List Nat × Nat :=
  let nn := np.length
  let dn := dp.length
  let hi := np.drop (nn - dn)                                -- np - dn after `np += nn`
  let qh := if cmp hi dp ≥ 0 then 1 else 0                   -- :64 qh = mpn_cmp (np - dn, dp, dn) >= 0
  let hi := if qh ≠ 0 then (sub_n hi dp).1 else hi           -- :65-66
  let d1 := dp.getD (dn - 1) 0                               -- :68
  let d0 := dp.getD (dn - 2) 0                               -- :74
  let n1 := hi.getD (dn - 1) 0                               -- :76-78 np -= 2; n1 = np[1]
  let s := sbLoop dp d1 d0 dinv (np.take (nn - dn)).reverse (hi.take (dn - 1)) n1 []
  (s.1, s.2.1 ++ [s.2.2], qh)                                -- :104 np[1] = n1

end Mpir.SbDiv
