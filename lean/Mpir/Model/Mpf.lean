/-
  Layer S (objects): BIT-EXACT model of MPIR's mpf layer (same limbs, size and exponent as the C).
  Core Lean only.  An mpf value is `F = {prec, size, exp, d}`: `d` = the |size| significant limbs,
  little-endian; value = ± val d * B^(exp - |size|).

  Sub-operations on limb vectors (mpn_mul, mpn_add, mpn_sub, mpn_tdiv_qr, mpn_sqrtrem, lshift, ...) are
  taken at value level (`Nat` arithmetic followed by `toLimbs`); the limb SELECTION, truncation,
  case analysis and normalisation follow the C statement by statement.  Line numbers refer to
  /repo/mpf/<file>.c.

  Pointer identities tested by the C (`r != u`, `rp != up`) are explicit Boolean parameters
  (`rIsU`, `rIsV`): they only matter when an operand is longer than the destination's prec+1 limbs
  (possible after mpf_set_prec_raw).
-/
import Mpir.Base
namespace Mpir.Mpf
open Mpir

structure F where
  prec : Nat
  size : Int
  exp : Int
  d : List Nat
  deriving Repr, BEq, DecidableEq, Inhabited

/-- gmp-impl.h:3943  `__GMPF_BITS_TO_PREC(n) = (max(53,n) + 2*GMP_NUMB_BITS - 1) / GMP_NUMB_BITS` -/
def BITS_TO_PREC (n : Nat) : Nat := (max 53 n + 2 * 64 - 1) / 64
/-- gmp-impl.h:3945  `__GMPF_PREC_TO_BITS(n) = n*GMP_NUMB_BITS - GMP_NUMB_BITS` -/
def PREC_TO_BITS (n : Nat) : Nat := n * 64 - 64

/-- The mpf format rules (gmp-impl.h:4190 MPF_CHECK_FORMAT): proper limbs, `d` has |size| limbs,
    at most prec+1 limbs, top limb non-zero, zero has exponent 0. -/
def WF (f : F) : Prop :=
  Limbs f.d ∧ f.d.length = f.size.natAbs ∧ f.size.natAbs ≤ f.prec + 1 ∧
  f.d.getLast? ≠ some 0 ∧ (f.size = 0 → f.exp = 0)

instance (f : F) : Decidable (WF f) := by unfold WF; infer_instance

/-- What the C requires of an *operand* (its own precision is irrelevant to every reader). -/
def OpWF (f : F) : Prop :=
  Limbs f.d ∧ f.d.length = f.size.natAbs ∧ f.d.getLast? ≠ some 0 ∧ (f.size = 0 → f.exp = 0)

instance (f : F) : Decidable (OpWF f) := by unfold OpWF; infer_instance

/-- the `n` most significant limbs (`up += usize - n; usize = n` when usize > n) -/
def top (n : Nat) (l : List Nat) : List Nat := l.drop (l.length - n)

def mk (prec : Nat) (neg : Bool) (exp : Int) (d : List Nat) : F :=
  ⟨prec, if neg then -(d.length : Int) else (d.length : Int), exp, d⟩

def zero (prec : Nat) : F := ⟨prec, 0, 0, []⟩

def topLimb (l : List Nat) : Nat := l.getLast?.getD 0

/-- strip high zero limbs, decrementing the exponent for each (`while (n != 0 && p[n-1] == 0) n--, exp--`) -/
def stripHigh (l : List Nat) (e : Int) : List Nat × Int :=
  let r := normalize l
  (r, e - ((l.length - r.length : Nat) : Int))

/-- strip low zero limbs (`while (p[0] == 0) p++, n--`), stops when empty -/
def stripLow : List Nat → List Nat
  | [] => []
  | x :: xs => if x = 0 then stripLow xs else x :: xs

/-- value-level mpn_add (x.length ≥ y.length): result limbs (x.length of them) and carry -/
def addv (x y : List Nat) : List Nat × Nat :=
  let s := val x + val y
  (toLimbs x.length s, s / B ^ x.length)

/-- value-level wrapped subtraction on `n` limbs: (a - b) mod B^n -/
def wrapSub (n : Nat) (a b : Nat) : List Nat :=
  toLimbs n (((a : Int) - (b : Int)) % ((B ^ n : Nat) : Int)).toNat

/- ------------------------------------------------------------------ set / neg / abs -/

/-- set.c:26-47 -/
def set (prec : Nat) (u : F) : F :=
  let dp := top (prec + 1) u.d                   -- :38-42
  ⟨prec, if u.size ≥ 0 then dp.length else -(dp.length : Int), u.exp, dp⟩

/-- neg.c:26-53; `rIsU` = (r == u): then only the sign flips (:31) -/
def neg (prec : Nat) (rIsU : Bool) (u : F) : F :=
  if rIsU then ⟨prec, -u.size, u.exp, u.d⟩
  else
    let dp := top (prec + 1) u.d                 -- :42-46
    ⟨prec, if -u.size ≥ 0 then dp.length else -(dp.length : Int), u.exp, dp⟩

/-- abs.c:26-50 -/
def abs (prec : Nat) (rIsU : Bool) (u : F) : F :=
  if rIsU then ⟨prec, u.size.natAbs, u.exp, u.d⟩
  else
    let dp := top (prec + 1) u.d
    ⟨prec, dp.length, u.exp, dp⟩

/-- set_ui.c:26-40 (BITS_PER_UI == GMP_NUMB_BITS) -/
def set_ui (prec : Nat) (v : Nat) : F :=
  if v = 0 then ⟨prec, 0, 0, []⟩ else ⟨prec, 1, 1, [v]⟩

/-- set_si.c:27-45 -/
def set_si (prec : Nat) (v : Int) : F :=
  if v = 0 then ⟨prec, 0, 0, []⟩
  else ⟨prec, if v ≥ 0 then 1 else -1, 1, [v.natAbs]⟩

/-- set_z.c:26-48: EXP = |size of z|; keep the top prec+1 limbs -/
def set_z (prec : Nat) (z : Int) : F :=
  let zl := natLimbs z.natAbs
  let dp := top (prec + 1) zl                    -- :40-44
  ⟨prec, if z ≥ 0 then dp.length else -(dp.length : Int), zl.length, dp⟩

/- ------------------------------------------------------------------ mul -/

/-- mul.c:67-82 on the selected limbs: full product, drop the top limb if it is zero, keep prec+1.
    Returns (result limbs, adj). -/
def mulLimbs (prec : Nat) (up vp : List Nat) : List Nat × Nat :=
  let rsize := up.length + vp.length             -- :67
  let tp := toLimbs rsize (val up * val vp)      -- :69-71 mpn_mul
  let adj := if topLimb tp = 0 then 1 else 0     -- :73 cy_limb == 0
  (top (prec + 1) (tp.take (rsize - adj)), adj)  -- :74-80

/-- mul.c:26-87 -/
def mul (prec : Nat) (u v : F) : F :=
  let up := top prec u.d                         -- :44-48
  let vp := top prec v.d                         -- :49-53
  if up.length = 0 ∨ vp.length = 0 then zero prec   -- :55-59
  else
    let (rp, adj) := mulLimbs prec up vp
    let negp := (u.size < 0) != (v.size < 0)     -- :37 sign_product
    ⟨prec, if negp then -(rp.length : Int) else rp.length, u.exp + v.exp - adj, rp⟩   -- :83-84

/-- mul_ui.c:82-173.  The carry-in scan (:122-158) yields exactly the carry of the full product into
    the kept limbs, i.e. the kept limbs are those of floor(u*v / B^excess). -/
def mul_ui (prec : Nat) (u : F) (v : Nat) : F :=
  if v = 0 ∨ u.size = 0 then zero prec           -- :92-97
  else
    let size := u.d.length
    let excess := size - prec                    -- :119 (Nat subtraction: 0 when size ≤ prec)
    let n := if size > prec then prec else size  -- :157
    let t := (val u.d * v) / B ^ excess          -- mul_1 with carry-in = high part of the dropped products
    let rp := toLimbs n t
    let cy := t / B ^ n                          -- :168
    let rd := if cy ≠ 0 then rp ++ [cy] else rp
    ⟨prec, if u.size ≥ 0 then rd.length else -(rd.length : Int), u.exp + (if cy ≠ 0 then 1 else 0), rd⟩

/- ------------------------------------------------------------------ add -/

/-- add.c:126-164: the three overlap geometries on the selected limbs (`up` non-empty, `vp` non-empty,
    ed = ediff < prec).  Returns (tp, cy); tp has max(usize, vsize+ed) limbs. -/
def addLimbs (up vp : List Nat) (ed : Nat) : List Nat × Nat :=
  let usize := up.length
  let vs := vp.length
  if usize > ed then
    if vs + ed ≤ usize then                    -- :132-141  uuuu / v
      let size := usize - ed - vs
      let (hi, cy) := addv (up.drop size) vp
      (up.take size ++ hi, cy)
    else                                       -- :142-151  uuuu / vvvvv
      let size := vs + ed - usize
      let (hi, cy) := addv up (vp.drop size)
      (vp.take size ++ hi, cy)
  else                                         -- :153-164  uuuu / (gap) vv
    (vp ++ List.replicate (ed - usize) 0 ++ up, 0)

/-- add.c:98-102: the part of V inside the precision window (`vp += vsize + ediff - prec`) -/
def selV (prec : Nat) (vd : List Nat) (ediff : Int) : List Nat :=
  if (vd.length : Int) + ediff > prec then vd.drop ((vd.length : Int) + ediff - prec).toNat else vd

/-- add.c:66-174 for operands of equal sign, both non-zero, uexp ≥ vexp.  Returns (limbs, exp). -/
def addMag (prec : Nat) (ud : List Nat) (uexp : Int) (vd : List Nat) (vexp : Int) : List Nat × Int :=
  let ediff : Int := uexp - vexp                 -- :87
  let up := top prec ud                          -- :90-94
  let vp := selV prec vd ediff                   -- :98-102
  if ediff ≥ prec then (up, uexp)                -- :117-123 V completely cancelled
  else
    let (tp, cy) := addLimbs up vp ediff.toNat
    (if cy ≠ 0 then tp ++ [cy] else tp, uexp + cy)   -- :166-169

/- ------------------------------------------------------------------ sub -/

/-- result of the leading-equal-limbs scan, sub.c:97-134 (lists are most significant limb first) -/
inductive Scan where
  | uGone (vr : List Nat) (e : Int)        -- :106  usize == 0
  | vGone (ur : List Nat) (e : Int)        -- :126  vsize == 0
  | differ (ur vr : List Nat) (e : Int)    -- loop exit: top limbs differ
  deriving Repr

def scan : List Nat → List Nat → Int → Scan
  | a :: us, b :: vs, e =>
      if a != b then .differ (a :: us) (b :: vs) e
      else if us.isEmpty then .uGone vs (e - 1)
      else if vs.isEmpty then .vGone us (e - 1)
      else scan us vs (e - 1)
  | us, vs, e => .differ us vs e

/-- sub.c:110-124 `cancellation:` — `wr` most significant first; strip high zeros, keep prec1 limbs -/
def cancellation (prec1 : Nat) (wr : List Nat) (e : Int) : List Nat × Int :=
  let w := wr.dropWhile (· == 0)                 -- :112-116
  let e1 := e - ((wr.length - w.length : Nat) : Int)
  ((w.take prec1).reverse, e1)                   -- :117-123

/-- sub.c:319-393: the overlap geometries on the selected, low-zero-stripped limbs (u > v in value);
    ed = ediff.  Returns tp with max(usize, vsize+ed) limbs = u·B^.. − v·B^.. (mod B^rsize). -/
def subLimbs (up vp : List Nat) (ed : Nat) : List Nat :=
  let usize := up.length
  let vsize := vp.length
  if usize > ed then
    if ed = 0 then
      if usize ≥ vsize then              -- :329-338  uuuu / vv
        let size := usize - vsize
        up.take size ++ wrapSub vsize (val (up.drop size)) (val vp)
      else                               -- :339-351  uuuu / vvvvvvv
        wrapSub vsize (val up * B ^ (vsize - usize)) (val vp)
    else
      if vsize + ed ≤ usize then         -- :355-364  uuuu / (ed) v
        let size := usize - ed - vsize
        up.take size ++ wrapSub (usize - size) (val (up.drop size)) (val vp)
      else                               -- :365-377  uuuu / (ed) vvvvv
        wrapSub (vsize + ed) (val up * B ^ (vsize + ed - usize)) (val vp)
  else                                   -- :380-393  uuuu / (gap) vv
    wrapSub (vsize + ed - usize + usize) (val up * B ^ (vsize + ed - usize)) (val vp)

/-- sub.c:262-403 `general_case:` on little-endian operands; prec1 = PREC(r)+1.
    Returns (limbs, exp, swapped) where swapped = the `negate ^= 1` of :311. -/
def subGeneral (prec1 : Nat) (ud vd : List Nat) (exp : Int) (ediff : Int) : List Nat × Int × Bool :=
  let up0 := top prec1 ud                        -- :264-268
  let vp0 := selV prec1 vd ediff                 -- :272-276
  if ediff ≥ prec1 then (up0, exp, false)        -- :282-288
  else
    let vp := stripLow vp0                       -- :293-304
    if vp.length = 0 then (up0, exp, false)      -- :295-300
    else
      let up := stripLow up0                     -- :305-317
      if up.length = 0 then (vp, exp, true)      -- :307-313
      else
        let (rd, e) := stripHigh (subLimbs up vp ediff.toNat) exp   -- :319-402
        (rd, e, false)

/-- sub.c:199-258: with an implicit 1 one limb above both operands (little-endian `up`, `vp`, aligned at the
    top, exponent e1), compute B^n + u·B^(n−usize) − v·B^(n−vsize), n = max(usize, vsize).
    Returns (limbs, exp): n+1 limbs and exp e1+1 when the top 1 survives, else n limbs and exp e1. -/
def closeLimbs (up vp : List Nat) (e1 : Int) : List Nat × Int :=
  let usize := up.length
  let vsize := vp.length
  if vsize = 0 then (up ++ [1], e1 + 1)        -- :202-212
  else if usize = 0 then                       -- :213-228
    let t := wrapSub vsize 0 (val vp)          -- ~v + 1
    if val vp = 0 then (t ++ [1], e1 + 1) else (t, e1)
  else if usize ≥ vsize then                   -- :229-238
    let size := usize - vsize
    let t := up.take size ++ wrapSub vsize (val (up.drop size)) (val vp)
    if val (up.drop size) ≥ val vp then (t ++ [1], e1 + 1) else (t, e1)   -- :252-257
  else                                         -- :239-251
    let size := vsize - usize
    let t := wrapSub vsize (val up * B ^ size) (val vp)
    if val up * B ^ size ≥ val vp then (t ++ [1], e1 + 1) else (t, e1)

/-- sub.c:179-259 after the 000/fff run: `ur`, `vr` most significant first -/
def subCloseFin (rprec : Nat) (ur vr : List Nat) (e : Int) : List Nat × Int :=
  -- :179-186
  let vr1 := if ur.isEmpty then vr.dropWhile (· == B - 1) else vr
  let e1 := e - ((vr.length - vr1.length : Nat) : Int)
  let up := (ur.take rprec).reverse            -- :188-192
  let vp := (vr1.take rprec).reverse           -- :193-197
  let (tp, e2) := closeLimbs up vp e1
  stripHigh tp e2                              -- :395-402

/-- sub.c:170-259: the `x+1 000… / x fff…` path.  `ur`, `vr` most significant first, already past the
    differing top limb; rprec = PREC(r) (= prec-1 of the C).  Returns (limbs, exp). -/
def subClose (rprec : Nat) : List Nat → List Nat → Int → List Nat × Int
  | 0 :: us, v :: vs, e =>
      if v = B - 1 then subClose rprec us vs (e - 1)      -- :171-177
      else subCloseFin rprec (0 :: us) (v :: vs) e
  | us, vs, e => subCloseFin rprec us vs e

/-- sub.c:136-155, ediff = 0 and the scan stopped at differing top limbs (`ur`, `vr` most significant first,
    exponent e): order so that U has the larger top limb, then `general_case` or the x+1/x path. -/
def subDiffer (prec : Nat) (ur vr : List Nat) (e : Int) : List Nat × Int × Bool :=
  if ur.headD 0 < vr.headD 0 then                -- :136-145 MPN_SRCPTR_SWAP, negate ^= 1
    if vr.headD 0 ≠ (ur.headD 0 + 1) % B then    -- :150 goto general_case
      let (rd, e', sw) := subGeneral (prec + 1) vr.reverse ur.reverse e 0
      (rd, e', !sw)
    else
      let (rd, e') := subClose prec vr.tail ur.tail (e - 1)   -- :152-154
      (rd, e', true)
  else
    if ur.headD 0 ≠ (vr.headD 0 + 1) % B then
      subGeneral (prec + 1) ur.reverse vr.reverse e 0
    else
      let (rd, e') := subClose prec ur.tail vr.tail (e - 1)
      (rd, e', false)

/-- sub.c:156-168, ediff = 1: the `1 000… / 0 fff…` test -/
def subOne (prec : Nat) (ud : List Nat) (uexp : Int) (vd : List Nat) : List Nat × Int × Bool :=
  let ur := ud.reverse
  -- :162-164
  if ur.headD 0 ≠ 1 ∨ topLimb vd ≠ B - 1 ∨ (ud.length ≥ 2 ∧ ur.tail.headD 0 ≠ 0) then
    subGeneral (prec + 1) ud vd uexp 1
  else
    let (rd, e') := subClose prec ur.tail vd.reverse (uexp - 1)   -- :166-167
    (rd, e', false)

/-- sub.c:89-403 after the operands are ordered by exponent (uexp ≥ vexp); equal signs, both non-zero.
    Returns (limbs, exp, flip): u − v = (flip ? −1 : 1) · limbs · B^(exp − |limbs|), up to the truncation error. -/
def subCore (prec : Nat) (ud : List Nat) (uexp : Int) (vd : List Nat) (vexp : Int) : List Nat × Int × Bool :=
  let ediff : Int := uexp - vexp                 -- :87
  if ediff = 0 then
    match scan ud.reverse vd.reverse uexp with
    | .uGone vr e =>                             -- :106-125 (negate ^= 1)
        let (rd, e') := cancellation (prec + 1) vr e
        (rd, e', true)
    | .vGone ur e =>                             -- :126-131
        let (rd, e') := cancellation (prec + 1) ur e
        (rd, e', false)
    | .differ ur vr e => subDiffer prec ur vr e
  else if ediff = 1 then subOne prec ud uexp vd
  else subGeneral (prec + 1) ud vd uexp ediff

/-- sub.c:65-411 for operands of equal sign, both non-zero.  `negate0` = (usize < 0). -/
def subMag (prec : Nat) (negate0 : Bool) (u v : F) : F :=
  -- :71-78 make U the operand with the largest exponent
  let swap := u.exp < v.exp
  let (rd, e, flip) := if swap then subCore prec v.d v.exp u.d u.exp else subCore prec u.d u.exp v.d v.exp
  let negate := (negate0 != swap) != flip
  -- :405-409 done
  ⟨prec, if negate then -(rd.length : Int) else rd.length, if rd.length = 0 then 0 else e, rd⟩

/-- add.c:66-175 (equal signs, non-zero) -/
def addSame (prec : Nat) (u v : F) : F :=
  let negate := u.size < 0                                                        -- :69
  let (rd, e) := if u.exp < v.exp then addMag prec v.d v.exp u.d u.exp            -- :72-78
                 else addMag prec u.d u.exp v.d v.exp
  ⟨prec, if negate then -(rd.length : Int) else rd.length, e, rd⟩

/-- add.c:26-175 -/
def add (prec : Nat) (rIsU rIsV : Bool) (u v : F) : F :=
  if u.size = 0 then (if rIsV then {v with prec := prec} else set prec v)          -- :42-48
  else if v.size = 0 then (if rIsU then {u with prec := prec} else set prec u)     -- :49-53
  else if (u.size < 0) != (v.size < 0) then                                       -- :56-64
    subMag prec (decide (u.size < 0)) u {v with size := -v.size}
  else addSame prec u v

/-- sub.c:27-63 -/
def sub (prec : Nat) (rIsU rIsV : Bool) (u v : F) : F :=
  if u.size = 0 then neg prec rIsV v                                              -- :42-46
  else if v.size = 0 then (if rIsU then {u with prec := prec} else set prec u)     -- :47-52
  else if (u.size < 0) != (v.size < 0) then                                       -- :55-63
    addSame prec u {v with size := -v.size}
  else subMag prec (decide (u.size < 0)) u v


/- ------------------------------------------------------------------ add_ui / sub_ui / ui_sub -/

/-- sub_ui.c:26-42 -/
def sub_ui (prec : Nat) (rIsU : Bool) (u : F) (v : Nat) : F :=
  if v = 0 then set prec u                                                        -- :31-35
  else sub prec rIsU false u ⟨2, 1, 1, [v]⟩                                       -- :37-41

/-- add_ui.c:26-144 -/
def add_ui (prec : Nat) (rIsU : Bool) (u : F) (v : Nat) : F :=
  if u.size = 0 then set_ui prec v                                                -- :37-41
  else if u.size < 0 then                                                         -- :42-51
    let r := sub_ui prec false {u with size := -u.size} v
    {r with size := -r.size}
  else
    let usize := u.d.length
    let sum_is_u : F :=                                                           -- :56-64
      if rIsU then {u with prec := prec}
      else let dp := top (prec + 1) u.d; ⟨prec, dp.length, u.exp, dp⟩
    if v = 0 then sum_is_u                                                        -- :54
    else if u.exp > 0 then
      if u.exp > prec then sum_is_u                                               -- :70-74
      else
        let uexp := u.exp.toNat
        if uexp > usize then                                                      -- :80-95
          let rd := [v] ++ List.replicate (uexp - usize - 1) 0 ++ u.d
          ⟨prec, uexp, uexp, rd⟩
        else                                                                      -- :96-114
          let up := top prec u.d                                                  -- :101-106
          let n := up.length
          let lo := up.take (n - uexp)
          let s := val (up.drop (n - uexp)) + v                                   -- :109 mpn_add_1
          let hi := toLimbs uexp s
          let cy := s / B ^ uexp
          let rd := if cy ≠ 0 then lo ++ hi ++ [cy] else lo ++ hi
          ⟨prec, rd.length, u.exp + cy, rd⟩
    else
      let nexp := (-u.exp).toNat
      if nexp ≥ prec then ⟨prec, 1, 1, [v]⟩                                       -- :122-127
      else
        -- :130-135  keep prec - 1 - nexp limbs of u at most
        let up := if usize + nexp + 1 > prec then top (prec - 1 - nexp) u.d else u.d
        let rd := up ++ List.replicate nexp 0 ++ [v]                              -- :136-139
        ⟨prec, rd.length, 1, rd⟩

/-- ui_sub.c:26-48 (since ea17729 a wrapper, as in GMP ≥ 5): u as a one-limb float, then mpf_sub -/
def ui_sub (prec : Nat) (rIsV : Bool) (u : Nat) (v : F) : F :=
  if u = 0 then neg prec rIsV v                                                   -- :37-41
  else sub prec false rIsV ⟨2, 1, 1, [u]⟩ v                                       -- :43-47

/- ------------------------------------------------------------------ division -/

inductive Res where
  | ok (f : F)
  | div0
  | sqrtneg
  | invalid
  deriving Repr, BEq, DecidableEq

/-- common tail of div.c:137-146 / set_q.c:134-143 / ui_div.c:108-117: quotient of prec+1 limbs,
    strip one possible high zero limb -/
def quotFinish (prec : Nat) (neg : Bool) (q : Nat) (rexp : Int) : F :=
  let rp := toLimbs (prec + 1) q
  let hz := if topLimb rp = 0 then 1 else 0
  let rd := rp.take (prec + 1 - hz)
  ⟨prec, if neg then -(rd.length : Int) else rd.length, rexp - hz, rd⟩

/-- div.c:58-148 -/
def div (prec : Nat) (u v : F) : Res :=
  if v.size = 0 then .div0                                                        -- :75
  else if u.size = 0 then .ok (zero prec)                                         -- :78-83
  else
    let usize : Int := u.d.length
    let vsize : Int := v.d.length
    let rexp := u.exp - v.exp + 1                                                 -- :86
    let prospective := usize - vsize + 1                                          -- :92
    let zeros : Int := (prec + 1 : Nat) - prospective                             -- :95
    let chop := (max (-zeros) 0).toNat                                            -- :98
    let up := u.d.drop chop                                                       -- :99-100
    let zeros' := (zeros + chop).toNat                                            -- :101
    let q := (val up * B ^ zeros') / val v.d                                      -- :138 mpn_tdiv_qr
    .ok (quotFinish prec ((u.size < 0) != (v.size < 0)) q rexp)

/-- div_ui.c:28-101 -/
def div_ui (prec : Nat) (u : F) (v : Nat) : Res :=
  if v = 0 then .div0                                                             -- :60
  else if u.size = 0 then .ok (zero prec)                                         -- :63-68
  else
    let tsize := prec + 1                                                         -- :75
    let up := top tsize u.d                                                       -- :78-83
    let t := val up * B ^ (tsize - up.length)                                     -- :84-91
    -- :93 mpn_divmod_1 gives tsize quotient limbs; :94-99 strip one possible high zero limb, sign of u
    .ok (quotFinish prec (u.size < 0) (t / v) u.exp)

/-- ui_div.c:30-119 -/
def ui_div (prec : Nat) (u : Nat) (v : F) : Res :=
  if v.size = 0 then .div0                                                        -- :46
  else if u = 0 then .ok (zero prec)                                              -- :49-54
  else
    let vsize := v.d.length
    let rexp := 1 - v.exp + 1                                                     -- :57
    let tsize := prec + vsize                                                     -- :62-66: 1 + (prec+1 - (2 - vsize))
    let q := (u * B ^ (tsize - 1)) / val v.d                                      -- :93-109
    .ok (quotFinish prec (v.size < 0) q rexp)

/-- set_q.c:65-146 (den > 0, canonical not needed by the code) -/
def set_q (prec : Nat) (num : Int) (den : Nat) : F :=
  if num = 0 then zero prec                                                       -- :79-84
  else
    let np := natLimbs num.natAbs
    let dp := natLimbs den
    let nsize : Int := np.length
    let dsize : Int := dp.length
    let prospective := nsize - dsize + 1                                          -- :96
    let zeros : Int := (prec + 1 : Nat) - prospective                             -- :100
    let t := if zeros > 0 then val np * B ^ zeros.toNat                           -- :119-126
             else val (np.drop (-zeros).toNat)                                    -- :127-132
    quotFinish prec (num < 0) (t / den) prospective                               -- :135-143

/- ------------------------------------------------------------------ sqrt -/

/-- sqrt.c:55-104 -/
def sqrt (prec : Nat) (u : F) : Res :=
  if u.size < 0 then .sqrtneg                                                     -- :66
  else if u.size = 0 then .ok (zero prec)                                         -- :68-70
  else
    let expodd : Int := u.exp % 2                                                 -- :79
    let tsize := 2 * prec - expodd.toNat                                          -- :80
    let up := top tsize u.d                                                       -- :89-94
    let t := val up * B ^ (tsize - up.length)                                     -- :95-99
    .ok ⟨prec, prec, (u.exp + expodd) / 2, toLimbs prec (Nat.sqrt t)⟩              -- :81-82, :101

/-- sqrt_ui.c:62-100 (U2 == 0) -/
def sqrt_ui (prec : Nat) (u : Nat) : F :=
  if u = 0 then zero prec                                                         -- :69-74
  else ⟨prec, prec, 1, toLimbs prec (Nat.sqrt (u * B ^ (2 * prec - 2)))⟩           -- :79-98

/- ------------------------------------------------------------------ floor / ceil / trunc / int_p -/

/-- ceilfloor.c:35-104; dir = 1 ceil, -1 floor -/
def ceilOrFloor (prec : Nat) (u : F) (dir : Int) : F :=
  if u.size = 0 then zero prec                                                    -- :42-48
  else if u.exp ≤ 0 then                                                          -- :52-61
    if (u.size < 0) != (dir < 0) then zero prec else ⟨prec, dir, 1, [1]⟩
  else
    let asize0 := u.d.length
    let asize := min (min asize0 u.exp.toNat) (prec + 1)                          -- :69-75
    let up := top asize u.d                                                       -- :77
    let ignored := u.d.take (asize0 - asize)
    let sg (n : Nat) : Int := if u.size ≥ 0 then n else -(n : Int)
    if (u.size < 0) == (dir < 0) ∧ ignored.any (· != 0) then                      -- :79-99
      let s := val up + 1                                                         -- :87 mpn_add_1
      if s / B ^ asize ≠ 0 then ⟨prec, sg 1, u.exp + 1, [1]⟩                       -- :89-94
      else ⟨prec, sg asize, u.exp, toLimbs asize s⟩
    else ⟨prec, sg asize, u.exp, up⟩                                              -- :101-103

def floor (prec : Nat) (u : F) : F := ceilOrFloor prec u (-1)
def ceil (prec : Nat) (u : F) : F := ceilOrFloor prec u 1

/-- trunc.c:30-66 -/
def trunc (prec : Nat) (u : F) : F :=
  if u.size = 0 ∨ u.exp ≤ 0 then zero prec                                        -- :39-45
  else
    let asize := min (min u.d.length u.exp.toNat) (prec + 1)                      -- :53-59
    let up := top asize u.d
    ⟨prec, if u.size ≥ 0 then asize else -(asize : Int), u.exp, up⟩

/-- int_p.c:29-51 -/
def integer_p (u : F) : Bool :=
  if u.size = 0 then true
  else if u.exp ≤ 0 then false
  else (u.d.take (u.d.length - u.exp.toNat)).all (· == 0)                         -- :44-48

/- ------------------------------------------------------------------ mul_2exp / div_2exp -/

/-- the shifted data of mul_2exp.c:98-122 / div_2exp.c:104-128: `up` (n limbs) times 2^k (0 < k < 64) is n+1
    limbs of data (`mpn_lshift` with its carry-out limb on top, or `mpn_rshift` by 64-k into rp+1 with its
    shifted-out bits in rp[0]: identical data); `adj` = 1 iff the high limb is non-zero.  Returns (limbs kept, adj). -/
def shiftUp (up : List Nat) (k : Nat) : List Nat × Nat :=
  let n := up.length
  let full := toLimbs (n + 1) (val up * 2 ^ k)
  let adj := if topLimb full ≠ 0 then 1 else 0
  (full.take (n + adj), adj)

/-- mul_2exp.c:64-125 -/
def mul_2exp (prec : Nat) (u : F) (e : Nat) : F :=
  if u.size = 0 then zero prec                                                    -- :75-80
  else if e % 64 = 0 then                                                         -- :85-97
    let dp := top (prec + 1) u.d
    ⟨prec, if u.size ≥ 0 then dp.length else -(dp.length : Int), u.exp + (e / 64 : Nat), dp⟩
  else                                                                            -- :98-123
    let up := top prec u.d                                                        -- :102-105
    let (rd, adj) := shiftUp up (e % 64)                                          -- :109-112 / :116-118
    ⟨prec, if u.size ≥ 0 then rd.length else -(rd.length : Int), u.exp + (e / 64 : Nat) + adj, rd⟩

/-- div_2exp.c:70-131 -/
def div_2exp (prec : Nat) (u : F) (e : Nat) : F :=
  if u.size = 0 then zero prec                                                    -- :81-86
  else if e % 64 = 0 then                                                         -- :91-103
    let dp := top (prec + 1) u.d
    ⟨prec, if u.size ≥ 0 then dp.length else -(dp.length : Int), u.exp - (e / 64 : Nat), dp⟩
  else                                                                            -- :104-129
    let up := top prec u.d
    let (rd, adj) := shiftUp up (64 - e % 64)                                     -- :115-117 / :121-124
    ⟨prec, if u.size ≥ 0 then rd.length else -(rd.length : Int), u.exp - (e / 64 : Nat) - 1 + adj, rd⟩

/- ------------------------------------------------------------------ set_d -/

/-- extract-dbl.c:66-77 denormal loop: `do { manl <<= 1; exp--; } while (!(manl & HIGHBIT))` -/
def denorm : Nat → Nat → Int → Nat × Int
  | 0, m, e => (m, e)
  | fuel + 1, m, e =>
      let m1 := (m * 2) % B
      let e1 := e - 1
      if m1 / 2 ^ 63 % 2 = 0 then denorm fuel m1 e1 else (m1, e1)

/-- set_d.c:33-52 with extract-dbl.c:30-266 (IEEE path, 64-bit limbs, LIMBS_PER_DOUBLE = 2).
    `bits` = the binary64 pattern. -/
def set_d (prec : Nat) (bits : Nat) : Res :=
  let sign : Nat := bits / 2 ^ 63 % 2
  let bexp : Nat := bits / 2 ^ 52 % 2 ^ 11
  let man : Nat := bits % 2 ^ 52
  if bexp = 0x7FF then .invalid                                                   -- set_d.c:37-39
  else if bexp = 0 ∧ man = 0 then .ok (zero prec)                                 -- :41-46
  else
    -- extract-dbl.c:64-77
    let manl0 : Nat := 2 ^ 63 + man * 2 ^ 11
    let (manl, exp0) : Nat × Int := if bexp = 0 then denorm 64 manl0 1 else (manl0, (bexp : Int))
    let exp1 := exp0 - 1022                                                       -- :99
    let sc := ((exp1 + 64 * 64) % 64).toNat                                       -- :148
    let exp2 := (exp1 + 64 * 64) / 64 - 64 + 1                                    -- :151
    let (d, e) : List Nat × Int :=
      if sc ≠ 0 then ([(manl * 2 ^ sc) % B, manl / 2 ^ (64 - sc)], exp2)          -- :155-159
      else ([0, manl], exp2 - 1)                                                  -- :160-165
    .ok ⟨prec, if sign = 1 then -2 else 2, e, d⟩                                   -- set_d.c:50-51

/- ------------------------------------------------------------------ cmp / eq -/

/-- cmp.c:26-108 -/
def cmp (u v : F) : Int :=
  if (u.size < 0) != (v.size < 0) then (if u.size ≥ 0 then 1 else -1)             -- :41, :53-56
  else if u.size = 0 then (if v.size ≠ 0 then -1 else 0)                          -- :44-46
  else if v.size = 0 then 1                                                       -- :47-49
  else
    let usign : Int := if u.size ≥ 0 then 1 else -1                               -- :60
    if u.exp > v.exp then usign                                                   -- :63-66
    else if u.exp < v.exp then -usign
    else
      let up := stripLow u.d                                                      -- :77-86
      let vp := stripLow v.d
      let usize := up.length
      let vsize := vp.length
      if usize > vsize then                                                       -- :89-94
        let c := val (up.drop (usize - vsize))
        if c = val vp then usign else if c > val vp then usign else -usign
      else if vsize > usize then                                                  -- :95-100
        let c := val (vp.drop (vsize - usize))
        if val up = c then -usign else if val up > c then usign else -usign
      else
        if val up = val vp then 0 else if val up > val vp then usign else -usign  -- :101-107

/-- count_leading_zeros of a non-zero limb -/
def clz (x : Nat) : Nat := 63 - x.log2

/-- eq.c:29-101 -/
def eq (u v : F) (nbits : Nat) : Bool :=
  if (u.size < 0) != (v.size < 0) then false                                      -- :43, :53-57
  else if u.size = 0 then v.size = 0                                              -- :46-47
  else if v.size = 0 then false                                                   -- :48-49
  else if u.exp ≠ v.exp then false                                                -- :62-65
  else
    let usize : Int := u.d.length
    let vsize : Int := v.d.length
    let cu := clz (topLimb u.d)                                                   -- :73-76
    let cv := clz (topLimb v.d)
    if cu ≠ cv then false
    else
      let n : Int := ((nbits + cu + 63) / 64 : Nat)                               -- :77
      if n = 0 then true else                                                     -- :78-79 (9e50076)
      let k := (n.toNat * 64 - nbits - cu)                                        -- :79
      let get (l : List Nat) (i : Int) : Nat := if i ≥ 0 then l.getD i.toNat 0 else 0
      let uval := get u.d (usize - n)                                             -- :80-84
      let vval := get v.d (vsize - n)
      if uval >>> k ≠ vval >>> k then false                                       -- :85
      else
        -- :88-97
        (List.range (n.toNat - 1)).all (fun j =>
          let i : Int := usize - n + 1 + j
          get u.d i == get v.d (i - usize + vsize))

/- ------------------------------------------------------------------ precision changes -/

/-- init2.c:26-35 -/
def init2 (bits : Nat) : F := zero (BITS_TO_PREC bits)

/-- set_prc.c:33-60 -/
def set_prec (x : F) (bits : Nat) : F :=
  let np := BITS_TO_PREC bits
  if np = x.prec then x                                                           -- :43
  else
    let dp := top (np + 1) x.d                                                    -- :53-57
    ⟨np, if x.size ≥ 0 then dp.length else -(dp.length : Int), x.exp, dp⟩

/-- set_prc_raw.c:28-31 -/
def set_prec_raw (x : F) (bits : Nat) : F := {x with prec := BITS_TO_PREC bits}

/-- get_prc.c:26-29 -/
def get_prec (x : F) : Nat := PREC_TO_BITS x.prec

end Mpir.Mpf
