/-
  mpir_fft_mulmod_2expp1 (property C01): the FFT-based product modulo B^r_limbs + 1 used for the pointwise products of
  transforms whose coefficients exceed FFT_MULMOD_2EXPP1_CUTOFF limbs (mpn_mulmod_Bexpp1, mpn_mulmod_2expp1_basecase).
  Value level, continuing Mpir/Model/FftNeg.lean: limbs → mpir_fft_split_bits (limb model) → negacyclic transforms
  (value models) → pointwise products (limb model of mpn_mulmod_2expp1_basecase) → inverse transform → the word
  convolution (limb model) → recombination of the two residues → assembly of r1 as a number modulo B^(r_limbs+1)
  (every mpn_add / mpn_sub_1 / mpn_sub_n on the tail of r1 is an addition or subtraction modulo B^(r_limbs+1)).
  Core Lean only (linked into the driver).  Tie: op `fftx_fft_mulmod_2expp1` (Mpir/Ops/FftMulmod.lean ↔ harness/ops_fftmulmod.c).

  Mirrored: fft/mulmod_2expp1.c:54-175 (mpir_fft_mulmod_2expp1).
  Domain (what mpn_mulmod_Bexpp1 / mpn_mulmod_2expp1_basecase arrange through mpir_fft_adjust_limbs): n = 2^depth ≥ 2,
  2n·bits1 = 64·r_limbs with 64 ∣ bits1 (limb_add = bits1/64 ≥ 1), n·w = 2·bits1.
-/
import Mpir.Model.FftNeg
namespace Mpir.FftX
open Mpir

/-- one coefficient after mulmod_2expp1.c:127-139: from the canonical residue `v` (limbs+1 limbs, top limb 0 or 1) of the
    inverse transform and the word `rj` of the word convolution, the limbs+1-limb number stored in ii[j] and the word r[j] -/
def recombine (L : Nat) (v : List Nat) (rj : Nat) : Nat × Nat :=
  let t := Fft.top v                                                          -- :133
  let tau := (rj + B - v.getD 0 0) % B                                        -- :134  r[j] - ii[j][0]
  let W := val (Fft.lo v) + tau * B ^ L + tau + t * B ^ L                     -- :135-137  mpn_add_1, add_ssaaaa, r[j]++
  (W % B ^ (L + 1), W / B ^ (L + 1))

def fft_mulmod_2expp1 (i1 i2 : List Nat) (depth w : Nat) : List Nat :=
  let n := 2 ^ depth                                                          -- :57
  let R := i1.length
  let bits1 := R * 64 / (2 * n)                                               -- :58
  let L := n * w / 64                                                         -- :60
  let wn := 64 * L
  let M := B ^ (R + 1)
  let pad := fun (cs : List (List Nat)) =>
    (cs.map fun c => Fft.rval c) ++ List.replicate (2 * n - cs.length) (0 : Int)     -- :98-100
  let lows := fun (cs : List (List Nat)) =>
    (cs.map fun c => c.getD 0 0) ++ List.replicate (2 * n - cs.length) 0      -- :102-103  ii0[i] = ii[i][0]
  let c1 := Fft.split_bits i1 bits1 L
  let c2 := Fft.split_bits i2 bits1 L
  let ii := fft_negacyclic depth w (pad c1)                                   -- :105
  let jj := fft_negacyclic depth w (pad c2)                                   -- :117
  let pr := (List.range (2 * n)).map fun j => pointwise L (n * w) (el ii j) (el jj j)     -- :120-126
  let inv := ifft_negacyclic depth w pr                                       -- :128
  let r := fft_naive_convolution_1 (lows c1) (lows c2)                        -- :130
  let co := (List.range (2 * n)).map fun j =>
    recombine L (canon L (el inv j * 2 ^ (2 * wn - (depth + 1)))) (r.getD j 0)     -- :132-140
  let U := fun j => (co.getD j (0, 0)).1
  let rw := fun j => (co.getD j (0, 0)).2
  let la := bits1 / 64                                                        -- :151
  -- mpir_fft_combine_bits (r1, ii, 2n - 1, bits1, limbs + 1, r_limbs + 1), bits1 a multiple of 64 (:143)
  let r1 := (List.range (2 * n - 1)).foldl (fun acc j => (acc + U j * B ^ (j * la)) % M) 0
  -- the sign corrections (:153-164)
  let r1 := (List.range (2 * n - 2)).foldl (fun acc j =>
    let ll := j * la
    if rw j ≠ 0 then (acc + M - B ^ (ll + 1) % M) % M                         -- :155-156
    else if U j / B ^ L ≥ B / 2 then                                          -- :157
      ((acc + M - B ^ (ll + 1) % M) % M + M - B ^ (ll + L + 1) % M) % M       -- :159-160
    else acc) r1
  let jl := 2 * n - 2
  let ll := jl * la
  let r1 := if rw jl ≠ 0 ∨ U jl / B ^ L ≥ B / 2 then (r1 + M - B ^ (ll + 1) % M) % M else r1      -- :166-167
  -- the last coefficient wraps around (:169-172)
  let Ul := U (2 * n - 1)
  let r1 := if la ≠ 0 then (r1 + Ul % B ^ la * B ^ (R - la)) % M else r1      -- :170-171
  let r1 := (r1 + M - Ul / B ^ la % M) % M                                    -- :172-173  mpn_sub_n, the borrow propagated
  -- mpn_normmod_2expp1 (r1, r_limbs) (:174): the r_limbs+1 limbs as a signed number
  let s : Int := if r1 ≥ M / 2 then (r1 : Int) - (M : Int) else (r1 : Int)
  canon R s

end Mpir.FftX
