/-
  C06 — radix conversion.  Specification and executable models.  Core Lean only.

  Specification:  `digitsOf`, `ofDigits`, `digitChar`, `getStrSpec`, `charValue`, `parseSpec`.
  Models (mirroring the C, file:line cited):
    mpn/generic/get_str.c    mpn_get_str (power-of-two path), mpn_sb_get_str; mpn_dc_get_str at spec level
    mpn/generic/set_str.c    mpn_set_str (power-of-two path), mpn_bc_set_str;  mpn_dc_set_str at spec level
    gmp-impl.h               MPN_SIZEINBASE, MPN_SIZEINBASE_2EXP (binary64 multiply = exact rational + rn53)
    mpz/get_str.c set_str.c iset_str.c out_str.c inp_str.c sizeinbase.c, mpq/get_str.c set_str.c
  Tables come from Mpir/Gen/Bases.lean (regenerated from the source on every check).
  Characters and digits are `Nat` (bytes); strings are `List Nat`, most significant / first character first.
-/
import Mpir.Base
import Mpir.Model.Kernels
import Mpir.Gen.Bases
namespace Mpir.Radix
open Mpir

/-! ## Specification -/

/-- digits of `x` in base `b`, most significant first, prepended to `acc`; nothing for 0. -/
def digitsAcc (b : Nat) (x : Nat) (acc : List Nat) : List Nat :=
  if _h : x = 0 ∨ b < 2 then acc else digitsAcc b (x / b) (x % b :: acc)
termination_by x
decreasing_by
  have hx : x ≠ 0 := fun e => _h (Or.inl e)
  have _hb : ¬ b < 2 := fun e => _h (Or.inr e)
  exact Nat.div_lt_self (Nat.pos_of_ne_zero hx) (by omega)

/-- The digits of `x` in base `b`, most significant first, no leading zero; `[]` for 0.
    (`= (Nat.digits b x).reverse`, proved in MpirProofs/Lemmas/Radix.lean.) -/
def digitsOf (b x : Nat) : List Nat := digitsAcc b x []

/-- value of a digit string, most significant first -/
def ofDigits (b : Nat) (ds : List Nat) : Nat := ds.foldl (fun a d => a * b + d) 0

/-- exactly `n` digits of `r` (for `r < b^n`), most significant first, with leading zeros -/
def fixedDigits (b : Nat) : Nat → Nat → List Nat
  | 0, _ => []
  | n + 1, r => r / b ^ n :: fixedDigits b n (r % b ^ n)

/-- The documented alphabets (mpir.texi, mpz_get_str): `0-9a-z` for 2..36, `0-9A-Z` for -2..-36,
    `0-9A-Za-z` for 37..62.  ASCII codes. -/
def digitChar (base : Int) (d : Nat) : Nat :=
  if base < 0 then (if d < 10 then 48 + d else 65 + (d - 10))
  else if base ≤ 36 then (if d < 10 then 48 + d else 97 + (d - 10))
  else if d < 10 then 48 + d else if d < 36 then 65 + (d - 10) else 97 + (d - 36)

/-- what mpz_get_str / mpz_out_str must produce for a legal base (2..62, -2..-36): optional `-`, the
    digits without leading zeros, `"0"` for zero. -/
def getStrSpec (base : Int) (x : Int) : List Nat :=
  let b := base.natAbs
  let ds := if x = 0 then [0] else digitsOf b x.natAbs
  (if x < 0 then [45] else []) ++ ds.map (digitChar base)

/-- C `isspace` in the "C" locale: space, \t \n \v \f \r -/
def isSpace (c : Nat) : Bool := c == 32 || (9 ≤ c && c ≤ 13)

/-- documented digit value of a character: `0-9`; letters are case-insensitive 10..35 for bases up to 36;
    for bases 37..62 upper case is 10..35 and lower case is 36..61. -/
def charValue (base c : Nat) : Option Nat :=
  if 48 ≤ c ∧ c ≤ 57 then some (c - 48)
  else if 65 ≤ c ∧ c ≤ 90 then some (c - 65 + 10)
  else if 97 ≤ c ∧ c ≤ 122 then some (if base ≤ 36 then c - 97 + 10 else c - 97 + 36)
  else none

/-- value of a character as a digit of base `b`, with the case rule of the *requested* base `rb` -/
def digitOf (rb b c : Nat) : Option Nat :=
  match charValue rb c with
  | some v => if v < b then some v else none
  | none => none

/-- base-0 prefix rule: `0x`/`0X` hexadecimal, `0b`/`0B` binary, `0` octal, decimal otherwise -/
def splitPrefix : List Nat → Nat × List Nat
  | 48 :: 120 :: r => (16, r)
  | 48 :: 88 :: r => (16, r)
  | 48 :: 98 :: r => (2, r)
  | 48 :: 66 :: r => (2, r)
  | 48 :: r => (8, r)
  | s => (10, s)

/-- The accepted language and its value (mpz_set_str).  `s` is a C string (cut at the first NUL).
    Leading white space; optional `-`; the next character must be a digit of the base (a decimal digit when
    base = 0 — white space is *not* allowed after the sign, so `"- 5"` is rejected); base 0 selects the base
    from the prefix; after that white space is skipped everywhere and every other character must be a digit of
    the base.  `"0x"` with base 0 is 0.  Base outside {0, 2..62} is rejected. -/
def parseSpec (base : Int) (s : List Nat) : Option Int :=
  let s := s.takeWhile (· != 0)
  if base < 0 ∨ base = 1 ∨ 62 < base then none else
  let rb := base.toNat
  let s := s.dropWhile isSpace
  let neg := s.head? == some 45
  let s := if neg then s.drop 1 else s
  match s with
  | [] => none
  | c :: _ =>
    if (digitOf rb (if rb = 0 then 10 else rb) c).isNone then none else
    let (b, s) := if rb = 0 then splitPrefix s else (rb, s)
    match (s.filter (fun c => !isSpace c)).mapM (digitOf rb b) with
    | none => none
    | some ds => some (if neg then -(Int.ofNat (ofDigits b ds)) else Int.ofNat (ofDigits b ds))

/-! ## Tables -/

/-- mp_bases[b] for 2 ≤ b ≤ 62 -/
def entry (b : Nat) : Nat × Nat × Nat × Nat :=
  if 2 ≤ b then Gen.mpBases.getD (b - 2) (0, 0, 0, 0) else (0, 0, 0, 0)
def charsPerLimb (b : Nat) : Nat := (entry b).1
def cpbeBits (b : Nat) : Nat := (entry b).2.1
def bigBase (b : Nat) : Nat := (entry b).2.2.1
def bigBaseInv (b : Nat) : Nat := (entry b).2.2.2

/-- POW2_P (gmp-impl.h:623): `(n & (n-1)) == 0` -/
def pow2P (n : Nat) : Bool := n &&& (n - 1) == 0

/-- count_leading_zeros of a non-zero limb (W primitive, `bsrq`): 63 - ⌊log2 x⌋ -/
def clz (x : Nat) : Nat := 63 - Nat.log2 x

/-- digit_value_tab[off + c] (mp_dv_tab.c); off = 224 for bases above 36 -/
def digitValue (off c : Nat) : Nat := Gen.digitValueTab.getD (off + c) 255

/-! ## mpn_get_str -/

/-- mpn_divrem_1 / mpn_preinv_divrem_1 integer part: quotient limbs (same length) and remainder of
    {up} / d, processed from the most significant limb with udiv_qrnnd (arithmetic meaning). -/
def divrem1 : List Nat → Nat → List Nat × Nat
  | [], _ => ([], 0)
  | u :: us, d =>
      let (qs, r) := divrem1 us d
      let n := r * B + u
      (n / d :: qs, n % d)

/-- the `chars_per_limb` digit loop of mpn_sb_get_str (get_str.c:229): `i` times
    umul_ppmm (digit, frac, frac, base); returns the digits and the final fraction -/
def peel (b : Nat) : Nat → Nat → List Nat × Nat
  | 0, frac => ([], frac)
  | i + 1, frac =>
      let (digit, frac') := umul_ppmm frac b
      let (ds, f) := peel b i frac'
      (digit :: ds, f)

/-- second phase of the base-10 special case (get_str.c:182): 60-bit fractions, plain multiply -/
def peel10 : Nat → Nat → List Nat
  | 0, _ => []
  | i + 1, frac =>
      let frac1 := (frac * 10) % B
      let digit := frac1 >>> 60
      digit :: peel10 i (frac1 &&& ((B - 1) >>> 4))

/-- digits of one fraction limb, base-10 special case (get_str.c:154-191) with the constants of gmp-impl.h:
    4 - NORMALIZATION_STEPS umul_ppmm steps, then `frac = (frac + 0xf) >> 4` and the 60-bit loop -/
def peelBase10 (frac : Nat) : List Nat :=
  let cpl10 := Gen.mpBases10.1
  let norm10 := Gen.mpBases10.2.2.2
  let k := 4 - min norm10 4
  let (first, frac') := peel 10 k frac
  let frac'' := ((frac' + 0xf) % B) >>> 4
  first ++ peel10 (cpl10 - k) frac''

/-- the `while (un > 1)` loop of mpn_sb_get_str (get_str.c:148/218).  `u` = rp+1 (current number, un limbs),
    `acc` = digits already stored at s.  `fuel` bounds the iterations (64·un+1 suffices, see the theorem). -/
def sbLoop (b cpl bb : Nat) (ten : Bool) : Nat → List Nat → List Nat → List Nat × List Nat
  | 0, u, acc => (u, acc)
  | fuel + 1, u, acc =>
      if u.length > 1 then
        let (q, r) := divrem1 u bb                       -- integer quotient rp[1..un], remainder
        let frac0 := (r * B) / bb                        -- rp[0]: the one fraction limb (qxn = 1)
        let q' := if q.getLast! == 0 then q.dropLast else q      -- un -= rp[un] == 0
        let frac := (frac0 + 1) % B
        let ds := if ten then peelBase10 frac else (peel b cpl frac).1
        sbLoop b cpl bb ten fuel q' (ds ++ acc)
      else (u, acc)

/-- mpn_sb_get_str (get_str.c:118) with len = 0: the digits (values 0..base-1), most significant first.
    Requires un ≥ 1 and the top limb non-zero. -/
def sb_get_str (base : Nat) (up : List Nat) : List Nat :=
  let ten := base == 10
  let cpl := if ten then Gen.mpBases10.1 else charsPerLimb base
  let bb := if ten then Gen.mpBases10.2.1 else bigBase base
  let (u, acc) := sbLoop base cpl bb ten (64 * up.length + 1) up []
  -- ul = rp[1]; while (ul != 0) { udiv_qrnd_unnorm (ul, rl, ul, base); *--s = rl; }
  digitsAcc base (u.headD 0) acc

/-- inner `while (bit_pos >= 0)` of the power-of-two path (get_str.c:373): digits emitted and the final
    (negative) bit_pos -/
def pow2Inner (bpd n1 : Nat) (bp : Int) : List Nat × Int :=
  if _h : 0 ≤ bp ∧ 0 < bpd then
    let d := (n1 >>> bp.toNat) &&& ((1 <<< bpd) - 1)
    let (ds, bp') := pow2Inner bpd n1 (bp - bpd)
    (d :: ds, bp')
  else ([], bp)
termination_by (bp + bpd).toNat
decreasing_by omega

/-- outer `for (;;)` of the power-of-two path (get_str.c:370); last argument = remaining lower limbs, most
    significant first. -/
def pow2Go (bpd : Nat) : Nat → Int → List Nat → List Nat
  | n1, bit_pos, [] => (pow2Inner bpd n1 (bit_pos - bpd)).1
  | n1, bit_pos, u :: rest =>
      let (ds, bp) := pow2Inner bpd n1 (bit_pos - bpd)
      let n0 := ((n1 <<< (-bp).toNat) % B) &&& ((1 <<< bpd) - 1)
      let bp := bp + 64
      ds ++ (n0 ||| (u >>> bp.toNat)) :: pow2Go bpd u bp rest

/-- mpn_get_str, power-of-two base (get_str.c:343-388).  un ≥ 1, top limb non-zero. -/
def get_str_pow2 (base : Nat) (up : List Nat) : List Nat :=
  let bpd := bigBase base                           -- bits_per_digit = mp_bases[base].big_base
  let un := up.length
  let n1 := up.getLast!
  let cnt := clz n1
  let bits := 64 * un - cnt
  let cnt := bits % bpd
  let bits := if cnt != 0 then bits + (bpd - cnt) else bits
  let bit_pos : Int := (bits : Int) - ((un - 1 : Nat) : Int) * 64
  pow2Go bpd n1 bit_pos (up.reverse.drop 1)

/-- mpn_get_str (get_str.c:320).  Raw digit values.  `un = 0` gives the single digit 0; the
    divide-and-conquer branch (un ≥ GET_STR_PRECOMPUTE_THRESHOLD) is taken at specification level. -/
def mpn_get_str (base : Nat) (up : List Nat) : List Nat :=
  if up.length == 0 then [0]
  else if pow2P base then get_str_pow2 base up
  else if up.length < Gen.getStrPrecomputeThreshold then sb_get_str base up
  else digitsOf base (val up)

/-! ## mpn_set_str -/

/-- power-of-two path of mpn_set_str (set_str.c:76-91); `ds` least significant digit first -/
def setPow2Go (bpd : Nat) : List Nat → Nat → Nat → List Nat
  | [], res, _ => if res != 0 then [res] else []
  | d :: ds, res, nb =>
      let res := res ||| ((d <<< nb) % B)
      let nb := nb + bpd
      if nb ≥ 64 then
        let nb := nb - 64
        res :: setPow2Go bpd ds (d >>> (bpd - nb)) nb
      else setPow2Go bpd ds res nb

def set_str_pow2 (base : Nat) (str : List Nat) : List Nat :=
  setPow2Go (bigBase base) str.reverse 0 0

/-- one chunk: res_digit = *str++; then res_digit = res_digit * base + *str++ (limb arithmetic) -/
def chunkVal (b : Nat) : List Nat → Nat
  | [] => 0
  | d :: ds => ds.foldl (fun r d => (r * b + d) % B) d

/-- `if (size == 0) {...} else { mul_1; add_1; if (cy_limb != 0) rp[size++] = cy_limb; }` (set_str.c:309) -/
def bcStep (rp : List Nat) (m : Nat) (res_digit : Nat) : List Nat :=
  if rp.length == 0 then (if res_digit != 0 then [res_digit] else [])
  else
    let (r1, cy1) := mul_1 rp m
    let (r2, cy2) := add_1 r1 res_digit
    let cy := (cy1 + cy2) % B
    if cy != 0 then r2 ++ [cy] else r2

/-- main loop `for (i = chars_per_limb; i < str_len; i += chars_per_limb)` then the last, possibly
    shorter, chunk with big_base = base^(its length) (set_str.c:292-360) -/
def bcLoop (b cpl bb : Nat) (str : List Nat) (rp : List Nat) : List Nat :=
  if _h : cpl < str.length ∧ 0 < cpl then
    bcLoop b cpl bb (str.drop cpl) (bcStep rp bb (chunkVal b (str.take cpl)))
  else
    bcStep rp ((str.drop 1).foldl (fun m _ => (m * b) % B) b) (chunkVal b str)
termination_by str.length
decreasing_by simp only [List.length_drop]; omega

/-- mpn_bc_set_str (set_str.c:271); str_len ≥ 1, digits < base.  (The base-10 branch of the C uses
    MP_BASES_CHARS_PER_LIMB_10 for the inner count; `bases_table_ok` shows it equals the table entry.) -/
def bc_set_str (base : Nat) (str : List Nat) : List Nat :=
  bcLoop base (charsPerLimb base) (bigBase base) str []

/-- mpn_set_str (set_str.c:59); the divide-and-conquer branch at specification level -/
def mpn_set_str (base : Nat) (str : List Nat) : List Nat :=
  if pow2P base then set_str_pow2 base str
  else if str.length < Gen.setStrPrecomputeThreshold then bc_set_str base str
  else natLimbs (ofDigits base str)

/-! ## MPN_SIZEINBASE -/

/-- IEEE-754 binary64 round-to-nearest-even of the positive dyadic `n / 2^k`, as `(m, k')` meaning
    `m / 2^k'` when `k' ≥ 0`... represented as numerator and denominator exponents `(m, up, k)` =
    `m · 2^up / 2^k` (no overflow/underflow in the range used). -/
def rn53 (n k : Nat) : Nat × Nat × Nat :=
  let len := if n = 0 then 0 else Nat.log2 n + 1
  if len ≤ 53 then (n, 0, k)
  else
    let s := len - 53
    let q := n >>> s
    let rem := n % 2 ^ s
    let half := 2 ^ (s - 1)
    let q' := if rem > half ∨ (rem = half ∧ q % 2 = 1) then q + 1 else q
    (q', s, k)

/-- mantissa (with the hidden bit) and negated exponent of a normal binary64 in (0, 1]:
    value = `m / 2^k` -/
def decodeDouble (bits : Nat) : Nat × Nat :=
  let e := (bits >>> 52) % 2048
  let m := bits % 2 ^ 52 + 2 ^ 52
  (m, 1075 - e)

/-- `(size_t) (totbits * chars_per_bit_exactly)`: size_t → double (rn53), double multiply (rn53),
    truncation. -/
def mulTrunc (totbits : Nat) (bits : Nat) : Nat :=
  let d := decodeDouble bits                 -- (mantissa, exponent): value d.1 / 2^d.2
  let t := rn53 totbits 0                    -- (double) totbits
  let p := rn53 (t.1 * d.1) d.2              -- the rounded product
  (p.1 <<< (p.2.1 + t.2.1)) / 2 ^ p.2.2

/-- the two branches of MPN_SIZEINBASE after `__totbits` is known (gmp-impl.h:2717-2724) -/
def sizeinbaseBits (totbits base : Nat) : Nat :=
  if pow2P base then
    let lb := bigBase base
    (totbits + lb - 1) / lb
  else mulTrunc totbits (cpbeBits base) + 1

/-- MPN_SIZEINBASE (gmp-impl.h:2700) -/
def sizeinbase (up : List Nat) (base : Nat) : Nat :=
  if up.length == 0 then 1
  else
    let cnt := clz up.getLast!
    let totbits := up.length * 64 - cnt
    sizeinbaseBits totbits base

/-- MPN_SIZEINBASE_2EXP (gmp-impl.h:2728); size > 0, top limb non-zero -/
def sizeinbase_2exp (up : List Nat) (base2exp : Nat) : Nat :=
  let cnt := clz up.getLast!
  let totbits := up.length * 64 - cnt
  (totbits + base2exp - 1) / base2exp

/-- mpz_sizeinbase (mpz/sizeinbase.c) -/
def mpz_sizeinbase (x : Int) (base : Nat) : Nat := sizeinbase (natLimbs x.natAbs) base

/-! ## mpz level -/

def numToTextLower : List Nat := "0123456789abcdefghijklmnopqrstuvwxyz".toList.map Char.toNat
def numToTextUpper : List Nat := "0123456789ABCDEFGHIJKLMNOPQRSTUVWXYZ".toList.map Char.toNat
def numToText62 : List Nat :=
  "0123456789ABCDEFGHIJKLMNOPQRSTUVWXYZabcdefghijklmnopqrstuvwxyz".toList.map Char.toNat

/-- base normalisation of mpz_get_str (mpz/get_str.c:44-66): `none` = returns NULL -/
def getStrBase (base : Int) : Option (Nat × List Nat) :=
  if base ≥ 0 then
    if base ≤ 1 then some (10, numToTextLower)
    else if base > 36 then (if base > 62 then none else some (base.toNat, numToText62))
    else some (base.toNat, numToTextLower)
  else
    let b := (-base).toNat
    if b ≤ 1 then some (10, numToTextUpper)
    else if b > 36 then none
    else some (b, numToTextUpper)

/-- mpz_get_str (mpz/get_str.c): the string without the terminating NUL; `none` = NULL. -/
def mpz_get_str (base : Int) (x : Int) : Option (List Nat) :=
  match getStrBase base with
  | none => none
  | some (b, tab) =>
      let ds := mpn_get_str b (natLimbs x.natAbs)
      some ((if x < 0 then [45] else []) ++ ds.map (fun d => tab.getD d 0))

/-- the buffer mpz_get_str allocates when `res_str == NULL` (get_str.c:72): sizeinbase + 1 + sign -/
def getStrAlloc (b : Nat) (x : Int) : Nat := mpz_sizeinbase x b + 1 + (if x < 0 then 1 else 0)

/-- `c = *str++` on a C string: NUL at the end -/
def rd : List Nat → Nat × List Nat
  | [] => (0, [])
  | c :: r => (c, r)

/-- `do c = *str++; while (isspace (c));` -/
def skipSpace : List Nat → Nat × List Nat
  | [] => (0, [])
  | c :: r => if isSpace c then skipSpace r else (c, r)

/-- `while (c == '0' || isspace (c)) c = *str++;` -/
def skipZeroSpace : Nat → List Nat → Nat × List Nat
  | c, [] => if c == 48 || isSpace c then (0, []) else (c, [])
  | c, c' :: r => if c == 48 || isSpace c then skipZeroSpace c' r else (c, c' :: r)

/-- the copy loop of mpz_set_str (set_str.c:104): drop white space, map through the digit table, fail on a
    non-digit.  `cs` = the characters from `c` to the end of the string. -/
def convDigits (off base : Nat) : List Nat → Option (List Nat)
  | [] => some []
  | c :: r =>
      if !isSpace c then
        let dig := digitValue off c
        if dig ≥ base then none
        else (convDigits off base r).map (dig :: ·)
      else convDigits off base r

/-- `if (c == '-') { negative = 1; c = *str++; }` (set_str.c:63) -/
def setStrSign (c : Nat) (str : List Nat) : Bool × Nat × List Nat :=
  if c == 45 then (true, (rd str).1, (rd str).2) else (false, c, str)

/-- base 0: choose the base from the leading characters (set_str.c:74-93) -/
def setStrPrefix (base : Int) (c : Nat) (str : List Nat) : Nat × Nat × List Nat :=
  if base = 0 then
    if c == 48 then
      let (c1, str1) := rd str
      if c1 == 120 || c1 == 88 then (16, (rd str1).1, (rd str1).2)
      else if c1 == 98 || c1 == 66 then (2, (rd str1).1, (rd str1).2)
      else (8, c1, str1)
    else (10, c, str)
  else (base.toNat, c, str)

/-- skip leading zeros and white space, empty ⇒ 0, else convert the digits (set_str.c:95-131) -/
def setStrTail (off base : Nat) (negative : Bool) (c : Nat) (str : List Nat) : Option Int :=
  let (c, str) := skipZeroSpace c str
  if c == 0 then some 0 else
  match convDigits off base (c :: str) with
  | none => none
  | some ds =>
      let xsize := mpn_set_str base ds
      some (if negative then -(Int.ofNat (val xsize)) else Int.ofNat (val xsize))

/-- mpz_set_str (mpz/set_str.c:35).  `none` = return -1 (x unchanged); `some v` = return 0, x = v. -/
def mpz_set_str (base : Int) (s : List Nat) : Option Int :=
  let s := s.takeWhile (· != 0)
  let off := if base > 36 then 224 else 0
  if base > 62 then none else
  let (c, str) := skipSpace s
  let (negative, c, str) := setStrSign c str
  -- `digit_value[c] >= (base == 0 ? 10 : base)`: an `int` comparison, so a negative base always fails
  if (digitValue off c : Int) ≥ (if base = 0 then 10 else base) then none else
  let (b, c, str) := setStrPrefix base c str
  setStrTail off b negative c str

/-- mpz_out_str (mpz/out_str.c): bytes written and return value.  Legal bases 2..62, -2..-36, and 0 (= 10);
    base > 62 writes nothing and returns 0. -/
def mpz_out_str (base : Int) (x : Int) : List Nat × Nat :=
  let bt : Option (Nat × List Nat) :=
    if base ≥ 0 then
      if base = 0 then some (10, numToTextLower)
      else if base > 36 then (if base > 62 then none else some (base.toNat, numToText62))
      else some (base.toNat, numToTextLower)
    else some ((-base).toNat, numToTextUpper)
  match bt with
  | none => ([], 0)
  | some (b, tab) =>
      if x = 0 then ([48], 1) else
      let ds := (mpn_get_str b (natLimbs x.natAbs)).dropWhile (· == 0)
      let out := (if x < 0 then [45] else []) ++ ds.map (fun d => tab.getD d 0)
      (out, out.length)

/-- result of the stream readers: return value, the value stored (if any), bytes consumed from the
    stream afterwards (`ftell`) -/
structure InpResult where
  ret : Nat
  value : Option Int
  pos : Nat
  deriving Repr, BEq

/-- `getc`: `none` = EOF; returns the character and the advanced position -/
def getc (s : List Nat) (pos : Nat) : Option Nat × Nat :=
  match s[pos]? with
  | some c => (some c, pos + 1)
  | none => (none, pos)

/-- digit loop of mpz_inp_str_nowhite (inp_str.c:96): longest run of digits of the base -/
def inpDigits (off base : Nat) (s : List Nat) : Nat → Nat → List Nat → List Nat × Nat
  | 0, pos, acc => (acc.reverse, pos)
  | fuel + 1, pos, acc =>
      match s[pos]? with
      | none => (acc.reverse, pos)
      | some c =>
          let dig := digitValue off c
          if dig ≥ base then (acc.reverse, pos)
          else inpDigits off base s fuel (pos + 1) (dig :: acc)

/-- stream index at which the digit loop of mpz_inp_str_nowhite starts: the character `c` sits at `pos - 1`
    unless the stream is at EOF -/
def inpStart (c : Option Nat) (pos : Nat) : Nat :=
  match c with | some _ => pos - 1 | none => pos

/-- mpz_inp_str_nowhite (mpz/inp_str.c:38): `c` = character already read (`none` = EOF), `pos` = stream
    position after it, `nread` = bytes counted so far. -/
def inp_str_nowhite (base : Int) (s : List Nat) (c : Option Nat) (pos nread : Nat) : InpResult :=
  let off := if base > 36 then 224 else 0
  if base > 62 then ⟨0, none, pos⟩ else
  let (negative, c, pos, nread) :=
    if c == some 45 then (true, (getc s pos).1, (getc s pos).2, nread + 1) else (false, c, pos, nread)
  match c with
  | none => ⟨0, none, pos⟩
  | some c0 =>
    if (digitValue off c0 : Int) ≥ (if base = 0 then 10 else base) then ⟨0, none, pos⟩ else
    -- base 0: look at the leading characters
    let (base, c, pos, nread) : Nat × Option Nat × Nat × Nat :=
      if base = 0 then
        if c0 == 48 then
          let (c1, pos1) := getc s pos
          if c1 == some 120 || c1 == some 88 then (16, (getc s pos1).1, (getc s pos1).2, nread + 2)
          else if c1 == some 98 || c1 == some 66 then (2, (getc s pos1).1, (getc s pos1).2, nread + 2)
          else (8, c1, pos1, nread + 1)
        else (10, some c0, pos, nread)
      else (base.toNat, some c0, pos, nread)
    -- skip leading zeros: `while (c == '0') { c = getc; nread++; }`
    let rec skipZeros (fuel : Nat) (c : Option Nat) (pos nread : Nat) : Option Nat × Nat × Nat :=
      match fuel with
      | 0 => (c, pos, nread)
      | fuel + 1 => if c == some 48 then skipZeros fuel (getc s pos).1 (getc s pos).2 (nread + 1) else (c, pos, nread)
    let (c, pos, nread) := skipZeros (s.length + 1) c pos nread
    -- the digit loop starts at the character `c`, i.e. at stream position pos-1 unless EOF
    let start := inpStart c pos
    let (ds, endpos) := inpDigits off base s (s.length + 1) start []
    -- getc calls made by the loop = ds.length (each stored digit is followed by one getc); the last one is
    -- pushed back with ungetc (a no-op at EOF) and `nread--`
    let nread := nread + ds.length - 1
    let value : Int := if ds.length == 0 then 0 else
      let v := Int.ofNat (val (mpn_set_str base ds))
      if negative then -v else v
    ⟨nread, some value, endpos⟩

/-- mpz_inp_str (mpz/inp_str.c:137): skip white space, then mpz_inp_str_nowhite -/
def mpz_inp_str (base : Int) (s : List Nat) : InpResult :=
  let rec skip (fuel pos nread : Nat) : Option Nat × Nat × Nat :=
    match fuel with
    | 0 => (none, pos, nread)
    | fuel + 1 =>
        match s[pos]? with
        | none => (none, pos, nread + 1)
        | some c => if isSpace c then skip fuel (pos + 1) (nread + 1) else (some c, pos + 1, nread + 1)
  let (c, pos, nread) := skip (s.length + 1) 0 0
  inp_str_nowhite base s c pos nread

/-! ## mpq level -/

/-- mpq_set_str (mpq/set_str.c): numerator and denominator parsed separately by mpz_set_str;
    `none` = return -1. -/
def mpq_set_str (base : Int) (s : List Nat) : Option (Int × Int) :=
  let s := s.takeWhile (· != 0)
  if s.contains 47 then
    let num := s.takeWhile (· != 47)
    let den := (s.dropWhile (· != 47)).drop 1
    match mpz_set_str base num with
    | none => none
    | some n => (mpz_set_str base den).map (fun d => (n, d))
  else (mpz_set_str base s).map (fun n => (n, 1))

/-- mpq_get_str (mpq/get_str.c): `num/den`, or `num` when the denominator is 1 -/
def mpq_get_str (base : Int) (n d : Int) : Option (List Nat) :=
  match mpz_get_str base n with
  | none => none
  | some ns => if d = 1 then some ns else (mpz_get_str base d).map (fun ds => ns ++ [47] ++ ds)

/-- mpq_out_str (mpq/out_str.c): numerator, then `/` and the denominator unless it is 1 -/
def mpq_out_str (base : Int) (n d : Int) : List Nat × Nat :=
  let (s1, r1) := mpz_out_str base n
  if d != 1 then
    let (s2, r2) := mpz_out_str base d
    (s1 ++ [47] ++ s2, r1 + (1 + r2))
  else (s1, r1)

/-- mpq_inp_str (mpq/inp_str.c): return value, (num, den) when it is non-zero, stream position -/
def mpq_inp_str (base : Int) (s : List Nat) : Nat × Option (Int × Int) × Nat :=
  let r := mpz_inp_str base s
  if r.ret == 0 then (0, none, r.pos) else
  let (c, pos) := getc s r.pos
  let nread := r.ret + 1
  if c == some 47 then
    let (c2, pos2) := getc s pos
    let r2 := inp_str_nowhite base s c2 pos2 (nread + 1)
    if r2.ret == 0 then (0, none, r2.pos)
    else (r2.ret, some (r.value.getD 0, r2.value.getD 0), r2.pos)
  else (nread - 1, some (r.value.getD 0, 1), r.pos)      -- ungetc (c, fp); nread--

end Mpir.Radix
