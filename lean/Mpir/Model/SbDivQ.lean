/-
  C02, multi-limb layer: mpn_sb_divappr_q and mpn_sb_div_q, limb for limb, on the window model of
  Mpir/Model/SbDiv.lean.  Core Lean only.

  Source mirrored (tie = correspondence, ops `sb_divappr_q`, `sb_div_q` in Mpir/Ops/SbDivQ.lean, harness/ops_sbdivq.c):
    mpn/generic/sb_divappr_q.c        (whole file: __divappr_helper, mpn_sb_divappr_q)
    mpn/generic/sb_div_q.c            (whole file)
    gmp-impl.h  udiv_qr_3by2, mpir_invert_pi1   (models: Mpir/Model/DivWord.lean, proved in C02_word)
    longlong.h  sub_333, add_ssaaaa              (Mpir.SbDiv.sub_333_0, Mpir.DivWord.add_ssaaaa)
    mpn_cmp, mpn_sub_n, mpn_add_n, mpn_add_1, mpn_sub_1, mpn_submul_1  (models: Mpir/Model/Kernels.lean)

  Shape of the models.  Both functions walk a pointer `np` down the dividend area.  As in SbDiv.lean the dividend
  area is split into the pieces the C touches:
    * the memory limbs of the current window, least significant first,
    * the register copies of its one (sb_div_q: `n1`) or two (sb_divappr_q: `cy`, `n1`) top limbs,
    * the dividend limbs not yet consumed.
  A memory cell that is stale (its current value lives in a register) is never read by the C except in
  __divappr_helper called from the truncating loop, where the stale top cell only influences cells that no caller
  reads; see `divapprHelper`.
  Theorems: MpirProofs/Props/C02_sbq.lean.
-/
import Mpir.Base
import Mpir.Model.Kernels
import Mpir.Model.DivWord
import Mpir.Model.SbDiv
namespace Mpir.SbDivQ
open Mpir Mpir.DivWord Mpir.SbDiv

/-! ## mpn_sb_divappr_q (sb_divappr_q.c) -/

/-- __divappr_helper (qp, np, dp, qn), sb_divappr_q.c:34-45, as far as the three limbs np[0..2] go (the quotient
    limbs qp[0..qn-1] = B-1 are produced by the callers below).  `mem` = the current memory limbs np[0], np[1], …;
    `k` = the C's `qn`.  When called from the truncating loop the C's mpn_sub_n covers one more limb than `mem` holds
    (the cell whose value lives in the register `cy`); borrows only travel upwards, so np[0..2] do not depend on it. -/
def divapprHelper (mem dp : List Nat) (k : Nat) : List Nat :=
  let hi := (mem.drop 1).take (k + 1)
  let s := (sub_n hi (dp.take (k + 1))).1                        -- :36 mpn_sub_n (np + 1, np + 1, dp, qn + 1)
  let a := add_ssaaaa (s.getD 1 0) (s.getD 0 0) 0 (dp.getD k 0)  -- :37 add_ssaaaa (np[2], np[1], np[2], np[1], 0, dp[qn])
  let np3 := [mem.getD 0 0, a.2, a.1]
  (dp.take k).reverse.foldl (fun m x => (add_1 m x).1) np3       -- :39-43 for (qn--; qn >= 0; qn--) mpn_add_1 (np, np, 3, dp[qn])

/-- the 3/2 step shared by both loops (sb_divappr_q.c:100-104, 160-164, 169-173):
    udiv_qr_3by2 (q, cy, n1, cy, n1, np[·]); cy1 = mpn_submul_1 (…, dp, qn, q); sub_333 (cy2, cy, n1, 0, cy, n1, 0, 0, cy1).
    `alo` = the memory limbs under the three-limb numerator, `dlo` = the divisor limbs under d0.
    Returns (q, new memory limbs, cy2, cy, n1). -/
def daRegular (dlo : List Nat) (d1 d0 dinv : Nat) (alo : List Nat) (m0 n1 cy : Nat) :
    Nat × List Nat × Nat × Nat × Nat :=
  let qr := udiv_qr_3by2 cy n1 m0 d1 d0 dinv
  let rc := submul_1 alo dlo qr.1
  let s := sub_333_0 qr.2.1 qr.2.2 rc.2
  (qr.1, rc.1, s.1, s.2.1, s.2.2)

/-- the q = B-1 step (sb_divappr_q.c:88-97 with np[0] = n1 stored first; :148-155):
    cy2 = cy - mpn_submul_1 (…, dp, len, q); cy = top limb; n1 = next limb.
    `mem` = the memory limbs of the window including the stored n1, `dp` = the whole current divisor. -/
def daSpecial (dp mem : List Nat) (cy : Nat) : Nat × List Nat × Nat × Nat × Nat :=
  let q := B - 1
  let r := submul_1 mem dp q
  let cy2 := (cy + B - r.2) % B
  let len := mem.length
  (q, r.1.take (len - 2), cy2, r.1.getD (len - 1) 0, r.1.getD (len - 2) 0)

/-- "correct if remainder/quotient is too large" (sb_divappr_q.c:107-113, 176-182):
    q--; cy1 = mpn_add_n (…, dp, qn); add_ssaaaa (cy, n1, cy, n1, d1, d0); add_ssaaaa (cy, n1, cy, n1, 0, cy1). -/
def daFix (dlo : List Nat) (d1 d0 : Nat) (s : Nat × List Nat × Nat × Nat × Nat) : Nat × List Nat × Nat × Nat :=
  if s.2.2.1 ≠ 0 then
    let sc := add_n s.2.1 dlo
    let a := add_ssaaaa s.2.2.2.1 s.2.2.2.2 d1 d0
    let b := add_ssaaaa a.1 a.2 0 sc.2
    ((s.1 + B - 1) % B, sc.1, b.1, b.2)
  else (s.1, s.2.1, s.2.2.2.1, s.2.2.2.2)

/-- one iteration of the first loop, sb_divappr_q.c:83-116 after `np--`.  `a` = np-dn+1 … np-1 (dn-1 limbs, the lowest is
    the dividend limb that enters), (cy, n1) = the two top limbs.  Returns (q, np-dn+1 … np-2, cy, n1). -/
def daStep1 (dp : List Nat) (d1 d0 dinv : Nat) (a : List Nat) (cy n1 : Nat) : Nat × List Nat × Nat × Nat :=
  let dn := dp.length
  if cy = d1 ∧ n1 = d0 then                                         -- :87
    daFix (dp.take (dn - 2)) d1 d0 (daSpecial dp (a ++ [n1]) cy)      -- :92 np[0] = n1
  else
    daFix (dp.take (dn - 2)) d1 d0
      (daRegular (dp.take (dn - 2)) d1 d0 dinv (a.take (dn - 2)) (a.getD (dn - 2) 0) n1 cy)

/-- the first loop, sb_divappr_q.c:83-116 (`for ( ; qn > dn - 2; qn--)`): `xs` = the dividend limbs it consumes, most
    significant first; `qs` = quotient limbs so far, least significant first. -/
def daLoop1 (dp : List Nat) (d1 d0 dinv : Nat) :
    List Nat → List Nat → Nat → Nat → List Nat → List Nat × List Nat × Nat × Nat
  | [], w, cy, n1, qs => (qs, w, cy, n1)
  | x :: xs, w, cy, n1, qs =>
    let s := daStep1 dp d1 d0 dinv (x :: w) cy n1
    daLoop1 dp d1 d0 dinv xs s.2.1 s.2.2.1 s.2.2.2 (s.1 :: qs)     -- :115 qp[qn] = q

/-- the last quotient limb, sb_divappr_q.c:194-243: the window is np[0] = m0, np[1] = n1, np[2] = cy, the divisor d1, d0.
    Returns (q, np[0..2]). -/
def daFinal (d1 d0 dinv m0 n1 cy : Nat) : Nat × List Nat :=
  if cy ≥ d1 then                                                    -- :201
    if cy > d1 ∨ (cy = d1 ∧ n1 ≥ d0) then                            -- :203
      (B - 1, divapprHelper [m0, n1, cy] [d0, d1] 1)                 -- :205 (qp[0] = B-1)
    else if n1 ≥ d0 then                                             -- :208 (never true here: Props, `daFinal_dead`)
      let r := submul_1 [m0, n1] [d0, d1] (B - 1)                    -- :213
      let cy' := (cy + B - r.2) % B
      if cy' ≠ 0 then                                                -- :216
        let s := add_n r.1 [d0, d1]
        (B - 2, s.1 ++ [(cy' + s.2) % B])                            -- :219-220
      else (B - 1, r.1 ++ [cy])
    else
      let qr := udiv_qr_3by2 cy n1 m0 d1 d0 dinv                     -- :224
      (qr.1, [qr.2.2, qr.2.1, 0])                                    -- :226 np[2] = 0
  else
    let qr := udiv_qr_3by2 cy n1 m0 d1 d0 dinv                       -- :232
    (qr.1, [qr.2.2, qr.2.1, 0])                                      -- :234

/-- the truncating loop sb_divappr_q.c:125-190 followed by the last limb :194-243.  First argument: the C's `qn`;
    `dp` = the current divisor (qn + 2 limbs, `dp++` drops its lowest limb after every step); `m` = np-qn … np after
    `np--` (qn + 1 memory limbs); (cy, n1) the two top limbs.  Returns (all quotient limbs, np[0..2] at the end). -/
def daLoop2 (d1 d0 dinv : Nat) : Nat → List Nat → List Nat → Nat → Nat → List Nat → List Nat × List Nat
  | 0, _, m, cy, n1, qs =>
    let f := daFinal d1 d0 dinv (m.getD 0 0) n1 cy
    (f.1 :: qs, f.2)
  | k + 1, dp, m, cy, n1, qs =>
    let qn := k + 1
    if cy ≥ d1 ∧ (cy > d1 ∨ (cy = d1 ∧ cmp ((m ++ [n1]).drop 1) (dp.take (qn + 1)) ≥ 0)) then   -- :133-138, np[1] = n1
      (List.replicate (qn + 1) (B - 1) ++ qs, divapprHelper (m ++ [n1]) dp (qn + 1))             -- :140-141
    else
      let s :=
        if cy ≥ d1 ∧ n1 ≥ d0 then daSpecial dp (m ++ [n1]) cy                                     -- :144-155
        else daRegular (dp.take qn) d1 d0 dinv (m.take qn) (m.getD qn 0) n1 cy                    -- :156-164, :167-174
      let t := daFix (dp.take qn) d1 d0 s                                                          -- :176-182
      daLoop2 d1 d0 dinv k (dp.drop 1) t.2.1 t.2.2.1 t.2.2.2 (t.1 :: qs)                           -- :184-185 qp[qn] = q; dp++

/-- mpn_sb_divappr_q after the cut of the divisor (sb_divappr_q.c:72-245): `dp` = the divisor limbs still used
    (min (dn, qn+1) of them), `qn0` = nn - dn of the call. -/
def daCore (np dp : List Nat) (qn0 dinv : Nat) : List Nat × List Nat × Nat :=
  let nn := np.length
  let dn := dp.length
  let hi := np.drop (nn - dn)
  let qh := if cmp hi dp ≥ 0 then 1 else 0                           -- :72
  let hi := if qh ≠ 0 then (sub_n hi dp).1 else hi                   -- :73-74
  let d1 := dp.getD (dn - 1) 0                                       -- :76
  let d0 := dp.getD (dn - 2) 0                                       -- :77
  let xs := (np.take (nn - dn)).reverse                              -- dividend limbs below the window, high to low
  let c1 := qn0 + 1 - dn                                             -- iterations of the first loop (:83 qn > dn - 2)
  let cy := hi.getD (dn - 1) 0                                       -- :81 / :122
  let n1 := hi.getD (dn - 2) 0                                       -- :82 / :123
  let s := daLoop1 dp d1 d0 dinv (xs.take c1) (hi.take (dn - 2)) cy n1 []
  let r := daLoop2 d1 d0 dinv (dn - 2) dp (xs.getD c1 0 :: s.2.1) s.2.2.1 s.2.2.2 s.1
  (r.1, r.2, qh)

/-- mpn_sb_divappr_q (qp, np, nn, dp, dn, dinv): dn > 2, nn > dn (the ASSERT says nn ≥ dn, but qp[0] is always stored),
    dp normalised, dinv = mpir_invert_pi1 (dp[dn-1], dp[dn-2]).
    Returns (the nn-dn quotient limbs, the three limbs np[dn-2 … dn] the function leaves, qh). -/
def sb_divappr_q (np dp0 : List Nat) (dinv : Nat) : List Nat × List Nat × Nat :=
  let nn := np.length
  let dn0 := dp0.length
  let qn0 := nn - dn0                                                -- :65
  let dp := if qn0 + 1 < dn0 then dp0.drop (dn0 - (qn0 + 1)) else dp0   -- :66-70
  daCore np dp qn0 dinv

/-! ## mpn_sb_div_q (sb_div_q.c) -/

/-- `x & flag` for flag ∈ {~0, 0} (sb_div_q.c:111 `flag = ~CNST_LIMB(0)`, :131/:190 `flag = 0`); `true` = ~0 -/
def andFlag (x : Nat) (flag : Bool) : Nat := if flag then x else 0

/-- sb_div_q.c:94-97 / :144-147: cy1 = n0 < cy; n0 = (n0 - cy) & GMP_NUMB_MASK; cy = n1 < cy1; n1 -= cy1.
    Returns (cy, n1, n0). -/
def dqBorrow (n1 n0 cy : Nat) : Nat × Nat × Nat :=
  let cy1 := boolToNat (n0 < cy)
  let n0' := (n0 + B - cy) % B
  let cy' := boolToNat (n1 < cy1)
  let n1' := (n1 + B - cy1) % B
  (cy', n1', n0')

/-- sb_div_q.c:90-105 / :140-155, the ordinary branch (text of sb_div_qr.c:85-99 with the borrow chain written out).
    `a` = np-dn … np+1 (dn offset by 2), `dp` the current divisor (dn + 2 limbs). -/
def dqRegular (dp : List Nat) (d1 d0 dinv : Nat) (a : List Nat) (n1 : Nat) : Nat × List Nat × Nat :=
  let dn := dp.length - 2
  let qr := udiv_qr_3by2 n1 (a.getD (dn + 1) 0) (a.getD dn 0) d1 d0 dinv   -- :90
  let rc := submul_1 (a.take dn) (dp.take dn) qr.1           -- :92
  let s := dqBorrow qr.2.1 qr.2.2 rc.2                       -- :94-97
  let r := rc.1 ++ [s.2.2]                                   -- :98 np[0] = n0
  if s.1 ≠ 0 then sbAddBack dp d1 qr.1 s.2.1 r               -- :100-104
  else (qr.1, r, s.2.1)

/-- one iteration of the first loop sb_div_q.c:80-109 after `np--` (same text as sb_div_qr.c:75-102) -/
def dqStepA (dp : List Nat) (d1 d0 dinv : Nat) (a : List Nat) (n1 : Nat) : Nat × List Nat × Nat :=
  let dn := dp.length - 2
  if n1 = d1 ∧ a.getD (dn + 1) 0 = d0 then sbSpecial dp a    -- :83-88
  else dqRegular dp d1 d0 dinv a n1

def dqLoopA (dp : List Nat) (d1 d0 dinv : Nat) : List Nat → List Nat → Nat → List Nat → List Nat × List Nat × Nat
  | [], w, n1, qs => (qs, w, n1)
  | x :: xs, w, n1, qs =>
    let s := dqStepA dp d1 d0 dinv (x :: w) n1
    dqLoopA dp d1 d0 dinv xs s.2.1 s.2.2 (s.1 :: qs)         -- :108 *--qp = q

/-- one iteration of the truncating loop sb_div_q.c:115-163 after `np--`: `dp` = the current divisor (dn + 2 limbs),
    `a` = np-dn … np+1.  Returns (q, np-dn … np, n1, flag). -/
def dqStepB (dp : List Nat) (d1 d0 dinv : Nat) (a : List Nat) (n1 : Nat) (flag : Bool) :
    Nat × List Nat × Nat × Bool :=
  let dn := dp.length - 2
  if n1 ≥ andFlag d1 flag then                               -- :118
    let rc := submul_1 a dp (B - 1)                          -- :120-121
    let t : Nat × List Nat × Bool :=
      if n1 ≠ rc.2 then                                      -- :123
        if n1 < andFlag rc.2 flag then (B - 2, (add_n rc.1 dp).1, flag)   -- :125-129
        else (B - 1, rc.1, false)                            -- :131
      else (B - 1, rc.1, flag)
    (t.1, t.2.1.take (dn + 1), t.2.1.getD (dn + 1) 0, t.2.2)   -- :133 n1 = np[1]
  else
    let s := dqRegular dp d1 d0 dinv a n1                    -- :137-155
    (s.1, s.2.1, s.2.2, flag)

/-- the last quotient limb sb_div_q.c:165-196: `a` = np[0], np[1]; divisor d1, d0.  Returns (q, np[0..1], n1, flag). -/
def dqLast (d1 d0 dinv : Nat) (a : List Nat) (n1 : Nat) (flag : Bool) : Nat × List Nat × Nat × Bool :=
  if n1 ≥ andFlag d1 flag then                               -- :166
    let rc := submul_1 a [d0, d1] (B - 1)                    -- :168-169
    let t : Nat × List Nat × Bool :=
      if n1 ≠ rc.2 then                                      -- :171
        if n1 < andFlag rc.2 flag then
          let s := add_ssaaaa (rc.1.getD 1 0) (rc.1.getD 0 0) d1 d0      -- :176
          (B - 2, [s.2, s.1], flag)
        else (B - 1, rc.1, false)                            -- :179
      else (B - 1, rc.1, flag)
    (t.1, t.2.1, t.2.1.getD 1 0, t.2.2)                      -- :181 n1 = np[1]
  else
    let qr := udiv_qr_3by2 n1 (a.getD 1 0) (a.getD 0 0) d1 d0 dinv   -- :185
    (qr.1, [qr.2.2, qr.2.1], qr.2.1, flag)                   -- :187-188

/-- sb_div_q.c:115-196: first argument = the C's (offset) `dn`.  Returns (quotient limbs, np[0..1], n1, flag). -/
def dqLoopB (d1 d0 dinv : Nat) : Nat → List Nat → List Nat → Nat → Bool → List Nat → List Nat × List Nat × Nat × Bool
  | 0, _, a, n1, flag, qs =>
    let s := dqLast d1 d0 dinv a n1 flag
    (s.1 :: qs, s.2.1, s.2.2.1, s.2.2.2)                     -- :195
  | k + 1, dp, a, n1, flag, qs =>
    let s := dqStepB dp d1 d0 dinv a n1 flag
    dqLoopB d1 d0 dinv k (dp.drop 1) s.2.1 s.2.2.1 s.2.2.2 (s.1 :: qs)   -- :157-161 *--qp = q; dn--; dp++

/-- result of the fix-up part: the final (quotient limbs, qh), or `none` when an ASSERT_ALWAYS would fire -/
abbrev DqRes := Option (List Nat × Nat)

/-- `cy = mpn_sub_1 (qp, qp, qn, 1); ASSERT_ALWAYS (cy == 0); return qh - cy;` (sb_div_q.c:245-247) -/
def dqExit1 (q : List Nat) (qh : Nat) : DqRes :=
  let s := sub_1 q 1
  if s.2 ≠ 0 then none else some (s.1, qh)

/-- "Compensate for triangularization", the loop sb_div_q.c:238-253, counting i+1 down: `r1` = np-dn … np-3 (the dividend
    limbs under the final window, dn - 2 of them), x, y.  Returns `inl` the early result or `inr (r1, x, y)`. -/
def dqTri (q dp : List Nat) (dn qh : Nat) : Nat → List Nat → Nat → Nat → Sum DqRes (List Nat × Nat × Nat)
  | 0, r1, x, y => .inr (r1, x, y)
  | i + 1, r1, x, y =>
    let rc := submul_1 (r1.drop i) (dp.take (dn - i - 2)) (q.getD i 0)    -- :240-241
    let r1' := r1.take i ++ rc.1
    if y < rc.2 then                                         -- :243
      if x = 0 then .inl (dqExit1 q qh)                      -- :245-249
      else dqTri q dp dn qh i r1' (x - 1) ((y + B - rc.2) % B)   -- :251-252
    else dqTri q dp dn qh i r1' x (y - rc.2)                 -- :252

/-- "Compensate for ignored dividend and divisor tails", the loop sb_div_q.c:283-296, counting i+1 down:
    `mem` = np[0 … dn-2] (original dn), `q` = the qn quotient limbs. -/
def dqTail (q dp0 : List Nat) (qh : Nat) : Nat → List Nat → Nat → List Nat × Nat
  | 0, _, _ => (q, qh)
  | i + 1, mem, x =>
    let qn := q.length
    let rc := submul_1 ((mem.drop i).take qn) q (dp0.getD i 0)    -- :285 mpn_submul_1 (np + i, qp, qn, dp[i])
    let sb := sub_1 (mem.drop (qn + i)) rc.2                      -- :286 mpn_sub_1 (np + qn + i, …, dn - qn - i - 1, cy)
    let mem' := mem.take i ++ rc.1 ++ sb.1
    if sb.2 ≠ 0 then                                              -- :287
      if x = 0 then ((sub_1 q 1).1, qh)                           -- :289-293 (`return qh`)
      else dqTail q dp0 qh i mem' (x - 1)
    else dqTail q dp0 qh i mem' x

/-- sb_div_q.c:203-298: `lowN` = the original dividend limbs np[0 … dn0-3], y = np[-2], x = n1 -/
def dqFixup (q dp dp0 lowN : List Nat) (qh x y : Nat) : DqRes :=
  let dn0 := dp0.length
  let dn := dp.length
  let sft := dn0 - dn
  match dqTri q dp dn qh (dn - 2) (lowN.drop sft) x y with          -- :225-255 (dn > 2 always)
  | .inl r => r
  | .inr (r1, x, y) =>
    let qn := q.length
    if qn + 1 < dn0 then                                            -- :258
      let mem := lowN.take sft ++ r1 ++ [y]                         -- np[0 … dn0-2]
      let sb := sub_n (mem.drop qn) (dp0.take sft)                  -- :267 (only if qh != 0)
      let bor := if qh ≠ 0 then sb.2 else 0
      let mem := if qh ≠ 0 then mem.take qn ++ sb.1 else mem
      if bor ≠ 0 ∧ x = 0 then                                       -- :268-275
        let cy := if qn ≠ 0 then (sub_1 q 1).2 else bor
        some (if qn ≠ 0 then (sub_1 q 1).1 else q, (qh + B - cy) % B)
      else
        let x := if bor ≠ 0 then x - 1 else x                       -- :276
        if qn = 0 then some (q, qh)                                 -- :280
        else some (dqTail q dp0 qh sft mem x)                       -- :283-296
    else some (q, qh)

/-- mpn_sb_div_q after the cut of the divisor (sb_div_q.c:66-298): `dp` = the divisor limbs used by the loops
    (min (dn, qn+1) of them), `dp0` = the whole divisor, `qn0` = nn - dn of the call. -/
def dqCore (np dp dp0 : List Nat) (qn0 dinv : Nat) : DqRes :=
  let nn := np.length
  let dn0 := dp0.length
  let dn := dp.length
  let hi := np.drop (nn - dn)
  let qh := if cmp hi dp ≥ 0 then 1 else 0                           -- :66
  let hi := if qh ≠ 0 then (sub_n hi dp).1 else hi                   -- :67-68
  let d1 := dp.getD (dn - 1) 0                                       -- :74
  let d0 := dp.getD (dn - 2) 0                                       -- :75
  let xs := (np.take (nn - dn)).reverse
  let c1 := qn0 + 1 - dn                                             -- :80 i = qn - (dn + 2) … 0
  let sA := dqLoopA dp d1 d0 dinv (xs.take c1) (hi.take (dn - 1)) (hi.getD (dn - 1) 0) []
  let sB := if dn < 2 then (sA.1, [np.getD (nn - 2) 0], sA.2.2, true)   -- :113 `if (dn >= 0)` (offset dn): nn = dn0, nothing to do
    else dqLoopB d1 d0 dinv (dn - 2) dp (xs.getD c1 0 :: sA.2.1) sA.2.2 true sA.1
  let n1 := sB.2.2.1
  if n1 < andFlag dn0 sB.2.2.2 then                                  -- :202
    dqFixup sB.1 dp dp0 (np.take (dn0 - 2)) qh n1 (sB.2.1.getD 0 0)
  else some (sB.1, qh)

/-- mpn_sb_div_q (qp, np, nn, dp, dn, dinv): dn > 2, nn ≥ dn, dp normalised, dinv = mpir_invert_pi1 (dp[dn-1], dp[dn-2]).
    Returns the nn-dn quotient limbs and qh (`none`: an ASSERT_ALWAYS of the C would fire).
    For nn = dn the divisor is cut to its top limb, every loop is skipped and only the fix-up decides qh. -/
def sb_div_q (np dp0 : List Nat) (dinv : Nat) : DqRes :=
  let nn := np.length
  let dn0 := dp0.length
  let qn0 := nn - dn0                                                -- :59
  let dp := if qn0 + 1 < dn0 then dp0.drop (dn0 - (qn0 + 1)) else dp0   -- :60-64
  dqCore np dp dp0 qn0 dinv

end Mpir.SbDivQ
