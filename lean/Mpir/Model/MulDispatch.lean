/-
  Size dispatch of multiplication, on top of the *generated* call skeletons
  (Mpir/Gen/MulDispatch.lean, translated from mul.c / mul_n.c on every check).
  `dispatch P un vn` names the algorithm that `mpn_mul (prodp, up, un, vp, vn)` selects; `domainOk`
  is the size domain of every callee (its `ASSERT`s / documented preconditions, cited per line).
  Core Lean only.
-/
import Mpir.Gen.MulDispatch
import Mpir.Model.MulAlgo
namespace Mpir.MulDispatch
open Mpir.Skel Mpir.Gen

inductive Algo where
  | basecase | basecaseChunked | sqrBasecase
  | kara | karaSqr | toom3n | toom3Sqr | toom4n | toom4Sqr | toom8h | toom8Sqr | fft
  | toom4 | toom53 | toom42 | toom3 | toom32
  | slide          -- mpn_mul_n on the low vn limbs, then the "slide" loop of mul.c:210-277
  | none
  deriving Repr, DecidableEq, Inhabited

/-- conventional pointer bases: prodp = 1, up = 2, vp = 3 (vp = up when the operands are the same object) -/
def runMul (P : Params) (same : Bool) (un vn : Nat) : Res :=
  MulDispatch.mpn_mul P (un + 2) [] 1 0 2 0 un (if same then 2 else 3) 0 vn
def runMulN (P : Params) (n : Nat) : Res := MulDispatch.mpn_mul_n P 0 [] 1 0 2 0 3 0 n
def runSqr (P : Params) (n : Nat) : Res := MulDispatch.mpn_sqr P 0 [] 1 0 2 0 n

/-- the calls that compute products (everything except bookkeeping events) -/
def isProduct (e : Ev) : Bool :=
  e.name ∈ ["mpn_mul_basecase", "mpn_sqr_basecase", "mpn_kara_mul_n", "mpn_kara_sqr_n", "mpn_toom3_mul_n",
            "mpn_toom3_sqr_n", "mpn_toom4_mul_n", "mpn_toom4_sqr_n", "mpn_toom8h_mul", "mpn_toom8_sqr_n",
            "mpn_mul_fft_main", "mpn_toom4_mul", "mpn_toom53_mul", "mpn_toom42_mul", "mpn_toom3_mul",
            "mpn_toom32_mul", "mpn_mul_n", "mpn_sqr", "mpn_mul"]

def products (r : Res) : List Ev := r.trace.filter isProduct

def algoOfName (name : String) (eq : Bool) : Algo :=
  if name == "mpn_mul_basecase" then .basecase
  else if name == "mpn_sqr_basecase" then .sqrBasecase
  else if name == "mpn_kara_mul_n" then .kara
  else if name == "mpn_kara_sqr_n" then .karaSqr
  else if name == "mpn_toom3_mul_n" then .toom3n
  else if name == "mpn_toom3_sqr_n" then .toom3Sqr
  else if name == "mpn_toom4_mul_n" then .toom4n
  else if name == "mpn_toom4_sqr_n" then .toom4Sqr
  else if name == "mpn_toom8h_mul" then (if eq then .toom8h else .toom8h)
  else if name == "mpn_toom8_sqr_n" then .toom8Sqr
  else if name == "mpn_mul_fft_main" then .fft
  else if name == "mpn_toom4_mul" then .toom4
  else if name == "mpn_toom53_mul" then .toom53
  else if name == "mpn_toom42_mul" then .toom42
  else if name == "mpn_toom3_mul" then .toom3
  else if name == "mpn_toom32_mul" then .toom32
  else .none

def firstAlgo (r : Res) : Algo :=
  match products r with
  | e :: _ => algoOfName e.name true
  | [] => .none

/-- Algorithm selected by `mpn_mul_n (p, a, b, n)` -/
def dispatchN (P : Params) (n : Nat) : Algo := firstAlgo (runMulN P n)
/-- Algorithm selected by `mpn_sqr (p, a, n)` -/
def dispatchSqr (P : Params) (n : Nat) : Algo := firstAlgo (runSqr P n)

/-- Algorithm selected by `mpn_mul (prodp, up, un, vp, vn)`, `same` = (up == vp). -/
def dispatch (P : Params) (same : Bool) (un vn : Nat) : Algo :=
  match products (runMul P same un vn) with
  | [] => .none
  | [e] =>
      if e.name == "mpn_mul_n" then dispatchN P un
      else if e.name == "mpn_sqr" then dispatchSqr P un
      else algoOfName e.name (un == vn)
  | e :: _ :: _ => if e.name == "mpn_mul_basecase" then .basecaseChunked else .slide

/-- Size domain of each callee, from its own source:
    * mpn_mul_basecase (mul_basecase.c): `ASSERT (un >= vn); ASSERT (vn >= 1)`
    * mpn_sqr_basecase: n ≥ 1
    * mpn_kara_mul_n / mpn_kara_sqr_n: n ≥ MPN_KARA_MUL_N_MINSIZE (gmp-impl.h:1423 "need 2 so that n2>=1")
    * mpn_toom3_mul_n / sqr_n: `ASSERT(n >= 17)` (toom3_mul_n.c:92, :266)
    * mpn_toom4_mul_n / sqr_n: n ≥ MPN_TOOM4_MUL_N_MINSIZE (gmp-impl.h:1429)
    * mpn_toom8h_mul: toom8h_mul.c ASSERTs, see `toom8hOk`; mpn_toom8_sqr_n: n ≥ MPN_TOOM8_SQR_N_MINSIZE
    * mpn_toom4_mul: `ASSERT (vn > 3*sn)`, sn = (un+3)/4 (toom4_mul.c:138-143); un ≥ vn; h1 = un - 3*sn ≥ 0 (:140, :166)
    * mpn_toom53_mul: `ASSERT (vn > 2*sn)`, sn = (un+4)/5 (toom4_mul.c:324-326); vn ≤ 3*sn (b2 has vn-2sn ≤ sn limbs);
      un - 4*sn ≥ 0 (TC4_NORM(a4, a4n, un - 4*sn) at :341 would otherwise produce a negative size)
    * mpn_toom42_mul: `ASSERT(bn > k); ASSERT(bn <= 2*k); ASSERT(an >= 20)`, k = (an+3)/4 (toom3_mul.c:428-431)
    * mpn_toom3_mul: `ASSERT(bn > 2*k); ASSERT(an >= 20)`, k = (an+2)/3 (toom3_mul.c:255-257); an ≥ bn
    * mpn_toom32_mul: `ASSERT(bn > k); ASSERT(an >= 20)`, k = (an+2)/3 (toom3_mul.c:629-631); bn ≤ 2k (r2 ≤ k is needed by :658-666)
    * mpn_mul_fft_main: `ASSERT(n1 > 0); ASSERT(n2 > 0)` (mul_fft_main.c:51-52)
    * mpn_mul_n, mpn_sqr: `ASSERT (n >= 1)` (mul_n.c:285, :335); mpn_mul: un ≥ vn ≥ 1 (mul.c:59-60)
    * mpn_add_n: n ≥ 1; mpn_add_1: n ≥ 1 (mpir.h `__GMPN_AORS_1` reads src[0]); MPN_COPY: n ≥ 0
    * ASSERT / ASSERT_ALWAYS: the asserted condition holds. -/
def domainOk (P : Params) (e : Ev) : Bool :=
  match e.name, sizeArgs e with
  | "mpn_mul_basecase", [un, vn] => decide (un ≥ vn ∧ vn ≥ 1)
  | "mpn_sqr_basecase", [n] => decide (n ≥ 1)
  | "mpn_kara_mul_n", [n] => decide (n ≥ P.MPN_KARA_MUL_N_MINSIZE ∧ n ≥ 2)
  | "mpn_kara_sqr_n", [n] => decide (n ≥ P.MPN_KARA_SQR_N_MINSIZE ∧ n ≥ 2)
  | "mpn_toom3_mul_n", [n] => decide (n ≥ 17)
  | "mpn_toom3_sqr_n", [n] => decide (n ≥ 17)
  | "mpn_toom4_mul_n", [n] => decide (n ≥ P.MPN_TOOM4_MUL_N_MINSIZE)
  | "mpn_toom4_sqr_n", [n] => decide (n ≥ P.MPN_TOOM4_SQR_N_MINSIZE)
  | "mpn_toom8h_mul", [un, vn] => decide (un ≥ vn ∧ vn ≥ 86 ∧ 4 * un ≤ 13 * vn)
  | "mpn_toom8_sqr_n", [n] => decide (n ≥ P.MPN_TOOM8_SQR_N_MINSIZE)
  | "mpn_toom4_mul", [un, vn] => decide (un ≥ vn ∧ vn > 3 * ((un + 3) / 4) ∧ un ≥ 3 * ((un + 3) / 4))
  | "mpn_toom53_mul", [un, vn] => decide (un ≥ vn ∧ vn > 2 * ((un + 4) / 5) ∧ vn ≤ 3 * ((un + 4) / 5) ∧ un ≥ 4 * ((un + 4) / 5))
  | "mpn_toom42_mul", [an, bn] => decide (an ≥ 20 ∧ bn > (an + 3) / 4 ∧ bn ≤ 2 * ((an + 3) / 4))
  | "mpn_toom3_mul", [an, bn] => decide (an ≥ 20 ∧ an ≥ bn ∧ bn > 2 * ((an + 2) / 3))
  | "mpn_toom32_mul", [an, bn] => decide (an ≥ 20 ∧ bn > (an + 2) / 3 ∧ bn ≤ 2 * ((an + 2) / 3))
  | "mpn_mul_fft_main", [n1, n2] => decide (n1 ≥ 1 ∧ n2 ≥ 1)
  | "mpn_mul_n", [n] => decide (n ≥ 1)
  | "mpn_sqr", [n] => decide (n ≥ 1)
  | "mpn_mul", [un, vn] => decide (un ≥ vn ∧ vn ≥ 1)
  | "mpn_add_n", [n] => decide (n ≥ 1)
  | "mpn_add_1", [n] => decide (n ≥ 1)
  | "MPN_COPY", [n] => decide (n ≥ 0)
  | "ASSERT", [c] => decide (c = 1)
  | "ASSERT_ALWAYS", [c] => decide (c = 1)
  | _, _ => true

/-- What the dispatch code assumes about the tuning constants (each conjunct is used by `mul_dispatch_safe`,
    `mul_n_dispatch_safe` or `sqr_dispatch_safe`; `params_valid` checks the regenerated values by `decide`):
    * mul.c:108-110  `tp[MUL_KARATSUBA_THRESHOLD_LIMIT]` holds vn < MUL_KARATSUBA_THRESHOLD limbs;
      mul.c:112 multiplies a MUL_BASECASE_MAX_UN-limb chunk by vn limbs with the chunk as the longer operand;
    * mul_n.c:296-298 / :356-358  stack workspaces sized by the *_LIMIT constants;
    * each algorithm is reached only at or above its threshold, which must be at least its minimum size
      (kara 3: mpn_kara_mul_n recurses on n/2 when n - n/2 ≥ threshold, and needs n/2 ≥ 2; toom3 17 (and 19 so that the unbalanced Toom-3 family of mul.c:180-208 gets an ≥ 20),
      toom4 MPN_TOOM4_MUL_N_MINSIZE, toom8h 86, toom8 squaring MPN_TOOM8_SQR_N_MINSIZE). -/
def Valid (P : Params) : Prop :=
  3 ≤ P.MUL_KARATSUBA_THRESHOLD ∧ P.MPN_KARA_MUL_N_MINSIZE ≤ P.MUL_KARATSUBA_THRESHOLD ∧
  P.MUL_KARATSUBA_THRESHOLD ≤ P.MUL_KARATSUBA_THRESHOLD_LIMIT ∧
  1 ≤ P.MUL_BASECASE_MAX_UN ∧ P.MUL_KARATSUBA_THRESHOLD ≤ P.MUL_BASECASE_MAX_UN + 1 ∧
  19 ≤ P.MUL_TOOM3_THRESHOLD ∧ P.MUL_TOOM3_THRESHOLD ≤ P.MUL_TOOM3_THRESHOLD_LIMIT ∧
  15 ≤ P.MUL_TOOM4_THRESHOLD ∧ P.MPN_TOOM4_MUL_N_MINSIZE ≤ P.MUL_TOOM4_THRESHOLD ∧
  86 ≤ P.MUL_TOOM8H_THRESHOLD ∧ P.MPN_TOOM8H_MUL_MINSIZE ≤ P.MUL_TOOM8H_THRESHOLD ∧
  3 ≤ P.SQR_KARATSUBA_THRESHOLD ∧ P.MPN_KARA_SQR_N_MINSIZE ≤ P.SQR_KARATSUBA_THRESHOLD ∧
  17 ≤ P.SQR_TOOM3_THRESHOLD ∧ P.SQR_TOOM3_THRESHOLD ≤ P.SQR_TOOM3_THRESHOLD_LIMIT ∧
  P.MPN_TOOM4_SQR_N_MINSIZE ≤ P.SQR_TOOM4_THRESHOLD ∧ 1 ≤ P.SQR_TOOM4_THRESHOLD ∧
  P.MPN_TOOM8_SQR_N_MINSIZE ≤ P.SQR_TOOM8_THRESHOLD ∧ 1 ≤ P.SQR_TOOM8_THRESHOLD ∧
  0 ≤ P.MUL_FFT_FULL_THRESHOLD ∧ 0 ≤ P.SQR_FFT_FULL_THRESHOLD ∧ 0 ≤ P.SQR_BASECASE_THRESHOLD ∧
  P.GMP_LIMB_BITS = 64

instance (P : Params) : Decidable (Valid P) := by unfold Valid; infer_instance

/-- Value computed by one recorded call on operand values `u`, `v` — for the algorithms that have a value-level
    model in `Mpir.MulAlgo` (recursive calls replaced by the exact product).  `none`: not modelled at value level
    (basecases: leaf-kernel theorems; toom8h / toom8 squaring / FFT: differential run only). -/
def callValue (P : Params) (e : Ev) (u v : Nat) : Option Nat :=
  match sizeArgs e with
  | [n] =>
    if e.name = "mpn_kara_mul_n" then MulAlgo.kara_mul_n P.MUL_KARATSUBA_THRESHOLD.toNat u v n.toNat
    else if e.name = "mpn_toom3_mul_n" then some (MulAlgo.toom3_mul_n (· * ·) u v n.toNat)
    else if e.name = "mpn_toom4_mul_n" then some (MulAlgo.toom4_mul_n (· * ·) u v n.toNat)
    else none
  | [an, bn] =>
    if e.name = "mpn_toom3_mul" then some (MulAlgo.toom3_mul (· * ·) u an.toNat v bn.toNat)
    else if e.name = "mpn_toom42_mul" then some (MulAlgo.toom42_mul (· * ·) u an.toNat v bn.toNat)
    else if e.name = "mpn_toom32_mul" then some (MulAlgo.toom32_mul (· * ·) u an.toNat v bn.toNat)
    else if e.name = "mpn_toom4_mul" then some (MulAlgo.toom4_mul (· * ·) u an.toNat v bn.toNat)
    else if e.name = "mpn_toom53_mul" then some (MulAlgo.toom53_mul (· * ·) u an.toNat v bn.toNat)
    else none
  | _ => none

/-- every recorded call of a trace is inside its callee's size domain -/
def AllOk (P : Params) (tr : List Ev) : Prop := ∀ e ∈ tr, domainOk P e = true

/-- the skeleton ran to completion, returned the limb at `prodp + top`, and every call was inside its domain -/
def Good (P : Params) (top : Int) : Res → Prop
  | .ret tr (.ptr b off) => b = 1 ∧ off = top ∧ AllOk P tr
  | _ => False

/-- same for `void` functions -/
def GoodVoid (P : Params) : Res → Prop
  | .void tr => AllOk P tr
  | _ => False

end Mpir.MulDispatch
