/-
  Layer L: limb-vector kernels, mirrored limb for limb from mpn/generic/*.c (64-bit limbs, no nails).
  Each function consumes lists of equal length where the C takes one size argument.
  Source mirrored (tie = correspondence, ops `mpn_*` in Mpir/Ops/C03.lean, C01.lean):
    add_n.c sub_n.c lshift.c rshift.c neg_n.c com_n.c mul_1.c addmul_1.c submul_1.c
    mpir.h  __GMPN_AORS_1 (add_1/sub_1), __GMPN_AORS (add/sub), __GMPN_CMP (cmp)
-/
import Mpir.Base
namespace Mpir

/-- mpn_add_n loop body with incoming carry `cy`: returns (result limbs, carry out).
    C: sl = ul+vl; cy1 = sl<ul; rl = sl+cy; cy2 = rl<sl; cy = cy1|cy2. -/
def addNC : List Nat → List Nat → Nat → List Nat × Nat
  | u :: us, v :: vs, cy =>
      let sl := (u + v) % B
      let cy1 := boolToNat (sl < u)
      let rl := (sl + cy) % B
      let cy2 := boolToNat (rl < sl)
      let (rs, c) := addNC us vs (cy1 ||| cy2)
      (rl :: rs, c)
  | _, _, cy => ([], cy)

def add_n (u v : List Nat) : List Nat × Nat := addNC u v 0

/-- mpn_sub_n: sl = ul-vl; cy1 = sl>ul; rl = sl-cy; cy2 = rl>sl; cy = cy1|cy2. -/
def subNC : List Nat → List Nat → Nat → List Nat × Nat
  | u :: us, v :: vs, cy =>
      let sl := (u + B - v) % B
      let cy1 := boolToNat (sl > u)
      let rl := (sl + B - cy) % B
      let cy2 := boolToNat (rl > sl)
      let (rs, c) := subNC us vs (cy1 ||| cy2)
      (rl :: rs, c)
  | _, _, cy => ([], cy)

def sub_n (u v : List Nat) : List Nat × Nat := subNC u v 0

/-- tail of __GMPN_AORS_1 for addition: propagate a carry of 1 with early exit (copy rest). -/
def incr : List Nat → List Nat × Nat
  | [] => ([], 1)
  | x :: xs =>
      let r := (x + 1) % B
      if r < 1 then            -- __GMPN_ADDCB (r, x, 1)
        let (rs, c) := incr xs
        (r :: rs, c)
      else (r :: xs, 0)

/-- mpn_add_1 (n ≥ 1): first limb adds v, then `incr` on the rest if CB fired. -/
def add_1 : List Nat → Nat → List Nat × Nat
  | [], v => ([], v)           -- outside the C domain (n ≥ 1); never used by the driver
  | x :: xs, v =>
      let r := (x + v) % B
      if r < v then
        let (rs, c) := incr xs
        (r :: rs, c)
      else (r :: xs, 0)

def decr : List Nat → List Nat × Nat
  | [] => ([], 1)
  | x :: xs =>
      let r := (x + B - 1) % B
      if x < 1 then            -- __GMPN_SUBCB (r, x, 1)
        let (rs, c) := decr xs
        (r :: rs, c)
      else (r :: xs, 0)

def sub_1 : List Nat → Nat → List Nat × Nat
  | [], v => ([], v)
  | x :: xs, v =>
      let r := (x + B - v) % B
      if x < v then
        let (rs, c) := decr xs
        (r :: rs, c)
      else (r :: xs, 0)

/-- mpn_add (xsize ≥ ysize): add_n on the low part, then the TEST loop of __GMPN_ADD. -/
def add (x y : List Nat) : List Nat × Nat :=
  let n := y.length
  let (lo, cy) := add_n (x.take n) y
  if cy != 0 then
    let (hi, c) := incr (x.drop n)
    (lo ++ hi, c)
  else (lo ++ x.drop n, 0)

def sub (x y : List Nat) : List Nat × Nat :=
  let n := y.length
  let (lo, cy) := sub_n (x.take n) y
  if cy != 0 then
    let (hi, c) := decr (x.drop n)
    (lo ++ hi, c)
  else (lo ++ x.drop n, 0)

/-- mpn_com_n -/
def com_n (u : List Nat) : List Nat := u.map (fun x => B - 1 - x)

/-- mpn_neg_n: two's complement negate; returns borrow (1 iff operand non-zero).
    neg_n.c: zero run copied, then first non-zero limb negated, rest complemented. -/
def negNC : List Nat → Nat → List Nat × Nat
  | [], c => ([], c)
  | x :: xs, c =>
      if c = 0 then
        if x = 0 then let (rs, c') := negNC xs 0; (0 :: rs, c')
        else let (rs, c') := negNC xs 1; (((B - x) % B) :: rs, c')
      else let (rs, c') := negNC xs 1; ((B - 1 - x) :: rs, c')

def neg_n (u : List Nat) : List Nat × Nat := negNC u 0

/-- mpn_lshift processes from the top limb downwards.  Here: least significant first, the limb
    produced at position i is ((u_i << cnt) mod B) | (u_{i-1} >> tnc); returns bits shifted out. -/
def lshiftGo (cnt : Nat) : List Nat → Nat → List Nat × Nat
  | [], lowIn => ([], lowIn)
  | x :: xs, lowIn =>
      let cur := ((x <<< cnt) % B) ||| lowIn
      let (rs, out) := lshiftGo cnt xs (x >>> (64 - cnt))
      (cur :: rs, out)

def lshift (u : List Nat) (cnt : Nat) : List Nat × Nat := lshiftGo cnt u 0

/-- mpn_rshift: limb i = (u_i >> cnt) | ((u_{i+1} << tnc) mod B); return (u_0 << tnc) mod B. -/
def rshiftGo (cnt : Nat) : List Nat → List Nat
  | [] => []
  | [x] => [x >>> cnt]
  | x :: y :: ys => ((x >>> cnt) ||| ((y <<< (64 - cnt)) % B)) :: rshiftGo cnt (y :: ys)

def rshift (u : List Nat) (cnt : Nat) : List Nat × Nat :=
  (rshiftGo cnt u, match u with | [] => 0 | x :: _ => (x <<< (64 - cnt)) % B)

/-- mpn_cmp: compare from the most significant limb; result -1, 0, 1. -/
def cmpRev : List Nat → List Nat → Int
  | x :: xs, y :: ys => if x ≠ y then (if x > y then 1 else -1) else cmpRev xs ys
  | _, _ => 0

def cmp (u v : List Nat) : Int := cmpRev u.reverse v.reverse

def zero_p (u : List Nat) : Bool := u.all (· == 0)

/-- umul_ppmm: (high, low) of the 128-bit product — the `mulq` instruction's meaning (trusted W primitive). -/
def umul_ppmm (u v : Nat) : Nat × Nat := ((u * v) / B, (u * v) % B)

/-- mpn_mul_1: lpl += cl; cl = (lpl < cl) + hpl. -/
def mul1C : List Nat → Nat → Nat → List Nat × Nat
  | [], _, cl => ([], cl)
  | u :: us, vl, cl =>
      let (hpl, lpl0) := umul_ppmm u vl
      let lpl := (lpl0 + cl) % B
      let cl' := (boolToNat (lpl < cl) + hpl) % B
      let (rs, c) := mul1C us vl cl'
      (lpl :: rs, c)

def mul_1 (u : List Nat) (vl : Nat) : List Nat × Nat := mul1C u vl 0

/-- mpn_addmul_1: as mul_1 then rl = *rp; lpl = rl + lpl; cl += lpl < rl. -/
def addmul1C : List Nat → List Nat → Nat → Nat → List Nat × Nat
  | r :: rs, u :: us, vl, cl =>
      let (hpl, lpl0) := umul_ppmm u vl
      let lpl1 := (lpl0 + cl) % B
      let cl1 := (boolToNat (lpl1 < cl) + hpl) % B
      let lpl := (r + lpl1) % B
      let cl2 := (cl1 + boolToNat (lpl < r)) % B
      let (os, c) := addmul1C rs us vl cl2
      (lpl :: os, c)
  | _, _, _, cl => ([], cl)

def addmul_1 (r u : List Nat) (vl : Nat) : List Nat × Nat := addmul1C r u vl 0

/-- mpn_submul_1: lpl = rl - lpl; cl += lpl > rl. -/
def submul1C : List Nat → List Nat → Nat → Nat → List Nat × Nat
  | r :: rs, u :: us, vl, cl =>
      let (hpl, lpl0) := umul_ppmm u vl
      let lpl1 := (lpl0 + cl) % B
      let cl1 := (boolToNat (lpl1 < cl) + hpl) % B
      let lpl := (r + B - lpl1) % B
      let cl2 := (cl1 + boolToNat (lpl > r)) % B
      let (os, c) := submul1C rs us vl cl2
      (lpl :: os, c)
  | _, _, _, cl => ([], cl)

def submul_1 (r u : List Nat) (vl : Nat) : List Nat × Nat := submul1C r u vl 0

/-- mpn_mul_basecase: first row by mul_1, each further row by addmul_1 at the next offset.
    `acc` holds the result so far (un + rows done limbs). -/
def mulBasecaseRows (u : List Nat) : List Nat → List Nat → Nat → List Nat
  | [], acc, _ => acc
  | v :: vs, acc, off =>
      let lo := acc.take off
      let mid := (acc.drop off)
      let (r, c) := addmul_1 mid u v
      mulBasecaseRows u vs (lo ++ r ++ [c]) (off + 1)

def mul_basecase (u v : List Nat) : List Nat :=
  match v with
  | [] => []
  | v0 :: vs =>
      let (r, c) := mul_1 u v0
      mulBasecaseRows u vs (r ++ [c]) 1

end Mpir
