/-
  Number-theoretic functions of property C16: executable SPECS and MODELS.  Core Lean only.

  Specs (what "the number their definition gives" means): `factorial`, `doubleFactorial`,
  `multiFactorial`, `primorial`, `binom`/`binomZ`, `fibSpec`, `lucSpec`, `removeSpec`, `isPrime`,
  `nextPrime`.

  Models mirror the C of /repo (64-bit limbs), layer K/V of DESIGN.md: limb arithmetic is written
  `% B`, multi-limb values are unbounded naturals, callees with an already-modelled meaning
  (mpn_sqr, mpn_mul, mpz_mul, mpz_prodlimbs, mpz_powm, mpz_tdiv_qr, gmp_primesieve) are replaced
  by that meaning.  Tables and thresholds come from the regenerated `Mpir.Gen.NumthTabs`.
  Tie: correspondence ops of Mpir/Ops/Numth.lean (every model answer is also compared with the spec
  at run time), theorems in MpirProofs/Props/C16.lean.
-/
import Mpir.Base
import Mpir.Gen.NumthTabs
namespace Mpir.Numth
open Mpir Mpir.Gen.NumthTabs

/-! ## Specifications -/

def factorial : Nat → Nat
  | 0 => 1
  | n + 1 => (n + 1) * factorial n

/-- n!! = n (n-2) (n-4) ... -/
def doubleFactorial : Nat → Nat
  | 0 => 1
  | 1 => 1
  | n + 2 => (n + 2) * doubleFactorial n

def mfacAux (m : Nat) : Nat → Nat → Nat
  | 0, _ => 1
  | fuel + 1, n => if n ≤ m then (if n = 0 then 1 else n) else n * mfacAux m fuel (n - m)

/-- n!^(m) = n (n-m) (n-2m) ... (positive factors only; the empty product for n = 0), m ≥ 1 -/
def multiFactorial (n m : Nat) : Nat := mfacAux m n n

/-- trial division: no divisor d' with d ≤ d', d'*d' ≤ n -/
def noDivisorFrom (n : Nat) : Nat → Nat → Bool
  | 0, _ => true
  | fuel + 1, d => if d * d > n then true else if n % d == 0 then false else noDivisorFrom n fuel (d + 1)

def isPrimeTD (n : Nat) : Bool := decide (2 ≤ n) && noDivisorFrom n n 2

/-- product of the primes ≤ n -/
def primorial : Nat → Nat
  | 0 => 1
  | n + 1 => if isPrimeTD (n + 1) then (n + 1) * primorial n else primorial n

/-- binomial(n,k) by the multiplicative recurrence C(n,i+1) = C(n,i) (n-i) / (i+1) -/
def binomAux (n : Nat) : Nat → Nat
  | 0 => 1
  | i + 1 => binomAux n i * (n - i) / (i + 1)

def binom (n k : Nat) : Nat := if k > n then 0 else binomAux n (if n - k < k then n - k else k)

/-- binomial for integer n: C(-n,k) = (-1)^k C(n+k-1,k) -/
def binomZ (n : Int) (k : Nat) : Int :=
  if n ≥ 0 then Int.ofNat (binom n.toNat k)
  else
    let b := Int.ofNat (binom ((-n).toNat + k - 1) k)
    if k % 2 = 1 then -b else b

def fibLoop : Nat → Nat → Nat → Nat
  | 0, a, _ => a
  | n + 1, a, b => fibLoop n b (a + b)

/-- F(n): F(0) = 0, F(1) = 1 -/
def fibSpec (n : Nat) : Nat := fibLoop n 0 1
/-- L(n): L(0) = 2, L(1) = 1 -/
def lucSpec (n : Nat) : Nat := fibLoop n 2 1

def removeLoop (f : Nat) : Nat → Nat → Nat → Nat × Nat
  | 0, x, c => (x, c)
  | fuel + 1, x, c => if x % f = 0 then removeLoop f fuel (x / f) (c + 1) else (x, c)

/-- remove all factors f ≥ 2 from x ≠ 0: (x / f^v, v) with f^v ∣ x, f^(v+1) ∤ x -/
def removeSpec (x : Int) (f : Nat) : Int × Nat :=
  if x = 0 ∨ f < 2 then (x, 0) else
  let (r, c) := removeLoop f (x.natAbs.log2 + 1) x.natAbs 0
  (if x < 0 then -(Int.ofNat r) else Int.ofNat r, c)

/-- a^e mod n by binary exponentiation -/
def powMod (a e n : Nat) : Nat :=
  if h : e = 0 then 1 % n else
  let r := powMod a (e / 2) n
  if e % 2 = 0 then r * r % n else r * r % n * a % n
termination_by e
decreasing_by omega

/-- (k, q) with m = 2^k q, q odd (m ≠ 0) -/
def twoAdic : Nat → Nat → Nat × Nat
  | 0, m => (0, m)
  | fuel + 1, m => if m % 2 = 0 ∧ m ≠ 0 then let (k, q) := twoAdic fuel (m / 2); (k + 1, q) else (0, m)

/-- squarings of the strong test: does y, y^2, y^4, ... (k-1 squarings) hit n-1 ? -/
def sprpLoop (n : Nat) : Nat → Nat → Bool
  | 0, _ => false
  | i + 1, y => let y2 := y * y % n; if y2 = n - 1 then true else sprpLoop n i y2

/-- n odd ≥ 3 is a strong probable prime to base a -/
def sprp (n a : Nat) : Bool :=
  let (k, q) := twoAdic (n - 1) (n - 1)
  let y := powMod (a % n) q n
  y = 1 || y = n - 1 || sprpLoop n (k - 1) y

def mrBases : List Nat := [2, 3, 5, 7, 11, 13, 17, 19, 23, 29, 31, 37]

/-- Deterministic primality.  Trial division below 2^20; above, Miller–Rabin with the first twelve
    primes as bases, which is a primality proof for n < 318665857834031151167461 > 2^64
    (Sorenson–Webster 2015; trusted base of C16). -/
def isPrime (n : Nat) : Bool :=
  if n < 1048576 then isPrimeTD n
  else if n % 2 = 0 then false
  else mrBases.all (fun a => a % n = 0 || sprp n a)

def firstPrimeFrom : Nat → Nat → Nat
  | 0, m => m
  | fuel + 1, m => if isPrime m then m else firstPrimeFrom fuel (m + 1)

/-- smallest prime > n (Bertrand: one exists below 2n+2) -/
def nextPrime (n : Nat) : Nat := firstPrimeFrom (n + 2) (n + 1)

/-- is there a prime p with lo < p < hi ? -/
def primeBetween (lo hi : Nat) : Bool := decide (firstPrimeFrom (hi - lo) (lo + 1) < hi)

/-! ## Word helpers -/

def popc : Nat → Nat → Nat
  | 0, _ => 0
  | fuel + 1, n => if n = 0 then 0 else n % 2 + popc fuel (n / 2)
/-- popc_limb -/
def popcount (n : Nat) : Nat := popc 64 n

def ctzAux : Nat → Nat → Nat
  | 0, _ => 0
  | fuel + 1, n => if n % 2 = 1 ∨ n = 0 then 0 else 1 + ctzAux fuel (n / 2)
/-- count_trailing_zeros (n ≠ 0) -/
def ctz (n : Nat) : Nat := ctzAux 64 n

/-- limbs needed for v (0 for v = 0) -/
def limbCount (v : Nat) : Nat := if v = 0 then 0 else v.log2 / 64 + 1

/-- `fp[0] += c` : limb arithmetic on the low limb only, a carry is lost -/
def lowLimbAdd (v c : Nat) : Nat := v - v % B + (v % B + c) % B
/-- `fp[0] -= c` : limb arithmetic on the low limb only, a borrow is lost -/
def lowLimbSub (v c : Nat) : Nat := v - v % B + (v % B + B - c) % B

/-- ABOVE_THRESHOLD (gmp-impl.h:1817); thresholds are never MP_SIZE_T_MAX in this build -/
def aboveThreshold (size thresh : Nat) : Bool := thresh = 0 || size ≥ thresh

/-! ## Fibonacci and Lucas numbers -/

/-- `__gmp_fib_table[i]` -/
def fibTab (i : Nat) : Nat := fibTable.getD i 0
/-- FIB_TABLE(n) = __gmp_fib_table[n+1] (gmp-impl.h:1777), −1 ≤ n ≤ FIB_TABLE_LIMIT; `FIB_TABLE (n-1)` is `fibTab n` -/
def FIB_TABLE (n : Nat) : Nat := fibTab (n + 1)

/-- mpn/generic/fib2_ui.c:77-79: `for (nfirst = n; nfirst > FIB_TABLE_LIMIT; nfirst /= 2) mask <<= 1;`
    returns (nfirst, log2 mask) -/
def fib2Start (n : Nat) : Nat × Nat :=
  if h : n > FIB_TABLE_LIMIT then
    let r := fib2Start (n / 2)
    (r.1, r.2 + 1)
  else (n, 0)
termination_by n
decreasing_by omega

/-- One pass of the do-loop, fib2_ui.c:96-162.  On entry fp = F[k], f1p = F[k-1] with k = n >> log2 mask. -/
def fib2Step (n mask f f1 : Nat) : Nat × Nat :=
  let x := f * f                                        -- :117 mpn_sqr (xp, fp, size)
  let y := f1 * f1                                      -- :118 mpn_sqr (yp, f1p, size)
  -- :129-135  F[2k+1] = 4*F[k]^2 - F[k-1]^2 + 2*(-1)^k ;  n&mask is the low bit of k
  let fp := 4 * x                                       -- c = mpn_lshift2 (fp, xp, size)
  let fp := fp ||| (if n &&& mask ≠ 0 then 0 else 2)    -- fp[0] |= (n & mask ? 0 : 2)
  let fp := fp - y                                      -- c -= mpn_sub_n (fp, fp, yp, size)
  let fp := lowLimbSub fp (if n &&& mask ≠ 0 then 2 else 0)   -- fp[0] -= (n & mask ? 2 : 0)
  let f1p := x + y                                      -- :145 F[2k-1] = F[k]^2 + F[k-1]^2
  let mask := mask >>> 1                                -- :148
  -- :152 F[2k] = F[2k+1] - F[2k-1] replaces the unwanted one of the pair
  if n &&& mask ≠ 0 then (fp, fp - f1p) else (fp - f1p, f1p)

/-- fib2_ui.c:96-166 `do ... while (mask != 1)`, mask = 2^j -/
def fib2Loop (n : Nat) : Nat → Nat × Nat → Nat × Nat
  | 0, p => p
  | j + 1, p => fib2Loop n j (fib2Step n (2 ^ (j + 1)) p.1 p.2)

/-- mpn_fib2_ui at value level: (F[n], F[n-1]); F[-1] = 1 (fib2_ui.c:64-177) -/
def mpn_fib2_ui (n : Nat) : Nat × Nat :=
  let s := fib2Start n
  fib2Loop n s.2 (FIB_TABLE s.1, fibTab s.1)             -- :82-83

/-- limbs written and the returned size: fp[size-1] ≠ 0 except for n = 0 -/
def mpn_fib2_ui_limbs (n : Nat) : List Nat × List Nat × Nat :=
  let (f, f1) := mpn_fib2_ui n
  let size := if limbCount f = 0 then 1 else limbCount f
  (toLimbs size f, toLimbs size f1, size)

/-- mpz_fib2_ui (mpz/fib2_ui.c) -/
def mpz_fib2_ui (n : Nat) : Nat × Nat := mpn_fib2_ui n

/-- mpz_fib_ui (mpz/fib_ui.c:47-143) -/
def mpz_fib_ui (n : Nat) : Nat :=
  if n ≤ FIB_TABLE_LIMIT then FIB_TABLE n else            -- :56-61
  let p := mpn_fib2_ui (n / 2)                           -- :70 xp = F[k], yp = F[k-1]
  let x := p.1; let y := p.2
  if n &&& 1 ≠ 0 then
    -- :77-96  F[2k+1] = (2F[k]+F[k-1])*(2F[k]-F[k-1]) + 2*(-1)^k
    let xs := 2 * x + y                                  -- c2 = lshift1; c = c2 + add_n (xp, fp, yp)
    let ys := 2 * x - y                                  -- c2 -= sub_n (yp, fp, yp)
    let pr := xs * ys                                    -- mpn_mul
    if n &&& 2 ≠ 0 then lowLimbSub pr 2 else lowLimbAdd pr 2   -- :99 fp[0] += (n & 2 ? -2 : 2)
  else
    -- :113-124  F[2k] = F[k]*(F[k]+2F[k-1])
    (2 * y + x) * x

/-- L[n] = F[n] + 2F[n-1] from the table, in limb arithmetic (lucnum_ui.c:60, lucnum2_ui.c:44) -/
def lucTab (n : Nat) : Nat := (FIB_TABLE n + 2 * fibTab n) % B

/-- lucnum_ui.c:82-158: strip trailing zeros of n until an odd n (L[2k+1] formula) or a table entry.
    Returns (lp, zeros, n at exit). -/
def lucStrip (n : Nat) : Nat × Nat × Nat :=
  if n &&& 1 ≠ 0 then
    -- :86-146  L[2k+1] = 5*F[k-1]*(2*F[k]+F[k-1]) - 4*(-1)^k
    let p := mpn_fib2_ui (n / 2)
    let xs := 2 * p.1 + p.2                               -- :103-113
    let l := xs * p.2                                     -- :116 mpn_mul
    let l := 5 * l                                        -- :121-130
    let l := if n &&& 2 ≠ 0 then lowLimbAdd l 4           -- :137 lp[0] += 4
             else l - 4                                   -- :142 MPN_DECR_U (lp, lsize, 4)
    (l, 0, n)
  else if h : n / 2 ≤ FIB_TABLE_LUCNUM_LIMIT then
    (lucTab (n / 2), 1, n / 2)                            -- :152-157
  else
    let r := lucStrip (n / 2)                             -- :148-150 zeros++; n /= 2
    (r.1, r.2.1 + 1, r.2.2)
termination_by n
decreasing_by omega

/-- lucnum_ui.c:160-190: L[2k] = L[k]^2 - 2*(-1)^k, `zeros` times -/
def lucSquare : Nat → Nat → Nat → Nat
  | 0, l, _ => l
  | z + 1, l, n =>
    let x := l * l                                        -- :167 mpn_sqr
    if n &&& 1 ≠ 0 then lucSquare z (lowLimbAdd x 2) 0    -- :177-178 xp[0] += 2; n = 0
    else lucSquare z (x - 2) n                            -- :183 MPN_DECR_U (xp, lsize, 2)

/-- mpz_lucnum_ui (mpz/lucnum_ui.c:47-198) -/
def mpz_lucnum_ui (n : Nat) : Nat :=
  if n ≤ FIB_TABLE_LUCNUM_LIMIT then lucTab n else        -- :57-63
  let r := lucStrip n
  lucSquare r.2.1 r.1 r.2.2

/-- mpz_lucnum2_ui (mpz/lucnum2_ui.c:26-79): (L[n], L[n-1]), L[-1] = -1 -/
def mpz_lucnum2_ui (n : Nat) : Int × Int :=
  if n ≤ FIB_TABLE_LUCNUM_LIMIT then
    let f := FIB_TABLE n; let f1 := fibTab n               -- :39-40
    (Int.ofNat ((f + 2 * f1) % B),                        -- :43
     if n = 0 then -1 else Int.ofNat (((2 * f) % B + B - f1) % B))   -- :47-48
  else
    let p := mpn_fib2_ui n                                 -- :60 l1p = F[n], f1p = F[n-1]
    (Int.ofNat (2 * p.2 + p.1),                            -- :66-69 L[n] = F[n] + 2F[n-1]
     Int.ofNat (2 * p.1 - p.2))                            -- :72-76 L[n-1] = 2F[n] - F[n-1]

/-! ## Factor lists, sieve walk -/

/-- state of a factor list: stored limbs (most recent first) and the running limb `prod` -/
abbrev FL := List Nat × Nat

/-- FACTOR_LIST_STORE (P, PR, MAX_PR, VEC, I) -/
def flStore (p maxProd : Nat) (st : FL) : FL :=
  if st.2 > maxProd then (st.2 :: st.1, p) else (st.1, st.2 * p % B)
/-- FACTOR_LIST_APPEND (PR, MAX_PR, VEC, I) -/
def flAppend (maxProd : Nat) (st : FL) : FL :=
  if st.2 > maxProd then (st.2 :: st.1, 1) else st

/-- mpz_prodlimbs: the product of the listed limbs -/
def prodList : List Nat → Nat
  | [] => 1
  | x :: xs => x * prodList xs

/-- n_to_bit (oddfac_1.c:120) in limb arithmetic -/
def n_to_bit (n : Nat) : Nat := (((n + B - 5) % B) ||| 1) / 3
/-- bit_to_n (oddfac_1.c:112) = id_to_n (bit+1) -/
def bit_to_n (b : Nat) : Nat := (b * 3 + 4) ||| 1

/-- LOOP_ON_SIEVE_BEGIN (prime, start, end, 0, sieve) ... LOOP_ON_SIEVE_END: a do-while over the bit
    positions start, start+1, ..., max start end; the body runs for the positions whose sieve bit is
    clear, i.e. whose number bit_to_n is prime (gmp_primesieve replaced by its meaning). -/
def sieveWalk (body : Nat → FL → FL) : Nat → Nat → FL → FL
  | 0, _, st => st
  | cnt + 1, b, st => sieveWalk body cnt (b + 1) (if isPrimeTD (bit_to_n b) then body (bit_to_n b) st else st)

def loopOnSieve (start stop : Nat) (body : Nat → FL → FL) (st : FL) : FL :=
  sieveWalk body (if stop < start then 1 else stop - start + 1) start st

/-- limb_apprsqrt (oddfac_1.c:135-143), x > 2 -/
def limb_apprsqrt (x : Nat) : Nat :=
  let s := (x - 1).log2                                   -- GMP_LIMB_BITS - 1 - clz (x - 1)
  2 ^ (s / 2) + 2 ^ ((s - 1) / 2)

/-- log_n_max (gmp-impl.h:1786): `for (log = 8; n > __gmp_limbroots_table[log - 1]; log--);` -/
def logNMaxAux : Nat → Nat → Nat
  | 0, _ => 0
  | log + 1, n => if n > limbrootsTable.getD log 0 then logNMaxAux log n else log + 1
def log_n_max (n : Nat) : Nat := logNMaxAux 8 n

/-! ## Factorials -/

/-- `__gmp_oddfac_table[] = { ONE_LIMB_ODD_FACTORIAL_TABLE, ONE_LIMB_ODD_FACTORIAL_EXTTABLE }` (comb_tables.c:68) -/
def oddfacTab (i : Nat) : Nat := (oddfacTable ++ oddfacExtTable).getD i 0
def odd2facTab (i : Nat) : Nat := odd2facTable.getD i 0
def fac2cntTab (i : Nat) : Nat := fac2cntTable.getD i 0

/-- SWING_A_PRIME (oddfac_1.c:164-175): `do { q /= p; if (q & 1) prod *= p; } while (q >= p)` -/
def swingPowers (p : Nat) : Nat → Nat → Nat → Nat
  | 0, _, pr => pr
  | fuel + 1, q, pr =>
    let q := q / p
    let pr := if q % 2 = 1 then pr * p % B else pr
    if q ≥ p then swingPowers p fuel q pr else pr
def swingAPrime (n maxProd p : Nat) (st : FL) : FL :=
  let st := flAppend maxProd st
  (st.1, swingPowers p 64 n st.2)
/-- SH_SWING_A_PRIME (oddfac_1.c:178-184) -/
def shSwingAPrime (n maxProd p : Nat) (st : FL) : FL :=
  if (n / p) % 2 = 1 then flStore p maxProd st else st

/-- mpz_2multiswing_1 (oddfac_1.c:199-262): odd part of the swing number n! / (n/2)!^2 -/
def mpz_2multiswing_1 (n0 : Nat) : Nat :=
  let prod0 := if n0 % 2 = 1 then n0 else 1               -- :207-211
  let n := n0 - n0 % 2                                    -- n &= ~1
  let maxProd := (B - 1) / (n - 1)                        -- :212
  let st : FL := swingAPrime n maxProd 3 ([], prod0)      -- :215
  let s := n_to_bit (limb_apprsqrt n)                     -- :224-226
  let st := loopOnSieve (n_to_bit 5) s (swingAPrime n maxProd) st   -- :227-229
  let st := loopOnSieve (s + 1) (n_to_bit (n / 3)) (shSwingAPrime n (maxProd * 3 % B)) st   -- :237-242
  let st := loopOnSieve (n_to_bit (n / 2) + 1) (n_to_bit n) (fun p => flStore p maxProd) st  -- :247-251
  prodList (st.2 :: st.1)                                 -- :254-262

/-- the odd numbers i, i+2, ... ≤ tn pushed through FACTOR_LIST_STORE (oddfac_1.c:355-358) -/
def oddStore (maxProd tn : Nat) : Nat → Nat → FL → FL
  | 0, _, st => st
  | fuel + 1, i, st =>
    let st := flStore i maxProd st
    if i + 2 ≤ tn then oddStore maxProd tn fuel (i + 2) st else st

/-- oddfac_1.c:351-362 outer do-while: returns (factor list, tn) -/
def oddfacBase : Nat → Nat → Nat → FL → FL × Nat
  | 0, _, tn, st => (st, tn)
  | fuel + 1, maxProd, tn, st =>
    let st : FL := (ODD_DOUBLEFACTORIAL_TABLE_MAX :: st.1, st.2)   -- :353 factors[j++] = ODD_DOUBLEFACTORIAL_TABLE_MAX
    let st := oddStore maxProd tn tn (ODD_DOUBLEFACTORIAL_TABLE_LIMIT + 2) st
    let maxProd := maxProd * 2 % B                         -- :359
    let tn := tn / 2                                       -- :360
    if tn > ODD_DOUBLEFACTORIAL_TABLE_LIMIT + 1 then oddfacBase fuel maxProd tn st else (st, tn)

/-- oddfac_1.c:331-332 `for (tn = n; ABOVE_THRESHOLD (tn, FAC_DSC_THRESHOLD); s++) tn >>= 1;` → (tn, s) -/
def dscSteps : Nat → Nat → Nat → Nat × Nat
  | 0, tn, s => (tn, s)
  | fuel + 1, tn, s => if aboveThreshold tn FAC_DSC_THRESHOLD then dscSteps fuel (tn / 2) (s + 1) else (tn, s)

/-- one pass of oddfac_1.c:394-426 (after `s--`): `x = (s == flag ? x : x^2) * mswing (n >> s)`;
    `skip` is the value of s at which the square is skipped (flag-1, none for flag = 0) -/
def dscStep (n : Nat) (skip : Option Nat) (s x : Nat) : Nat :=
  let sw := mpz_2multiswing_1 (n >>> s)
  let sq := if skip = some s then x else x * x
  sq * sw

/-- `do { s--; x = f s x; } while (s != 0)` -/
def iterDown (f : Nat → Nat → Nat) : Nat → Nat → Nat
  | 0, x => x
  | s + 1, x => iterDown f s (f s x)

/-- oddfac_1.c:394-426: `do { s--; ... } while (s != 0)` -/
def dscLoop (n : Nat) (skip : Option Nat) (s x : Nat) : Nat := iterDown (dscStep n skip) s x

/-- mpz_oddfac_1 (mpz/oddfac_1.c:297-436): odd part of n!; with flag = 1 the last square is skipped -/
def mpz_oddfac_1 (n flag : Nat) : Nat :=
  if n ≤ ODD_FACTORIAL_TABLE_LIMIT then oddfacTab n        -- :302-306
  else if n ≤ ODD_DOUBLEFACTORIAL_TABLE_LIMIT + 1 then     -- :307-314 umul_ppmm
    odd2facTab ((n - 1) / 2) * oddfacTab (n / 2)
  else
    let (tn, s) := dscSteps 64 n 0                          -- :331
    let maxProd := (B - 1) / FAC_DSC_THRESHOLD              -- :347
    let (st, tn) := oddfacBase 64 maxProd tn ([], 1)
    -- :364-367 factors[j++] = prod; odd2fac[(tn-1)>>1]; oddfac[tn>>1]; mpz_prodlimbs
    let x := prodList (oddfacTab (tn / 2) :: odd2facTab ((tn - 1) / 2) :: st.2 :: st.1)
    if s ≠ 0 then dscLoop n (if flag = 0 then none else some (flag - 1)) s x else x

/-- the shift count of fac_ui.c:101-108 / 2fac_ui.c:62-68 -/
def facShift (n : Nat) : Nat :=
  if n ≤ TABLE_LIMIT_2N_MINUS_POPC_2N then fac2cntTab (n / 2 - 1) else n - popcount n

/-- `while (--n >= numberof (table)) FACTOR_LIST_STORE (n, ...)` (fac_ui.c:88-89) -/
def facStoreDown (maxProd lo : Nat) : Nat → Nat → FL → FL
  | 0, _, st => st
  | fuel + 1, n, st => if n - 1 ≥ lo ∧ n ≥ 1 then facStoreDown maxProd lo fuel (n - 1) (flStore (n - 1) maxProd st) else st

/-- mpz_fac_ui (mpz/fac_ui.c:61-110) -/
def mpz_fac_ui (n : Nat) : Nat :=
  let tl := facTable.length
  if n < tl then facTable.getD n 0                          -- :67-71
  else if !aboveThreshold n FAC_ODD_THRESHOLD then          -- :72-97
    let maxProd := (B - 1) / (FAC_ODD_THRESHOLD ||| 1)
    let st := facStoreDown maxProd tl n n ([facTable.getD (tl - 1) 0], n)
    prodList (st.2 :: st.1)
  else mpz_oddfac_1 n 0 * 2 ^ facShift n                   -- :98-109

/-- FAC_2DSC_THRESHOLD (2fac_ui.c:52) -/
def FAC_2DSC_THRESHOLD : Nat := (FAC_DSC_THRESHOLD * 2) ||| (FAC_DSC_THRESHOLD &&& 1)

/-- `while ((n -= 2) > ODD_DOUBLEFACTORIAL_TABLE_LIMIT) FACTOR_LIST_STORE (n, ...)` (2fac_ui.c:91-92) -/
def fac2StoreDown (maxProd : Nat) : Nat → Nat → FL → FL
  | 0, _, st => st
  | fuel + 1, n, st => if n - 2 > ODD_DOUBLEFACTORIAL_TABLE_LIMIT then fac2StoreDown maxProd fuel (n - 2) (flStore (n - 2) maxProd st) else st

/-- mpz_2fac_ui (mpz/2fac_ui.c:58-101) -/
def mpz_2fac_ui (n : Nat) : Nat :=
  if n % 2 = 0 then
    -- :62-71  (2k)!! = k! 2^k
    let count := if n ≤ TABLE_LIMIT_2N_MINUS_POPC_2N ∧ n ≠ 0 then fac2cntTab (n / 2 - 1) else n - popcount n
    mpz_oddfac_1 (n / 2) 0 * 2 ^ count
  else if n ≤ ODD_DOUBLEFACTORIAL_TABLE_LIMIT then odd2facTab (n / 2)     -- :73-75
  else if !aboveThreshold n FAC_2DSC_THRESHOLD then         -- :76-96
    let maxProd := (B - 1) / FAC_2DSC_THRESHOLD
    let st := fac2StoreDown maxProd n n ([ODD_DOUBLEFACTORIAL_TABLE_MAX], n)
    prodList (st.2 :: st.1)
  else mpz_oddfac_1 n 1                                     -- :98

def gcdNat : Nat → Nat → Nat → Nat
  | 0, a, _ => a
  | fuel + 1, a, b => if b = 0 then a else gcdNat fuel b (a % b)

/-- `for (; n > m; n -= m) FACTOR_LIST_STORE (n, ...)` (mfac_uiui.c:94-95); returns the list and the final n -/
def mfacStore (m maxProd : Nat) : Nat → Nat → FL → FL × Nat
  | 0, n, st => (st, n)
  | fuel + 1, n, st => if n > m then mfacStore m maxProd fuel (n - m) (flStore n maxProd st) else (st, n)

/-- mpz_mfac_uiui (mpz/mfac_uiui.c:46-124).  m = 0 is outside the C domain (ASSERT (m != 0)); the
    unsigned test `n - 3 < m - 1` then holds and n (or 1) is returned. -/
def mpz_mfac_uiui (n m : Nat) : Nat :=
  if n < 3 ∨ n - 3 < (m + B - 1) % B then n + (if n = 0 then 1 else 0)    -- :51-53
  else
    let g := gcdNat 200 n m                                 -- :58-59 mpn_gcd_1 (&sn, 1, m)
    let n := if g ≠ 1 then n / g else n
    let m := if g ≠ 1 then m / g else m
    if m ≤ 2 then
      if m = 1 then
        if g > 2 then g ^ n * mpz_fac_ui n                   -- :63-66, :113-121 sn = n
        else if g = 2 then mpz_2fac_ui (n * 2)               -- :68-69
        else mpz_fac_ui n                                    -- :71
      else
        if g ≠ 1 then g ^ (n / 2 + 1) * mpz_2fac_ui n        -- :76-79 sn = n / 2 + 1
        else mpz_2fac_ui n                                   -- :81
    else
      -- :85-109  m ≥ 3, gcd (n,m) = 1
      let sn := n / m + 1
      let n1 := n - m
      let maxProd := (B - 1) / n1
      let (st, nl) := mfacStore m maxProd n n1 ([], n)
      let t := prodList (st.2 :: nl :: st.1)                 -- factors[j++] = n; factors[j++] = prod
      if g > 1 then g ^ sn * t else t

/-- mpz_primorial_ui (mpz/primorial_ui.c:98-153) -/
def mpz_primorial_ui (n : Nat) : Nat :=
  let tl := primorialTable.length
  if n < tl then primorialTable.getD n 0                    -- :104-108
  else
    let maxProd := (B - 1) / n                              -- :132
    let st := loopOnSieve (n_to_bit tl) (n_to_bit n) (fun p => flStore p maxProd) ([], primorialTable.getD (tl - 1) 0)
    prodList (st.2 :: st.1)                                 -- :139-148

/-! ## Binomials -/

def facinvTab (i : Nat) : Nat := facinvTable.getD i 0
def tcnt (i : Nat) : Nat := tcnttab.getD i 0

/-- mul1 .. mul8 (bin_uiui.c:130-196), limb arithmetic -/
def mulfunc (which m : Nat) : Nat :=
  let a (i : Nat) := (m + i) % B
  let mul (x y : Nat) := x * y % B
  match which with
  | 1 => m
  | 2 => mul (m ||| 1) (a 1 / 2)
  | 3 => mul (mul (a 0) (a 1) / 2) (a 2)
  | 4 => mul (mul (a 0) (a 1) / 2) (mul (a 2) (a 3) / 2)
  | 5 => mul (mul (mul (a 0) (a 1)) (a 2) / 2) (mul (a 3) (a 4) / 2)
  | 6 => mul (mul (mul (a 0) (a 1)) (mul (a 2) (a 3)) / 8) (mul (a 4) (a 5) / 2)
  | 7 => mul (mul (mul (a 0) (a 1)) (mul (a 2) (a 3)) / 8) (mul (mul (a 4) (a 5)) (a 6) / 2)
  | 8 => mul (mul (mul (a 0) (a 1)) (mul (a 2) (a 3)) / 8) (mul (mul (a 4) (a 5)) (mul (a 6) (a 7)) / 8)
  | _ => 0

/-- mpn_divrem_hensel_rsh_qr_1_preinv (mpn/generic/divrem_hensel_rsh_qr_1.c:26-80) on the n limbs of x:
    quotient limbs of (x >> s) / d by Hensel division with the given limb inverse m -/
def henselRshAux (xs d m : Nat) : Nat → Nat → Nat → Nat → Nat → Nat
  | 0, _, _, _, acc => acc
  | cnt + 1, j, h, c, acc =>
    let h1 := (xs / B ^ j) % B
    let t := (h + c) % B
    let c' := if t > h1 then 1 else 0
    let h1 := (h1 + B - t) % B
    let q := h1 * m % B
    henselRshAux xs d m cnt (j + 1) (q * d / B) c' (acc + q * B ^ j)
def henselRshDiv (x n d m s : Nat) : Nat := henselRshAux ((x % B ^ n) >>> s) d m n 0 0 0 0

/-- state of mpz_smallk_bin_uiui's accumulation loop (bin_uiui.c:385-395) -/
def smallkLoop : Nat → Nat → Nat → Nat → Nat → Nat → Nat × Nat
  | 0, _, _, _, rp, i2 => (rp, i2)
  | fuel + 1, nmax, numfac, i, rp, i2 =>
    if numfac = 0 then (rp, i2) else
    let nmax := min nmax numfac
    let iii := mulfunc nmax i
    smallkLoop fuel nmax (numfac - nmax) ((i + nmax) % B) (rp * iii) (i2 + tcnt (nmax - 1))

/-- mpz_smallk_bin_uiui (bin_uiui.c:358-407), 2 ≤ k ≤ ODD_FACTORIAL_TABLE_LIMIT -/
def smallk_bin_uiui (n k : Nat) : Nat :=
  let nmax := min (min (log_n_max n) 8) k                   -- :374-379
  let i := n - k + 1
  let rp := mulfunc nmax i                                  -- :380
  let (rp, i2cnt) := smallkLoop k nmax (k - nmax) ((i + nmax) % B) rp (tcnt (nmax - 1))
  let rn := if limbCount rp = 0 then 1 else limbCount rp
  henselRshDiv rp rn (oddfacTab k) (facinvTab (k - 2)) (fac2cntTab (k / 2 - 1) - i2cnt)   -- :399-400

/-- bc_bin_uiui (bin_uiui.c:419-424): everything in limb arithmetic -/
def bc_bin_uiui (n k : Nat) : Nat :=
  ((oddfacTab n * facinvTab (k - 2) % B * facinvTab (n - k - 2) % B)
    <<< (fac2cntTab (n / 2 - 1) - fac2cntTab (k / 2 - 1) - fac2cntTab ((n - k) / 2 - 1))) % B

/-- mpz_smallkdc_bin_uiui (bin_uiui.c:445-494):
    bin(n,k) = bin(n,k>>1) * bin(n-k>>1, k-k>>1) / bin(k,k>>1) -/
def smallkdc_bin_uiui : Nat → Nat → Nat → Nat
  | 0, _, _ => 0
  | fuel + 1, n, k =>
    let hk := k / 2
    let rec1 := fun (n k : Nat) =>
      if BIN_UIUI_RECURSIVE_SMALLDC = 0 ∨ k ≤ ODD_FACTORIAL_TABLE_LIMIT then smallk_bin_uiui n k
      else smallkdc_bin_uiui fuel n k
    let r := rec1 n hk                                       -- :454-457
    let k := k - hk; let n := n - hk                         -- :458-459
    let r := if n ≤ ODD_FACTORIAL_EXTTABLE_LIMIT then r * bc_bin_uiui n k     -- :460-466
             else r * rec1 n k                               -- :467-479
    let rn := if limbCount r = 0 then 1 else limbCount r
    let idx := k - ODD_CENTRAL_BINOMIAL_OFFSET
    henselRshDiv r rn (bin2kkTable.getD idx 0) (bin2kkinvTable.getD idx 0)
      (fac2binTable.getD idx 0 - (if k ≠ hk then 1 else 0))  -- :482-484

/-- inverse of odd d modulo 2^bits (Newton), the meaning of mpn_sb_bdiv_q's divisor inverse -/
def invNewton (d md : Nat) : Nat → Nat → Nat
  | 0, x => x
  | fuel + 1, x => invNewton d md fuel (x * (2 * md + 2 - d * x % md) % md)
def invPow2 (d bits : Nat) : Nat := invNewton d (2 ^ bits) (bits.log2 + 2) 1

/-- top limb of an nn-limb number -/
def topLimb (v nn : Nat) : Nat := (v / B ^ (nn - 1)) % B

structure BdivSt where
  np : Nat
  nn : Nat
  i : Nat
  i2cnt : Nat
  j : Nat
  jjj : Nat
  j2cnt : Nat
  kmax : Nat
  numfac : Nat
  ok : Bool

/-- inner loop bin_uiui.c:291-304 (divisor factors): returns (kp, kn, j, j2cnt, kmax) -/
def bdivK (k : Nat) : Nat → Nat → Nat → Nat → Nat → Nat → Nat × Nat × Nat × Nat × Nat
  | 0, kp, kn, j, j2, kmax => (kp, kn, j, j2, kmax)
  | fuel + 1, kp, kn, j, j2, kmax =>
    if kmax ≠ 0 ∧ kn < SOME_THRESHOLD then
      let jjj := mulfunc kmax j
      let j := (j + kmax) % B
      let cnt := ctz jjj
      let jjj := jjj >>> cnt
      let j2 := j2 + tcnt (kmax - 1) + cnt
      let kp' := kp * jjj                                   -- cy = mpn_mul_1 (kp, kp, kn, jjj); kp[kn] = cy
      let kn := kn + (if kp' / B ^ kn ≠ 0 then 1 else 0)
      let t := (k + B - j + 1) % B
      bdivK k fuel kp' kn j j2 (min kmax t)
    else (kp, kn, j, j2, kmax)

/-- inner loop bin_uiui.c:307-319 (dividend factors): returns (np, nn, i, i2cnt) -/
def bdivN (nmax : Nat) : Nat → Nat → Nat → Nat → Nat → Nat → Nat × Nat × Nat × Nat
  | 0, _, np, nn, i, i2 => (np, nn, i, i2)
  | fuel + 1, numfac, np, nn, i, i2 =>
    if numfac = 0 then (np, nn, i, i2) else
    let nmaxnow := min nmax numfac
    let iii := mulfunc nmaxnow i
    let i := (i + nmaxnow) % B
    let cnt := ctz iii
    let iii := iii >>> cnt
    let i2 := i2 + tcnt (nmaxnow - 1) + cnt
    let np' := np * iii
    let nn := nn + (if np' / B ^ nn ≠ 0 then 1 else 0)
    bdivN nmax fuel (numfac - nmaxnow) np' nn i i2

/-- the `while (1)` loop of mpz_bdiv_bin_uiui (bin_uiui.c:286-341) -/
def bdivLoop (k nmax alloc : Nat) : Nat → BdivSt → BdivSt
  | 0, st => { st with ok := false }
  | fuel + 1, st =>
    let t := (k + B - st.j + 1) % B
    let kmax := min st.kmax t
    let (kp, kn, j, j2cnt, kmax) := bdivK k k st.jjj 1 st.j st.j2cnt kmax
    let numfac := j - st.numfac                              -- :305
    let (np, nn, i, i2cnt) := bdivN nmax k numfac st.np st.nn st.i st.i2cnt
    let ok := st.ok && decide (nn < alloc)                   -- :321 ASSERT (nn < alloc)
    let nn := nn + (if topLimb np nn ≥ topLimb kp kn then 1 else 0)   -- :324
    let ok := ok && decide (kn < nn)
    let nn := nn - kn                                        -- :325
    -- :329 mpn_sb_bdiv_q (np, wp, np, nn, kp, MIN(kn,nn), dinv): N / D mod B^nn
    let md := B ^ nn
    let np := (np % md) * invPow2 (kp % md) (64 * nn) % md
    if kmax = 0 then { st with np := np, nn := nn, i := i, i2cnt := i2cnt, j := j, j2cnt := j2cnt, kmax := 0, ok := ok }
    else
      let jjj := mulfunc kmax j                               -- :335-339
      let j' := (j + kmax) % B
      let cnt := ctz jjj
      bdivLoop k nmax alloc fuel
        { np := np, nn := nn, i := i, i2cnt := i2cnt, j := j', jjj := jjj >>> cnt,
          j2cnt := j2cnt + tcnt (kmax - 1) + cnt, kmax := kmax, numfac := j, ok := ok }

/-- mpz_bdiv_bin_uiui (bin_uiui.c:240-356), k > ODD_FACTORIAL_TABLE_LIMIT.  `none`: an ASSERT of the C
    (scratch size `nn < alloc`, non-empty quotient) fails in the model. -/
def bdiv_bin_uiui (n k : Nat) : Option Nat :=
  let maxn := 1 + n / 64                                     -- :256
  let alloc := SOME_THRESHOLD - 1 + max (3 * maxn / 2) SOME_THRESHOLD     -- :260
  let alloc := min alloc k + 1                               -- :261
  let st := bdivLoop k (log_n_max n) alloc k
    { np := 1, nn := 1, i := n - k + 1, i2cnt := 0, j := ODD_FACTORIAL_TABLE_LIMIT + 1, jjj := ODD_FACTORIAL_TABLE_MAX,
      j2cnt := fac2cntTab (ODD_FACTORIAL_TABLE_LIMIT / 2 - 1), kmax := log_n_max k, numfac := 1, ok := true }
  if !st.ok then none else
  -- :343-351 put back the factors of 2
  let cnt := st.i2cnt - st.j2cnt
  some (st.np <<< cnt)

/-- COUNT_A_PRIME (bin_uiui.c:585-598): Kummer carries of k + (n-k) in base p -/
def countPowers (p : Nat) : Nat → Nat → Nat → Nat → Nat → Nat
  | 0, _, _, _, pr => pr
  | fuel + 1, a, b, mb, pr =>
    let mb := mb + b % p; let b := b / p
    let ma := a % p; let a := a / p
    let (mb, pr) := if ma < mb then (1, pr * p % B) else (0, pr)
    if a ≥ p then countPowers p fuel a b mb pr else pr
def countAPrime (n k maxProd p : Nat) (st : FL) : FL :=
  let st := flAppend maxProd st
  (st.1, countPowers p 64 n k 0 st.2)
/-- SH_COUNT_A_PRIME (bin_uiui.c:600-607) -/
def shCountAPrime (n k maxProd p : Nat) (st : FL) : FL :=
  if n % p < k % p then flStore p maxProd st else st

/-- mpz_goetgheluck_bin_uiui (bin_uiui.c:622-702) -/
def goetgheluck_bin_uiui (n k : Nat) : Nat :=
  let maxProd := (B - 1) / n                                 -- :637
  let count := popcount (n - k) + popcount k - popcount n    -- :640-644
  let st : FL := ([], 2 ^ count % B)                          -- :645
  let st := countAPrime n k maxProd 3 st                      -- :648
  let s := n_to_bit (limb_apprsqrt n)                         -- :656-657
  let st := loopOnSieve (n_to_bit 5) s (countAPrime n k maxProd) st        -- :658-660
  let st := loopOnSieve (s + 1) (n_to_bit (n / 2)) (shCountAPrime n k (maxProd * 2 % B)) st   -- :664-674
  let st := loopOnSieve (n_to_bit (n - k) + 1) (n_to_bit n) (fun p => flStore p maxProd) st   -- :680-685
  prodList (st.2 :: st.1)

/-- which algorithm mpz_bin_uiui selects (bin_uiui.c:713-741), after k = MIN (k, n-k) -/
inductive BinAlg | zero | tiny | bc | smallk | smallkdc | goetgheluck | bdiv
  deriving Repr, BEq, DecidableEq

def binDispatch (n k0 : Nat) : BinAlg × Nat :=
  if n < k0 then (.zero, k0) else
  let k := min k0 (n - k0)                                   -- :726
  if k < 2 then (.tiny, k)
  else if n ≤ ODD_FACTORIAL_EXTTABLE_LIMIT then (.bc, k)
  else if k ≤ ODD_FACTORIAL_TABLE_LIMIT then (.smallk, k)
  else if BIN_UIUI_ENABLE_SMALLDC ≠ 0 ∧
      k ≤ (if BIN_UIUI_RECURSIVE_SMALLDC ≠ 0 then ODD_CENTRAL_BINOMIAL_TABLE_LIMIT else ODD_FACTORIAL_TABLE_LIMIT) * 2 then (.smallkdc, k)
  else if aboveThreshold k BIN_GOETGHELUCK_THRESHOLD ∧ k > n / 16 then (.goetgheluck, k)
  else (.bdiv, k)

/-- mpz_bin_uiui (bin_uiui.c:711-742); `none` = a model ASSERT failed in the bdiv branch -/
def mpz_bin_uiui (n k0 : Nat) : Option Nat :=
  match binDispatch n k0 with
  | (.zero, _) => some 0
  | (.tiny, k) => some (if k ≠ 0 then n else 1)
  | (.bc, k) => some (bc_bin_uiui n k)
  | (.smallk, k) => some (smallk_bin_uiui n k)
  | (.smallkdc, k) => some (smallkdc_bin_uiui 8 n k)
  | (.goetgheluck, k) => some (goetgheluck_bin_uiui n k)
  | (.bdiv, k) => bdiv_bin_uiui n k

/-- main loop of mpz_bin_ui (bin_ui.c:84-121): state (ni, nacc, kacc, r) -/
def binUiLoop (k : Nat) : Nat → Nat → Nat → Nat → Nat → Nat → Nat × Nat × Nat
  | 0, _, _, nacc, kacc, r => (nacc, kacc, r)
  | fuel + 1, i, ni, nacc, kacc, r =>
    if i > k then (nacc, kacc, r) else
    let ni := ni + 1                                          -- :103
    let nacc := nacc * ni                                     -- :104
    let kk := kacc * i                                        -- :105 umul_ppmm (k1, k0, kacc, i)
    if kk / B ≠ 0 then
      -- :108-112 accumulator overflow: bignum step, DIVIDE ()
      binUiLoop k fuel (i + 1) ni 1 i (r * nacc / kacc)
    else binUiLoop k fuel (i + 1) ni nacc (kk % B) r

/-- mpz_bin_ui (mpz/bin_ui.c:43-132), n any integer -/
def mpz_bin_ui (n : Int) (k : Nat) : Int :=
  if n < 0 then
    -- :53-60 bin(n,k) = (-1)^k * bin(-n+k-1,k); ni = -n-1
    let ni := (-n - 1).toNat
    let (k', ni') := if ni < k then (ni, k) else (k, ni)      -- :83-89
    let (nacc, kacc, r) := binUiLoop k' k' 1 ni' 1 1 1
    let v := Int.ofNat (r * nacc / kacc)                       -- :123-124
    if k % 2 = 1 then -v else v                               -- :125
  else
    let nn := n.toNat
    if nn < k then 0 else                                     -- :66-70
    let ni := nn - k                                          -- :74
    let (k', ni') := if ni < k then (ni, k) else (k, ni)
    let (nacc, kacc, r) := binUiLoop k' k' 1 ni' 1 1 1
    Int.ofNat (r * nacc / kacc)

/-! ## mpz_remove -/

/-- first phase (remove.c:66-74): divide by f, f^2, f^4, ... while the remainder is zero.
    Returns (dest, powers f^(2^0..2^p) most recent first, p). -/
def removeUp : Nat → Nat → List Nat → Nat → Nat × List Nat × Nat
  | 0, dest, pows, p => (dest, pows, p)
  | fuel + 1, dest, pows, p =>
    match pows with
    | [] => (dest, pows, p)
    | fp :: _ =>
      if dest % fp ≠ 0 then (dest, pows, p)                    -- :69-70
      else removeUp fuel (dest / fp) (fp * fp :: pows) (p + 1)  -- :71-73

/-- second phase (remove.c:82-91): divide by f^(2^(p-1)), ..., f where the remainder is zero -/
def removeDown : List Nat → Nat → Nat → Nat → Nat × Nat
  | [], _, dest, pwr => (dest, pwr)
  | fp :: rest, p, dest, pwr =>
    if dest % fp = 0 then removeDown rest (p - 1) (dest / fp) (pwr + 2 ^ (p - 1))
    else removeDown rest (p - 1) dest pwr

/-- mpz_remove (mpz/remove.c:25-94) on |src| (mpz_tdiv_qr keeps the sign of src on the quotient);
    `none` = DIVIDE_BY_ZERO (f ≤ 1, which includes every negative f) -/
def mpz_remove (src f : Int) : Option (Int × Nat) :=
  if f ≤ 1 then none else                                      -- :33-34
  if src = 0 then some (0, 0) else                             -- :36-41
  let sgn (v : Nat) : Int := if src < 0 then -(Int.ofNat v) else Int.ofNat v
  let a := src.natAbs
  if f = 2 then
    let s0 := ctzAux (a.log2 + 1) a                            -- :45-47 mpz_scan1 (src, 0); fdiv_q_2exp is exact
    some (sgn (a >>> s0), s0)
  else
    let (dest, pows, p) := removeUp (a.log2 + 2) a [f.toNat] 0
    -- :76-78 pwr = (1 << p) - 1; fpow[p] is not used again
    let (dest, pwr) := removeDown (pows.drop 1) p dest (2 ^ p - 1)
    some (sgn dest, pwr)

/-! ## Primality: the deterministic structure of the C -/

/-- mill_rab (mpz/miller_rabin.c:36-56): one strong-pseudoprime round with base x, n - 1 = 2^k q -/
def millRabLoop (n : Nat) : Nat → Nat → Bool
  | 0, _ => false
  | i + 1, y =>
    let y := y * y % n                                         -- :49 mpz_powm_ui (y, y, 2, n)
    if y = n - 1 then true                                     -- :50-51
    else if y = 1 then false                                   -- :52-53
    else millRabLoop n i y
def mill_rab (n x q k : Nat) : Bool :=
  let y := x ^ q % n                                           -- :42 mpz_powm (y, x, q, n)
  if y = 1 ∨ y = n - 1 then true else millRabLoop n (k - 1) y  -- :44-45

/-- executable twin of `mill_rab` (x^q mod n by `powMod`) -/
def mill_rab_exec (n x q k : Nat) : Bool :=
  let y := powMod x q n
  if y = 1 ∨ y = n - 1 then true else millRabLoop n (k - 1) y

/-- mpz_miller_rabin (miller_rabin.c:58-117) with the bases the generator would draw given explicitly:
    small-n guard, Fermat test to base 210, then one `mill_rab` per base while the answer is 1 -/
def miller_rabin_with (n : Nat) (bases : List Nat) : Bool :=
  if n ≤ 7 then n = 2 ∨ n = 3 ∨ n = 5 ∨ n = 7 else             -- :69-73
  if powMod 210 (n - 1) n ≠ 1 then false else                  -- :84-90 Fermat test
  let (k, q) := twoAdic (n - 1) (n - 1)                         -- :95-96 n = 1 + 2^k q
  bases.all (fun x => mill_rab_exec n x q k)                   -- :104-111

/-- `isprime` of pprime_p.c:142-158 -/
def pprimeIsprimeLoop (t : Nat) : Nat → Nat → Bool
  | 0, _ => false
  | fuel + 1, d =>
    let q := t / d; let r := t - q * d
    if q < d then true else if r = 0 then false else pprimeIsprimeLoop t fuel (d + 2)
def pprimeIsprime (t : Nat) : Bool :=
  if t < 3 ∨ t % 2 = 0 then t = 2 else pprimeIsprimeLoop t t 3

/-- the part of mpz_probab_prime_p (pprime_p.c:41-140) that does not depend on random bases, n ≥ 0:
    `some r` = the C returns r before reaching mpz_millerrabin, `none` = Miller-Rabin decides -/
def probab_prime_prefix (n : Nat) : Option Nat :=
  if n ≤ 1000000 then some (if pprimeIsprime n then 2 else 0)  -- :47-55
  else if n % 2 = 0 then some 0                                -- :63-64
  else
    let r := n % PP                                            -- :69-74
    if [3, 5, 7, 11, 13, 17, 19, 23, 29, 31, 37, 41, 43, 47, 53].any (fun p => r % p = 0) then some 0   -- :75-93
    else none     -- :100-136 further trial division by primes below the bit length, then :139

/-- what next_prime_candidate.c:59-89 returns without any probabilistic test (n < last table prime) -/
def npcSmall (n : Nat) : Option Nat :=
  if n < 2 then some 2 else
  let p := (n + 1) ||| 1
  if p ≤ 7 then some p else
  if p ≤ npcPrimes.getLastD 0 then (npcPrimes.find? (fun q => p ≤ q)) else none

end Mpir.Numth
