/-
  C13 part `c13_cmp`: mpf_eq, mpf_reldiff, mpf_sgn (mpf_cmp itself is `Mpir.Mpf.cmp` in Model/Mpf.lean;
  mpf_cmp_ui/_si/_d/_z, the fits/get functions are modelled and proved in C11, Model/Conv.lean).
  Core Lean only.  Line numbers refer to /repo/mpf/eq.c, /repo/mpf/reldiff.c, /repo/mpir.h.

  mpf_eq is mirrored INCLUDING the wrap-around of its `mp_bitcnt_t` arithmetic (eq.c:77, :81): for
  n_bits ≥ 2^64 − 126 the C answers "equal" for operands that merely share sign, exponent and the position
  of the leading bit (reported as a finding); the theorem `eq_spec` is stated below that bound.
-/
import Mpir.Model.Mpf
namespace Mpir.MpfCmp
open Mpir Mpir.Mpf

/-- mpir.h:2486  `#define mpf_sgn(F) ((F)->_mp_size < 0 ? -1 : (F)->_mp_size > 0)` -/
def sgn (u : F) : Int := if u.size < 0 then -1 else if u.size > 0 then 1 else 0

/-- modulus of `unsigned long` / `mp_bitcnt_t` arithmetic -/
def W : Nat := 2 ^ 64

/-- `p[i]` under the guard `if (i >= 0)` of eq.c:83-86 and :93-96 (0 for a negative index; the C never
    indexes at or above the size) -/
def limbAt (d : List Nat) (i : Int) : Nat := if i ≥ 0 then d.getD i.toNat 0 else 0

/-- eq.c:90-99 `for (i = usize - n + 1; i < usize; i++)`: `m` = iterations left; this one has
    i = usize − m and compares up[i] with vp[i − usize + vsize] = vp[vsize − m] -/
def eqLoop (ud vd : List Nat) : Nat → Bool
  | 0 => true
  | m + 1 =>
      let uval := limbAt ud ((ud.length : Int) - ((m + 1 : Nat) : Int))       -- :92-94
      let vval := limbAt vd ((vd.length : Int) - ((m + 1 : Nat) : Int))       -- :95-96
      if uval ≠ vval then false else eqLoop ud vd m                           -- :97-98

/-- eq.c:29-101; `nbits` < 2^64 (an `mp_bitcnt_t`) -/
def eq (u v : F) (nbits : Nat) : Bool :=
  if (u.size < 0) != (v.size < 0) then false                                  -- :43, :53-57
  else if u.size = 0 then decide (v.size = 0)                                 -- :46-47
  else if v.size = 0 then false                                               -- :48-49
  else if u.exp > v.exp then false                                            -- :62-63
  else if v.exp > u.exp then false                                            -- :64-65
  else
    let cu := clz (topLimb u.d)                                               -- :73
    let cv := clz (topLimb v.d)                                               -- :74
    if cu ≠ cv then false else                                                -- :75-76
    let n := (((nbits + cu) % W + 63) % W) / 64                               -- :77 BITS_TO_LIMBS (n_bits + cu), unsigned long
    if n = 0 then true else                                                   -- :78-79
    let k := (n * 64 + 2 * W - nbits - cu) % W                                -- :81
    let uval := limbAt u.d ((u.d.length : Int) - (n : Int))                   -- :82-84
    let vval := limbAt v.d ((v.d.length : Int) - (n : Int))                   -- :85-86
    if uval / 2 ^ k ≠ vval / 2 ^ k then false                                 -- :87-88
    else eqLoop u.d v.d (n - 1)                                               -- :90-100

/-- reldiff.c:30-56.  `d` is a fresh temporary of precision PREC(rdiff) + ABSIZ(x), so mpf_sub runs with
    distinct destination; mpf_div reads its operands before writing (rdiff may be x or y). -/
def reldiff (prec : Nat) (x y : F) : Res :=
  if x.size = 0 then .ok (set_ui prec (if y.size ≠ 0 then 1 else 0))          -- :33-36
  else
    let dprec := prec + x.d.length                                            -- :44
    let d := sub dprec false false x y                                        -- :50
    let d' : F := { d with size := (d.size.natAbs : Int) }                    -- :51 SIZ(d) = ABSIZ(d)
    div prec d' x                                                             -- :52

end Mpir.MpfCmp
