/-
  C13 part `c13_cmp`: mpf_eq, mpf_reldiff, mpf_sgn (mpf_cmp itself is `Mpir.Mpf.cmp` in Model/Mpf.lean;
  mpf_cmp_ui/_si/_d/_z, the fits/get functions are modelled and proved in C11, Model/Conv.lean).
  Core Lean only.  Line numbers refer to /repo/mpf/eq.c, /repo/mpf/reldiff.c, /repo/mpir.h.

  mpf_eq is mirrored with its `mp_bitcnt_t` arithmetic taken mod 2^64 (eq.c:82, :86).  Before /repo commit b2b40d5
  (the clamp of eq.c:77-81, added after this model exhibited the defect) n_bits ≥ 2^64 − 126 wrapped and the C
  answered "equal" for operands that merely share sign, exponent and the position of the leading bit
  (`eqNoClamp`, theorem `eq_wrapped_before_b2b40d5`).
-/
import Mpir.Model.Mpf
namespace Mpir.MpfCmp
open Mpir Mpir.Mpf

/-- mpir.h:2486  `#define mpf_sgn(F) ((F)->_mp_size < 0 ? -1 : (F)->_mp_size > 0)` -/
def sgn (u : F) : Int := if u.size < 0 then -1 else if u.size > 0 then 1 else 0

/-- modulus of `unsigned long` / `mp_bitcnt_t` arithmetic -/
def W : Nat := 2 ^ 64

/-- `p[i]` under the guard `if (i >= 0)` of eq.c:88-91 and :98-101 (0 for a negative index; the C never
    indexes at or above the size) -/
def limbAt (d : List Nat) (i : Int) : Nat := if i ≥ 0 then d.getD i.toNat 0 else 0

/-- eq.c:95-104 `for (i = usize - n + 1; i < usize; i++)`: `m` = iterations left; this one has
    i = usize − m and compares up[i] with vp[i − usize + vsize] = vp[vsize − m] -/
def eqLoop (ud vd : List Nat) : Nat → Bool
  | 0 => true
  | m + 1 =>
      let uval := limbAt ud ((ud.length : Int) - ((m + 1 : Nat) : Int))       -- :97-99
      let vval := limbAt vd ((vd.length : Int) - ((m + 1 : Nat) : Int))       -- :100-101
      if uval ≠ vval then false else eqLoop ud vd m                           -- :102-103

/-- eq.c:82-105 on the (clamped) bit count: the bottom limb shifted, the limbs above exactly -/
def eqTail (ud vd : List Nat) (nbits cu : Nat) : Bool :=
  let n := (((nbits + cu) % W + 63) % W) / 64                                 -- :82 BITS_TO_LIMBS (n_bits + cu), unsigned long
  if n = 0 then true else                                                     -- :83-84
  let k := (n * 64 + 2 * W - nbits - cu) % W                                  -- :86
  let uval := limbAt ud ((ud.length : Int) - (n : Int))                       -- :87-89
  let vval := limbAt vd ((vd.length : Int) - (n : Int))                       -- :90-91
  if uval / 2 ^ k ≠ vval / 2 ^ k then false                                   -- :92-93
  else eqLoop ud vd (n - 1)                                                   -- :95-105

/-- eq.c:29-106; `nbits` < 2^64 (an `mp_bitcnt_t`) -/
def eq (u v : F) (nbits : Nat) : Bool :=
  if (u.size < 0) != (v.size < 0) then false                                  -- :43, :53-57
  else if u.size = 0 then decide (v.size = 0)                                 -- :46-47
  else if v.size = 0 then false                                               -- :48-49
  else if u.exp > v.exp then false                                            -- :62-63
  else if v.exp > u.exp then false                                            -- :64-65
  else
    let cu := clz (topLimb u.d)                                               -- :73
    let cv := clz (topLimb v.d)                                               -- :74
    if cu ≠ cv then false else                                                -- :75-76
    let lim := 64 * max u.d.length v.d.length                                 -- :80 (mp_bitcnt_t) GMP_NUMB_BITS * MAX (usize, vsize)
    let nb := if nbits > lim then lim else nbits                              -- :80-81 (b2b40d5)
    eqTail u.d v.d nb cu                                                      -- :82-105

/-- mpf_eq as it was before /repo commit b2b40d5 (no clamp of n_bits): kept to state what was wrong -/
def eqNoClamp (u v : F) (nbits : Nat) : Bool :=
  if (u.size < 0) != (v.size < 0) then false
  else if u.size = 0 then decide (v.size = 0)
  else if v.size = 0 then false
  else if u.exp > v.exp then false
  else if v.exp > u.exp then false
  else
    let cu := clz (topLimb u.d)
    let cv := clz (topLimb v.d)
    if cu ≠ cv then false else eqTail u.d v.d nbits cu

/-- reldiff.c:30-56.  `d` is a fresh temporary of precision PREC(rdiff) + ABSIZ(x), so mpf_sub runs with
    distinct destination; mpf_div reads its operands before writing (rdiff may be x or y). -/
def reldiff (prec : Nat) (x y : F) : Res :=
  if x.size = 0 then .ok (set_ui prec (if y.size ≠ 0 then 1 else 0))          -- :33-36
  else
    let dprec := prec + x.d.length                                            -- :44
    let d := sub dprec false false x y                                        -- :50
    let d' : F := { d with size := (d.size.natAbs : Int) }                    -- :51 SIZ(d) = ABSIZ(d)
    div prec d' x                                                             -- :52

end Mpir.MpfCmp
