/-
  C11 — comparisons and C-type conversions (mpz and mpf functions, double conversions).
  Core Lean only.  64-bit limbs, no nails, IEEE little-endian doubles (HAVE_DOUBLE_IEEE_LITTLE_ENDIAN),
  mpir_ui = unsigned long, mpir_si = long, uintmax_t = 64 bits.

  Doubles are 64-bit patterns (`Nat` below 2^64); the model never uses a hardware float.
  Part 1  exact model of binary64: `decode`, the specification `truncate53` / `truncToDouble`
  Part 2  word-level mirrors of the C: `mpn_get_d` (mpn/generic/get_d.c, IEEE branch),
          `extract_double` (extract-dbl.c)
  Part 3  mpz functions (mpz/*.c and the inline forms of mpir.h)
  Part 4  mpf functions (mpf/*.c)
  Tie = correspondence: ops in Mpir/Ops/Conv.lean against harness/ops_conv.c.

  Places where the C relies on two's-complement wrap-around of signed arithmetic (undefined behaviour in ISO C,
  benign with gcc on x86-64; the model mirrors the wrapped result):
    get_d.c:107        `LONG_MAX - exp` for exp < 0
    mpz/get_si.c:42    `(mpir_si) zl - 1L` for zl = 2^63 (the very case its comment is about)
    mpz/cmp_si.c:50, mpz/set_si.c:32, mpz/set_sx.c:36, mpf/cmp_si.c:60   negation / ABS of LONG_MIN
  Defects found with this model and repaired in /repo: the `int` truncation of the size difference in mpz_cmp /
  mpz_cmp_si (bf39310, 7930bf7); the overflow of (EXP - size) * 64 in mpf_get_d (0f91e63).
  Inherent in the interface (not a code defect): mpf_get_d_2exp / mpz_get_d_2exp return the exponent in a long.
-/
import Mpir.Base
import Mpir.Model.Kernels
namespace Mpir.Conv
open Mpir

/-! ## Part 1: binary64 as exact dyadic numbers -/

/-- A decoded binary64: `fin neg man exp` is (-1)^neg · man · 2^exp. -/
inductive Dbl where
  | fin (neg : Bool) (man : Nat) (exp : Int)
  | inf (neg : Bool)
  | nan
  deriving DecidableEq, Repr, Inhabited

/-- Fields of a bit pattern: sign (bit 63), biased exponent (bits 52..62), mantissa (bits 0..51). -/
def sigOf (b : Nat) : Nat := b / 2 ^ 63 % 2
def expOf (b : Nat) : Nat := b / 2 ^ 52 % 2048
def manOf (b : Nat) : Nat := b % 2 ^ 52

/-- IEEE 754 binary64 decoding.  Normal numbers get the hidden bit, denormals exponent -1074. -/
def decode (b : Nat) : Dbl :=
  if expOf b = 2047 then (if manOf b = 0 then .inf (sigOf b = 1) else .nan)
  else if expOf b = 0 then .fin (sigOf b = 1) (manOf b) (-1074)
  else .fin (sigOf b = 1) (2 ^ 52 + manOf b) ((expOf b : Int) - 1075)

/-- Assemble sign, biased exponent and 52-bit mantissa field. -/
def mkBits (sig e man : Nat) : Nat := man + e * 2 ^ 52 + sig * 2 ^ 63

/-- floor (v · 2^k), k any integer. -/
def shiftZ (v : Nat) (k : Int) : Nat :=
  if k ≥ 0 then v <<< k.toNat else v >>> (-k).toNat

/-- Number of significant bits (0 for 0). -/
def bitlen (v : Nat) : Nat := if v = 0 then 0 else Nat.log2 v + 1

/-- SPECIFICATION: the double obtained from x · 2^e by truncation toward zero.
    For v = |x| > 0 let E = bitlen v + e, so 2^(E-1) ≤ v·2^e < 2^E.
    * E > 1024: the value is ≥ 2^1024, not representable: ±infinity.
    * otherwise the quantum is 2^q with q = max (E - 53) (-1074) (53 significant bits, or the fixed
      denormal quantum) and the mantissa is floor (v·2^e / 2^q).
    * a mantissa of 0 (|value| < 2^-1074) gives +0.0 whatever the sign (get_d.c:179 returns 0.0). -/
def truncate53 (x : Int) (e : Int) : Dbl :=
  let v := x.natAbs
  if v = 0 then .fin false 0 (-1074) else
  let E : Int := (bitlen v : Int) + e
  if E > 1024 then .inf (decide (x < 0)) else
  let q : Int := if E - 53 ≥ -1074 then E - 53 else -1074
  let m := shiftZ v (e - q)
  if m = 0 then .fin false 0 (-1074) else .fin (decide (x < 0)) m q

/-- Canonical bit pattern of a decoded double whose mantissa/exponent are in decoded normal form. -/
def encode : Dbl → Nat
  | .nan => mkBits 0 2047 (2 ^ 51)
  | .inf neg => mkBits (boolToNat neg) 2047 0
  | .fin neg m q =>
      if m < 2 ^ 52 then mkBits (boolToNat neg) 0 m
      else mkBits (boolToNat neg) (q + 1075).toNat (m - 2 ^ 52)

/-- `truncToDouble x e` = bit pattern of x·2^e truncated toward zero to a double. -/
def truncToDouble (x : Int) (e : Int) : Nat := encode (truncate53 x e)

/-- d·2^1074 for a finite double: every finite double is an integer multiple of 2^-1074. -/
def dblNum (b : Nat) : Nat :=
  if expOf b = 0 then manOf b else (2 ^ 52 + manOf b) * 2 ^ (expOf b - 1)

def isNaN (b : Nat) : Bool := expOf b = 2047 && manOf b ≠ 0
def isInf (b : Nat) : Bool := expOf b = 2047 && manOf b = 0
/-- C `d == 0.0` (true for -0.0 too). -/
def isZero (b : Nat) : Bool := b % 2 ^ 63 = 0
/-- C `d < 0.0` for a non-NaN d. -/
def isNeg (b : Nat) : Bool := sigOf b = 1 && !isZero b
/-- C `-d` / clearing the sign: `ABS(d)` for non-NaN d (ABS(-0.0) keeps the sign bit; no caller cares). -/
def absBits (b : Nat) : Nat := b % 2 ^ 63
/-- bit pattern of 1.0 -/
def oneBits : Nat := 0x3FF0000000000000

/-! ## C integer conversions -/

def LONG_MAX : Int := 2 ^ 63 - 1
def LONG_MIN : Int := -(2 ^ 63)
/-- `(unsigned long) x` -/
def toU64 (x : Int) : Nat := (x % 2 ^ 64).toNat
/-- `(long) u` for a 64-bit pattern -/
def toS64 (u : Nat) : Int := if u % 2 ^ 64 ≥ 2 ^ 63 then ((u % 2 ^ 64 : Nat) : Int) - 2 ^ 64 else ((u % 2 ^ 64 : Nat) : Int)
/-- `(int) x` for a wider signed value (two's complement truncation, as gcc does) -/
def toS32 (x : Int) : Int := if x % 2 ^ 32 ≥ 2 ^ 31 then x % 2 ^ 32 - 2 ^ 32 else x % 2 ^ 32
/-- count_leading_zeros on a non-zero 64-bit limb (`bsrq`; trusted W primitive) -/
def clz64 (x : Nat) : Nat := 63 - Nat.log2 x

def sgn (x : Int) : Int := if x < 0 then -1 else if x > 0 then 1 else 0

/-! ## Part 2a: mpn_get_d, IEEE branch, ONE_LIMB (mpn/generic/get_d.c:94-218) -/

/-- get_d.c:202-217: `u.s.manh = m0 >> 32` (20-bit field), `u.s.manl = m0` (32-bit field),
    `u.s.exp = exp + 1023` (11-bit field), `u.s.sig = (sign < 0)`. -/
def assemble (m0 : Nat) (exp : Int) (sign : Int) : Nat :=
  let manh := (m0 >>> 32) % 2 ^ 20
  let manl := m0 % 2 ^ 32
  let e := ((exp + 1023) % 2048).toNat
  manl + manh * 2 ^ 32 + e * 2 ^ 52 + (if sign < 0 then 1 else 0) * 2 ^ 63

/-- mpn_get_d (ptr, size, sign, exp): the value {ptr,size}·2^exp, negative if sign<0, truncated.
    Precondition (get_d.c:97-99): size ≥ 0, high limb non-zero.  `exp` is a C `long`. -/
def mpn_get_d (ptr : List Nat) (sign : Int) (exp : Int) : Nat :=
  let size := ptr.length
  if size = 0 then 0 else                                            -- :101 return 0.0
  -- :107 (mpir_ui)(GMP_NUMB_BITS*size) > (mpir_ui)(LONG_MAX - exp)  → goto ieee_infinity (:110, :171)
  if (64 * size) % 2 ^ 64 > toU64 (LONG_MAX - exp) then assemble 0 1024 sign else
  let exp := exp + 64 * size                                         -- :117
  let m0 := ptr.getD (size - 1) 0                                    -- :129 high limb
  let m1 := if size ≥ 2 then ptr.getD (size - 2) 0 else 0            -- :130
  let lshift := clz64 m0                                             -- :131
  let exp := exp - (lshift + 1)                                      -- :134
  let rshift := 64 - lshift                                          -- :139
  let rmask := if lshift = 0 then 0 else B - 1                       -- :141
  let m0 := ((m0 <<< lshift) % B) ||| ((m1 >>> rshift) &&& rmask)    -- :142 (a shift by 64 when lshift = 0 is masked off by rmask)
  let m0 := m0 >>> 11                                                -- :145
  if exp ≥ 1024 then assemble 0 1024 sign                            -- :168-175
  else if exp ≤ -1023 then                                           -- :176
    if exp ≤ -1022 - 53 then 0                                       -- :178 return 0.0
    else
      let rshift := (-1022 - exp).toNat                              -- :181
      let m0 := m0 >>> rshift                                        -- :185
      assemble m0 (-1023) sign                                       -- :199
  else assemble m0 exp sign

/-! ## Part 2b: __gmp_extract_double (extract-dbl.c:40-266), BITS_PER_PART = 64, LIMBS_PER_DOUBLE = 2 -/

/-- extract-dbl.c:70-76: `do { manl <<= 1; exp--; } while ((manl & GMP_LIMB_HIGHBIT) == 0)`. -/
def denormLoop : Nat → Nat → Int → Nat × Int
  | 0, manl, e => (manl, e)
  | fuel + 1, manl, e =>
      let manl := (manl <<< 1) % B
      let e := e - 1
      if manl &&& 2 ^ 63 = 0 then denormLoop fuel manl e else (manl, e)

/-- Returns (rp[0], rp[1], exp): d = {rp,2} · B^(exp-2).  Precondition: d ≥ 0 finite (the sign bit is
    not looked at; Inf/NaN are excluded by the callers' DOUBLE_NAN_INF_ACTION). -/
def extract_double (b : Nat) : Nat × Nat × Int :=
  if isZero b then (0, 0, 0) else                                    -- :52-56
  let exp : Int := expOf b                                           -- :62
  let manh := b / 2 ^ 32 % 2 ^ 20
  let manl32 := b % 2 ^ 32
  let manl := 2 ^ 63 ||| (manh <<< 43) ||| (manl32 <<< 11)           -- :64-65
  let (manl, exp) := if exp = 0 then denormLoop 64 manl 1 else (manl, exp)   -- :66-77
  let exp := exp - 1022                                              -- :99
  let sc := ((exp + 64 * 64) % 64).toNat                             -- :148
  let exp := (exp + 64 * 64) / 64 - 64 + 1                           -- :151 (exp+4096 > 0: C division = floor)
  if sc ≠ 0 then ((manl <<< sc) % B, manl >>> (64 - sc), exp)        -- :155-159
  else (0, manl, exp - 1)                                            -- :160-165

/-! ## Part 3: mpz -/

/-- An mpz_t as the functions below see it: `_mp_size` and the |size| limbs `_mp_d[0..]`. -/
structure Z where
  size : Int
  d : List Nat
  deriving Repr, DecidableEq, Inhabited

def Z.ofInt (x : Int) : Z :=
  let l := natLimbs x.natAbs
  ⟨if x < 0 then -(l.length : Int) else (l.length : Int), l⟩

def Z.toInt (z : Z) : Int := if z.size < 0 then -(val z.d : Int) else (val z.d : Int)

/-- well formed: |size| limbs, all proper, high limb non-zero -/
def Z.wf (z : Z) : Prop := z.d.length = z.size.natAbs ∧ Limbs z.d ∧ (z.d ≠ [] → z.d.getLast? ≠ some 0)

/-- mpz_sgn (mpir.h:2485) -/
def mpz_sgn (z : Z) : Int := if z.size < 0 then -1 else if z.size > 0 then 1 else 0

/-- mpz_cmp (mpz/cmp.c:27-46) -/
def mpz_cmp (u v : Z) : Int :=
  let dsize := u.size - v.size                      -- :35
  if dsize ≠ 0 then (if dsize > 0 then 1 else -1)    -- :36-37
  else
    let c := Mpir.cmp u.d v.d                        -- :42 MPN_CMP over asize limbs
    if u.size ≥ 0 then c else -c                     -- :43

/-- The variant of mpz_cmp before commit bf39310 (`return dsize;` with an `int` return type): kept only to
    document the defect (see MpirProofs/Props/C11.lean). -/
def mpz_cmp_old (u v : Z) : Int :=
  let dsize := u.size - v.size
  if dsize ≠ 0 then toS32 dsize
  else
    let c := Mpir.cmp u.d v.d
    if u.size ≥ 0 then c else -c

/-- mpz_cmpabs (mpz/cmpabs.c:28-44); the `int` return holds |usize|-|vsize| (fits: both in 0..2^31-1). -/
def mpz_cmpabs (u v : Z) : Int :=
  let usize : Int := u.size.natAbs
  let vsize : Int := v.size.natAbs
  let dsize := usize - vsize
  if dsize ≠ 0 then dsize else Mpir.cmp u.d v.d

/-- _mpz_cmp_ui (mpz/cmp_ui.c:27-69, no nails) -/
def mpz_cmp_ui (u : Z) (v : Nat) : Int :=
  let un := u.size
  if un = 0 then -(if v ≠ 0 then 1 else 0)          -- :37
  else if un = 1 then                                -- :40
    let ul := u.d.getD 0 0
    if ul > v then 1 else if ul < v then -1 else 0
  else if un > 0 then 1 else -1                      -- :68

/-- _mpz_cmp_si (mpz/cmp_si.c:27-68, no nails) -/
def mpz_cmp_si (u : Z) (v : Int) : Int :=
  let usize := u.size
  let (vsize, vd) : Int × Int :=
    if v > 0 then (1, v) else if v < 0 then (-1, toS64 (toU64 (-v))) else (0, v)   -- :44-51 (`-LONG_MIN` wraps)
  if usize ≠ vsize then (if usize > vsize then 1 else -1)     -- :53-54
  else if usize = 0 then 0                                      -- :56
  else
    let u_digit := u.d.getD 0 0                                 -- :59
    let vl := toU64 vd                                          -- (mp_limb_t)(mpir_ui) v_digit
    if u_digit = vl then 0                                      -- :61
    else if u_digit > vl then usize else -usize                 -- :64-67

/-- The macro forms (mpir.h:2491-2498): with a compile-time constant argument gcc picks
    mpz_sgn (constant 0) or _mpz_cmp_ui (constant > 0); otherwise the function. -/
def mpz_cmp_ui_macro (const : Bool) (z : Z) (ui : Nat) : Int :=
  if const && ui == 0 then mpz_sgn z else mpz_cmp_ui z ui
def mpz_cmp_si_macro (const : Bool) (z : Z) (si : Int) : Int :=
  if const && si == 0 then mpz_sgn z
  else if const && decide (si > 0) then mpz_cmp_ui z (toU64 si)
  else mpz_cmp_si z si

/-- mpz_cmpabs_ui (mpz/cmpabs_ui.c:27-69, no nails) -/
def mpz_cmpabs_ui (u : Z) (v : Nat) : Int :=
  if u.size = 0 then -(if v ≠ 0 then 1 else 0)     -- :37
  else if u.size.natAbs = 1 then                     -- :42
    let ul := u.d.getD 0 0
    if ul > v then 1 else if ul < v then -1 else 0
  else 1                                             -- :68

/-- Limb comparison tail shared by mpz_cmp_d / mpz_cmpabs_d (cmp_d.c:102-109, LIMBS_PER_DOUBLE = 2):
    z has `zsize = dexp` limbs; compare against darray = [d0, d1]; `ret` is the sign of z. -/
def cmpLimbsD (zp : List Nat) (d0 d1 : Nat) (ret : Int) : Int :=
  let zsize := zp.length
  let zl := zp.getD (zsize - 1) 0
  if zl ≠ d1 then (if zl ≥ d1 then ret else -ret)                 -- :103 RETURN_CMP
  else if zsize = 1 then (if d0 ≠ 0 then -ret else 0)              -- :104-105
  else
    let zl := zp.getD (zsize - 2) 0
    if zl ≠ d0 then (if zl ≥ d0 then ret else -ret)               -- :107
    else if (zp.take (zsize - 2)).any (· != 0) then ret else 0     -- :108 RETURN_NONZERO

/-- Steps 3-5 of mpz_cmp_d (cmp_d.c:88-108), identical in mpz_cmpabs_d (cmpabs_d.c:73-93) with ret = 1:
    `zsize` = |SIZ(z)| ≥ 1, `d` = |d| non-zero finite, `ret` = sign of z. -/
def cmpTailD (zp : List Nat) (zsize : Int) (d : Nat) (ret : Int) : Int :=
  if d < oneBits then ret                                           -- :89 d < 1.0
  else
    let (d0, d1, dexp) := extract_double d                          -- :92
    if zsize ≠ dexp then (if zsize ≥ dexp then ret else -ret)       -- :96-97
    else cmpLimbsD zp d0 d1 ret                                     -- :100-108

/-- mpz_cmp_d (mpz/cmp_d.c:50-136).  `none` = __gmp_invalid_operation (NaN). -/
def mpz_cmp_d (z : Z) (d : Nat) : Option Int :=
  if isNaN d then none                                              -- :60
  else if isInf d then some (if isNeg d then 1 else -1)             -- :60 goto z_zero; :69
  else
    let zsize := z.size
    if isZero d then some zsize                                     -- :64-65
    else if zsize = 0 then some (if isNeg d then 1 else -1)         -- :66-70
    else if zsize ≥ 0 ∧ isNeg d then some 1                         -- :73-76
    else if zsize < 0 ∧ !isNeg d then some (-1)                     -- :81-82
    else
      let ret : Int := if zsize ≥ 0 then 1 else -1                  -- :77, :83
      -- :84 d = -d (only when negative), :85 zsize = -zsize
      some (cmpTailD z.d zsize.natAbs (absBits d) ret)              -- :88-108

/-- mpz_cmpabs_d (mpz/cmpabs_d.c:50-121). -/
def mpz_cmpabs_d (z : Z) (d : Nat) : Option Int :=
  if isNaN d then none                                              -- :60
  else if isInf d then some (-1)                                    -- :60
  else
    let zsize := z.size
    if isZero d then some (if zsize ≠ 0 then 1 else 0)              -- :64-65
    else if zsize = 0 then some (-1)                                -- :66-67 (d != 0 here)
    else some (cmpTailD z.d zsize.natAbs (absBits d) 1)             -- :70-93

/-- mpz_get_d (mpz/get_d.c:26-35) -/
def mpz_get_d (z : Z) : Nat :=
  if z.size = 0 then 0 else mpn_get_d z.d z.size 0

/-- mpz_get_d_2exp (mpz/get_d_2exp.c:29-58): returns (double bits, exponent). -/
def mpz_get_d_2exp (z : Z) : Nat × Int :=
  if z.size = 0 then (0, 0) else                                    -- :38-42
  let abs_size := z.size.natAbs
  let cnt := clz64 (z.d.getD (abs_size - 1) 0)                      -- :46
  let exp : Int := (abs_size : Int) * 64 - cnt                      -- :47
  (mpn_get_d z.d z.size (-exp), exp)                                -- :48-49

/-- mpz_set_d (mpz/set_d.c:39-108).  `none` = __gmp_invalid_operation (NaN or Inf, :47-49). -/
def mpz_set_d (d : Nat) : Option Z :=
  if isNaN d || isInf d then none else
  let negative := isNeg d                                           -- :51
  let (t0, t1, rn) := extract_double (absBits d)                    -- :52-54
  let rn : Int := if rn ≤ 0 then 0 else rn                          -- :59-60
  let limbs : List Nat :=
    if rn = 0 then []                                               -- :103
    else if rn = 1 then [t1]                                        -- :74-76
    else List.replicate (rn.toNat - 2) 0 ++ [t0, t1]                -- :66-73 (MPN_ZERO then both limbs)
  some ⟨if negative then -rn else rn, limbs⟩                        -- :107

/-- mpz_fits_{sshort,sint,slong,si}_p (mpz/fits_s.h:26-52, no nails); `maxv` = MAXIMUM, `minabs` = -(mp_limb_t)MINIMUM -/
def fits_s (maxv minabs : Nat) (z : Z) : Bool :=
  let n := z.size
  let limb := z.d.getD 0 0
  if n = 0 then true                     -- :33
  else if n = 1 then limb ≤ maxv         -- :35
  else if n = -1 then limb ≤ minabs      -- :37
  else false                             -- :51

/-- __GMPZ_FITS_UTYPE_P (mpir.h:1954-1957, no nails) -/
def fits_u (maxv : Nat) (z : Z) : Bool :=
  z.size = 0 || (z.size = 1 && z.d.getD 0 0 ≤ maxv)

def mpz_fits_ulong_p := fits_u (2 ^ 64 - 1)
def mpz_fits_ui_p := fits_u (2 ^ 64 - 1)
def mpz_fits_uint_p := fits_u (2 ^ 32 - 1)
def mpz_fits_ushort_p := fits_u (2 ^ 16 - 1)
def mpz_fits_slong_p := fits_s (2 ^ 63 - 1) (2 ^ 63)
def mpz_fits_si_p := fits_s (2 ^ 63 - 1) (2 ^ 63)
def mpz_fits_sint_p := fits_s (2 ^ 31 - 1) (2 ^ 31)
def mpz_fits_sshort_p := fits_s (2 ^ 15 - 1) (2 ^ 15)

/-- mpz_get_ui (mpir.h:2015-2035): `(mpir_ui)(n != 0 ? p[0] : 0)` -/
def mpz_get_ui (z : Z) : Nat := if z.size ≠ 0 then z.d.getD 0 0 else 0

/-- mpz_get_si (mpz/get_si.c:26-45) -/
def mpz_get_si (z : Z) : Int :=
  let zl := z.d.getD 0 0
  if z.size > 0 then ((zl % 2 ^ 63 : Nat) : Int)                              -- :39 (mpir_si) zl & GMP_SI_MAX
  else if z.size < 0 then -(((zl + B - 1) % B % 2 ^ 63 : Nat) : Int) - 1      -- :42 ~(((mpir_si) zl - 1L) & GMP_SI_MAX)
  else 0

/-- mpz_get_ux (mpz/get_ux.c:35-46, NLIMBS = 1) -/
def mpz_get_ux (z : Z) : Nat := if z.size ≠ 0 then z.d.getD 0 0 else 0

/-- mpz_get_sx (mpz/get_sx.c:35-46, NLIMBS = 1): `uintmax_t v = d[0]; return size < 0 ? -v : v;` as intmax_t -/
def mpz_get_sx (z : Z) : Int :=
  let v := if z.size ≠ 0 then z.d.getD 0 0 else 0
  if z.size < 0 then toS64 ((B - v) % B) else toS64 v

/-- mpz_set_ui (mpz/set_ui.c:26-44) -/
def mpz_set_ui (v : Nat) : Z := ⟨if v ≠ 0 then 1 else 0, if v ≠ 0 then [v] else []⟩

/-- mpz_set_si (mpz/set_si.c:26-47): `vl = (mp_limb_t)(mpir_ui)(val >= 0 ? val : -val)` -/
def mpz_set_si (v : Int) : Z :=
  let vl := toU64 (if v ≥ 0 then v else -v)
  let size : Int := if vl ≠ 0 then 1 else 0
  ⟨if v ≥ 0 then size else -size, if vl ≠ 0 then [vl] else []⟩

/-- mpz_set_ux (mpz/set_ux.c:34-51, NLIMBS = 1) -/
def mpz_set_ux (v : Nat) : Z := ⟨if v ≠ 0 then 1 else 0, if v ≠ 0 then [v] else []⟩

/-- mpz_set_sx (mpz/set_sx.c:34-51, NLIMBS = 1): `uv = (v < 0 ? -v : v)` -/
def mpz_set_sx (v : Int) : Z :=
  let uv := toU64 (if v < 0 then -v else v)
  ⟨if v < 0 then -1 else if v ≠ 0 then 1 else 0, if v ≠ 0 then [uv] else []⟩

/-! ## Part 4: mpf -/

/-- An mpf_t as read by the functions below: value = ± {d, |size|} · B^(exp - |size|). -/
structure F where
  size : Int
  exp : Int
  d : List Nat
  deriving Repr, DecidableEq, Inhabited

/-- well formed: |size| limbs, proper, high limb non-zero, zero has exp 0 -/
def F.wf (f : F) : Prop :=
  f.d.length = f.size.natAbs ∧ Limbs f.d ∧ (f.d ≠ [] → f.d.getLast? ≠ some 0) ∧ (f.size = 0 → f.exp = 0)

/-- mpf_sgn (mpir.h:2486) -/
def mpf_sgn (f : F) : Int := if f.size < 0 then -1 else if f.size > 0 then 1 else 0

/-- `while (up[0] == 0) { up++; usize--; }` -/
def stripLow (l : List Nat) : List Nat := l.dropWhile (· == 0)

/-- mpf/cmp.c:89-107: compare the mantissas (low zero limbs already skipped) aligned at their high ends. -/
def mpf_cmp_limbs (up vp : List Nat) (usign : Int) : Int :=
  let un := up.length
  let vn := vp.length
  if un > vn then                                                     -- :89
    let c := Mpir.cmp (up.drop (un - vn)) vp
    if c = 0 then usign else if c > 0 then usign else -usign          -- :92-93, :107
  else if vn > un then                                                -- :95
    let c := Mpir.cmp up (vp.drop (vn - un))
    if c = 0 then -usign else if c > 0 then usign else -usign         -- :98-99, :107
  else
    let c := Mpir.cmp up vp                                           -- :103
    if c = 0 then 0 else if c > 0 then usign else -usign              -- :104-107

/-- mpf_cmp (mpf/cmp.c:25-108) -/
def mpf_cmp (u v : F) : Int :=
  let usize := u.size
  let vsize := v.size
  if (decide (usize < 0)) != (decide (vsize < 0)) then (if usize ≥ 0 then 1 else -1)   -- :41 (usize ^ vsize) < 0; :55
  else if usize = 0 then -(if vsize ≠ 0 then 1 else 0)                    -- :44-46
  else if vsize = 0 then (if usize ≠ 0 then 1 else 0)                     -- :47-49
  else
    let usign : Int := if usize ≥ 0 then 1 else -1                        -- :60
    if u.exp > v.exp then usign                                           -- :63
    else if u.exp < v.exp then -usign                                     -- :65
    else mpf_cmp_limbs (stripLow u.d) (stripLow v.d) usign                -- :77-86 skip low zeros; :89-107

/-- Steps 2-4 shared by mpf_cmp_ui (cmp_ui.c:51-90, usign = 1) and mpf_cmp_si (cmp_si.c:69-108):
    |u| against the non-zero one-limb value vv, whose exponent is 1. -/
def mpf_cmp_limb1 (u : F) (vv : Nat) (usign : Int) : Int :=
  if u.exp > 1 then usign                                   -- cmp_ui.c:51 / cmp_si.c:69
  else if u.exp < 1 then -usign                             -- :53 / :71
  else
    let usize := u.size.natAbs
    let ulimb := u.d.getD (usize - 1) 0                     -- :59 / :77
    if ulimb > vv then usign                                -- :72 / :90
    else if ulimb < vv then -usign                          -- :74 / :92
    else if (stripLow u.d).length > 1 then usign else 0     -- :69,:78-90 / :87,:96-108 (usize-1 minus low zero limbs > 0)

/-- mpf_cmp_ui (mpf/cmp_ui.c:25-91, no nails) -/
def mpf_cmp_ui (u : F) (v : Nat) : Int :=
  if u.size < 0 then -1                                     -- :37
  else if v = 0 then (if u.size ≠ 0 then 1 else 0)          -- :41
  else mpf_cmp_limb1 u v 1                                  -- :51-90

/-- mpf_cmp_si (mpf/cmp_si.c:26-109, no nails) -/
def mpf_cmp_si (u : F) (v : Int) : Int :=
  if (decide (u.size < 0)) != (decide (v < 0)) then (if u.size ≥ 0 then 1 else -1)   -- :39, :53
  else if u.size = 0 then -(if v ≠ 0 then 1 else 0)         -- :42-44
  else if v = 0 then (if u.size ≠ 0 then 1 else 0)          -- :45-47
  else
    let usign : Int := if u.size ≥ 0 then 1 else -1         -- :58
    -- :59 usize = ABS (usize); :60 vval = ABS (vval), read as (mpir_ui) (so LONG_MIN gives 2^63)
    mpf_cmp_limb1 u (toU64 (if v ≥ 0 then v else -v)) usign   -- :69-108

/-- mpf_cmp_d (mpf/cmp_d.c:31-51).  `none` = __gmp_invalid_operation (NaN). -/
def mpf_cmp_d (f : F) (d : Nat) : Option Int :=
  if isNaN d then none                                                  -- :39-40
  else if isInf d then some (if isNeg d then 1 else -1)                 -- :41
  else if isZero d then some f.size                                     -- :43-44
  else
    let (d0, d1, e) := extract_double (absBits d)                       -- :48
    some (mpf_cmp f ⟨if !isNeg d then 2 else -2, e, [d0, d1]⟩)          -- :46-50

/-- mpf_cmp_z (mpf/cmp_z.c:33-45) -/
def mpf_cmp_z (u : F) (v : Z) : Int := mpf_cmp u ⟨v.size, v.size.natAbs, v.d⟩

/-- mpf_get_d (mpf/get_d.c:25-46).  The limb exponent EXP - abs_size is scaled to a bit exponent with
    saturation (the product need not fit a `long`): mpn_get_d then returns infinity resp. zero. -/
def mpf_get_d (f : F) : Nat :=
  if f.size = 0 then 0 else                                             -- :32-33
  let abs_size := f.size.natAbs                                         -- :35
  let exp : Int := f.exp - abs_size                                     -- :36
  let exp : Int :=
    if exp > LONG_MAX / 64 then LONG_MAX                                -- :39-40
    else if exp < LONG_MIN / 64 then LONG_MIN / 2                       -- :41-42
    else exp * 64                                                       -- :44
  mpn_get_d f.d f.size exp                                              -- :45

/-- mpf_get_d_2exp (mpf/get_d_2exp.c:29-59) -/
def mpf_get_d_2exp (f : F) : Nat × Int :=
  if f.size = 0 then (0, 0) else
  let abs_size := f.size.natAbs
  let cnt := clz64 (f.d.getD (abs_size - 1) 0)                                    -- :45
  (mpn_get_d f.d f.size (-((abs_size : Int) * 64 - cnt)), f.exp * 64 - cnt)       -- :48-50

/-- limb just above the radix point, as fetched by mpf_get_si / mpf_get_ui -/
def mpf_intLimb (f : F) : Nat :=
  let abs_size : Int := f.size.natAbs
  if abs_size ≥ f.exp then f.d.getD (abs_size - f.exp).toNat 0 else 0

/-- mpf_get_si (mpf/get_si.c:45-79) -/
def mpf_get_si (f : F) : Int :=
  if f.exp ≤ 0 then 0 else                                              -- :59
  let fl := mpf_intLimb f                                               -- :64-67
  if f.size > 0 then ((fl % 2 ^ 63 : Nat) : Int)                        -- :75
  else -(((fl + B - 1) % B % 2 ^ 63 : Nat) : Int) - 1                   -- :78

/-- mpf_get_ui (mpf/get_ui.c:66-94) -/
def mpf_get_ui (f : F) : Nat :=
  if f.exp > 0 then mpf_intLimb f else 0                                -- :78-86

/-- mpf_fits_s*_p (mpf/fits_s.h:28-66, no nails) -/
def mpf_fits_s (maxv minabs : Nat) (f : F) : Bool :=
  if f.size = 0 then true                                               -- :37
  else if f.exp < 1 then true                                           -- :41
  else if f.exp = 1 then
    let fl := f.d.getD (f.size.natAbs - 1) 0                            -- :49
    fl ≤ (if f.size ≥ 0 then maxv else minabs)                          -- :65
  else false                                                            -- :63

/-- mpf_fits_u*_p (mpf/fits_u.h:28-65, no nails) -/
def mpf_fits_u (maxv : Nat) (f : F) : Bool :=
  if f.exp < 1 then true                                                -- :37
  else if f.size ≤ 0 then f.size = 0                                    -- :40-41
  else if f.exp = 1 then f.d.getD (f.size.natAbs - 1) 0 ≤ maxv          -- :46-48, :64
  else false                                                            -- :62

/-- mpf_set_d (mpf/set_d.c:32-52).  `none` = __gmp_invalid_operation (NaN or Inf). -/
def mpf_set_d (d : Nat) : Option F :=
  if isNaN d || isInf d then none                                       -- :37-39
  else if isZero d then some ⟨0, 0, []⟩                                 -- :41-46
  else
    let (d0, d1, e) := extract_double (absBits d)                       -- :48, :51
    some ⟨if isNeg d then -2 else 2, e, [d0, d1]⟩                       -- :50

/-- mpf_integer_p (mpf/int_p.c:28-51) -/
def mpf_integer_p (f : F) : Bool :=
  if f.size = 0 then true                                               -- :36
  else if f.exp ≤ 0 then false                                          -- :40
  else
    let frac : Int := (f.size.natAbs : Int) - f.exp                     -- :44
    (f.d.take frac.toNat).all (· == 0)                                  -- :46-48

end Mpir.Conv
