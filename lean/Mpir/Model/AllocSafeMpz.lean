/-
  C04 — size-aware models of the public mpz functions (allocation logic + write pattern), on the core of
  Mpir/Model/AllocSafe.lean.  Core Lean only.  Statement by statement after the C, file:line cited.

  Variables are heap ids; equal ids = the same variable.  `ok` of the final state is the property.
-/
import Mpir.Model.AllocSafe
namespace Mpir.AllocSafe
open Mpir
open Mpir.Mpz (sgn diffSign)

/-! ### mpz_add, mpz_sub — mpz/aors.h -/

/-- aors.h:63-116 after the swap (|usize| ≥ |vsize|).  `stale` = the plausible WRONG variant that reads
    `up`, `vp` before the realloc (the comment at aors.h:70 warns against it). -/
def aorsCore (stale : Bool) (plus : Nat) (s : St) (w u v : Nat) (usize vsize : Int) : St :=
  let abs_usize := usize.natAbs
  let abs_vsize := vsize.natAbs
  let up0 := s.PTR u; let vp0 := s.PTR v
  let wsize := abs_usize + plus                               -- aors.h:66 (plus = 1)
  let s := MPZ_REALLOC s w wsize                              -- aors.h:67-68
  let up := if stale then up0 else s.PTR u                    -- aors.h:71
  let vp := if stale then vp0 else s.PTR v                    -- aors.h:72
  let wp := s.PTR w                                           -- aors.h:73
  if diffSign usize vsize then                                -- aors.h:75
    if abs_usize != abs_vsize then                            -- aors.h:81
      let s := (mpn_sub s wp up abs_usize vp abs_vsize).1     -- aors.h:83
      let (wsize, s) := MPN_NORMALIZE s wp abs_usize          -- aors.h:84-85
      s.setSize w (sgn (usize < 0) wsize)                     -- aors.h:86-87, 116
    else
      let (c, s) := mpn_cmp s up vp abs_usize                 -- aors.h:89
      if c < 0 then
        let s := (mpn_sub_n s wp vp up abs_usize).1           -- aors.h:91
        let (wsize, s) := MPN_NORMALIZE s wp abs_usize        -- aors.h:92-93
        s.setSize w (sgn (usize ≥ 0) wsize)                   -- aors.h:94-95, 116
      else
        let s := (mpn_sub_n s wp up vp abs_usize).1           -- aors.h:99
        let (wsize, s) := MPN_NORMALIZE s wp abs_usize        -- aors.h:100-101
        s.setSize w (sgn (usize < 0) wsize)                   -- aors.h:102-103, 116
  else
    let (s, cy_limb) := mpn_add s wp up abs_usize vp abs_vsize   -- aors.h:109
    let s := s.store wp abs_usize cy_limb                     -- aors.h:110
    let wsize := abs_usize + cy_limb                          -- aors.h:111
    s.setSize w (sgn (usize < 0) wsize)                       -- aors.h:112-113, 116

/-- aors.h:41-61 -/
def aors (stale : Bool) (plus : Nat) (isSub : Bool) (s : St) (w u v : Nat) : St :=
  let usize := s.SIZ u                                        -- aors.h:50
  let vsize := if isSub then -s.SIZ v else s.SIZ v            -- aors.h:51
  if usize.natAbs < vsize.natAbs then aorsCore stale plus s w v u vsize usize   -- aors.h:55-61
  else aorsCore stale plus s w u v usize vsize

def mpz_add (s : St) (w u v : Nat) : St := aors false 1 false s w u v
def mpz_sub (s : St) (w u v : Nat) : St := aors false 1 true s w u v

/-! ### mpz_add_ui, mpz_sub_ui — mpz/aors_ui.h (BITS_PER_UI = GMP_NUMB_BITS: lines 57-69 compiled out) -/

/-- aors_ui.h:106-111: `mpn_sub_1` then the size drops by at most one limb -/
def aors_ui_sub (isSub : Bool) (s : St) (w : Nat) (wp up : Ptr) (abs_usize vval : Nat) : St :=
  let s := (mpn_sub_1 s wp up abs_usize vval).1               -- aors_ui.h:108
  let (top, s) := s.load wp (abs_usize - 1)                   -- aors_ui.h:110 wp[abs_usize - 1]
  s.setSize w (sgn (!isSub) (abs_usize - (if top == 0 then 1 else 0)))   -- aors_ui.h:110, 114

/-- aors_ui.h:79-114, what follows the realloc; `abs_usize` = |usize| -/
def aors_ui_body (isSub : Bool) (s : St) (w u : Nat) (usize : Int) (vval : Nat) : St :=
  let abs_usize := usize.natAbs
  let up := s.PTR u                                           -- aors_ui.h:80 (after the realloc)
  let wp := s.PTR w                                           -- aors_ui.h:81
  if abs_usize == 0 then                                      -- aors_ui.h:83
    let s := s.store wp 0 vval                                -- aors_ui.h:85
    s.setSize w (sgn isSub (if vval != 0 then 1 else 0))      -- aors_ui.h:86
  else if (if isSub then decide (usize < 0) else decide (usize ≥ 0)) then   -- aors_ui.h:90
    let (s, cy) := mpn_add_1 s wp up abs_usize vval           -- aors_ui.h:93
    let s := s.store wp abs_usize cy                          -- aors_ui.h:94
    s.setSize w (sgn isSub (abs_usize + cy))                  -- aors_ui.h:95, 114
  else if abs_usize == 1 then                                 -- aors_ui.h:101 (short-circuit &&)
    let (u0, s) := s.load up 0                                --   up[0]
    if u0 < vval then
      let s := s.store wp 0 (vval - u0)                       -- aors_ui.h:103
      s.setSize w (sgn isSub 1)                               -- aors_ui.h:104, 114
    else aors_ui_sub isSub s w wp up abs_usize vval
  else aors_ui_sub isSub s w wp up abs_usize vval

/-- `plus` = 1 in the C (`wsize = abs_usize + 1`); `vval < B` -/
def aors_ui (plus : Nat) (isSub : Bool) (s : St) (w u : Nat) (vval : Nat) : St :=
  let usize := s.SIZ u                                        -- aors_ui.h:71
  let abs_usize := usize.natAbs                               -- aors_ui.h:72
  let wsize := abs_usize + plus                               -- aors_ui.h:75
  let s := MPZ_REALLOC s w wsize                              -- aors_ui.h:76-77
  aors_ui_body isSub s w u usize vval

def mpz_add_ui (s : St) (w u : Nat) (v : Nat) : St := aors_ui 1 false s w u v
def mpz_sub_ui (s : St) (w u : Nat) (v : Nat) : St := aors_ui 1 true s w u v

/-! ### mpz_set, mpz_neg, mpz_abs, mpz_set_ui, mpz_set_si -/

/-- mpz/set.c:29-46 -/
def mpz_set (s : St) (w u : Nat) : St :=
  let usize := s.SIZ u                                        -- set.c:35
  let size := usize.natAbs                                    -- set.c:36
  let s := MPZ_REALLOC s w size                               -- set.c:38-39
  let wp := s.PTR w                                           -- set.c:41
  let up := s.PTR u                                           -- set.c:42
  let s := MPN_COPY s wp up size                              -- set.c:44
  s.setSize w usize                                           -- set.c:45

/-- mpz/neg.c:27-49; `u != w` compares the variables -/
def mpz_neg (s : St) (w u : Nat) : St :=
  let usize := s.SIZ u                                        -- neg.c:33
  let s :=
    if u != w then                                            -- neg.c:35
      let size := usize.natAbs                                -- neg.c:37
      let s := MPZ_REALLOC s w size                           -- neg.c:39-40
      let wp := s.PTR w                                       -- neg.c:42
      let up := s.PTR u                                       -- neg.c:43
      MPN_COPY s wp up size                                   -- neg.c:45
    else s
  s.setSize w (-usize)                                        -- neg.c:48

/-- mpz/abs.c:27-47 -/
def mpz_abs (s : St) (w u : Nat) : St :=
  let size := (s.SIZ u).natAbs                                -- abs.c:33
  let s :=
    if u != w then                                            -- abs.c:35
      let s := MPZ_REALLOC s w size                           -- abs.c:37-38
      let wp := s.PTR w                                       -- abs.c:40
      let up := s.PTR u                                       -- abs.c:41
      MPN_COPY s wp up size                                   -- abs.c:43
    else s
  s.setSize w size                                            -- abs.c:46

/-- mpz/set_ui.c:26-44 (BITS_PER_UI = GMP_NUMB_BITS: lines 34-41 compiled out): `dest->_mp_d[0] = val` with NO
    realloc — relies on "never allocate zero space" (alloc ≥ 1).  `val < B`. -/
def mpz_set_ui (s : St) (dest : Nat) (val : Nat) : St :=
  let s := s.store (s.PTR dest) 0 val                         -- set_ui.c:31
  let size : Nat := if val != 0 then 1 else 0                 -- set_ui.c:32
  s.setSize dest size                                         -- set_ui.c:43

/-- mpz/set_si.c:26-47 (no nails: lines 37-44 compiled out); `val` in the range of `long` -/
def mpz_set_si (s : St) (dest : Nat) (val : Int) : St :=
  let vl := val.natAbs % B                                    -- set_si.c:32
  let s := s.store (s.PTR dest) 0 vl                          -- set_si.c:34
  let size : Nat := if vl != 0 then 1 else 0                  -- set_si.c:35
  s.setSize dest (sgn (decide (val < 0)) size)                -- set_si.c:46 val >= 0 ? size : -size

/-! ### mpz_mul_2exp — mpz/mul_2exp.c -/

/-- mul_2exp.c:46-68, what follows the realloc; `cnt` already reduced (`cnt %= GMP_NUMB_BITS`, :49) -/
def mul_2exp_body (s : St) (w u : Nat) (usize : Int) (limb_cnt cnt : Nat) : St :=
  let abs_usize := usize.natAbs
  let wp := s.PTR w                                           -- mul_2exp.c:46
  let wsize := abs_usize + limb_cnt                           -- mul_2exp.c:47
  let (s, wsize) :=
    if cnt != 0 then                                          -- mul_2exp.c:50
      let (s, wlimb) := mpn_lshift s (wp.add limb_cnt) (s.PTR u) abs_usize cnt   -- mul_2exp.c:52
      if wlimb != 0 then                                      -- mul_2exp.c:53
        (s.store wp wsize wlimb, wsize + 1)                   -- mul_2exp.c:55-56
      else (s, wsize)
    else (MPN_COPY s (wp.add limb_cnt) (s.PTR u) abs_usize, wsize)   -- mul_2exp.c:61
  let s := MPN_ZERO s wp limb_cnt                             -- mul_2exp.c:66
  s.setSize w (sgn (usize < 0) wsize)                         -- mul_2exp.c:68

/-- `plus` = 1 in the C (`wsize = abs_usize + limb_cnt + 1`) -/
def mul_2exp (plus : Nat) (s : St) (w u : Nat) (cnt : Nat) : St :=
  let usize := s.SIZ u                                        -- mul_2exp.c:28
  let abs_usize := usize.natAbs                               -- mul_2exp.c:29
  if usize == 0 then s.setSize w 0                            -- mul_2exp.c:35-39
  else
    let limb_cnt := cnt / 64                                  -- mul_2exp.c:41
    let wsize := abs_usize + limb_cnt + plus                  -- mul_2exp.c:42
    let s := MPZ_REALLOC s w wsize                            -- mul_2exp.c:43-44
    mul_2exp_body s w u usize limb_cnt (cnt % 64)             -- mul_2exp.c:46-68

def mpz_mul_2exp (s : St) (w u : Nat) (cnt : Nat) : St := mul_2exp 1 s w u cnt

/-! ### mpz_tdiv_q_2exp — mpz/tdiv_q_2exp.c -/

/-- tdiv_q_2exp.c:45-59 after the realloc; `cnt` already reduced -/
def tdiv_q_2exp_body (s : St) (w u : Nat) (usize : Int) (limb_cnt wsize cnt : Nat) : St :=
  let wp := s.PTR w                                           -- tdiv_q_2exp.c:45
  let up := s.PTR u                                           -- tdiv_q_2exp.c:46
  if cnt != 0 then                                            -- tdiv_q_2exp.c:49
    let s := (mpn_rshift s wp (up.add limb_cnt) wsize cnt).1  -- tdiv_q_2exp.c:51
    let (top, s) := s.load wp (wsize - 1)                     -- tdiv_q_2exp.c:52
    s.setSize w (sgn (usize < 0) (wsize - (if top == 0 then 1 else 0)))   -- tdiv_q_2exp.c:52, 59
  else
    let s := MPN_COPY s wp (up.add limb_cnt) wsize            -- tdiv_q_2exp.c:56
    s.setSize w (sgn (usize < 0) wsize)                       -- tdiv_q_2exp.c:59

def mpz_tdiv_q_2exp (s : St) (w u : Nat) (cnt : Nat) : St :=
  let usize := s.SIZ u                                        -- tdiv_q_2exp.c:32
  let limb_cnt := cnt / 64                                    -- tdiv_q_2exp.c:33
  if usize.natAbs ≤ limb_cnt then s.setSize w 0               -- tdiv_q_2exp.c:34-36 wsize <= 0
  else
    let wsize := usize.natAbs - limb_cnt                      -- tdiv_q_2exp.c:34
    let s := MPZ_REALLOC s w wsize                            -- tdiv_q_2exp.c:42-43
    tdiv_q_2exp_body s w u usize limb_cnt wsize (cnt % 64)    -- tdiv_q_2exp.c:45-59

/-- value-level result of mpz_tdiv_q_2exp with the allocation -/
def Spec.tdiv_q_2exp (w u : Mpz.Mpz) (cnt : Nat) : Mpz.Mpz :=
  let k := cnt / 64
  if u.size.natAbs ≤ k then { w with size := 0, d := [] }
  else
    let n := u.size.natAbs - k
    let a := (Mpz.grow w n).alloc
    if cnt % 64 != 0 then
      let r := (Mpir.rshift (u.d.drop k) (cnt % 64)).1
      let n' := n - (if Mpz.topLimb r == 0 then 1 else 0)
      ⟨a, sgn (u.size < 0) n', r.take n'⟩
    else ⟨a, sgn (u.size < 0) n, u.d.drop k⟩

/-! ### mpz_com — mpz/com.c -/

/-- com.c:42-65 after the realloc (src ≥ 0), `size` = |SIZ src| -/
def com_pos_body (s : St) (dst src : Nat) (size : Nat) : St :=
  let src_ptr := s.PTR src                                    -- com.c:42
  let dst_ptr := s.PTR dst                                    -- com.c:43
  if size == 0 then                                           -- com.c:45
    let s := s.store dst_ptr 0 1                              -- com.c:48
    s.setSize dst (sgn true 1)                                -- com.c:49  -1
  else
    let (s, cy) := mpn_add_1 s dst_ptr src_ptr size 1         -- com.c:56
    if cy != 0 then                                           -- com.c:57
      let s := s.store dst_ptr size cy                        -- com.c:59
      s.setSize dst (sgn true (size + 1))                     -- com.c:60, 65  -size
    else s.setSize dst (sgn true size)                        -- com.c:65

/-- com.c:77-84 after the realloc (src < 0) -/
def com_neg_body (s : St) (dst src : Nat) (size : Nat) : St :=
  let src_ptr := s.PTR src                                    -- com.c:77
  let dst_ptr := s.PTR dst                                    -- com.c:78
  let s := (mpn_sub_1 s dst_ptr src_ptr size 1).1             -- com.c:80
  let (top, s) := s.load dst_ptr (size - 1)                   -- com.c:81
  s.setSize dst (sgn false (size - (if top == 0 then 1 else 0)))   -- com.c:81, 84

/-- `plus` = 1 in the C (`size + 1`) -/
def com (plus : Nat) (s : St) (dst src : Nat) : St :=
  let size := s.SIZ src                                       -- com.c:29
  if size ≥ 0 then                                            -- com.c:33
    let size := size.natAbs
    let s := MPZ_REALLOC s dst (size + plus)                  -- com.c:39-40
    com_pos_body s dst src size
  else
    let size := size.natAbs                                   -- com.c:72
    let s := MPZ_REALLOC s dst size                           -- com.c:74-75
    com_neg_body s dst src size

/-- value-level result of mpz_com with the allocation (the style of Mpir/Model/Mpz.lean) -/
def Spec.com (w u : Mpz.Mpz) : Mpz.Mpz :=
  let n := u.size.natAbs
  if u.size ≥ 0 then
    let a := (Mpz.grow w (n + 1)).alloc
    if n == 0 then ⟨a, sgn true 1, [1]⟩
    else
      let r := Mpir.add_1 u.d 1
      if r.2 != 0 then ⟨a, sgn true (n + 1), r.1 ++ [r.2]⟩ else ⟨a, sgn true n, r.1⟩
  else
    let r := (Mpir.sub_1 u.d 1).1
    let n' := n - (if Mpz.topLimb r == 0 then 1 else 0)
    ⟨(Mpz.grow w n).alloc, sgn false n', r.take n'⟩

def mpz_com (s : St) (dst src : Nat) : St := com 1 s dst src

end Mpir.AllocSafe
