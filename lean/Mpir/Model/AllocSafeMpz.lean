/-
  C04 — size-aware models of the public mpz functions (allocation logic + write pattern), on the core of
  Mpir/Model/AllocSafe.lean.  Core Lean only.  Statement by statement after the C, file:line cited.

  Variables are heap ids; equal ids = the same variable.  `ok` of the final state is the property.
-/
import Mpir.Model.AllocSafe
namespace Mpir.AllocSafe
open Mpir
open Mpir.Mpz (sgn diffSign)

/-! ### mpz_add, mpz_sub — mpz/aors.h -/

/-- aors.h:63-116 after the swap (|usize| ≥ |vsize|).  `stale` = the plausible WRONG variant that reads
    `up`, `vp` before the realloc (the comment at aors.h:70 warns against it). -/
def aorsCore (stale : Bool) (plus : Nat) (s : St) (w u v : Nat) (usize vsize : Int) : St :=
  let abs_usize := usize.natAbs
  let abs_vsize := vsize.natAbs
  let up0 := s.PTR u; let vp0 := s.PTR v
  let wsize := abs_usize + plus                               -- aors.h:66 (plus = 1)
  let s := MPZ_REALLOC s w wsize                              -- aors.h:67-68
  let up := if stale then up0 else s.PTR u                    -- aors.h:71
  let vp := if stale then vp0 else s.PTR v                    -- aors.h:72
  let wp := s.PTR w                                           -- aors.h:73
  if diffSign usize vsize then                                -- aors.h:75
    if abs_usize != abs_vsize then                            -- aors.h:81
      let s := (mpn_sub s wp up abs_usize vp abs_vsize).1     -- aors.h:83
      let (wsize, s) := MPN_NORMALIZE s wp abs_usize          -- aors.h:84-85
      s.setSize w (sgn (usize < 0) wsize)                     -- aors.h:86-87, 116
    else
      let (c, s) := mpn_cmp s up vp abs_usize                 -- aors.h:89
      if c < 0 then
        let s := (mpn_sub_n s wp vp up abs_usize).1           -- aors.h:91
        let (wsize, s) := MPN_NORMALIZE s wp abs_usize        -- aors.h:92-93
        s.setSize w (sgn (usize ≥ 0) wsize)                   -- aors.h:94-95, 116
      else
        let s := (mpn_sub_n s wp up vp abs_usize).1           -- aors.h:99
        let (wsize, s) := MPN_NORMALIZE s wp abs_usize        -- aors.h:100-101
        s.setSize w (sgn (usize < 0) wsize)                   -- aors.h:102-103, 116
  else
    let (s, cy_limb) := mpn_add s wp up abs_usize vp abs_vsize   -- aors.h:109
    let s := s.store wp abs_usize cy_limb                     -- aors.h:110
    let wsize := abs_usize + cy_limb                          -- aors.h:111
    s.setSize w (sgn (usize < 0) wsize)                       -- aors.h:112-113, 116

/-- aors.h:41-61 -/
def aors (stale : Bool) (plus : Nat) (isSub : Bool) (s : St) (w u v : Nat) : St :=
  let usize := s.SIZ u                                        -- aors.h:50
  let vsize := if isSub then -s.SIZ v else s.SIZ v            -- aors.h:51
  if usize.natAbs < vsize.natAbs then aorsCore stale plus s w v u vsize usize   -- aors.h:55-61
  else aorsCore stale plus s w u v usize vsize

def mpz_add (s : St) (w u v : Nat) : St := aors false 1 false s w u v
def mpz_sub (s : St) (w u v : Nat) : St := aors false 1 true s w u v

end Mpir.AllocSafe
