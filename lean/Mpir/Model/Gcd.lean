/-
  C07 — GCD, extended GCD, LCM, modular inverse, Jacobi/Kronecker.  Core Lean only.

  SPECS (independent of MPIR's code):
    gcdSpec, lcmSpec, gcdextOk (the manual's acceptance predicate for mpz_gcdext), gcdextSpec (the
    unique triple the manual describes), invertOk / invertSpec, mpnGcdextOk, kronecker (Cohen,
    "A course in computational algebraic number theory", Algorithm 1.4.10).

  MODELS (mirror the C of the pinned build, x86_64, 64-bit limbs, no nails; file:line cited):
    K  ctz, highMask, modexact_1_odd (asm kernel, by contract), gcd_1 (mpn/generic/gcd_1.c,
       GCD_1_METHOD 2), gcdext_1 (gcdext_1.c, GCDEXT_1_USE_BINARY 0), div1/div2/hgcd2 (hgcd2.c),
       jacobi_base (jacobi_base.c, JACOBI_BASE_METHOD 1 from mpn/x86_64/gmp-mparam.h), gcd_2 (gcd.c)
    V  Lehmer loop at value level: abstract step contract (`StepOk`, `Reach`), and the executable
       instance that follows mpn_gcd / mpn_gcdext_lehmer_n (hgcd2 on the top two limbs, else
       mpn_gcd_subdiv_step), mpn_gcdext, mpn_jacobi_n (by specification)
    S  mpz_gcd, mpz_gcd_ui, mpz_gcdext, mpz_lcm, mpz_lcm_ui, mpz_invert, mpz_jacobi,
       mpz_kronecker_si/_ui, mpz_si_kronecker/mpz_ui_kronecker
-/
import Mpir.Base
namespace Mpir.Gcd
open Mpir

/-! ## Specifications -/

def sgn (a : Int) : Int := if 0 < a then 1 else if a < 0 then -1 else 0

/-- gcd of two integers, non-negative. -/
def gcdSpec (a b : Int) : Int := (Int.gcd a b : Nat)

/-- lcm = |a*b| / gcd (0 if either is 0). -/
def lcmSpec (a b : Int) : Int :=
  if a = 0 ∨ b = 0 then 0 else ((a * b).natAbs / Int.gcd a b : Nat)

/-- The manual's contract for `mpz_gcdext (g, s, t, a, b)` (doc/mpir.texi, "mpz_gcdext"):
    g = gcd ≥ 0, a s + b t = g; normally |s| < |b|/(2g) and |t| < |a|/(2g); exceptions:
    |a| = |b| ⇒ s = 0, t = sgn b; otherwise s = sgn a if b = 0 or |b| = 2g, and t = sgn b if a = 0 or
    |a| = 2g; in all cases s = 0 ↔ g = |b|. -/
def gcdextOk (a b g s t : Int) : Prop :=
  g = (Int.gcd a b : Nat) ∧ a * s + b * t = g ∧
  (if a.natAbs = b.natAbs then s = 0 ∧ t = sgn b
   else
     (if b = 0 ∨ (b.natAbs : Int) = 2 * g then s = sgn a else 2 * g * s.natAbs < b.natAbs) ∧
     (if a = 0 ∨ (a.natAbs : Int) = 2 * g then t = sgn b else 2 * g * t.natAbs < a.natAbs)) ∧
  (s = 0 ↔ g = b.natAbs)

instance (a b g s t : Int) : Decidable (gcdextOk a b g s t) := by unfold gcdextOk; infer_instance

/-- same with `t = NULL`: only the constraints on g and s; a cofactor t must exist. -/
def gcdextOkS (a b g s : Int) : Prop :=
  g = (Int.gcd a b : Nat) ∧ (if b = 0 then a * s = g else (g - a * s) % b = 0) ∧
  (if a.natAbs = b.natAbs then s = 0
   else if b = 0 ∨ (b.natAbs : Int) = 2 * g then s = sgn a else 2 * g * s.natAbs < b.natAbs) ∧
  (s = 0 ↔ g = b.natAbs)

instance (a b g s : Int) : Decidable (gcdextOkS a b g s) := by unfold gcdextOkS; infer_instance

/-- Extended Euclid on naturals (independent of MPIR): returns (g, x, y) with a x + b y = g.
    Fuel-indexed; `b + 1` steps always suffice. -/
def xgcdAux : Nat → Int → Int → Int → Int → Int → Int → Int × Int × Int
  | 0, r0, s0, t0, _, _, _ => (r0, s0, t0)
  | f + 1, r0, s0, t0, r1, s1, t1 =>
      if r1 = 0 then (r0, s0, t0)
      else let q := r0 / r1
           xgcdAux f r1 s1 t1 (r0 - q * r1) (s0 - q * s1) (t0 - q * t1)

def xgcd (a b : Nat) : Int × Int × Int := xgcdAux (b + 1) a 1 0 b 0 1

/-- symmetric residue of x modulo m > 0: the representative r with -m/2 < r ≤ m/2 (2r ≤ m). -/
def symMod (x m : Int) : Int :=
  let r := x % m
  if 2 * r > m then r - m else r

/-- The canonical first cofactor for U, V > 0 (mpn_gcdext's documented S): 0 if V ∣ U, 1 if V = 2G,
    otherwise the unique S with |S| < V/(2G) and U S ≡ G (mod V). -/
def gcdextS (U V : Nat) : Int :=
  let (g, x, _) := xgcd U V
  if U % V = 0 then 0
  else if (V : Int) = 2 * g then 1
  else symMod x ((V : Int) / g)

/-- The unique (g, s, t) the manual describes for mpz_gcdext. -/
def gcdextSpec (a b : Int) : Int × Int × Int :=
  let g : Int := (Int.gcd a b : Nat)
  if a.natAbs = b.natAbs then (g, 0, sgn b)
  else if b = 0 then (g, sgn a, 0)
  else if a = 0 then (g, 0, sgn b)
  else
    let s := sgn a * gcdextS a.natAbs b.natAbs
    (g, s, (g - a * s) / b)

/-- mpz_invert contract for |m| > 1: flag ≠ 0 iff gcd(a,m) = 1, and then 0 ≤ r < |m|, a r ≡ 1 (mod m). -/
def invertOk (a m : Int) (flag : Int) (r : Int) : Prop :=
  (flag ≠ 0 ↔ Int.gcd a m = 1) ∧ (flag ≠ 0 → 0 ≤ r ∧ r < m.natAbs ∧ (a * r - 1) % m = 0)

instance (a m flag r : Int) : Decidable (invertOk a m flag r) := by unfold invertOk; infer_instance

def invertSpec (a m : Int) : Option Int :=
  if Int.gcd a m = 1 then
    let (_, x, _) := xgcd (a % m.natAbs).toNat m.natAbs
    some (x % m.natAbs)
  else none

/-- mpn_gcdext contract (manual): G = gcd(U,V), ∃T: G = U S + V T, S = 1 or |S| < V/(2G), S = 0 ↔ V ∣ U. -/
def mpnGcdextOk (U V G : Nat) (S : Int) : Prop :=
  G = Nat.gcd U V ∧ ((G : Int) - U * S) % V = 0 ∧ (S = 1 ∨ 2 * G * S.natAbs < V) ∧ (S = 0 ↔ U % V = 0)

instance (U V G : Nat) (S : Int) : Decidable (mpnGcdextOk U V G S) := by unfold mpnGcdextOk; infer_instance

/-- (a/2) for the Kronecker symbol: 0 for even a, +1 for a ≡ ±1 (mod 8), -1 for a ≡ ±3 (mod 8). -/
def kron2 (a : Int) : Int :=
  let r := a % 8
  if r % 2 = 0 then 0 else if r = 1 ∨ r = 7 then 1 else -1

/-- strip factors of two from a non-zero integer: (odd part, exponent).  Fuel = |x|. -/
def stripTwosAux : Nat → Int → Nat → Int × Nat
  | 0, x, v => (x, v)
  | f + 1, x, v => if x % 2 = 0 ∧ x ≠ 0 then stripTwosAux f (x / 2) (v + 1) else (x, v)

def stripTwos (x : Int) : Int × Nat := stripTwosAux x.natAbs x 0

/-- Cohen 1.4.10 steps 3–4, b odd positive: returns k·(a/b). -/
def kronLoop : Nat → Int → Int → Int → Int
  | 0, _, _, _ => 0
  | f + 1, a, b, k =>
      if a = 0 then (if b > 1 then 0 else k)
      else
        let (a', v) := stripTwos a
        let k := if v % 2 = 1 then k * kron2 b else k          -- (2/b)^v, b odd
        let k := if a' % 4 = 3 ∧ b % 4 = 3 then -k else k      -- (-1)^((a-1)(b-1)/4)
        let r := (a'.natAbs : Int)
        kronLoop f (b % r) r k

/-- The Kronecker symbol (a/b) for all integers a, b by the standard rules:
    (a/0) = [|a| = 1]; (a / -1) = -1 if a < 0 else 1; (a/2) = kron2 a; multiplicative in b. -/
def kronecker (a b : Int) : Int :=
  if b = 0 then (if a.natAbs = 1 then 1 else 0)
  else if a % 2 = 0 ∧ b % 2 = 0 then 0
  else
    let (b', v) := stripTwos b
    let k : Int := if v % 2 = 0 then 1 else kron2 a
    let k := if b' < 0 ∧ a < 0 then -k else k
    let b'' : Int := b'.natAbs
    kronLoop (a.natAbs + b.natAbs + 2) a b'' k

/-! ## K: word-level models -/

/-- number of limbs of a natural (mpz `ABSIZ`). -/
def nlimbs (v : Nat) : Nat := if v = 0 then 0 else v.log2 / 64 + 1

/-- count_trailing_zeros (x ≠ 0).  Fuel = x. -/
def ctzAux : Nat → Nat → Nat
  | 0, _ => 0
  | f + 1, x => if x % 2 = 1 then 0 else 1 + ctzAux f (x / 2)

def ctz (x : Nat) : Nat := ctzAux x x

/-- count_leading_zeros of a non-zero limb. -/
def clz (x : Nat) : Nat := 63 - x.log2

/-- LIMB_HIGHBIT_TO_MASK (gmp-impl.h:2806). -/
def highMask (t : Nat) : Nat := if 2 ^ 63 ≤ t then B - 1 else 0

/-- x / 2 modulo the odd d (x < d). -/
def halve (d x : Nat) : Nat := if x % 2 = 0 then x / 2 else (x + d) / 2

def halveN : Nat → Nat → Nat → Nat
  | 0, _, x => x
  | k + 1, d, x => halveN k d (halve d x)

/-- mpn_modexact_1_odd (mpn/x86_64/modexact_1c_odd.as; an assembly kernel, modelled by its contract,
    gmp-impl.h / mpn/generic/modexact_1c_odd.c:29): for odd d the r with 0 ≤ r < d and
    r·B^n + a ≡ 0 (mod d).  One limb per step: c' ≡ (c - s)·B⁻¹ (mod d). -/
def modexactGo (k d : Nat) : Nat → List Nat → Nat
  | c, [] => c
  | c, s :: ss => modexactGo k d (halveN k d ((c + d - s % d) % d)) ss

/-- (k = 64 = GMP_LIMB_BITS is a parameter of the loop only so that proofs never unfold 64 halvings) -/
def modexact_1_odd (up : List Nat) (d : Nat) : Nat := modexactGo 64 d 0 up

/-- gcd_1.c:119-160 (GCD_1_METHOD 2): loop on u = (U-1)/2, v = (V-1)/2 for odd U, V; returns final v. -/
def gcd1Loop : Nat → Nat → Nat → Nat
  | 0, _, v => v
  | f + 1, u, v =>
      if u = v then v else
        let t := (u + B - v) % B                 -- t = ulimb - vlimb
        let vgtu := highMask t                   -- vgtu = LIMB_HIGHBIT_TO_MASK (t)
        let v' := (v + (vgtu &&& t)) % B         -- vlimb += (vgtu & t)
        let u' := ((t ^^^ vgtu) + B - vgtu) % B  -- ulimb = (t ^ vgtu) - vgtu
        let c := ctz t                           -- count_trailing_zeros (c, t)
        gcd1Loop f (u' >>> (c + 1)) v'           -- ulimb >>= (c + 1)

/-- entry at `strip_u_maybe` (gcd_1.c:147) and the tail `vlimb = (vlimb << 1) | 1; return vlimb << zero_bits`. -/
def gcd1Strip (ulimb vlimb zero_bits : Nat) : Nat :=
  let vlimb := vlimb >>> 1
  let c := ctz ulimb
  let ulimb := ulimb >>> (c + 1)
  let v := gcd1Loop (ulimb + vlimb) ulimb vlimb
  (((v <<< 1) ||| 1) <<< zero_bits) % B

/-- mpn_gcd_1 (mpn/generic/gcd_1.c:52).  Domain: up non-empty, non-zero value, vlimb ≠ 0. -/
def gcd_1 (up : List Nat) (vlimb : Nat) : Nat :=
  let ulimb := up.headD 0
  let zero_bits := ctz vlimb
  let vlimb := vlimb >>> zero_bits
  if up.length > 1 then
    let zero_bits := if ulimb ≠ 0 then min zero_bits (ctz ulimb) else zero_bits
    let ulimb := modexact_1_odd up vlimb          -- MPN_MOD_OR_MODEXACT_1_ODD, threshold 0 ⇒ modexact
    if ulimb = 0 then (vlimb <<< zero_bits) % B
    else gcd1Strip ulimb vlimb zero_bits
  else
    let u_low_zero_bits := ctz ulimb
    let ulimb := ulimb >>> u_low_zero_bits
    let zero_bits := min zero_bits u_low_zero_bits
    let (ulimb, vlimb) := if vlimb > ulimb then (vlimb, ulimb) else (ulimb, vlimb)
    if (ulimb >>> 16) > vlimb then
      let ulimb := ulimb % vlimb
      if ulimb = 0 then (vlimb <<< zero_bits) % B
      else gcd1Strip ulimb vlimb zero_bits
    else
      let v := gcd1Loop ((ulimb >>> 1) + (vlimb >>> 1)) (ulimb >>> 1) (vlimb >>> 1)
      (((v <<< 1) ||| 1) <<< zero_bits) % B

/-- two's-complement reading of a limb as mp_limb_signed_t. -/
def toSigned (x : Nat) : Int := if x < 2 ^ 63 then x else (x : Int) - B

/-- wrap an integer to mp_limb_signed_t. -/
def wrapS (x : Int) : Int := toSigned (x % (B : Int)).toNat

/-- mpn_gcdext_1 (gcdext_1.c:264, Euclid variant): a = u0 A + v0 B, b = u1 A + v1 B.
    Returns (g, u, v).  `atB` = entered at `divide_by_b`.  Fuel: a + b. -/
def gcdext1Loop : Nat → Bool → Nat → Nat → Int → Int → Int → Int → Nat × Int × Int
  | 0, _, a, _, u0, v0, _, _ => (a, u0, v0)
  | f + 1, false, a, b, u0, v0, u1, v1 =>
      let q := a / b
      let a := a - q * b
      if a = 0 then (b, u1, v1)
      else gcdext1Loop f true a b (wrapS (u0 - q * u1)) (wrapS (v0 - q * v1)) u1 v1
  | f + 1, true, a, b, u0, v0, u1, v1 =>
      let q := b / a
      let b := b - q * a
      if b = 0 then (a, u0, v0)
      else gcdext1Loop f false a b u0 v0 (wrapS (u1 - q * u0)) (wrapS (v1 - q * v0))

def gcdext_1 (a b : Nat) : Nat × Int × Int :=
  gcdext1Loop (a + b) (decide (a < b)) a b 1 0 0 1

/-! ### hgcd2.c -/

/-- div1 (hgcd2.c:35): shift-subtract division of limbs, returns (q, r).  d0 ≠ 0. -/
def div1Up : Nat → Nat → Nat → Nat → Nat × Nat   -- normalise d0 upwards: returns (d0, cnt)
  | 0, _, d0, cnt => (d0, cnt)
  | f + 1, n0, d0, cnt => if n0 ≥ d0 then div1Up f n0 ((d0 <<< 1) % B) (cnt + 1) else (d0, cnt)

def div1UpHi : Nat → Nat → Nat → Nat × Nat      -- `for (cnt = 1; (signed) d0 >= 0; cnt++) d0 <<= 1`
  | 0, d0, cnt => (d0, cnt)
  | f + 1, d0, cnt => if d0 < 2 ^ 63 then div1UpHi f ((d0 <<< 1) % B) (cnt + 1) else (d0, cnt)

def div1DownA : Nat → Nat → Nat → Nat → Nat × Nat   -- first branch: test, then d0 >>= 1
  | 0, n0, _, q => (q, n0)
  | cnt + 1, n0, d0, q =>
      let q := (q <<< 1) % B
      let (n0, q) := if n0 ≥ d0 then (n0 - d0, q ||| 1) else (n0, q)
      div1DownA cnt n0 (d0 >>> 1) q

def div1DownB : Nat → Nat → Nat → Nat → Nat × Nat   -- second branch: d0 >>= 1 first
  | 0, n0, _, q => (q, n0)
  | cnt + 1, n0, d0, q =>
      let d0 := d0 >>> 1
      let q := (q <<< 1) % B
      let (n0, q) := if n0 ≥ d0 then (n0 - d0, q ||| 1) else (n0, q)
      div1DownB cnt n0 d0 q

def div1 (n0 d0 : Nat) : Nat × Nat :=
  if 2 ^ 63 ≤ n0 then
    let (d, cnt) := div1UpHi 64 d0 1
    div1DownA cnt n0 d 0
  else
    let (d, cnt) := div1Up 64 n0 d0 0
    div1DownB cnt n0 d 0

/-- div2 (hgcd2.c:87) on two-limb values n = nh·B + nl, d = dh·B + dl (dh ≠ 0): (q, r). The limb
    pairs are kept as one value below B²; the shifts are the C's two-limb shifts. -/
def div2Up : Nat → Nat → Nat → Nat → Nat × Nat
  | 0, _, d, cnt => (d, cnt)
  | f + 1, n, d, cnt => if n ≥ d then div2Up f n ((d <<< 1) % (B * B)) (cnt + 1) else (d, cnt)

def div2UpHi : Nat → Nat → Nat → Nat × Nat
  | 0, d, cnt => (d, cnt)
  | f + 1, d, cnt => if d / B < 2 ^ 63 then div2UpHi f ((d <<< 1) % (B * B)) (cnt + 1) else (d, cnt)

def div2DownA : Nat → Nat → Nat → Nat → Nat × Nat
  | 0, n, _, q => (q, n)
  | cnt + 1, n, d, q =>
      let q := (q <<< 1) % B
      let (n, q) := if n ≥ d then (n - d, q ||| 1) else (n, q)
      div2DownA cnt n (d >>> 1) q

def div2DownB : Nat → Nat → Nat → Nat → Nat × Nat
  | 0, n, _, q => (q, n)
  | cnt + 1, n, d, q =>
      let d := d >>> 1
      let q := (q <<< 1) % B
      let (n, q) := if n ≥ d then (n - d, q ||| 1) else (n, q)
      div2DownB cnt n d q

def div2 (n d : Nat) : Nat × Nat :=
  if 2 ^ 63 ≤ n / B then
    let (d', cnt) := div2UpHi 64 d 1
    div2DownA cnt n d' 0
  else
    let (d', cnt) := div2Up 128 n d 0
    div2DownB cnt n d' 0

/-- 2x2 matrix of limbs, struct hgcd_matrix1: (u00 u01; u10 u11). -/
structure M1 where
  u00 : Nat
  u01 : Nat
  u10 : Nat
  u11 : Nat
  deriving Repr, BEq, DecidableEq

/-- Program points of mpn_hgcd2's two loops. -/
inductive HPt where
  | dA    -- top of the double-precision `for`: ah ≥ bh, subtract b from a   (hgcd2.c:262)
  | dB    -- label subtract_a                                                (hgcd2.c:305)
  | sA    -- top of the single-precision `for`                               (hgcd2.c:352)
  | sB    -- label subtract_a1                                               (hgcd2.c:386)
  deriving Repr, BEq, DecidableEq

def HALF : Nat := 2 ^ 32

/-- body of mpn_hgcd2 after the initial subtraction; a, b are two-limb values in the double
    precision phase and single limbs in the single precision phase; all matrix updates mod B. -/
def hgcd2Loop : Nat → HPt → Nat → Nat → M1 → M1
  | 0, _, _, _, m => m
  | f + 1, .dA, a, b, m =>
      let ah := a / B; let bh := b / B
      if ah = bh then m                                          -- goto done
      else if ah < HALF then                                      -- switch to single precision
        hgcd2Loop f .sA ((ah <<< 32) + ((a % B) >>> 32)) ((bh <<< 32) + ((b % B) >>> 32)) m
      else
        let a := a - b                                            -- sub_ddmmss (ah > bh)
        if a / B < 2 then m
        else if a / B ≤ bh then
          hgcd2Loop f .dB a b { m with u01 := (m.u01 + m.u00) % B, u11 := (m.u11 + m.u10) % B }
        else
          let (q, r) := div2 a b
          if r / B < 2 then
            { m with u01 := (m.u01 + q * m.u00) % B, u11 := (m.u11 + q * m.u10) % B }
          else
            let q := (q + 1) % B
            hgcd2Loop f .dB r b { m with u01 := (m.u01 + q * m.u00) % B, u11 := (m.u11 + q * m.u10) % B }
  | f + 1, .dB, a, b, m =>
      let ah := a / B; let bh := b / B
      if ah = bh then m
      else if bh < HALF then
        hgcd2Loop f .sB ((ah <<< 32) + ((a % B) >>> 32)) ((bh <<< 32) + ((b % B) >>> 32)) m
      else
        let b := b - a
        if b / B < 2 then m
        else if b / B ≤ ah then
          hgcd2Loop f .dA a b { m with u00 := (m.u00 + m.u01) % B, u10 := (m.u10 + m.u11) % B }
        else
          let (q, r) := div2 b a
          if r / B < 2 then
            { m with u00 := (m.u00 + q * m.u01) % B, u10 := (m.u10 + q * m.u11) % B }
          else
            let q := (q + 1) % B
            hgcd2Loop f .dA a r { m with u00 := (m.u00 + q * m.u01) % B, u10 := (m.u10 + q * m.u11) % B }
  | f + 1, .sA, ah, bh, m =>
      let ah := ah - bh
      if ah < 2 * HALF then m
      else if ah ≤ bh then
        hgcd2Loop f .sB ah bh { m with u01 := (m.u01 + m.u00) % B, u11 := (m.u11 + m.u10) % B }
      else
        let (q, r) := div1 ah bh
        if r < 2 * HALF then
          { m with u01 := (m.u01 + q * m.u00) % B, u11 := (m.u11 + q * m.u10) % B }
        else
          let q := (q + 1) % B
          hgcd2Loop f .sB r bh { m with u01 := (m.u01 + q * m.u00) % B, u11 := (m.u11 + q * m.u10) % B }
  | f + 1, .sB, ah, bh, m =>
      let bh := bh - ah
      if bh < 2 * HALF then m
      else if bh ≤ ah then
        hgcd2Loop f .sA ah bh { m with u00 := (m.u00 + m.u01) % B, u10 := (m.u10 + m.u11) % B }
      else
        let (q, r) := div1 bh ah
        if r < 2 * HALF then
          { m with u00 := (m.u00 + q * m.u01) % B, u10 := (m.u10 + q * m.u11) % B }
        else
          let q := (q + 1) % B
          hgcd2Loop f .sA ah r { m with u00 := (m.u00 + q * m.u01) % B, u10 := (m.u10 + q * m.u11) % B }

/-- mpn_hgcd2 (hgcd2.c:229): `none` = return 0, `some M` = return 1 with matrix M. -/
def hgcd2 (ah al bh bl : Nat) : Option M1 :=
  if ah < 2 ∨ bh < 2 then none
  else
    let a := ah * B + al; let b := bh * B + bl
    if ah > bh ∨ (ah = bh ∧ al > bl) then
      let a := a - b
      if a / B < 2 then none
      else
        let m : M1 := ⟨1, 1, 0, 1⟩
        some (if a / B < bh then hgcd2Loop 512 .dB a b m else hgcd2Loop 512 .dA a b m)
    else
      let b := b - a
      if b / B < 2 then none
      else
        let m : M1 := ⟨1, 0, 1, 1⟩
        some (if ah < b / B then hgcd2Loop 512 .dB a b m else hgcd2Loop 512 .dA a b m)

/-! ### jacobi_base.c (JACOBI_BASE_METHOD 1) -/

/-- JACOBI_TWOS_U_BIT1 (twos, b) = (twos << 1) & ((b >> 1) ^ b); only bit 1 is ever read. -/
def twosBit1 (twos b : Nat) : Nat := (twos <<< 1) &&& ((b >>> 1) ^^^ b)

/-- JACOBI_BIT1_TO_PN -/
def bit1ToPN (bit : Nat) : Int := 1 - ((bit &&& 2 : Nat) : Int)

/-- the `a_gt_b` do-while of mpn_jacobi_base (jacobi_base.c:139): a, b odd, a ≥ b. -/
def jacobiBaseLoop : Nat → Nat → Nat → Nat → Int
  | 0, _, _, _ => 0
  | f + 1, a, b, bit =>
      let a := a - b
      if a = 0 then 0
      else
        let twos := ctz a                       -- PROCESS_TWOS_EVEN = PROCESS_TWOS_ANY (method 1)
        let bit := bit ^^^ twosBit1 twos b
        let a := a >>> twos
        if a = 1 then bit1ToPN bit
        else if a ≥ b then jacobiBaseLoop f a b bit
        else jacobiBaseLoop f b a (bit ^^^ (a &&& b))   -- result_bit1 ^= RECIP (a, b); swap

/-- mpn_jacobi_base (a, b, result_bit1), b odd, b > 1 (jacobi_base.c:122).  `bit` is the C `int`
    result_bit1 of which only bit 1 matters; it is kept as a natural. -/
def jacobi_base (a b bit : Nat) : Int :=
  if a = 0 then 0
  else
    let twos := ctz a                          -- PROCESS_TWOS_ANY
    let bit := bit ^^^ twosBit1 twos b
    let a := a >>> twos
    if a = 1 then bit1ToPN bit
    else if a ≥ b then jacobiBaseLoop (a + b) a b bit
    else jacobiBaseLoop (a + b) b a (bit ^^^ (a &&& b))

/-! ## V: the Lehmer loop at value level -/

/-- State of a reduction: current pair (a, b) and the cofactor row (u0, u1) of the accumulated
    matrix (gcdext_lehmer.c:139: a = u1·A - v1·B, b = -u0·A + v0·B). -/
structure RState where
  a : Nat
  b : Nat
  u0 : Nat
  u1 : Nat
  deriving Repr, BEq, DecidableEq

/-- The step contract: (a, b) = M·(a', b') for a non-negative matrix M of determinant 1, a', b' not
    both... (positivity of a', b' is what makes the measure a + b decrease); the cofactor row is
    multiplied by M from the right (mpn_hgcd_mul_matrix1_vector).  hgcd2 steps, subtraction steps
    and division steps of mpn_gcd_subdiv_step are all instances. -/
def StepOk (m : M1) (s s' : RState) : Prop :=
  m.u00 * m.u11 = m.u01 * m.u10 + 1 ∧
  s.a = m.u00 * s'.a + m.u01 * s'.b ∧ s.b = m.u10 * s'.a + m.u11 * s'.b ∧
  s'.u0 = s.u0 * m.u00 + s.u1 * m.u10 ∧ s'.u1 = s.u0 * m.u01 + s.u1 * m.u11

instance (m : M1) (s s' : RState) : Decidable (StepOk m s s') := by unfold StepOk; infer_instance

/-- Any finite sequence of contract-satisfying steps. -/
inductive Reach : RState → RState → Prop
  | refl (s : RState) : Reach s s
  | step {s s' s'' : RState} (m : M1) : StepOk m s s' → Reach s' s'' → Reach s s''

/-- apply M⁻¹ = (u11, -u01; -u10, u00) to (a; b) (mpn_matrix22_mul1_inverse_vector) and M to the
    cofactor row (mpn_hgcd_mul_matrix1_vector). -/
def applyM (m : M1) (s : RState) : RState :=
  { a := m.u11 * s.a - m.u01 * s.b, b := m.u00 * s.b - m.u10 * s.a,
    u0 := s.u0 * m.u00 + s.u1 * m.u10, u1 := s.u0 * m.u01 + s.u1 * m.u11 }

/-- the Lehmer condition on a matrix returned by hgcd2 for the pair (a, b): unimodular and
    M⁻¹·(a, b) ≥ 0 (entries are naturals, hence non-negative). -/
def lehmerOk (m : M1) (a b : Nat) : Prop :=
  m.u00 * m.u11 = m.u01 * m.u10 + 1 ∧ m.u01 * b ≤ m.u11 * a ∧ m.u10 * a ≤ m.u00 * b

instance (m : M1) (a b : Nat) : Decidable (lehmerOk m a b) := by unfold lehmerOk; infer_instance

def limbAt (x i : Nat) : Nat := (x >>> (64 * i)) % B

/-- MPN_EXTRACT_NUMB (count, xh, xl), 0 < count < 64 (gmp-impl.h:3746). -/
def extractNumb (count xh xl : Nat) : Nat := ((xh <<< count) % B) ||| (xl >>> (64 - count))

/-- top two limbs of (a, b), normalised by the common shift (gcd.c:204, gcdext_lehmer.c:175). -/
def top2 (a b n : Nat) : Nat × Nat × Nat × Nat :=
  let mask := limbAt a (n - 1) ||| limbAt b (n - 1)
  if 2 ^ 63 ≤ mask then (limbAt a (n - 1), limbAt a (n - 2), limbAt b (n - 1), limbAt b (n - 2))
  else if n = 2 then
    let shift := clz mask
    (extractNumb shift (limbAt a 1) (limbAt a 0), (limbAt a 0 <<< shift) % B,
     extractNumb shift (limbAt b 1) (limbAt b 0), (limbAt b 0 <<< shift) % B)
  else
    let shift := clz mask
    (extractNumb shift (limbAt a (n - 1)) (limbAt a (n - 2)), extractNumb shift (limbAt a (n - 2)) (limbAt a (n - 3)),
     extractNumb shift (limbAt b (n - 1)) (limbAt b (n - 2)), extractNumb shift (limbAt b (n - 2)) (limbAt b (n - 3)))

/-- Result of mpn_gcd_subdiv_step with s = 0 (gcd_subdiv_step.c:57): the quotient hook calls
    (q, d) in order, then either the gcd hook (g, d) — return value 0 — or the reduced pair. -/
structure Subdiv where
  qs : List (Nat × Bool)
  fin : Option (Nat × Int)
  a : Nat
  b : Nat
  n : Nat
  deriving Repr

/-- second half of mpn_gcd_subdiv_step (gcd_subdiv_step.c:120-166): the locals la ≠ lb after the
    subtraction are put in order, divided, and the hooks reported.  `q1` = hook calls so far. -/
def subdivDivide (la lb : Nat) (sw : Bool) (q1 : List (Nat × Bool)) (a b : Nat) : Subdiv :=
  let lo := if la > lb then lb else la                       -- "Arrange so that a < b"
  let hi := if la > lb then la else lb
  let sw := if la > lb then !sw else sw
  let q := hi / lo                                            -- mpn_tdiv_qr
  let r := hi % lo
  if r = 0 then ⟨q1, some (lo, if sw then 1 else 0), a, b, 0⟩  -- hook (ap, q, swapped)
  else if sw then ⟨q1 ++ [(q, sw)], none, r, lo, nlimbs lo⟩   -- hook (q, swapped); return an
  else ⟨q1 ++ [(q, sw)], none, lo, r, nlimbs lo⟩

/-- first half (gcd_subdiv_step.c:95-118) with the local pointers already ordered, la < lb;
    `sw` = the local pointers are swapped w.r.t. the caller's. -/
def subdivOrdered (la lb : Nat) (sw : Bool) (a b : Nat) : Subdiv :=
  if la = 0 then ⟨[], some (lb, if sw then 0 else 1), a, b, 0⟩     -- an <= s: hook (bp, d = swapped ^ 1)
  else
    let lb := lb - la                                                -- mpn_sub (bp, bp, bn, ap, an)
    if la = lb then ⟨[], some (lb, if sw then 1 else 0), a, b, 0⟩   -- found gcd: hook (bp, d = swapped)
    else subdivDivide la lb sw [(1, sw)] a b                         -- hook (q = 1, swapped)

def subdivStep (a b : Nat) : Subdiv :=
  if a = b then ⟨[], some (a, -1), a, b, 0⟩                 -- an == bn, c == 0: hook (ap, d = -1)
  else if a > b then subdivOrdered b a true a b else subdivOrdered a b false a b

/-- new size after mpn_matrix22_mul1_inverse_vector: n -= (rp[n-1] | bp[n-1]) == 0. -/
def shrinkN (a b n : Nat) : Nat := if limbAt a (n - 1) ||| limbAt b (n - 1) = 0 then n - 1 else n

/-- the `while (n > 2)` loop of mpn_gcd (gcd.c:197).  `inl (a, b, n)`: fell out with n ≤ 2;
    `inr g`: mpn_gcd_subdiv_step found the gcd. -/
def gcdLehmerLoop : Nat → Nat → Nat → Nat → (Nat × Nat × Nat) ⊕ Nat
  | 0, a, b, n => .inl (a, b, n)
  | f + 1, a, b, n =>
      if n > 2 then
        let (uh, ul, vh, vl) := top2 a b n
        match hgcd2 uh ul vh vl with
        | some m =>
            let a' := m.u11 * a - m.u01 * b
            let b' := m.u00 * b - m.u10 * a
            gcdLehmerLoop f a' b' (shrinkN a' b' n)
        | none =>
            let r := subdivStep a b
            match r.fin with
            | some (g, _) => .inr g
            | none => gcdLehmerLoop f r.a r.b r.n
      else .inl (a, b, n)

/-- gcd_2 (gcd.c:74): binary gcd of two odd two-limb values. -/
def gcd2Loop : Nat → Nat → Nat → Nat × Nat
  | 0, u, v => (u, v)
  | f + 1, u, v =>
      if u / B ≠ v / B ∧ u % B ≠ v % B then
        if u / B > v / B then
          let u := u - v
          gcd2Loop f (u >>> ctz (u % B)) v
        else
          let v := v - u
          gcd2Loop f u (v >>> ctz (v % B))
      else (u, v)

def gcd_2 (u v : Nat) : Nat :=
  let (u, v) := gcd2Loop (u + v) u v
  if u = v then u
  else
    let u1 := u / B; let u0 := u % B; let v1 := v / B; let v0 := v % B
    let w := if u0 = v0 then (if u1 > v1 then u1 - v1 else v1 - u1) else (if u0 > v0 then u0 - v0 else v0 - u0)
    gcd_1 (if u1 ≠ 0 then [u0, u1] else [u0]) w

/-- GCD_DC_THRESHOLD, GCDEXT_DC_THRESHOLD of the pinned build (mpn/x86_64/gmp-mparam.h:61-62).  Above
    them mpn_gcd / mpn_gcdext first run mpn_hgcd rounds; those are instances of the abstract step
    contract and are not reproduced by the executable model (the result does not depend on them). -/
def GCD_DC_THRESHOLD : Nat := 460
def GCDEXT_DC_THRESHOLD : Nat := 342

/-- the n ≤ 2 endgame of mpn_gcd (gcd.c:245-275): single limbs through mpn_gcd_1; two limbs: make
    up odd ("at most one can be even"), a zero low limb of vp goes through mpn_gcd_1, otherwise strip
    the twos of vp and run gcd_2. -/
def gcdEndgame (a b n : Nat) : Nat :=
  if n = 1 then gcd_1 [a] b                                      -- gcd.c:247
  else
    let a' := if a % 2 = 0 then b else a                          -- MP_PTR_SWAP (up, vp)
    let b' := if a % 2 = 0 then a else b
    if b' % B = 0 then gcd_1 [a' % B, a' / B] (b' / B)            -- gcd.c:262
    else
      let b'' := if b' % 2 = 0 then b' >>> ctz (b' % B) else b'
      gcd_2 a' b''

/-- the Lehmer part of mpn_gcd on n-limb operands (gcd.c:197-277) -/
def gcdLehmer (U V n : Nat) : Nat :=
  match gcdLehmerLoop (U + V + 1) U V n with
  | .inr g => g
  | .inl (a, b, n) => gcdEndgame a b n

/-- mpn_gcd (gp, up, usize, vp, n) at value level (gcd.c:122).  Domain: usize ≥ n > 0, V odd with
    non-zero top limb, U with at least as many bits as V. -/
def mpn_gcd (U usize V n : Nat) : Nat :=
  if usize > n then
    let U := U % V                                                  -- mpn_tdiv_qr, gcd.c:166
    if U = 0 then V else gcdLehmer U V n
  else gcdLehmer U V n

/-- the cofactor selected by the gcd hook / the final comparison (gcdext_lehmer.c:47, 243):
    d < 0: the smaller of +u1, -u0;  d = 1: -u0;  d = 0: +u1. -/
def pickCofactor (u0 u1 : Nat) (d : Int) : Int :=
  let d1 : Bool := if d < 0 then decide (u0 < u1) else decide (d ≠ 0)
  if d1 then -(u0 : Int) else u1

/-- quotient hook of mpn_gcdext_hook (gcdext_lehmer.c:60): u0 += q·u1, roles swapped if d. -/
def hookQ (u : Nat × Nat) (qd : Nat × Bool) : Nat × Nat :=
  if qd.2 then (u.1, u.2 + qd.1 * u.1) else (u.1 + qd.1 * u.2, u.2)

/-- the `while (n >= 2)` loop of mpn_gcdext_lehmer_n (gcdext_lehmer.c:168). -/
def gcdextLehmerLoop : Nat → Nat → Nat → Nat → Nat → Nat → (Nat × Nat × Nat × Nat) ⊕ (Nat × Int)
  | 0, a, b, _, u0, u1 => .inl (a, b, u0, u1)
  | f + 1, a, b, n, u0, u1 =>
      if n ≥ 2 then
        let (ah, al, bh, bl) := top2 a b n
        match hgcd2 ah al bh bl with
        | some m =>
            let a' := m.u11 * a - m.u01 * b
            let b' := m.u00 * b - m.u10 * a
            gcdextLehmerLoop f a' b' (shrinkN a' b' n) (u0 * m.u00 + u1 * m.u10) (u0 * m.u01 + u1 * m.u11)
        | none =>
            let r := subdivStep a b
            let (u0, u1) := r.qs.foldl hookQ (u0, u1)
            match r.fin with
            | some (g, d) => .inr (g, pickCofactor u0 u1 d)
            | none => gcdextLehmerLoop f r.a r.b r.n u0 u1
      else .inl (a, b, u0, u1)

/-- mpn_gcdext_lehmer_n (gcdext_lehmer.c:133): returns (G, S). -/
def gcdext_lehmer_n (a b n : Nat) : Nat × Int :=
  match gcdextLehmerLoop (a + b + 1) a b n 0 1 with
  | .inr r => r
  | .inl (a, b, u0, u1) =>
      if a = b then (a, pickCofactor u0 u1 (-1))                     -- gcdext_lehmer.c:243
      else
        let (g, u, v) := gcdext_1 a b
        (g, u * u1 - v * u0)                                          -- up = u u1 - v u0

/-- mpn_gcdext (gp, up, usizep, ap, an, bp, n) at value level (gcdext.c:181): (G, S).
    Domain: an ≥ n > 0, V with non-zero top limb.  For n ≥ GCDEXT_DC_THRESHOLD the result is the
    documented canonical cofactor (the mpn_hgcd rounds are not reproduced). -/
def mpn_gcdext (U an V n : Nat) : Nat × Int :=
  let U' := if an > n then U % V else U
  if an > n ∧ U' = 0 then (V, 0)                                     -- gcdext.c:237
  else if n < GCDEXT_DC_THRESHOLD then gcdext_lehmer_n U' V n
  else (Nat.gcd U V, gcdextS U' V)

/-! ### jacobi_2.c (JACOBI_2_METHOD 2): (a/b) for two-limb a, b, b odd -/

/-- label `b_reduced` (jacobi_2.c:311): (a|b) with b a single odd limb; a = ah·B + al odd. -/
def j2BReduced : Nat → Nat → Nat → Nat → Nat → Int
  | 0, _, _, _, _ => 0
  | f + 1, ah, al, bl, bit =>
      if bl = 1 then bit1ToPN bit                                   -- (a|1) = 1
      else if ah > 0 then
        let a := ah * B + al - bl                                   -- ah -= (al < bl); al -= bl
        let ah := a / B
        let al := a % B
        if al = 0 then
          if ah = 0 then 0
          else
            let c := ctz ah
            jacobi_base (ah >>> c) bl (bit ^^^ twosBit1 (64 + c) bl)  -- goto ab_reduced
        else
          let c := ctz al                                           -- c ≥ 1: a - b is even
          let a := a >>> c
          j2BReduced f (a / B) (a % B) bl (bit ^^^ twosBit1 c bl)
      else jacobi_base al bl bit                                    -- ab_reduced

/-- label `cancel_hi` (jacobi_2.c:287): ah = bh. -/
def j2CancelHi (fuel ah al bl bit : Nat) : Int :=
  let sw := decide (al < bl)
  let bit := if sw then bit ^^^ (bl &&& al) else bit                -- swap; bit ^= al & bl
  let hi := if sw then bl else al
  let lo := if sw then al else bl
  let d := hi - lo
  if d = 0 then 0
  else
    let c := ctz d
    let bit := bit ^^^ twosBit1 c lo
    let d := d >>> c
    if d = 1 then bit1ToPN bit
    else j2BReduced fuel ah lo d (bit ^^^ (lo &&& d))               -- swap (al, bl); bit ^= al & bl; break

/-- the `while (bh > 0)` loop (jacobi_2.c:238); `second` = inside the `while (bh > ah)` loop. -/
def j2Loop : Nat → Bool → Nat → Nat → Nat → Nat → Nat → Int
  | 0, _, _, _, _, _, _ => 0
  | f + 1, false, ah, al, bh, bl, bit =>
      if bh = 0 then j2BReduced (f + 1) ah al bl bit
      else if ah > bh then
        let a := ah * B + al - (bh * B + bl)                        -- sub_ddmmss
        if a % B = 0 then
          let c := ctz (a / B)
          let bit := bit ^^^ twosBit1 (64 + c) bl
          let nbl := (a / B) >>> c
          j2BReduced (f + 1) bh bl nbl (bit ^^^ (bl &&& nbl))       -- al = bl; bl = ah >> c; ah = bh
        else
          let c := ctz (a % B)
          let a' := a >>> c
          j2Loop f false (a' / B) (a' % B) bh bl (bit ^^^ twosBit1 c bl)
      else if ah = bh then j2CancelHi (f + 1) ah al bl bit
      else if ah = 0 then j2BReduced (f + 1) bh bl al (bit ^^^ (al &&& bl))   -- swap, ah = bh, break
      else j2Loop f true ah al bh bl (bit ^^^ (al &&& bl))
  | f + 1, true, ah, al, bh, bl, bit =>
      if bh > ah then
        let b := bh * B + bl - (ah * B + al)
        if b % B = 0 then
          let c := ctz (b / B)
          let bit := bit ^^^ twosBit1 (64 + c) al
          let nbl := (b / B) >>> c
          j2BReduced (f + 1) ah al nbl (bit ^^^ (al &&& nbl))
        else
          let c := ctz (b % B)
          let b' := b >>> c
          j2Loop f true ah al (b' / B) (b' % B) (bit ^^^ twosBit1 c al)
      else
        let bit := bit ^^^ (al &&& bl)
        if ah = bh then j2CancelHi (f + 1) ah al bl bit
        else j2Loop f false ah al bh bl bit

/-- mpn_jacobi_2 (ap, bp, bit) (jacobi_2.c:175): a = ah·B + al, b = bh·B + bl odd, bit ∈ {0, 1}. -/
def jacobi_2 (al ah bl bh bit : Nat) : Int :=
  let bit := bit <<< 1
  if bh = 0 ∧ bl = 1 then bit1ToPN bit
  else if al = 0 then
    if ah = 0 then 0
    else
      let c := ctz ah
      let bit := bit ^^^ twosBit1 (64 + c) bl
      let nbl := ah >>> c
      if nbl = 1 then bit1ToPN bit
      else j2BReduced 1024 bh bl nbl (bit ^^^ (bl &&& nbl))
  else
    let c := if al % 2 = 0 then ctz al else 0
    let a := (ah * B + al) >>> c
    let bit := if al % 2 = 0 then bit ^^^ twosBit1 c bl else bit
    let ah := a / B
    let al := a % B
    if ah = 0 then
      if bh > 0 then j2BReduced 1024 bh bl al (bit ^^^ (al &&& bl))
      else jacobi_base al bl bit
    else j2Loop 1024 false ah al bh bl bit

/-- mpn_jacobi_n (ap, bp, n, bits) by specification: the Jacobi symbol (a/b), b odd, times the sign
    bit carried in `bits` (mpn_jacobi_init (a, b, s)). -/
def jacobi_n (a b s : Nat) : Int := (if s % 2 = 1 then -1 else 1) * kronecker a b

/-! ## S: mpz functions (values are integers; limb counts where the C branches on them) -/

/-- number of low zero limbs of a non-zero natural. -/
def lowZeroLimbs (x : Nat) : Nat := ctz x / 64

/-- mpz_gcd (mpz/gcd.c:27). -/
def mpz_gcd (u v : Int) : Int :=
  let U := u.natAbs; let V := v.natAbs
  let usize := nlimbs U; let vsize := nlimbs V
  if usize = 0 then V                                                -- gcd.c:49
  else if vsize = 0 then U                                           -- gcd.c:59
  else if usize = 1 then (gcd_1 (natLimbs V) U : Nat)                -- gcd.c:69
  else if vsize = 1 then (gcd_1 (natLimbs U) V : Nat)                -- gcd.c:76
  else
    let u_zero_limbs := lowZeroLimbs U
    let U1 := U / B ^ u_zero_limbs
    let u_zero_bits := ctz (U1 % B)
    let up := U1 >>> u_zero_bits
    let v_zero_limbs := lowZeroLimbs V
    let V1 := V / B ^ v_zero_limbs
    let v_zero_bits := ctz (V1 % B)
    let vp := V1 >>> v_zero_bits
    let (g_zero_limbs, g_zero_bits) :=
      if u_zero_limbs > v_zero_limbs then (v_zero_limbs, v_zero_bits)
      else if u_zero_limbs < v_zero_limbs then (u_zero_limbs, u_zero_bits)
      else (u_zero_limbs, min u_zero_bits v_zero_bits)
    let usz := nlimbs up; let vsz := nlimbs vp
    let g := if usz < vsz ∨ (usz = vsz ∧ limbAt up (usz - 1) < limbAt vp (vsz - 1))
             then mpn_gcd vp vsz up usz else mpn_gcd up usz vp vsz    -- gcd.c:132
    ((g <<< (g_zero_limbs * 64 + g_zero_bits) : Nat) : Int)

/-- mpz_gcd_ui (w, u, v): (value stored in w, return value) (mpz/gcd_ui.c:26). -/
def mpz_gcd_ui (u : Int) (v : Nat) : Int × Nat :=
  let U := u.natAbs
  let un := nlimbs U
  if un = 0 then (v, v)
  else if v = 0 then (U, if un = 1 then U else 0)
  else
    let res := gcd_1 (natLimbs U) v
    (res, res)

/-- mpz_gcdext (g, s, t, a, b) (mpz/gcdext.c:27): (g, s, t). -/
def mpz_gcdext (a b : Int) : Int × Int × Int :=
  let asize := nlimbs a.natAbs; let bsize := nlimbs b.natAbs
  let sw := decide (asize < bsize)
  let (a, b, asize, bsize) := if sw then (b, a, bsize, asize) else (a, b, asize, bsize)
  let (g, s, t) : Int × Int × Int :=
    if bsize = 0 then
      ((a.natAbs : Int), (if a ≥ 0 then (if asize ≠ 0 then 1 else 0) else -1), 0)   -- gcdext.c:52
    else
      let (G, S) := mpn_gcdext a.natAbs asize b.natAbs bsize
      let s : Int := if a ≥ 0 then S else -S                           -- gcdext.c:82
      let g : Int := G
      (g, s, (g - s * a) / b)                                           -- mpz_mul, mpz_sub, mpz_divexact
  if sw then (g, t, s) else (g, s, t)

/-- mpz_lcm (mpz/lcm.c:26). -/
def mpz_lcm (u v : Int) : Int :=
  let usize := nlimbs u.natAbs; let vsize := nlimbs v.natAbs
  if usize = 0 ∨ vsize = 0 then 0
  else if vsize = 1 then
    let vl := v.natAbs
    ((u.natAbs * (vl / gcd_1 (natLimbs u.natAbs) vl) : Nat) : Int)
  else if usize = 1 then
    let ul := u.natAbs
    ((v.natAbs * (ul / gcd_1 (natLimbs v.natAbs) ul) : Nat) : Int)
  else
    let g := mpz_gcd u v
    (((u / g) * v).natAbs : Int)                                      -- divexact, mul, abs

/-- mpz_lcm_ui (mpz/lcm_ui.c:26). -/
def mpz_lcm_ui (u : Int) (v : Nat) : Int :=
  if u = 0 ∨ v = 0 then 0
  else ((u.natAbs * (v / gcd_1 (natLimbs u.natAbs) v) : Nat) : Int)

/-- mpz_invert (mpz/invert.c:25): `none` = return 0 (rop unchanged), `some r` = return 1. -/
def mpz_invert (x n : Int) : Option Int :=
  if x = 0 ∨ n.natAbs = 1 then none
  else
    let (g, s, _) := mpz_gcdext x n
    if g ≠ 1 then none
    else if s < 0 then (if n < 0 then some (s - n) else some (s + n)) else some s

/-- JACOBI_LS0 / JACOBI_0LS: |x| = 1 given by low limb and signed size. -/
def ls0 (low : Nat) (size : Int) : Int := if (size = 1 ∨ size = -1) ∧ low = 1 then 1 else 0

def ssize (x : Int) : Int := sgn x * nlimbs x.natAbs

/-- `count_trailing_zeros (btwos, blow); blow >>= btwos; if (bsize > 1 && btwos > 0) {...}`
    (mpz/jacobi.c:96-104 and 131-139): returns (blow, btwos, bsize). -/
def jacShiftLow (bl : List Nat) (bsize : Nat) : Nat × Nat × Nat :=
  let blow := bl.headD 0
  let btwos := ctz blow
  let blow := blow >>> btwos
  if bsize > 1 ∧ btwos > 0 then
    let b1 := bl.getD 1 0
    let blow := blow ||| ((b1 <<< (64 - btwos)) % B)
    (blow, btwos, if bsize = 2 ∧ b1 >>> btwos = 0 then 1 else bsize)
  else (blow, btwos, bsize)

/-- mpz_jacobi = mpz_kronecker = mpz_legendre (mpz/jacobi.c:46). -/
def mpz_jacobi (a b : Int) : Int :=
  let asrcp := natLimbs a.natAbs; let bsrcp := natLimbs b.natAbs
  let asize := ssize a; let bsize := ssize b
  let alow := asrcp.headD 0; let blow := bsrcp.headD 0
  if bsize = 0 then ls0 alow asize                                  -- (a/0)
  else if asize = 0 then ls0 blow bsize                             -- (0/b)
  else if (alow ||| blow) % 2 = 0 then 0
  else
    let result_bit1 : Nat := if bsize < 0 then (if asize < 0 then 2 else 0) else 0
    -- JACOBI_STRIP_LOW_ZEROS (result_bit1, alow, bsrcp, bsize, blow): 64 is even, no sign change
    let bsrcp := bsrcp.dropWhile (· == 0)
    let bsz := bsrcp.length
    let (blow, btwos, bsz) := jacShiftLow bsrcp bsz
    let result_bit1 := if asize < 0 then result_bit1 ^^^ blow else result_bit1   -- JACOBI_N1B_BIT1
    let asrcp := asrcp.dropWhile (· == 0)
    let asz := asrcp.length
    let alow := asrcp.headD 0
    -- ensure asize >= bsize
    let (asrcp, asz, bsrcp, bsz, alow, blow, btwos, result_bit1) :=
      if asz < bsz then
        let (nblow, nbtwos, nbsz) := jacShiftLow asrcp asz
        (bsrcp, bsz, asrcp, nbsz, blow, nblow, nbtwos, result_bit1 ^^^ (blow &&& nblow))
      else (asrcp, asz, bsrcp, bsz, alow, blow, btwos, result_bit1)
    if bsz = 1 then
      let result_bit1 := result_bit1 ^^^ twosBit1 btwos alow
      if blow = 1 then bit1ToPN result_bit1
      else if asz > 1 then
        jacobi_base (modexact_1_odd asrcp blow) blow (result_bit1 ^^^ blow)   -- JACOBI_MOD_OR_MODEXACT_1_ODD
      else jacobi_base alow blow result_bit1
    else
      let A := val asrcp; let Bv := val bsrcp
      let ap := if asz > bsz then A % Bv else A
      let result_bit1 := if btwos > 0 then result_bit1 ^^^ twosBit1 btwos alow else result_bit1
      let bp := Bv >>> btwos
      jacobi_n ap bp ((result_bit1 >>> 1) % 2)

/-- JACOBI_MOD_OR_MODEXACT_1_ODD followed by mpn_jacobi_base. -/
def jacModBase (result_bit1 : Nat) (ap : List Nat) (b : Nat) : Int :=
  jacobi_base (modexact_1_odd ap b) b (result_bit1 ^^^ b)

/-- mpz_kronecker_si (mpz/kronzs.c:31); b a signed long. -/
def mpz_kronecker_si (a : Int) (b : Int) : Int :=
  let a_size := ssize a
  if a_size = 0 then (if b = 1 ∨ b = -1 then 1 else 0)               -- JACOBI_0S
  else
    let result_bit1 : Nat := if a_size < 0 ∧ b < 0 then 2 else 0     -- JACOBI_BSGN_SS_BIT1
    let b_limb := b.natAbs
    let a_ptr := natLimbs a.natAbs
    let a_low := a_ptr.headD 0
    if b_limb % 2 = 0 ∧ b_limb = 0 then ls0 a_low a_size
    else if b_limb % 2 = 0 ∧ a_low % 2 = 0 then 0
    else
      let (b_limb, result_bit1) :=
        if b_limb % 2 = 0 then
          let twos := ctz b_limb
          (b_limb >>> twos, result_bit1 ^^^ twosBit1 twos a_low)
        else (b_limb, result_bit1)
      if b_limb = 1 then bit1ToPN result_bit1
      else
        let result_bit1 := result_bit1 ^^^ ((if a_size < 0 then 2 else 0) &&& b_limb)   -- JACOBI_ASGN_SU_BIT1
        jacModBase result_bit1 a_ptr b_limb

/-- mpz_kronecker_ui (mpz/kronzu.c:28). -/
def mpz_kronecker_ui (a : Int) (b : Nat) : Int :=
  let a_size := ssize a
  if a_size = 0 then (if b = 1 then 1 else 0)                         -- JACOBI_0U
  else
    let a_ptr := natLimbs a.natAbs
    let a_low := a_ptr.headD 0
    let asgn (b : Nat) : Nat := (if a_size < 0 then 2 else 0) &&& b
    if b % 2 ≠ 0 then
      let result_bit1 := asgn b
      if b = 1 then bit1ToPN result_bit1 else jacModBase result_bit1 a_ptr b
    else if b = 0 then ls0 a_low a_size
    else if a_low % 2 = 0 then 0
    else
      let twos := ctz b
      let b := b >>> twos
      let result_bit1 := twosBit1 twos a_low ^^^ asgn b
      if b = 1 then bit1ToPN result_bit1 else jacModBase result_bit1 a_ptr b

/-- the even-b part shared by mpz_si_kronecker and mpz_ui_kronecker (kronsz.c:84-113,
    kronuz.c:58-93): strip low zero limbs of b and produce a b_low with valid bit 1.
    `none` = the early return for b = 2^63·B^k. -/
def kronEvenB (a_abs : Nat) (b_ptr : List Nat) (result_bit1 : Nat) : Option (List Nat × Nat) ⊕ Int :=
  let b_ptr := b_ptr.dropWhile (· == 0)              -- JACOBI_STRIP_LOW_ZEROS, 64 even: no sign change
  let b_low := b_ptr.headD 0
  if b_low % 2 = 0 then
    if b_low = 2 ^ 63 then
      if b_ptr.length = 1 then
        .inr (bit1ToPN (result_bit1 ^^^ ((a_abs >>> 1) ^^^ a_abs)))   -- (a/2)^63
      else .inl (some (b_ptr, (b_ptr.getD 1 0 <<< 1) % B))
    else .inl (some (b_ptr, b_low >>> ctz b_low))
  else .inl (some (b_ptr, b_low))

/-- mpz_si_kronecker (mpz/kronsz.c:28); a a signed long. -/
def mpz_si_kronecker (a : Int) (b : Int) : Int :=
  let b_size := ssize b
  if b_size = 0 then (if a = 1 ∨ a = -1 then 1 else 0)               -- JACOBI_S0
  else
    let result_bit1 : Nat := if a < 0 ∧ b_size < 0 then 2 else 0
    let b_ptr := natLimbs b.natAbs
    let b_low := b_ptr.headD 0
    let asgn (bl : Nat) : Nat := (if a < 0 then 2 else 0) &&& bl
    if b_low % 2 ≠ 0 then
      let result_bit1 := result_bit1 ^^^ asgn b_low
      let a_limb := a.natAbs
      if a_limb % 2 = 0 ∧ a_limb = 0 then (if b_ptr.length = 1 ∧ b_low = 1 then 1 else 0)
      else
        let (a_limb, result_bit1) :=
          if a_limb % 2 = 0 then
            let twos := ctz a_limb
            (a_limb >>> twos, result_bit1 ^^^ twosBit1 twos b_low)
          else (a_limb, result_bit1)
        if a_limb = 1 then bit1ToPN result_bit1
        else
          let r := modexact_1_odd b_ptr a_limb
          jacobi_base r a_limb ((result_bit1 ^^^ a_limb) ^^^ (a_limb &&& b_low))
    else if a % 2 = 0 then 0
    else
      match kronEvenB a.natAbs b_ptr result_bit1 with
      | .inr r => r
      | .inl none => 0
      | .inl (some (b_ptr, b_low)) =>
          let result_bit1 := result_bit1 ^^^ asgn b_low
          let a_limb := a.natAbs
          if a_limb = 1 then bit1ToPN result_bit1
          else
            let r := modexact_1_odd b_ptr a_limb
            jacobi_base r a_limb ((result_bit1 ^^^ a_limb) ^^^ (a_limb &&& b_low))

/-- mpz_ui_kronecker (mpz/kronuz.c:28). -/
def mpz_ui_kronecker (a : Nat) (b : Int) : Int :=
  let b_ptr := natLimbs b.natAbs
  if b_ptr.length = 0 then (if a = 1 then 1 else 0)                   -- JACOBI_U0
  else
    let b_low := b_ptr.headD 0
    let fin (a : Nat) (b_ptr : List Nat) (b_low result_bit1 : Nat) : Int :=
      if a = 1 then bit1ToPN result_bit1
      else
        let r := modexact_1_odd b_ptr a
        jacobi_base r a ((result_bit1 ^^^ a) ^^^ (a &&& b_low))
    if b_low % 2 = 0 then
      if a % 2 = 0 then 0
      else
        match kronEvenB a b_ptr 0 with
        | .inr r => r
        | .inl none => 0
        | .inl (some (b_ptr, b_low)) => fin a b_ptr b_low 0
    else if a = 0 then (if b_ptr.length = 1 ∧ b_low = 1 then 1 else 0)
    else if a % 2 = 0 then
      let twos := ctz a
      fin (a >>> twos) b_ptr b_low (twosBit1 twos b_low)
    else fin a b_ptr b_low 0

end Mpir.Gcd
