/-
  C17 — import/export, raw and text stream I/O.  Core Lean only (linked into the driver).

  Bytes are `Nat`s below 256 (`Bytes`), limbs are `Nat`s below `B`; the public specs are also given on
  `List UInt8`.  The host is little-endian (config.h: HAVE_LIMB_LITTLE_ENDIAN), so `endian = 0`
  resolves to -1 and the memory image of a limb is `leBytes 8`.

  Sections
    1. bytes, limb memory images, word primitives
    2. Mpz objects, streams (input `Stream`, fault-injecting output `OStream`)
    3. raw format: spec, mpz_out_raw (mpz/out_raw.c), mpz_inp_raw (mpz/inp_raw.c)
    4. mpz_export (mpz/export.c), mpz_import (mpz/import.c) + specs
    5. text streams: mpz/mpq/mpf out_str + inp_str, gmp_fprintf (spec and faithful chunk model)
-/
import Mpir.Base
namespace Mpir.Io
open Mpir

/-! ## 1. Bytes -/

/-- every entry is a byte -/
def Bytes (l : List Nat) : Prop := ∀ b ∈ l, b < 256
instance (l : List Nat) : Decidable (Bytes l) := by unfold Bytes; infer_instance

/-- the `n` low bytes of `v`, least significant first -/
def leBytes : Nat → Nat → List Nat
  | 0, _ => []
  | n + 1, v => v % 256 :: leBytes n (v / 256)

/-- the `n` low bytes of `v`, most significant first -/
def beBytes (n v : Nat) : List Nat := (leBytes n v).reverse

/-- little-endian value of a byte string -/
def leVal : List Nat → Nat
  | [] => 0
  | b :: bs => b + 256 * leVal bs

/-- big-endian value of a byte string -/
def beVal (l : List Nat) : Nat := leVal l.reverse

/-- number of significant bits (0 for 0) -/
def bitLen (v : Nat) : Nat := if v = 0 then 0 else v.log2 + 1

/-- number of significant bytes (0 for 0) -/
def byteLen (v : Nat) : Nat := (bitLen v + 7) / 8

/-- `count_leading_zeros` of a non-zero 64-bit limb (longlong.h; defined by its arithmetic meaning) -/
def clz (l : Nat) : Nat := 64 - bitLen l

/-- `BSWAP_LIMB`: reverse the 8 bytes of a limb -/
def bswap (l : Nat) : Nat := beVal (leBytes 8 l)

/-- host memory image of a limb vector (little-endian limbs) -/
def limbsToBytes (d : List Nat) : List Nat := d.flatMap (leBytes 8)

/-- limb vector stored in a byte string whose length is a multiple of 8 -/
def bytesToLimbs : List Nat → List Nat
  | b0 :: b1 :: b2 :: b3 :: b4 :: b5 :: b6 :: b7 :: rest =>
      leVal [b0, b1, b2, b3, b4, b5, b6, b7] :: bytesToLimbs rest
  | _ => []

/-- store `data` at byte offset `off` of the memory image `m` (`off + data.length ≤ m.length`) -/
def overwrite (m : List Nat) (off : Nat) (data : List Nat) : List Nat :=
  m.take off ++ data ++ m.drop (off + data.length)

def toU8 (l : List Nat) : List UInt8 := l.map UInt8.ofNat
def ofU8 (l : List UInt8) : List Nat := l.map UInt8.toNat

/-! ## 2. Objects and streams -/

/-- an `__mpz_struct`: `d` is the whole allocated limb array -/
structure Mpz where
  alloc : Nat
  size : Int
  d : List Nat
  deriving Repr, DecidableEq

namespace Mpz
def abssize (z : Mpz) : Nat := z.size.natAbs
/-- the limbs covered by `SIZ` -/
def limbs (z : Mpz) : List Nat := z.d.take z.abssize
def toInt (z : Mpz) : Int := if z.size < 0 then -(val z.limbs : Int) else (val z.limbs : Int)
/-- well formed: allocation holds the size, limbs are limbs, top limb non-zero -/
def WF (z : Mpz) : Prop :=
  z.d.length = z.alloc ∧ z.abssize ≤ z.alloc ∧ Limbs z.d ∧
  (z.size ≠ 0 → z.d.getD (z.abssize - 1) 0 ≠ 0)
instance (z : Mpz) : Decidable z.WF := by unfold WF; infer_instance
/-- canonical object of an integer with exactly the needed allocation (at least one limb) -/
def ofInt (x : Int) : Mpz :=
  let l := natLimbs x.natAbs
  { alloc := max l.length 1,
    size := if x < 0 then -(l.length : Int) else (l.length : Int),
    d := l ++ List.replicate (max l.length 1 - l.length) 0 }
end Mpz

/-- `MPZ_REALLOC (x, n)` / `_mpz_realloc` (mpz/realloc.c:28): grows the limb array; the new limbs are
    whatever the allocator hands back (`junk i`, arbitrary) -/
def mpz_realloc (x : Mpz) (n : Nat) (junk : Nat → Nat) : Mpz :=
  if n > x.alloc then
    let na := max n 1
    { alloc := na,
      d := x.d ++ (List.range (na - x.alloc)).map junk,
      size := if x.size.natAbs > na then 0 else x.size }
  else x

/-- An input stream: the bytes of the file and, optionally, the position after which the stream
    ends early (`readLimit = some k`: only the first `k` bytes can be read, then EOF). -/
structure Stream where
  bytes : List Nat
  readLimit : Option Nat := none

/-- what can actually be read -/
def Stream.avail (s : Stream) : List Nat :=
  match s.readLimit with
  | none => s.bytes
  | some k => s.bytes.take k

/-- `fread (buf, n, 1, fp)` on the readable remainder: success flag, the bytes stored into `buf`
    (a short read stores what it got), the remainder -/
def fread (r : List Nat) (n : Nat) : Bool × List Nat × List Nat :=
  if n ≤ r.length then (true, r.take n, r.drop n) else (false, r, [])

def getc : List Nat → Option Nat × List Nat
  | [] => (none, [])
  | c :: r => (some c, r)

/-- `ungetc (c, fp)`: pushing back EOF does nothing -/
def ungetc (c : Option Nat) (r : List Nat) : List Nat :=
  match c with
  | none => r
  | some c => c :: r

/-- An unbuffered output stream over an arbitrary sink.  `sink pos n` is the number of bytes the sink accepts of
    a write call of `n` bytes issued when `pos` bytes had been handed to the stream before (capped at `n`): any
    prefix of any write call may be all that gets through (a short write: full disk, closed pipe, failing
    callback).  `pos` counts the bytes the caller tried to write, `out` is what the sink took, `err` is the sticky
    error indicator (`ferror`), set by every short write, `fired` the number of short write calls. -/
structure OStream where
  out : List Nat := []
  pos : Nat := 0
  sink : Nat → Nat → Nat := fun _ n => n
  err : Bool := false
  fired : Nat := 0

/-- one `fwrite (p, 1, n, fp)` / `fputc` / `fprintf` on an unbuffered stream = one write call; returns the
    stream and the number of bytes written (glibc: a cookie/`write` result below `n` sets the error flag and the
    short count is what `fwrite` returns) -/
def OStream.write (s : OStream) (chunk : List Nat) : OStream × Nat :=
  if chunk.isEmpty then (s, 0) else
  let a := min (s.sink s.pos chunk.length) chunk.length
  ({ s with out := s.out ++ chunk.take a, pos := s.pos + chunk.length,
            err := s.err || decide (a < chunk.length),
            fired := s.fired + (if a < chunk.length then 1 else 0) }, a)

/-- the harness's failing sink (harness/ops_io.c `wr_write`): the write call containing byte `k` accepts the bytes
    in front of `k` (nothing if `k` is its first byte), every later call accepts nothing -/
def sinkFailAt (k : Nat) : Nat → Nat → Nat :=
  fun pos n => if k < pos then 0 else if k < pos + n then k - pos else n

/-- a one-shot fault: the write call containing byte `k` is cut short in front of `k`, later calls go through
    again (catches code that looks at the last return value only and forgets the sticky error indicator) -/
def sinkOnceAt (k : Nat) : Nat → Nat → Nat :=
  fun pos n => if pos ≤ k ∧ k < pos + n then k - pos else n

/-- stream with the fault of the harness at byte `k` (`none`: healthy) -/
def OStream.failing (k : Option Nat) : OStream :=
  match k with
  | none => {}
  | some k => { sink := sinkFailAt k }

/-! ## 3. Raw format -/

/-- 4-byte big-endian two's complement of a byte count (`bp[-4] = bytes >> 24; …` out_raw.c:141) -/
def hdrBytes (n : Int) : List Nat := beBytes 4 (n % 4294967296).toNat

/-- SPEC of the raw format: header = signed byte count, then the magnitude big-endian without
    leading zero bytes -/
def outRawBytes (x : Int) : List Nat :=
  let n := byteLen x.natAbs
  hdrBytes (if x < 0 then -(n : Int) else n) ++ beBytes n x.natAbs

def outRawSpec (x : Int) : List UInt8 := toU8 (outRawBytes x)

/-- `mpz_out_raw_m` (out_raw.c:59): the bytes handed to `fwrite` -/
def out_raw_m (x : Mpz) : List Nat :=
  let xsize := x.size
  let abs_xsize := x.size.natAbs
  let bytes := (abs_xsize * 64 + 7) / 8
  let (data, bytes) :=
    if bytes ≠ 0 then
      let xp := x.d.take abs_xsize
      -- do { bp -= 8; HTON_LIMB_STORE (bp, *xp); xp++; } while (--i > 0);   (out_raw.c:83)
      let buf := xp.foldl (fun buf xlimb => beBytes 8 xlimb ++ buf) []
      let xlimb := xp.getLastD 0
      -- strip high zero bytes: count_leading_zeros (zeros, xlimb); zeros /= 8;  (out_raw.c:93)
      let zeros := clz xlimb / 8
      (buf.drop zeros, bytes - zeros)
    else ([], 0)
  -- twos complement negative for the size value (out_raw.c:136)
  let sbytes : Int := if xsize ≥ 0 then (bytes : Int) else -(bytes : Int)
  hdrBytes sbytes ++ data

/-- `mpz_out_raw` (out_raw.c:152): one `fwrite` of everything; 0 if it did not go through -/
def mpz_out_raw (s : OStream) (x : Mpz) : Nat × OStream :=
  let w := out_raw_m x
  let (s', n) := s.write w
  (if n ≠ w.length then 0 else w.length, s')

/-- the fields of `mpir_out_struct` used on the input side -/
structure RawInfo where
  written : Nat         -- byte offset of the read area in the limb array: (char*)(xp+abs_xsize) - abs_csize
  writtenSize : Nat     -- abs_csize
  allocatedSize : Nat   -- abs_xsize
  deriving Repr

/-- header decode with sign extension (inp_raw.c:72-85) -/
def csizeOf (h : List Nat) : Int :=
  -- (b0 << 24) + (b1 << 16) + (b2 << 8) + b3, written in Horner form (products with huge literals make
  -- the Lean kernel unfold `Nat.mul` millions of times when it has to evaluate a stuck `if`)
  let c : Nat := ((h.getD 0 0 * 256 + h.getD 1 0) * 256 + h.getD 2 0) * 256 + h.getD 3 0
  if c / 2147483648 % 2 = 1 then (c : Int) - 4294967296 else (c : Int)

/-- `mpz_inp_raw_p` (inp_raw.c:64): decode the header, reallocate, and — before any data is read —
    set `SIZ (x)` to the announced size -/
def inp_raw_p (x : Mpz) (h : List Nat) (junk : Nat → Nat) : Mpz × RawInfo :=
  let csize := csizeOf h
  let abs_csize := csize.natAbs
  let abs_xsize := (abs_csize * 8 + 63) / 64
  let (x1, off) :=
    if abs_xsize ≠ 0 then
      let x1 := mpz_realloc x abs_xsize junk
      -- xp[0] = 0;   (inp_raw.c:98)
      ({ x1 with d := x1.d.set 0 0 }, 8 * abs_xsize - abs_csize)
    else (x, 0)
  ({ x1 with size := if csize ≥ 0 then (abs_xsize : Int) else -(abs_xsize : Int) },
   { written := off, writtenSize := abs_csize, allocatedSize := abs_xsize })

/-- the in-place loop `NTOH (elimb, ep); NTOH (slimb, sp); *sp++ = elimb; *ep-- = slimb`
    (inp_raw.c:122): `sp` walks up from the first limb, `ep` down from the last -/
def revSwap (l : List Nat) : List Nat :=
  match l with
  | [] => []
  | [x] => [bswap x]
  | x :: y :: r =>
      bswap ((y :: r).getLast (by simp)) :: revSwap (y :: r).dropLast ++ [bswap x]
termination_by l.length
decreasing_by simp; omega

/-- `MPN_NORMALIZE`: the size after stripping high zero limbs -/
def normSize (l : List Nat) : Nat := (normalize l).length

/-- `mpz_inp_raw_m` (inp_raw.c:106): reverse limbs + byte swap, normalise, restore the sign -/
def inp_raw_m (x : Mpz) (info : RawInfo) : Mpz :=
  let abs_xsize := info.allocatedSize
  let xp := revSwap (x.d.take abs_xsize)
  let n := normSize xp
  { x with d := xp ++ x.d.drop abs_xsize, size := if x.size ≥ 0 then (n : Int) else -(n : Int) }

/-- `mpz_inp_raw` (inp_raw.c:173) on the readable remainder `r`.  `fixed = true` is the code after
    commit 23eb012 (`SIZ (x) = 0` on a short read of the limb data), `false` the code before. -/
def inp_raw_rd (fixed : Bool) (x : Mpz) (r : List Nat) (junk : Nat → Nat) : Nat × Mpz × List Nat :=
  -- 4 bytes for size
  let (ok, h, r1) := fread r 4
  if !ok then (0, x, r1) else
  let (x1, info) := inp_raw_p x h junk
  if info.writtenSize ≠ 0 then
    let (ok2, data, r2) := fread r1 info.writtenSize
    -- fread stores what it got at out->written, inside the limb array
    let x2 := { x1 with d := bytesToLimbs (overwrite (limbsToBytes x1.d) info.written data) }
    if !ok2 then
      (0, if fixed then { x2 with size := 0 } else x2, r2)
    else (info.writtenSize + 4, inp_raw_m x2 info, r2)
  else (info.writtenSize + 4, x1, r1)

def mpz_inp_raw (x : Mpz) (s : Stream) (junk : Nat → Nat) : Nat × Mpz × List Nat :=
  inp_raw_rd true x s.avail junk

/-- the code as it was before the fix (kept to document why the fix matters) -/
def mpz_inp_raw_unfixed (x : Mpz) (s : Stream) (junk : Nat → Nat) : Nat × Mpz × List Nat :=
  inp_raw_rd false x s.avail junk

/-! ## 4. Export / import -/

/-- split into `c` chunks of `size` bytes -/
def chunks (size : Nat) : Nat → List Nat → List (List Nat)
  | 0, _ => []
  | c + 1, l => l.take size :: chunks size c (l.drop size)

/-- where the words go: `dp` starts at the least significant byte of the least significant word,
    steps by `-endian` inside a word and by `woffset` to the next word (export.c:129-137).
    `words` are least significant first, bytes least significant first; `endian` is already resolved. -/
def layout (order endian : Int) (words : List (List Nat)) : List Nat :=
  let ws := words.map (fun w => if endian ≥ 0 then w.reverse else w)
  (if order ≥ 0 then ws.reverse else ws).flatten

/-- inverse of `layout` on the reading side (import.c:110-116) -/
def unlayout (order endian : Int) (size count : Nat) (data : List Nat) : List (List Nat) :=
  let ws := chunks size count data
  (if order ≥ 0 then ws.reverse else ws).map (fun w => if endian ≥ 0 then w.reverse else w)

/-- the same placement done literally with the C pointer arithmetic, used by the driver to
    cross-check `layout` on every op -/
def layoutPtr (order endian : Int) (size count : Nat) (words : List (List Nat)) : List Nat :=
  let woffset : Int := (if endian ≥ 0 then (size : Int) else -(size : Int))
                     + (if order < 0 then (size : Int) else -(size : Int))
  let dp0 : Int := (if order ≥ 0 then ((count : Int) - 1) * size else 0) + (if endian ≥ 0 then (size : Int) - 1 else 0)
  let st := words.foldl (fun (st : Array Nat × Int) w =>
      let st' := w.foldl (fun (st : Array Nat × Int) b => (st.1.setIfInBounds st.2.toNat b, st.2 - endian)) st
      (st'.1, st'.2 + woffset)) (Array.replicate (count * size) 0xA7, dp0)
  st.1.toList

def unlayoutPtr (order endian : Int) (size count nbytes : Nat) (data : List Nat) : List (List Nat) :=
  let arr := data.toArray
  let woffset : Int := (if endian ≥ 0 then (nbytes : Int) else -(nbytes : Int))
                     + (if order < 0 then (size : Int) else -(size : Int))
  let dp0 : Int := (if order ≥ 0 then ((count : Int) - 1) * size else 0) + (if endian ≥ 0 then (size : Int) - 1 else 0)
  let st := (List.range count).foldl (fun (st : List (List Nat) × Int) _ =>
      let w := (List.range nbytes).map (fun (j : Nat) => arr.getD (st.2 - endian * (j : Int)).toNat 0)
      (w :: st.1, st.2 - endian * nbytes + woffset)) ([], dp0)
  st.1.reverse

/-- state of the `EXTRACT` macro: `limb` holds `lbits` not yet emitted bits, `zp` the unread limbs -/
structure XSt where
  limb : Nat
  lbits : Nat
  zp : List Nat
  deriving Repr

/-- `EXTRACT (N, MASK)` (export.c:139): `MASK` is `+ 0` with the store truncating to a byte (N = 8)
    or `& wbitsmask` (N = wbits < 8); both are `% 2^N` -/
def extract (N : Nat) (s : XSt) : Nat × XSt :=
  if s.lbits ≥ N then
    (s.limb % 2 ^ N, { s with limb := s.limb >>> N, lbits := s.lbits - N })
  else
    let newlimb := s.zp.headD 0           -- (zp == zend ? 0 : *zp++)
    ((s.limb ||| (newlimb <<< s.lbits) % B) % 2 ^ N,
     { limb := newlimb >>> (N - s.lbits), lbits := s.lbits + 64 - N, zp := s.zp.tail })

def extractN (N : Nat) : Nat → XSt → List Nat × XSt
  | 0, s => ([], s)
  | k + 1, s =>
      let (b, s1) := extract N s
      let (bs, s2) := extractN N k s1
      (b :: bs, s2)

/-- one iteration of the word loop (export.c:159-177): `wbytes` whole bytes, a partial byte of
    `wbits` bits, zero bytes up to `size`; bytes in emission order (least significant first) -/
def exportWord (size wbytes wbits : Nat) (s : XSt) : List Nat × XSt :=
  let (bs, s1) := extractN 8 wbytes s
  let (p, s2) := if wbits ≠ 0 then (let (b, s') := extract wbits s1; ([b], s')) else ([], s1)
  (bs ++ p ++ List.replicate (size - (wbytes + p.length)) 0, s2)

def exportWords (size wbytes wbits : Nat) : Nat → XSt → List (List Nat)
  | 0, _ => []
  | c + 1, s =>
      let (w, s') := exportWord size wbytes wbits s
      w :: exportWords size wbytes wbits c s'

/-- `MPN_SIZEINBASE_2EXP (count, zp, zsize, numb)` (gmp-impl.h:2728) -/
def sizeinbase2exp (zl : List Nat) (numb : Nat) : Nat :=
  let totbits := zl.length * 64 - clz (zl.getLastD 0)
  (totbits + numb - 1) / numb

/-- `mpz_export` (export.c:40) on the normalised limbs `zl` of `|z|`; `align` is the address of
    `data` modulo 8.  Returns `*countp` and the `count*size` bytes written. -/
def mpz_export_core (ptr : Bool) (order : Int) (size : Nat) (endian : Int) (nail : Nat) (align : Nat)
    (zl : List Nat) : Nat × List Nat :=
  if zl.isEmpty then (0, []) else
  let numb := 8 * size - nail
  let count := sizeinbase2exp zl numb
  let endian := if endian = 0 then (-1 : Int) else endian      -- HOST_ENDIAN
  if nail = 0 ∧ size = 8 ∧ align = 0 then
    let zc := zl.take count
    if order = -1 ∧ endian = -1 then (count, limbsToBytes zc)                         -- MPN_COPY
    else if order = 1 ∧ endian = -1 then (count, limbsToBytes zc.reverse)             -- MPN_REVERSE
    else if order = -1 ∧ endian = 1 then (count, zc.flatMap (beBytes 8))              -- MPN_BSWAP
    else (count, zc.reverse.flatMap (beBytes 8))                                      -- MPN_BSWAP_REVERSE
  else
    let wbytes := numb / 8
    let wbits := numb % 8
    let words := exportWords size wbytes wbits count { limb := 0, lbits := 0, zp := zl }
    (count, if ptr then layoutPtr order endian size count words else layout order endian words)

def mpz_export := mpz_export_core false
/-- the same with the literal pointer walk (cross-checked by the driver on every op) -/
def mpz_export_ptr := mpz_export_core true

/-- SPEC: word `i` (least significant first) of `x` with `numb` data bits -/
def wordOf (numb : Nat) (x : Nat) (i : Nat) : Nat := x / 2 ^ (numb * i) % 2 ^ numb

def exportCount (numb x : Nat) : Nat := (bitLen x + numb - 1) / numb

/-- SPEC of `mpz_export`: `count = ⌈bits/numb⌉` words of `size` bytes, nail bits zero -/
def exportBytes (order : Int) (size : Nat) (endian : Int) (nail : Nat) (x : Nat) : List Nat :=
  let numb := 8 * size - nail
  let endian := if endian = 0 then (-1 : Int) else endian
  layout order endian ((List.range (exportCount numb x)).map (fun i => leBytes size (wordOf numb x i)))

def exportSpec (order : Int) (size : Nat) (endian : Int) (nail : Nat) (x : Nat) : List UInt8 :=
  toU8 (exportBytes order size endian nail x)

/-- SPEC of `mpz_import`: Σ (word i mod 2^numb)·2^(numb·i) -/
def importValue (order : Int) (size : Nat) (endian : Int) (nail : Nat) (count : Nat) (data : List Nat) : Nat :=
  let numb := 8 * size - nail
  let endian := if endian = 0 then (-1 : Int) else endian
  let ws := unlayout order endian size count data
  ws.foldr (fun w acc => leVal w % 2 ^ numb + 2 ^ numb * acc) 0

def importSpec (order : Int) (size : Nat) (endian : Int) (nail : Nat) (count : Nat) (data : List UInt8) : Nat :=
  importValue order size endian nail count (ofU8 data)

/-- state of the `ACCUMULATE` macro; `out` holds the limbs already stored, most recent first -/
structure ASt where
  limb : Nat
  lbits : Nat
  out : List Nat
  deriving Repr

/-- `ACCUMULATE (N)` (import.c:118) -/
def accumulate (N : Nat) (byte : Nat) (s : ASt) : ASt :=
  let limb := s.limb ||| (byte <<< s.lbits) % B
  let lbits := s.lbits + N
  if lbits ≥ 64 then
    { out := limb :: s.out, lbits := lbits - 64, limb := byte >>> (N - (lbits - 64)) }
  else { s with limb := limb, lbits := lbits }

/-- one iteration of the word loop (import.c:137-152) on a word given least significant byte first -/
def importWord (wbytes wbits : Nat) (w : List Nat) (s : ASt) : ASt :=
  let s1 := (w.take wbytes).foldl (fun s byte => accumulate 8 byte s) s
  if wbits ≠ 0 then accumulate wbits (w.getD wbytes 0 % 2 ^ wbits) s1 else s1

/-- `mpz_import` (import.c:51-166): the `zsize` limbs stored at `zp` before `done:` — by one of the three fast
    paths (:60-90; `align` is the address of `data` modulo 8) or by the generic loop (:92-166) -/
def mpz_import_fill (ptr : Bool) (count : Nat) (order : Int) (size : Nat) (endian : Int) (nail : Nat)
    (align : Nat) (data : List Nat) : List Nat :=
  let numb := 8 * size - nail
  let endian := if endian = 0 then (-1 : Int) else endian
  if nail = 0 ∧ size = 8 ∧ align = 0 ∧ order = -1 ∧ endian = -1 then
    bytesToLimbs (data.take (8 * count))                                -- MPN_COPY
  else if nail = 0 ∧ size = 8 ∧ align = 0 ∧ order = -1 ∧ endian = 1 then
    (bytesToLimbs (data.take (8 * count))).map bswap                    -- MPN_BSWAP
  else if nail = 0 ∧ size = 8 ∧ align = 0 ∧ order = 1 ∧ endian = -1 then
    (bytesToLimbs (data.take (8 * count))).reverse                      -- MPN_REVERSE
  else
    let wbytes := numb / 8
    let wbits := numb % 8
    let ws := if ptr then unlayoutPtr order endian size count ((numb + 7) / 8) data
              else unlayout order endian size count data
    let s := ws.foldl (fun s w => importWord wbytes wbits w s) { limb := 0, lbits := 0, out := [] }
    let out := if s.lbits ≠ 0 then s.limb :: s.out else s.out
    out.reverse

/-- `mpz_import` (import.c:40): the normalised limbs of the result (`done:` MPN_NORMALIZE, :168-171, on every path) -/
def mpz_import_core (ptr : Bool) (count : Nat) (order : Int) (size : Nat) (endian : Int) (nail : Nat)
    (align : Nat) (data : List Nat) : List Nat :=
  let numb := 8 * size - nail
  let zsize := (count * numb + 63) / 64
  normalize ((mpz_import_fill ptr count order size endian nail align data).take zsize)

def mpz_import := mpz_import_core false
def mpz_import_ptr := mpz_import_core true

/-! ## 5. Text streams -/

/-- `isspace` in the C locale -/
def isspace (c : Nat) : Bool := c == 32 || (9 ≤ c && c ≤ 13)

/-- `__gmp_digit_value_tab` (mp_dv_tab.c): `big = false` the first 256 entries (letters case
    insensitive), `big = true` the part at offset 224 used for bases 37..62 -/
def digitValue (big : Bool) (c : Nat) : Nat :=
  if 48 ≤ c ∧ c ≤ 57 then c - 48
  else if 65 ≤ c ∧ c ≤ 90 then c - 65 + 10
  else if 97 ≤ c ∧ c ≤ 122 then (if big then c - 97 + 36 else c - 97 + 10)
  else 255

/-- `num_to_text[d]` as chosen by `mpz_out_str` / `mpf_get_str` for `base` (out_str.c:43-60) -/
def numToText (base : Int) (d : Nat) : Nat :=
  if base ≥ 0 then
    if base ≤ 36 then (if d < 10 then 48 + d else 97 + (d - 10))
    else (if d < 10 then 48 + d else if d < 36 then 65 + (d - 10) else 97 + (d - 36))
  else (if d < 10 then 48 + d else 65 + (d - 10))

def natDigitsAux (b : Nat) : Nat → Nat → List Nat → List Nat
  | 0, _, acc => acc
  | fuel + 1, n, acc => if n = 0 then acc else natDigitsAux b fuel (n / b) (n % b :: acc)

/-- SPEC of `mpn_get_str` without leading zeros: digits of `n` in base `b ≥ 2`, most significant
    first, `[]` for 0 -/
def natDigits (b n : Nat) : List Nat := natDigitsAux b (bitLen n) n []

/-- SPEC of `mpn_set_str`: Horner -/
def digitsVal (b : Nat) (ds : List Nat) : Nat := ds.foldl (fun a d => a * b + d) 0

def decText (n : Nat) : List Nat := if n = 0 then [48] else (natDigits 10 n).map (48 + ·)
/-- `%ld` -/
def intText (i : Int) : List Nat := if i < 0 then 45 :: decText i.natAbs else decText i.natAbs

/-- the base actually used and whether it is accepted (`base > 62` is rejected) -/
def outBase (base : Int) : Option Nat :=
  if base ≥ 0 then (if base = 0 then some 10 else if base > 62 then none else some base.toNat)
  else some (-base).toNat

/-- the characters `mpz_out_str` produces for a non-zero magnitude -/
def magText (base : Int) (b : Nat) (m : Nat) : List Nat := (natDigits b m).map (numToText base)

/-- `mpz_out_str` (mpz/out_str.c:28) at stream level -/
def mpz_out_str (s : OStream) (base : Int) (x : Int) : Nat × OStream :=
  match outBase base with
  | none => (0, s)
  | some b =>
    if x = 0 then
      let (s1, _) := s.write [48]                 -- fputc ('0', stream)
      (if s1.err then 0 else 1, s1)
    else
      let (s1, written) := if x < 0 then ((s.write [45]).1, 1) else (s, 0)    -- fputc ('-'); written = 1
      let (s2, fwret) := s1.write (magText base b x.natAbs)
      (if s2.err then 0 else written + fwret, s2)

/-- `mpq_out_str` (mpq/out_str.c:29) on the raw fields `num`, `den` -/
def mpq_out_str (s : OStream) (base : Int) (num den : Int) : Nat × OStream :=
  let (written, s1) := mpz_out_str s base num
  if den ≠ 1 then
    let (s2, _) := s1.write [47]                  -- putc ('/')
    let (w2, s3) := mpz_out_str s2 base den
    (if s3.err then 0 else written + (1 + w2), s3)
  else (if s1.err then 0 else written, s1)

/-- `mpf_out_str` (mpf/out_str.c:44) at stream level; `str` and `exp` are what `mpf_get_str`
    returned (digits at spec level: they are an input here) -/
def mpf_out_str (s : OStream) (base : Int) (str : List Nat) (exp : Int) : Int × OStream :=
  let base := if base = 0 then 10 else base
  let (s1, written, digs) :=
    if str.head? = some 45 then ((s.write [45]).1, 1, str.tail) else (s, 0, str)
  let (s2, _) := s1.write [48]                    -- putc ('0')
  let (s3, _) := s2.write [46]                    -- fwrite (point, 1, pointlen): "." in the C locale
  let written := written + 2
  let (s4, fwret) := s3.write digs
  -- the marker is chosen on |base| (out_str.c:103 with ABS (base)): 'e' is a digit above base 10
  let etext := (if base.natAbs ≤ 10 then 101 else 64) :: intText exp
  let (s5, n) := s4.write etext                   -- fprintf (stream, "e%ld" / "@%ld", exp)
  let fpret : Int := if n = etext.length then n else -1
  (if s5.err then 0 else (written + fwret : Nat) + fpret, s5)

/-- do { c = getc; nread++; } while (isspace (c)) -/
def skipWs : List Nat → Nat → Option Nat × List Nat × Nat
  | [], n => (none, [], n + 1)
  | c :: r, n => if isspace c then skipWs r (n + 1) else (some c, r, n + 1)

/-- while (c == '0') { c = getc; nread++; } -/
def skipZeros : Option Nat → List Nat → Nat → Option Nat × List Nat × Nat
  | some 48, [], n => (none, [], n + 1)
  | some 48, c :: r, n => skipZeros (some c) r (n + 1)
  | c, r, n => (c, r, n)

/-- the digit loop of `mpz_inp_str_nowhite` (inp_str.c:98): values of the digits read, the
    terminating character (EOF = none), the remainder -/
def readDigits (dv : Nat → Nat) (base : Nat) : Option Nat → List Nat → List Nat → List Nat × Option Nat × List Nat
  | none, r, acc => (acc.reverse, none, r)
  | some ch, r, acc =>
      if dv ch ≥ base then (acc.reverse, some ch, r) else
      match r with
      | [] => ((dv ch :: acc).reverse, none, [])
      | c' :: r' => readDigits dv base (some c') r' (dv ch :: acc)

/-- `mpz_inp_str_nowhite` (mpz/inp_str.c:35); `x` is the destination's value, untouched on failure -/
def mpz_inp_str_nowhite (x : Int) (r : List Nat) (base : Int) (c : Option Nat) (nread : Nat) :
    Nat × Int × List Nat :=
  let big := decide (base > 36)
  if base > 62 then (0, x, r) else
  let (negative, c, r, nread) :=
    if c = some 45 then (let (c', r') := getc r; (true, c', r', nread + 1)) else (false, c, r, nread)
  match c with
  | none => (0, x, r)
  | some ch =>
    if (digitValue big ch : Int) ≥ (if base = 0 then 10 else base) then (0, x, r) else
    -- base 0: look at the leading characters
    let (base, c, r, nread) : Nat × Option Nat × List Nat × Nat :=
      if base = 0 then
        if ch = 48 then
          let (c1, r1) := getc r
          if c1 = some 120 ∨ c1 = some 88 then (let (c2, r2) := getc r1; (16, c2, r2, nread + 2))
          else if c1 = some 98 ∨ c1 = some 66 then (let (c2, r2) := getc r1; (2, c2, r2, nread + 2))
          else (8, c1, r1, nread + 1)
        else (10, c, r, nread)
      else (base.toNat, c, r, nread)
    let (c, r, nread) := skipZeros c r nread
    let (ds, c, r) := readDigits (digitValue big) base c r []
    let nread := nread + ds.length
    let r := ungetc c r
    let nread := nread - 1
    let v : Int := if ds.isEmpty then 0 else
      (if negative then -(digitsVal base ds : Int) else (digitsVal base ds : Int))
    (nread, v, r)

/-- `mpz_inp_str` (mpz/inp_str.c:143) -/
def mpz_inp_str_rd (x : Int) (r : List Nat) (base : Int) : Nat × Int × List Nat :=
  let (c, r1, nread) := skipWs r 0
  mpz_inp_str_nowhite x r1 base c nread

def mpz_inp_str (x : Int) (s : Stream) (base : Int) : Nat × Int × List Nat :=
  mpz_inp_str_rd x s.avail base

/-- `mpq_inp_str` (mpq/inp_str.c:29) on the raw fields (no canonicalisation is done by the C) -/
def mpq_inp_str_rd (q : Int × Int) (r : List Nat) (base : Int) : Nat × (Int × Int) × List Nat :=
  let q := (q.1, (1 : Int))                        -- q->_mp_den = 1 first
  let (nread, num, r1) := mpz_inp_str_rd q.1 r base
  if nread = 0 then (0, q, r1) else
  let (c, r2) := getc r1
  let nread := nread + 1
  if c = some 47 then
    let (c', r3) := getc r2
    let nread := nread + 1
    let (nread', den, r4) := mpz_inp_str_nowhite 1 r3 base c' nread
    if nread' = 0 then (0, (0, 1), r4) else (nread', (num, den), r4)
  else (nread - 1, (num, 1), ungetc c r2)

def mpq_inp_str (q : Int × Int) (s : Stream) (base : Int) : Nat × (Int × Int) × List Nat :=
  mpq_inp_str_rd q s.avail base

/-- the collecting loop of `mpf_inp_str` (mpf/inp_str.c:58): for (;;) { if (c == EOF || isspace (c)) break; … } -/
def readToken : Option Nat → List Nat → List Nat → List Nat × Option Nat × List Nat
  | none, r, acc => (acc.reverse, none, r)
  | some ch, r, acc =>
      if isspace ch then (acc.reverse, some ch, r) else
      match r with
      | [] => ((ch :: acc).reverse, none, [])
      | c' :: r' => readToken (some c') r' (ch :: acc)

/-- `mpf_inp_str` (mpf/inp_str.c:29) at stream level: the string handed to `mpf_set_str`, the
    value returned when `mpf_set_str` accepts it, the remainder -/
def mpf_inp_str_scan (r : List Nat) : List Nat × Nat × List Nat :=
  let (c, r1, nread) := skipWs r 0
  let (tok, c, r2) := readToken c r1 []
  (tok, tok.length + (nread - 1), ungetc c r2)

/-- `mpf_inp_str` given `mpf_set_str`'s verdict `res` on the token -/
def mpf_inp_str_ret (r : List Nat) (res : Int) : Nat :=
  if res = -1 then 0 else (mpf_inp_str_scan r).2.1

/-- the bytes `gmp_fprintf (fp, "<pre>%<width>Z{d,x}<post>", x)` produces -/
def fprintfText (pre : List Nat) (width : Nat) (base : Nat) (x : Int) (post : List Nat) : List Nat :=
  let digs := if x = 0 then [48] else magText base base x.natAbs
  let body := (if x < 0 then [45] else []) ++ digs
  pre ++ List.replicate (width - body.length) 32 ++ body ++ post

/-- SPEC (manual: "Return the number of characters written, or -1 if an error occurred"; property
    C17: -1 when a write fails at any byte) -/
def gmpFprintfSpec (k : Option Nat) (pre : List Nat) (width base : Nat) (x : Int) (post : List Nat) : Int × Nat :=
  let t := fprintfText pre width base x post
  match k with
  | some k => if k < t.length then (-1, 1) else (t.length, 0)
  | none => (t.length, 0)

/-- `gmp_fprintf_reps` (printf/printffuns.c:56): pieces of at most 256 bytes.  `fixed = true` is the
    code after commit 3cf1b4a (`if (ret != piece) return -1`); before it `fwrite`'s result was
    compared with -1, which it never is, so the function always reported `reps`. -/
def fprintfReps (fixed : Bool) (s : OStream) (c reps : Nat) : OStream × Int :=
  let rec go (fuel : Nat) (i : Nat) (s : OStream) : OStream × Bool :=
    match fuel with
    | 0 => (s, true)
    | fuel + 1 => if i = 0 then (s, true) else
        let piece := min i 256
        let (s', n) := s.write (List.replicate piece c)
        if fixed ∧ n ≠ piece then (s', false) else go fuel (i - piece) s'
  let (s', ok) := go (reps / 256 + 1) reps s
  (s', if ok then (reps : Int) else -1)

/-- `gmp_fprintf_memory` (printf/printffuns.c:47): after the fix a short `fwrite` count is -1,
    before it the short count itself was returned -/
def fprintfMemory (fixed : Bool) (s : OStream) (t : List Nat) : OStream × Int :=
  let (s', n) := s.write t
  (s', if fixed ∧ n ≠ t.length then -1 else (n : Int))

/-- `DOPRNT_FORMAT`: literal text goes through `vfprintf` (`doprnt_format_t`), which reports −1 when the
    write fails -/
def fprintfFormat (s : OStream) (t : List Nat) : OStream × Int :=
  let (s', n) := s.write t
  (s', if n = t.length then (n : Int) else -1)

/-- FAITHFUL model of the same call through `__gmp_doprnt` / `__gmp_doprnt_integer`
    (printf/doprnt.c, doprnti.c) with `__gmp_fprintf_funs`: literal text goes through `vfprintf`
    (reports -1), padding and sign through `gmp_fprintf_reps`, digits through
    `gmp_fprintf_memory`; `DOPRNT_ACCUMULATE` bails out with -1 on the first -1. -/
def gmpFprintfModel (fixed : Bool) (s : OStream) (pre : List Nat) (width base : Nat) (x : Int)
    (post : List Nat) : Int × OStream :=
  let digs := if x = 0 then [48] else magText base base x.natAbs
  let signlen := if x < 0 then 1 else 0
  let justlen : Int := (width : Int) - (digs.length + signlen)
  -- FLUSH (): DOPRNT_FORMAT (last_fmt) only when there is text before the conversion
  let (s1, r1) := if pre.isEmpty then (s, (0 : Int)) else fprintfFormat s pre
  if r1 = -1 then (-1, s1) else
  let (s2, r2) := if justlen > 0 then fprintfReps fixed s1 32 justlen.toNat else (s1, 0)
  if r2 = -1 then (-1, s2) else
  let (s3, r3) := if signlen ≠ 0 then fprintfReps fixed s2 45 1 else (s2, 0)
  if r3 = -1 then (-1, s3) else
  let (s4, r4) := fprintfMemory fixed s3 digs       -- DOPRNT_MEMORY (s, slen)
  if r4 = -1 then (-1, s4) else
  let (s5, r5) := if post.isEmpty then (s4, (0 : Int)) else fprintfFormat s4 post
  if r5 = -1 then (-1, s5) else
  (r1 + r2 + r3 + r4 + r5, s5)

end Mpir.Io
