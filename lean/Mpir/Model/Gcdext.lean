/-
  C07 — the cofactor layer with its size bookkeeping.  Core Lean only.

  Mirrors (x86_64 build, 64-bit limbs, no nails; file:line cited at each definition)
    mpn/generic/gcdext_lehmer.c     mpn_gcdext_hook, mpn_gcdext_lehmer_n
    mpn/generic/gcdext.c            hgcd_mul_matrix_vector, compute_v, mpn_gcdext

  A limb array {p, n} is its value (a natural below B^n), a size field is a natural, `*usize` an integer.
  The cofactor buffers u0, u1, u2 have `ualloc` limbs and are zero above `un`; every carry limb the C stores
  is kept, so the values are exact — what can go wrong is a store outside a buffer.  The models therefore
  carry a flag `ok` that is cleared by any store at an index ≥ the buffer size; "ok = true" is a theorem
  (MpirProofs/Props/C07_gcdext.lean), i.e. the C's `ASSERT (un < ualloc)` are proved, not assumed.
  mpn_gcd_subdiv_step with s = 0 is `Mpir.Gcd.subdivStep` (the hook calls it makes, in order); mpn_hgcd2,
  mpn_gcdext_1, mpn_matrix22_mul1_inverse_vector, mpn_hgcd_mul_matrix1_vector, mpn_hgcd and
  mpn_hgcd_matrix_adjust are the models of Mpir/Model/Gcd.lean and Mpir/Model/Hgcd.lean.
-/
import Mpir.Base
import Mpir.Model.Gcd
import Mpir.Model.Hgcd
namespace Mpir.Gcdext
open Mpir Mpir.Gcd Mpir.Hgcd

/-- the fields of struct gcdext_ctx (gmp-impl.h:3829) that change: the cofactors u0, u1 (values of the
    `ualloc`-limb buffers) and their common size un; `ok` = no store outside a buffer so far. -/
structure Ctx where
  u0 : Nat
  u1 : Nat
  un : Nat
  ok : Bool
  deriving Repr, BEq, DecidableEq

/-- what a call leaves in {gp, gn}, {up, |*usize|}, *usize -/
structure Fin where
  g : Nat
  gn : Nat
  usize : Int
  up : Nat
  ok : Bool
  deriving Repr, BEq, DecidableEq

/-- the signed cofactor a result stands for -/
def Fin.S (r : Fin) : Int := if r.usize < 0 then -(r.up : Int) else r.up

/-- mpn_gcdext_hook with gp != NULL (gcdext_lehmer.c:34-61) and the identical code at
    gcdext_lehmer.c:251-266 / gcdext.c:415-433 (d = -1): store g, choose the cofactor
    (d < 0: MPN_CMP (c, u0, u1, un); d = c < 0), MPN_NORMALIZE, *usize = d ? -un : un. -/
def hookG (c : Ctx) (g gn : Nat) (d : Int) : Fin :=
  let d1 : Bool := if d < 0 then decide (c.u0 < c.u1) else decide (d ≠ 0)   -- :44-53
  let up := if d1 then c.u0 else c.u1                                         -- :55
  let un := nlimbs up                                                         -- :57 MPN_NORMALIZE (up, un)
  ⟨g, gn, if d1 then -(un : Int) else un, up, c.ok⟩                           -- :58-60

/-- mpn_gcdext_hook with gp == NULL (gcdext_lehmer.c:62-126) after the MP_PTR_SWAP: t = the cofactor that
    is updated (the C's local u0), s = the one multiplied (local u1); returns (new t, new un, ok).
    {qp, qn} comes from mpn_tdiv_qr (at most the top limb is zero), so after `qn -= (qp[qn-1] == 0)`
    qn = nlimbs q.  Stores: mpn_mul into ctx->tp (u1n + qn limbs of a ualloc-limb buffer), u0[un] = cy. -/
def updQ (ualloc t s un : Nat) (ok : Bool) (q : Nat) : Nat × Nat × Bool :=
  if nlimbs q = 1 then                                            -- :73, :76
    let x := t + q * s                                            -- :80-84 cy = mpn_add_n / mpn_addmul_1 (un limbs)
    (x, if x / B ^ un ≠ 0 then un + 1 else un,                    -- :124-125 u0[un] = cy; ctx->un = un + (cy > 0)
        ok && decide (un < ualloc))
  else
    let u1n := nlimbs s                                           -- :91-92 MPN_NORMALIZE (u1, u1n)
    if u1n = 0 then (t, un, ok)                                   -- :94-95 return
    else
      let tp := q * s                                             -- :106-109 mpn_mul (tp, ...): u1n + qn limbs
      let tn := nlimbs tp                                         -- :111-112 u1n += qn; u1n -= tp[u1n-1] == 0
      let un' := if tn ≥ un then tn else un                       -- :114-121 cy = mpn_add (u0, ...)
      let x := t + tp
      (x, if x / B ^ un' ≠ 0 then un' + 1 else un',               -- :124-125
        ok && decide (u1n + nlimbs q ≤ ualloc) && decide (un' < ualloc))

/-- mpn_gcdext_hook with gp == NULL: u0 += q·u1, roles exchanged if d (:70 MP_PTR_SWAP (u0, u1)). -/
def hookQS (ualloc : Nat) (c : Ctx) (qd : Nat × Bool) : Ctx :=
  if qd.2 then
    let r := updQ ualloc c.u1 c.u0 c.un c.ok qd.1
    ⟨c.u0, r.1, r.2.1, r.2.2⟩
  else
    let r := updQ ualloc c.u0 c.u1 c.un c.ok qd.1
    ⟨r.1, c.u1, r.2.1, r.2.2⟩

/-- the `while (n >= 2)` loop of mpn_gcdext_lehmer_n (gcdext_lehmer.c:175-238); `inr` = returned from
    inside (`return ctx.gn`), `inl` = fell out with n = 1. -/
def lehmerLoopS (ualloc : Nat) : Nat → Nat → Nat → Nat → Ctx → (Nat × Nat × Ctx) ⊕ Fin
  | 0, a, b, _, c => .inl (a, b, c)
  | f + 1, a, b, n, c =>
      if n ≥ 2 then
        let (ah, al, bh, bl) := top2 a b n                         -- :181-210
        match hgcd2 ah al bh bl with                               -- :213
        | some m =>
            let v := mul1InvVec m a b n                            -- :215 n = mpn_matrix22_mul1_inverse_vector
            let w := mulMatrix1Vector m c.u0 c.u1 c.un             -- :217 un = mpn_hgcd_mul_matrix1_vector (&M, u2, u0, u1, un)
            lehmerLoopS ualloc f v.1 v.2.1 v.2.2 ⟨w.1, w.2.1, w.2.2, c.ok && decide (c.un < ualloc)⟩   -- rp[n], bp[n] stored
        | none =>
            let r := subdivStep a b                                -- :232 mpn_gcd_subdiv_step (.., 0, mpn_gcdext_hook, &ctx, tp)
            let c := r.qs.foldl (hookQS ualloc) c
            match r.fin with
            | some (g, d) => .inr (hookG c g (nlimbs g) d)         -- :233-234 return ctx.gn
            | none => lehmerLoopS ualloc f r.a r.b r.n c           -- :236 un = ctx.un
      else .inl (a, b, c)

/-- gcdext_lehmer.c:239-325: the single-limb endgame.  `upn` = limbs available at up. -/
def lehmerFinS (upn a b : Nat) (c : Ctx) : Fin :=
  if a = 0 ∨ b = 0 then ⟨0, 0, 0, 0, false⟩                        -- :239-240 ASSERT_ALWAYS (ap[0] > 0), (bp[0] > 0): abort
  else if a = b then hookG c a 1 (-1)                              -- :242-268 (same code as the hook with d = -1); return 1
  else
    let (g, u, v) := gcdext_1 a b                                  -- :276
    if u = 0 then ⟨g, 1, -(nlimbs c.u0 : Int), c.u0, c.ok⟩         -- :281-288 ASSERT (v == 1)
    else if v = 0 then ⟨g, 1, nlimbs c.u1, c.u1, c.ok⟩             -- :289-296 ASSERT (u == 1)
    else
      let negate := decide (¬ u > 0)                               -- :297-308
      let ul := ((if u > 0 then u else -u) % (B : Int)).toNat      --   u resp. u = -u as mp_limb_t
      let vl := ((if u > 0 then -v else v) % (B : Int)).toNat      --   v = -v resp. v
      -- :310-319 uh = mpn_mul_1 (up, u1, un, u); vh = mpn_addmul_1 (up, u0, un, v);
      --          if ((uh | vh) > 0) { uh += vh; up[un++] = uh; if (uh < vh) up[un++] = 1; }
      -- uh + vh < 2B and the carry out of the limb sum is stored: the value is exact; the stores are at
      -- indices below the final normalised size
      let x := ul * c.u1 + vl * c.u0
      let un := nlimbs x                                           -- :321 MPN_NORMALIZE_NOT_ZERO (up, un)
      ⟨g, 1, if negate then -(un : Int) else un, x, c.ok && decide (un ≤ upn)⟩   -- :323-324

/-- mpn_gcdext_lehmer_n (gp, up, usize, ap, bp, n, tp) (gcdext_lehmer.c:134): ualloc = n + 1, u0 = 0, u1 = 1, un = 1. -/
def lehmerNS (a b n : Nat) : Fin :=
  match lehmerLoopS (n + 1) (a + b + 1) a b n ⟨0, 1, 1, true⟩ with
  | .inr r => r
  | .inl (a', b', c) => lehmerFinS n a' b' c

/-! ## gcdext.c -/

/-- hgcd_mul_matrix_vector (gcdext.c:29): (r; b) := (a; b)·M as a row vector, r = u00·a + u10·b,
    b = u01·a + u11·b; a, b of n limbs, the products of n + M->n limbs, the carries of the two additions
    stored in limb n + M->n (when one of them is set), otherwise normalised downwards. -/
def mulMatrixVector (M : HM) (a b n : Nat) : Nat × Nat × Nat :=
  let r := M.e00 * a + M.e10 * b                                  -- :46-57 ah = mpn_add_n (rp, rp, tp, n + M->n)
  let b' := M.e11 * b + M.e01 * a                                 -- :59-69 bh
  let n := n + M.n                                                -- :71
  if r / B ^ n ≠ 0 ∨ b' / B ^ n ≠ 0 then (r, b', n + 1)           -- :72-77 rp[n] = ah; bp[n] = bh; n++
  else (r, b', max (nlimbs r) (nlimbs b'))                        -- :81-82 while ((rp[n-1] | bp[n-1]) == 0) n--

/-- compute_v (gcdext.c:93): |v| = |g - u·a| / b for the cofactor {up, usize} ≠ 0; returns (v, vn).
    The two ASSERT_NOCARRY are modelled as reductions modulo the area size; mpn_divexact as the
    quotient (it is specified only when b divides — that it does is part of the theorem). -/
def computeV (a b g : Nat) (up : Nat) (usize : Int) : Nat × Nat :=
  let size := usize.natAbs                                        -- :109
  let an := nlimbs a                                              -- :113-114
  let t := a * up                                                 -- :117-120 mpn_mul: size + an limbs
  let size := size + an                                           -- :122
  let div (t size : Nat) : Nat × Nat :=
    let bn := nlimbs b                                            -- :142-143
    let vn := size + 1 - bn                                       -- :146
    let v := t / b                                                -- :149 mpn_divexact (vp, tp, size, bp, bn)
    (v, if limbAt v (vn - 1) = 0 then vn - 1 else vn)             -- :150
  if usize > 0 then
    let t := (t + B ^ size - g) % B ^ size                        -- :128 ASSERT_NOCARRY (mpn_sub (tp, tp, size, gp, gn))
    let size := nlimbs t                                          -- :129 MPN_NORMALIZE (tp, size)
    if size = 0 then (0, 0)                                       -- :130-131
    else div t size
  else
    let t := (t + g) % B ^ size                                   -- :137 ASSERT_NOCARRY (mpn_add (tp, tp, size, gp, gn))
    div t (if limbAt t (size - 1) = 0 then size - 1 else size)    -- :138

/-- state of the divide-and-conquer part of mpn_gcdext: current numbers, their size, the cofactors -/
structure DcState where
  a : Nat
  b : Nat
  n : Nat
  c : Ctx
  deriving Repr

/-- one mpn_gcd_subdiv_step with the gcdext hook (gcdext.c:313-330, 370-385) -/
def dcSubdiv (ualloc : Nat) (s : DcState) : DcState ⊕ Fin :=
  let r := subdivStep s.a s.b
  let c := r.qs.foldl (hookQS ualloc) s.c
  match r.fin with
  | some (g, d) => .inr (hookG c g (nlimbs g) d)                  -- n == 0: return ctx.gn
  | none => .inl ⟨r.a, r.b, r.n, c⟩                               -- un = ctx.un

/-- the first hgcd round, p = CHOOSE_P_1 (n) = n/2 (gcdext.c:280-331): no cofactor update, the second
    row of M becomes (u0, u1). -/
def dcFirst (hg : Nat → Nat → Nat → HM → StepRes) (ualloc : Nat) (a b n : Nat) : DcState ⊕ Fin :=
  let p := n / 2                                                  -- :289
  let r := hg (n - p) (a / B ^ p) (b / B ^ p) (matInit (n - p))   -- :292-293
  let a1 := a % B ^ p + B ^ p * r.a
  let b1 := b % B ^ p + B ^ p * r.b
  if r.ret > 0 then
    let adj := matAdjust r.M (p + r.ret) a1 b1 p                  -- :300
    let un := max (nlimbs r.M.e10) (nlimbs r.M.e11)               -- :302-306 MPN_COPY; while ((u0[un-1] | u1[un-1]) == 0) un--
    .inl ⟨adj.2.1, adj.2.2, adj.1, ⟨r.M.e10, r.M.e11, un, decide (r.M.n ≤ ualloc)⟩⟩
  else dcSubdiv ualloc ⟨a1, b1, n, ⟨0, 1, 1, true⟩⟩               -- :313-330 u1[0] = 1; ctx.un = 1

/-- the loop `while (ABOVE_THRESHOLD (n, GCDEXT_DC_THRESHOLD))` (gcdext.c:333-386), p = CHOOSE_P_2 (n) = n/3. -/
def dcLoop (hg : Nat → Nat → Nat → HM → StepRes) (dcThr ualloc : Nat) : Nat → DcState → DcState ⊕ Fin
  | 0, s => .inl s
  | f + 1, s =>
      if s.n ≥ dcThr then
        let p := s.n / 3                                          -- :336
        let r := hg (s.n - p) (s.a / B ^ p) (s.b / B ^ p) (matInit (s.n - p))   -- :339-340
        let a1 := s.a % B ^ p + B ^ p * r.a
        let b1 := s.b % B ^ p + B ^ p * r.b
        if r.ret > 0 then
          let adj := matAdjust r.M (p + r.ret) a1 b1 p            -- :350
          let w := mulMatrixVector r.M s.c.u0 s.c.u1 s.c.un       -- :357-360 (t0 = copy of u0)
          dcLoop hg dcThr ualloc f ⟨adj.2.1, adj.2.2, adj.1,
            ⟨w.1, w.2.1, w.2.2, s.c.ok && decide (r.M.n + s.c.un ≤ ualloc) && decide (w.2.2 < ualloc)⟩⟩   -- :353, :362 ASSERTs
        else
          match dcSubdiv ualloc ⟨a1, b1, s.n, s.c⟩ with
          | .inr r => .inr r
          | .inl s' => dcLoop hg dcThr ualloc f s'
      else .inl s

/-- gcdext.c:408-546: after the loop. -/
def dcFinish (ualloc : Nat) (s : DcState) : Fin :=
  if s.a = s.b then hookG s.c s.a s.n (-1)                        -- :410-437 (returns n)
  else if s.c.u0 % B = 0 ∧ s.c.un = 1 then lehmerNS s.a s.b s.n   -- :438-448 u0[0] == 0 && un == 1
  else
    let l := lehmerNS s.a s.b s.n                                 -- :461-466 on copies; lehmer_up has n limbs
    let u0n := nlimbs s.c.u0                                      -- :468-470
    if l.usize = 0 then ⟨l.g, l.gn, -(u0n : Int), s.c.u0, s.c.ok && l.ok⟩     -- :472-480
    else
      let v := computeV s.a s.b l.g l.up l.usize                  -- :484
      let negate := decide (l.usize < 0)                          -- :487-493
      let lun := l.usize.natAbs
      let u1n := nlimbs s.c.u1                                    -- :495-497
      let up := s.c.u1 * l.up                                     -- :505-509 mpn_mul (up, ...): u1n + lehmer_un limbs
      let un := nlimbs up                                         -- :511-512
      if v.2 > 0 then
        let t := s.c.u0 * v.1                                     -- :519-523 mpn_mul (u1, ...): u0n + lehmer_vn limbs (overwrites u1)
        let tn := nlimbs t                                        -- :525-526
        let un' := if tn ≤ un then un else tn                     -- :528-536
        let x := up + t
        let un'' := if x / B ^ un' ≠ 0 then un' + 1 else un'      -- :537-538 up[un] = cy; un += (cy != 0)
        ⟨l.g, l.gn, if negate then -(un'' : Int) else un'', x,
          s.c.ok && l.ok && decide (lun + u1n ≤ ualloc) && decide (v.2 + u0n ≤ ualloc) && decide (un' < ualloc)⟩   -- :499-500, :540
      else ⟨l.g, l.gn, if negate then -(un : Int) else un, up, s.c.ok && l.ok && decide (lun + u1n ≤ ualloc)⟩

/-- mpn_gcdext (gp, up, usizep, ap, an, bp, n) (gcdext.c:187).  `hg` = mpn_hgcd, `dcThr` = GCDEXT_DC_THRESHOLD.
    Domain: an ≥ n > 0, V with non-zero top limb. -/
def mpnGcdextS (hg : Nat → Nat → Nat → HM → StepRes) (dcThr : Nat) (U an V n : Nat) : Fin :=
  let ualloc := n + 1                                             -- :194
  let a := if an > n then U % V else U                            -- :251-253 mpn_tdiv_qr
  if an > n ∧ a = 0 then ⟨V, n, 0, 0, true⟩                       -- :255-261
  else if n < dcThr then lehmerNS a V n                           -- :264-270
  else
    match dcFirst hg ualloc a V n with                            -- :280-331
    | .inr r => r
    | .inl s =>
        match dcLoop hg dcThr ualloc (s.a + s.b + 1) s with       -- :333-386
        | .inr r => r
        | .inl s => dcFinish ualloc s

end Mpir.Gcdext
