/-
  C15 — footprint model of concurrent use.  The library has no locks; thread safety is the absence of
  shared mutable state.  A system state is a family of thread-private heaps plus a shared part that
  reentrant operations only read.  A reentrant operation of thread `t` is a function of the shared
  part and of `t`'s own heap, producing `t`'s new heap (its write footprint lies inside its own heap).
-/
namespace Mpir.Threads

structure Sys (H S : Type) where
  heaps : Nat → H
  shared : S

/-- an operation: reads the shared part and the caller's heap, writes only the caller's heap -/
abbrev Op (H S : Type) := S → H → H

def upd {H : Type} (f : Nat → H) (t : Nat) (h : H) : Nat → H := fun u => if u = t then h else f u

/-- one scheduled step: thread `t` executes `op` -/
def stepT {H S : Type} (s : Sys H S) (t : Nat) (op : Op H S) : Sys H S :=
  { s with heaps := upd s.heaps t (op s.shared (s.heaps t)) }

/-- run a schedule = an interleaving of the threads' operation lists -/
def runSched {H S : Type} (s : Sys H S) : List (Nat × Op H S) → Sys H S
  | [] => s
  | (t, op) :: rest => runSched (stepT s t op) rest

/-- what thread `t` does on its own: its operations in program order -/
def runAlone {H S : Type} (sh : S) (h : H) : List (Op H S) → H
  | [] => h
  | op :: rest => runAlone sh (op sh h) rest

/-- projection of a schedule onto one thread -/
def proj {H S : Type} (t : Nat) : List (Nat × Op H S) → List (Op H S)
  | [] => []
  | (u, op) :: rest => if u = t then op :: proj t rest else proj t rest

/-!
  ## Documented shared cells

  The manual lists the shared mutable state of the library: the three memory-function pointers
  (memory.c:31-33, written by `mp_set_memory_functions`, mp_set_fns.c:38-40, read at every allocation),
  the default mpf precision (mpf/set_dfl_prec.c:25, written by `mpf_set_default_prec`, read by `mpf_init*`),
  `gmp_errno` (errno.c:32; no function of this library writes it), and the state of the obsolete random
  functions (`__gmp_rands_initialized`, `__gmp_rands`, rands.c:33-34, written through the `RANDS` macro,
  gmp-impl.h:1361-1365, by `mpn_random`, `mpn_random2`, `mpf_random2`).
  They are modelled as cells that every operation may read and write; the theorems in
  MpirProofs/Props/C15_globals.lean say when a schedule cannot matter.
-/

/-- the documented shared mutable cells -/
inductive Cell where
  | allocFn | reallocFn | freeFn    -- memory.c:31-33
  | defaultPrec                     -- mpf/set_dfl_prec.c:25
  | errno                           -- errno.c:32
  | randsInit | rands               -- rands.c:33-34
  deriving DecidableEq, Repr

abbrev Cells := Cell → Nat

structure SysC (H S : Type) where
  heaps : Nat → H
  shared : S
  cells : Cells

/-- an operation that may read and write the cells besides its own heap -/
abbrev COp (H S : Type) := S → Cells → H → H × Cells

/-- one scheduled step: thread `t` executes `op` on the current cells -/
def stepC {H S : Type} (s : SysC H S) (t : Nat) (op : COp H S) : SysC H S :=
  { s with heaps := upd s.heaps t (op s.shared s.cells (s.heaps t)).1, cells := (op s.shared s.cells (s.heaps t)).2 }

def runSchedC {H S : Type} (s : SysC H S) : List (Nat × COp H S) → SysC H S
  | [] => s
  | (t, op) :: rest => runSchedC (stepC s t op) rest

/-- thread `t` alone: its operations in program order, starting from cells `c` -/
def runAloneC {H S : Type} (sh : S) (c : Cells) (h : H) : List (COp H S) → H × Cells
  | [] => (h, c)
  | op :: rest => runAloneC sh (op sh c h).2 (op sh c h).1 rest

def projC {H S : Type} (t : Nat) : List (Nat × COp H S) → List (COp H S)
  | [] => []
  | (u, op) :: rest => if u = t then op :: projC t rest else projC t rest

/-- `op` looks at the cells only through those in `F`, and its effect on the cells in `F` is determined by them -/
def Respects {H S : Type} (op : COp H S) (F : Cell → Prop) : Prop :=
  ∀ sh c c' h, (∀ x, F x → c x = c' x) →
    (op sh c h).1 = (op sh c' h).1 ∧ ∀ x, F x → (op sh c h).2 x = (op sh c' h).2 x

/-- `op` never changes a cell in `F` -/
def Preserves {H S : Type} (op : COp H S) (F : Cell → Prop) : Prop :=
  ∀ sh c h x, F x → (op sh c h).2 x = c x

/-! ### the API calls that touch the cells (executable: `cells_trace` op) -/

/-- `__GMPF_BITS_TO_PREC` (gmp-impl.h:3943-3944), for arguments where the addition does not wrap -/
def bitsToPrec (n : Nat) : Nat := ((if 53 < n then n else 53) + 2 * 64 - 1) / 64
/-- `__GMPF_PREC_TO_BITS` (gmp-impl.h:3945-3946) -/
def precToBits (p : Nat) : Nat := p * 64 - 64

inductive ApiCall where
  | setMemoryFunctions (a r f : Nat)  -- mp_set_fns.c:30-41; 0 = NULL selects the default function (id 0)
  | getMemoryFunctions                -- mp_get_fns.c:31-39
  | setDefaultPrec (bits : Nat)       -- mpf/set_dfl_prec.c:28-31
  | getDefaultPrec                    -- mpf/get_dfl_prec.c:27-30
  | mpfInit                           -- mpf/init.c:27-33: reads the default precision, then calls the allocate pointer
  | allocCycle                        -- mpz_init2 / mpz_realloc2 / mpz_clear: one call through each pointer
  | oldRandom                         -- mpn_random: RANDS (gmp-impl.h:1361-1365) initialises __gmp_rands once
  | randsClear                        -- RANDS_CLEAR (gmp-impl.h:1368-1375)
  | readErrno                         -- gmp_errno (errno.c:32)
  deriving Repr

def setCell (c : Cells) (x : Cell) (v : Nat) : Cells := fun y => if y = x then v else c y

/-- effect on the cells and what the caller observes -/
def apiStep (c : Cells) : ApiCall → Cells × List Nat
  | .setMemoryFunctions a r f => (setCell (setCell (setCell c .allocFn a) .reallocFn r) .freeFn f, [])
  | .getMemoryFunctions => (c, [c .allocFn, c .reallocFn, c .freeFn])
  | .setDefaultPrec bits => (setCell c .defaultPrec (bitsToPrec bits), [])
  | .getDefaultPrec => (c, [precToBits (c .defaultPrec)])
  | .mpfInit => (c, [c .defaultPrec, precToBits (c .defaultPrec), c .allocFn])
  | .allocCycle => (c, [c .allocFn, c .reallocFn, c .freeFn])
  | .oldRandom =>
      if c .randsInit = 0 then (setCell (setCell c .randsInit 1) .rands (c .rands + 1), [c .allocFn, 1])   -- first use allocates the MT state
      else (setCell c .rands (c .rands + 1), [0, 1])      -- no allocation
  | .randsClear => (if c .randsInit = 0 then c else setCell c .randsInit 0, [if c .randsInit = 0 then 0 else c .freeFn])
  | .readErrno => (c, [c .errno])

/-- the cells an API call may write -/
def apiWrites : ApiCall → List Cell
  | .setMemoryFunctions _ _ _ => [.allocFn, .reallocFn, .freeFn]
  | .setDefaultPrec _ => [.defaultPrec]
  | .oldRandom => [.randsInit, .rands]
  | .randsClear => [.randsInit]
  | _ => []

/-- the cells an API call looks at -/
def apiReads : ApiCall → List Cell
  | .setMemoryFunctions _ _ _ => []
  | .getMemoryFunctions => [.allocFn, .reallocFn, .freeFn]
  | .setDefaultPrec _ => []
  | .getDefaultPrec => [.defaultPrec]
  | .mpfInit => [.defaultPrec, .allocFn]
  | .allocCycle => [.allocFn, .reallocFn, .freeFn]
  | .oldRandom => [.randsInit, .rands, .allocFn]
  | .randsClear => [.randsInit, .freeFn]
  | .readErrno => [.errno]

/-- initial cells of a freshly loaded library: default functions (id 0), 53 bits, nothing else set -/
def cells0 : Cells := fun x => match x with
  | .defaultPrec => bitsToPrec 53
  | _ => 0

def runApi (c : Cells) : List ApiCall → Cells × List Nat
  | [] => (c, [])
  | a :: rest => let r := apiStep c a; let q := runApi r.1 rest; (q.1, r.2 ++ q.2)

/-- decode the flat code vector of the `cells_trace` op -/
def decodeCalls : List Nat → Option (List ApiCall)
  | [] => some []
  | 1 :: a :: r :: f :: rest => if a < 3 ∧ r < 3 ∧ f < 3 then (decodeCalls rest).map (ApiCall.setMemoryFunctions a r f :: ·) else none
  | 2 :: rest => (decodeCalls rest).map (ApiCall.getMemoryFunctions :: ·)
  | 3 :: b :: rest => if b ≤ 1 <<< 20 then (decodeCalls rest).map (ApiCall.setDefaultPrec b :: ·) else none
  | 4 :: rest => (decodeCalls rest).map (ApiCall.getDefaultPrec :: ·)
  | 5 :: rest => (decodeCalls rest).map (ApiCall.mpfInit :: ·)
  | 6 :: rest => (decodeCalls rest).map (ApiCall.allocCycle :: ·)
  | 7 :: rest => (decodeCalls rest).map (ApiCall.oldRandom :: ·)
  | 8 :: rest => (decodeCalls rest).map (ApiCall.randsClear :: ·)
  | 9 :: rest => (decodeCalls rest).map (ApiCall.readErrno :: ·)
  | _ => none

end Mpir.Threads
