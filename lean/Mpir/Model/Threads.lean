/-
  C15 — footprint model of concurrent use.  The library has no locks; thread safety is the absence of
  shared mutable state.  A system state is a family of thread-private heaps plus a shared part that
  reentrant operations only read.  A reentrant operation of thread `t` is a function of the shared
  part and of `t`'s own heap, producing `t`'s new heap (its write footprint lies inside its own heap).
-/
namespace Mpir.Threads

structure Sys (H S : Type) where
  heaps : Nat → H
  shared : S

/-- an operation: reads the shared part and the caller's heap, writes only the caller's heap -/
abbrev Op (H S : Type) := S → H → H

def upd {H : Type} (f : Nat → H) (t : Nat) (h : H) : Nat → H := fun u => if u = t then h else f u

/-- one scheduled step: thread `t` executes `op` -/
def stepT {H S : Type} (s : Sys H S) (t : Nat) (op : Op H S) : Sys H S :=
  { s with heaps := upd s.heaps t (op s.shared (s.heaps t)) }

/-- run a schedule = an interleaving of the threads' operation lists -/
def runSched {H S : Type} (s : Sys H S) : List (Nat × Op H S) → Sys H S
  | [] => s
  | (t, op) :: rest => runSched (stepT s t op) rest

/-- what thread `t` does on its own: its operations in program order -/
def runAlone {H S : Type} (sh : S) (h : H) : List (Op H S) → H
  | [] => h
  | op :: rest => runAlone sh (op sh h) rest

/-- projection of a schedule onto one thread -/
def proj {H S : Type} (t : Nat) : List (Nat × Op H S) → List (Op H S)
  | [] => []
  | (u, op) :: rest => if u = t then op :: proj t rest else proj t rest

end Mpir.Threads
