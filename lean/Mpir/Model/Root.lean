/-
  Property C09 — integer roots, remainders, perfect-square / perfect-power tests.  Core Lean only.

  Specifications (independent of the C):
    `isqrt` = `Nat.sqrt`, `iroot n u` (bitwise bisection on Nat: the unique t with t^n ≤ u < (t+1)^n),
    `isSquare`, `isPerfectPower` (the manual's conventions: 0 and 1 are perfect powers, negative
    numbers only with odd exponent).

  Models (tie = correspondence, ops in Mpir/Ops/Root.lean; tables regenerated in Mpir/Gen/SqrtTabs.lean):
    K  word level   mpn/generic/sqrtrem.c        mpn_sqrtrem1 (145-196), mpn_sqrtrem2 (203-243)
                    mpn/generic/mod_34lsub1.c    the three-accumulator folding
                    mpn/generic/perfect_square_p.c + gmp-impl.h PERFSQR_MOD_TEST
    V  value level  mpn_dc_sqrtrem (252-293: Zimmermann's recursion), mpn_sqrtrem (296-378: normalising
                    wrapper), mpn_rootrem / mpn_rootrem_internal (rootrem.c), mpn_rootrem_basecase
    S  mpz/sqrt.c sqrtrem.c root.c nthroot.c rootrem.c, mpir.h mpz_perfect_square_p, mpz/perfpow.c
  Carry and buffer bookkeeping inside the V functions is not represented (DESIGN 2.2).
-/
import Mpir.Base
import Mpir.Gen.SqrtTabs
namespace Mpir.Root
open Mpir Mpir.Gen.SqrtTabs

/-! ## Specifications -/

/-- floor square root (core `Nat.sqrt`; `Nat.sqrt_le`, `Nat.lt_succ_sqrt` characterise it). -/
def isqrt (u : Nat) : Nat := Nat.sqrt u

/-- bisection from the top bit: invariant `t^n ≤ u < (t + 2^i)^n`. -/
def irootGo (n u : Nat) : Nat → Nat → Nat
  | 0, t => t
  | i + 1, t => if (t + 2 ^ i) ^ n ≤ u then irootGo n u i (t + 2 ^ i) else irootGo n u i t

/-- `iroot n u` for `n ≥ 1`: the unique `t` with `t^n ≤ u < (t+1)^n`.
    (For `n > log2 u` the root is 0 or 1; answered directly so that no power with an exponent beyond the
    operand's bit length is ever evaluated — Lean's runtime refuses exponents ≥ 2^64 even for base 1.) -/
def iroot (n u : Nat) : Nat :=
  if u.log2 < n then (if u = 0 then 0 else 1) else irootGo n u (u.log2 / n + 1) 0

/-- `t ^ n` that never evaluates a huge exponent on base 0 or 1 (same value as `t ^ n`). -/
def powS (t n : Nat) : Nat := if n = 0 then 1 else if t ≤ 1 then t else t ^ n

/-- the same value, with the fast core square root for `n = 2` (driver only; `iroot_two` proves equality). -/
def irootFast (n u : Nat) : Nat := if n = 1 then u else if n = 2 then Nat.sqrt u else iroot n u

/-- the manual: "the square root of op is an integer"; 0 and 1 are squares, negatives are not. -/
def isSquare (u : Int) : Bool := decide (0 ≤ u) && (Nat.sqrt u.toNat * Nat.sqrt u.toNat == u.toNat)

/-- the manual: exist integers a, b with b > 1 and op = a^b; 0 and 1 are perfect powers, negative
    values only as odd powers.  Executable search over all exponents up to the bit length. -/
def isPerfectPower (u : Int) : Bool :=
  let a := u.natAbs
  if a ≤ 1 then true          -- 0 = 0^2, 1 = 1^2, -1 = (-1)^3
  else (List.range (a.log2 + 2)).any fun b =>
    decide (2 ≤ b) && (decide (0 ≤ u) || b % 2 == 1) && (irootFast b a ^ b == a)

/-! ## Word helpers (C unsigned arithmetic on 64-bit limbs) -/

def wsub (x y : Nat) : Nat := (x + B - y % B) % B
def wshl (x k : Nat) : Nat := (x <<< k) % B

/-- number of significant bits (0 for 0). -/
def bitLen (x : Nat) : Nat := if x = 0 then 0 else x.log2 + 1

/-- count_leading_zeros on a non-zero limb. -/
def clz (x : Nat) : Nat := 64 - bitLen x

/-! ## mpn_sqrtrem1 (sqrtrem.c:145-196), GMP_NAIL_BITS = 0 -/

/-- one pass of the precision-doubling loop (sqrtrem.c:169-186); state (s, r, np0). -/
def sqrtrem1Step (prec : Nat) (st : Nat × Nat × Nat) : Nat × Nat × Nat :=
  let (s, r, np0) := st
  let r := (wshl r prec + (np0 >>> (64 - prec))) % B      -- r = (r << prec) + (np0 >> (64 - prec))
  let np0 := wshl np0 prec                                 -- np0 <<= prec
  let u := (2 * s) % B                                     -- u = 2 * s
  let q := r / u                                           -- q = r / u
  let u := wsub r ((q * u) % B)                            -- u = r - q * u
  let s := (wshl s prec + q) % B                           -- s = (s << prec) + q
  let u := (wshl u prec + (np0 >>> (64 - prec))) % B       -- u = (u << prec) + (np0 >> (64 - prec))
  let q := (q * q) % B                                     -- q = q * q
  let r := wsub u q                                        -- r = u - q
  let rs := if u < q then ((r + wsub ((2 * s) % B) 1) % B, wsub s 1) else (r, s)   -- r += 2*s - 1; s--
  let np0 := wshl np0 prec                                 -- np0 <<= prec
  (rs.2, rs.1, np0)

/-- `while (2 * prec < GMP_LIMB_BITS) { ...; prec = 2 * prec; }` -/
def sqrtrem1Loop : Nat → Nat → Nat × Nat × Nat → Nat × Nat × Nat
  | 0, _, st => st
  | fuel + 1, prec, st =>
      if 2 * prec < 64 then sqrtrem1Loop fuel (2 * prec) (sqrtrem1Step prec st) else st

/-- seed from `approx_tab` and the first correction (sqrtrem.c:154-164). -/
def sqrtrem1Seed (np0 : Nat) : Nat × Nat :=
  let q := np0 >>> (64 - 8)
  let s := approxTab.getD (q - approxTabBase) 0
  let r := wsub (np0 >>> (64 - 16)) ((s * s) % B)
  if r > 2 * s then ((s + 1) % B, wsub r ((2 * s + 1) % B)) else (s, r)

/-- mpn_sqrtrem1: `(s, r)` with `np0 = s² + r`; requires `np0 ≥ B/4`.  (The C returns `r != 0`.) -/
def sqrtrem1Out (st : Nat × Nat × Nat) : Nat × Nat := (st.1, st.2.1)

def sqrtrem1 (np0 : Nat) : Nat × Nat :=
  let sd := sqrtrem1Seed np0
  sqrtrem1Out (sqrtrem1Loop 6 8 (sd.1, sd.2, wshl np0 16))   -- prec = 8; np0 <<= 2 * prec

/-! ## mpn_sqrtrem2 (sqrtrem.c:203-243) -/

/-- `while (rp[0] >= sp[0]) { qhl++; rp[0] -= sp[0]; }` (at most two rounds since r ≤ 2s). -/
def sqrtrem2Sub : Nat → Nat → Nat → Nat → Nat × Nat
  | 0, qhl, rp0, _ => (qhl, rp0)
  | fuel + 1, qhl, rp0, sp0 =>
      if rp0 ≥ sp0 then sqrtrem2Sub fuel (qhl + 1) (wsub rp0 sp0) sp0 else (qhl, rp0)

/-- sqrtrem.c:236-240, the `cc < 0` branch:
    `cc += sp[0] != 0 ? mpn_add_1 (rp, rp, 1, sp[0]) : 1; cc += mpn_add_1 (rp, rp, 1, --sp[0]);` -/
def sqrtrem2AddBack (sp0 rp0 : Nat) (cc : Int) : Nat × Nat × Int :=
  let cy1 := if sp0 ≠ 0 then boolToNat (rp0 + sp0 ≥ B) else 1
  let rp1 := if sp0 ≠ 0 then (rp0 + sp0) % B else rp0
  let sp1 := wsub sp0 1
  let cy2 := boolToNat (rp1 + sp1 ≥ B)
  (sp1, (rp1 + sp1) % B, cc + (cy1 : Nat) + (cy2 : Nat))

/-- sqrtrem.c:232-241: `cc -= mpn_sub_1 (rp, rp, 1, q * q) + qhl; if (cc < 0) { ... }`;
    `cch = u >> Prec`, `qq = q * q`. -/
def sqrtrem2Fix (sp0 cch rp0 qq qhl : Nat) : Nat × Nat × Int :=
  let cc : Int := (cch : Int) - (boolToNat (rp0 < qq) + qhl : Nat)
  let rp1 := wsub rp0 qq
  if cc < 0 then sqrtrem2AddBack sp0 rp1 cc else (sp0, rp1, cc)

/-- mpn_sqrtrem2 after the subtraction loop (sqrtrem.c:222-241); `sp0, rp0, qhl` as the loop left them. -/
def sqrtrem2Tail (np0 sp0 rp0 qhl : Nat) : Nat × Nat × Int :=
  let rp1 := (wshl rp0 32 + (np0 >>> 32)) % B               -- rp[0] = (rp[0] << Prec) + (np0 >> Prec)
  let u0 := (2 * sp0) % B                                    -- u = 2 * sp[0]
  let q0 := rp1 / u0                                         -- q = rp[0] / u
  let u := wsub rp1 ((q0 * u0) % B)                          -- u = rp[0] - q * u
  let q := (q0 + wshl (qhl &&& 1) 31) % B                    -- q += (qhl & 1) << (Prec - 1)
  let qh := qhl >>> 1                                        -- qhl >>= 1
  let sp1 := (wshl ((sp0 + qh) % B) 32 + q) % B              -- sp[0] = ((sp[0] + qhl) << Prec) + q
  -- cc = u >> Prec; rp[0] = ((u << Prec) & MASK) + (np0 & (2^Prec - 1)); then subtract q * q and qhl
  sqrtrem2Fix sp1 (u >>> 32) ((wshl u 32 + (np0 &&& (2 ^ 32 - 1))) % B) ((q * q) % B) qh

/-- mpn_sqrtrem2 on `{np0, np1}`: `(sp0, rp0, cc)` with `np1·B + np0 = sp0² + cc·B + rp0`. -/
def sqrtrem2 (np0 np1 : Nat) : Nat × Nat × Int :=
  let sr := sqrtrem1 np1                                     -- mpn_sqrtrem1 (sp, rp, np + 1)
  let ql := sqrtrem2Sub 4 0 sr.2 sr.1                        -- qhl = 0; while (rp[0] >= sp[0]) ...
  sqrtrem2Tail np0 sr.1 ql.2 ql.1

/-! ## mpn_dc_sqrtrem (sqrtrem.c:252-293) at value level -/

/-- n = 1: `c = mpn_sqrtrem2 (sp, np, np)`. -/
def dcBaseOut (s r : Nat) (cc : Int) : Nat × Nat :=
  (s, (cc * (B : Int) + (r : Int)).toNat)                       -- remainder = cc·B + rp[0]

def dcBase (N : Nat) : Nat × Nat :=
  let res := sqrtrem2 (N % B) (N / B % B)
  dcBaseOut res.1 res.2.1 res.2.2

/-- the work after the recursive call on the high `2h` limbs, which returned `(s1, r1)`; `l = n / 2`. -/
def dcCombine (l N : Nat) (hi : Nat × Nat) : Nat × Nat :=
  let s1 := hi.1
  let r1 := hi.2
  -- if (q != 0) sub_n (...); q += mpn_intdivrem (sp, 0, np + l, n, sp + l, h):
  -- (R'·B^l + a1) divided by S'; quotient q·B^l + {sp, l}, remainder {np + l, h}
  let num := r1 * B ^ l + N / B ^ l % B ^ l
  let qs := num / s1
  let us := num % s1
  -- c = sp[0] & 1; mpn_half (sp, l); sp[l-1] |= q << 63; q >>= 1
  let c := qs % 2
  let q := qs / 2
  -- if (c != 0) c = mpn_add_n (np + l, np + l, sp + l, h)
  let u := if c ≠ 0 then us + s1 else us
  -- mpn_sqr (np + n, sp, l); b = q + mpn_sub_n (np, np, np + n, 2 * l); c -= ...
  let r : Int := (u * B ^ l + N % B ^ l : Nat) - (q * q : Nat)
  -- q = mpn_add_1 (sp + l, sp + l, h, q)
  let s := s1 * B ^ l + q
  if r < 0 then
    -- c += mpn_addmul_1 (np, sp, n, 2) + 2 * q; c -= mpn_sub_1 (np, np, n, 1); q -= mpn_sub_1 (sp, sp, n, 1)
    (s - 1, (r + 2 * (s : Int) - 1).toNat)
  else (s, r.toNat)

/-- `{np, 2n}` has value `N`, `B^(2n)/4 ≤ N < B^(2n)`.  Returns `(S, R)`: `{sp, n}` and the remainder
    including its carry limb (`R = c·B^n + {np, n}`), with `N = S² + R`, `R ≤ 2S`. -/
def dcSqrtremF : Nat → Nat → Nat → Nat × Nat
  | 0, _, _ => (0, 0)                   -- fuel exhausted (never: fuel = n and n halves)
  | fuel + 1, n, N =>
    if n = 0 then (0, 0)                -- outside the C domain (n ≥ 1)
    else if n = 1 then dcBase N
    else
      -- l = n / 2; h = n - l; q = mpn_dc_sqrtrem (sp + l, np + 2 * l, h)
      dcCombine (n / 2) N (dcSqrtremF fuel (n - n / 2) (N / B ^ (2 * (n / 2))))

def dcSqrtrem (n N : Nat) : Nat × Nat := dcSqrtremF n n N

/-! ## mpn_sqrtrem (sqrtrem.c:296-378): the normalising wrapper -/

structure SqrtRes where
  sp : List Nat        -- {sp, (nn+1)/2}
  rp : List Nat        -- {rp, rn}
  rn : Nat
  deriving Repr

/-- value-level result `(S, R)` of mpn_sqrtrem on `{np, nn}` with value `u`, `np[nn-1] = high ≠ 0`. -/
def sqrtremVal (u nn high : Nat) : Nat × Nat :=
  if nn = 1 ∧ high ≥ B / 2 then sqrtrem1 high              -- return mpn_sqrtrem1 (sp, rp, np)
  else
    let c := clz high / 2                                   -- shift left by 2c bits to normalise
    let tn := (nn + 1) / 2
    if nn % 2 ≠ 0 ∨ c > 0 then
      -- tp[0] = 0; lshift (tp + 2tn - nn, np, nn, 2c) or copy
      let T := (u <<< (2 * c)) * B ^ (2 * tn - nn)
      let (S, R) := dcSqrtrem tn T                          -- rl = mpn_dc_sqrtrem (sp, tp, tn)
      let k := c + (nn % 2) * 64 / 2                        -- c += (nn % 2) * GMP_NUMB_BITS / 2
      let s0 := S % B &&& ((1 <<< k) % B - 1)               -- s0[0] = sp[0] & ((1 << c) - 1)
      -- rl += addmul_1 (tp, sp, tn, 2 * s0); cc = submul_1 (tp, s0, 1, s0); rl -= sub_1 (..., cc)
      let R := R + 2 * s0 * S - s0 * s0
      let S := S >>> k                                      -- mpn_rshift (sp, sp, tn, c)
      -- c = c << 1; then drop 2k bits of {tp, tn + 1}
      (S, R >>> (2 * k))
    else dcSqrtrem tn u                                     -- rn = tn + (rp[tn] = mpn_dc_sqrtrem (sp, rp, tn))

def sqrtrem (np : List Nat) : SqrtRes :=
  let nn := np.length
  if nn = 0 then ⟨[], [], 0⟩ else
  let (S, R) := sqrtremVal (val np) nn (np.getLastD 0)
  let rp := natLimbs R                                      -- MPN_NORMALIZE (rp, rn)
  ⟨toLimbs ((nn + 1) / 2) S, rp, rp.length⟩

/-! ## mpn_mod_34lsub1 (generic C) and mpn_perfect_square_p -/

/-- ADD (c, a, val): ADDC_LIMB then c += carry.  Returns (a', c'). -/
def m34Add (a c v : Nat) : Nat × Nat :=
  let s := (a + v) % B
  (s, (c + boolToNat (s < v)) % B)

structure M34 where
  a0 : Nat
  a1 : Nat
  a2 : Nat
  c0 : Nat
  c1 : Nat
  c2 : Nat

def m34Loop : List Nat → M34 → M34
  | p0 :: p1 :: p2 :: rest, st =>
      let (a0, c0) := m34Add st.a0 st.c0 p0
      let (a1, c1) := m34Add st.a1 st.c1 p1
      let (a2, c2) := m34Add st.a2 st.c2 p2
      m34Loop rest ⟨a0, a1, a2, c0, c1, c2⟩
  | [p0, p1], st =>
      let (a0, c0) := m34Add st.a0 st.c0 p0
      let (a1, c1) := m34Add st.a1 st.c1 p1
      { st with a0 := a0, c0 := c0, a1 := a1, c1 := c1 }
  | [p0], st =>
      let (a0, c0) := m34Add st.a0 st.c0 p0
      { st with a0 := a0, c0 := c0 }
  | [], st => st

def m34Parts0 (n : Nat) : Nat := (n &&& (2 ^ 48 - 1)) + (n >>> 48)
def m34Parts1 (n : Nat) : Nat := ((n &&& (2 ^ 32 - 1)) <<< 16) + (n >>> 32)
def m34Parts2 (n : Nat) : Nat := ((n &&& (2 ^ 16 - 1)) <<< 32) + (n >>> 16)

/-- mpn_mod_34lsub1: some limb value congruent to `{p, n}` modulo `2^48 - 1`. -/
def mod34lsub1 (p : List Nat) : Nat :=
  let st := m34Loop p ⟨0, 0, 0, 0, 0, 0⟩
  (m34Parts0 st.a0 + m34Parts1 st.a1 + m34Parts2 st.a2
    + m34Parts1 st.c0 + m34Parts2 st.c1 + m34Parts0 st.c2) % B

/-- the first probe: bit `up[0] % 0x100` of `sq_res_0x100`. -/
def sqRes256 (lo : Nat) : Bool :=
  let idx := lo % 0x100
  (sqRes0x100.getD (idx / 64) 0 >>> (idx % 64)) &&& 1 != 0

/-- PERFSQR_MOD_IDX: q = (r * inv) & MASK; idx = (q * d) >> PERFSQR_MOD_BITS. -/
def perfsqrIdx (t : ModTest) (r : Nat) : Nat :=
  let q := (r * t.inv) % B &&& ((1 <<< perfsqrModBits) % B - 1)
  ((q * t.d) % B) >>> perfsqrModBits

/-- the table look-up of PERFSQR_MOD_1 (`(mask >> idx) & 1`) / PERFSQR_MOD_2
    (`m = (int) idx - GMP_LIMB_BITS < 0 ? mlo : mhi; idx %= GMP_LIMB_BITS; (m >> idx) & 1`). -/
def perfsqrBit (t : ModTest) (idx : Nat) : Bool :=
  if t.two then
    let m := if idx < 64 then t.mlo else t.mhi
    (m >>> (idx % 64)) &&& 1 != 0
  else (t.mlo >>> idx) &&& 1 != 0

/-- PERFSQR_MOD_1 / PERFSQR_MOD_2: `true` = the residue is possible for a square. -/
def perfsqrTest (t : ModTest) (r : Nat) : Bool := perfsqrBit t (perfsqrIdx t r)

/-- PERFSQR_MOD_34 folding. -/
def perfsqrFold (r : Nat) : Nat := (r &&& ((1 <<< mod34Bits) % B - 1)) + (r >>> mod34Bits)

/-- PERFSQR_MOD_TEST on the folded residue. -/
def perfsqrModTest (r : Nat) : Bool := perfsqrTests.all fun t => perfsqrTest t r

/-- the third test of mpn_perfect_square_p (perfect_square_p.c:211-231): `MPN_NORMALIZE (up, usize);
    if (usize == 0) return 1;` (zero is a square; mpn_sqrtrem needs a non-zero most significant limb),
    then `res = ! mpn_sqrtrem (root_ptr, NULL, up, usize)`. -/
def perfectSquareFinal (up : List Nat) : Bool :=
  let nz := normalize up
  if nz.isEmpty then true else (sqrtrem nz).rn == 0

/-- mpn_perfect_square_p ({up, usize}), usize ≥ 1; high zero limbs are allowed. -/
def perfectSquareP (up : List Nat) : Bool :=
  if !sqRes256 (up.headD 0) then false
  else if !perfsqrModTest (perfsqrFold (mod34lsub1 up)) then false
  else perfectSquareFinal up

/-! ## mpn_rootrem at value level (rootrem.c, rootrem_basecase.c) -/

/-- the final adjustment of both algorithms: `while (S^k > R) S--` (the code asserts at most one
    round), then the remainder. -/
def adjustDown (k R : Nat) : Nat → Nat → Nat
  | 0, s => s
  | fuel + 1, s => if s ^ k > R then adjustDown k R fuel (s - 1) else s

def finalOut (k R s : Nat) : Nat × Nat := (s, R - s ^ k)

def finalAdjust (k R s : Nat) : Nat × Nat := finalOut k R (adjustDown k R 2 s)

/-- rootrem_basecase.c:90-98: `if (U < x^nth) x--;` then the remainder. -/
def finalAdjust1 (k R s : Nat) : Nat × Nat := finalOut k R (adjustDown k R 1 s)

/-- rootrem_basecase.c:47-54 bit-by-bit improvement: clear `bit` if the power stays above U. -/
def bcBits (nth U : Nat) : Nat → Nat → Nat → Nat → Nat × Nat × Bool
  | 0, x, _, nv => (x, nv, false)
  | iters + 1, x, bit, nv =>
      let x' := x ^^^ (1 <<< bit)
      let x := if x' ^ nth > U then x' else x          -- keep only approximations ≥ root
      if bit = 0 then (x, nv + 1, true)                -- goto done
      else bcBits nth U iters x (bit - 1) (nv + 1)

/-- Newton loop rootrem_basecase.c:61-87 (`xn` limbs for x). -/
def bcNewton (nth U xn xnb adj : Nat) : Nat → Nat → Nat → Nat
  | 0, x, _ => x
  | fuel + 1, x, nv =>
      if nv ≤ xnb then
        let t := U / x ^ (nth - 1) + (nth - 1) * x
        -- if (cy == nth) { qp = all ones; cy = nth - 1 }: clamp to B^xn - 1
        let x := if t / B ^ xn = nth then B ^ xn - 1 else t / nth
        bcNewton nth U xn xnb adj fuel x (nv * 2 - adj)
      else x

/-- mpn_rootrem_basecase: (root, remainder). -/
def rootremBasecase (U nth : Nat) : Nat × Nat :=
  let unb := bitLen U
  let xnb := (unb - 1) / nth + 1
  if xnb = 1 then (1, U - 1) else
  let xn := (xnb + 63) / 64
  let x0 := 2 ^ xnb - 1
  let (x, nv, done) := bcBits nth U (bitLen nth) x0 (xnb - 2) 0
  let x := if done then x else bcNewton nth U xn xnb (nv - 1) 64 x nv
  -- done: the computed result might be one unit too large (a single test in the C)
  finalAdjust1 nth U x

/-- the `sizes[]` schedule of mpn_rootrem_internal (rootrem.c:178-196). -/
def rrSizes (logk : Nat) : Nat → Nat → List Nat
  | 0, _ => [0]
  | fuel + 1, b =>
      if b = 0 then [0] else
      let b' := (b + logk + 1) / 2
      let b' := if b' ≥ b then b - 1 else b'
      b :: rrSizes logk fuel b'

/-- one Newton round of mpn_rootrem_internal (rootrem.c:205-366); state (S, R, W, kk).
    `last` = (i == 1), `approx` = the flag of the padded call. -/
def rrStep (U k b : Nat) (last approx : Bool) (st : Nat × Nat × Nat × Nat) : Nat × Nat × Nat × Nat × Bool :=
  let (S, R, W, kk) := st
  let kk := kk - b
  let R := R * 2 ^ b + (U >>> kk) % 2 ^ b         -- shift in bits [kk, kk+b) of U
  let W := W * k                                   -- k * S^(k-1)
  let Q := R / W
  let Q := if Q ≥ 2 ^ b then 2 ^ b - 1 else Q      -- the quotient should be smaller than 2^b
  let S := S * 2 ^ b + Q
  let kk := kk - (k - 1) * b
  let R := U >>> kk
  if last then
    let approx := approx && (S % B > 1)            -- approx = approx && (sp[0] > 1)
    if approx then (S, R, W, kk, approx)           -- qn = 0: no power, no correction, R kept
    else
      let S := adjustDown k R 2 S
      (S, R - S ^ k, W, kk, approx)
  else
    let S := adjustDown k R 2 S
    (S, R - S ^ k, S ^ (k - 1), kk, approx)

def rrLoop (U k : Nat) (approx : Bool) : List Nat → Nat × Nat × Nat × Nat → Nat × Nat × Bool
  | hi :: lo :: rest, st =>        -- sizes listed from sizes[ni] = 0 upwards: b = sizes[i-1] - sizes[i]
      let (S, R, W, kk, ap) := rrStep U k (lo - hi) rest.isEmpty approx st
      if rest.isEmpty then (S, R, ap) else rrLoop U k ap (lo :: rest) (S, R, W, kk)
  | _, (S, R, _, _) => (S, R, approx)

/-- mpn_rootrem_internal: (root, R, approx-still-on).  With `approx` on, R is not a remainder, only
    non-zero. -/
def rootremInternal (U k : Nat) (approx : Bool) : Nat × Nat × Bool :=
  let unb := bitLen U
  let xnb := (unb - 1) / k + 1
  -- rootrem.c:118-138: the root-is-1 exit is taken BEFORE the temporaries qp/rp/wp (whose size grows with k)
  -- are allocated; allocations are not represented at value level, the order is pinned by PINS
  if xnb = 1 then (1, U - 1, false) else
  let kk := k * (xnb - 1)
  let R := (U >>> kk) - 1
  let logk := bitLen (k - 1)                       -- for (logk = 1; ((k - 1) >> logk) != 0; logk++)
  let logk := if logk = 0 then 1 else logk
  let sizes := (rrSizes logk 66 (xnb - 1)).reverse
  rrLoop U k approx sizes (1, R, 1, kk)

/-- mpn_rootrem ({up, un}, k), k ≥ 2: (root, remainder-or-flag value).  `wantRem = false` is
    `remp == NULL`: then only "zero / non-zero" of the second component is meaningful. -/
def rootrem (U un k : Nat) (wantRem : Bool) : Nat × Nat :=
  if un < rootremThreshold then rootremBasecase U k
  else if !wantRem && un / k > 2 then
    -- pad with k zero limbs, approximate root with one more limb, truncate it
    let (S, R, _) := rootremInternal (U * B ^ k) k true
    (S / B, R)
  else
    let (S, R, _) := rootremInternal U k false
    (S, R)

/-! ## mpz layer -/

/-- limb count of a non-zero magnitude. -/
def limbCount (a : Nat) : Nat := (natLimbs a).length

/-- mpz_sqrt (mpz/sqrt.c). -/
def mpzSqrt (u : Int) : Except String Int :=
  if u < 0 then .error "sqrtneg"                   -- SQRT_OF_NEGATIVE
  else if u = 0 then .ok 0
  else .ok (val (sqrtrem (natLimbs u.toNat)).sp)

/-- mpz_sqrtrem (mpz/sqrtrem.c). -/
def mpzSqrtrem (u : Int) : Except String (Int × Int) :=
  if u < 0 then .error "sqrtneg"
  else if u = 0 then .ok (0, 0)
  else let r := sqrtrem (natLimbs u.toNat); .ok (val r.sp, val r.rp)

/-- common head of mpz_root / mpz_nthroot / mpz_rootrem: exceptions, zero, n = 1, mpn_rootrem.
    Result (root, remainder value, remn == 0). -/
def mpzRootCore (u : Int) (nth : Nat) (wantRem : Bool) : Except String (Int × Int × Bool) :=
  if u < 0 ∧ nth % 2 = 0 then .error "sqrtneg"     -- even roots of negatives
  else if nth = 0 then .error "div0"
  else if u = 0 then .ok (0, 0, true)
  else
    let a := u.natAbs
    let (root, rem) := if nth = 1 then (a, 0) else rootrem a (limbCount a) nth wantRem
    let sg : Int := if u < 0 then -1 else 1       -- SIZ(root) = us >= 0 ? rootn : -rootn
    .ok (sg * root, sg * rem, rem == 0)

def mpzRoot (u : Int) (nth : Nat) : Except String (Int × Bool) :=
  (mpzRootCore u nth false).map fun (r, _, e) => (r, e)

def mpzRootrem (u : Int) (nth : Nat) : Except String (Int × Int) :=
  (mpzRootCore u nth true).map fun (r, m, _) => (r, m)

/-- mpz_perfect_square_p (mpir.h inline). -/
def mpzPerfectSquareP (u : Int) : Bool :=
  if u > 0 then perfectSquareP (natLimbs u.toNat) else decide (u ≥ 0)

/-! ## mpz_perfect_power_p (mpz/perfpow.c) at value level -/

def pow2P (n : Nat) : Bool := n &&& (n - 1) == 0

/-- perfpow.c isprime: trial division by odd d while q ≥ d. -/
def isprimeGo (t : Nat) : Nat → Nat → Bool
  | 0, _ => false
  | fuel + 1, d =>
      let q := t / d
      let r := t - q * d
      if q < d then true else if r = 0 then false else isprimeGo t fuel (d + 2)

def isprime (t : Nat) : Bool :=
  if t < 3 ∨ t % 2 = 0 then t == 2 else isprimeGo t t 3

/-- number of trailing zero bits (mpz_scan1 (u, 0)) of a non-zero magnitude. -/
def scan1Go : Nat → Nat → Nat → Nat
  | 0, _, c => c
  | fuel + 1, a, c => if a % 2 = 0 then scan1Go fuel (a / 2) (c + 1) else c

def scan1 (a : Nat) : Nat := scan1Go (bitLen a) a 0

/-- `for (n = 2;;) { rem = tdiv_q_ui (q, u2, prime); if (rem != 0) break; swap; n++; }` -/
def stripPrime (p : Nat) : Nat → Nat → Nat → Nat × Nat
  | 0, a, n => (a, n)
  | fuel + 1, a, n => if a % p = 0 then stripPrime p fuel (a / p) (n + 1) else (a, n)

/-- `exact = mpz_root (q, u2, nth)` on magnitude a (sign handled by the caller: nth odd if negative). -/
def rootExact (a nth : Nat) : Nat × Bool :=
  if a = 0 then (0, true) else
  let (r, m) := if nth = 1 then (a, 0) else rootrem a (limbCount a) nth false
  (r, m == 0)

/-- the two root-attempt loops at the end of mpz_perfect_power_p; `bound = none` is the
    `n2 == 0` loop (all primes), `some n2` the loop over prime divisors of n2. -/
def ppRoots (a : Nat) (bound : Option Nat) : Nat → Nat → Bool
  | 0, _ => false
  | fuel + 1, nth =>
      match bound with
      | some n2 =>
          if nth > n2 then false
          else if !isprime nth || n2 % nth != 0 then ppRoots a bound fuel (nth + 1)
          else
            let (q, exact) := rootExact a nth
            if exact then true
            else if q < smallestOmittedPrime then false
            else ppRoots a bound fuel (nth + 1)
      | none =>
          if !isprime nth then ppRoots a bound fuel (nth + 1)
          else
            let (q, exact) := rootExact a nth
            if exact then true
            else if q < smallestOmittedPrime then false
            else ppRoots a bound fuel (nth + 1)

/-- label n2prime: -/
def ppN2prime (neg : Bool) (a n2 : Nat) : Bool :=
  if n2 = 2 && neg then false else (rootExact a n2).2

/-- the trial-division loop over `primes[1..]`; state: remaining magnitude `a`, exponent gcd `n2`.
    `none` = fell through the loop with (a, n2); `some b` = returned b. -/
def ppFactor (neg : Bool) : List Nat → Nat → Nat → Sum Bool (Nat × Nat)
  | [], a, n2 => .inr (a, n2)
  | p :: ps, a, n2 =>
      if a % p = 0 then                                 -- mpz_divisible_ui_p (u2, prime)
        if a % (p * p) ≠ 0 then .inl false              -- prime divides exactly once
        else
          let (a, n) := stripPrime p (bitLen a) (a / (p * p)) 2
          if pow2P n && neg then .inl false
          else
            let n2 := Nat.gcd n2 n
            if n2 = 1 then .inl false
            else if a = 1 then .inl (!(neg && pow2P n2))   -- factoring completed
            else if isprime n2 then .inl (ppN2prime neg a n2)
            else ppFactor neg ps a n2
      else ppFactor neg ps a n2

/-- mpz_perfect_power_p. -/
def mpzPerfectPowerP (u : Int) : Bool :=
  if u = 0 then true else
  let neg := decide (u < 0)
  let a := u.natAbs
  let n2 := scan1 a
  if n2 = 1 then false
  else if n2 > 1 && pow2P n2 && neg then false
  else
    let a2 := a >>> n2                                   -- mpz_tdiv_q_2exp (u2, u, n2)
    if isprime n2 then ppN2prime neg a2 n2
    else
      match ppFactor neg (perfpowPrimes.drop 1) a2 n2 with
      | .inl b => b
      | .inr (a2, n2) =>
          let start := if neg then 3 else 2
          if n2 = 0 then ppRoots a2 none (bitLen a2 + 3) start
          else ppRoots a2 (some n2) (n2 + 1) start

end Mpir.Root
