/-
  C04 — size-aware models, continuation: mpz/and.c, ior.c, xor.c (every sign case, temporaries, the pointer
  re-reads after `_mpz_realloc`), mpz/mul_i.h (mpz_mul_ui).  Theorems: MpirProofs/Props/C04_allocsafe2.lean
  (and, xor, mul_ui; ior is tied by the ops only).  Core Lean only.  On the memory model of
  Mpir/Model/AllocSafe.lean; statement by statement after the C, file:line cited.

  Temporary space (`TMP_ALLOC`) is a block of its own (`Buf`) that no variable's `_mp_d` ever points to; a read
  operand `Src` is either a heap pointer or an offset into such a block.  The list functions applied to the limbs
  are those of the C10 models (Mpir/Model/Bits.lean: `subLimb`, `addLimb`, `scanTop`, `lnotL`).
-/
import Mpir.Model.AllocSafeMpz
import Mpir.Model.Bits
namespace Mpir.AllocSafe
open Mpir
open Mpir.Mpz (sgn)

/-- a read operand: a heap pointer, or temporary space at an offset -/
inductive Src where
  | ptr (p : Ptr)
  | tmp (b : Buf) (off : Nat)
  deriving Repr, DecidableEq

def Src.add : Src → Nat → Src
  | .ptr p, k => .ptr (p.add k)
  | .tmp b off, k => .tmp b (off + k)

def St.rdS (s : St) : Src → Nat → List Nat
  | .ptr p, n => s.rd p n
  | .tmp b off, n => (b.read off n).1

def St.rdOkS (s : St) : Src → Nat → Bool
  | .ptr p, n => s.rdOk p n
  | .tmp b off, n => (b.read off n).2

/-- `for (i = n - 1; i >= 0; i--) rp[i] = f (ap[i], bp[i]);` and `mpn_and_n (rp, ap, bp, n)` (one operation per
    limb at the same index of all three: with `rp == ap` or `rp == bp` this is the same as all reads first) -/
def logop_n (f : Nat → Nat → Nat) (s : St) (rp : Ptr) (ap bp : Src) (n : Nat) : St :=
  (s.chk (s.rdOkS ap n && s.rdOkS bp n)).wr rp (List.zipWith f (s.rdS ap n) (s.rdS bp n))

/-- `for (i = n - 1; i >= 0; i--) if (f (ap[i], bp[i]) != 0) break;  n = i + 1;`  (checked as reads of [0, n)) -/
def logop_scan (f : Nat → Nat → Nat) (s : St) (ap bp : Src) (n : Nat) : Nat × St :=
  (Bits.scanTop (List.zipWith f (s.rdS ap n) (s.rdS bp n)), s.chk (s.rdOkS ap n && s.rdOkS bp n))

/-- MPN_COPY (rp, ap, n) with a `Src` source -/
def copy_S (s : St) (rp : Ptr) (ap : Src) (n : Nat) : St :=
  (s.chk (s.rdOkS ap n)).wr rp (s.rdS ap n)

/-- `opx = TMP_ALLOC (n * BYTES_PER_MP_LIMB); mpn_sub_1 (opx, up, n, 1);` — the block and the checked state -/
def tmp_sub_1 (s : St) (up : Ptr) (n : Nat) : Buf × St :=
  let r := (Bits.subLimb (s.rd up n) 1).1
  let w := (Buf.new n).write 0 r
  (w.1, s.chk (s.rdOk up n && w.2))

/-- `cy = mpn_add_1 (rp, rp, n, 1); if (cy) { rp[n] = cy; n++; }` -/
def addOneTail (s : St) (rp : Ptr) (n : Nat) : Nat × St :=
  let r := Bits.addLimb (s.rd rp n) 1
  let s := (s.chk (s.rdOk rp n)).wr rp r.1
  if r.2 != 0 then (n + 1, s.store rp n r.2) else (n, s)

/-- a pointer variable after `if (ALLOC < n) { _mpz_realloc (..); p = x->_mp_d; }`: re-read when the realloc
    happened (`r`) — `reread = false` is the WRONG variant that keeps the pointer taken on entry -/
def reptr (reread r : Bool) (s : St) (x : Nat) (old : Ptr) : Ptr := if r && reread then s.PTR x else old

def andn (x y : Nat) : Nat := x &&& Bits.lnotL y

/-! ### mpz_and — mpz/and.c (ANDNEW undefined: lines 203-266 are live) -/

/-- and.c:46-69, both operands non-negative -/
def and_pp (reread : Bool) (s : St) (res op1 op2 : Nat) (op1_size op2_size : Nat) : St :=
  let op1_ptr := s.PTR op1                                    -- and.c:40
  let op2_ptr := s.PTR op2                                    -- and.c:41
  let res_ptr := s.PTR res                                    -- and.c:42
  let res_size := min op1_size op2_size                       -- and.c:48
  let (res_size, s) := logop_scan (· &&& ·) s (.ptr op1_ptr) (.ptr op2_ptr) res_size   -- and.c:50-53
  let r := decide (s.ALLOC res < res_size)                    -- and.c:57
  let s := if r then _mpz_realloc s res res_size else s       -- and.c:59
  let op1_ptr := reptr reread r s op1 op1_ptr                 -- and.c:60
  let op2_ptr := reptr reread r s op2 op2_ptr                 -- and.c:61
  let res_ptr := reptr true r s res res_ptr                   -- and.c:62
  let s := s.setSize res res_size                             -- and.c:65
  if res_size != 0 then logop_n (· &&& ·) s res_ptr (.ptr op1_ptr) (.ptr op2_ptr) res_size   -- and.c:66-67
  else s

/-- and.c:93-141, both negative; `plus` = 1 in the C (`res_alloc = 1 + MAX (..)`) -/
def and_nn (plus : Nat) (s : St) (res op1 op2 : Nat) (op1_size op2_size : Nat) : St :=
  let op1_ptr := s.PTR op1                                    -- and.c:40
  let op2_ptr := s.PTR op2                                    -- and.c:41
  let res_ptr := s.PTR res                                    -- and.c:42
  let res_alloc := plus + max op1_size op2_size               -- and.c:96
  let (opx1, s) := tmp_sub_1 s op1_ptr op1_size               -- and.c:98-99
  let a := Src.tmp opx1 0                                     -- and.c:100
  let (opx2, s) := tmp_sub_1 s op2_ptr op2_size               -- and.c:102-103
  let b := Src.tmp opx2 0                                     -- and.c:104
  let r := decide (s.ALLOC res < res_alloc)                   -- and.c:106
  let s := if r then _mpz_realloc s res res_alloc else s      -- and.c:108
  let res_ptr := reptr true r s res res_ptr                   -- and.c:109
  let (s, res_size) :=
    if op1_size ≥ op2_size then                               -- and.c:115
      let s := copy_S s (res_ptr.add op2_size) (a.add op2_size) (op1_size - op2_size)   -- and.c:117
      (logop_n (· ||| ·) s res_ptr a b op2_size, op1_size)    -- and.c:119-121
    else
      let s := copy_S s (res_ptr.add op1_size) (b.add op1_size) (op2_size - op1_size)   -- and.c:125
      (logop_n (· ||| ·) s res_ptr a b op1_size, op2_size)    -- and.c:127-129
  let (res_size, s) := addOneTail s res_ptr res_size          -- and.c:132-137
  s.setSize res (sgn true res_size)                           -- and.c:139

/-- and.c:212-265: op1 ≥ 0 (op1_size limbs), op2 < 0 (op2_size = |SIZ op2| limbs) -/
def and_pn (reread : Bool) (s : St) (res op1 op2 : Nat) (op1_size op2_size : Nat) : St :=
  let op1_ptr := s.PTR op1                                    -- and.c:40 / 148
  let op2_ptr := s.PTR op2                                    -- and.c:41 / 148
  let res_ptr := s.PTR res                                    -- and.c:42
  let (opx, s) := tmp_sub_1 s op2_ptr op2_size                -- and.c:213-214
  let b := Src.tmp opx 0                                      -- and.c:215
  if op1_size > op2_size then                                 -- and.c:217
    let res_size := op1_size                                  -- and.c:221
    let r := decide (s.ALLOC res < res_size)                  -- and.c:225
    let s := if r then _mpz_realloc s res res_size else s     -- and.c:227
    let res_ptr := reptr true r s res res_ptr                 -- and.c:228
    let op1_ptr := reptr reread r s op1 op1_ptr               -- and.c:229
    let s := copy_S s (res_ptr.add op2_size) (Src.ptr (op1_ptr.add op2_size)) (res_size - op2_size)   -- and.c:234
    let s := logop_n andn s res_ptr (.ptr op1_ptr) b op2_size -- and.c:236-237
    s.setSize res res_size                                    -- and.c:239
  else
    let (res_size, s) := logop_scan andn s (.ptr op1_ptr) b op1_size   -- and.c:245-248
    let r := decide (s.ALLOC res < res_size)                  -- and.c:252
    let s := if r then _mpz_realloc s res res_size else s     -- and.c:254
    let res_ptr := reptr true r s res res_ptr                 -- and.c:255
    let op1_ptr := reptr reread r s op1 op1_ptr               -- and.c:256
    let s := logop_n andn s res_ptr (.ptr op1_ptr) b res_size -- and.c:261-262
    s.setSize res res_size                                    -- and.c:264

def and_ (reread : Bool) (plus : Nat) (s : St) (res op1 op2 : Nat) : St :=
  let op1_size := s.SIZ op1                                   -- and.c:37
  let op2_size := s.SIZ op2                                   -- and.c:38
  if op1_size ≥ 0 then                                        -- and.c:44
    if op2_size ≥ 0 then and_pp reread s res op1 op2 op1_size.natAbs op2_size.natAbs   -- and.c:46-69
    else and_pn reread s res op1 op2 op1_size.natAbs op2_size.natAbs                   -- and.c:70-73, 212
  else if op2_size < 0 then and_nn plus s res op1 op2 op1_size.natAbs op2_size.natAbs  -- and.c:77-142
  else and_pn reread s res op2 op1 op2_size.natAbs op1_size.natAbs                     -- and.c:147-148 swap

def mpz_and (s : St) (res op1 op2 : Nat) : St := and_ true 1 s res op1 op2

/-! ### mpz_ior — mpz/ior.c -/

/-- ior.c:48-64 (`swap = false`) and :65-81 (`swap = true`: the roles of op1/op2 exchanged): `big` is the operand with
    at least as many limbs.  Also xor.c:48-64 / 65-81 with `f = ^`. -/
def cat_pp (f : Nat → Nat → Nat) (reread : Bool) (s : St) (res op1 op2 big : Nat) (small_size big_size : Nat) : St × Ptr :=
  let op1_ptr := s.PTR op1
  let op2_ptr := s.PTR op2
  let res_ptr := s.PTR res
  let r := decide (s.ALLOC res < big_size)                    -- ior.c:50 / 67
  let s := if r then _mpz_realloc s res big_size else s       -- ior.c:52 / 69
  let op1_ptr := reptr reread r s op1 op1_ptr                 -- ior.c:53 / 70
  let op2_ptr := reptr reread r s op2 op2_ptr                 -- ior.c:54 / 71
  let res_ptr := reptr true r s res res_ptr                   -- ior.c:55 / 72
  let big_ptr := if big = op1 then op1_ptr else op2_ptr
  let s := if res_ptr != big_ptr then                         -- ior.c:58 / 75
      copy_S s (res_ptr.add small_size) (Src.ptr (big_ptr.add small_size)) (big_size - small_size)   -- ior.c:59 / 76
    else s
  (logop_n f s res_ptr (.ptr op1_ptr) (.ptr op2_ptr) small_size, res_ptr)   -- ior.c:61-62 / 78-79

def ior_pp (reread : Bool) (s : St) (res op1 op2 : Nat) (op1_size op2_size : Nat) : St :=
  if op1_size ≥ op2_size then                                 -- ior.c:48
    ((cat_pp (· ||| ·) reread s res op1 op2 op1 op2_size op1_size).1).setSize res op1_size   -- ior.c:63, 83
  else
    ((cat_pp (· ||| ·) reread s res op1 op2 op2 op1_size op2_size).1).setSize res op2_size   -- ior.c:80, 83

/-- `res_ptr[0] = 1; res_size = 1;` or the loop + add-one tail (ior.c:133-150, 215-232) -/
def ior_fin (s : St) (res : Nat) (res_ptr : Ptr) (a b : Src) (res_size count : Nat) : St :=
  let (res_size, s) :=
    if res_size != 0 then                                     -- ior.c:133 / 215
      let s := logop_n (· &&& ·) s res_ptr a b count          -- ior.c:136-137 / 218-219
      addOneTail s res_ptr res_size                           -- ior.c:139-144 / 221-226
    else (1, s.store res_ptr 0 1)                             -- ior.c:148-149 / 230-231
  s.setSize res (sgn true res_size)                           -- ior.c:152 / 234

/-- ior.c:106-153, both negative -/
def ior_nn (s : St) (res op1 op2 : Nat) (op1_size op2_size : Nat) : St :=
  let op1_ptr := s.PTR op1
  let op2_ptr := s.PTR op2
  let res_ptr := s.PTR res
  let res_size := min op1_size op2_size                       -- ior.c:106
  let (opx1, s) := tmp_sub_1 s op1_ptr res_size               -- ior.c:110-112
  let (opx2, s) := tmp_sub_1 s op2_ptr res_size               -- ior.c:114-116
  let a := Src.tmp opx1 0
  let b := Src.tmp opx2 0
  let r := decide (s.ALLOC res < res_size)                    -- ior.c:118
  let s := if r then _mpz_realloc s res res_size else s       -- ior.c:120
  let res_ptr := reptr true r s res res_ptr                   -- ior.c:121
  let (res_size, s) := logop_scan (· &&& ·) s a b res_size    -- ior.c:128-131
  ior_fin s res res_ptr a b res_size res_size                 -- ior.c:133-153

/-- ior.c:176-234: op1 ≥ 0, op2 < 0.  The loop computes `~op1_ptr[i] & op2_ptr[i]`: `andn` with the temporary first. -/
def ior_pn (reread : Bool) (s : St) (res op1 op2 : Nat) (op1_size op2_size : Nat) : St :=
  let op1_ptr := s.PTR op1
  let op2_ptr := s.PTR op2
  let res_ptr := s.PTR res
  let res_alloc := op2_size                                   -- ior.c:178
  let (opx, s) := tmp_sub_1 s op2_ptr op2_size                -- ior.c:180-181
  let b := Src.tmp opx 0                                      -- ior.c:182
  let top := (s.rdS (b.add (op2_size - 1)) 1).headD junk      -- ior.c:183 op2_ptr[op2_size - 1]
  let s := s.chk (s.rdOkS (b.add (op2_size - 1)) 1)
  let op2_size := op2_size - (if top == 0 then 1 else 0)      -- ior.c:183
  let r := decide (s.ALLOC res < res_alloc)                   -- ior.c:185
  let s := if r then _mpz_realloc s res res_alloc else s      -- ior.c:187
  let op1_ptr := reptr reread r s op1 op1_ptr                 -- ior.c:188
  let res_ptr := reptr true r s res res_ptr                   -- ior.c:189
  if op1_size ≥ op2_size then                                 -- ior.c:194
    let (res_size, s) := logop_scan andn s b (.ptr op1_ptr) op2_size   -- ior.c:200-203
    ior_fin_pn s res res_ptr b (.ptr op1_ptr) res_size res_size        -- ior.c:204, 215-234
  else
    let s := copy_S s (res_ptr.add op1_size) (b.add op1_size) (op2_size - op1_size)   -- ior.c:211
    ior_fin_pn s res res_ptr b (.ptr op1_ptr) op2_size op1_size        -- ior.c:208, 212, 215-234
where
  ior_fin_pn (s : St) (res : Nat) (res_ptr : Ptr) (a b : Src) (res_size count : Nat) : St :=
    let (res_size, s) :=
      if res_size != 0 then                                   -- ior.c:215
        let s := logop_n andn s res_ptr a b count             -- ior.c:218-219
        addOneTail s res_ptr res_size                         -- ior.c:221-226
      else (1, s.store res_ptr 0 1)                           -- ior.c:230-231
    s.setSize res (sgn true res_size)                         -- ior.c:234

def ior_ (reread : Bool) (s : St) (res op1 op2 : Nat) : St :=
  let op1_size := s.SIZ op1
  let op2_size := s.SIZ op2
  if op1_size ≥ 0 then
    if op2_size ≥ 0 then ior_pp reread s res op1 op2 op1_size.natAbs op2_size.natAbs
    else ior_pn reread s res op1 op2 op1_size.natAbs op2_size.natAbs
  else if op2_size < 0 then ior_nn s res op1 op2 op1_size.natAbs op2_size.natAbs
  else ior_pn reread s res op2 op1 op2_size.natAbs op1_size.natAbs       -- ior.c:159-160 swap

def mpz_ior (s : St) (res op1 op2 : Nat) : St := ior_ true s res op1 op2

/-! ### mpz_xor — mpz/xor.c -/

/-- xor.c:46-86 -/
def xor_pp (reread : Bool) (s : St) (res op1 op2 : Nat) (op1_size op2_size : Nat) : St :=
  let (s, res_ptr, res_size) :=
    if op1_size ≥ op2_size then                               -- xor.c:48
      let r := cat_pp (· ^^^ ·) reread s res op1 op2 op1 op2_size op1_size   -- xor.c:50-63
      (r.1, r.2, op1_size)
    else
      let r := cat_pp (· ^^^ ·) reread s res op1 op2 op2 op1_size op2_size   -- xor.c:67-80
      (r.1, r.2, op2_size)
  let (res_size, s) := MPN_NORMALIZE s res_ptr res_size       -- xor.c:83
  s.setSize res res_size                                      -- xor.c:84

/-- xor.c:126-141 / 182-195: copy the longer operand's high part, xor the overlap -/
def xor_cat (s : St) (res_ptr : Ptr) (a b : Src) (op1_size op2_size : Nat) : St × Nat :=
  if op1_size > op2_size then                                 -- xor.c:126 / 182
    let s := copy_S s (res_ptr.add op2_size) (a.add op2_size) (op1_size - op2_size)   -- xor.c:128 / 184
    (logop_n (· ^^^ ·) s res_ptr a b op2_size, op1_size)      -- xor.c:130-132 / 185-187
  else
    let s := copy_S s (res_ptr.add op1_size) (b.add op1_size) (op2_size - op1_size)   -- xor.c:136 / 191
    (logop_n (· ^^^ ·) s res_ptr a b op1_size, op2_size)      -- xor.c:138-140 / 192-194

/-- xor.c:104-146, both negative -/
def xor_nn (s : St) (res op1 op2 : Nat) (op1_size op2_size : Nat) : St :=
  let op1_ptr := s.PTR op1
  let op2_ptr := s.PTR op2
  let res_ptr := s.PTR res
  let (opx1, s) := tmp_sub_1 s op1_ptr op1_size               -- xor.c:108-110
  let (opx2, s) := tmp_sub_1 s op2_ptr op2_size               -- xor.c:112-114
  let a := Src.tmp opx1 0
  let b := Src.tmp opx2 0
  let res_alloc := max op1_size op2_size                      -- xor.c:116
  let r := decide (s.ALLOC res < res_alloc)                   -- xor.c:117
  let s := if r then _mpz_realloc s res res_alloc else s      -- xor.c:119
  let res_ptr := reptr true r s res res_ptr                   -- xor.c:120
  let (s, res_size) := xor_cat s res_ptr a b op1_size op2_size   -- xor.c:126-141
  let (res_size, s) := MPN_NORMALIZE s res_ptr res_size       -- xor.c:143
  s.setSize res res_size                                      -- xor.c:144

/-- xor.c:166-206: op1 ≥ 0, op2 < 0; `plus` = 1 in the C -/
def xor_pn (reread : Bool) (plus : Nat) (s : St) (res op1 op2 : Nat) (op1_size op2_size : Nat) : St :=
  let op1_ptr := s.PTR op1
  let op2_ptr := s.PTR op2
  let res_ptr := s.PTR res
  let (opx, s) := tmp_sub_1 s op2_ptr op2_size                -- xor.c:168-169
  let b := Src.tmp opx 0                                      -- xor.c:170
  let res_alloc := max op1_size op2_size + plus               -- xor.c:172
  let r := decide (s.ALLOC res < res_alloc)                   -- xor.c:173
  let s := if r then _mpz_realloc s res res_alloc else s      -- xor.c:175
  let op1_ptr := reptr reread r s op1 op1_ptr                 -- xor.c:176
  let res_ptr := reptr true r s res res_ptr                   -- xor.c:177
  let (s, res_size) := xor_cat s res_ptr (.ptr op1_ptr) b op1_size op2_size   -- xor.c:182-195
  let (res_size, s) := addOneTail s res_ptr res_size          -- xor.c:197-202
  let (res_size, s) := MPN_NORMALIZE s res_ptr res_size       -- xor.c:204
  s.setSize res (sgn true res_size)                           -- xor.c:205

def xor_ (reread : Bool) (plus : Nat) (s : St) (res op1 op2 : Nat) : St :=
  let op1_size := s.SIZ op1
  let op2_size := s.SIZ op2
  if op1_size ≥ 0 then
    if op2_size ≥ 0 then xor_pp reread s res op1 op2 op1_size.natAbs op2_size.natAbs
    else xor_pn reread plus s res op1 op2 op1_size.natAbs op2_size.natAbs
  else if op2_size < 0 then xor_nn s res op1 op2 op1_size.natAbs op2_size.natAbs
  else xor_pn reread plus s res op2 op1 op2_size.natAbs op1_size.natAbs  -- xor.c:151-152 swap

def mpz_xor (s : St) (res op1 op2 : Nat) : St := xor_ true 1 s res op1 op2

/-! ### mpz_mul_ui — mpz/mul_i.h (no nails: lines 75-97 compiled out) -/

/-- `plus` = 1 in the C (`MPZ_REALLOC (prod, size + 1)`); `small_mult < B` -/
def mul_ui (plus : Nat) (s : St) (prod mult : Nat) (small_mult : Nat) : St :=
  let size := s.SIZ mult                                      -- mul_i.h:51
  if size == 0 || small_mult == 0 then s.setSize prod 0       -- mul_i.h:57-61
  else
    let size := size.natAbs                                   -- mul_i.h:63
    let sign_product := s.SIZ mult                            -- mul_i.h:52
    let s := MPZ_REALLOC s prod (size + plus)                 -- mul_i.h:69
    let pp := s.PTR prod                                      -- mul_i.h:70
    let (s, cy) := mpn_mul_1 s pp (s.PTR mult) size small_mult   -- mul_i.h:71
    let s := s.store pp size cy                               -- mul_i.h:72
    let size := size + (if cy != 0 then 1 else 0)             -- mul_i.h:73
    s.setSize prod (sgn (sign_product < 0) size)              -- mul_i.h:99

def mpz_mul_ui (s : St) (prod mult : Nat) (small_mult : Nat) : St := mul_ui 1 s prod mult small_mult

end Mpir.AllocSafe
