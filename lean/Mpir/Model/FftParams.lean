/-
  Parameter selection of `mpn_mul_fft_main` (/repo/fft/mul_fft_main.c), a hand-written mirror of the
  pure integer code of that function, statement by statement.  Core Lean only.

  C types: `mp_size_t` (signed 64) for off, depth, w, n, j1, j2; `mp_bitcnt_t` (unsigned 64) for bits,
  bits1, bits2.  All quantities are positive and far below 2^63 for any operand that fits in memory, so
  they are modelled as `Nat`; the only subtraction that could truncate is `n*w - (depth+1)`
  (`fft_params_sound` proves `depth + 1 ≤ n*w` on every path) and `bits1 - 1` (n1 ≥ 1).
-/
namespace Mpir.FftParams

/-- `GMP_LIMB_BITS` -/
def limbBits : Nat := 64

/-- `bits = (n*w - (depth+1))/2`  (mul_fft_main.c:43, :65, :85; mul_trunc_sqrt2.c:38) -/
def bitsOf (depth w : Nat) : Nat := (2 ^ depth * w - (depth + 1)) / 2

/-- `j = (bitsN - 1)/bits + 1`  (mul_fft_main.c:48-49, :66-67, :86-87) -/
def coeffs (bitsN bits : Nat) : Nat := (bitsN - 1) / bits + 1

/-- `j1 + j2 - 1` for operands of `b1`, `b2` bits at parameters (depth, w) -/
def trunc (b1 b2 depth w : Nat) : Nat :=
  coeffs b1 (bitsOf depth w) + coeffs b2 (bitsOf depth w) - 1

/-- mul_fft_main.c:55-68  `while (j1 + j2 - 1 > 4*n) { if (w == 1) w = 2; else { depth++; w = 1; n *= 2; } bits = ...; j1 = ...; j2 = ...; }`
    (n is always 2^depth; j1, j2 are always the values recomputed from the current depth, w). -/
def findInit (b1 b2 : Nat) : Nat → Nat → Nat → Option (Nat × Nat)
  | 0, _, _ => none
  | fuel + 1, depth, w =>
    if trunc b1 b2 depth w > 4 * 2 ^ depth then
      if w = 1 then findInit b1 b2 fuel depth 2
      else findInit b1 b2 fuel (depth + 1) 1
    else some (depth, w)

/-- mul_fft_main.c:83-89
    `do { w -= wadj; bits = ...; j1 = ...; j2 = ...; } while (j1 + j2 - 1 <= 4*n && w > wadj); w += wadj;`
    entered with w > wadj.  Fuel = w (w strictly decreases). -/
def smallerW (b1 b2 depth wadj : Nat) : Nat → Nat → Nat
  | 0, w => w
  | fuel + 1, w =>
    let w' := w - wadj                                   -- :84
    if trunc b1 b2 depth w' ≤ 4 * 2 ^ depth ∧ w' > wadj then   -- :88
      smallerW b1 b2 depth wadj fuel w'
    else w' + wadj                                       -- :89

/-- `mpir_fft_tuning_table[depth - 6][w - 1]`  (mul_fft_main.c:35, :74) -/
def tabGet (tab : List (List Int)) (depth w : Nat) : Nat :=
  ((tab.getD (depth - 6) []).getD (w - 1) 0).toNat

/-- Which transform `mpn_mul_fft_main` ends up calling and with which parameters. -/
structure Choice where
  mfa : Bool        -- false: mpn_mul_trunc_sqrt2 (:92), true: mpn_mul_mfa_trunc_sqrt2 (:101)
  depth : Nat
  w : Nat
  deriving Repr, DecidableEq, Inhabited

/-- mul_fft_main.c:70-102 applied to the (depth, w) found by the first loop. -/
def adjust (tab : List (List Int)) (b1 b2 depth w : Nat) : Choice :=
  if depth < 11 then                                              -- :70
    let off := tabGet tab depth w                                 -- :74
    let depth := depth - off                                      -- :75   (n = 1 << depth, :76)
    let w := w * 2 ^ (2 * off)                                    -- :77
    let wadj := if depth < 6 then 2 ^ (6 - depth) else 1          -- :72, :79
    let w := if w > wadj then smallerW b1 b2 depth wadj w w else w  -- :81-90
    ⟨false, depth, w⟩                                             -- :92
  else
    if trunc b1 b2 depth w ≤ 3 * 2 ^ depth then ⟨true, depth - 1, w * 3⟩   -- :95-99
    else ⟨true, depth, w⟩                                         -- :101

/-- Fuel for the first loop: two iterations per depth step, depth ≤ (log2(bits)+7)/2 suffices. -/
def initFuel (n1 n2 : Nat) : Nat := 2 * (Nat.log2 (n1 + n2) + 8)

/-- The whole parameter selection: `mpn_mul_fft_main(r, i1, n1, i2, n2)` with table `tab`.
    `none` only if the fuel bound were wrong (first loop not finished). -/
def fftParams (tab : List (List Int)) (n1 n2 : Nat) : Option Choice :=
  let b1 := n1 * limbBits                                         -- :45
  let b2 := n2 * limbBits                                         -- :46
  match findInit b1 b2 (initFuel n1 n2) 6 1 with                  -- :40-41, :55-68
  | none => none
  | some (depth, w) => some (adjust tab b1 b2 depth w)

/-- What the transforms need (read off mul_trunc_sqrt2.c / mul_mfa_trunc_sqrt2.c):
    * `limbs = (n*w)/GMP_LIMB_BITS` must be exact: coefficients are `limbs`-limb residues mod 2^(n*w)+1;
    * `bits1 ≥ 1` (it is a divisor) and `depth + 1 ≤ n*w` (no unsigned wrap in `n*w - (depth+1)`);
    * `j1 + j2 - 1 ≤ 4n`: the product polynomial fits the transform length (`ii` has 4n entries);
    * `2*bits1 + depth + 1 ≤ n*w`: each product coefficient is < min(j1,j2) * 2^(2*bits1) ≤ 2n * 2^(2 bits1)
      = 2^(2 bits1 + depth + 1) ≤ 2^(n*w), so it is recovered exactly from its residue mod 2^(n*w)+1. -/
def Sound (n1 n2 : Nat) (c : Choice) : Prop :=
  let n := 2 ^ c.depth
  let bits := bitsOf c.depth c.w
  limbBits ∣ n * c.w ∧ 1 ≤ bits ∧ c.depth + 1 ≤ n * c.w ∧
  trunc (n1 * limbBits) (n2 * limbBits) c.depth c.w ≤ 4 * n ∧
  2 * bits + c.depth + 1 ≤ n * c.w ∧
  (c.mfa = true → 1 ≤ c.depth)

instance (n1 n2 : Nat) (c : Choice) : Decidable (Sound n1 n2 c) := by unfold Sound; infer_instance

end Mpir.FftParams
