/-
  C14: specifications (by value) of the optional / internal mpn kernels that CPU directories ship in assembly, and of
  the threshold-steered entry points re-run under every tuning table.  Core Lean only.

  These are *specifications*, not mirrors of C loops: every function is the documented arithmetic meaning of the
  routine on the little-endian value of its operands (`val`), cut back to limbs with `toLimbs`.  Where MPIR documents
  a routine only by its code (mpn_add_err1_n, mpn_divexact_byff, mpn_divexact_byfobm1, mpn_redc_1) the definition
  follows the portable C routine (file cited), which is what an assembly kernel has to agree with.
-/
import Mpir.Base
namespace Mpir.C14

open Mpir

def pw (n : Nat) : Nat := B ^ n

/-- result limbs and carry-out of an n-limb value `t >= 0` -/
def cut (n t : Nat) : List Nat × Nat := (toLimbs n (t % pw n), t / pw n)

/-- n-limb two's-complement result and borrow-out (>= 0) of an integer `t <= B^n - 1` -/
def cutI (n : Nat) (t : Int) : List Nat × Nat :=
  let r := (t % (pw n : Int)).toNat
  (toLimbs n r, (((r : Int) - t) / (pw n : Int)).toNat)

/-- mpn_addlsh_n: {u} + ({v} << c), carry-out (gmp-impl.h:880; mpn/x86_64/k8/addlsh_n.asm:24) -/
def addlsh_n (u v : List Nat) (c : Nat) : List Nat × Nat := cut u.length (val u + val v * 2 ^ c)
/-- mpn_sublsh_n: {u} - ({v} << c), borrow-out -/
def sublsh_n (u v : List Nat) (c : Nat) : List Nat × Nat := cutI u.length ((val u : Int) - (val v * 2 ^ c : Nat))
/-- mpn_add_nc / mpn_sub_nc: carry-in variants of add_n / sub_n -/
def add_nc (u v : List Nat) (ci : Nat) : List Nat × Nat := cut u.length (val u + val v + ci)
def sub_nc (u v : List Nat) (ci : Nat) : List Nat × Nat := cutI u.length ((val u : Int) - val v - ci)

/-- gmp-impl.h:892: "sets {c,n} to ({a,n} + {b,n}) >> 1, and returns the bit rshifted out" -/
def rsh1add_n (u v : List Nat) : List Nat × Nat :=
  let s := val u + val v
  (toLimbs u.length (s / 2), s % 2)
/-- gmp-impl.h:897: ({a,n} - {b,n}) >> 1; a borrow is stored "as a 1 in the high bit of c[n-1], like a twos complement negative" -/
def rsh1sub_n (u v : List Nat) : List Nat × Nat :=
  let n := u.length
  let d := (((val u : Int) - val v) % ((2 * pw n : Nat) : Int)).toNat     -- (64n+1)-bit two's complement
  (toLimbs n (d / 2), d % 2)

/-- mpn_lshift by a constant k (mpn_lshift1, mpn_lshift2, mpn_double): limbs and the bits shifted out -/
def lshiftk (u : List Nat) (k : Nat) : List Nat × Nat := cut u.length (val u * 2 ^ k)
/-- mpn_rshift by a constant k (mpn_rshift1, mpn_rshift2, mpn_half): the bits shifted out are returned in the high bits -/
def rshiftk (u : List Nat) (k : Nat) : List Nat × Nat := (toLimbs u.length (val u / 2 ^ k), (val u % 2 ^ k) * 2 ^ (64 - k))
/-- mpn_lshiftc: one's complement of the shifted limbs; the bits shifted out are returned uncomplemented -/
def lshiftc (u : List Nat) (c : Nat) : List Nat × Nat :=
  let n := u.length; let t := val u * 2 ^ c
  (toLimbs n (pw n - 1 - t % pw n), t / pw n)
def not_n (u : List Nat) : List Nat := toLimbs u.length (pw u.length - 1 - val u)

/-- mpn_addadd_n: x + y + z, carry 0..2 (mpn/generic/addadd_n.c) -/
def addadd_n (x y z : List Nat) : List Nat × Nat := cut x.length (val x + val y + val z)
/-- mpn_addsub_n: x + y - z, returns carry - borrow in {-1,0,1} (mpn/generic/addsub_n.c) -/
def addsub_n (x y z : List Nat) : List Nat × Int :=
  let n := x.length; let t : Int := (val x : Int) + val y - val z
  (toLimbs n (t % (pw n : Int)).toNat, t / (pw n : Int))
/-- mpn_subadd_n: x - y - z, borrow 0..2 (mpn/generic/subadd_n.c) -/
def subadd_n (x y z : List Nat) : List Nat × Nat := cutI x.length ((val x : Int) - val y - val z)
/-- mpn_sumdiff_n: s = x + y, d = x - y, returns 2*carry + borrow (mpn/generic/sumdiff_n.c, tests/refmpn.c refmpn_sumdiff_n) -/
def sumdiff_n (x y : List Nat) : List Nat × List Nat × Nat :=
  let (s, c) := cut x.length (val x + val y); let (d, b) := cutI x.length ((val x : Int) - val y)
  (s, d, 2 * c + b)
/-- mpn_nsumdiff_n: s = -(x + y), d = x - y, returns 2*(carry(x+y) + [s != 0]) + borrow
    (tests/refmpn.c refmpn_nsumdiff_n; mpn/x86_64/haswell/nsumdiff_n.as header) -/
def nsumdiff_n (x y : List Nat) : List Nat × List Nat × Nat :=
  let n := x.length; let t := val x + val y
  let (d, b) := cutI n ((val x : Int) - val y)
  (toLimbs n ((pw n - t % pw n) % pw n), d, 2 * (t / pw n + (if t % pw n = 0 then 0 else 1)) + b)

def popcountNat (v : Nat) : Nat :=
  let rec go (fuel v acc : Nat) : Nat := match fuel with
    | 0 => acc
    | f + 1 => if v = 0 then acc else go f (v / 2) (acc + v % 2)
  go (v.log2 + 2) v 0
def popcount (u : List Nat) : Nat := (u.map popcountNat).foldl (· + ·) 0
def hamdist (u v : List Nat) : Nat := ((List.zip u v).map (fun p => popcountNat (p.1 ^^^ p.2))).foldl (· + ·) 0

/-- mpn_mul_2: {rp,n+1} = low limbs of {u,n}*{v,2}, returns the top limb (mpn/x86_64/k8/mul_2.as:21) -/
def mul_2 (u v : List Nat) : List Nat × Nat := cut (u.length + 1) (val u * val v)
/-- mpn_addmul_2: {rp,n+1} = {rp,n} + {u,n}*{v,2}, returns the carry limb (mpn/x86_64/k8/addmul_2.as:23) -/
def addmul_2 (r u v : List Nat) : List Nat × Nat := cut (u.length + 1) (val r + val u * val v)
def addmul_1c (r u : List Nat) (v c : Nat) : List Nat × Nat := cut u.length (val r + val u * v + c)
def submul_1c (r u : List Nat) (v c : Nat) : List Nat × Nat := cutI u.length ((val r : Int) - (val u * v : Nat) - c)
def sqr (u : List Nat) : List Nat := toLimbs (2 * u.length) (val u * val u)
def mullow (u v : List Nat) : List Nat := toLimbs u.length (val u * val v % pw u.length)

/-- mpn_mulmid_basecase: sum of u[i]*v[j]*B^(i+j-vn+1) over vn-1 <= i+j <= un-1, un-vn+3 limbs (mpn/generic/mulmid_basecase.c) -/
def mulmid (u v : List Nat) : List Nat :=
  let un := u.length; let vn := v.length
  let ui := u.zipIdx; let vj := v.zipIdx
  let t := ui.foldl (fun acc (x, i) => vj.foldl (fun acc (y, j) =>
      if vn - 1 ≤ i + j ∧ i + j ≤ un - 1 then acc + x * y * pw (i + j - (vn - 1)) else acc) acc) 0
  toLimbs (un - vn + 3) t

/-- mpn_add_err1_n / mpn_sub_err1_n (mpn/generic/add_err1_n.c): ordinary add/sub with carry-in; the two-limb value
    sum over i of c[i+1]*y[n-1-i] where c[i+1] is the carry out of limb i. `ys` lists the error operands (1 or 2). -/
def errN (sub : Bool) (u v : List Nat) (ys : List (List Nat)) (cy : Nat) : List Nat × List Nat × Nat :=
  let n := u.length
  let yrs := ys.map List.reverse
  let rec go : List Nat → List Nat → List (List Nat) → Nat → List Nat → List Nat → List Nat × List Nat × Nat
    | a :: us, b :: vs, yr, c, racc, es =>
        let (rl, c') := if sub then (if a ≥ b + c then (a - b - c, 0) else (a + B - b - c, 1))
                        else ((a + b + c) % B, (a + b + c) / B)
        let es' := List.zipWith (fun e (y : List Nat) => e + c' * y.headD 0) es yr
        go us vs (yr.map List.tail) c' (rl :: racc) es'
    | _, _, _, c, racc, es => (racc.reverse, es.flatMap (fun e => [e % B, e / B % B]), c)
  go (u.take n) v yrs cy [] (ys.map (fun _ => 0))

/-- mpn_divexact_byff (mpn/generic/divexact_byff.c): the loop of the C routine -/
def divexact_byff (x : List Nat) : List Nat × Nat :=
  let (q, a) := x.foldl (fun (acc : List Nat × Nat) t =>
      let a := acc.2; let b := if t > a then 1 else 0
      let a1 := (a + B - t) % B
      (a1 :: acc.1, (a1 + B - b) % B)) ([], 0)
  (q.reverse, a)

/-- mpn_divexact_byfobm1 (mpn/generic/divexact_byfobm1.c): the loop of the C routine, f * Bm1of = B - 1 -/
def divexact_byfobm1 (x : List Nat) (f : Nat) : List Nat × Nat :=
  let m := (B - 1) / f
  let (q, acc) := x.foldl (fun (st : List Nat × Nat) t =>
      let acc := st.2; let p := t * m; let ax := p % B; let dx := p / B
      let c := if acc < ax then 1 else 0
      let acc1 := (acc + B - ax) % B
      (acc1 :: st.1, (acc1 + 2 * B - (dx + c) % B) % B)) ([], 0)
  (q.reverse, acc * ((B - f) % B) % B)

/-- inverse of an odd limb modulo B by Newton iteration -/
def limbInv (m0 : Nat) : Nat :=
  let step := fun x => x * ((2 + B * B - m0 * x % B) % B) % B
  step (step (step (step (step (step m0)))))

/-- mpn_redc_1 (mpn/generic/redc_1.c): n rounds t := (t + q*m)/B with q = t[0] * (-1/m[0]) mod B; then the
    conditional subtraction of m exactly when the final addition carries out of n limbs. -/
def redc_1 (t m : List Nat) : List Nat :=
  let n := m.length; let vm := val m
  let np := (B - limbInv (m.headD 1)) % B
  let s := (List.range n).foldl (fun tv _ => (tv + (tv % B * np % B) * vm) / B) (val t)
  toLimbs n (if s ≥ pw n then (s - vm) % pw n else s)

/-- mpn_karaadd / mpn_karasub (mul_n.c:40-160): rp = L | H with L = 2*n2 limbs, H = 2*n3 limbs, tp = M (2*n3 limbs);
    rp += (L + H ± M) * B^n2, for operands that come from a real Karatsuba step (the sum fits 2n limbs). -/
def kara (sub : Bool) (rp tp : List Nat) : List Nat :=
  let n := rp.length / 2; let n2 := n / 2
  let l := val (rp.take (2 * n2)); let h := val (rp.drop (2 * n2)); let m := val tp
  let mid : Int := (l : Int) + h + (if sub then -(m : Int) else (m : Int))
  toLimbs (2 * n) (((val rp : Int) + mid * (pw n2 : Nat)) % ((pw (2 * n) : Nat) : Int)).toNat


/-- mpn_mod_1_1 / _2 / _3 (mpn/generic/mod_1_1.c, mod_1_2.c, mod_1_3.c): the two-limb value the C loops produce from the
    table db[i] = B^(i+1) mod d; every step is an exact linear combination, kept modulo B^2 as add_ssaaaa does. -/
def dbTab (d : Nat) : List Nat := [B % d, B ^ 2 % d, B ^ 3 % d, B ^ 4 % d]

def mod_1_k (k : Nat) (x : List Nat) (d : Nat) : List Nat :=
  let B2 := B * B
  let xa := x.toArray; let xn := x.length
  let db := (dbTab d).toArray
  let X := fun (i : Nat) => xa.getD i 0
  let D := fun (i : Nat) => db.getD i 0
  let fin := fun (t : Nat) => let r := ((t / B) * D 0 + t % B) % B2; [r % B, r / B]
  let t0 := X (xn - 1) * B + X (xn - 2)
  match k with
  | 1 =>
    -- for (j = xn-3; j >= 0; j--) { s = l*db0 + x[j]; (h:l) = h*db1 + s }
    fin ((List.range (xn - 2)).foldl (fun t i => let j := xn - 3 - i
      ((t / B) * D 1 + ((t % B) * D 0 + X j)) % B2) t0)
  | 2 =>
    let rounds := (xn - 2) / 2              -- j = xn-4, xn-6, ... >= 0
    let t := (List.range rounds).foldl (fun t i => let j := xn - 4 - 2 * i
      ((t / B) * D 2 + (X (j + 1) * D 0 + X j + (t % B) * D 1)) % B2) t0
    let t := if (xn - 2) % 2 = 1 then ((t / B) * D 1 + ((t % B) * D 0 + X 0)) % B2 else t
    fin t
  | _ =>
    let rounds := (xn - 2) / 3              -- j = xn-5, xn-8, ... >= 0
    let t := (List.range rounds).foldl (fun t i => let j := xn - 5 - 3 * i
      ((t / B) * D 3 + (X (j + 1) * D 0 + X j + X (j + 2) * D 1 + (t % B) * D 2)) % B2) t0
    let left := (xn - 2) % 3               -- limbs x[0..left) still to absorb: 0, 1 (j = -2) or 2 (j = -1)
    let t := if left = 2 then ((t / B) * D 2 + (X 1 * D 0 + X 0 + (t % B) * D 1)) % B2
             else if left = 1 then ((t / B) * D 1 + (X 0 + (t % B) * D 0)) % B2 else t
    fin t

/-- inverse of an odd number modulo 2^k (Newton) -/
def invPow2 (d k : Nat) : Nat :=
  let m := 2 ^ k
  let rec go (fuel x : Nat) : Nat := match fuel with
    | 0 => x
    | f + 1 => go f (x * ((2 * m + 2 - d * x % m) % m) % m)
  go (k.log2 + 3) 1

/-- Hensel division by an odd limb d (mpn/generic/divrem_hensel_qr_1_1.c): {x,n} - cin = q*d - ret*B^n with q < B^n;
    returns (q, ret).  `cin` is the limb the rsh_ variants subtract first (0 for the plain ones). -/
def hensel (x : List Nat) (d cin : Nat) : Nat × Nat :=
  let n := x.length; let m := pw n
  let xv : Int := (val x : Int) - cin
  let q := ((xv % (m : Int)).toNat * invPow2 d (64 * n)) % m
  (q, (((q * d : Nat) : Int) - xv) / (m : Int) |>.toNat)

/-! ### value level -/

def powMod (b e m : Nat) : Nat :=
  let rec go (fuel b e acc : Nat) : Nat := match fuel with
    | 0 => acc
    | f + 1 => if e = 0 then acc else go f (b * b % m) (e / 2) (if e % 2 = 1 then acc * b % m else acc)
  if m = 1 then 0 else go (e.log2 + 2) (b % m) e 1

def digitChar (base d : Nat) : UInt8 :=
  if d < 10 then UInt8.ofNat (48 + d)
  else if base ≤ 36 then UInt8.ofNat (97 + d - 10)          -- mpz_get_str: lower case for bases 2..36
  else if d < 36 then UInt8.ofNat (65 + d - 10)             -- bases 37..62: digits, upper case, lower case
  else UInt8.ofNat (97 + d - 36)

def getStr (base : Nat) (z : Int) : List UInt8 :=
  let rec go (fuel v : Nat) (acc : List UInt8) : List UInt8 := match fuel with
    | 0 => acc
    | f + 1 => if v = 0 then acc else go f (v / base) (digitChar base (v % base) :: acc)
  let ds := if z = 0 then [UInt8.ofNat 48] else go (z.natAbs.log2 + 2) z.natAbs []
  if z < 0 then UInt8.ofNat 45 :: ds else ds

def digitVal (base : Nat) (c : UInt8) : Option Nat :=
  let c := c.toNat
  let d := if 48 ≤ c ∧ c ≤ 57 then some (c - 48)
           else if 65 ≤ c ∧ c ≤ 90 then some (c - 65 + 10)
           else if 97 ≤ c ∧ c ≤ 122 then some (if base ≤ 36 then c - 97 + 10 else c - 97 + 36)
           else none
  d.bind (fun d => if d < base then some d else none)

/-- mpz_set_str on a plain digit string with optional leading '-' (no white space, no prefix): value or none -/
def setStr (base : Nat) (s : List UInt8) : Option Int :=
  let (neg, ds) := match s with
    | c :: rest => if c.toNat = 45 then (true, rest) else (false, s)
    | [] => (false, [])
  if ds.isEmpty then none else
  (ds.foldl (fun acc c => match acc, digitVal base c with
      | some a, some d => some (a * base + d)
      | _, _ => none) (some 0)).map (fun v => if neg then -(v : Int) else (v : Int))

def fac (n : Nat) : Nat := (List.range n).foldl (fun acc i => acc * (i + 1)) 1

/-- modular inverse in [0, m) if gcd(a, m) = 1, by the extended Euclidean algorithm -/
def invMod (a m : Nat) : Option Nat :=
  let rec go (fuel : Nat) (r0 r1 : Nat) (s0 s1 : Int) : Option Nat := match fuel with
    | 0 => none
    | f + 1 => if r1 = 0 then (if r0 = 1 then some (s0 % (m : Int)).toNat else none)
               else go f r1 (r0 % r1) s1 (s0 - (r0 / r1 : Nat) * s1)
  go (2 * m.log2 + 8) (a % m) m 1 0

end Mpir.C14
