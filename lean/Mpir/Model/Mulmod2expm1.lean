/-
  C08 / C01: mpn_mulmod_2expm1 and mpn_mulmod_bnm1 (mpn/generic/mulmod_2expm1.c), limb level.
  Core Lean only (linked into the driver).

  Source mirrored (ops in Mpir/Ops/Mulmod2expm1.lean, C side harness/ops_mm1.c):
    mulmod_2expm1.c:37-100    mpn_mulmod_2expm1_basecase   basecase
    mulmod_2expm1.c:114-291   mpn_mulmod_2expm1            mm1F / mm1 (the recursion on S, the call of
                                                           mpn_mulmod_2expp1_basecase on D with the flags c1, c2)
    mulmod_2expm1.c:296-338   mpn_mulmod_bnm1              bnm1
    gmp-impl.h:3876           mpn_mulmod_bnm1_next_size    (Mpir.Hgcd.bnm1NextSize, model of another part)
  `mpn_mul_n` is taken by its mathematical meaning (C01), `mpn_half` is `mpn_rshift1` (gmp-impl.h:2365),
  the +1 half `mpn_mulmod_2expp1_basecase` is a parameter `pp1` (the driver passes
  `Fft.mulmod_2expp1_basecase`; its result is unique — fully reduced — so the FFT branch of the C, taken for
  h = 64·m, m > FFT_MULMOD_2EXPP1_CUTOFF, returns the same limbs).
  Every function returns a flag that is false when a carry leaves an `MPN_INCR_U` (the C would run past the
  operand) or when an `ASSERT` of the C fails.
-/
import Mpir.Base
import Mpir.Model.Kernels
import Mpir.Model.FftRing
namespace Mpir.Mm1
open Mpir Mpir.Fft

/-- `x[n-1] &= GMP_NUMB_MASK >> k` -/
def maskK (x : List Nat) (n k : Nat) : List Nat := setAt x (n - 1) (x.getD (n - 1) 0 &&& (2 ^ (64 - k) - 1))

/-- mpn_mulmod_2expm1_basecase (mulmod_2expm1.c:37-100) -/
def basecase (yp zp : List Nat) (b : Nat) : List Nat × Bool :=
  let n := (b + 63) / 64                                   -- :44
  let k := 64 * n - b                                      -- :45
  let tp := toLimbs (2 * n) (val yp * val zp)              -- :61 mpn_mul_n (tp, yp, zp, n)
  if k = 0 then
    let (xp, c) := add_n (tp.take n) (tp.drop n)           -- :65
    let (xp, co) := add_1 xp c                             -- :66 MPN_INCR_U (xp, n, c)
    (xp, co == 0)
  else
    let c := tp.getD (n - 1) 0                             -- :71
    let tp := setAt tp (n - 1) (c &&& (2 ^ (64 - k) - 1))  -- :72
    let (hi, c1) := lshift (tp.drop n) k                   -- :80
    let hi := setAt hi 0 (hi.getD 0 0 ||| (c >>> (64 - k)))    -- :81
    let (xp, c2) := add_n (tp.take n) hi                   -- :82
    let ok1 := c2 + c1 == 0                                -- :84 ASSERT (c == 0)
    let c := xp.getD (n - 1) 0 >>> (64 - k)                -- :88
    let xp := maskK xp n k                                 -- :89
    let (xp, co) := add_1 xp c                             -- :90 MPN_INCR_U (xp, n, c)
    (xp, ok1 && co == 0)

/-- mulmod_2expm1.c:164-193 (and :195-224 for z): from `yp` (n limbs) the two halves
    `typm = y mod 2^h − 1` (not fully reduced), `typp = y mod 2^h + 1` with the flag for the value 2^h. -/
def split (yp : List Nat) (n m k : Nat) : List Nat × List Nat × Nat × Bool :=
  if k = 0 then
    let (tpm, tpp, c) := sumdiff_n (yp.take m) ((yp.drop m).take m)    -- :166
    let (tpm, co) := add_1 tpm (c / 2)                     -- :167 MPN_INCR_U (typm, m, c >> 1)
    let (tpp, c1) := add_1 tpp (c % 2)                     -- :168
    (tpm, tpp, c1, co == 0)
  else
    let (tpp, _) := rshift ((yp.drop (m - 1)).take m) (64 - k)         -- :172
    let tpp := if n = 2 * m then
        setAt tpp (m - 1) (tpp.getD (m - 1) 0 ||| ((yp.getD (2 * m - 1) 0 <<< k) % B))   -- :175
      else tpp
    let ylo := maskK (yp.take m) m k                       -- :180-181 car = yp[m-1]; yp[m-1] &= mask
    let (tpm, tpp, c1) := sumdiff_n ylo tpp                -- :185
    let c := tpm.getD (m - 1) 0 >>> (64 - k)               -- :186
    -- :187 yp[m - 1] = car
    let (tpm, co) := add_1 tpm c                           -- :188 MPN_INCR_U (typm, m, c)
    let (tpp, c1) := add_1 tpp c1                          -- :189
    (maskK tpm m k, maskK tpp m k, c1, co == 0)            -- :190-191

/-- mulmod_2expm1.c:229-265: the CRT recombination before the final halving; returns (S, D). -/
def recombine (S D : List Nat) (c m k : Nat) : List Nat × List Nat :=
  let (S, D, c, bor) :=
    if c = 0 then
      let (S', D', c1) := sumdiff_n S D                    -- :231
      let bor := c1 % 2                                    -- :232
      let c := c1 / 2                                      -- :233
      let D' := maskK D' m k                               -- :234
      let c := if k ≠ 0 && S'.getD (m - 1) 0 >>> (64 - k) ≠ 0 then 1 else c     -- :236-237
      (maskK S' m k, D', c, bor)                           -- :239
    else (S, S, 1, 1)                                      -- :243-245 c = 1; bor = 1; MPN_COPY (D, S, m)
  let (S, bor) := sub_1 S bor                              -- :248
  let S := maskK S m k                                     -- :249
  if bor = 0 then
    let (D, c) := add_1 D c                                -- :253
    let c := if k ≠ 0 && D.getD (m - 1) 0 >>> (64 - k) ≠ 0 then 1 else c        -- :255-256
    let D := maskK D m k                                   -- :258
    let S := if c ≠ 0 then setAt S 0 (S.getD 0 0 ||| 1) else S                  -- :260-261
    (S, D)
  else (S, D)

/-- mulmod_2expm1.c:267-291: `xp = (S + 2^h·D)` rotated right by one bit inside b bits. -/
def assemble (S D : List Nat) (b n m k : Nat) : List Nat :=
  if k = 0 then
    let (xp, car) := rshift (S ++ D) 1                     -- :269 car = mpn_half (xp, n)
    setAt xp (n - 1) (xp.getD (n - 1) 0 ||| car)           -- :270
  else
    let (Sh, car) := rshift S 1                            -- :274 car = mpn_half (xp, m)
    let car1 := Sh.getD (m - 1) 0                          -- :275
    let (Dl, Dm) := if 64 - k - 1 ≠ 0 then lshift D (64 - k - 1) else (D, 0)    -- :277-285
    let xp := Sh.take (m - 1) ++ Dl                        -- the m limbs written at xp + m - 1
    let xp := setAt xp (m - 1) (xp.getD (m - 1) 0 ||| car1)                     -- :287
    let xp := if 2 * m = n then xp ++ [Dm] else xp         -- :289-290 xp[n - 1] = Dm
    setAt xp (n - 1) (xp.getD (n - 1) 0 ||| (car >>> (64 * n - b)))             -- :292

/-- mpn_mulmod_2expm1 (xp, yp, zp, b, tp) (mulmod_2expm1.c:114-291); `thr` = MULMOD_2EXPM1_THRESHOLD,
    `pp1` = mpn_mulmod_2expp1_basecase (xp, yp, zp, c, b, tp) returning (xp, return value).
    `fuel` bounds the depth of the recursion (b halves at every level). -/
def mm1F (thr : Nat) (pp1 : List Nat → List Nat → Nat → Nat → List Nat × Nat) :
    Nat → List Nat → List Nat → Nat → List Nat × Bool
  | 0, yp, zp, b => basecase yp zp b
  | fuel + 1, yp, zp, b =>
    let n := (b + 63) / 64                                 -- :135
    if b % 2 = 1 || n < thr then basecase yp zp b          -- :137-141
    else
      let h := b / 2                                       -- :143
      let m := (h + 63) / 64                               -- :144
      let k := 64 * m - h                                  -- :145
      let (typm, typp, c1, ok1) := split yp n m k          -- :164-193
      let (tzpm, tzpp, c2, ok2) := split zp n m k          -- :195-224
      let (S, ok3) := mm1F thr pp1 fuel typm tzpm h        -- :226 mpn_mulmod_2expm1 (S, typm, tzpm, h, temp)
      let (D, c) := pp1 typp tzpp (c1 * 2 + c2) h          -- :227
      let (S, D) := recombine S D c m k                    -- :229-265
      (assemble S D b n m k, ok1 && ok2 && ok3)            -- :267-291

def mm1 (thr : Nat) (pp1 : List Nat → List Nat → Nat → Nat → List Nat × Nat) (yp zp : List Nat) (b : Nat) :
    List Nat × Bool := mm1F thr pp1 b yp zp b

/-- mpn_mulmod_bnm1 (rp, rn, ap, an, bp, bn, scratch) (mulmod_2expm1.c:296-338): operands zero-padded to rn
    limbs, `mpn_mulmod_2expm1` on `rn·GMP_LIMB_BITS` bits, `min (rn, an + bn)` limbs copied out.
    ASSERTs: 0 < bn ≤ an ≤ rn. -/
def bnm1 (thr : Nat) (pp1 : List Nat → List Nat → Nat → Nat → List Nat × Nat) (rn : Nat) (ap bp : List Nat) :
    List Nat × Bool :=
  let an := ap.length; let bn := bp.length
  let a := if an < rn then ap ++ List.replicate (rn - an) 0 else ap   -- :311-317
  let b := if bn < rn then bp ++ List.replicate (rn - bn) 0 else bp   -- :319-325
  let r := mm1 thr pp1 a b (rn * 64)
  if an + bn < rn then (r.1.take (an + bn), r.2)           -- :327-332
  else r                                                   -- :333-334

end Mpir.Mm1
