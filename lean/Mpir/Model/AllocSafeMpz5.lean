/-
  C04 — size-aware models, fourth continuation: mpz/import.c (`MPZ_REALLOC (z, zsize)` against the limbs the generic byte loop
  and the three fast paths store, the final MPN_NORMALIZE), mpz/lcm.c (the one-limb arm with `MPZ_REALLOC (r, usize+1)` and the
  carry limb; the general arm through mpz_gcd / mpz_divexact / mpz_mul on a temporary `g` whose limbs are TMP memory and must
  never be reallocated), mpz/gcd.c (zero and one-limb arms, the stripping of low zero limbs / bits into TMP copies, mpn_gcd by its
  contract, the re-shift with the `cy_limb` extra limb and `MPZ_REALLOC (g, gsize)`), mpz/divexact.c (as used by mpz_lcm).
  Theorems: MpirProofs/Props/C04_allocsafe5.lean.  Core Lean only.  On the memory model of Mpir/Model/AllocSafe.lean; statement
  by statement after the C, file:line cited.
-/
import Mpir.Model.AllocSafeMpz4
import Mpir.Model.Gcd
namespace Mpir.AllocSafe5
open Mpir Mpir.AllocSafe
open Mpir.Mpz (sgn)

/-! ### mpz_import — mpz/import.c (x86_64: HOST_ENDIAN = -1, GMP_NAIL_BITS = 0, sizeof (mp_limb_t) = 8) -/

/-- the state of the byte loop: `limb`, `lbits`, and the limbs stored through `*zp++` so far (in order) -/
structure Acc where
  limb : Nat
  lbits : Nat
  out : List Nat
  deriving Repr, DecidableEq

/-- `ACCUMULATE (N)` (import.c:117-131); `limb` is an `mp_limb_t`: arithmetic mod B -/
def accumulate (a : Acc) (byte N : Nat) : Acc :=
  let limb := (a.limb ||| (byte <<< a.lbits)) % B                             -- :122
  let lbits := a.lbits + N                                                    -- :123
  if lbits ≥ 64 then                                                          -- :124
    ⟨byte >>> (N - (lbits - 64)), lbits - 64, a.out ++ [limb % B]⟩            -- :126 *zp++ = limb & GMP_NUMB_MASK, :127, :129
  else ⟨limb, lbits, a.out⟩

/-- `*dp` (an `unsigned char`); outside the caller's `count * size` bytes the model reads 0 and `inData` reports it -/
def byteAt (data : List Nat) (dp : Int) : Nat := if 0 ≤ dp then data.getD dp.toNat 0 % 256 else 0
def inData (data : List Nat) (dp : Int) : Bool := decide (0 ≤ dp ∧ dp < data.length)

/-- loop state: accumulator, `dp` (as an index into `data`), "every `*dp` so far was inside `data`" -/
abbrev LoopSt := Acc × Int × Bool

/-- import.c:137-142: `for (j = 0; j < wbytes; j++) { byte = *dp; dp -= endian; ACCUMULATE (8); }` -/
def wordBytes (data : List Nat) (endian : Int) : Nat → LoopSt → LoopSt
  | 0, st => st
  | j + 1, st => wordBytes data endian j (accumulate st.1 (byteAt data st.2.1) 8, st.2.1 - endian, st.2.2 && inData data st.2.1)

/-- import.c:137-149: one word -/
def oneWord (data : List Nat) (endian : Int) (wbytes wbits : Nat) (woffset : Int) (st : LoopSt) : LoopSt :=
  let st := wordBytes data endian wbytes st                                   -- :137-142
  let st : LoopSt :=
    if wbits != 0 then                                                        -- :143
      (accumulate st.1 (byteAt data st.2.1 &&& (2 ^ wbits - 1)) wbits,        -- :145 byte = *dp & wbitsmask, :147
       st.2.1 - endian, st.2.2 && inData data st.2.1)                         -- :146
    else st
  (st.1, st.2.1 + woffset, st.2.2)                                            -- :149

/-- import.c:135-150: `for (i = 0; i < count; i++)` -/
def words (data : List Nat) (endian : Int) (wbytes wbits : Nat) (woffset : Int) : Nat → LoopSt → LoopSt
  | 0, st => st
  | i + 1, st => words data endian wbytes wbits woffset i (oneWord data endian wbytes wbits woffset st)

/-- import.c:92-157, the generic loop: the limbs stored through `*zp++`, and whether every byte read was inside `data` -/
def importGeneric (count : Nat) (order : Int) (size : Nat) (endian : Int) (nail : Nat) (data : List Nat) : List Nat × Bool :=
  let numb := size * 8 - nail                                                 -- :99
  let wbytes := numb / 8                                                      -- :102
  let wbits := numb % 8                                                       -- :105
  let woffset : Int := ((numb + 7) / 8 : Nat)                                 -- :109
  let woffset := (if endian ≥ 0 then woffset else -woffset)
    + (if order < 0 then (size : Int) else -(size : Int))                     -- :110-111
  let dp : Int := (if order ≥ 0 then ((count : Int) - 1) * size else 0)
    + (if endian ≥ 0 then (size : Int) - 1 else 0)                            -- :114-115
  let st := words data endian wbytes wbits woffset count (⟨0, 0, []⟩, dp, true)   -- :133-150
  let out := if st.1.lbits != 0 then st.1.out ++ [st.1.limb] else st.1.out    -- :152-157
  (out, st.2.2)

/-- the limb at `((mp_srcptr) data)[i]` (little-endian host) -/
def leLimb (data : List Nat) (i : Nat) : Nat :=
  data.getD (8 * i) 0 % 256 + 256 * (data.getD (8 * i + 1) 0 % 256 + 256 * (data.getD (8 * i + 2) 0 % 256 + 256 *
    (data.getD (8 * i + 3) 0 % 256 + 256 * (data.getD (8 * i + 4) 0 % 256 + 256 * (data.getD (8 * i + 5) 0 % 256 + 256 *
    (data.getD (8 * i + 6) 0 % 256 + 256 * (data.getD (8 * i + 7) 0 % 256)))))))

/-- the same eight bytes byte-swapped (`BSWAP_LIMB`) -/
def beLimb (data : List Nat) (i : Nat) : Nat :=
  data.getD (8 * i + 7) 0 % 256 + 256 * (data.getD (8 * i + 6) 0 % 256 + 256 * (data.getD (8 * i + 5) 0 % 256 + 256 *
    (data.getD (8 * i + 4) 0 % 256 + 256 * (data.getD (8 * i + 3) 0 % 256 + 256 * (data.getD (8 * i + 2) 0 % 256 + 256 *
    (data.getD (8 * i + 1) 0 % 256 + 256 * (data.getD (8 * i) 0 % 256)))))))

/-- import.c:58-166 with `endian` already resolved (1 or -1) -/
def importLimbsE (count : Nat) (order : Int) (size : Nat) (endian : Int) (nail : Nat) (align : Nat) (data : List Nat) :
    List Nat × Bool :=
  if nail == 0 && order == -1 && size == 8 && endian == -1 && align == 0 then -- :60-67
    ((List.range count).map (leLimb data), decide (8 * count ≤ data.length))  -- :69 MPN_COPY (zp, data, count)
  else if nail == 0 && order == -1 && size == 8 && endian == 1 && align == 0 then   -- :73-76
    ((List.range count).map (beLimb data), decide (8 * count ≤ data.length))  -- :78 MPN_BSWAP
  else if nail == 0 && order == 1 && size == 8 && endian == -1 && align == 0 then   -- :82-85
    ((List.range count).map (fun i => leLimb data (count - 1 - i)), decide (8 * count ≤ data.length))   -- :87 MPN_REVERSE
  else importGeneric count order size endian nail data                        -- :92-166

/-- the limbs mpz_import stores at zp[0, …) (import.c:55-157) and whether the reads stayed inside `data`;
    `align` = `((char *) data - (char *) NULL) % sizeof (mp_limb_t)` -/
def importLimbs (count : Nat) (order : Int) (size : Nat) (endian : Int) (nail : Nat) (align : Nat) (data : List Nat) :
    List Nat × Bool :=
  importLimbsE count order size (if endian == 0 then -1 else endian) nail align data   -- :55-56 HOST_ENDIAN = -1

/-- mpz_import (z, count, order, size, endian, nail, data), import.c:40-172.  `zsize - minus` = the size requested from
    MPZ_REALLOC (`zsize` in the C: minus = 0).  Preconditions (the C's ASSERTs): order = ±1, endian ∈ {1, 0, -1},
    nail ≤ 8 * size. -/
def import_ (minus : Nat) (s : St) (z : Nat) (count : Nat) (order : Int) (size : Nat) (endian : Int) (nail align : Nat)
    (data : List Nat) : St :=
  let zsize := (count * (8 * size - nail) + 63) / 64                          -- :51
  let s := MPZ_REALLOC s z (zsize - minus)                                    -- :52
  let zp := s.PTR z                                                           -- :53
  let s := s.wr zp (importLimbs count order size endian nail align data).1    -- :69 / :78 / :87 / :126, :156 the stores
  let (zsize, s) := MPN_NORMALIZE s zp zsize                                  -- :169-170
  s.setSize z zsize                                                           -- :171

def mpz_import (s : St) (z : Nat) (count : Nat) (order : Int) (size : Nat) (endian : Int) (nail align : Nat)
    (data : List Nat) : St := import_ 0 s z count order size endian nail align data

/-! ### mpz_gcd — mpz/gcd.c -/

/-- mpn_gcd_1 (up, n, vl), vl ≠ 0: reads up[0,n); the value -/
def mpn_gcd_1 (s : St) (up : Ptr) (n vl : Nat) : Nat × St :=
  (Nat.gcd (val (s.rd up n)) vl, s.chk (s.rdOk up n))

/-- gcd.c:82-95 (and :97-110): `while (*up == 0) up++;` … strip the low zero limbs and bits of the operand `U` (already read
    from up[0, usize)) into a TMP block of `usize - zero_limbs` limbs.  Result: zero_limbs, zero_bits, the block, the size
    afterwards, "the stores fitted the block". -/
def stripLow (U : List Nat) : Nat × Nat × Buf × Nat × Bool :=
  let zl := (U.takeWhile (· == 0)).length                                     -- :82-84
  let usize := U.length - zl                                                  -- :85
  let zb := Gcd.ctz (U.getD zl 0)                                             -- :86
  let T := U.drop zl                                                          -- :87 tp = up
  if zb != 0 then                                                             -- :89
    let r := (Mpir.rshift T zb).1                                             -- :91
    let b := (Buf.new usize).write 0 r                                        -- :88, :91
    (zl, zb, b.1, usize - (if Mpz.topLimb r == 0 then 1 else 0), b.2)         -- :92
  else
    let b := (Buf.new usize).write 0 T                                        -- :88, :95 MPN_COPY
    (zl, zb, b.1, usize, b.2)

/-- gcd.c:133-154: G <-- V << (g_zero_limbs * GMP_LIMB_BITS + g_zero_bits), `G` = the limbs mpn_gcd left at vp (TMP space).
    `gsize - minus` = the size requested from MPZ_REALLOC (`gsize` in the C); `always` = the WRONG variant that stores
    `tp[vsize] = cy_limb` unconditionally. -/
def gcdTail (minus : Nat) (always : Bool) (s : St) (g : Nat) (G : List Nat) (gzl gzb : Nat) : St :=
  let vsize := G.length                                                       -- :129
  let gsize := vsize + gzl                                                    -- :134
  if gzb != 0 then                                                            -- :135
    let gsize := gsize + (if (Mpz.topLimb G >>> (64 - gzb)) != 0 then 1 else 0)   -- :138
    let s := MPZ_REALLOC s g (gsize - minus)                                  -- :139
    let s := MPN_ZERO s (s.PTR g) gzl                                         -- :140
    let tp := (s.PTR g).add gzl                                               -- :142
    let r := Mpir.lshift G gzb                                                -- :143
    let s := s.wr tp r.1
    let s := if always || r.2 != 0 then s.store tp vsize r.2 else s           -- :144-145
    s.setSize g gsize                                                         -- :154
  else
    let s := MPZ_REALLOC s g (gsize - minus)                                  -- :149
    let s := MPN_ZERO s (s.PTR g) gzl                                         -- :150
    let s := s.wr ((s.PTR g).add gzl) G                                       -- :151 MPN_COPY (PTR (g) + g_zero_limbs, vp, vsize)
    s.setSize g gsize                                                         -- :154

/-- gcd.c:79-155, the general arm (usize, vsize ≥ 2) -/
def gcdGeneral (minus : Nat) (always : Bool) (s : St) (g : Nat) (up : Ptr) (usize : Nat) (vp : Ptr) (vsize : Nat) : St :=
  let U := s.rd up usize
  let V := s.rd vp vsize
  let s := s.chk (s.rdOk up usize && s.rdOk vp vsize)                         -- the loads of :82-95, :97-110
  let (uzl, uzb, ub, usize, uok) := stripLow U                                -- :82-95
  let (vzl, vzb, vb, vsize, vok) := stripLow V                                -- :97-110
  let s := s.chk (uok && vok)
  let (gzl, gzb) :=
    if uzl > vzl then (vzl, vzb)                                              -- :112-116
    else if uzl < vzl then (uzl, uzb)                                         -- :117-121
    else (uzl, min uzb vzb)                                                   -- :122-126
  -- :129-131 mpn_gcd (vp, …): the contract (C07): at most min (usize, vsize) limbs stored at vp, their count returned
  let G := natLimbs (Nat.gcd (val ((ub.read 0 usize).1)) (val ((vb.read 0 vsize).1)))
  let s := s.chk (decide (G.length ≤ vb.alloc))                               -- the store into vp's TMP block
  gcdTail minus always s g G gzl gzb                                          -- :133-154

/-- mpz_gcd (g, u, v), gcd.c:26-156 -/
def gcd_ (minus : Nat) (always : Bool) (s : St) (g u v : Nat) : St :=
  let up := s.PTR u                                                           -- :39
  let usize := s.ABSIZ u                                                      -- :40
  let vp := s.PTR v                                                           -- :41
  let vsize := s.ABSIZ v                                                      -- :42
  if usize == 0 then                                                          -- :44
    let s := s.setSize g vsize                                                -- :46
    if g == v then s                                                          -- :47-48
    else
      let s := MPZ_REALLOC s g vsize                                          -- :49
      MPN_COPY s (s.PTR g) vp vsize                                           -- :50
  else if vsize == 0 then                                                     -- :55
    let s := s.setSize g usize                                                -- :57
    if g == u then s                                                          -- :58-59
    else
      let s := MPZ_REALLOC s g usize                                          -- :60
      MPN_COPY s (s.PTR g) up usize                                           -- :61
  else if usize == 1 then                                                     -- :65
    let s := s.setSize g 1                                                    -- :67
    let (u0, s) := s.load up 0                                                -- :68 up[0]
    let (gl, s) := mpn_gcd_1 s vp vsize u0                                    -- :68
    s.store (s.PTR g) 0 gl                                                    -- :68 PTR (g)[0] = …  (no realloc: alloc ≥ 1)
  else if vsize == 1 then                                                     -- :72
    let s := s.setSize g 1                                                    -- :74
    let (v0, s) := s.load vp 0                                                -- :75 vp[0]
    let (gl, s) := mpn_gcd_1 s up usize v0                                    -- :75
    s.store (s.PTR g) 0 gl                                                    -- :75
  else gcdGeneral minus always s g up usize vp vsize                          -- :79-155

def mpz_gcd (s : St) (g u v : Nat) : St := gcd_ 0 false s g u v

/-! ### mpz_divexact — mpz/divexact.c (WANT_ASSERT off: lines 37-45 compiled out) -/

/-- mpz_divexact (quot, num, den), divexact.c:28-81; den ≠ 0 and den | num are the caller's business.  mpn_divexact by its
    contract: reads np[0,nn), dp[0,dn); stores exactly `qn = nn - dn + 1` limbs at qp. -/
def divexact (s : St) (quot num den : Nat) : St :=
  let nn := s.ABSIZ num                                                       -- :47
  let dn := s.ABSIZ den                                                       -- :48
  let s := MPZ_REALLOC s quot (nn + 1 - dn)                                   -- :50-51 (qn ≤ 0: no reallocation)
  if nn < dn then s.setSize quot 0                                            -- :53-60
  else
    let qn := nn - dn + 1                                                     -- :50
    let qp := s.PTR quot                                                      -- :64
    let np := s.PTR num                                                       -- :69
    let dp := s.PTR den                                                       -- :70
    let q := toLimbs qn (val (s.rd np nn) / val (s.rd dp dn))                 -- :72
    let s := s.chk (s.rdOk np nn && s.rdOk dp dn)
    let neg := Mpz.diffSign (s.SIZ num) (s.SIZ den)                           -- :75
    if quot == num || quot == den then                                        -- :66
      let tb := (Buf.new qn).write 0 q                                        -- :67, :72
      let s := s.chk tb.2
      let qn' := (normalize ((tb.1.read 0 qn).1)).length                      -- :73
      let s := s.setSize quot (sgn neg qn')                                   -- :75
      s.wr (s.PTR quot) ((tb.1.read 0 qn').1)                                 -- :77-78 MPN_COPY (PTR (quot), qp, qn)
    else
      let s := s.wr qp q                                                      -- :72
      let (qn', s) := MPN_NORMALIZE s qp qn                                   -- :73
      s.setSize quot (sgn neg qn')                                            -- :75

/-! ### mpz_lcm — mpz/lcm.c -/

/-- lcm.c:50-63 (label `one`): r = u * (v[0] / gcd (u, v[0])); `plus` = 1 in the C (`MPZ_REALLOC (r, usize+1)`) -/
def lcmOne (plus : Nat) (s : St) (r u v : Nat) (usize : Nat) : St :=
  let s := MPZ_REALLOC s r (usize + plus)                                     -- :51
  let up := s.PTR u                                                           -- :53
  let (vl, s) := s.load (s.PTR v) 0                                           -- :54
  let (gl, s) := mpn_gcd_1 s up usize vl                                      -- :55
  let vl := vl / gl                                                           -- :56
  let rp := s.PTR r                                                           -- :58
  let (s, c) := mpn_mul_1 s rp up usize vl                                    -- :59
  let s := s.store rp usize c                                                 -- :60
  s.setSize r ((usize + (if c != 0 then 1 else 0) : Nat) : Int)               -- :61-62

/-- mpz_lcm (r, u, v), lcm.c:27-84.  `gid` = a heap id for the temporary `g` (different from r, u, v): its limbs are TMP memory
    (`MPZ_TMP_INIT (g, size)`), so a reallocation of `g` inside mpz_gcd / mpz_divexact would hand a pointer that the allocator
    never returned to the reallocate function — reported through `ok`.  What was at `gid` is put back at the end (TMP_FREE). -/
def lcm_ (plus : Nat) (s : St) (r u v gid : Nat) : St :=
  let usize := s.SIZ u                                                        -- :34
  let vsize := s.SIZ v                                                        -- :35
  if usize == 0 || vsize == 0 then s.setSize r 0                              -- :36-40
  else
    let usize := usize.natAbs                                                 -- :41
    let vsize := vsize.natAbs                                                 -- :42
    if vsize == 1 then lcmOne plus s r u v usize                              -- :44-64
    else if usize == 1 then lcmOne plus s r v u vsize                         -- :66-71
    else
      let size := max usize vsize                                             -- :74
      let saved := s.h gid
      let s : St := { s with h := upd s.h gid ⟨0, 0, Buf.new size⟩ }          -- :75 MPZ_TMP_INIT (g, size)
      let s := mpz_gcd s gid u v                                              -- :77
      let s := divexact s gid u gid                                           -- :78
      let s := s.chk ((s.h gid).gen == 0)                                     -- g was never reallocated
      let s := mpz_mul s r gid v                                              -- :79
      let s := s.setSize r ((s.SIZ r).natAbs : Int)                           -- :81
      { s with h := upd s.h gid saved }                                       -- :83 TMP_FREE

def mpz_lcm (s : St) (r u v gid : Nat) : St := lcm_ 1 s r u v gid

end Mpir.AllocSafe5
