/-
  Stream I/O of the C++ interface (property C20, part c20_cxxio).  Core Lean only.

  MODEL (statement by statement; line numbers refer to /repo/cxx/<file>)
    `IStream`, `get`, `putback`, `clear`   an `std::istringstream` as far as cxx/is*.cc uses it: the characters not yet
                     read, the characters already read (so that `putback` and "position" have a meaning), the state
                     bits eofbit/failbit/badbit, the format flags
    `setBase`        = isfuns.cc `__gmp_istream_set_base`
    `setDigits`      = isfuns.cc `__gmp_istream_set_digits`
    `extractZNowhite`= ismpznw.cc `__gmpz_operator_in_nowhite`
    `extractZ`       = ismpz.cc  `operator>> (istream &, mpz_ptr)`
    `extractQ`       = ismpq.cc  `operator>> (istream &, mpq_ptr)`
    `extractF`       = ismpf.cc  `operator>> (istream &, mpf_ptr)`   (locale "C": decimal point '.')
    `OStream`, `paramsFromIos` = osfuns.cc `__gmp_doprnt_params_from_ios`
    `insertZ/Q/F`    = osmpz.cc / osmpq.cc / osmpf.cc with osdoprnti.cc `__gmp_doprnt_integer_ostream`; the layout itself
                     is `Printf.doprntInteger` / `Printf.doprntMpf` (printf/doprnti.c, doprntf.c: the C++ side pads through
                     the very same routine, the fill character travels in `doprnt_params_t.fill`)
  Library semantics taken from libstdc++ (bits/istream.tcc, bits/ostream.tcc, bits/basic_ios.h):
    get(c)      sentry(noskipws): a stream that is not good() gets failbit and nothing is read; at end of input
                eofbit|failbit are set and `c` keeps its old value
    putback(c)  (called under good() only) backs up one position when a character was read and it equals c, else badbit
    clear()     clears all three bits;  setstate(failbit);  operator! / operator bool = fail() = failbit|badbit
    write(s,n)  ostream::sentry: nothing is written to a stream that is not good(); it gets failbit if badbit is set
                (bits/ostream.tcc, sentry constructor: `else if (__os.bad()) __os.setstate(ios_base::failbit)`)
-/
import Mpir.Model.Printf
import Mpir.Model.Scanf
import Mpir.Model.MpfStr
namespace Mpir.CxxIo
open Mpir.Printf

/-! ## format flags and streams -/

/-- the `ios_base::fmtflags` bits read by cxx/*.cc -/
structure Fmt where
  dec : Bool := true
  oct : Bool := false
  hex : Bool := false
  showbase : Bool := false
  showpos : Bool := false
  uppercase : Bool := false
  left : Bool := false
  right : Bool := false
  internal : Bool := false
  fixed : Bool := false
  scientific : Bool := false
  showpoint : Bool := false
  skipws : Bool := true
  deriving Repr, DecidableEq, Inhabited

/-- an input stream over a string: `done` = characters already read (most recent first), `rest` = still to read -/
structure IStream where
  rest : List Char
  done : List Char := []
  eof : Bool := false
  fail : Bool := false
  bad : Bool := false
  fmt : Fmt := {}
  deriving Repr, DecidableEq, Inhabited

namespace IStream
/-- number of characters consumed = what `tellg` would say -/
def pos (i : IStream) : Nat := i.done.length
def good (i : IStream) : Bool := !(i.eof || i.fail || i.bad)
/-- `!i` (basic_ios::fail) -/
def failed (i : IStream) : Bool := i.fail || i.bad
/-- the whole text of the underlying string -/
def text (i : IStream) : List Char := i.done.reverse ++ i.rest

/-- `i.get(c)` -/
def get (i : IStream) (c : Char) : IStream × Char :=
  if i.good then
    match i.rest with
    | [] => ({ i with eof := true, fail := true }, c)
    | x :: r => ({ i with rest := r, done := x :: i.done }, x)
  else ({ i with fail := true }, c)

/-- `i.putback(c)` for a stream that is good() -/
def putback (i : IStream) (c : Char) : IStream :=
  match i.done with
  | d :: ds => if d = c then { i with rest := c :: i.rest, done := ds } else { i with bad := true }
  | [] => { i with bad := true }

def clear (i : IStream) : IStream := { i with eof := false, fail := false, bad := false }
def setFail (i : IStream) : IStream := { i with fail := true }
end IStream

/-! ## character classes of the "C" locale -/

def isdigit (c : Char) : Bool := '0' ≤ c && c ≤ '9'
def isodigit (c : Char) : Bool := '0' ≤ c && c ≤ '7'
def isxdigit (c : Char) : Bool := isdigit c || ('a' ≤ c && c ≤ 'f') || ('A' ≤ c && c ≤ 'F')
def isspace (c : Char) : Bool := Scanf.isSpace c

/-- the loop condition of `__gmp_istream_set_digits` for each base (isfuns.cc:80, 89, 98); no loop for another base -/
def digitTest (base : Nat) (c : Char) : Bool :=
  if base = 10 then isdigit c
  else if base = 8 then isdigit c && c ≠ '8' && c ≠ '9'
  else if base = 16 then isxdigit c
  else false

/-! ## isfuns.cc -/

/-- `__gmp_istream_set_base (i, c, zero, showbase)` (isfuns.cc:31-72): (stream, c, zero, showbase, base) -/
def setBase (i : IStream) (c : Char) : IStream × Char × Bool × Bool × Nat :=
  let f := i.fmt
  -- :37 switch (i.flags() & ios::basefield)
  if f.dec ∧ ¬ f.oct ∧ ¬ f.hex then (i, c, false, false, 10)            -- :39-41
  else if f.hex ∧ ¬ f.dec ∧ ¬ f.oct then (i, c, false, false, 16)       -- :42-44
  else if f.oct ∧ ¬ f.dec ∧ ¬ f.hex then (i, c, false, false, 8)        -- :45-47
  else                                                                   -- :48 default: showbase = true
    if c = '0' then                                                      -- :50
      let (i1, c1) := i.get c                                            -- :52 if (! i.get(c)) c = 0;
      let c1 := if i1.failed then '\x00' else c1
      if c1 = 'x' ∨ c1 = 'X' then                                        -- :55
        let (i2, c2) := i1.get c1                                        -- :57-58
        (i2, c2, false, true, 16)
      else (i1, c1, true, true, 8)                                       -- :62-63
    else (i, c, false, true, 10)                                         -- :67

/-- the `while (test(c)) { ok = true; s += c; if (! i.get(c)) break; }` loops of isfuns.cc:80-104 -/
def digitsLoop (test : Char → Bool) : Nat → List Char → IStream → Char → Bool → List Char × IStream × Char × Bool
  | 0, s, i, c, ok => (s, i, c, ok)
  | n + 1, s, i, c, ok =>
    if test c then
      let (i', c') := i.get c
      if i'.failed then (s ++ [c], i', c', true) else digitsLoop test n (s ++ [c]) i' c' true
    else (s, i, c, ok)

/-- `__gmp_istream_set_digits (s, i, c, ok, base)` (isfuns.cc:74-107).  Every iteration but the last reads a
    character, so `rest.length + 1` iterations are enough. -/
def setDigits (s : List Char) (i : IStream) (c : Char) (ok : Bool) (base : Nat) : List Char × IStream × Char × Bool :=
  digitsLoop (digitTest base) (i.rest.length + 1) s i c ok

/-! ## mpz -/

/-- what happened to the destination -/
inductive Val where
  | unchanged                -- never stored into
  | value (v : Int)          -- set to v
  | invalid                  -- mpz_set_str / mpf_set_str refused the collected string: the ASSERT_NOCARRY would fire
  deriving Repr, DecidableEq, Inhabited

def Val.ofOpt : Option Int → Val
  | some v => .value v
  | none => .invalid

/-- ismpznw.cc:204-209: optional sign -/
def readSign (i : IStream) (c : Char) : List Char × IStream × Char :=
  if c = '-' ∨ c = '+' then
    let s := if c = '-' then ['-'] else []            -- :206 mpz_set_str doesn't accept '+'
    let (i1, c1) := i.get c                           -- :208
    (s, i1, c1)
  else ([], i, c)

/-- ismpznw.cc:214-217 / ismpf.cc:124-127: give the stop character back, or forget the end of input -/
def finish (i : IStream) (c : Char) (accept : Bool) : IStream :=
  if i.good then i.putback c                          -- :214-215
  else if i.eof ∧ accept then i.clear                 -- :216-217
  else i

/-- `__gmpz_operator_in_nowhite (i, z, c)` (ismpznw.cc:197-227) -/
def extractZNowhite (i : IStream) (c : Char) : IStream × Val :=
  let (s, i, c) := readSign i c                                   -- :204-209
  let (i, c, zero, _showbase, base) := setBase i c                -- :211
  let (s, i, c, ok) := setDigits s i c false base                 -- :212
  let i := finish i c (ok || zero)                                -- :214-217
  if ok then (i, Val.ofOpt (Scanf.setStr s base))                 -- :219-220
  else if zero then (i, .value 0)                                 -- :221-222
  else (i.setFail, .unchanged)                                    -- :224

/-- `while (cxx_isspace(c) && i.get(c)) ;` (ismpz.cc:158, ismpf.cc:75) -/
def skipWs : Nat → IStream → Char → IStream × Char
  | 0, i, c => (i, c)
  | n + 1, i, c =>
    if isspace c then
      let (i', c') := i.get c
      if i'.failed then (i', c') else skipWs n i' c'
    else (i, c)

/-- ismpz.cc:146-160 / ismpf.cc:63-77: first character, white space -/
def start (i : IStream) : IStream × Char :=
  let (i, c) := i.get '\x00'                                      -- char c = 0; i.get(c);
  if i.fmt.skipws then skipWs (i.rest.length + 1) i c else (i, c)

/-- `operator>> (istream &i, mpz_ptr z)` (ismpz.cc:143-163) -/
def extractZ (i : IStream) : IStream × Val :=
  let (i, c) := start i
  extractZNowhite i c

/-! ## mpq -/

/-- `operator>> (istream &i, mpq_ptr q)` (ismpq.cc:258-285): stream, numerator, denominator -/
def extractQ (i : IStream) : IStream × Val × Val :=
  let (i, n) := extractZ i                                        -- :261 if (! (i >> mpq_numref(q))) return i;
  if i.failed then (i, n, .unchanged) else
  let (i, c) := i.get '\x00'                                      -- :264-265
  if c = '/' then                                                 -- :267
    let (i, c) := i.get c                                         -- :270
    let (i, d) := extractZNowhite i c                             -- :271
    (i, n, d)
  else
    let i := if i.good then i.putback c                           -- :278-279
             else if i.eof then i.clear else i                    -- :280-281
    (i, n, .value 1)                                              -- :276-277

/-! ## mpf -/

/-- the scanning part of `operator>> (istream &i, mpf_ptr f)` (ismpf.cc:63-127, 136): the stream afterwards and the
    string handed to mpf_set_str (`none`: failbit, f untouched) -/
def scanF (i : IStream) : IStream × Option (List Char) :=
  let (i, c) := start i                                           -- :63-77
  let (s, i, c) := readSign i c                                   -- :79-84
  let (s, i, c, ok) := setDigits s i c false 10                   -- :86-87
  let (s, i, c, ok) :=
    if c = '.' then                                               -- :90  point_char of the "C" locale
      let (i, c) := i.get c                                       -- :93
      setDigits (s ++ ['.']) i c ok 10                            -- :105-106
    else (s, i, c, ok)
  let (s, i, c, ok) :=
    if ok ∧ (c = 'e' ∨ c = 'E') then                              -- :109
      let s := s ++ [c]                                           -- :111
      let (i, c) := i.get c                                       -- :112
      let (s, i, c) :=                                            -- :115-119
        if c = '-' ∨ c = '+' then
          let (i1, c1) := i.get c
          (s ++ [c], i1, c1)
        else (s, i, c)
      setDigits s i c false 10                                    -- :113 ok = false;  :121
    else (s, i, c, ok)
  let i := finish i c ok                                          -- :124-127
  if ok then (i, some s) else (i.setFail, none)                   -- :129-136

/-- `operator>> (istream &i, mpf_ptr f)`: `f` is the destination before the call.  `invalid` = mpf_set_str returned -1. -/
def extractF (i : IStream) (f : Mpf.F) : IStream × Option Mpf.F × Bool :=
  match scanF i with
  | (i, none) => (i, none, false)
  | (i, some s) =>
    let r := MpfStr.set_str f.prec f 10 (s.map Char.toNat)        -- :130
    (i, some r.2, decide (r.1 ≠ 0))

/-! ## output -/

structure OStream where
  out : List Char := []
  eof : Bool := false
  fail : Bool := false
  bad : Bool := false
  fmt : Fmt := {}
  width : Int := 0
  fill : Char := ' '
  precision : Int := 6
  deriving Repr, Inhabited

def OStream.good (o : OStream) : Bool := !(o.eof || o.fail || o.bad)

/-- `o.write (t.str, t.len)` -/
def OStream.write (o : OStream) (t : List Char) : OStream :=
  if o.good then { o with out := o.out ++ t } else if o.bad then { o with fail := true } else o

/-- `__gmp_doprnt_params_from_ios (p, o)` (osfuns.cc:49-115): the parameters and the stream with its width reset -/
def paramsFromIos (o : OStream) : Params × OStream :=
  let f := o.fmt
  let isHex : Bool := f.hex && !f.dec && !f.oct         -- (o.flags() & ios::basefield) == ios::hex
  let isOct : Bool := f.oct && !f.dec && !f.hex
  let isFixed : Bool := f.fixed && !f.scientific        -- (o.flags() & ios::floatfield) == ios::fixed
  let isSci : Bool := f.scientific && !f.fixed
  -- :52-64 expfmt, base.  The hex exponent format "@%c%02d" is not expressible in `Printf.Params`; see `insertF`.
  let base : Int := if isHex then (if f.uppercase then -16 else 16) else if isOct then 8 else 10
  -- :67-72 conv
  let conv : Nat := if isFixed then 1 else if isSci then 2 else 3
  -- :79-84 justify ("right" if more than one bit set)
  let justify : Justify :=
    if f.left ∧ ¬ f.right ∧ ¬ f.internal then .left
    else if f.internal ∧ ¬ f.left ∧ ¬ f.right then .internal
    else .right
  -- :88-90 precision
  let prec0 : Int := max 0 o.precision
  let prec : Int := if prec0 = 0 ∧ conv ≠ 1 then 6 else prec0
  -- :93-97 showbase
  let showbase : Showbase := if f.showbase then (if isHex then .yes else .nonzero) else .no
  -- :103-107 showtrailing
  let showtrailing : Bool := if isFixed ∨ isSci then true else f.showpoint
  ({ base := base, conv := conv, expUpper := f.uppercase, expHex := false, exptimes4 := false,     -- :74
     fill := o.fill,                                                                              -- :76
     justify := justify, prec := prec, showbase := showbase, showpoint := f.showpoint,            -- :99
     showtrailing := showtrailing,
     sign := if f.showpos then some '+' else none,                                                -- :109
     width := o.width },                                                                          -- :111
   { o with width := 0 })                                                                         -- :114

/-- `gmp_allocated_string t (result)` with the one-argument constructor (gmp-impl.h:4566-4570): `len = strlen (str)`, what
    the text is cut to at its first NUL.  `operator<<` used it until /repo commit 2def0d3 (a NUL fill character cut the
    output and the destructor freed with strlen+1 instead of the allocated size); it now passes `d.size`
    (`gmp_allocated_string t (result, d.size)`, gmp-impl.h:4573-4577), so the whole text is written, NUL bytes included. -/
def cstr (t : List Char) : List Char := t.takeWhile (· ≠ '\x00')

/-- `__gmp_doprnt_integer_ostream (o, p, s)` (osdoprnti.cc:40-59): `p->prec = -1`, format, `o.write (t.str, t.len)` with
    `t.len = d.size` = all bytes formatted -/
def doprntIntegerOstream (o : OStream) (p : Params) (s : List Char) : OStream :=
  o.write (callsBytes (doprntInteger { p with prec := -1 } s))

/-- `operator<< (ostream &o, mpz_srcptr z)` (osmpz.cc:31-38) -/
def insertZ (o : OStream) (z : Int) : OStream :=
  let (p, o) := paramsFromIos o
  doprntIntegerOstream o p (mpzGetStr p.base z)

/-- `operator<< (ostream &o, mpq_srcptr q)` (osmpq.cc:31-38) -/
def insertQ (o : OStream) (n d : Int) : OStream :=
  let (p, o) := paramsFromIos o
  doprntIntegerOstream o p (mpqGetStr p.base n d)

/-- `operator<< (ostream &o, mpf_srcptr f)` (osmpf.cc:38-64), decimal only: `Printf.doprntMpf` knows the exponent
    formats of printf, not the "@%c%02d" of a hex stream, and no octal digits; `none` for those streams. -/
def insertF (o : OStream) (fprec : Nat) (neg : Bool) (limbs : List Nat) (fexp : Int) : Option OStream :=
  let (p, o) := paramsFromIos o
  if p.base = 10 then some (o.write (callsBytes (doprntMpf p fprec neg limbs fexp))) else none

/-! ## what a reader of the manual expects (specification side of the theorems) -/

/-- value of a digit string in base `b` -/
def digitsVal (b : Nat) (ds : List Char) : Nat := ds.foldl (fun a c => a * b + Scanf.digitValue c) 0

/-- the base `basefield` selects: exactly one of dec / hex / oct, else `none` = detect it from a 0 / 0x / 0X prefix -/
def Fmt.base? (f : Fmt) : Option Nat :=
  if f.dec ∧ ¬ f.oct ∧ ¬ f.hex then some 10
  else if f.hex ∧ ¬ f.dec ∧ ¬ f.oct then some 16
  else if f.oct ∧ ¬ f.dec ∧ ¬ f.hex then some 8
  else none

/-- a good stream positioned after `d` (reversed) with `r` still to come -/
def mkG (r d : List Char) (f : Fmt) : IStream := { rest := r, done := d, fmt := f }

/-- outcome of reading one number: characters that stay consumed, what was stored, eofbit, failbit -/
structure NumSpec where
  n : Nat
  val : Val
  eof : Bool
  fail : Bool
  deriving Repr, DecidableEq

/-- the stream that has consumed the first `n` characters of `u` (after `d`), with the given state bits -/
def after (f : Fmt) (d u : List Char) (n : Nat) (eof fail : Bool) : IStream :=
  { rest := u.drop n, done := (u.take n).reverse ++ d, eof := eof, fail := fail, bad := false, fmt := f }

/-- the digits of a number in base `b` at the front of `t`, after `pre` characters of sign and prefix:
    the longest run of base-`b` digits is consumed; no digit = failure (eofbit too if the input ended there),
    unless the prefix was the single "0" of an auto-detected octal number, which then counts as the value 0 -/
def digitsPart (b : Nat) (neg : Bool) (pre : Nat) (zero : Bool) (t : List Char) : NumSpec :=
  let ds := t.takeWhile (digitTest b)
  if ds ≠ [] then ⟨pre + ds.length, .value (if neg then -(digitsVal b ds : Int) else digitsVal b ds), false, false⟩
  else if zero then ⟨pre, .value 0, false, false⟩
  else ⟨pre, .unchanged, t.isEmpty, true⟩

/-- the grammar of one integer after its sign (`k` characters): digits in the base of basefield, or, without a (single)
    basefield bit, (0x|0X) hex digits, 0 octal digits, decimal digits -/
def bodySpec (f : Fmt) (neg : Bool) (k : Nat) (u1 : List Char) : NumSpec :=
  match f.base? with
  | some b => digitsPart b neg k false u1
  | none =>
    match u1 with
    | '0' :: 'x' :: t => digitsPart 16 neg (k + 2) false t
    | '0' :: 'X' :: t => digitsPart 16 neg (k + 2) false t
    | '0' :: t => digitsPart 8 neg (k + 1) true t
    | _ => digitsPart 10 neg k false u1

/-- the grammar of one integer as `operator>>` reads it from the text `u` (no white space): [+-] then `bodySpec` -/
def numSpec (f : Fmt) (u : List Char) : NumSpec :=
  match u with
  | '-' :: t => bodySpec f true 1 t
  | '+' :: t => bodySpec f false 1 t
  | _ => bodySpec f false 0 u

/-- leading white space skipped by `operator>>` -/
def wsPrefix (f : Fmt) (t : List Char) : List Char := if f.skipws then t.takeWhile isspace else []

/-- `operator>> (istream, mpz)` on the text `t`, as a specification: white space (if skipws), then `numSpec` -/
def specZ (f : Fmt) (t : List Char) : IStream × Val :=
  let w := wsPrefix f t
  let u := t.drop w.length
  let r := numSpec f u
  (after f w.reverse u r.n r.eof r.fail, r.val)

/-- `operator>> (istream, mpq)` as a specification: numerator as `specZ`; on success a directly following '/' and a
    denominator read by `numSpec` (own sign, own base detection, no white space); without '/' the denominator is 1 -/
def specQ (f : Fmt) (t : List Char) : IStream × Val × Val :=
  let w := wsPrefix f t
  let u := t.drop w.length
  let r := numSpec f u
  if r.fail then (after f w.reverse u r.n r.eof r.fail, r.val, .unchanged)
  else
    match u.drop r.n with
    | '/' :: v =>
      let r2 := numSpec f v
      (after f ('/' :: ((u.take r.n).reverse ++ w.reverse)) v r2.n r2.eof r2.fail, r.val, r2.val)
    | _ => (after f w.reverse u r.n false false, r.val, .value 1)

/-! ### output side -/

def Fmt.hexOnly (f : Fmt) : Bool := f.hex && !f.dec && !f.oct
def Fmt.octOnly (f : Fmt) : Bool := f.oct && !f.dec && !f.hex
/-- the base a stream prints integers in: hex / oct when exactly that basefield bit is set, else decimal -/
def Fmt.outBase (f : Fmt) : Nat := if f.hexOnly then 16 else if f.octOnly then 8 else 10
/-- upper-case digits and prefix: hex streams with `uppercase` -/
def Fmt.outUpper (f : Fmt) : Bool := f.hexOnly && f.uppercase
/-- "-" for a negative value, "+" under showpos -/
def signStr (f : Fmt) (neg : Bool) : List Char := if neg then ['-'] else if f.showpos then ['+'] else []
/-- showbase: "0x" / "0X" on a hex stream (always), "0" on an octal stream unless the digits start with 0 (value 0) -/
def prefixStr (f : Fmt) (isZero : Bool) : List Char :=
  if f.showbase then
    (if f.hexOnly then (if f.uppercase then ['0', 'X'] else ['0', 'x'])
     else if f.octOnly ∧ ¬ isZero then ['0'] else [])
  else []
/-- the field: padding with the fill character up to `width`, on the right under `left` (alone in adjustfield), between
    sign/prefix and body under `internal` (alone), else on the left -/
def fieldLayout (f : Fmt) (width : Int) (fill : Char) (sign pre body : List Char) : List Char :=
  let pad := List.replicate (width - ((sign.length + pre.length + body.length : Nat) : Int)).toNat fill
  if f.left ∧ ¬ f.right ∧ ¬ f.internal then sign ++ pre ++ body ++ pad
  else if f.internal ∧ ¬ f.left ∧ ¬ f.right then sign ++ pre ++ pad ++ body
  else pad ++ sign ++ pre ++ body

end Mpir.CxxIo
