/- Lemmas about the GENERATED call skeletons of mpn_mul / mpn_mul_n / mpn_sqr (Mpir/Gen/MulDispatch.lean). -/
import Mpir.Model.MulDispatch
import Mathlib.Tactic.Ring
import Mathlib.Tactic.Linarith
namespace Mpir.MulDispatch
open Mpir.Skel Mpir.Gen Mpir.Gen.MulDispatch

theorem cdiv_nonneg {a b : Int} (ha : 0 ≤ a) : cdiv a b = a / b := by
  unfold cdiv; exact Int.tdiv_eq_ediv_of_nonneg ha

theorem AllOk_nil (P : Params) : AllOk P [] := by intro e he; cases he

theorem AllOk_cons {P : Params} {e : Ev} {tr : List Ev} : AllOk P (e :: tr) ↔ domainOk P e = true ∧ AllOk P tr := by
  unfold AllOk; simp

theorem params_valid : Valid params := by decide

/-- chunk loop of mul.c:117-126.  Hoare-style: if the code after the loop is good for every state the loop
    can leave (1 ≤ un ≤ MUL_BASECASE_MAX_UN, prodp + un unchanged), the loop is good; it needs at most `un` fuel. -/
theorem loop2_spec (P : Params) (hP : Valid P) (top S : Int)
    (kexit : List Ev → Int → Int → Int → Int → Int → Int → Int → Int → Int → Int → Int → Int → Res)
    (pb ub vb vo vn l k tB tO : Int) (hvn : 1 ≤ vn) (hvk : vn < P.MUL_KARATSUBA_THRESHOLD)
    (hk : ∀ tr po uo un, AllOk P tr → 1 ≤ un → un ≤ P.MUL_BASECASE_MAX_UN → po + un = S →
        Good P top (kexit tr pb po ub uo un vb vo vn l k tB tO)) :
    ∀ (fuel : Nat) (tr : List Ev) (po uo un : Int), AllOk P tr → 1 ≤ un → un ≤ fuel → po + un = S →
      Good P top (mpn_mul_loop2 P kexit fuel tr pb po ub uo un vb vo vn l k tB tO) := by
  obtain ⟨_, _, _, hmax, hkm, _⟩ := hP
  intro fuel
  induction fuel with
  | zero => intro tr po uo un _ h1 h2; simp at h2; omega
  | succ f ih =>
    intro tr po uo un htr h1 h2 hS
    unfold mpn_mul_loop2
    by_cases hc : un > P.MUL_BASECASE_MAX_UN
    · simp only [hc, if_true]
      apply ih
      · simp only [AllOk_cons, htr, and_true]
        simp [domainOk, sizeArgs, List.filterMap]
        omega
      · omega
      · push_cast at h2; omega
      · omega
    · simp only [hc, if_false]
      exact hk tr po uo un htr h1 (by omega) hS

/-- slide loop of mul.c:232-258 (mpn_mul_n on vn-limb pieces, accumulate, advance, swap).
    Invariant: 0 ≤ vn ≤ un, 1 ≤ l, prodp + un + vn unchanged; measure un + vn. -/
theorem loop7_spec (P : Params) (hP : Valid P) (top S : Int)
    (kexit : List Ev → Int → Int → Int → Int → Int → Int → Int → Int → Int → Int → Int → Int → Res)
    (pb k wb wo : Int)
    (hk : ∀ tr po ub uo un vb vo vn l, AllOk P tr → 0 ≤ vn → vn ≤ un → 1 ≤ l → vn < P.MUL_KARATSUBA_THRESHOLD →
        po + un + vn = S → Good P top (kexit tr pb po ub uo un vb vo vn l k wb wo)) :
    ∀ (fuel : Nat) (tr : List Ev) (po ub uo un vb vo vn l : Int), AllOk P tr → 0 ≤ vn → vn ≤ un → 1 ≤ l →
      un + vn < fuel → po + un + vn = S →
      Good P top (mpn_mul_loop7 P kexit fuel tr pb po ub uo un vb vo vn l k wb wo) := by
  obtain ⟨hk2, _⟩ := hP
  intro fuel
  induction fuel with
  | zero =>
    intro tr po ub uo un vb vo vn l htr h0 h1 hl h2 hS
    simp at h2; omega
  | succ f ih =>
    intro tr po ub uo un vb vo vn l htr h0 h1 hl h2 hS
    unfold mpn_mul_loop7
    by_cases hc : vn ≥ P.MUL_KARATSUBA_THRESHOLD
    · simp only [hc, if_true]
      split_ifs <;>
      (apply ih <;> first
        | (simp only [AllOk_cons, htr, and_true]; simp [domainOk, sizeArgs, List.filterMap]; omega)
        | omega
        | (push_cast at h2; omega))
    · simp only [hc, if_false]
      exact hk tr po ub uo un vb vo vn l htr h0 h1 hl (by omega) hS

/-- leaf of the dispatch proof: a `.ret` with an explicit trace -/
macro "dleaf" : tactic => `(tactic|
  (simp only [Good, AllOk_cons]
   simp [AllOk_nil, domainOk, sizeArgs, List.filterMap]
   all_goals try simp only [Above, not_or, not_and, not_le, not_lt, ge_iff_le, gt_iff_lt, ne_eq] at *
   all_goals ((repeat' apply And.intro) <;> first | assumption | omega)))

set_option maxHeartbeats 4000000 in
/-- The generated skeleton of `mpn_mul` (mul.c): every path terminates within `un + 1` units of fuel, returns
    `prodp[un + vn - 1]`, and every call it makes is inside the callee's size domain. -/
theorem mul_ok (P : Params) (hP : Valid P) (fuel : Nat) (un vn ub uo vb vo : Int) (hv : 1 ≤ vn) (hu : vn ≤ un)
    (hf : un < fuel) :
    Good P (un + vn - 1) (mpn_mul P fuel [] 1 0 ub uo un vb vo vn) := by
  have hP' := hP
  obtain ⟨hk2, hkmin, hklim, hmax, hkm, ht3, ht3l, ht4, ht4m, ht8, ht8m, _⟩ := hP'
  unfold mpn_mul
  simp only []
  have e1 : cdiv (un + 3) 4 = (un + 3) / 4 := cdiv_nonneg (by omega)
  have e2 : cdiv (un + 4) 5 = (un + 4) / 5 := cdiv_nonneg (by omega)
  have e3 : cdiv (un + 2) 3 = (un + 2) / 3 := cdiv_nonneg (by omega)
  have e4 : cdiv (9 * ((un + 3) / 4)) 4 = (9 * ((un + 3) / 4)) / 4 := cdiv_nonneg (by omega)
  rw [← e1] at e4
  generalize cdiv (un + 3) 4 = k4 at *
  generalize cdiv (9 * k4) 4 = k94 at *
  generalize cdiv (un + 4) 5 = l5 at *
  generalize cdiv (un + 2) 3 = l3 at *
  by_cases h1 : un = vn
  · rw [if_pos h1]
    by_cases h2 : ub = vb ∧ uo = vo
    · rw [if_pos h2]; dleaf
    · rw [if_neg h2]; dleaf
  · rw [if_neg h1]
    by_cases h2 : vn < P.MUL_KARATSUBA_THRESHOLD
    · rw [if_pos h2]
      by_cases h3 : un ≤ P.MUL_BASECASE_MAX_UN
      · rw [if_pos h3]; dleaf
      · rw [if_neg h3]
        apply loop2_spec P hP (S := un) (hvn := hv) (hvk := h2)
        · intro tr po uo' un' htr g1 g2 g3
          by_cases h4 : un' > vn
          · rw [if_pos h4]; dleaf
          · rw [if_neg h4]; dleaf
        · dleaf
        · omega
        · omega
        · omega
    · rw [if_neg h2]
      by_cases h3 : Above P.MP_SIZE_T_MAX (un + vn) (2 * P.MUL_FFT_FULL_THRESHOLD) ∧ Above P.MP_SIZE_T_MAX (3 * vn) P.MUL_FFT_FULL_THRESHOLD
      · rw [if_pos h3]; dleaf
      · rw [if_neg h3]
        by_cases h4 : (Above P.MP_SIZE_T_MAX (un + vn) (2 * P.MUL_TOOM8H_THRESHOLD) ∧ vn ≥ 86) ∧ 4 * un ≤ 13 * vn
        · rw [if_pos h4]; dleaf
        · rw [if_neg h4]
          by_cases h5 : Above P.MP_SIZE_T_MAX (un + vn) (2 * P.MUL_TOOM4_THRESHOLD)
          · rw [if_pos h5]
            by_cases h6 : vn > 3 * k4
            · rw [if_pos h6]; dleaf
            · rw [if_neg h6]
              by_cases h7 : ((vn > k94 ∧ un + vn ≤ 6 * P.MUL_TOOM4_THRESHOLD) ∨ (vn > 2 * l5 ∧ un + vn > 6 * P.MUL_TOOM4_THRESHOLD)) ∧ vn ≤ 3 * l5
              · rw [if_pos h7]; dleaf
              · rw [if_neg h7]
                by_cases h8 : Above P.MP_SIZE_T_MAX (un + vn) (2 * P.MUL_TOOM3_THRESHOLD) ∧ vn > k4
                · rw [if_pos h8]
                  by_cases h9 : vn < 2 * k4
                  · rw [if_pos h9]; dleaf
                  · rw [if_neg h9]
                    by_cases h10 : vn > 2 * l3
                    · rw [if_pos h10]; dleaf
                    · rw [if_neg h10]; dleaf
                · rw [if_neg h8]
                  rw [if_pos h1]
                  by_cases h11 : un - vn < vn
                  · rw [if_pos h11]
                    apply loop7_spec P hP (S := un + vn)
                    · intro tr po ub' uo' un' vb' vo' vn' l htr g0 g1 g2 g3 g4
                      by_cases h12 : vn' ≠ 0
                      · rw [if_pos h12]
                        by_cases h13 : l ≤ un' + vn'
                        · rw [if_pos h13]
                          by_cases h14 : l ≠ un' + vn'
                          · rw [if_pos h14]; dleaf
                          · rw [if_neg h14]; dleaf
                        · rw [if_neg h13]; dleaf
                      · rw [if_neg h12]; dleaf
                    · dleaf
                    all_goals omega
                  · rw [if_neg h11]
                    apply loop7_spec P hP (S := un + vn)
                    · intro tr po ub' uo' un' vb' vo' vn' l htr g0 g1 g2 g3 g4
                      by_cases h12 : vn' ≠ 0
                      · rw [if_pos h12]
                        by_cases h13 : l ≤ un' + vn'
                        · rw [if_pos h13]
                          by_cases h14 : l ≠ un' + vn'
                          · rw [if_pos h14]; dleaf
                          · rw [if_neg h14]; dleaf
                        · rw [if_neg h13]; dleaf
                      · rw [if_neg h12]; dleaf
                    · dleaf
                    all_goals omega
          · rw [if_neg h5]
            by_cases h8 : Above P.MP_SIZE_T_MAX (un + vn) (2 * P.MUL_TOOM3_THRESHOLD) ∧ vn > k4
            · rw [if_pos h8]
              by_cases h9 : vn < 2 * k4
              · rw [if_pos h9]; dleaf
              · rw [if_neg h9]
                by_cases h10 : vn > 2 * l3
                · rw [if_pos h10]; dleaf
                · rw [if_neg h10]; dleaf
            · rw [if_neg h8]
              rw [if_pos h1]
              by_cases h11 : un - vn < vn
              · rw [if_pos h11]
                apply loop7_spec P hP (S := un + vn)
                · intro tr po ub' uo' un' vb' vo' vn' l htr g0 g1 g2 g3 g4
                  by_cases h12 : vn' ≠ 0
                  · rw [if_pos h12]
                    by_cases h13 : l ≤ un' + vn'
                    · rw [if_pos h13]
                      by_cases h14 : l ≠ un' + vn'
                      · rw [if_pos h14]; dleaf
                      · rw [if_neg h14]; dleaf
                    · rw [if_neg h13]; dleaf
                  · rw [if_neg h12]; dleaf
                · dleaf
                all_goals omega
              · rw [if_neg h11]
                apply loop7_spec P hP (S := un + vn)
                · intro tr po ub' uo' un' vb' vo' vn' l htr g0 g1 g2 g3 g4
                  by_cases h12 : vn' ≠ 0
                  · rw [if_pos h12]
                    by_cases h13 : l ≤ un' + vn'
                    · rw [if_pos h13]
                      by_cases h14 : l ≠ un' + vn'
                      · rw [if_pos h14]; dleaf
                      · rw [if_neg h14]; dleaf
                    · rw [if_neg h13]; dleaf
                  · rw [if_neg h12]; dleaf
                · dleaf
                all_goals omega

/-- skeleton of `mpn_mul_n` (mul_n.c:282-330) -/
theorem mul_n_ok (P : Params) (hP : Valid P) (fuel : Nat) (n ab ao bb bo : Int) (hn : 1 ≤ n) :
    GoodVoid P (mpn_mul_n P fuel [] 1 0 ab ao bb bo n) := by
  obtain ⟨hk2, hkmin, hklim, hmax, hkm, ht3, ht3l, ht4, ht4m, ht8, ht8m, _⟩ := hP
  unfold mpn_mul_n
  simp only []
  split_ifs <;>
  (simp only [GoodVoid, AllOk_cons]
   simp [AllOk_nil, domainOk, sizeArgs, List.filterMap]
   all_goals try simp only [Above, not_or, not_and, not_le, not_lt, ge_iff_le, gt_iff_lt, ne_eq] at *
   all_goals ((repeat' apply And.intro) <;> first | assumption | omega))

/-- skeleton of `mpn_sqr` (mul_n.c:332-387) -/
theorem sqr_ok (P : Params) (hP : Valid P) (fuel : Nat) (n ab ao : Int) (hn : 1 ≤ n) :
    GoodVoid P (mpn_sqr P fuel [] 1 0 ab ao n) := by
  obtain ⟨_, _, _, _, _, _, _, _, _, _, _, hs2, hsmin, hs3, hs3l, hs4m, hs4, hs8m, hs8, _⟩ := hP
  unfold mpn_sqr
  simp only []
  split_ifs <;>
  (simp only [GoodVoid, AllOk_cons]
   simp [AllOk_nil, domainOk, sizeArgs, List.filterMap]
   all_goals try simp only [Above, not_or, not_and, not_le, not_lt, ge_iff_le, gt_iff_lt, ne_eq] at *
   all_goals ((repeat' apply And.intro) <;> first | assumption | omega))

end Mpir.MulDispatch
