/- mpir_ifft_mfa_trunc_sqrt2 (model of Mpir/Model/FftX.lean) inverts mpir_fft_mfa_trunc_sqrt2: the row passes undo the
   row transforms, the column passes (shared with the outer variant) undo the column transforms and the √2 layer. -/
import MpirProofs.Lemmas.FftXMfaChain
set_option linter.unusedSimpArgs false
namespace Mpir.FftX
open Mpir Finset

section ring
variable {S : Type} [CommRing S] (f : ℤ →+* S)

/-- from the rows of the forward transform (entry (row j, column t) = `mfaRow` of the first-layer sums, and of the
    twiddled first-layer differences in the relevant rows of the second half) to 4n times the coefficients -/
theorem ifft_mfa_spec (e1 e2 w trunc : Nat) (hd : 64 ∣ 2 ^ (e1 + e2 + 1) * w) (hw : 1 ≤ w)
    (hz : f 2 ^ (2 ^ (e1 + e2 + 1) * w) = -1) (ht : TruncSOk (e1 + e2 + 1) trunc) (hdiv : 2 * 2 ^ (e1 + 1) ∣ trunc)
    (x : List Int) (h0 : ∀ j, trunc ≤ j → j < 4 * 2 ^ (e1 + e2 + 1) → f (el x j) = 0)
    (Y : List Int) (hlen : Y.length = 4 * 2 ^ (e1 + e2 + 1))
    (hY1 : ∀ j < 2 ^ (e2 + 1), ∀ t < 2 ^ (e1 + 1), f (el Y (j * 2 ^ (e1 + 1) + t)) =
      f (el (mfaRow e1 e2 w (layerSums (2 ^ (e1 + e2 + 1)) x) j) t))
    (hY2 : ∀ s < (trunc - 2 * 2 ^ (e1 + e2 + 1)) / 2 ^ (e1 + 1), ∀ t < 2 ^ (e1 + 1),
      f (el Y (2 ^ (e1 + 1) * 2 ^ (e2 + 1) + rev (e2 + 1) s * 2 ^ (e1 + 1) + t)) =
        f (el (mfaRow e1 e2 w (layerDiffs (2 ^ (e1 + e2 + 1)) w x) (rev (e2 + 1) s)) t)) :
    (∀ i < 2 ^ (e1 + 1), ∀ j < 2 ^ (e2 + 1),
      f (el (ifft_mfa_trunc_sqrt2 (e1 + e2 + 1) w (2 ^ (e1 + 1)) trunc Y) (i + j * 2 ^ (e1 + 1))) =
        2 * (2 ^ (e1 + 1) * 2 ^ (e2 + 1)) * f (el x (i + j * 2 ^ (e1 + 1)))) ∧
    (∀ i < 2 ^ (e1 + 1), ∀ m < (trunc - 2 * 2 ^ (e1 + e2 + 1)) / 2 ^ (e1 + 1),
      f (el (ifft_mfa_trunc_sqrt2 (e1 + e2 + 1) w (2 ^ (e1 + 1)) trunc Y)
          (2 ^ (e1 + 1) * 2 ^ (e2 + 1) + i + m * 2 ^ (e1 + 1))) =
        2 * (2 ^ (e1 + 1) * 2 ^ (e2 + 1)) * f (el x (2 * 2 ^ (e1 + e2 + 1) + (i + m * 2 ^ (e1 + 1))))) := by
  have hN : 2 ^ (e1 + 1) * 2 ^ (e2 + 1) = 2 * 2 ^ (e1 + e2 + 1) := by
    rw [← pow_add, ← pow_succ']; congr 1; ring
  have ht2' := truncOk_of_dvd e1 e2 trunc ht hdiv
  have hn1 := two_pow_pos' (e1 + 1)
  have hu : f 2 ^ (2 * (2 ^ (e1 + e2 + 1) * w)) = 1 := by rw [pow_mul' (f 2) 2 _, hz]; norm_num
  have hnw : 2 ^ e2 * (w * 2 ^ (e1 + 1)) = 2 ^ (e1 + e2 + 1) * w := by
    rw [show e1 + e2 + 1 = e2 + (e1 + 1) by ring, pow_add]; ring
  have hd' : 64 ∣ 2 ^ e2 * (w * 2 ^ (e1 + 1)) := by rw [hnw]; exact hd
  have hu' : f 2 ^ (2 * (2 ^ e2 * (w * 2 ^ (e1 + 1)))) = 1 := by rw [hnw]; exact hu
  have hnw1 : 2 ^ e1 * (w * 2 ^ (e2 + 1)) = 2 ^ (e1 + e2 + 1) * w := by
    rw [show e1 + e2 + 1 = e1 + (e2 + 1) by ring, pow_add]; ring
  have hd1 : 64 ∣ 2 ^ e1 * (w * 2 ^ (e2 + 1)) := by rw [hnw1]; exact hd
  have hu1 : f 2 ^ (2 * (2 ^ e1 * (w * 2 ^ (e2 + 1)))) = 1 := by rw [hnw1]; exact hu
  have hb' : ∀ i < 2 ^ (e1 + 1), (0 + 1 * (2 ^ (e2 + 1) - 1)) * i * w ≤ 2 * (2 ^ e2 * (w * 2 ^ (e1 + 1))) := by
    intro i hi
    have e : 2 * (2 ^ e2 * (w * 2 ^ (e1 + 1))) = 2 ^ (e2 + 1) * 2 ^ (e1 + 1) * w := by rw [pow_succ]; ring
    rw [e, Nat.zero_add, Nat.one_mul]
    exact Nat.mul_le_mul_right w (Nat.mul_le_mul (Nat.sub_le _ _) (le_of_lt hi))
  rw [ifft_mfa_unfold]
  have hxl : Y.length = 2 * (2 ^ (e1 + 1) * 2 ^ (e2 + 1)) := by rw [hlen, hN]; ring
  -- one inverse row pass
  have rowinv : ∀ (X row : List Int) (j : Nat), j < 2 ^ (e2 + 1) → row.length = 2 ^ (e1 + 1) →
      (∀ t < 2 ^ (e1 + 1), f (el row t) = f (el (mfaRow e1 e2 w X j) t)) →
      ∀ t < 2 ^ (e1 + 1), f (el (imfaRowF e1 e2 w row) t) = 2 ^ (e1 + 1) * f (el (mfaCol e2 w (2 ^ (e1 + 1)) X t) j) := by
    intro X row j hj hrl h t ht
    unfold imfaRowF
    have := ifft_radix2_spec f e1 (w * 2 ^ (e2 + 1)) hd1 hu1
      ((List.range (2 ^ (e1 + 1))).map fun i => el (mfaCol e2 w (2 ^ (e1 + 1)) X i) j) (revPerm (e1 + 1) row)
      (fun k hk => by
        rw [el_revPerm _ _ hrl k hk, h _ (rev_lt _ _)]
        unfold mfaRow
        rw [el_revPerm _ _ (length_fft_radix2 _ _ _) _ (rev_lt _ _), rev_rev _ _ hk]) t ht
    rw [this, el_range_map _ _ _ ht]
  have hrowlen : ∀ (Z : List Int) (a : Nat), a + 2 ^ (e1 + 1) ≤ Z.length → ((Z.drop a).take (2 ^ (e1 + 1))).length = 2 ^ (e1 + 1) := by
    intro Z a h; simp; omega
  have hrf : ∀ r : List Int, r.length = 2 ^ (e1 + 1) → (imfaRowF e1 e2 w r).length = 2 ^ (e1 + 1) := by
    intro r _; simp [imfaRowF, length_ifft_radix2]
  have hrowb : ∀ j < 2 ^ (e2 + 1), j * 2 ^ (e1 + 1) + 2 ^ (e1 + 1) ≤ 2 ^ (e1 + 1) * 2 ^ (e2 + 1) := by
    intro j hj
    have : (j + 1) * 2 ^ (e1 + 1) ≤ 2 ^ (e2 + 1) * 2 ^ (e1 + 1) := Nat.mul_le_mul_right _ hj
    have e : (j + 1) * 2 ^ (e1 + 1) = j * 2 ^ (e1 + 1) + 2 ^ (e1 + 1) := by ring
    rw [Nat.mul_comm (2 ^ (e2 + 1))] at this
    omega
  -- stage A: first-half rows
  obtain ⟨lA, oA, vA⟩ := onRows_spec 0 (2 ^ (e1 + 1)) (2 ^ (e2 + 1)) (imfaRowF e1 e2 w) hrf (List.range (2 ^ (e2 + 1)))
    List.nodup_range (fun i hi => List.mem_range.mp hi) Y (by rw [hxl]; omega)
  generalize hZ1 : onRows Y 0 (2 ^ (e1 + 1)) (List.range (2 ^ (e2 + 1))) (imfaRowF e1 e2 w) = Z1 at *
  have ZA1 : ∀ i < 2 ^ (e1 + 1), ∀ j < 2 ^ (e2 + 1), f (el Z1 (i + j * 2 ^ (e1 + 1))) =
      2 ^ (e1 + 1) * f (el (mfaCol e2 w (2 ^ (e1 + 1)) (layerSums (2 ^ (e1 + e2 + 1)) x) i) j) := by
    intro i hi j hj
    have := vA j hj i hi
    simp only [Nat.zero_add] at this
    rw [show i + j * 2 ^ (e1 + 1) = j * 2 ^ (e1 + 1) + i by ring, this, if_pos (List.mem_range.mpr hj)]
    have hb := hrowb j hj
    exact rowinv _ _ j hj (hrowlen _ _ (by rw [hxl]; omega))
      (fun t ht => by rw [el_take_drop _ _ _ _ ht]; exact hY1 j hj t ht) i hi
  -- stage B: first-half columns
  obtain ⟨lB, vB⟩ := fold_lo_cols_val (2 ^ (e1 + 1)) (2 ^ (e2 + 1)) (imfaH1 e1 e2 w)
    (fun i c => length_ifft_radix2_twiddle _ _ _ _ _ _ _) Z1 (by rw [lA, hxl]) (2 ^ (e1 + 1)) le_rfl
  generalize hZ2 : (List.range (2 ^ (e1 + 1))).foldl
    (fun xs i => setCol xs i (2 ^ (e1 + 1)) (imfaH1 e1 e2 w i (getCol xs i (2 ^ (e1 + 1)) (2 ^ (e2 + 1))))) Z1 = Z2 at *
  have S1 : ∀ i < 2 ^ (e1 + 1), ∀ j < 2 ^ (e2 + 1), f (el Z2 (i + j * 2 ^ (e1 + 1))) =
      2 ^ (e1 + 1) * 2 ^ (e2 + 1) *
        (f (el x (i + j * 2 ^ (e1 + 1))) + f (el x (2 * 2 ^ (e1 + e2 + 1) + (i + j * 2 ^ (e1 + 1))))) := by
    intro i hi j hj
    have hidx : i + j * 2 ^ (e1 + 1) < 2 * 2 ^ (e1 + e2 + 1) := by rw [← hN]; exact idx_lt _ _ i j hi hj
    rw [(vB i hi j hj).1, if_pos hi]
    unfold imfaH1
    have h := ifft_radix2_twiddle_spec f e2 (w * 2 ^ (e1 + 1)) w 0 i 1 hd' hu' (hb' i hi) (2 ^ (e1 + 1))
      (getCol (layerSums (2 ^ (e1 + e2 + 1)) x) i (2 ^ (e1 + 1)) (2 ^ (e2 + 1)))
      (revPerm (e2 + 1) (getCol Z1 i (2 ^ (e1 + 1)) (2 ^ (e2 + 1))))
      (fun m hm => by
        rw [el_revPerm _ _ (length_getCol _ _ _ _) m hm, el_getCol _ _ _ _ _ (rev_lt _ _), ZA1 i hi _ (rev_lt _ _)]
        unfold mfaCol
        rw [el_revPerm _ _ (length_fft_radix2_twiddle _ _ _ _ _ _ _) _ (rev_lt _ _), rev_rev _ _ hm]) j hj
    rw [h, el_getCol _ _ _ _ _ hj, layerSums, el_range_map _ _ _ hidx, map_add]
  -- stage C: relevant rows of the second half
  have hrows : ∀ i ∈ (List.range ((trunc - 2 * 2 ^ (e1 + e2 + 1)) / 2 ^ (e1 + 1))).map (fun s => revbin s (e2 + 1)),
      i < 2 ^ (e2 + 1) := by
    intro i hi
    obtain ⟨s', hs', rfl⟩ := List.mem_map.mp hi
    have hs' := List.mem_range.mp hs'
    rw [revbin_rev _ _ (lt_of_lt_of_le hs' ht2'.2.2)]; exact rev_lt _ _
  have hnd : ((List.range ((trunc - 2 * 2 ^ (e1 + e2 + 1)) / 2 ^ (e1 + 1))).map (fun s => revbin s (e2 + 1))).Nodup := by
    apply List.Nodup.map_on _ List.nodup_range
    intro a ha b hb hab
    have ha := lt_of_lt_of_le (List.mem_range.mp ha) ht2'.2.2
    have hb := lt_of_lt_of_le (List.mem_range.mp hb) ht2'.2.2
    rw [revbin_rev _ _ ha, revbin_rev _ _ hb] at hab
    rw [← rev_rev _ _ ha, ← rev_rev _ _ hb, hab]
  obtain ⟨lC, oC, vC⟩ := onRows_spec (2 ^ (e1 + 1) * 2 ^ (e2 + 1)) (2 ^ (e1 + 1)) (2 ^ (e2 + 1)) (imfaRowF e1 e2 w) hrf _
    hnd hrows Z2 (by rw [lB, lA, hxl]; omega)
  generalize hZ3 : onRows Z2 (2 ^ (e1 + 1) * 2 ^ (e2 + 1)) (2 ^ (e1 + 1))
    ((List.range ((trunc - 2 * 2 ^ (e1 + e2 + 1)) / 2 ^ (e1 + 1))).map fun s => revbin s (e2 + 1)) (imfaRowF e1 e2 w) = Z3 at *
  have ZC : ∀ i < 2 ^ (e1 + 1), ∀ s < (trunc - 2 * 2 ^ (e1 + e2 + 1)) / 2 ^ (e1 + 1),
      f (el Z3 (2 ^ (e1 + 1) * 2 ^ (e2 + 1) + i + rev (e2 + 1) s * 2 ^ (e1 + 1))) =
        2 ^ (e1 + 1) * f (el (mfaCol e2 w (2 ^ (e1 + 1)) (layerDiffs (2 ^ (e1 + e2 + 1)) w x) i) (rev (e2 + 1) s)) := by
    intro i hi s hs
    have hs2 : s < 2 ^ (e2 + 1) := lt_of_lt_of_le hs ht2'.2.2
    have hjr := rev_lt (e2 + 1) s
    have hmem : rev (e2 + 1) s ∈
        (List.range ((trunc - 2 * 2 ^ (e1 + e2 + 1)) / 2 ^ (e1 + 1))).map (fun s => revbin s (e2 + 1)) :=
      List.mem_map.mpr ⟨s, List.mem_range.mpr hs, revbin_rev _ _ hs2⟩
    have hb := hrowb _ hjr
    rw [show 2 ^ (e1 + 1) * 2 ^ (e2 + 1) + i + rev (e2 + 1) s * 2 ^ (e1 + 1) =
      2 ^ (e1 + 1) * 2 ^ (e2 + 1) + rev (e2 + 1) s * 2 ^ (e1 + 1) + i by ring, vC _ hjr i hi, if_pos hmem]
    exact rowinv _ _ _ hjr (hrowlen _ _ (by rw [lB, lA, hxl]; omega))
      (fun t ht => by
        rw [el_take_drop _ _ _ _ ht,
          show 2 ^ (e1 + 1) * 2 ^ (e2 + 1) + rev (e2 + 1) s * 2 ^ (e1 + 1) + t =
            2 ^ (e1 + 1) * 2 ^ (e2 + 1) + t + rev (e2 + 1) s * 2 ^ (e1 + 1) by ring,
          (vB t ht _ hjr).2, oA _ (Or.inr (by omega)),
          show 2 ^ (e1 + 1) * 2 ^ (e2 + 1) + t + rev (e2 + 1) s * 2 ^ (e1 + 1) =
            2 ^ (e1 + 1) * 2 ^ (e2 + 1) + rev (e2 + 1) s * 2 ^ (e1 + 1) + t by ring]
        exact hY2 s hs t ht) i hi
  -- stage D: both columns
  have hG2 : ∀ i ca cb, (imfaG2u e1 e2 w trunc i ca cb).1.length = 2 ^ (e2 + 1) ∧
      (imfaG2u e1 e2 w trunc i ca cb).2.length = 2 ^ (e2 + 1) := by
    intro i ca cb; simp [imfaG2u, length_fsts, length_snds]
  obtain ⟨lD, vD⟩ := fold_cols (2 ^ (e1 + 1)) (2 ^ (e2 + 1)) (imfaG2u e1 e2 w trunc) hG2 Z3 (by rw [lC, lB, lA, hxl])
    (2 ^ (e1 + 1)) le_rfl
  have col : ∀ i < 2 ^ (e1 + 1), _ := fun i hi =>
    imfaG2u_val f e1 e2 w trunc hd hw hz ht hdiv x h0 (2 ^ (e1 + 1)) i hi
      (getCol Z3 i (2 ^ (e1 + 1)) (2 ^ (e2 + 1)))
      (getCol Z3 (2 ^ (e1 + 1) * 2 ^ (e2 + 1) + i) (2 ^ (e1 + 1)) (2 ^ (e2 + 1))) (length_getCol _ _ _ _)
      (fun m hm => by
        have hidx := idx_lt (2 ^ (e1 + 1)) (2 ^ (e2 + 1)) i m hi hm
        rw [el_getCol _ _ _ _ _ hm, oC _ (Or.inl hidx)]; exact S1 i hi m hm)
      (fun s hs => by
        have hs2 : s < 2 ^ (e2 + 1) := lt_of_lt_of_le hs ht2'.2.2
        rw [el_getCol _ _ _ _ _ (rev_lt _ _), ZC i hi s hs]
        unfold mfaCol
        rw [el_revPerm _ _ (length_fft_radix2_twiddle _ _ _ _ _ _ _) _ (rev_lt _ _), rev_rev _ _ hs2])
  constructor
  · intro i hi j hj
    rw [(vD i hi j hj).1, if_pos hi]
    exact (col i hi).1 j hj
  · intro i hi m hm
    have hm2 : m < 2 ^ (e2 + 1) := lt_of_lt_of_le hm ht2'.2.2
    rw [(vD i hi m hm2).2, if_pos hi]
    exact (col i hi).2 m hm

/-- mpir_ifft_mfa_trunc_sqrt2 applied to values congruent to those of mpir_fft_mfa_trunc_sqrt2 (first half matrix and the
    relevant rows of the second half) returns the 4n-fold coefficients below `trunc` -/
theorem ifft_mfa_inverts (e1 e2 w trunc : Nat) (hd : 64 ∣ 2 ^ (e1 + e2 + 1) * w) (hw : 1 ≤ w)
    (hz : f 2 ^ (2 ^ (e1 + e2 + 1) * w) = -1) (ht : TruncSOk (e1 + e2 + 1) trunc) (hdiv : 2 * 2 ^ (e1 + 1) ∣ trunc)
    (xs : List Int) (hxl : xs.length = 4 * 2 ^ (e1 + e2 + 1)) (hz0 : ∀ j, trunc ≤ j → el xs j = 0)
    (ys : List Int) (hyl : ys.length = 4 * 2 ^ (e1 + e2 + 1))
    (h1 : ∀ j < 2 ^ (e2 + 1), ∀ t < 2 ^ (e1 + 1), f (el ys (j * 2 ^ (e1 + 1) + t)) =
      f (el (fft_mfa_trunc_sqrt2 (e1 + e2 + 1) w (2 ^ (e1 + 1)) trunc xs) (j * 2 ^ (e1 + 1) + t)))
    (h2 : ∀ s < (trunc - 2 * 2 ^ (e1 + e2 + 1)) / 2 ^ (e1 + 1), ∀ t < 2 ^ (e1 + 1),
      f (el ys (2 ^ (e1 + 1) * 2 ^ (e2 + 1) + rev (e2 + 1) s * 2 ^ (e1 + 1) + t)) =
      f (el (fft_mfa_trunc_sqrt2 (e1 + e2 + 1) w (2 ^ (e1 + 1)) trunc xs)
        (2 ^ (e1 + 1) * 2 ^ (e2 + 1) + rev (e2 + 1) s * 2 ^ (e1 + 1) + t)))
    (p : Nat) (hp : p < trunc) :
    f (el (ifft_mfa_trunc_sqrt2 (e1 + e2 + 1) w (2 ^ (e1 + 1)) trunc ys) p) = 2 ^ (e1 + e2 + 1 + 2) * f (el xs p) := by
  have hN : 2 ^ (e1 + 1) * 2 ^ (e2 + 1) = 2 * 2 ^ (e1 + e2 + 1) := by
    rw [← pow_add, ← pow_succ']; congr 1; ring
  have ht2' := truncOk_of_dvd e1 e2 trunc ht hdiv
  have hn1 := two_pow_pos' (e1 + 1)
  obtain ⟨ht1, ht2, ht3⟩ := ht
  have ht : TruncSOk (e1 + e2 + 1) trunc := ⟨ht1, ht2, ht3⟩
  obtain ⟨O1, O2⟩ := ifft_mfa_spec f e1 e2 w trunc hd hw hz ht hdiv xs
    (fun j hj _ => by rw [hz0 j hj]; simp) ys hyl
    (fun j hj t htt => by
      rw [h1 j hj t htt, fft_mfa_first_half f e1 e2 w trunc xs hxl ht hz0 hz j t hj htt,
        fft_full_sqrt2_low _ _ _ _ (rev_lt _ _), ← mfa_passes f e1 e2 w _ hz j t hj htt])
    (fun s hs t htt => by
      rw [h2 s hs t htt, fft_mfa_second_half f e1 e2 w trunc xs hxl ht ht2' hz0 hz s t hs htt,
        fft_full_sqrt2_high, ← mfa_passes f e1 e2 w _ hz _ t (rev_lt _ _) htt])
  have hsc : (2 : S) * (2 ^ (e1 + 1) * 2 ^ (e2 + 1)) = 2 ^ (e1 + e2 + 1 + 2) := by
    rw [show e1 + e2 + 1 + 2 = (e1 + 1) + (e2 + 1) + 1 by ring, pow_succ, pow_add]; ring
  rw [hsc] at O1 O2
  by_cases hp2 : p < 2 * 2 ^ (e1 + e2 + 1)
  · have hdm := Nat.mod_add_div p (2 ^ (e1 + 1))
    have hi : p % 2 ^ (e1 + 1) < 2 ^ (e1 + 1) := Nat.mod_lt _ hn1
    have hj : p / 2 ^ (e1 + 1) < 2 ^ (e2 + 1) := by
      apply Nat.div_lt_of_lt_mul; rw [hN]; exact hp2
    have ep : p = p % 2 ^ (e1 + 1) + p / 2 ^ (e1 + 1) * 2 ^ (e1 + 1) := by
      rw [Nat.mul_comm (p / 2 ^ (e1 + 1))]; exact hdm.symm
    rw [ep, O1 _ hi _ hj]
  · have hq : p - 2 * 2 ^ (e1 + e2 + 1) < (trunc - 2 * 2 ^ (e1 + e2 + 1)) / 2 ^ (e1 + 1) * 2 ^ (e1 + 1) := by
      have h1 : 2 ^ (e1 + 1) ∣ trunc := Dvd.dvd.trans (Dvd.intro_left 2 rfl) hdiv
      have h2 : 2 ^ (e1 + 1) ∣ 2 * 2 ^ (e1 + e2 + 1) := by rw [← hN]; exact Dvd.intro _ rfl
      rw [Nat.div_mul_cancel (Nat.dvd_sub h1 h2)]; omega
    generalize hq' : p - 2 * 2 ^ (e1 + e2 + 1) = q at *
    have hdm := Nat.mod_add_div q (2 ^ (e1 + 1))
    have hi : q % 2 ^ (e1 + 1) < 2 ^ (e1 + 1) := Nat.mod_lt _ hn1
    have hm : q / 2 ^ (e1 + 1) < (trunc - 2 * 2 ^ (e1 + e2 + 1)) / 2 ^ (e1 + 1) := by
      apply Nat.div_lt_of_lt_mul; rw [Nat.mul_comm]; exact hq
    have ep : p = 2 ^ (e1 + 1) * 2 ^ (e2 + 1) + q % 2 ^ (e1 + 1) + q / 2 ^ (e1 + 1) * 2 ^ (e1 + 1) := by
      rw [hN, Nat.mul_comm (q / 2 ^ (e1 + 1))]; omega
    have ep2 : p = 2 * 2 ^ (e1 + e2 + 1) + (q % 2 ^ (e1 + 1) + q / 2 ^ (e1 + 1) * 2 ^ (e1 + 1)) := by
      rw [Nat.mul_comm (q / 2 ^ (e1 + 1))]; omega
    rw [ep, O2 _ hi _ hm, ← ep2, ← ep]

end ring

end Mpir.FftX
