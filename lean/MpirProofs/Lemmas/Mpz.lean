/- Helper lemmas for the mpz object-layer model (Mpir/Model/Mpz.lean). -/
import MpirProofs.Lemmas.Kernels
import Mpir.Model.Mpz
namespace Mpir.Mpz
end Mpir.Mpz
