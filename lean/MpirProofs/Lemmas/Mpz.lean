/- Helper lemmas for the mpz object-layer model (Mpir/Model/Mpz.lean). -/
import MpirProofs.Lemmas.MpzKernel
import Mpir.Model.Mpz
import Mathlib.Tactic.SplitIfs
namespace Mpir.Mpz
open Mpir

/-! ## normalised magnitudes -/

/-- proper limbs, most significant one non-zero -/
def Norm (d : List Nat) : Prop := Limbs d ∧ d.getLast? ≠ some 0

theorem Norm_nil : Norm [] := ⟨Limbs_nil, by simp⟩

theorem Norm.lower {d : List Nat} (h : Norm d) (hne : d ≠ []) : B ^ (d.length - 1) ≤ val d := by
  rcases List.eq_nil_or_concat d with h0 | ⟨l, b, rfl⟩
  · exact absurd h0 hne
  · have hb : b ≠ 0 := by
      intro hb; apply h.2; simp [List.concat_eq_append, hb]
    have hb1 : 1 ≤ b := Nat.pos_of_ne_zero hb
    simp only [List.concat_eq_append, val_append, List.length_append, List.length_cons,
      List.length_nil, val_cons, val_nil]
    have : B ^ l.length * 1 ≤ B ^ l.length * b := Nat.mul_le_mul_left _ hb1
    simp only [Nat.zero_add, Nat.add_sub_cancel, Nat.mul_zero, Nat.add_zero]
    omega

theorem Norm.of_lower {d : List Nat} (hl : Limbs d) (h : d = [] ∨ B ^ (d.length - 1) ≤ val d) :
    Norm d := by
  refine ⟨hl, ?_⟩
  rcases List.eq_nil_or_concat d with h0 | ⟨l, b, rfl⟩
  · simp [h0]
  · simp only [List.concat_eq_append, List.getLast?_concat, ne_eq, Option.some.injEq]
    intro hb
    subst hb
    rcases h with h | h
    · simp at h
    · have hll : Limbs l := (Limbs_append.mp (by simpa [List.concat_eq_append] using hl)).1
      have := val_lt l hll
      simp only [List.concat_eq_append, val_append, List.length_append, List.length_cons,
        List.length_nil, val_cons, val_nil, Nat.zero_add, Nat.add_sub_cancel, Nat.mul_zero,
        Nat.add_zero] at h
      omega

theorem Norm.upper {d : List Nat} (h : Norm d) : val d < B ^ d.length := val_lt d h.1

theorem Norm.pos {d : List Nat} (h : Norm d) (hne : d ≠ []) : 0 < val d :=
  Nat.lt_of_lt_of_le (pow_pos B_pos _) (h.lower hne)

theorem val_replicate_zero (k : Nat) : val (List.replicate k 0) = 0 := by
  induction k with
  | zero => rfl
  | succ k ih => simp [List.replicate_succ, ih]

theorem Limbs_replicate_zero (k : Nat) : Limbs (List.replicate k 0) := by
  intro x hx; rw [List.eq_of_mem_replicate hx]; exact B_pos

theorem dropWhile_zero_spec (r : List Nat) :
    ∃ k, r = List.replicate k 0 ++ r.dropWhile (· == 0) := by
  induction r with
  | nil => exact ⟨0, rfl⟩
  | cons x xs ih =>
    by_cases hx : x = 0
    · obtain ⟨k, hk⟩ := ih
      refine ⟨k + 1, ?_⟩
      subst hx
      simp only [List.dropWhile_cons, beq_self_eq_true, if_true, List.replicate_succ,
        List.cons_append]
      rw [← hk]
    · exact ⟨0, by simp [hx]⟩

theorem normalize_spec (l : List Nat) : ∃ k, l = normalize l ++ List.replicate k 0 := by
  obtain ⟨k, hk⟩ := dropWhile_zero_spec l.reverse
  refine ⟨k, ?_⟩
  have := congrArg List.reverse hk
  simpa [normalize] using this

theorem val_normalize (l : List Nat) : val (normalize l) = val l := by
  obtain ⟨k, hk⟩ := normalize_spec l
  conv_rhs => rw [hk]
  rw [val_append, val_replicate_zero]; simp

theorem normalize_length_le (l : List Nat) : (normalize l).length ≤ l.length := by
  obtain ⟨k, hk⟩ := normalize_spec l
  conv_rhs => rw [hk]
  simp

theorem Norm_normalize {l : List Nat} (h : Limbs l) : Norm (normalize l) := by
  constructor
  · obtain ⟨k, hk⟩ := normalize_spec l
    rw [hk] at h
    exact (Limbs_append.mp h).1
  · unfold normalize
    rw [List.getLast?_reverse]
    have := List.head?_dropWhile_not (· == 0) l.reverse
    intro h0
    rw [h0] at this
    simp at this

/-! ## objects -/

theorem WF_iff (x : Mpz) :
    WF x ↔ 1 ≤ x.alloc ∧ x.size.natAbs ≤ x.alloc ∧ x.d.length = x.size.natAbs ∧ Norm x.d := by
  unfold WF Norm; tauto

/-- signed value of a magnitude under a size field -/
def sval (s : Int) (d : List Nat) : Int := if s < 0 then -(val d : Int) else (val d : Int)

theorem toInt_eq (x : Mpz) : toInt x = sval x.size x.d := rfl

theorem natAbs_sgn (b : Bool) (n : Nat) : (sgn b n).natAbs = n := by
  cases b <;> simp [sgn]

theorem realloc_alloc (m : Mpz) (n : Nat) : (realloc m n).alloc = max n 1 := by
  unfold realloc; dsimp only; split <;> rfl

theorem grow_alloc (w : Mpz) (n : Nat) : n ≤ (grow w n).alloc ∧ w.alloc ≤ (grow w n).alloc := by
  unfold grow
  split
  · rw [realloc_alloc]; omega
  · omega

/-- the object `{alloc, ±n, d}` built by every function: well formed, value `±val d`. -/
theorem mk_spec (a n : Nat) (neg : Bool) (d : List Nat) (hn : d.length = n) (hd : Norm d)
    (ha : n ≤ a) (ha1 : 1 ≤ a) :
    WF ⟨a, sgn neg n, d⟩ ∧
    toInt ⟨a, sgn neg n, d⟩ = if neg then -(val d : Int) else (val d : Int) := by
  refine ⟨(WF_iff _).mpr ⟨ha1, by simpa [natAbs_sgn] using ha, by simp [natAbs_sgn, hn], hd⟩, ?_⟩
  unfold toInt sgn
  cases neg
  · simp
  · simp only [if_true]
    by_cases h0 : n = 0
    · subst h0
      have : d = [] := List.length_eq_zero_iff.mp hn
      subst this; simp
    · have : -(n : Int) < 0 := by omega
      rw [if_pos this]

theorem diffSign_iff (a b : Int) : diffSign a b = true ↔ (a < 0 ↔ ¬ b < 0) := by
  unfold diffSign
  by_cases ha : a < 0 <;> by_cases hb : b < 0 <;> simp [ha, hb]

/-- `(r ++ [c]).take (n + [c ≠ 0])`: the buffer after `wp[n] = c; size = n + (c != 0)`. -/
theorem take_carry (r : List Nat) (c n : Nat) (hn : r.length = n) (hl : Limbs r) (hc : c < B)
    (hlow : n = 0 ∨ B ^ (n - 1) ≤ val r + B ^ n * c) :
    val ((r ++ [c]).take (n + (if c != 0 then 1 else 0))) = val r + B ^ n * c ∧
    ((r ++ [c]).take (n + (if c != 0 then 1 else 0))).length = n + (if c != 0 then 1 else 0) ∧
    Norm ((r ++ [c]).take (n + (if c != 0 then 1 else 0))) := by
  by_cases h0 : c = 0
  · subst h0
    simp only [bne_self_eq_false, Bool.false_eq_true, if_false, Nat.add_zero, Nat.mul_zero]
    rw [List.take_left' hn]
    refine ⟨rfl, hn, Norm.of_lower hl ?_⟩
    rcases hlow with h | h
    · left; exact List.length_eq_zero_iff.mp (hn.trans h)
    · right; rw [hn]; simpa using h
  · have hb : (c != 0) = true := by simp [h0]
    simp only [hb, if_true]
    rw [List.take_of_length_le (by simp [hn])]
    refine ⟨by rw [val_append, hn]; simp, by simp [hn], ?_, ?_⟩
    · exact Limbs_append.mpr ⟨hl, Limbs_cons.mpr ⟨hc, Limbs_nil⟩⟩
    · simp [h0]

theorem take_carry' (r : List Nat) (c n : Nat) (hn : r.length = n) (hl : Limbs r) (hc : c ≤ 1)
    (hlow : n = 0 ∨ B ^ (n - 1) ≤ val r + B ^ n * c) :
    val ((r ++ [c]).take (n + c)) = val r + B ^ n * c ∧
    ((r ++ [c]).take (n + c)).length = n + c ∧ Norm ((r ++ [c]).take (n + c)) := by
  have h := take_carry r c n hn hl (by have := B_eq; omega) hlow
  have e : (if c != 0 then 1 else 0) = c := by
    rcases Nat.le_one_iff_eq_zero_or_eq_one.mp hc with h | h <;> subst h <;> rfl
  rw [e] at h; exact h

theorem sval_neg (s : Int) (d : List Nat) (h : d.length = s.natAbs) : sval (-s) d = -sval s d := by
  unfold sval
  by_cases h0 : s = 0
  · subst h0
    have : d = [] := List.length_eq_zero_iff.mp (by simpa using h)
    subst this; simp
  · by_cases h1 : s < 0
    · have : ¬ (-s < 0) := by omega
      rw [if_pos h1, if_neg this]; simp
    · have : -s < 0 := by omega
      rw [if_neg h1, if_pos this]

/-- no borrow out of a subtraction whose result is non-negative -/
theorem borrow_zero {r y x P c : Nat} (h : r + y = x + P * c) (hc : c ≤ 1) (hr : r < P) (hle : y ≤ x) :
    c = 0 ∧ r + y = x := by
  rcases Nat.le_one_iff_eq_zero_or_eq_one.mp hc with h0 | h0
  · subst h0; simpa using h
  · subst h0; omega

/-! ## mpz_add / mpz_sub -/

theorem aorsCore_spec (w u v : Mpz) (us vs : Int) (hu : Norm u.d) (hv : Norm v.d)
    (hul : u.d.length = us.natAbs) (hvl : v.d.length = vs.natAbs) (hle : vs.natAbs ≤ us.natAbs) :
    WF (aorsCore w u v us vs) ∧ toInt (aorsCore w u v us vs) = sval us u.d + sval vs v.d := by
  obtain ⟨ga1, ga2⟩ := grow_alloc w (us.natAbs + 1)
  unfold aorsCore
  dsimp only
  split_ifs with hds hne hcmp
  · -- signs differ, sizes differ: |u| > |v|
    have hne' : us.natAbs ≠ vs.natAbs := by simpa using hne
    obtain ⟨sv, sc, sl, sn⟩ := K.sub_val u.d v.d hu.1 hv.1 (by omega)
    have hune : u.d ≠ [] := by intro h; rw [h] at hul; simp at hul; omega
    have hlow := hu.lower hune
    have hvup := hv.upper
    have hpow : B ^ v.d.length ≤ B ^ (u.d.length - 1) := Nat.pow_le_pow_right B_pos (by omega)
    have hrup := val_lt _ sl
    rw [sn] at hrup
    obtain ⟨_, sv'⟩ := borrow_zero sv sc hrup (by omega)
    obtain ⟨wf, ti⟩ := mk_spec (grow w (us.natAbs + 1)).alloc _ (decide (us < 0)) _ rfl
      (Norm_normalize sl) (by have := normalize_length_le (Mpir.sub u.d v.d).1; omega) (by omega)
    refine ⟨wf, ?_⟩
    rw [ti, val_normalize]
    rw [diffSign_iff] at hds
    unfold sval
    by_cases h1 : us < 0 <;> by_cases h2 : vs < 0 <;> simp [h1, h2] at hds ⊢ <;> omega
  · -- signs differ, same size, |u| < |v|
    have heq : us.natAbs = vs.natAbs := by simpa using hne
    have hlen : u.d.length = v.d.length := by omega
    have hlt := (K.cmp_lt_iff u.d v.d hu.1 hv.1 hlen).mp hcmp
    obtain ⟨sv, sc, sl, sn⟩ := K.sub_n_val v.d u.d hv.1 hu.1 hlen.symm
    have hrup := val_lt _ sl
    rw [sn] at hrup
    obtain ⟨_, sv'⟩ := borrow_zero sv sc hrup (by omega)
    obtain ⟨wf, ti⟩ := mk_spec (grow w (us.natAbs + 1)).alloc _ (decide (us ≥ 0)) _ rfl
      (Norm_normalize sl) (by have := normalize_length_le (Mpir.sub_n v.d u.d).1; omega) (by omega)
    refine ⟨wf, ?_⟩
    rw [ti, val_normalize]
    rw [diffSign_iff] at hds
    unfold sval
    by_cases h1 : us < 0 <;> by_cases h2 : vs < 0 <;> simp [h1, h2] at hds ⊢ <;> omega
  · -- signs differ, same size, |u| ≥ |v|
    have heq : us.natAbs = vs.natAbs := by simpa using hne
    have hlen : u.d.length = v.d.length := by omega
    have hge : ¬ val u.d < val v.d := fun h => hcmp ((K.cmp_lt_iff u.d v.d hu.1 hv.1 hlen).mpr h)
    obtain ⟨sv, sc, sl, sn⟩ := K.sub_n_val u.d v.d hu.1 hv.1 hlen
    have hrup := val_lt _ sl
    rw [sn] at hrup
    obtain ⟨_, sv'⟩ := borrow_zero sv sc hrup (by omega)
    obtain ⟨wf, ti⟩ := mk_spec (grow w (us.natAbs + 1)).alloc _ (decide (us < 0)) _ rfl
      (Norm_normalize sl) (by have := normalize_length_le (Mpir.sub_n u.d v.d).1; omega) (by omega)
    refine ⟨wf, ?_⟩
    rw [ti, val_normalize]
    rw [diffSign_iff] at hds
    unfold sval
    by_cases h1 : us < 0 <;> by_cases h2 : vs < 0 <;> simp [h1, h2] at hds ⊢ <;> omega
  · -- same sign: add
    obtain ⟨av, ac, al, an⟩ := K.add_val u.d v.d hu.1 hv.1 (by omega)
    have hlow : us.natAbs = 0 ∨ B ^ (us.natAbs - 1) ≤
        val (Mpir.add u.d v.d).1 + B ^ us.natAbs * (Mpir.add u.d v.d).2 := by
      by_cases h0 : us.natAbs = 0
      · left; exact h0
      · right
        have hune : u.d ≠ [] := by intro h; rw [h] at hul; simp at hul; omega
        have := hu.lower hune
        rw [hul] at this av; omega
    obtain ⟨tv, tl, tn⟩ := take_carry' _ _ us.natAbs (an.trans hul) al ac hlow
    obtain ⟨wf, ti⟩ := mk_spec (grow w (us.natAbs + 1)).alloc _ (decide (us < 0)) _ tl tn
      (by omega) (by omega)
    refine ⟨wf, ?_⟩
    rw [hul] at av
    have key := tv.trans av
    rw [ti]
    clear ti tv av hlow
    have hds' : ¬ (us < 0 ↔ ¬ vs < 0) := fun h => hds ((diffSign_iff us vs).mpr h)
    unfold sval
    by_cases h1 : us < 0 <;> by_cases h2 : vs < 0 <;> simp [h1, h2] at hds' ⊢ <;> omega

theorem aors_spec (isSub : Bool) (w u v : Mpz) (hu : WF u) (hv : WF v) :
    WF (aors isSub w u v) ∧
    toInt (aors isSub w u v) = toInt u + (if isSub then -toInt v else toInt v) := by
  obtain ⟨_, _, hul, hun⟩ := (WF_iff u).mp hu
  obtain ⟨_, _, hvl, hvn⟩ := (WF_iff v).mp hv
  have hv' : sval (if isSub then -v.size else v.size) v.d = if isSub then -toInt v else toInt v := by
    cases isSub
    · simp [toInt_eq]
    · simp [toInt_eq, sval_neg _ _ hvl]
  have hvl' : v.d.length = (if isSub = true then -v.size else v.size).natAbs := by
    cases isSub <;> simp [hvl]
  unfold aors
  dsimp only
  generalize (if isSub = true then -v.size else v.size) = vs' at *
  by_cases hsw : u.size.natAbs < vs'.natAbs
  · rw [if_pos hsw]
    obtain ⟨wf, ti⟩ := aorsCore_spec w v u _ u.size hvn hun hvl' hul (by omega)
    refine ⟨wf, ?_⟩
    rw [ti, hv', toInt_eq u]; ring
  · rw [if_neg hsw]
    obtain ⟨wf, ti⟩ := aorsCore_spec w u v u.size _ hun hvn hul hvl' (by omega)
    exact ⟨wf, by rw [ti, hv', toInt_eq u]⟩

/-! ## size adjustment by the top limb: `n -= (wp[n-1] == 0)` -/

theorem topLimb_concat (l : List Nat) (b : Nat) : topLimb (l ++ [b]) = b := by
  simp [topLimb, List.getLastD_eq_getLast?]

theorem strip_top (r : List Nat) (n : Nat) (hn : r.length = n) (hl : Limbs r)
    (hlow : n ≤ 1 ∨ B ^ (n - 2) ≤ val r) :
    val (r.take (n - (if topLimb r == 0 then 1 else 0))) = val r ∧
    (r.take (n - (if topLimb r == 0 then 1 else 0))).length = n - (if topLimb r == 0 then 1 else 0) ∧
    Norm (r.take (n - (if topLimb r == 0 then 1 else 0))) := by
  rcases List.eq_nil_or_concat r with h0 | ⟨l, b, rfl⟩
  · subst h0; simp at hn; subst hn; simp [Norm_nil]
  · simp only [List.concat_eq_append] at *
    have hll : Limbs l := (Limbs_append.mp hl).1
    have hn' : l.length + 1 = n := by simpa using hn
    rw [topLimb_concat]
    by_cases hb : b = 0
    · subst hb
      have e : n - 1 = l.length := by omega
      simp only [beq_self_eq_true, if_true, e]
      rw [List.take_left' rfl]
      refine ⟨by simp [val_append], rfl, Norm.of_lower hll ?_⟩
      by_cases hl0 : l = []
      · left; exact hl0
      · right
        have : l.length ≠ 0 := fun h => hl0 (List.length_eq_zero_iff.mp h)
        rcases hlow with h | h
        · omega
        · have e2 : n - 2 = l.length - 1 := by omega
          rw [e2] at h
          simpa [val_append] using h
    · have hb' : (b == 0) = false := by simp [hb]
      simp only [hb', Bool.false_eq_true, if_false, Nat.sub_zero]
      rw [List.take_of_length_le (by simp; omega)]
      refine ⟨rfl, by simp; omega, hl, by simp [hb]⟩

/-! ## mpz_add_ui / mpz_sub_ui / mpz_ui_sub -/

theorem sgn_false_ite (c : Prop) [Decidable c] :
    sgn false (if c then 1 else 0) = (if c then 1 else 0 : Int) := by
  unfold sgn; by_cases h : c <;> simp [h]

theorem single_take (x : Nat) (hx : x < B) :
    val ([x].take (if x != 0 then 1 else 0)) = x ∧
    ([x].take (if x != 0 then 1 else 0)).length = (if x != 0 then 1 else 0) ∧
    Norm ([x].take (if x != 0 then 1 else 0)) := by
  have h := take_carry [] x 0 rfl Limbs_nil hx (Or.inl rfl)
  simpa using h

theorem pow_pred_ge {n v : Nat} (hn : 2 ≤ n) (hv : v < B) : B ^ (n - 2) + v ≤ B ^ (n - 1) := by
  have e : n - 1 = (n - 2) + 1 := by omega
  rw [e, pow_succ]
  have : 1 ≤ B ^ (n - 2) := Nat.one_le_pow _ _ B_pos
  have hB := B_pos
  nlinarith

/-- a one-limb-or-longer normalised `u` is `≥ v` unless it is the single limb `x < v` -/
theorem ge_limb {d : List Nat} (hd : Norm d) (hne : d ≠ []) {v : Nat} (hv : v < B)
    (h : ¬ (d.length = 1 ∧ d.headD 0 < v)) : v ≤ val d := by
  have hlow := hd.lower hne
  by_cases h1 : d.length = 1
  · match d, h1 with
    | [x], _ => simp at h ⊢; omega
  · have h2 : 2 ≤ d.length := by
      have : d.length ≠ 0 := fun h => hne (List.length_eq_zero_iff.mp h)
      omega
    have := pow_pred_ge h2 hv
    have : 1 ≤ B ^ (d.length - 2) := Nat.one_le_pow _ _ B_pos
    omega

theorem sub_1_strip (d : List Nat) (v : Nat) (hd : Norm d) (hne : d ≠ []) (hv : v < B)
    (hge : v ≤ val d) :
    val ((sub_1 d v).1.take (d.length - (if topLimb (sub_1 d v).1 == 0 then 1 else 0))) + v = val d ∧
    ((sub_1 d v).1.take (d.length - (if topLimb (sub_1 d v).1 == 0 then 1 else 0))).length
      = d.length - (if topLimb (sub_1 d v).1 == 0 then 1 else 0) ∧
    Norm ((sub_1 d v).1.take (d.length - (if topLimb (sub_1 d v).1 == 0 then 1 else 0))) := by
  obtain ⟨sv, sc, sl, sn⟩ := K.sub_1_val d v hd.1 hv hne
  have hrup := val_lt _ sl
  rw [sn] at hrup
  obtain ⟨_, sv'⟩ := borrow_zero sv sc hrup hge
  have hlow := hd.lower hne
  obtain ⟨tv, tl, tn⟩ := strip_top (sub_1 d v).1 d.length sn sl (by
    by_cases h2 : d.length ≤ 1
    · left; exact h2
    · right
      have := pow_pred_ge (by omega : 2 ≤ d.length) hv
      omega)
  exact ⟨by rw [tv]; exact sv', tl, tn⟩

theorem aors_ui_spec (isSub : Bool) (w u : Mpz) (vval : Nat) (hu : WF u) (hv : vval < B) :
    WF (aors_ui isSub w u vval) ∧
    toInt (aors_ui isSub w u vval) = toInt u + (if isSub then -(vval : Int) else (vval : Int)) := by
  obtain ⟨_, _, hul, hun⟩ := (WF_iff u).mp hu
  obtain ⟨ga1, ga2⟩ := grow_alloc w (u.size.natAbs + 1)
  rw [toInt_eq u]
  unfold aors_ui
  dsimp only
  by_cases h0 : (u.size.natAbs == 0) = true
  · rw [if_pos h0]
    have h0' : u.size = 0 := by simpa using h0
    have hd : u.d = [] := List.length_eq_zero_iff.mp (by rw [hul, h0']; rfl)
    obtain ⟨tv, tl, tn⟩ := single_take vval hv
    obtain ⟨wf, ti⟩ := mk_spec (grow w (u.size.natAbs + 1)).alloc _ isSub _ tl tn
      (by split_ifs <;> omega) (by omega)
    refine ⟨wf, ?_⟩
    rw [ti, tv, hd]; simp [sval]
  rw [if_neg h0]
  have hn0 : u.size.natAbs ≠ 0 := by simpa using h0
  have hne : u.d ≠ [] := by intro h; rw [h] at hul; simp at hul; omega
  by_cases hadd : (if isSub = true then decide (u.size < 0) else decide (u.size ≥ 0)) = true
  · rw [if_pos hadd]
    obtain ⟨av, ac, al, an⟩ := K.add_1_val u.d vval hun.1 hv hne
    have hlow := hun.lower hne
    rw [hul] at av an hlow
    obtain ⟨tv, tl, tn⟩ := take_carry' _ _ u.size.natAbs an al ac (Or.inr (by omega))
    obtain ⟨wf, ti⟩ := mk_spec (grow w (u.size.natAbs + 1)).alloc _ isSub _ tl tn
      (by omega) (by omega)
    refine ⟨wf, ?_⟩
    have key := tv.trans av
    rw [ti]
    clear ti tv av
    unfold sval
    cases isSub <;> simp at hadd ⊢
    · have : ¬ u.size < 0 := by omega
      simp [this]; omega
    · simp [hadd]; omega
  rw [if_neg hadd]
  by_cases hone : (u.size.natAbs == 1 && decide (u.d.headD 0 < vval)) = true
  · rw [if_pos hone]
    have ⟨h1, hlt⟩ : u.size.natAbs = 1 ∧ u.d.headD 0 < vval := by simpa using hone
    have hlen1 : u.d.length = 1 := by omega
    obtain ⟨x, hx⟩ := List.length_eq_one_iff.mp hlen1
    simp only [hx, List.headD_cons] at hlt ⊢
    have hnorm : Norm [vval - x] :=
      ⟨Limbs_cons.mpr ⟨by omega, Limbs_nil⟩, by simp; omega⟩
    obtain ⟨wf, ti⟩ := mk_spec (grow w (u.size.natAbs + 1)).alloc 1 isSub [vval - x] rfl hnorm
      (by omega) (by omega)
    refine ⟨wf, ?_⟩
    rw [ti]
    unfold sval
    simp only [val_cons, val_nil, Nat.mul_zero, Nat.add_zero]
    cases isSub
    · have hs : u.size < 0 := by simpa using hadd
      simp only [hs, reduceIte, Bool.false_eq_true]; omega
    · have hs : ¬ u.size < 0 := by simpa using hadd
      simp only [hs, reduceIte]; omega
  rw [if_neg hone]
  have hge : vval ≤ val u.d := ge_limb hun hne hv (by
    intro ⟨h1, h2⟩; apply hone
    simp only [Bool.and_eq_true, beq_iff_eq, decide_eq_true_eq]; exact ⟨by omega, h2⟩)
  obtain ⟨tv, tl, tn⟩ := sub_1_strip u.d vval hun hne hv hge
  rw [hul] at tv tl tn
  obtain ⟨wf, ti⟩ := mk_spec (grow w (u.size.natAbs + 1)).alloc _ (!isSub) _ tl tn
    (by split_ifs <;> omega) (by omega)
  refine ⟨wf, ?_⟩
  rw [ti]
  clear ti
  unfold sval
  cases isSub
  · have hs : u.size < 0 := by simpa using hadd
    simp only [hs, reduceIte, Bool.not_false, Bool.false_eq_true]; omega
  · have hs : ¬ u.size < 0 := by simpa using hadd
    simp only [hs, reduceIte, Bool.not_true, Bool.false_eq_true]; omega

theorem ui_sub_spec (w : Mpz) (uval : Nat) (v : Mpz) (hw : 1 ≤ w.alloc) (hv : WF v) (hu : uval < B) :
    WF (ui_sub w uval v) ∧ toInt (ui_sub w uval v) = (uval : Int) - toInt v := by
  obtain ⟨_, _, hvl, hvn⟩ := (WF_iff v).mp hv
  rw [toInt_eq v]
  unfold ui_sub
  dsimp only
  by_cases hgt : v.size > 1
  · rw [if_pos hgt]
    obtain ⟨ga1, ga2⟩ := grow_alloc w v.size.natAbs
    have hne : v.d ≠ [] := by intro h; rw [h] at hvl; simp at hvl; omega
    have hge : uval ≤ val v.d := ge_limb hvn hne hu (by intro ⟨h1, _⟩; omega)
    obtain ⟨tv, tl, tn⟩ := sub_1_strip v.d uval hvn hne hu hge
    rw [hvl] at tv tl tn
    obtain ⟨wf, ti⟩ := mk_spec (grow w v.size.natAbs).alloc _ true _ tl tn
      (by split_ifs <;> omega) (by omega)
    simp only [sgn, if_true] at wf ti
    refine ⟨wf, ?_⟩
    rw [ti]
    have : ¬ v.size < 0 := by omega
    unfold sval
    rw [if_neg this]; omega
  rw [if_neg hgt]
  by_cases h1 : (v.size == 1) = true
  · rw [if_pos h1]
    have h1' : v.size = 1 := by simpa using h1
    have hlen1 : v.d.length = 1 := by rw [hvl, h1']; rfl
    obtain ⟨x, hx⟩ := List.length_eq_one_iff.mp hlen1
    have hxB : x < B := by have := hvn.1; rw [hx] at this; exact (Limbs_cons.mp this).1
    have hh : v.d.headD 0 = x := by rw [hx]; rfl
    have hs : sval v.size v.d = (x : Int) := by rw [hx]; simp [sval, h1']
    rw [hs, hh]
    by_cases hge : uval ≥ x
    · rw [if_pos hge]
      obtain ⟨tv, tl, tn⟩ := single_take (uval - x) (by omega)
      obtain ⟨wf, ti⟩ := mk_spec w.alloc _ false _ tl tn (by split_ifs <;> omega) hw
      rw [sgn_false_ite] at wf ti
      refine ⟨wf, ?_⟩
      rw [ti, tv]; simp only [Bool.false_eq_true, if_false]; omega
    · rw [if_neg hge]
      have hnorm : Norm [x - uval] := ⟨Limbs_cons.mpr ⟨by omega, Limbs_nil⟩, by simp; omega⟩
      obtain ⟨wf, ti⟩ := mk_spec w.alloc 1 true [x - uval] rfl hnorm (by omega) hw
      simp only [sgn, if_true] at wf ti
      refine ⟨wf, ?_⟩
      rw [show (-1 : Int) = -((1 : Nat) : Int) from rfl, ti]
      simp only [val_cons, val_nil, Nat.mul_zero, Nat.add_zero]; omega
  rw [if_neg h1]
  have h1' : v.size ≠ 1 := by simpa using h1
  by_cases h0 : (v.size == 0) = true
  · rw [if_pos h0]
    have h0' : v.size = 0 := by simpa using h0
    have hd : v.d = [] := List.length_eq_zero_iff.mp (by rw [hvl, h0']; rfl)
    obtain ⟨tv, tl, tn⟩ := single_take uval hu
    obtain ⟨wf, ti⟩ := mk_spec w.alloc _ false _ tl tn (by split_ifs <;> omega) hw
    rw [sgn_false_ite] at wf ti
    refine ⟨wf, ?_⟩
    rw [ti, tv, hd]; simp [sval]
  rw [if_neg h0]
  have h0' : v.size ≠ 0 := by simpa using h0
  have hneg : v.size < 0 := by omega
  obtain ⟨ga1, ga2⟩ := grow_alloc w (v.size.natAbs + 1)
  have hne : v.d ≠ [] := by intro h; rw [h] at hvl; simp at hvl; omega
  obtain ⟨av, ac, al, an⟩ := K.add_1_val v.d uval hvn.1 hu hne
  have hlow := hvn.lower hne
  rw [hvl] at av an hlow
  obtain ⟨tv, tl, tn⟩ := take_carry (add_1 v.d uval).1 (add_1 v.d uval).2 v.size.natAbs an al
    (by have := B_eq; omega) (Or.inr (by omega))
  obtain ⟨wf, ti⟩ := mk_spec (grow w (v.size.natAbs + 1)).alloc _ false _ tl tn
    (by split_ifs <;> omega) (by omega)
  have e : ∀ k : Nat, sgn false k = (k : Int) := fun k => rfl
  rw [e] at wf ti
  refine ⟨wf, ?_⟩
  have key := tv.trans av
  rw [ti]
  clear ti tv av
  unfold sval
  rw [if_pos hneg]
  simp only [Bool.false_eq_true, if_false]; omega

/-! ## mpz_neg / mpz_abs / mpz_set -/

theorem WF_zero (w : Mpz) (hw : 1 ≤ w.alloc) :
    WF { w with size := 0, d := [] } ∧ toInt { w with size := 0, d := [] } = 0 :=
  ⟨(WF_iff _).mpr ⟨hw, by simp, by simp, Norm_nil⟩, by simp [toInt]⟩

theorem toInt_zero_of_size {u : Mpz} (hu : WF u) (h0 : u.size = 0) : toInt u = 0 := by
  obtain ⟨_, _, hul, _⟩ := (WF_iff u).mp hu
  have hd : u.d = [] := List.length_eq_zero_iff.mp (by rw [hul, h0]; rfl)
  simp [toInt, hd]

theorem neg_spec (same : Bool) (w u : Mpz) (hw : 1 ≤ w.alloc) (hu : WF u)
    (hs : same = true → w = u) :
    WF (neg same w u) ∧ toInt (neg same w u) = -toInt u := by
  obtain ⟨hu1, hu2, hul, hun⟩ := (WF_iff u).mp hu
  unfold neg
  dsimp only
  cases same
  · simp only [Bool.not_false, if_true]
    obtain ⟨ga1, ga2⟩ := grow_alloc w u.size.natAbs
    exact ⟨(WF_iff _).mpr ⟨by dsimp only; omega, by dsimp only; omega, by dsimp only; omega, hun⟩,
      by rw [toInt_eq, toInt_eq]; exact sval_neg _ _ hul⟩
  · simp only [Bool.not_true, Bool.false_eq_true, if_false]
    rw [hs rfl]
    exact ⟨(WF_iff _).mpr ⟨hu1, by dsimp only; omega, by dsimp only; omega, hun⟩,
      by rw [toInt_eq, toInt_eq]; exact sval_neg _ _ hul⟩

theorem sval_natAbs (s : Int) (d : List Nat) : sval (s.natAbs : Int) d = ((sval s d).natAbs : Int) := by
  unfold sval
  have h1 : ¬ ((s.natAbs : Int) < 0) := by omega
  rw [if_neg h1]
  by_cases h : s < 0
  · rw [if_pos h]; simp
  · rw [if_neg h]; simp

theorem abs_spec (same : Bool) (w u : Mpz) (hw : 1 ≤ w.alloc) (hu : WF u)
    (hs : same = true → w = u) :
    WF (abs same w u) ∧ toInt (abs same w u) = ((toInt u).natAbs : Int) := by
  obtain ⟨hu1, hu2, hul, hun⟩ := (WF_iff u).mp hu
  unfold abs
  dsimp only
  cases same
  · simp only [Bool.not_false, if_true]
    obtain ⟨ga1, ga2⟩ := grow_alloc w u.size.natAbs
    exact ⟨(WF_iff _).mpr ⟨by dsimp only; omega, by dsimp only; omega, by dsimp only; omega, hun⟩,
      by rw [toInt_eq, toInt_eq]; exact sval_natAbs _ _⟩
  · simp only [Bool.not_true, Bool.false_eq_true, if_false]
    rw [hs rfl]
    exact ⟨(WF_iff _).mpr ⟨hu1, by dsimp only; omega, by dsimp only; omega, hun⟩,
      by rw [toInt_eq, toInt_eq]; exact sval_natAbs _ _⟩

theorem set_spec (w u : Mpz) (hw : 1 ≤ w.alloc) (hu : WF u) :
    WF (set w u) ∧ toInt (set w u) = toInt u := by
  obtain ⟨hu1, hu2, hul, hun⟩ := (WF_iff u).mp hu
  obtain ⟨ga1, ga2⟩ := grow_alloc w u.size.natAbs
  unfold set
  exact ⟨(WF_iff _).mpr ⟨by dsimp only; omega, ga1, hul, hun⟩, rfl⟩

/-! ## mpz_mul_2exp -/

theorem B_pow (k : Nat) : B ^ k = 2 ^ (64 * k) := by unfold B; rw [← pow_mul]

theorem mul_2exp_hi_spec (d : List Nat) (c : Nat) (hd : Norm d) (hne : d ≠ []) (hc : c < 64) :
    val (mul_2exp_hi d c) = val d * 2 ^ c ∧ Norm (mul_2exp_hi d c) ∧ mul_2exp_hi d c ≠ [] ∧
    (mul_2exp_hi d c).length ≤ d.length + 1 := by
  unfold mul_2exp_hi
  by_cases h0 : c = 0
  · subst h0; simp [hd, hne]
  · have hb : (c != 0) = true := by simp [h0]
    rw [if_pos hb]
    dsimp only
    obtain ⟨lv, lc, ll, ln⟩ := K.lshift_val d c hd.1 (by omega) (by omega)
    have hcB : (lshift d c).2 < B := by
      have : 2 ^ c < 2 ^ 64 := Nat.pow_lt_pow_right (by norm_num) hc
      unfold B; omega
    have hr_ne : (lshift d c).1 ≠ [] := by
      intro h; rw [h] at ln; exact hne (List.length_eq_zero_iff.mp ln.symm)
    by_cases hz : (lshift d c).2 = 0
    · have hb2 : ((lshift d c).2 != 0) = false := by simp [hz]
      rw [hb2]
      simp only [Bool.false_eq_true, if_false]
      rw [hz] at lv
      have hlow := hd.lower hne
      have h2 : 1 ≤ 2 ^ c := Nat.one_le_two_pow
      refine ⟨by omega, Norm.of_lower ll (Or.inr ?_), hr_ne, by omega⟩
      rw [ln]
      have : val d * 1 ≤ val d * 2 ^ c := Nat.mul_le_mul_left _ h2
      omega
    · have hb2 : ((lshift d c).2 != 0) = true := by simp [hz]
      rw [hb2]
      simp only [if_true]
      refine ⟨by rw [val_append, ln]; simpa using lv,
        ⟨Limbs_append.mpr ⟨ll, Limbs_cons.mpr ⟨hcB, Limbs_nil⟩⟩, by simp [hz]⟩, by simp, by simp [ln]⟩

theorem mul_2exp_spec (w u : Mpz) (cnt : Nat) (hw : 1 ≤ w.alloc) (hu : WF u) :
    WF (mul_2exp w u cnt) ∧ toInt (mul_2exp w u cnt) = toInt u * 2 ^ cnt := by
  obtain ⟨_, _, hul, hun⟩ := (WF_iff u).mp hu
  unfold mul_2exp
  dsimp only
  by_cases h0 : (u.size == 0) = true
  · rw [if_pos h0]
    have h0' : u.size = 0 := by simpa using h0
    obtain ⟨wf, ti⟩ := WF_zero w hw
    exact ⟨wf, by rw [ti, toInt_zero_of_size hu h0']; simp⟩
  rw [if_neg h0]
  have hn0 : u.size ≠ 0 := by simpa using h0
  have hne : u.d ≠ [] := by intro h; rw [h] at hul; simp at hul; omega
  obtain ⟨ga1, ga2⟩ := grow_alloc w (u.size.natAbs + cnt / 64 + 1)
  obtain ⟨hv, hn, hhne, hlen⟩ := mul_2exp_hi_spec u.d (cnt % 64) hun hne (Nat.mod_lt _ (by norm_num))
  generalize mul_2exp_hi u.d (cnt % 64) = hi at *
  have hnorm : Norm (List.replicate (cnt / 64) 0 ++ hi) := by
    refine ⟨Limbs_append.mpr ⟨Limbs_replicate_zero _, hn.1⟩, ?_⟩
    rw [List.getLast?_append]
    have : hi.getLast? ≠ none := by simpa using hhne
    cases hg : hi.getLast? with
    | none => exact absurd hg this
    | some x => simpa [hg] using hn.2
  obtain ⟨wf, ti⟩ := mk_spec (grow w (u.size.natAbs + cnt / 64 + 1)).alloc _ (decide (u.size < 0)) _ rfl
    hnorm (by simp; omega) (by omega)
  refine ⟨wf, ?_⟩
  rw [ti, val_append, val_replicate_zero, List.length_replicate, hv, B_pow, toInt_eq u]
  have hsplit : (2 : Nat) ^ cnt = 2 ^ (64 * (cnt / 64)) * 2 ^ (cnt % 64) := by
    rw [← pow_add, Nat.div_add_mod]
  have key : 0 + 2 ^ (64 * (cnt / 64)) * (val u.d * 2 ^ (cnt % 64)) = val u.d * 2 ^ cnt := by
    rw [hsplit]; ring
  rw [key]
  unfold sval
  by_cases hs : u.size < 0
  · simp only [hs, decide_true, if_true]; push_cast; ring
  · simp only [hs, decide_false, Bool.false_eq_true, if_false]; push_cast; ring

/-! ## mpz_mul_ui / mpz_mul_si / mpz_mul -/

theorem size_ne_zero {u : Mpz} (hu : WF u) (h : u.size ≠ 0) : u.d ≠ [] := by
  obtain ⟨_, _, hul, _⟩ := (WF_iff u).mp hu
  intro hd; rw [hd] at hul; simp at hul; omega

/-- `mul_1` followed by `wp[n] = cy; n += (cy != 0)`: the magnitude `d·y`. -/
theorem mul_1_take (d : List Nat) (y : Nat) (hd : Norm d) (hne : d ≠ []) (hy : y < B) (hy0 : y ≠ 0) :
    val (((mul_1 d y).1 ++ [(mul_1 d y).2]).take (d.length + (if (mul_1 d y).2 != 0 then 1 else 0)))
      = val d * y ∧
    (((mul_1 d y).1 ++ [(mul_1 d y).2]).take (d.length + (if (mul_1 d y).2 != 0 then 1 else 0))).length
      = d.length + (if (mul_1 d y).2 != 0 then 1 else 0) ∧
    Norm (((mul_1 d y).1 ++ [(mul_1 d y).2]).take (d.length + (if (mul_1 d y).2 != 0 then 1 else 0))) := by
  obtain ⟨mv, mc, ml, mn⟩ := K.mul_1_val d y hd.1 hy
  have hlow := hd.lower hne
  have h1 : val d * 1 ≤ val d * y := Nat.mul_le_mul_left _ (Nat.pos_of_ne_zero hy0)
  obtain ⟨tv, tl, tn⟩ := take_carry (mul_1 d y).1 (mul_1 d y).2 d.length mn ml mc
    (Or.inr (by omega))
  exact ⟨tv.trans mv, tl, tn⟩

theorem mul_i_spec (w mult : Mpz) (sml : Nat) (sneg : Bool) (hw : 1 ≤ w.alloc) (hm : WF mult)
    (hs : sml < B) :
    WF (mul_i w mult sml sneg) ∧
    toInt (mul_i w mult sml sneg) = toInt mult * (if sneg then -(sml : Int) else (sml : Int)) := by
  obtain ⟨_, _, hml, hmn⟩ := (WF_iff mult).mp hm
  unfold mul_i
  dsimp only
  by_cases h0 : (mult.size == 0 || sml == 0) = true
  · rw [if_pos h0]
    obtain ⟨wf, ti⟩ := WF_zero w hw
    refine ⟨wf, ?_⟩
    rw [ti]
    rcases (by simpa using h0 : mult.size = 0 ∨ sml = 0) with h | h
    · rw [toInt_zero_of_size hm h]; simp
    · subst h; simp
  rw [if_neg h0]
  have ⟨hm0, hs0⟩ : mult.size ≠ 0 ∧ sml ≠ 0 := by simpa using h0
  have hne := size_ne_zero hm hm0
  obtain ⟨ga1, ga2⟩ := grow_alloc w (mult.size.natAbs + 1)
  obtain ⟨tv, tl, tn⟩ := mul_1_take mult.d sml hmn hne hs hs0
  rw [hml] at tv tl tn
  obtain ⟨wf, ti⟩ := mk_spec (grow w (mult.size.natAbs + 1)).alloc _
    (decide (mult.size < 0) != sneg) _ tl tn (by split_ifs <;> omega) (by omega)
  refine ⟨wf, ?_⟩
  rw [ti, tv, toInt_eq mult]
  unfold sval
  cases sneg <;> by_cases hs : mult.size < 0 <;> simp [hs]

theorem diffSign_mul (a b : Int) (da db : List Nat) :
    sval a da * sval b db =
      if diffSign a b then -((val da * val db : Nat) : Int) else ((val da * val db : Nat) : Int) := by
  unfold sval diffSign
  by_cases ha : a < 0 <;> by_cases hb : b < 0 <;> simp [ha, hb]

/-- a product buffer of `un+vn` limbs with `n -= (wp[n-1] == 0)` -/
theorem prod_strip (wp a b : List Nat) (ha : Norm a) (hb : Norm b) (hane : a ≠ []) (hbne : b ≠ [])
    (hv : val wp = val a * val b) (hl : Limbs wp) (hn : wp.length = a.length + b.length) :
    val (wp.take (a.length + b.length - (if topLimb wp == 0 then 1 else 0))) = val a * val b ∧
    (wp.take (a.length + b.length - (if topLimb wp == 0 then 1 else 0))).length
      = a.length + b.length - (if topLimb wp == 0 then 1 else 0) ∧
    Norm (wp.take (a.length + b.length - (if topLimb wp == 0 then 1 else 0))) := by
  have hla := ha.lower hane
  have hlb := hb.lower hbne
  have ha1 : a.length ≠ 0 := fun h => hane (List.length_eq_zero_iff.mp h)
  have hb1 : b.length ≠ 0 := fun h => hbne (List.length_eq_zero_iff.mp h)
  have hlow : B ^ (a.length + b.length - 2) ≤ val wp := by
    have e : a.length + b.length - 2 = (a.length - 1) + (b.length - 1) := by omega
    rw [e, pow_add, hv]
    exact Nat.mul_le_mul hla hlb
  obtain ⟨tv, tl, tn⟩ := strip_top wp (a.length + b.length) hn hl (Or.inr hlow)
  exact ⟨tv.trans hv, tl, tn⟩

theorem mul_spec (thr : Nat) (al : Alias) (w u v : Mpz) (hw : 1 ≤ w.alloc) (hu : WF u) (hv : WF v)
    (huv : al.uv = true → u = v) :
    WF (mul thr al w u v) ∧ toInt (mul thr al w u v) = toInt u * toInt v := by
  obtain ⟨_, _, hul, hun⟩ := (WF_iff u).mp hu
  obtain ⟨_, _, hvl, hvn⟩ := (WF_iff v).mp hv
  unfold mul
  dsimp only
  by_cases h0 : (u.size.natAbs == 0 || v.size.natAbs == 0) = true
  · rw [if_pos h0]
    obtain ⟨wf, ti⟩ := WF_zero w hw
    refine ⟨wf, ?_⟩
    rw [ti]
    rcases (by simpa using h0 : u.size = 0 ∨ v.size = 0) with h | h
    · rw [toInt_zero_of_size hu h]; simp
    · rw [toInt_zero_of_size hv h]; simp
  rw [if_neg h0]
  have ⟨hu0, hv0⟩ : u.size ≠ 0 ∧ v.size ≠ 0 := by simpa using h0
  have hune := size_ne_zero hu hu0
  have hvne := size_ne_zero hv hv0
  rw [toInt_eq u, toInt_eq v, diffSign_mul]
  by_cases h1 : (v.size.natAbs == 1) = true
  · -- mul.c:69-78
    rw [if_pos h1]
    have h1' : v.size.natAbs = 1 := by simpa using h1
    obtain ⟨y, hy⟩ := List.length_eq_one_iff.mp (hvl.trans h1')
    have hyB : y < B := by have := hvn.1; rw [hy] at this; exact (Limbs_cons.mp this).1
    have hy0 : y ≠ 0 := by have := hvn.2; rw [hy] at this; simpa using this
    have hh : v.d.headD 0 = y := by rw [hy]; rfl
    have hvv : val v.d = y := by rw [hy]; simp
    rw [hh, hvv]
    obtain ⟨ga1, ga2⟩ := grow_alloc w (u.size.natAbs + 1)
    obtain ⟨tv, tl, tn⟩ := mul_1_take u.d y hun hune hyB hy0
    rw [hul] at tv tl tn
    obtain ⟨wf, ti⟩ := mk_spec (grow w (u.size.natAbs + 1)).alloc _ (diffSign u.size v.size) _ tl tn
      (by split_ifs <;> omega) (by omega)
    exact ⟨wf, by rw [ti, tv]⟩
  rw [if_neg h1]
  -- the four ways the product buffer is produced all give the same value
  have key : ∀ wp : List Nat, val wp = val u.d * val v.d → Limbs wp →
      wp.length = u.size.natAbs + v.size.natAbs → ∀ a : Nat, 1 ≤ a → u.size.natAbs + v.size.natAbs ≤ a →
      WF (Mpz.mk a (sgn (diffSign u.size v.size)
             (u.size.natAbs + v.size.natAbs - (if topLimb wp == 0 then 1 else 0)))
           (wp.take (u.size.natAbs + v.size.natAbs - (if topLimb wp == 0 then 1 else 0)))) ∧
      toInt (Mpz.mk a (sgn (diffSign u.size v.size)
             (u.size.natAbs + v.size.natAbs - (if topLimb wp == 0 then 1 else 0)))
           (wp.take (u.size.natAbs + v.size.natAbs - (if topLimb wp == 0 then 1 else 0)))) =
        if diffSign u.size v.size then -((val u.d * val v.d : Nat) : Int)
        else ((val u.d * val v.d : Nat) : Int) := by
    intro wp hwv hwl hwn a ha1 ha
    obtain ⟨tv, tl, tn⟩ := prod_strip wp u.d v.d hun hvn hune hvne hwv hwl (by rw [hwn, hul, hvl])
    rw [hul, hvl] at tv tl tn
    obtain ⟨wf, ti⟩ := mk_spec a _ (diffSign u.size v.size) _ tl tn (by split_ifs <;> omega) ha1
    exact ⟨wf, by rw [ti, tv]⟩
  obtain ⟨p1, p2, p3⟩ := K.mul_basecase_val u.d v.d hun.1 hvn.1 hvne
  obtain ⟨q1, q2, q3⟩ := K.mul_basecase_val v.d u.d hvn.1 hun.1 hune
  obtain ⟨s1, s2, s3⟩ := K.mul_basecase_val u.d u.d hun.1 hun.1 hune
  obtain ⟨t1, t2, t3⟩ := K.mul_basecase_val v.d v.d hvn.1 hvn.1 hvne
  rw [hul, hvl] at p3 q3
  rw [hul] at s3
  rw [hvl] at t3
  by_cases hb : (decide (u.size.natAbs + v.size.natAbs ≤ thr) && !al.wu && !al.wv) = true
  · -- mul.c:83-103
    rw [if_pos hb]
    obtain ⟨ga1, ga2⟩ := grow_alloc w (u.size.natAbs + v.size.natAbs)
    by_cases he : (u.size.natAbs == v.size.natAbs) = true
    · rw [if_pos he]
      by_cases hsq : al.uv = true
      · rw [if_pos hsq]
        have huv' := huv hsq
        subst huv'
        exact key _ s1 s2 s3 _ (by omega) ga1
      · rw [if_neg hsq]
        exact key _ p1 p2 p3 _ (by omega) ga1
    · rw [if_neg he]
      by_cases hgt : u.size.natAbs > v.size.natAbs
      · rw [if_pos hgt]; exact key _ p1 p2 p3 _ (by omega) ga1
      · rw [if_neg hgt]
        exact key _ (by rw [q1]; ring) q2 (by rw [q3]; ring) _ (by omega) ga1
  · -- mul.c:105-166
    rw [if_neg hb]
    have hal : 1 ≤ (if w.alloc < u.size.natAbs + v.size.natAbs then u.size.natAbs + v.size.natAbs
        else w.alloc) ∧ u.size.natAbs + v.size.natAbs ≤
        (if w.alloc < u.size.natAbs + v.size.natAbs then u.size.natAbs + v.size.natAbs
        else w.alloc) := by split_ifs <;> omega
    by_cases hsw : u.size.natAbs < v.size.natAbs
    · simp only [if_pos hsw]
      have hne' : u.size.natAbs ≠ v.size.natAbs := by omega
      have hcond : (al.uv && v.size.natAbs == u.size.natAbs) = false := by
        have : (v.size.natAbs == u.size.natAbs) = false := by simp; omega
        rw [this]; simp
      rw [hcond]
      simp only [Bool.false_eq_true, if_false]
      exact key _ (by rw [q1]; ring) q2 (by rw [q3]; ring) _ hal.1 hal.2
    · simp only [if_neg hsw]
      by_cases hsq : (al.uv && u.size.natAbs == v.size.natAbs) = true
      · rw [if_pos hsq]
        have huv' := huv (by simp at hsq; exact hsq.1)
        subst huv'
        exact key _ s1 s2 s3 _ hal.1 hal.2
      · rw [if_neg hsq]
        exact key _ p1 p2 p3 _ hal.1 hal.2

end Mpir.Mpz
