/- mpz_{t,f,c}div_r_ui and mpz_{t,f,c}div_qr_ui on the pointer-level model. -/
import MpirProofs.Lemmas.AliasR2exp
namespace Mpir.AliasMem
open Mpir
open Mpir.DivZ (sizeNat siz sameSign)

theorem div_r_ui_ok (dir : Int) (hdir : dir = 0 ∨ dir = -1 ∨ dir = 1) {s : St} (h : Inv s) {r n : Nat} (hr : r < s.nv)
    (hn : n < s.nv) (d : Nat) (hd0 : d ≠ 0) (hdB : d < B) (ha : 1 ≤ s.alloc r) :
    ∃ s', div_r_ui dir r n d s = .ok (DivZ.uiRet (DivZ.specR dir (s.value n) d), s') ∧
      Res s s' r (DivZ.specR dir (s.value n) d) := by
  obtain ⟨_, hR⟩ := DivZ.spec_ui dir hdir (s.value n) d hd0
  rw [hR]
  have hmabs : (s.value n).natAbs = s.mag n := value_natAbs s n
  have hsiz : siz (s.value n) = s.size n := (h.norm n hn).symm
  rw [hmabs, hsiz]
  unfold div_r_ui
  simp only [bind, Except.bind, pure, Except.pure]
  rw [if_neg hd0]
  by_cases hz : s.size n = 0
  · rw [if_pos hz]
    have hm0 : s.mag n = 0 := h.mag_zero hn hz
    obtain ⟨i2, u2, v2⟩ := setSize_zero_spec h hr
    refine ⟨_, ?_, i2, u2.nv, ?_, fun i hi hir => u2.value_o h hr hi hir⟩
    · rw [hm0]; simp [DivZ.uiRet]
    · rw [v2, hm0]; simp
  · rw [if_neg hz, h.load_var hn]; simp only []
    simp only [show val (s.limbs n) = s.mag n from rfl]
    set rl := s.mag n % d with hrl
    by_cases hr0 : rl = 0
    · rw [if_pos hr0, if_pos hr0]
      obtain ⟨i2, u2, v2⟩ := setSize_zero_spec h hr
      exact ⟨_, by simp [DivZ.uiRet], i2, u2.nv, v2, fun i hi hir => u2.value_o h hr hi hir⟩
    · rw [if_neg hr0, if_neg hr0]
      have hrlt : rl < d := Nat.mod_lt _ (Nat.pos_of_ne_zero hd0)
      have hadj : (decide (dir = -1 ∧ s.size n < 0 ∨ dir = 1 ∧ s.size n ≥ 0)) = decide (DivZ.uiAdjust dir rl (s.size n)) := by
        unfold DivZ.uiAdjust; simp [hr0]
      rw [hadj]
      set rl' := (if decide (DivZ.uiAdjust dir rl (s.size n)) = true then d - rl else rl) with hrl'
      have hrl'eq : (if DivZ.uiAdjust dir rl (s.size n) then d - rl else rl) = rl' := by
        rw [hrl']; by_cases hc : DivZ.uiAdjust dir rl (s.size n) <;> simp [hc]
      rw [hrl'eq]
      have hpos : 1 ≤ rl' := by rw [hrl']; split <;> omega
      have hltB : rl' < B := by rw [hrl']; split <;> omega
      have hsz1 : sizeNat rl' = 1 := sizeNat_eq (by simp; omega) (by simpa using hltB) (Nat.le_refl 1)
      obtain ⟨b, hb, hbl, hbL⟩ := h.live r hr
      rw [storeAt_ok hb (by simp; omega)]; simp only []
      have ht : [rl'] = toLimbs 1 rl' := by simp [toLimbs, Nat.mod_eq_of_lt hltB]
      rw [ht]
      -- the sign stored
      set neg : Bool := decide (dir = 0 ∧ s.size n < 0 ∨ dir = 1) with hneg
      have hsz : (if dir = 0 then (if s.size n ≥ 0 then (1 : Int) else -1) else if dir = -1 then 1 else -1) =
          (if neg = true then -((sizeNat rl' : Nat) : Int) else ((sizeNat rl' : Nat) : Int)) := by
        rw [hsz1]
        rcases hdir with e | e | e <;> subst e <;> by_cases h0 : s.size n < 0 <;> simp [hneg, h0] <;> omega
      have hval : DivZ.uiRem dir (s.size n) rl' = (if neg = true then -(rl' : Int) else (rl' : Int)) := by
        unfold DivZ.uiRem
        rcases hdir with e | e | e <;> subst e <;> by_cases h0 : s.size n < 0 <;> simp [hneg, h0] <;> omega
      rw [hsz, hval]
      have p := put_wrAt0 h hr b hbl hbL 1 rl' (by rw [hsz1]) (by omega) neg
      refine ⟨_, ?_, p.1, p.2.1.nv, p.2.2, fun i hi hir => p.2.1.value_o h hr hi hir⟩
      congr 2
      cases neg <;> simp [DivZ.uiRet]


theorem put_put_eq' (s : St) {q r : Nat} (hqr : q ≠ r) (b1 b2 : List Nat) (z1 z2 : Int) :
    (((s.setBlk (s.ptr q) (some b1)).setBlk (s.ptr r) (some b2)).setSize r z2).setSize q z1 =
      (s.put q b1 z1).put r b2 z2 := by
  rw [← put_put_eq s hqr]
  cases s with
  | mk nv vars blk next =>
    simp only [St.setSize, St.setVar, St.setBlk, St.mk.injEq, true_and, and_true]
    funext j
    by_cases e1 : j = q <;> by_cases e2 : j = r <;> simp [e1, e2, hqr, Ne.symm hqr]

theorem div_qr_ui_ok (dir : Int) (hdir : dir = 0 ∨ dir = -1 ∨ dir = 1) {s : St} (h : Inv s) {q r n : Nat} (hq : q < s.nv)
    (hr : r < s.nv) (hn : n < s.nv) (hqr : q ≠ r) (d : Nat) (hd0 : d ≠ 0) (hdB : d < B) (ha : 1 ≤ s.alloc r) :
    ∃ s', div_qr_ui dir q r n d s = .ok (DivZ.uiRet (DivZ.specR dir (s.value n) d), s') ∧ Inv s' ∧ s'.nv = s.nv ∧
      s'.value q = DivZ.specQ dir (s.value n) d ∧ s'.value r = DivZ.specR dir (s.value n) d ∧
      ∀ i, i < s.nv → i ≠ q → i ≠ r → s'.value i = s.value i := by
  obtain ⟨hQ, hR⟩ := DivZ.spec_ui dir hdir (s.value n) d hd0
  rw [hQ, hR]
  have hmabs : (s.value n).natAbs = s.mag n := value_natAbs s n
  have hsiz : siz (s.value n) = s.size n := (h.norm n hn).symm
  have hnonneg : (0 ≤ s.value n) ↔ (s.size n ≥ 0) := by have := h.size_neg_iff hn; omega
  rw [hmabs, hsiz]
  unfold div_qr_ui
  simp only [bind, Except.bind, pure, Except.pure]
  rw [if_neg hd0]
  by_cases hz : s.size n = 0
  · rw [if_pos hz]
    have hm0 : s.mag n = 0 := h.mag_zero hn hz
    obtain ⟨i1, u1, v1⟩ := setSize_zero_spec h hq
    have hr1 : r < (s.setSize q 0).nv := by rw [u1.nv]; exact hr
    obtain ⟨i2, u2, v2⟩ := setSize_zero_spec i1 hr1
    have hadj : ¬ DivZ.uiAdjust dir (s.mag n % d) (s.size n) := by unfold DivZ.uiAdjust; rw [hm0]; simp
    refine ⟨_, ?_, i2, u2.nv.trans u1.nv, ?_, ?_, fun i hi hiq hir => ?_⟩
    · rw [hm0]; simp [DivZ.uiRet]
    · rw [u2.value_o i1 hr1 (by rw [u1.nv]; exact hq) hqr, v1, if_neg hadj, hm0]; simp
    · rw [v2, hm0]; simp
    · rw [u2.value_o i1 hr1 (by rw [u1.nv]; exact hi) hir, u1.value_o h hq hi hiq]
  · rw [if_neg hz]
    set nn := (s.size n).natAbs with hnn
    have hnn1 : 1 ≤ nn := by omega
    obtain ⟨i1, nv1, size1, val1, a1, ag1⟩ := realloc_spec h hq nn
    set s1 := s.mpzRealloc q nn with hs1
    have hq1 : q < s1.nv := by rw [nv1]; exact hq
    have hr1 : r < s1.nv := by rw [nv1]; exact hr
    have hn1 : n < s1.nv := by rw [nv1]; exact hn
    obtain ⟨b, hb, hbl, hbL⟩ := i1.live q hq1
    obtain ⟨br, hbr, hbrl, hbrL⟩ := i1.live r hr1
    have hpqr : s1.ptr q ≠ s1.ptr r := fun e => hqr (i1.inj q r hq1 hr1 e)
    have hld := i1.load_var hn1; rw [size1, ← hnn] at hld
    have hmag : s1.mag n = s.mag n := by rw [← value_natAbs, ← value_natAbs, val1 n hn]
    have hN2 := i1.mag_lt hn1; rw [size1, ← hnn, hmag] at hN2
    have hN1 := i1.mag_ge hn1 (by rw [size1]; exact hz); rw [size1, ← hnn, hmag] at hN1
    have hvalN : val (s1.limbs n) = s.mag n := hmag
    have hdpos : 0 < d := Nat.pos_of_ne_zero hd0
    set N := s.mag n with hNdef
    set Q := N / d with hQdef
    set rl := N % d with hrdef
    have hrlt : rl < d := Nat.mod_lt _ hdpos
    have hQlt : Q < B ^ nn := Nat.lt_of_le_of_lt (Nat.div_le_self _ _) hN2
    have hQge : 2 ≤ nn → B ^ (nn - 2) ≤ Q := fun h2 => by
      rw [hQdef, Nat.le_div_iff_mul_le hdpos]
      calc B ^ (nn - 2) * d ≤ B ^ (nn - 2) * B := Nat.mul_le_mul_left _ (Nat.le_of_lt hdB)
        _ = B ^ (nn - 1) := by rw [← pow_succ]; congr 1; omega
        _ ≤ N := hN1
    have hdiv : mpn_divrem_1 (s1.ptr q) (s1.ptr n) nn d s1 =
        .ok (rl, s1.setBlk (s1.ptr q) (some (wrAt b 0 (toLimbs nn Q)))) := by
      unfold mpn_divrem_1
      have hc : ¬ ¬ (1 ≤ d ∧ d < B) := fun hx => hx ⟨hdpos, hdB⟩
      simp only [hc, if_false, bind, Except.bind, hld, pure, Except.pure, hvalN]
      unfold St.store; rw [hb]; simp only [toLimbs_length]
      rw [if_pos (by omega), wrAt_zero, toLimbs_length]
    rw [hdiv]; simp only []
    have hszform : ∀ k : Nat, (if s.size n ≥ 0 then (k : Int) else -(k : Int)) =
        (if decide (s.size n < 0) = true then -(k : Int) else (k : Int)) := fun k => by
      by_cases h0 : s.size n < 0
      · rw [if_neg (by omega), if_pos (by simpa using h0)]
      · rw [if_pos (by omega), if_neg (by simpa using h0)]
    have hsignform : ∀ M : Nat, (if decide (s.size n < 0) = true then -(M : Int) else (M : Int)) =
        (if 0 ≤ s.value n then (M : Int) else -(M : Int)) := fun M => by
      by_cases h0 : s.size n < 0
      · rw [if_pos (by simpa using h0), if_neg (by omega)]
      · rw [if_neg (by simpa using h0), if_pos (by omega)]
    -- the quotient variable, once its block holds nn limbs of M
    have hquot : ∀ (B1 : List Nat) (M : Nat), B1.length = s1.alloc q → Limbs B1 → M < B ^ nn → (2 ≤ nn → B ^ (nn - 2) ≤ M) →
        (wrAt B1 0 (toLimbs nn M)).getD (nn - 1) 0 = M / B ^ (nn - 1) % B ∧
        nn - (if M / B ^ (nn - 1) % B = 0 then 1 else 0) = sizeNat M ∧
        Inv (s1.put q (wrAt B1 0 (toLimbs nn M)) (if decide (s.size n < 0) = true then -((sizeNat M : Nat) : Int) else ((sizeNat M : Nat) : Int))) ∧
        Upd s1 (s1.put q (wrAt B1 0 (toLimbs nn M)) (if decide (s.size n < 0) = true then -((sizeNat M : Nat) : Int) else ((sizeNat M : Nat) : Int))) q ∧
        (s1.put q (wrAt B1 0 (toLimbs nn M)) (if decide (s.size n < 0) = true then -((sizeNat M : Nat) : Int) else ((sizeNat M : Nat) : Int))).value q =
          (if decide (s.size n < 0) = true then -(M : Int) else (M : Int)) := by
      intro B1 M h1 h2 h3 h4
      have p := put_wrAt0 i1 hq1 B1 h1 h2 nn M ((DivZ.sizeNat_le_iff _ _).mpr h3) (by omega) (decide (s.size n < 0))
      refine ⟨?_, top_size h3 h4 hnn1, p.1, p.2.1, p.2.2⟩
      rw [wrAt_zero, getD_append_left (by rw [toLimbs_length]; omega), toLimbs_getD _ _ _ (by omega)]
    by_cases hr0 : rl = 0
    · -- exact division: SIZ (rem) = 0
      rw [if_pos hr0]; unfold qrUiEnd; simp only [bind, Except.bind, pure, Except.pure]
      have hadj : ¬ DivZ.uiAdjust dir rl (s.size n) := by unfold DivZ.uiAdjust; simp [hr0]
      obtain ⟨ht, hts, iq, uq, vq⟩ := hquot b Q hbl hbL hQlt hQge
      have hX : ((s1.setBlk (s1.ptr q) (some (wrAt b 0 (toLimbs nn Q)))).setSize r 0).blk (s1.ptr q) = some (wrAt b 0 (toLimbs nn Q)) := by
        simp [St.setSize, St.setVar, St.setBlk]
      rw [limbAt_of_blk hX (by rw [wrAt_length (by rw [toLimbs_length]; omega)]; omega)]; simp only []
      rw [ht, hts, hszform]
      have hcomm : ((s1.setBlk (s1.ptr q) (some (wrAt b 0 (toLimbs nn Q)))).setSize r 0).setSize q
            (if decide (s.size n < 0) = true then -((sizeNat Q : Nat) : Int) else ((sizeNat Q : Nat) : Int)) =
          (s1.put q (wrAt b 0 (toLimbs nn Q)) (if decide (s.size n < 0) = true then -((sizeNat Q : Nat) : Int) else ((sizeNat Q : Nat) : Int))).setSize r 0 := by
        cases s1 with
        | mk nv vars blk next =>
          simp only [St.put, St.setSize, St.setVar, St.setBlk, St.mk.injEq, true_and, and_true]
          funext j
          by_cases e1 : j = q <;> by_cases e2 : j = r <;> simp [e1, e2, hqr, Ne.symm hqr]
      rw [hcomm]
      have hr2 : r < (s1.put q (wrAt b 0 (toLimbs nn Q)) (if decide (s.size n < 0) = true then -((sizeNat Q : Nat) : Int) else ((sizeNat Q : Nat) : Int))).nv := by
        rw [uq.nv]; exact hr1
      obtain ⟨i3, u3, v3⟩ := setSize_zero_spec iq hr2
      refine ⟨_, ?_, i3, u3.nv.trans (uq.nv.trans nv1), ?_, ?_, fun i hi hiq hir => ?_⟩
      · congr 2; rw [if_pos hr0]; rfl
      · rw [u3.value_o iq hr2 (by rw [uq.nv]; exact hq1) hqr, vq, if_neg hadj, ← hsignform]
      · rw [v3, if_pos hr0]
      · rw [u3.value_o iq hr2 (by rw [uq.nv, nv1]; exact hi) hir, uq.value_o i1 hq1 (by rw [nv1]; exact hi) hiq, val1 i hi]
    · rw [if_neg hr0]
      have hadjd : (decide (dir = -1 ∧ s.size n < 0 ∨ dir = 1 ∧ s.size n ≥ 0)) = decide (DivZ.uiAdjust dir rl (s.size n)) := by
        unfold DivZ.uiAdjust; simp [hr0]
      rw [hadjd]
      -- the common continuation: quotient block holds nn limbs of M, remainder rl'
      have hcont : ∀ (B1 : List Nat) (M rl' : Nat), B1.length = s1.alloc q → Limbs B1 → M < B ^ nn → (2 ≤ nn → B ^ (nn - 2) ≤ M) →
          1 ≤ rl' → rl' < B →
          (if decide (s.size n < 0) = true then -(M : Int) else (M : Int)) =
            (if DivZ.uiAdjust dir rl (s.size n) then if 0 ≤ s.value n then ((Q + 1 : Nat) : Int) else -((Q + 1 : Nat) : Int)
              else if 0 ≤ s.value n then (Q : Int) else -(Q : Int)) →
          (if DivZ.uiAdjust dir rl (s.size n) then d - rl else rl) = rl' →
          ∃ s', qrUiRem dir q r (s1.ptr q) nn (s.size n) rl' (s1.setBlk (s1.ptr q) (some (wrAt B1 0 (toLimbs nn M)))) =
              Except.ok (DivZ.uiRet (if rl = 0 then 0 else DivZ.uiRem dir (s.size n) (if DivZ.uiAdjust dir rl (s.size n) then d - rl else rl)), s') ∧
            Inv s' ∧ s'.nv = s.nv ∧
            s'.value q = (if DivZ.uiAdjust dir rl (s.size n) then if 0 ≤ s.value n then ((Q + 1 : Nat) : Int) else -((Q + 1 : Nat) : Int)
              else if 0 ≤ s.value n then (Q : Int) else -(Q : Int)) ∧
            s'.value r = (if rl = 0 then 0 else DivZ.uiRem dir (s.size n) (if DivZ.uiAdjust dir rl (s.size n) then d - rl else rl)) ∧
            ∀ i, i < s.nv → i ≠ q → i ≠ r → s'.value i = s.value i := by
        intro B1 M rl' h1 h2 h3 h4 hpos hltB hMv hrl'
        rw [if_neg hr0, hrl']
        unfold qrUiRem; simp only [bind, Except.bind, pure, Except.pure]
        obtain ⟨ht, hts, iq, uq, vq⟩ := hquot B1 M h1 h2 h3 h4
        set X1 := s1.setBlk (s1.ptr q) (some (wrAt B1 0 (toLimbs nn M))) with hX1
        have hX1r : X1.blk (s1.ptr r) = some br := by
          simp [hX1, St.setBlk, Ne.symm hpqr, hbr]
        have hbr1 : 1 ≤ br.length := by rw [hbrl]; exact Nat.le_trans ha (ag1 r)
        rw [show X1.ptr r = s1.ptr r from rfl, storeAt_ok hX1r (by simpa using hbr1)]; simp only []
        unfold qrUiEnd; simp only [bind, Except.bind, pure, Except.pure]
        have hsz1 : sizeNat rl' = 1 := sizeNat_eq (by simp; omega) (by simpa using hltB) (Nat.le_refl 1)
        have htl : [rl'] = toLimbs 1 rl' := by simp [toLimbs, Nat.mod_eq_of_lt hltB]
        rw [htl]
        set neg : Bool := decide (dir = 0 ∧ s.size n < 0 ∨ dir = 1) with hneg
        have hszr : (if dir = 0 then (if s.size n ≥ 0 then (1 : Int) else -1) else if dir = -1 then 1 else -1) =
            (if neg = true then -((sizeNat rl' : Nat) : Int) else ((sizeNat rl' : Nat) : Int)) := by
          rw [hsz1]
          rcases hdir with e | e | e <;> subst e <;> by_cases h0 : s.size n < 0 <;> simp [hneg, h0] <;> omega
        have hvalr : DivZ.uiRem dir (s.size n) rl' = (if neg = true then -(rl' : Int) else (rl' : Int)) := by
          unfold DivZ.uiRem
          rcases hdir with e | e | e <;> subst e <;> by_cases h0 : s.size n < 0 <;> simp [hneg, h0] <;> omega
        rw [hszr, hvalr]
        have hX3 : ((X1.setBlk (s1.ptr r) (some (wrAt br 0 (toLimbs 1 rl')))).setSize r
            (if neg = true then -((sizeNat rl' : Nat) : Int) else ((sizeNat rl' : Nat) : Int))).blk (s1.ptr q) =
            some (wrAt B1 0 (toLimbs nn M)) := by
          simp [hX1, St.setSize, St.setVar, St.setBlk, hpqr]
        rw [limbAt_of_blk hX3 (by rw [wrAt_length (by rw [toLimbs_length]; omega)]; omega)]; simp only []
        rw [ht, hts, hszform, hX1, put_put_eq' s1 hqr]
        set s4 := s1.put q (wrAt B1 0 (toLimbs nn M)) (if decide (s.size n < 0) = true then -((sizeNat M : Nat) : Int) else ((sizeNat M : Nat) : Int)) with hs4
        have hr4 : r < s4.nv := by rw [uq.nv]; exact hr1
        have p := put_wrAt0 iq hr4 br (by rw [uq.alloc]; exact hbrl) hbrL 1 rl' (by rw [hsz1]) (by rw [hbrl]; exact Nat.le_trans ha (ag1 r)) neg
        refine ⟨_, ?_, p.1, p.2.1.nv.trans (uq.nv.trans nv1), ?_, p.2.2, fun i hi hiq hir => ?_⟩
        · congr 2
          cases neg <;> simp [DivZ.uiRet]
        · rw [p.2.1.value_o iq hr4 (by rw [uq.nv]; exact hq1) hqr, vq, hMv]
        · rw [p.2.1.value_o iq hr4 (by rw [uq.nv, nv1]; exact hi) hir, uq.value_o i1 hq1 (by rw [nv1]; exact hi) hiq, val1 i hi]
      by_cases hadj : DivZ.uiAdjust dir rl (s.size n)
      · simp only [hadj, decide_true, if_true]
        have hload : (s1.setBlk (s1.ptr q) (some (wrAt b 0 (toLimbs nn Q)))).load (s1.ptr q) nn = .ok (toLimbs nn Q) := by
          unfold St.load; rw [setBlk_blk_self]; simp only []
          rw [if_pos (by rw [wrAt_length (by rw [toLimbs_length]; omega)]; omega), wrAt_zero,
            List.take_append_of_le_length (by rw [toLimbs_length]), List.take_of_length_le (by rw [toLimbs_length])]
        rw [hload]; simp only []
        rw [val_toLimbs_lt hQlt]
        have hfits : ¬ (Q + 1 ≥ B ^ nn) := by
          have := DivZ.ui_incr_fits (a := N) (u := d) hd0 hr0
          rw [← h.size_natAbs hn, ← hnn] at this; exact this
        rw [if_neg hfits]
        have hst : (s1.setBlk (s1.ptr q) (some (wrAt b 0 (toLimbs nn Q)))).store (s1.ptr q) (toLimbs nn (Q + 1)) =
            .ok (s1.setBlk (s1.ptr q) (some (wrAt (wrAt b 0 (toLimbs nn Q)) 0 (toLimbs nn (Q + 1))))) := by
          unfold St.store; rw [setBlk_blk_self]; simp only [toLimbs_length]
          rw [if_pos (by rw [wrAt_length (by rw [toLimbs_length]; omega)]; omega), setBlk_setBlk]
          congr 3
          simp [wrAt, toLimbs_length]
        rw [hst]; simp only []
        have := hcont (wrAt b 0 (toLimbs nn Q)) (Q + 1) (d - rl)
          (by rw [wrAt_length (by rw [toLimbs_length]; omega)]; exact hbl) (Limbs_wrAt hbL (Limbs_toLimbs _ _)) (by omega)
          (fun h2 => Nat.le_trans (hQge h2) (Nat.le_succ _)) (by omega) (by omega)
          (by rw [if_pos hadj, ← hsignform]) (by rw [if_pos hadj])
        simpa [hadj] using this
      · simp only [hadj, decide_false, Bool.false_eq_true, if_false]
        have := hcont b Q rl hbl hbL hQlt hQge (by omega) (by omega)
          (by rw [if_neg hadj, ← hsignform]) (by rw [if_neg hadj])
        simpa [hadj] using this

end Mpir.AliasMem
