/- Refinement proof for the size-aware model of mpz/sqrt.c (Mpir/Model/AllocSafeMpz4.lean `sqrt_`): `(op_size + 1) / 2` limbs
   is exactly what mpn_sqrtrem stores and exactly the size of the root; the `free_me` arm is dead code (a variable that is
   both root and op already has a block of op_size ≥ root_size limbs). -/
import MpirProofs.Lemmas.AllocSafeMpf
import Mathlib.Data.Nat.Sqrt
namespace Mpir.AllocSafe
open Mpir
open Mpir.Mpz (sgn natAbs_sgn Norm WF toInt mk_spec WF_iff)

/-- value-level result of mpz_sqrt with the allocation the C leaves (op > 0 or op = 0) -/
def Spec.sqrt (w u : Mpz.Mpz) : Mpz.Mpz :=
  if u.size ≤ 0 then { w with size := 0, d := [] }
  else
    let rs := (u.size.natAbs + 1) / 2
    ⟨if w.alloc < rs then rs else w.alloc, (rs : Int), toLimbs rs (Nat.sqrt (val u.d))⟩

theorem sqrtTail_refines (s1 : St) (root : Nat) (op : Src) (U : List Nat) (hok : s1.ok = true)
    (hb : BWF (s1.h root).buf) (DU : Den s1 op U) (hroom : (U.length + 1) / 2 ≤ (s1.h root).buf.alloc) :
    Refines s1 (sqrtTail s1 root op U.length ((U.length + 1) / 2)) root
      ⟨(s1.h root).buf.alloc, (((U.length + 1) / 2 : Nat) : Int), toLimbs ((U.length + 1) / 2) (Nat.sqrt (val U))⟩ := by
  obtain ⟨eu, oku⟩ := DU.rd U.length (Nat.le_refl _)
  rw [List.take_length] at eu
  unfold sqrtTail
  simp only [mpn_sqrt_S, eu, oku]
  have W := Wrote.fresh s1 root (toLimbs ((U.length + 1) / 2) (Nat.sqrt (val U))) true hok rfl hb (toLimbs_limbs _ _)
    (by rw [toLimbs_len]; exact hroom)
  have F := W.fin_take false ((U.length + 1) / 2) (by rw [toLimbs_len])
  rw [List.take_of_length_le (by rw [toLimbs_len])] at F
  simpa [sgn] using F

theorem sqrt_refines (retain : Bool) (s : St) (root op : Nat) (hs : s.ok = true)
    (hr : OWF (s.h root)) (ho : OWF (s.h op)) (hpos : 0 ≤ (s.h op).size) :
    ∃ s', sqrt_ retain s root op = some s' ∧ Refines s s' root (Spec.sqrt (view (s.h root)) (view (s.h op))) := by
  unfold sqrt_ Spec.sqrt
  rw [show s.SIZ op = (s.h op).size from rfl, show s.ALLOC root = (s.h root).buf.alloc from rfl]
  have e1 : (view (s.h op)).size = (s.h op).size := rfl
  have e2 : (view (s.h root)).alloc = (s.h root).buf.alloc := rfl
  rw [e1, e2]
  have hUl := view_d_length ho
  by_cases h0 : (s.h op).size ≤ 0
  · have hn : ¬ (s.h op).size < 0 := by omega
    simp only [h0, hn, if_true, if_false]
    exact ⟨_, rfl, by simpa using hs, by simp [view], by simpa using hr.1, fun x hx => setSize_other _ _ _ hx⟩
  · simp only [h0, if_false]
    rw [← hUl]
    by_cases hal : (s.h root).buf.alloc < ((view (s.h op)).d.length + 1) / 2
    · simp only [hal, if_true]
      -- a variable that is both root and op has a block of op_size limbs already
      have hne : root ≠ op := by
        intro h; rw [h] at hal
        have := view_fit ho
        rw [hUl] at hal; omega
      have e : (root == op) = false := by simpa using hne
      simp only [e, Bool.false_and, Bool.false_eq_true, if_false]
      refine ⟨_, rfl, ?_⟩
      have R := sqrtTail_refines (freshBlock s root (((view (s.h op)).d.length + 1) / 2)) root (.ptr (s.PTR op)) (view (s.h op)).d
        (by rw [freshBlock_ok]; exact hs) (freshBlock_bwf _ _ _) ((Den.of_owf ho).fresh (fun h => hne h.symm))
        (by rw [freshBlock_alloc])
      rw [freshBlock_alloc] at R
      exact R.rebase (fun x hx => freshBlock_other s root _ hx)
    · simp only [hal, if_false]
      by_cases hro : root = op
      · have e : (root == op) = true := by simpa using hro
        simp only [e, if_true]
        refine ⟨_, rfl, ?_⟩
        obtain ⟨c1, c2⟩ := tmp_copy_spec s (s.PTR op) (view (s.h op)).d (Den.of_owf ho)
        rw [c1]
        exact sqrtTail_refines s root _ (view (s.h op)).d hs hr.1 (c2 s) (by omega)
      · have e : (root == op) = false := by simpa using hro
        simp only [e, Bool.false_eq_true, if_false]
        exact ⟨_, rfl, sqrtTail_refines s root _ (view (s.h op)).d hs hr.1 (Den.of_owf ho) (by omega)⟩

/-- the `free_me` arm of sqrt.c:53-57 is dead code: keeping the old block or freeing it at once makes no difference in any
    well-formed state -/
theorem sqrt_free_me_dead (s : St) (root op : Nat) (ho : OWF (s.h op)) :
    sqrt_ false s root op = sqrt_ true s root op := by
  unfold sqrt_
  rw [show s.SIZ op = (s.h op).size from rfl, show s.ALLOC root = (s.h root).buf.alloc from rfl]
  by_cases h0 : (s.h op).size ≤ 0
  · simp only [h0, if_true]
  · simp only [h0, if_false]
    by_cases hal : (s.h root).buf.alloc < ((s.h op).size.natAbs + 1) / 2
    · have hne : root ≠ op := by
        intro h; rw [h] at hal
        have := view_fit ho
        omega
      have e : (root == op) = false := by simpa using hne
      simp only [hal, if_true, e, Bool.false_and]
    · simp only [hal, if_false]

theorem Spec.sqrt_spec (w u : Mpz.Mpz) (hw : 1 ≤ w.alloc) (hu : WF u) (hpos : 0 ≤ u.size) :
    WF (Spec.sqrt w u) ∧ toInt (Spec.sqrt w u) = ((Nat.sqrt (toInt u).toNat : Nat) : Int) := by
  obtain ⟨_, _, hul, hun⟩ := (WF_iff u).mp hu
  have hti : toInt u = (val u.d : Int) := by
    rw [Mpz.toInt_eq]; unfold Mpz.sval; rw [if_neg (by omega)]
  unfold Spec.sqrt
  by_cases h0 : u.size ≤ 0
  · rw [if_pos h0]
    have hz : u.size = 0 := by omega
    have hd : u.d = [] := List.length_eq_zero_iff.mp (by rw [hul, hz]; rfl)
    refine ⟨(Mpz.WF_zero w hw).1, ?_⟩
    rw [hti, hd]; simp [toInt]
  · rw [if_neg h0]
    dsimp only
    have hne : u.d ≠ [] := by intro h; rw [h] at hul; simp at hul; omega
    have hlow := hun.lower hne
    have hup := hun.upper
    rw [hul] at hlow hup
    have hn1 : 1 ≤ u.size.natAbs := by omega
    have hslow : B ^ ((u.size.natAbs + 1) / 2 - 1) ≤ Nat.sqrt (val u.d) := by
      rw [Nat.le_sqrt, ← pow_two, ← pow_mul]
      exact Nat.le_trans (Nat.pow_le_pow_right B_pos (by omega)) hlow
    have hsup : Nat.sqrt (val u.d) < B ^ ((u.size.natAbs + 1) / 2) := by
      rw [Nat.sqrt_lt, ← pow_two, ← pow_mul]
      exact Nat.lt_of_lt_of_le hup (Nat.pow_le_pow_right B_pos (by omega))
    obtain ⟨rv, rl, rL⟩ := DivZ.val_toLimbs ((u.size.natAbs + 1) / 2) (Nat.sqrt (val u.d))
    rw [Nat.mod_eq_of_lt hsup] at rv
    have hN : Norm (toLimbs ((u.size.natAbs + 1) / 2) (Nat.sqrt (val u.d))) :=
      Norm.of_lower rL (Or.inr (by rw [rl, rv]; exact hslow))
    obtain ⟨wf, ti⟩ := mk_spec (if w.alloc < (u.size.natAbs + 1) / 2 then (u.size.natAbs + 1) / 2 else w.alloc)
      ((u.size.natAbs + 1) / 2) false _ rl hN (by split <;> omega) (by split <;> omega)
    simp only [sgn, Bool.false_eq_true, if_false] at wf ti
    refine ⟨wf, ?_⟩
    rw [ti, rv, hti]; simp

end Mpir.AllocSafe
