/- C06 — the stream functions mpz_out_str / mpz_inp_str / mpq_out_str / mpq_inp_str (models in Mpir/Model/Radix.lean). -/
import MpirProofs.Lemmas.Radix
namespace Mpir.Radix
open Mpir

/-! ### mpz_out_str -/

/-- base 0 means 10 for mpz_out_str -/
def outBase (base : Int) : Int := if base = 0 then 10 else base

theorem digitsOf_dropWhile {b : Nat} (hb : 2 ≤ b) (x : Nat) : (digitsOf b x).dropWhile (· == 0) = digitsOf b x := by
  have h := digitsOf_head_ne_zero hb x
  cases hd : digitsOf b x with
  | nil => rfl
  | cons d ds =>
    rw [hd] at h
    have : d ≠ 0 := by intro e; subst e; simp at h
    rw [List.dropWhile_cons_of_neg (by simpa using this)]

theorem mpz_out_str_spec_of (hbases : BasesOk) (h10 : Base10Ok) (base : Int) (hb : LegalOutBase (outBase base)) (x : Int) :
    mpz_out_str base x = (getStrSpec (outBase base) x, (getStrSpec (outBase base) x).length) := by
  have hb2 : 2 ≤ (outBase base).natAbs ∧ (outBase base).natAbs ≤ 62 := by unfold LegalOutBase at hb; omega
  obtain ⟨tab, ht, htab⟩ := getStrBase_legal (outBase base) hb
  -- the base/alphabet selection of mpz_out_str agrees with that of mpz_get_str on the normalised base
  have hbt : (if base ≥ 0 then
        if base = 0 then some (10, numToTextLower)
        else if base > 36 then (if base > 62 then none else some (base.toNat, numToText62))
        else some (base.toNat, numToTextLower)
      else some ((-base).toNat, numToTextUpper)) = some ((outBase base).natAbs, tab) := by
    rw [← ht]
    unfold getStrBase outBase
    by_cases h0 : base = 0
    · subst h0; simp
    · have hl : LegalOutBase base := by unfold outBase at hb; rwa [if_neg h0] at hb
      unfold LegalOutBase at hl
      simp only [h0, if_false]
      rcases hl with ⟨h1, h2⟩ | ⟨h1, h2⟩
      · simp only [show base ≥ 0 by omega, if_true, show ¬ base ≤ 1 by omega, if_false]
      · have e1 : ¬ (-base).toNat ≤ 1 := by omega
        have e2 : ¬ (-base).toNat > 36 := by omega
        simp only [show ¬ base ≥ 0 by omega, if_false, e1, e2]
  unfold mpz_out_str
  simp only [hbt]
  have hbo := hbases (outBase base).natAbs (by omega) hb2.1
  by_cases hx : x = 0
  · subst hx
    have h48 : digitChar (outBase base) 0 = 48 := by unfold digitChar; simp
    simp [getStrSpec, h48]
  · simp only [hx, if_false]
    have hxn : x.natAbs ≠ 0 := by omega
    obtain ⟨t1, t2⟩ := natLimbs_top _ hxn
    obtain ⟨v1, v2⟩ := val_natLimbs x.natAbs
    rw [mpn_get_str_of_table hb2.1 hb2.2 hbo.1 hbo.2 h10 _ v2 t1 t2, v1, digitsOf_dropWhile hb2.1]
    have hmap : (digitsOf (outBase base).natAbs x.natAbs).map (fun d => tab.getD d 0) =
        (digitsOf (outBase base).natAbs x.natAbs).map (digitChar (outBase base)) := by
      apply List.map_congr_left
      intro d hd
      exact htab d (digitsOf_lt hb2.1 _ d hd)
    rw [hmap]
    unfold getStrSpec
    simp only [hx, if_false]

/-! ### the stream state of the readers -/

/-- stream position after the character with index `k` has been read (`getc` does not move at EOF) -/
def posOf (s : List Nat) (k : Nat) : Nat := if k < s.length then k + 1 else k

/-- the state `(c, pos, nread)` of mpz_inp_str after `k` characters have been consumed and the next one
    (index `k`, `none` = EOF) has been fetched with getc: every getc is counted in nread -/
def St (s : List Nat) (k : Nat) : Option Nat × Nat × Nat := (s[k]?, posOf s k, k + 1)

theorem getc_St (s : List Nat) (k : Nat) (hk : k < s.length) :
    getc s (posOf s k) = ((St s (k + 1)).1, (St s (k + 1)).2.1) := by
  unfold getc St posOf
  rw [if_pos hk]
  by_cases h : k + 1 < s.length
  · rw [if_pos h, List.getElem?_eq_getElem h]
  · rw [if_neg h, List.getElem?_eq_none (by omega)]

theorem drop_eq_cons (s : List Nat) (k : Nat) (hk : k < s.length) : s.drop k = s[k] :: s.drop (k + 1) := by
  rw [List.drop_eq_getElem_cons hk]

/-- `do c = getc; nread++; while (isspace (c))` -/
theorem skip_eq (s : List Nat) : ∀ (fuel pos : Nat), pos ≤ s.length → s.length - pos < fuel →
    mpz_inp_str.skip s fuel pos pos = St s (pos + ((s.drop pos).takeWhile isSpace).length)
  | 0, pos, _, h => by omega
  | fuel + 1, pos, hle, hf => by
    rw [mpz_inp_str.skip]
    by_cases hk : pos < s.length
    · rw [List.getElem?_eq_getElem hk, drop_eq_cons s pos hk]
      simp only []
      by_cases hsp : isSpace s[pos] = true
      · rw [if_pos hsp, List.takeWhile_cons_of_pos hsp, skip_eq s fuel (pos + 1) (by omega) (by omega)]
        simp only [List.length_cons]
        congr 1; omega
      · rw [if_neg hsp, List.takeWhile_cons_of_neg hsp]
        simp [St, posOf, hk]
    · have : pos = s.length := by omega
      subst this
      simp [St, posOf]

/-- `while (c == '0') { c = getc; nread++; }` -/
theorem skipZeros_eq (s : List Nat) : ∀ (fuel k : Nat), k ≤ s.length → s.length - k < fuel →
    inp_str_nowhite.skipZeros s fuel (St s k).1 (St s k).2.1 (St s k).2.2 =
      St s (k + ((s.drop k).takeWhile (· == 48)).length)
  | 0, k, _, h => by omega
  | fuel + 1, k, hle, hf => by
    rw [inp_str_nowhite.skipZeros]
    by_cases hk : k < s.length
    · rw [drop_eq_cons s k hk]
      by_cases h0 : s[k] = 48
      · have hc : ((St s k).1 == some 48) = true := by simp [St, List.getElem?_eq_getElem hk, h0]
        rw [if_pos hc, show (St s k).2.1 = posOf s k from rfl, getc_St s k hk]
        have hn : (St s k).2.2 + 1 = (St s (k + 1)).2.2 := by simp [St]
        rw [hn, skipZeros_eq s fuel (k + 1) (by omega) (by omega),
          List.takeWhile_cons_of_pos (by simp [h0])]
        simp only [List.length_cons]
        congr 1; omega
      · have hc : ¬ ((St s k).1 == some 48) = true := by simp [St, List.getElem?_eq_getElem hk, h0]
        rw [if_neg hc, List.takeWhile_cons_of_neg (by simp [h0])]
        simp
    · have hc : ¬ ((St s k).1 == some 48) = true := by simp [St, List.getElem?_eq_none (by omega : s.length ≤ k)]
      rw [if_neg hc, List.drop_eq_nil_of_le (by omega)]
      simp

/-- the digit loop: the longest run of characters whose table value is below the base -/
theorem inpDigits_eq (off base : Nat) (s : List Nat) : ∀ (fuel pos : Nat) (acc : List Nat), pos ≤ s.length →
    s.length - pos < fuel →
    inpDigits off base s fuel pos acc =
      (acc.reverse ++ ((s.drop pos).takeWhile (fun c => decide (digitValue off c < base))).map (digitValue off),
       pos + ((s.drop pos).takeWhile (fun c => decide (digitValue off c < base))).length)
  | 0, pos, _, _, h => by omega
  | fuel + 1, pos, acc, hle, hf => by
    rw [inpDigits]
    by_cases hk : pos < s.length
    · rw [List.getElem?_eq_getElem hk, drop_eq_cons s pos hk]
      simp only []
      by_cases hd : digitValue off s[pos] ≥ base
      · rw [if_pos hd, List.takeWhile_cons_of_neg (by simpa using hd)]
        simp
      · rw [if_neg hd, List.takeWhile_cons_of_pos (by simpa using hd),
          inpDigits_eq off base s fuel (pos + 1) _ (by omega) (by omega)]
        simp only [List.reverse_cons, List.map_cons, List.length_cons, List.append_assoc, List.singleton_append]
        congr 1; omega
    · rw [List.getElem?_eq_none (by omega), List.drop_eq_nil_of_le (by omega)]
      simp

/-! ### mpz_inp_str_nowhite in terms of character indices -/

theorem some45_lt {s : List Nat} {k : Nat} (h : (s[k]? == some 45) = true) : k < s.length := by
  by_contra hcon
  rw [List.getElem?_eq_none (by omega)] at h; simp at h

/-- `if (c == '-') { negative = 1; c = getc (stream); nread++; }` -/
theorem sign_eq (s : List Nat) (k : Nat) :
    (if (St s k).1 == some 45 then (true, (getc s (St s k).2.1).1, (getc s (St s k).2.1).2, (St s k).2.2 + 1)
      else (false, (St s k).1, (St s k).2.1, (St s k).2.2)) =
    (s[k]? == some 45, (St s (if s[k]? == some 45 then k + 1 else k)).1,
      (St s (if s[k]? == some 45 then k + 1 else k)).2.1, (St s (if s[k]? == some 45 then k + 1 else k)).2.2) := by
  have e : (St s k).1 = s[k]? := rfl
  rw [e]
  by_cases h : (s[k]? == some 45) = true
  · rw [if_pos h, if_pos h, show (St s k).2.1 = posOf s k from rfl, getc_St s k (some45_lt h), h]
    rfl
  · rw [if_neg h, if_neg h]
    simp only [Bool.not_eq_true] at h
    rw [h]; rfl

/-- base and index of the first character after the base-0 prefix -/
def prefK (base : Int) (s : List Nat) (k1 : Nat) : Nat × Nat :=
  if base = 0 then
    if s[k1]? == some 48 then
      if s[k1 + 1]? == some 120 || s[k1 + 1]? == some 88 then (16, k1 + 2)
      else if s[k1 + 1]? == some 98 || s[k1 + 1]? == some 66 then (2, k1 + 2)
      else (8, k1 + 1)
    else (10, k1)
  else (base.toNat, k1)

theorem some_lt {s : List Nat} {k c : Nat} (h : s[k]? = some c) : k < s.length := by
  by_contra hcon
  rw [List.getElem?_eq_none (by omega)] at h; simp at h

/-- the base-0 prefix detection (inp_str.c:73-96) -/
theorem prefix_eq (base : Int) (s : List Nat) (k1 c0 : Nat) (hc0 : s[k1]? = some c0) :
    (if base = 0 then
        if c0 == 48 then
          let (c1, pos1) := getc s (St s k1).2.1
          if c1 == some 120 || c1 == some 88 then (16, (getc s pos1).1, (getc s pos1).2, (St s k1).2.2 + 2)
          else if c1 == some 98 || c1 == some 66 then (2, (getc s pos1).1, (getc s pos1).2, (St s k1).2.2 + 2)
          else (8, c1, pos1, (St s k1).2.2 + 1)
        else (10, some c0, (St s k1).2.1, (St s k1).2.2)
      else (base.toNat, some c0, (St s k1).2.1, (St s k1).2.2) : Nat × Option Nat × Nat × Nat) =
    ((prefK base s k1).1, (St s (prefK base s k1).2).1, (St s (prefK base s k1).2).2.1, (St s (prefK base s k1).2).2.2) := by
  have hk1 := some_lt hc0
  have hst : (some c0, (St s k1).2.1, (St s k1).2.2) = St s k1 := by simp [St, hc0]
  unfold prefK
  by_cases hb : base = 0
  · rw [if_pos hb, if_pos hb, hc0]
    by_cases h48 : c0 = 48
    · subst h48
      simp only [beq_self_eq_true, if_true]
      rw [show (St s k1).2.1 = posOf s k1 from rfl, getc_St s k1 hk1]
      simp only []
      have e1 : (St s (k1 + 1)).1 = s[k1 + 1]? := rfl
      rw [e1]
      by_cases hx : (s[k1 + 1]? == some 120 || s[k1 + 1]? == some 88) = true
      · have hk2 : k1 + 1 < s.length := by
          by_contra hcon
          rw [List.getElem?_eq_none (by omega)] at hx; simp at hx
        rw [if_pos hx, if_pos hx, show (St s (k1 + 1)).2.1 = posOf s (k1 + 1) from rfl, getc_St s (k1 + 1) hk2]
        rfl
      · rw [if_neg hx, if_neg hx]
        by_cases hbb : (s[k1 + 1]? == some 98 || s[k1 + 1]? == some 66) = true
        · have hk2 : k1 + 1 < s.length := by
            by_contra hcon
            rw [List.getElem?_eq_none (by omega)] at hbb; simp at hbb
          rw [if_pos hbb, if_pos hbb, show (St s (k1 + 1)).2.1 = posOf s (k1 + 1) from rfl, getc_St s (k1 + 1) hk2]
          rfl
        · rw [if_neg hbb, if_neg hbb]
          rfl
    · have : (c0 == 48) = false := by simpa using h48
      have h2 : (some c0 == some 48) = false := by simpa using h48
      rw [this, h2]
      simp only [Bool.false_eq_true, if_false]
      rw [← hst]
  · rw [if_neg hb, if_neg hb]
    simp only []
    rw [← hst]

/-- the successful part of mpz_inp_str_nowhite: `k1` = index of the first character after the sign -/
def nowhiteBody (base : Int) (s : List Nat) (neg : Bool) (k1 : Nat) : InpResult :=
  let off := if base > 36 then 224 else 0
  let b := (prefK base s k1).1
  let k2 := (prefK base s k1).2
  let k3 := k2 + ((s.drop k2).takeWhile (· == 48)).length
  let run := (s.drop k3).takeWhile (fun c => decide (digitValue off c < b))
  let ds := run.map (digitValue off)
  let value : Int := if ds.length == 0 then 0 else
    let v := Int.ofNat (val (mpn_set_str b ds))
    if neg then -v else v
  ⟨k3 + run.length, some value, k3 + run.length⟩

/-- mpz_inp_str_nowhite written with character indices: `k` = index of the character `c` -/
def nowhiteK (base : Int) (s : List Nat) (k : Nat) : InpResult :=
  match s[(if s[k]? == some 45 then k + 1 else k)]? with
  | none => ⟨0, none, posOf s (if s[k]? == some 45 then k + 1 else k)⟩
  | some c0 =>
    if (digitValue (if base > 36 then 224 else 0) c0 : Int) ≥ (if base = 0 then 10 else base) then
      ⟨0, none, posOf s (if s[k]? == some 45 then k + 1 else k)⟩
    else nowhiteBody base s (s[k]? == some 45) (if s[k]? == some 45 then k + 1 else k)

theorem prefK_le (base : Int) (s : List Nat) (k1 : Nat) (hk : k1 < s.length) : (prefK base s k1).2 ≤ s.length := by
  unfold prefK
  split
  · split
    · split
      · rename_i h
        have : k1 + 1 < s.length := by
          by_contra hcon
          rw [List.getElem?_eq_none (by omega)] at h; simp at h
        simp only; omega
      · split
        · rename_i h
          have : k1 + 1 < s.length := by
            by_contra hcon
            rw [List.getElem?_eq_none (by omega)] at h; simp at h
          simp only; omega
        · simp only; omega
    · simp only; omega
  · simp only; omega

theorem nowhite_eq (base : Int) (hb62 : base ≤ 62) (s : List Nat) (k : Nat) (_hk : k ≤ s.length) :
    inp_str_nowhite base s (St s k).1 (St s k).2.1 (St s k).2.2 = nowhiteK base s k := by
  unfold inp_str_nowhite
  simp only [show ¬ base > 62 by omega, if_false]
  rw [sign_eq]
  unfold nowhiteK
  generalize hk1 : (if (s[k]? == some 45) = true then k + 1 else k) = k1
  have e1 : (St s k1).1 = s[k1]? := rfl
  rw [e1]
  cases hc : s[k1]? with
  | none => rfl
  | some c0 =>
    show (if _ then _ else _) = (if _ then _ else _)
    by_cases hcond : (digitValue (if base > 36 then 224 else 0) c0 : Int) ≥ (if base = 0 then 10 else base)
    · rw [if_pos hcond, if_pos hcond]; rfl
    · rw [if_neg hcond, if_neg hcond, prefix_eq base s k1 c0 hc]
      unfold nowhiteBody
      have hk1l := some_lt hc
      have hk2 := prefK_le base s k1 hk1l
      generalize (prefK base s k1).2 = k2 at *
      generalize (prefK base s k1).1 = b at *
      rw [skipZeros_eq s (s.length + 1) k2 hk2 (by omega)]
      generalize hk3 : k2 + ((s.drop k2).takeWhile (· == 48)).length = k3 at *
      have hk3l : k3 ≤ s.length := by
        have : ((s.drop k2).takeWhile (· == 48)).length ≤ (s.drop k2).length := (List.takeWhile_sublist _).length_le
        rw [List.length_drop] at this; omega
      have hstart : inpStart (St s k3).1 (St s k3).2.1 = k3 := by
        unfold inpStart St posOf
        by_cases h : k3 < s.length
        · rw [List.getElem?_eq_getElem h, if_pos h]; simp
        · rw [List.getElem?_eq_none (by omega), if_neg h]
      rw [hstart, inpDigits_eq _ b s (s.length + 1) k3 [] hk3l (by omega)]
      simp only [List.reverse_nil, List.nil_append, List.length_map]
      have hn : (St s k3).2.2 = k3 + 1 := rfl
      rw [hn, Nat.add_right_comm, Nat.add_sub_cancel]
      subst hk3
      rfl

theorem mpz_inp_str_eq (base : Int) (hb62 : base ≤ 62) (s : List Nat) :
    mpz_inp_str base s = nowhiteK base s (s.takeWhile isSpace).length := by
  unfold mpz_inp_str
  have h := skip_eq s (s.length + 1) 0 (by omega) (by omega)
  simp only [List.drop_zero, Nat.zero_add] at h
  rw [h]
  exact nowhite_eq base hb62 s _ ((List.takeWhile_sublist _).length_le)

/-! ### mpz_inp_str_nowhite on the remaining input as a list -/

/-- base and length of the base-0 prefix at the head of `body` -/
def prefLen (base : Int) (body : List Nat) : Nat × Nat :=
  if base = 0 then
    if body[0]? == some 48 then
      if body[1]? == some 120 || body[1]? == some 88 then (16, 2)
      else if body[1]? == some 98 || body[1]? == some 66 then (2, 2)
      else (8, 1)
    else (10, 0)
  else (base.toNat, 0)

/-- mpz_inp_str_nowhite on the remaining input `r` (first element = the character `c`): number of characters
    consumed and the value stored; `none` = returns 0 -/
def nowhiteL (base : Int) (r : List Nat) : Option (Nat × Int) :=
  let off := if base > 36 then 224 else 0
  let neg := r.head? == some 45
  let body := if neg then r.drop 1 else r
  match body.head? with
  | none => none
  | some c0 =>
    if (digitValue off c0 : Int) ≥ (if base = 0 then 10 else base) then none else
    let b := (prefLen base body).1
    let rest := body.drop (prefLen base body).2
    let z := (rest.takeWhile (· == 48)).length
    let run := (rest.drop z).takeWhile (fun c => decide (digitValue off c < b))
    let ds := run.map (digitValue off)
    let value : Int := if ds.length == 0 then 0 else
      let v := Int.ofNat (val (mpn_set_str b ds))
      if neg then -v else v
    some ((if neg then 1 else 0) + (prefLen base body).2 + z + run.length, value)

theorem prefK_eq (base : Int) (s : List Nat) (k1 : Nat) :
    prefK base s k1 = ((prefLen base (s.drop k1)).1, k1 + (prefLen base (s.drop k1)).2) := by
  unfold prefK prefLen
  simp only [List.getElem?_drop, Nat.add_zero]
  split
  · split
    · split
      · rfl
      · split <;> rfl
    · rfl
  · rfl

theorem nowhiteK_eq_L (base : Int) (s : List Nat) (k : Nat) :
    match nowhiteL base (s.drop k) with
    | none => (nowhiteK base s k).ret = 0 ∧ (nowhiteK base s k).value = none
    | some (n, v) => nowhiteK base s k = ⟨k + n, some v, k + n⟩ := by
  unfold nowhiteK nowhiteL
  have hhead : (s.drop k).head? = s[k]? := by rw [List.head?_drop]
  simp only [hhead]
  generalize hneg : (s[k]? == some 45) = neg
  have hbody : (if neg = true then (s.drop k).drop 1 else s.drop k) = s.drop (if neg = true then k + 1 else k) := by
    cases neg
    · simp
    · simp [List.drop_drop]
  rw [hbody]
  generalize hk1 : (if neg = true then k + 1 else k) = k1
  rw [List.head?_drop]
  cases hc : s[k1]? with
  | none => exact ⟨rfl, rfl⟩
  | some c0 =>
    show match (if _ then _ else _ : Option (Nat × Int)) with | none => _ | some (n, v) => _
    by_cases hcond : (digitValue (if base > 36 then 224 else 0) c0 : Int) ≥ (if base = 0 then 10 else base)
    · rw [if_pos hcond]
      show (if _ then _ else _ : InpResult).ret = 0 ∧ (if _ then _ else _ : InpResult).value = none
      rw [if_pos hcond]; exact ⟨rfl, rfl⟩
    · rw [if_neg hcond]
      show (if _ then _ else _ : InpResult) = _
      rw [if_neg hcond]
      unfold nowhiteBody
      rw [prefK_eq]
      simp only [List.drop_drop]
      have hk : k1 = k + (if neg = true then 1 else 0) := by rw [← hk1]; cases neg <;> simp
      rw [hk]
      simp only [Nat.add_assoc]

/-! ### list lemmas for the token -/

theorem takeWhile_split (p q : Nat → Bool) (hq : ∀ x, q x = true → p x = true) : ∀ l : List Nat,
    l.takeWhile p = l.takeWhile q ++ (l.drop (l.takeWhile q).length).takeWhile p
  | [] => by simp
  | x :: l => by
    by_cases h : q x = true
    · rw [List.takeWhile_cons_of_pos (hq x h), List.takeWhile_cons_of_pos h, takeWhile_split p q hq l]
      simp
    · rw [List.takeWhile_cons_of_neg h]
      simp

theorem mem_takeWhile {p : Nat → Bool} : ∀ (l : List Nat) (x : Nat), x ∈ l.takeWhile p → p x = true ∧ x ∈ l
  | [], _, h => by simp at h
  | y :: l, x, h => by
    by_cases hp : p y = true
    · rw [List.takeWhile_cons_of_pos hp] at h
      rcases List.mem_cons.mp h with rfl | h'
      · exact ⟨hp, by simp⟩
      · have := mem_takeWhile l x h'
        exact ⟨this.1, List.mem_cons_of_mem _ this.2⟩
    · rw [List.takeWhile_cons_of_neg hp] at h; simp at h

theorem takeWhile_congr_mem {p q : Nat → Bool} : ∀ l : List Nat, (∀ x ∈ l, p x = q x) → l.takeWhile p = l.takeWhile q
  | [], _ => rfl
  | x :: l, h => by
    have hx := h x (by simp)
    have ih := takeWhile_congr_mem l (fun y hy => h y (List.mem_cons_of_mem _ hy))
    by_cases hp : p x = true
    · rw [List.takeWhile_cons_of_pos hp, List.takeWhile_cons_of_pos (hx ▸ hp), ih]
    · rw [List.takeWhile_cons_of_neg hp, List.takeWhile_cons_of_neg (hx ▸ hp)]

theorem ofDigits_zeros (b z : Nat) (ds : List Nat) : ofDigits b (List.replicate z 0 ++ ds) = ofDigits b ds := by
  rw [ofDigits_app]
  have : ofDigits b (List.replicate z 0) = 0 := by
    induction z with
    | zero => rfl
    | succ z ih => rw [List.replicate_succ, ofDigits_cons, ih]; simp
  rw [this]; simp

theorem map_takeWhile_zero (f : Nat → Nat) (h0 : f 48 = 0) : ∀ l : List Nat,
    (l.takeWhile (· == 48)).map f = List.replicate (l.takeWhile (· == 48)).length 0
  | [] => rfl
  | x :: l => by
    by_cases h : x = 48
    · subst h
      rw [List.takeWhile_cons_of_pos (by simp)]
      simp [h0, map_takeWhile_zero f h0 l, List.replicate_succ]
    · rw [List.takeWhile_cons_of_neg (by simpa using h)]; rfl

/-- the offset the readers use is `offOf` of the requested base -/
theorem off_eq (rb : Nat) : (if ((rb : Nat) : Int) > 36 then 224 else 0) = offOf rb := by
  unfold offOf
  by_cases h : rb > 36
  · rw [if_pos h, if_pos (by omega)]
  · rw [if_neg h, if_neg (by omega)]

theorem isSome_digitOf (htab : TabOk) (rb b c : Nat) (hc : c < 256) (hb : b ≤ 62) :
    (digitOf rb b c).isSome = decide (digitValue (offOf rb) c < b) := by
  rw [digitOf_eq htab rb b c hc hb]
  by_cases h : digitValue (offOf rb) c < b
  · simp [h]
  · simp [h]

/-- a character accepted as a digit is not NUL, not white space, not `-` -/
theorem digit_char_props {rb b c : Nat} (h : (digitOf rb b c).isSome = true) :
    c ≠ 0 ∧ isSpace c = false ∧ c ≠ 45 ∧ 48 ≤ c := by
  unfold digitOf at h
  cases hv : charValue rb c with
  | none => rw [hv] at h; simp at h
  | some v =>
    unfold charValue at hv
    unfold isSpace
    split at hv
    · refine ⟨by omega, ?_, by omega, by omega⟩; simp; omega
    · split at hv
      · refine ⟨by omega, ?_, by omega, by omega⟩; simp; omega
      · split at hv
        · refine ⟨by omega, ?_, by omega, by omega⟩; simp; omega
        · simp at hv

theorem digitValue_48 (htab : TabOk) (rb : Nat) : digitValue (offOf rb) 48 = 0 := by
  rw [digitValue_eq htab rb 48 (by omega)]
  unfold charValue; simp

/-- the prefix detection of the readers agrees with `splitPrefix` of the specification -/
theorem prefLen_split (body : List Nat) :
    (prefLen 0 body).1 = (splitPrefix body).1 ∧ body.drop (prefLen 0 body).2 = (splitPrefix body).2 ∧
    (prefLen 0 body).2 ≤ body.length ∧
    (∀ c ∈ body.take (prefLen 0 body).2, c = 48 ∨ c = 120 ∨ c = 88 ∨ c = 98 ∨ c = 66) := by
  unfold prefLen
  simp only [if_true]
  match body with
  | [] => simp [splitPrefix]
  | [c] =>
    by_cases h : c = 48
    · subst h; simp [splitPrefix]
    · simp [h, splitPrefix_not48 c [] h]
  | c :: d :: r =>
    by_cases h : c = 48
    · subst h
      by_cases h1 : d = 120
      · subst h1; simp [splitPrefix]
      · by_cases h2 : d = 88
        · subst h2; simp [splitPrefix]
        · by_cases h3 : d = 98
          · subst h3; simp [splitPrefix]
          · by_cases h4 : d = 66
            · subst h4; simp [splitPrefix]
            · simp [h1, h2, h3, h4, splitPrefix_other d r h1 h2 h3 h4]
    · simp [h, splitPrefix_not48 c (d :: r) h]

/-! ### what the readers consume, and its value -/

/-- The text mpz_inp_str_nowhite consumes from the remaining input `r`: an optional `-`, for base 0 the prefix
    (`0x`, `0X`, `0b`, `0B`, `0`), then the longest run of characters that are digits of the base; `none` when the
    first character after the sign is not a digit (a decimal digit for base 0): the "no digits" error. -/
def inpTok (rb : Nat) (r : List Nat) : Option (List Nat) :=
  let neg := r.head? == some 45
  let body := if neg then r.drop 1 else r
  match body with
  | [] => none
  | c :: _ =>
    if (digitOf rb (if rb = 0 then 10 else rb) c).isNone then none else
    let bs := if rb = 0 then splitPrefix body else (rb, body)
    some (r.take (r.length - bs.2.length + (bs.2.takeWhile (fun c => (digitOf rb bs.1 c).isSome)).length))

/-- sign and body of the remaining input -/
theorem sign_body (r : List Nat) :
    ∃ body : List Nat, (if (r.head? == some 45) = true then r.drop 1 else r) = body ∧
      r = (if (r.head? == some 45) = true then [45] else []) ++ body ∧
      ((r.head? == some 45) = false → body.head? ≠ some 45) := by
  cases r with
  | nil => exact ⟨[], by simp, by simp, by simp⟩
  | cons x t =>
    by_cases h : x = 45
    · subst h; exact ⟨t, by simp, by simp, by simp⟩
    · have : ((x :: t).head? == some 45) = false := by simpa using h
      rw [this]
      exact ⟨x :: t, by simp, by simp, by simpa using h⟩

/-- value part: `specTail` on a run of digit characters -/
theorem specTail_digits (htab : TabOk) (rb b : Nat) (hb62 : b ≤ 62) (neg : Bool) (digs : List Nat)
    (h256 : ∀ c ∈ digs, c < 256) (hd : ∀ c ∈ digs, (digitOf rb b c).isSome = true) :
    specTail rb b neg digs = some (if neg then -(Int.ofNat (ofDigits b (digs.map (digitValue (offOf rb)))))
      else Int.ofNat (ofDigits b (digs.map (digitValue (offOf rb))))) := by
  unfold specTail
  have hf : digs.filter (fun c => !isSpace c) = digs := by
    apply List.filter_eq_self.mpr
    intro c hc; simp [(digit_char_props (hd c hc)).2.1]
  have hm : ∀ l : List Nat, (∀ c ∈ l, c < 256) → (∀ c ∈ l, (digitOf rb b c).isSome = true) →
      l.mapM (digitOf rb b) = some (l.map (digitValue (offOf rb))) := by
    intro l
    induction l with
    | nil => intro _ _; rfl
    | cons x l ih =>
      intro h1 h2
      have hx := h2 x (by simp)
      have e := digitOf_eq htab rb b x (h1 x (by simp)) hb62
      have hlt : digitValue (offOf rb) x < b := by
        by_contra hcon; rw [e, if_neg hcon] at hx; simp at hx
      rw [if_pos hlt] at e
      simp only [List.mapM_cons, e, List.map_cons,
        ih (fun c hc => h1 c (List.mem_cons_of_mem _ hc)) (fun c hc => h2 c (List.mem_cons_of_mem _ hc))]
      rfl
  rw [hf, hm digs h256 hd]

theorem digit_small {rb b d : Nat} (hb : b ≤ 10) (h : (digitOf rb b d).isSome = true) : 48 ≤ d ∧ d ≤ 57 := by
  unfold digitOf at h
  cases hv : charValue rb d with
  | none => rw [hv] at h; simp at h
  | some v =>
    rw [hv] at h
    have hvb : v < b := by
      by_contra hcon; simp [hcon] at h
    unfold charValue at hv
    split at hv
    · omega
    · split at hv
      · simp at hv; omega
      · split at hv
        · simp at hv; split at hv <;> omega
        · simp at hv

/-- `splitPrefix` sees the same prefix on the consumed text as on the whole input -/
theorem splitPrefix_tok (body : List Nat) :
    splitPrefix (body.take (body.length - (splitPrefix body).2.length) ++
        (splitPrefix body).2.takeWhile (fun c => (digitOf 0 (splitPrefix body).1 c).isSome)) =
      ((splitPrefix body).1, (splitPrefix body).2.takeWhile (fun c => (digitOf 0 (splitPrefix body).1 c).isSome)) := by
  have two : ∀ (x : Nat) (r : List Nat), (48 :: x :: r).length - r.length = 2 := by
    intro x r; simp only [List.length_cons]; omega
  have one : ∀ (r : List Nat), (48 :: r).length - r.length = 1 := by
    intro r; simp only [List.length_cons]; omega
  -- a first character other than '0': decimal, no prefix
  have dec : ∀ (c : Nat) (t : List Nat), c ≠ 48 →
      splitPrefix ((c :: t).take ((c :: t).length - (c :: t).length) ++
        (c :: t).takeWhile (fun c => (digitOf 0 10 c).isSome)) =
      (10, (c :: t).takeWhile (fun c => (digitOf 0 10 c).isSome)) := by
    intro c t h
    rw [Nat.sub_self, List.take_zero, List.nil_append]
    by_cases hd : (digitOf 0 10 c).isSome = true
    · rw [List.takeWhile_cons_of_pos (p := fun c => (digitOf 0 10 c).isSome) hd]
      exact splitPrefix_not48 c _ h
    · rw [List.takeWhile_cons_of_neg (p := fun c => (digitOf 0 10 c).isSome) hd]; rfl
  match body with
  | [] => rfl
  | [c] =>
    by_cases h : c = 48
    · subst h; rfl
    · rw [splitPrefix_not48 c [] h]; exact dec c [] h
  | c :: d :: r =>
    by_cases h : c = 48
    · subst h
      by_cases h1 : d = 120
      · subst h1
        show splitPrefix ((48 :: 120 :: r).take ((48 :: 120 :: r).length - r.length) ++ _) = _
        rw [two]; rfl
      · by_cases h2 : d = 88
        · subst h2
          show splitPrefix ((48 :: 88 :: r).take ((48 :: 88 :: r).length - r.length) ++ _) = _
          rw [two]; rfl
        · by_cases h3 : d = 98
          · subst h3
            show splitPrefix ((48 :: 98 :: r).take ((48 :: 98 :: r).length - r.length) ++ _) = _
            rw [two]; rfl
          · by_cases h4 : d = 66
            · subst h4
              show splitPrefix ((48 :: 66 :: r).take ((48 :: 66 :: r).length - r.length) ++ _) = _
              rw [two]; rfl
            · rw [splitPrefix_other d r h1 h2 h3 h4]
              show splitPrefix ((48 :: d :: r).take ((48 :: d :: r).length - (d :: r).length) ++ _) = _
              rw [one]
              show splitPrefix (48 :: (d :: r).takeWhile (fun c => (digitOf 0 8 c).isSome)) = _
              by_cases hd : (digitOf 0 8 d).isSome = true
              · rw [List.takeWhile_cons_of_pos (p := fun c => (digitOf 0 8 c).isSome) hd]
                have := digit_small (by omega) hd
                rw [splitPrefix_other d _ (by omega) (by omega) (by omega) (by omega)]
              · rw [List.takeWhile_cons_of_neg (p := fun c => (digitOf 0 8 c).isSome) hd]; rfl
    · rw [splitPrefix_not48 c (d :: r) h]; exact dec c (d :: r) h

/-- base, rest and prefix length of the readers, in terms of the specification's `splitPrefix` -/
theorem prefLen_cases (rb : Nat) (hrb : rb = 0 ∨ 2 ≤ rb) (hrb62 : rb ≤ 62) (body : List Nat) :
    (prefLen (rb : Int) body).1 = (if rb = 0 then splitPrefix body else (rb, body)).1 ∧
    body.drop (prefLen (rb : Int) body).2 = (if rb = 0 then splitPrefix body else (rb, body)).2 ∧
    (prefLen (rb : Int) body).2 ≤ body.length ∧
    (∀ c ∈ body.take (prefLen (rb : Int) body).2, c = 48 ∨ c = 120 ∨ c = 88 ∨ c = 98 ∨ c = 66) ∧
    2 ≤ (prefLen (rb : Int) body).1 ∧ (prefLen (rb : Int) body).1 ≤ 62 := by
  by_cases h0 : rb = 0
  · subst h0
    obtain ⟨a1, a2, a3, a4⟩ := prefLen_split body
    simp only [Nat.cast_zero, if_true]
    refine ⟨a1, a2, a3, a4, ?_⟩
    rw [a1]
    have := splitPrefix_base body
    omega
  · have : prefLen (rb : Int) body = (rb, 0) := by
      unfold prefLen; rw [if_neg (by omega)]; simp
    rw [this, if_neg h0]
    exact ⟨rfl, rfl, Nat.zero_le _, by intro c hc; simp at hc, by omega, hrb62⟩

theorem prefLen_zero (rb : Nat) (body : List Nat) (h : (prefLen (rb : Int) body).2 = 0) :
    (prefLen (rb : Int) body).1 = (if rb = 0 then 10 else rb) := by
  unfold prefLen at h ⊢
  by_cases h0 : rb = 0
  · subst h0
    simp only [Nat.cast_zero, if_true] at h ⊢
    split at h
    · split at h
      · simp at h
      · split at h <;> simp at h
    · rename_i h1; rw [if_neg h1]
  · rw [if_neg (by omega), if_neg h0]; simp

theorem nowhiteL_spec (htab : TabOk) (hbases : BasesOk) (rb : Nat) (hrb : rb = 0 ∨ 2 ≤ rb) (hrb62 : rb ≤ 62)
    (r : List Nat) (hr : ∀ c ∈ r, c < 256) :
    match inpTok rb r with
    | none => nowhiteL (rb : Int) r = none
    | some tok => ∃ v, nowhiteL (rb : Int) r = some (tok.length, v) ∧ parseSpec (rb : Int) tok = some v ∧
        tok = r.take tok.length := by
  obtain ⟨body, hbody, hreq, hnoneg⟩ := sign_body r
  unfold inpTok nowhiteL
  simp only [hbody, off_eq]
  generalize hneg : (r.head? == some 45) = neg at *
  have hb256 : ∀ c ∈ body, c < 256 := by
    intro c hc; apply hr; rw [hreq]; exact List.mem_append_right _ hc
  cases body with
  | nil => exact rfl
  | cons c t =>
    have hc256 := hb256 c (by simp)
    have hlim : 2 ≤ (if rb = 0 then 10 else rb) ∧ (if rb = 0 then 10 else rb) ≤ 62 := by
      split <;> omega
    -- the first-character test
    have hcond : ((digitValue (offOf rb) c : Int) ≥ (if (rb : Int) = 0 then 10 else (rb : Int))) ↔
        (digitOf rb (if rb = 0 then 10 else rb) c).isNone = true := by
      rw [digitOf_eq htab rb _ c hc256 hlim.2]
      by_cases h0 : rb = 0
      · subst h0
        simp only [Nat.cast_zero, if_true]
        by_cases h : digitValue (offOf 0) c < 10
        · simp [h]
        · simp [h]; omega
      · have h0' : ¬ (rb : Int) = 0 := by omega
        simp only [if_neg h0, if_neg h0']
        by_cases h : digitValue (offOf rb) c < rb
        · simp [h]
        · simp [h]; omega
    show match (if _ then _ else _ : Option (List Nat)) with | none => _ | some tok => _
    by_cases hfail : (digitOf rb (if rb = 0 then 10 else rb) c).isNone = true
    · rw [if_pos hfail]
      dsimp only [List.head?_cons]
      rw [if_pos (hcond.mpr hfail)]
    · rw [if_neg hfail]
      obtain ⟨p1, p2, p3, p4, p5, p6⟩ := prefLen_cases rb hrb hrb62 (c :: t)
      generalize hbs : (if rb = 0 then splitPrefix (c :: t) else (rb, c :: t)) = bs at *
      obtain ⟨b, rest⟩ := bs
      simp only at p1 p2 ⊢
      generalize hpl : (prefLen (rb : Int) (c :: t)).2 = pl at *
      generalize hbb : (prefLen (rb : Int) (c :: t)).1 = b' at *
      subst p1
      rw [p2]
      dsimp only [List.head?_cons]
      rw [if_neg (mt hcond.mp hfail)]
      -- the digit run
      have hrest_mem : ∀ x ∈ rest, x ∈ c :: t := by
        intro x hx; rw [← p2] at hx; exact List.mem_of_mem_drop hx
      have hrest256 : ∀ x ∈ rest, x < 256 := fun x hx => hb256 x (hrest_mem x hx)
      have hcongr : rest.takeWhile (fun c => (digitOf rb b' c).isSome) =
          rest.takeWhile (fun c => decide (digitValue (offOf rb) c < b')) :=
        takeWhile_congr_mem rest (fun x hx => isSome_digitOf htab rb b' x (hrest256 x hx) p6)
      have h48 : ∀ x : Nat, (x == 48) = true → decide (digitValue (offOf rb) x < b') = true := by
        intro x hx
        have : x = 48 := by simpa using hx
        subst this
        rw [digitValue_48 htab rb]; simp; omega
      have hsplit := takeWhile_split (fun c => decide (digitValue (offOf rb) c < b')) (· == 48) h48 rest
      generalize hz : rest.takeWhile (· == 48) = zeros at *
      generalize hrun : (rest.drop zeros.length).takeWhile (fun c => decide (digitValue (offOf rb) c < b')) = run at *
      generalize hdigs : rest.takeWhile (fun c => (digitOf rb b' c).isSome) = digs at *
      rw [← hcongr] at hsplit
      have hdl : digs.length ≤ rest.length := by rw [← hdigs]; exact (List.takeWhile_sublist _).length_le
      have hpre : digs = rest.take digs.length := by
        have : digs <+: rest := by rw [← hdigs]; exact List.takeWhile_prefix _
        exact List.prefix_iff_eq_take.mp this
      have hbl : (c :: t).length = pl + rest.length := by rw [← p2, List.length_drop]; omega
      generalize hsign : (if neg = true then [45] else ([] : List Nat)) = sign at *
      have hsl : sign.length = (if neg = true then 1 else 0) := by rw [← hsign]; cases neg <;> rfl
      have hrl : r.length = sign.length + (c :: t).length := by rw [hreq, List.length_append]
      have hn : r.length - rest.length + digs.length = sign.length + pl + digs.length := by omega
      have hr3 : r = (sign ++ ((c :: t).take pl ++ digs)) ++ rest.drop digs.length := by
        conv_lhs => rw [hreq, ← List.take_append_drop pl (c :: t), p2]
        conv_lhs => rw [← List.take_append_drop digs.length rest, ← hpre]
        simp only [List.append_assoc]
      have hlen3 : (sign ++ ((c :: t).take pl ++ digs)).length = sign.length + pl + digs.length := by
        rw [List.length_append, List.length_append, List.length_take, Nat.min_eq_left p3]; omega
      have htok : r.take (r.length - rest.length + digs.length) = sign ++ ((c :: t).take pl ++ digs) := by
        rw [hn]; conv_lhs => rw [hr3]
        exact List.take_left' hlen3
      have htl : (r.take (r.length - rest.length + digs.length)).length = sign.length + pl + digs.length := by
        rw [htok, hlen3]
      -- digits and their values
      have hdigsD : ∀ x ∈ digs, (digitOf rb b' x).isSome = true := by
        intro x hx; rw [← hdigs] at hx; exact (mem_takeWhile _ _ hx).1
      have hdigs256 : ∀ x ∈ digs, x < 256 := by
        intro x hx; rw [← hdigs] at hx; exact hrest256 x (mem_takeWhile _ _ hx).2
      have hmapz : digs.map (digitValue (offOf rb)) =
          List.replicate zeros.length 0 ++ run.map (digitValue (offOf rb)) := by
        rw [hsplit, List.map_append, ← hz, map_takeWhile_zero _ (digitValue_48 htab rb)]
      refine ⟨if neg = true then -(Int.ofNat (ofDigits b' (digs.map (digitValue (offOf rb)))))
        else Int.ofNat (ofDigits b' (digs.map (digitValue (offOf rb)))), ?_, ?_, ?_⟩
      · -- the model's count and value
        rw [htl, hsl, hmapz, ofDigits_zeros]
        have hcount : (if neg = true then 1 else 0) + pl + zeros.length + run.length =
            (if neg = true then 1 else 0) + pl + digs.length := by
          rw [hsplit, List.length_append]; omega
        rw [hcount]
        congr 2
        by_cases hds : run = []
        · subst hds; cases neg <;> simp [ofDigits]
        · have hc0 : ((run.map (digitValue (offOf rb))).length == 0) = false := by
            cases run with
            | nil => exact absurd rfl hds
            | cons _ _ => simp
          rw [hc0]
          simp only [Bool.false_eq_true, if_false]
          have hbo := hbases b' (by omega) p5
          have hdlt : ∀ d ∈ run.map (digitValue (offOf rb)), d < b' := by
            intro d hd
            obtain ⟨x, hx, rfl⟩ := List.mem_map.mp hd
            rw [← hrun] at hx
            simpa using (mem_takeWhile _ _ hx).1
          rw [mpn_set_str_val_of_table p5 p6 hbo.1 hbo.2 _ (by simpa using hds) hdlt]
      · -- the specification's value of the consumed text
        rw [htok, parseSpec_nat rb (by omega) hrb62]
        have hcD : (digitOf rb (if rb = 0 then 10 else rb) c).isSome = true := by
          cases hd : digitOf rb (if rb = 0 then 10 else rb) c with
          | none => exact absurd (by rw [hd]; rfl) hfail
          | some _ => rfl
        have hcp := digit_char_props hcD
        generalize hpre : (c :: t).take pl = pre at *
        have hpd : ∀ x ∈ pre ++ digs, x ≠ 0 ∧ isSpace x = false := by
          intro x hx
          rcases List.mem_append.mp hx with h | h
          · rcases p4 x h with e | e | e | e | e <;> subst e <;> exact ⟨by omega, by decide⟩
          · have := digit_char_props (hdigsD x h); exact ⟨this.1, this.2.1⟩
        -- the text after the sign starts with c
        have hhead : ∃ tl, pre ++ digs = c :: tl := by
          rcases Nat.eq_zero_or_pos pl with h0 | h0
          · have hb' : b' = (if rb = 0 then 10 else rb) := by rw [← hbb]; exact prefLen_zero rb _ (by rw [hpl]; exact h0)
            subst h0
            simp only [List.take_zero] at hpre
            simp only [List.drop_zero] at p2
            subst hpre; subst p2
            rw [← hdigs, List.takeWhile_cons_of_pos (p := fun c => (digitOf rb b' c).isSome) (by rw [hb']; exact hcD)]
            exact ⟨_, rfl⟩
          · obtain ⟨pl', rfl⟩ : ∃ pl', pl = pl' + 1 := ⟨pl - 1, by omega⟩
            rw [← hpre, List.take_succ_cons]; exact ⟨_, rfl⟩
        obtain ⟨tl, htl'⟩ := hhead
        have hrest_spec : ∀ ng : Bool, specRest rb ng (pre ++ digs) =
            some (if ng then -(Int.ofNat (ofDigits b' (digs.map (digitValue (offOf rb)))))
              else Int.ofNat (ofDigits b' (digs.map (digitValue (offOf rb))))) := by
          intro ng
          have hsp : (if rb = 0 then splitPrefix (pre ++ digs) else (rb, pre ++ digs)) = (b', digs) := by
            by_cases h0 : rb = 0
            · subst h0
              simp only [if_true] at hbs ⊢
              have := splitPrefix_tok (c :: t)
              rw [hbs] at this
              simp only at this
              rw [show (c :: t).length - rest.length = pl by omega, hpre, hdigs] at this
              exact this
            · simp only [if_neg h0] at hbs ⊢
              have e1 : b' = rb := (Prod.mk.inj hbs).1.symm
              have e2 : rest = c :: t := (Prod.mk.inj hbs).2.symm
              have : pl = 0 := by rw [e2] at hbl; omega
              subst this
              simp only [List.take_zero] at hpre
              rw [← hpre, e1]; rfl
          unfold specRest
          rw [htl']
          dsimp only
          have : (digitOf rb (if rb = 0 then 10 else rb) c).isNone = false := by
            cases hd : digitOf rb (if rb = 0 then 10 else rb) c with
            | none => rw [hd] at hcD; simp at hcD
            | some _ => rfl
          rw [this, ← htl', hsp]
          simp only [Bool.false_eq_true, if_false]
          exact specTail_digits htab rb b' p6 ng digs hdigs256 hdigsD
        have htw : ∀ l : List Nat, (∀ x ∈ l, x ≠ 0) → l.takeWhile (· != 0) = l := by
          intro l hl
          apply takeWhile_all
          intro x hx; simpa using hl x hx
        cases neg with
        | true =>
          subst hsign
          rw [if_pos rfl]
          rw [htw _ (by
            intro x hx
            rcases List.mem_append.mp hx with h | h
            · simp at h; omega
            · exact (hpd x h).1)]
          have hdw : ([45] ++ (pre ++ digs)).dropWhile isSpace = 45 :: (pre ++ digs) := by
            simp [isSpace]
          rw [hdw]
          simp only [List.head?_cons, beq_self_eq_true, if_true, List.drop_succ_cons, List.drop_zero]
          exact hrest_spec true
        | false =>
          subst hsign
          simp only [List.nil_append, Bool.false_eq_true, if_false]
          rw [htw _ (fun x hx => (hpd x hx).1)]
          have hdw : (pre ++ digs).dropWhile isSpace = pre ++ digs := by
            rw [htl']; simp [hcp.2.1]
          rw [hdw]
          have hh : ((pre ++ digs).head? == some 45) = false := by
            rw [htl']; simpa using hcp.2.2.1
          simp only [hh, Bool.false_eq_true, if_false]
          exact hrest_spec false
      · rw [htl, ← hn]

/-! ### mpz_inp_str -/

theorem drop_takeWhile_length (p : Nat → Bool) : ∀ l : List Nat, l.drop (l.takeWhile p).length = l.dropWhile p
  | [] => rfl
  | x :: l => by
    by_cases h : p x = true
    · rw [List.takeWhile_cons_of_pos h, List.dropWhile_cons_of_pos h]
      simp [drop_takeWhile_length p l]
    · rw [List.takeWhile_cons_of_neg h, List.dropWhile_cons_of_neg h]; rfl

/-- mpz_inp_str_nowhite with `c` = the character with index `k` of the stream `s`: consumes exactly the token
    of the remaining input, stores its `parseSpec` value, returns the number of characters read so far -/
theorem nowhiteK_spec (htab : TabOk) (hbases : BasesOk) (rb : Nat) (hrb : rb = 0 ∨ 2 ≤ rb) (hrb62 : rb ≤ 62)
    (s : List Nat) (hs : ∀ c ∈ s, c < 256) (k : Nat) :
    match inpTok rb (s.drop k) with
    | none => (nowhiteK (rb : Int) s k).ret = 0 ∧ (nowhiteK (rb : Int) s k).value = none
    | some tok => nowhiteK (rb : Int) s k = ⟨k + tok.length, parseSpec (rb : Int) tok, k + tok.length⟩ ∧
        (parseSpec (rb : Int) tok).isSome = true ∧ tok = (s.drop k).take tok.length := by
  have h1 := nowhiteK_eq_L (rb : Int) s k
  have h2 := nowhiteL_spec htab hbases rb hrb hrb62 (s.drop k) (fun c hc => hs c (List.mem_of_mem_drop hc))
  cases htk : inpTok rb (s.drop k) with
  | none =>
    rw [htk] at h2
    simp only at h2 ⊢
    rw [h2] at h1
    exact h1
  | some tok =>
    rw [htk] at h2
    obtain ⟨v, a1, a2, a3⟩ := h2
    rw [a1] at h1
    simp only at h1 ⊢
    rw [a2]
    exact ⟨h1, rfl, a3⟩

/-- mpz_inp_str, requested base 0 or 2..62, any byte stream: skips the leading white space, consumes the
    token (sign, base-0 prefix, longest run of digits), stores its `parseSpec` value and returns the number
    of bytes consumed including the white space; returns 0 without storing when there is no digit -/
theorem mpz_inp_str_spec_of (htab : TabOk) (hbases : BasesOk) (rb : Nat) (hrb : rb = 0 ∨ 2 ≤ rb) (hrb62 : rb ≤ 62)
    (s : List Nat) (hs : ∀ c ∈ s, c < 256) :
    match inpTok rb (s.dropWhile isSpace) with
    | none => (mpz_inp_str (rb : Int) s).ret = 0 ∧ (mpz_inp_str (rb : Int) s).value = none
    | some tok => mpz_inp_str (rb : Int) s =
          ⟨(s.takeWhile isSpace).length + tok.length, parseSpec (rb : Int) tok, (s.takeWhile isSpace).length + tok.length⟩ ∧
        (parseSpec (rb : Int) tok).isSome = true ∧ tok = (s.dropWhile isSpace).take tok.length := by
  rw [mpz_inp_str_eq (rb : Int) (by omega) s, ← drop_takeWhile_length]
  exact nowhiteK_spec htab hbases rb hrb hrb62 s hs _

/-! ### reading back what mpz_out_str wrote -/

theorem takeWhile_append_all {p : Nat → Bool} : ∀ (l1 l2 : List Nat), (∀ x ∈ l1, p x = true) →
    (l1 ++ l2).takeWhile p = l1 ++ l2.takeWhile p
  | [], _, _ => rfl
  | x :: l1, l2, h => by
    rw [List.cons_append, List.takeWhile_cons_of_pos (h x (by simp)),
      takeWhile_append_all l1 l2 (fun y hy => h y (List.mem_cons_of_mem _ hy))]
    rfl

/-- `rest` does not continue the number: it is empty or starts with a character that is not a digit of base b -/
def NoDigitAhead (b : Nat) (rest : List Nat) : Prop :=
  match rest with
  | [] => True
  | c :: _ => (digitOf b b c).isSome = false

instance (b : Nat) (rest : List Nat) : Decidable (NoDigitAhead b rest) := by
  unfold NoDigitAhead; cases rest <;> infer_instance

theorem takeWhile_noDigit {b : Nat} {rest : List Nat} (h : NoDigitAhead b rest) :
    rest.takeWhile (fun c => (digitOf b b c).isSome) = [] := by
  cases rest with
  | nil => rfl
  | cons c t =>
    have : ¬ (digitOf b b c).isSome = true := by
      have h' : (digitOf b b c).isSome = false := h
      rw [h']; simp
    exact List.takeWhile_cons_of_neg (p := fun c => (digitOf b b c).isSome) this

/-- the token of `getStrSpec base x ++ rest` is `getStrSpec base x` -/
theorem inpTok_getStrSpec (base : Int) (hb : LegalOutBase base) (x : Int) (rest : List Nat)
    (hnd : NoDigitAhead base.natAbs rest) :
    inpTok base.natAbs (getStrSpec base x ++ rest) = some (getStrSpec base x) ∧
    (getStrSpec base x ++ rest).dropWhile isSpace = getStrSpec base x ++ rest := by
  have hb2 : 2 ≤ base.natAbs ∧ base.natAbs ≤ 62 := by unfold LegalOutBase at hb; omega
  obtain ⟨ds, hds, hlt, hne⟩ : ∃ ds : List Nat,
      (if x = 0 then [0] else digitsOf base.natAbs x.natAbs) = ds ∧ (∀ d ∈ ds, d < base.natAbs) ∧ ds ≠ [] := by
    by_cases hx : x = 0
    · subst hx; exact ⟨[0], by simp, by simp; omega, by simp⟩
    · exact ⟨digitsOf base.natAbs x.natAbs, by simp [hx], digitsOf_lt hb2.1 _,
        digitsOf_ne_nil hb2.1 (Int.natAbs_pos.mpr hx)⟩
  unfold getStrSpec
  simp only [hds]
  generalize hcs : ds.map (digitChar base) = cs
  have hcsD : ∀ c ∈ cs, (digitOf base.natAbs base.natAbs c).isSome = true := by
    intro c hc
    rw [← hcs] at hc
    obtain ⟨d, hd, rfl⟩ := List.mem_map.mp hc
    have := (digitChar_props base hb d (hlt d hd)).1
    unfold digitOf; rw [this]; simp only; rw [if_pos (hlt d hd)]; rfl
  obtain ⟨c0, t0, hct⟩ : ∃ c0 t0, cs = c0 :: t0 := by
    cases cs with
    | nil => rw [← hcs] at hne; simp at hne; simp_all
    | cons a l => exact ⟨a, l, rfl⟩
  have hc0 := digit_char_props (hcsD c0 (by rw [hct]; simp))
  have hrb0 : base.natAbs ≠ 0 := by omega
  have htw : (cs ++ rest).takeWhile (fun c => (digitOf base.natAbs base.natAbs c).isSome) = cs := by
    rw [takeWhile_append_all cs rest hcsD, takeWhile_noDigit hnd, List.append_nil]
  by_cases hx : x < 0
  · simp only [hx, if_true]
    refine ⟨?_, by simp [isSpace]⟩
    unfold inpTok
    simp only [List.cons_append, List.nil_append, List.head?_cons, beq_self_eq_true, if_true, List.drop_succ_cons,
      List.drop_zero]
    rw [hct]
    simp only [List.cons_append]
    have hD := hcsD c0 (by rw [hct]; simp)
    have hN : (digitOf base.natAbs (if base.natAbs = 0 then 10 else base.natAbs) c0).isNone = false := by
      rw [if_neg hrb0]
      cases hd : digitOf base.natAbs base.natAbs c0 with
      | none => rw [hd] at hD; simp at hD
      | some _ => rfl
    rw [hN]
    simp only [Bool.false_eq_true, if_false, if_neg hrb0]
    rw [← List.cons_append, ← hct, htw]
    congr 1
    have : (45 :: (cs ++ rest)).length - (cs ++ rest).length + cs.length = (45 :: cs).length := by
      simp only [List.length_cons, List.length_append]; omega
    rw [this, show 45 :: (cs ++ rest) = (45 :: cs) ++ rest from rfl]
    exact List.take_left' rfl
  · simp only [hx, if_false, List.nil_append]
    refine ⟨?_, by rw [hct]; simp [hc0.2.1]⟩
    unfold inpTok
    have hh : ((cs ++ rest).head? == some 45) = false := by
      rw [hct]; simpa using hc0.2.2.1
    simp only [hh, Bool.false_eq_true, if_false]
    rw [hct]
    simp only [List.cons_append]
    have hD := hcsD c0 (by rw [hct]; simp)
    have hN : (digitOf base.natAbs (if base.natAbs = 0 then 10 else base.natAbs) c0).isNone = false := by
      rw [if_neg hrb0]
      cases hd : digitOf base.natAbs base.natAbs c0 with
      | none => rw [hd] at hD; simp at hD
      | some _ => rfl
    rw [hN]
    simp only [Bool.false_eq_true, if_false, if_neg hrb0]
    rw [← List.cons_append, ← hct, htw]
    congr 1
    rw [Nat.sub_self, Nat.zero_add]
    exact List.take_left' rfl

/-- mpz_inp_str reads back what mpz_out_str wrote, whatever follows, as long as it does not continue the number -/
theorem inp_out_roundtrip_of (htab : TabOk) (hbases : BasesOk) (h10 : Base10Ok) (base : Int) (hb : LegalOutBase base)
    (x : Int) (rest : List Nat) (hrest : ∀ c ∈ rest, c < 256) (hnd : NoDigitAhead base.natAbs rest) :
    mpz_inp_str (base.natAbs : Int) ((mpz_out_str base x).1 ++ rest) =
      ⟨(mpz_out_str base x).2, some x, (mpz_out_str base x).2⟩ := by
  have hb2 : 2 ≤ base.natAbs ∧ base.natAbs ≤ 62 := by unfold LegalOutBase at hb; omega
  have hob : outBase base = base := by
    unfold outBase; rw [if_neg]; unfold LegalOutBase at hb; omega
  rw [mpz_out_str_spec_of hbases h10 base (by rw [hob]; exact hb) x, hob]
  simp only
  obtain ⟨ht, hdw⟩ := inpTok_getStrSpec base hb x rest hnd
  have hbytes : ∀ c ∈ getStrSpec base x ++ rest, c < 256 := by
    intro c hc
    rcases List.mem_append.mp hc with h | h
    · exact getStrSpec_bytes base hb x c h
    · exact hrest c h
  have h := mpz_inp_str_spec_of htab hbases base.natAbs (Or.inr hb2.1) hb2.2 _ hbytes
  rw [hdw, ht] at h
  simp only at h
  have hws : (getStrSpec base x ++ rest).takeWhile isSpace = [] := by
    have : (getStrSpec base x ++ rest).dropWhile isSpace = getStrSpec base x ++ rest := hdw
    cases hl : getStrSpec base x ++ rest with
    | nil => rfl
    | cons a l =>
      rw [hl] at this
      by_cases ha : isSpace a = true
      · rw [List.dropWhile_cons_of_pos ha] at this
        have h1 := congrArg List.length this
        have h2 : (l.dropWhile isSpace).length ≤ l.length := (List.dropWhile_sublist _).length_le
        simp at h1; omega
      · exact List.takeWhile_cons_of_neg ha
  rw [hws, parse_getStrSpec base hb x] at h
  simpa using h.1

/-! ### mpq_out_str / mpq_inp_str -/

theorem mpq_out_str_spec_of (hbases : BasesOk) (h10 : Base10Ok) (base : Int) (hb : LegalOutBase (outBase base))
    (n d : Int) :
    mpq_out_str base n d =
      (if d = 1 then getStrSpec (outBase base) n else getStrSpec (outBase base) n ++ [47] ++ getStrSpec (outBase base) d,
       (if d = 1 then getStrSpec (outBase base) n
        else getStrSpec (outBase base) n ++ [47] ++ getStrSpec (outBase base) d).length) := by
  unfold mpq_out_str
  rw [mpz_out_str_spec_of hbases h10 base hb n, mpz_out_str_spec_of hbases h10 base hb d]
  by_cases hd : d = 1
  · simp [hd]
  · have : (d != 1) = true := by simpa using hd
    simp only [this, if_true, if_neg hd, List.length_append, List.length_cons, List.length_nil]
    congr 1; omega

theorem parseSpec_nil (base : Int) : parseSpec base [] = none := by
  unfold parseSpec; simp

theorem getc_eq (s : List Nat) (k : Nat) : getc s k = (s[k]?, posOf s k) := by
  unfold getc posOf
  by_cases h : k < s.length
  · rw [List.getElem?_eq_getElem h, if_pos h]
  · rw [List.getElem?_eq_none (by omega), if_neg h]

/-- mpq_inp_str, requested base 0 or 2..62: the numerator is read like mpz_inp_str; if the next character is `/`
    the denominator follows immediately (no white space) and is read the same way; otherwise the denominator is 1
    and the character is pushed back.  The two parts are stored as read (no canonicalisation: the caller must
    call mpq_canonicalize, as the manual says).  Return value = bytes consumed, 0 if either part has no digit. -/
theorem mpq_inp_str_spec_of (htab : TabOk) (hbases : BasesOk) (rb : Nat) (hrb : rb = 0 ∨ 2 ≤ rb) (hrb62 : rb ≤ 62)
    (s : List Nat) (hs : ∀ c ∈ s, c < 256) :
    match inpTok rb (s.dropWhile isSpace) with
    | none => (mpq_inp_str (rb : Int) s).1 = 0 ∧ (mpq_inp_str (rb : Int) s).2.1 = none
    | some tn =>
      ∃ vn, parseSpec (rb : Int) tn = some vn ∧
      if s[(s.takeWhile isSpace).length + tn.length]? = some 47 then
        match inpTok rb (s.drop ((s.takeWhile isSpace).length + tn.length + 1)) with
        | none => (mpq_inp_str (rb : Int) s).1 = 0 ∧ (mpq_inp_str (rb : Int) s).2.1 = none
        | some td => ∃ vd, parseSpec (rb : Int) td = some vd ∧
            td = (s.drop ((s.takeWhile isSpace).length + tn.length + 1)).take td.length ∧
            mpq_inp_str (rb : Int) s =
              ((s.takeWhile isSpace).length + tn.length + 1 + td.length, some (vn, vd),
               (s.takeWhile isSpace).length + tn.length + 1 + td.length)
      else mpq_inp_str (rb : Int) s =
        ((s.takeWhile isSpace).length + tn.length, some (vn, 1), (s.takeWhile isSpace).length + tn.length) := by
  have h1 := mpz_inp_str_spec_of htab hbases rb hrb hrb62 s hs
  unfold mpq_inp_str
  cases htk : inpTok rb (s.dropWhile isSpace) with
  | none =>
    rw [htk] at h1
    simp only at h1 ⊢
    have : ((mpz_inp_str (rb : Int) s).ret == 0) = true := by rw [h1.1]; rfl
    rw [if_pos this]; exact ⟨rfl, rfl⟩
  | some tn =>
    rw [htk] at h1
    obtain ⟨a1, a2, a3⟩ := h1
    obtain ⟨vn, hvn⟩ := Option.isSome_iff_exists.mp a2
    refine ⟨vn, hvn, ?_⟩
    have htn : 1 ≤ tn.length := by
      rcases Nat.eq_zero_or_pos tn.length with h | h
      · have : tn = [] := List.length_eq_zero_iff.mp h
        rw [this, parseSpec_nil] at hvn; simp at hvn
      · exact h
    rw [a1, hvn]
    generalize hk : (s.takeWhile isSpace).length + tn.length = k at *
    have hret : ((k == 0) = true) = False := by simp; omega
    simp only [hret, if_false, getc_eq, Option.getD_some]
    by_cases h47 : s[k]? = some 47
    · have hc : (s[k]? == some 47) = true := by rw [h47]; rfl
      rw [if_pos h47]
      simp only [hc, if_true]
      have hklt := some_lt h47
      have hpos : posOf s k = k + 1 := by unfold posOf; rw [if_pos hklt]
      rw [hpos]
      have hst : inp_str_nowhite (rb : Int) s s[k + 1]? (posOf s (k + 1)) (k + 1 + 1) = nowhiteK (rb : Int) s (k + 1) :=
        nowhite_eq (rb : Int) (by omega) s (k + 1) (by omega)
      rw [hst]
      have h2 := nowhiteK_spec htab hbases rb hrb hrb62 s hs (k + 1)
      cases htd : inpTok rb (s.drop (k + 1)) with
      | none =>
        rw [htd] at h2
        simp only at h2 ⊢
        have : ((nowhiteK (rb : Int) s (k + 1)).ret == 0) = true := by rw [h2.1]; rfl
        rw [if_pos this]; exact ⟨rfl, rfl⟩
      | some td =>
        rw [htd] at h2
        obtain ⟨b1, b2, b3⟩ := h2
        obtain ⟨vd, hvd⟩ := Option.isSome_iff_exists.mp b2
        refine ⟨vd, hvd, b3, ?_⟩
        rw [b1, hvd]
        have : ((k + 1 + td.length == 0) = true) = False := by simp
        simp only [this, if_false, Option.getD_some]
    · have hc : (s[k]? == some 47) = false := by
        cases hh : s[k]? with
        | none => rfl
        | some c => rw [hh] at h47; simp at h47; simpa using h47
      rw [if_neg h47]
      simp only [hc, Bool.false_eq_true, if_false, Nat.add_sub_cancel]

theorem noDigit_47 (b : Nat) (l : List Nat) : NoDigitAhead b (47 :: l) := by
  unfold NoDigitAhead digitOf charValue; simp

theorem dropWhile_getStrSpec (base : Int) (hb : LegalOutBase base) (x : Int) (rest : List Nat) :
    (getStrSpec base x ++ rest).takeWhile isSpace = [] := by
  have h := (inpTok_getStrSpec base hb x [] (by unfold NoDigitAhead; trivial)).2
  rw [List.append_nil] at h
  have hne : getStrSpec base x ≠ [] := by
    unfold getStrSpec
    by_cases hx : x = 0
    · simp [hx]
    · have hb2 : 2 ≤ base.natAbs := by unfold LegalOutBase at hb; omega
      have := digitsOf_ne_nil hb2 (Int.natAbs_pos.mpr hx)
      simp [hx, this]
  cases hl : getStrSpec base x with
  | nil => exact absurd hl hne
  | cons a l =>
    rw [hl] at h
    by_cases ha : isSpace a = true
    · rw [List.dropWhile_cons_of_pos ha] at h
      have h1 := congrArg List.length h
      have h2 : (l.dropWhile isSpace).length ≤ l.length := (List.dropWhile_sublist _).length_le
      simp at h1; omega
    · exact List.takeWhile_cons_of_neg ha

/-- mpq_inp_str reads back what mpq_out_str wrote: numerator and denominator exactly as they were written -/
theorem mpq_inp_out_roundtrip_of (htab : TabOk) (hbases : BasesOk) (h10 : Base10Ok) (base : Int)
    (hb : LegalOutBase base) (n d : Int) (rest : List Nat) (hrest : ∀ c ∈ rest, c < 256)
    (hnd : NoDigitAhead base.natAbs rest) (h47 : d = 1 → rest.head? ≠ some 47) :
    mpq_inp_str (base.natAbs : Int) ((mpq_out_str base n d).1 ++ rest) =
      ((mpq_out_str base n d).2, some (n, d), (mpq_out_str base n d).2) := by
  have hb2 : 2 ≤ base.natAbs ∧ base.natAbs ≤ 62 := by unfold LegalOutBase at hb; omega
  have hob : outBase base = base := by
    unfold outBase; rw [if_neg]; unfold LegalOutBase at hb; omega
  rw [mpq_out_str_spec_of hbases h10 base (by rw [hob]; exact hb) n d, hob]
  simp only
  generalize hN : getStrSpec base n = N
  generalize hD : getStrSpec base d = D
  have hNb : ∀ c ∈ N, c < 256 := by rw [← hN]; exact getStrSpec_bytes base hb n
  have hDb : ∀ c ∈ D, c < 256 := by rw [← hD]; exact getStrSpec_bytes base hb d
  by_cases hd : d = 1
  · rw [if_pos hd]
    have hbytes : ∀ c ∈ N ++ rest, c < 256 := by
      intro c hc
      rcases List.mem_append.mp hc with h | h
      · exact hNb c h
      · exact hrest c h
    have h := mpq_inp_str_spec_of htab hbases base.natAbs (Or.inr hb2.1) hb2.2 _ hbytes
    obtain ⟨ht, hdw⟩ := inpTok_getStrSpec base hb n rest hnd
    rw [hN] at ht hdw
    have hws : (N ++ rest).takeWhile isSpace = [] := by rw [← hN]; exact dropWhile_getStrSpec base hb n rest
    rw [hdw, ht] at h
    simp only [hws, List.length_nil, Nat.zero_add] at h
    obtain ⟨vn, hvn, hres⟩ := h
    have hvn' : vn = n := by
      have := parse_getStrSpec base hb n
      rw [hN, hvn] at this; exact Option.some.inj this
    have hnext : ¬ (N ++ rest)[N.length]? = some 47 := by
      rw [List.getElem?_append_right (Nat.le_refl _), Nat.sub_self]
      have := h47 hd
      cases rest with
      | nil => simp
      | cons a l => simpa using this
    rw [if_neg hnext] at hres
    rw [hres, hvn', hd]
  · rw [if_neg hd]
    have hbytes : ∀ c ∈ N ++ [47] ++ D ++ rest, c < 256 := by
      intro c hc
      simp only [List.mem_append, List.mem_singleton] at hc
      rcases hc with ((h | h) | h) | h
      · exact hNb c h
      · omega
      · exact hDb c h
      · exact hrest c h
    have h := mpq_inp_str_spec_of htab hbases base.natAbs (Or.inr hb2.1) hb2.2 _ hbytes
    have e1 : N ++ [47] ++ D ++ rest = N ++ (47 :: (D ++ rest)) := by simp
    obtain ⟨ht, hdw⟩ := inpTok_getStrSpec base hb n (47 :: (D ++ rest)) (noDigit_47 _ _)
    rw [hN] at ht hdw
    have hws : (N ++ (47 :: (D ++ rest))).takeWhile isSpace = [] := by
      rw [← hN]; exact dropWhile_getStrSpec base hb n _
    rw [e1] at h ⊢
    rw [hdw, ht] at h
    simp only [hws, List.length_nil, Nat.zero_add] at h
    obtain ⟨vn, hvn, hres⟩ := h
    have hvn' : vn = n := by
      have := parse_getStrSpec base hb n
      rw [hN, hvn] at this; exact Option.some.inj this
    have hnext : (N ++ (47 :: (D ++ rest)))[N.length]? = some 47 := by
      rw [List.getElem?_append_right (Nat.le_refl _), Nat.sub_self]; rfl
    rw [if_pos hnext] at hres
    have hdrop : (N ++ (47 :: (D ++ rest))).drop (N.length + 1) = D ++ rest := by
      rw [← List.drop_drop, List.drop_left]
      rfl
    rw [hdrop] at hres
    obtain ⟨ht2, _⟩ := inpTok_getStrSpec base hb d rest hnd
    rw [hD] at ht2
    rw [ht2] at hres
    obtain ⟨vd, hvd, _, hres'⟩ := hres
    have hvd' : vd = d := by
      have := parse_getStrSpec base hb d
      rw [hD, hvd] at this; exact Option.some.inj this
    rw [hres', hvn', hvd']
    simp only [List.length_append, List.length_cons, List.length_nil]

end Mpir.Radix
