/- C06 — the stream functions mpz_out_str / mpz_inp_str / mpq_out_str / mpq_inp_str (models in Mpir/Model/Radix.lean). -/
import MpirProofs.Lemmas.Radix
namespace Mpir.Radix
open Mpir

/-! ### mpz_out_str -/

/-- base 0 means 10 for mpz_out_str -/
def outBase (base : Int) : Int := if base = 0 then 10 else base

theorem digitsOf_dropWhile {b : Nat} (hb : 2 ≤ b) (x : Nat) : (digitsOf b x).dropWhile (· == 0) = digitsOf b x := by
  have h := digitsOf_head_ne_zero hb x
  cases hd : digitsOf b x with
  | nil => rfl
  | cons d ds =>
    rw [hd] at h
    have : d ≠ 0 := by intro e; subst e; simp at h
    rw [List.dropWhile_cons_of_neg (by simpa using this)]

theorem mpz_out_str_spec_of (hbases : BasesOk) (h10 : Base10Ok) (base : Int) (hb : LegalOutBase (outBase base)) (x : Int) :
    mpz_out_str base x = (getStrSpec (outBase base) x, (getStrSpec (outBase base) x).length) := by
  have hb2 : 2 ≤ (outBase base).natAbs ∧ (outBase base).natAbs ≤ 62 := by unfold LegalOutBase at hb; omega
  obtain ⟨tab, ht, htab⟩ := getStrBase_legal (outBase base) hb
  -- the base/alphabet selection of mpz_out_str agrees with that of mpz_get_str on the normalised base
  have hbt : (if base ≥ 0 then
        if base = 0 then some (10, numToTextLower)
        else if base > 36 then (if base > 62 then none else some (base.toNat, numToText62))
        else some (base.toNat, numToTextLower)
      else some ((-base).toNat, numToTextUpper)) = some ((outBase base).natAbs, tab) := by
    rw [← ht]
    unfold getStrBase outBase
    by_cases h0 : base = 0
    · subst h0; simp
    · have hl : LegalOutBase base := by unfold outBase at hb; rwa [if_neg h0] at hb
      unfold LegalOutBase at hl
      simp only [h0, if_false]
      rcases hl with ⟨h1, h2⟩ | ⟨h1, h2⟩
      · simp only [show base ≥ 0 by omega, if_true, show ¬ base ≤ 1 by omega, if_false]
      · have e1 : ¬ (-base).toNat ≤ 1 := by omega
        have e2 : ¬ (-base).toNat > 36 := by omega
        simp only [show ¬ base ≥ 0 by omega, if_false, e1, e2]
  unfold mpz_out_str
  simp only [hbt]
  have hbo := hbases (outBase base).natAbs (by omega) hb2.1
  by_cases hx : x = 0
  · subst hx
    have h48 : digitChar (outBase base) 0 = 48 := by unfold digitChar; simp
    simp [getStrSpec, h48]
  · simp only [hx, if_false]
    have hxn : x.natAbs ≠ 0 := by omega
    obtain ⟨t1, t2⟩ := natLimbs_top _ hxn
    obtain ⟨v1, v2⟩ := val_natLimbs x.natAbs
    rw [mpn_get_str_of_table hb2.1 hb2.2 hbo.1 hbo.2 h10 _ v2 t1 t2, v1, digitsOf_dropWhile hb2.1]
    have hmap : (digitsOf (outBase base).natAbs x.natAbs).map (fun d => tab.getD d 0) =
        (digitsOf (outBase base).natAbs x.natAbs).map (digitChar (outBase base)) := by
      apply List.map_congr_left
      intro d hd
      exact htab d (digitsOf_lt hb2.1 _ d hd)
    rw [hmap]
    unfold getStrSpec
    simp only [hx, if_false]

/-! ### the stream state of the readers -/

/-- stream position after the character with index `k` has been read (`getc` does not move at EOF) -/
def posOf (s : List Nat) (k : Nat) : Nat := if k < s.length then k + 1 else k

/-- the state `(c, pos, nread)` of mpz_inp_str after `k` characters have been consumed and the next one
    (index `k`, `none` = EOF) has been fetched with getc: every getc is counted in nread -/
def St (s : List Nat) (k : Nat) : Option Nat × Nat × Nat := (s[k]?, posOf s k, k + 1)

theorem getc_St (s : List Nat) (k : Nat) (hk : k < s.length) :
    getc s (posOf s k) = ((St s (k + 1)).1, (St s (k + 1)).2.1) := by
  unfold getc St posOf
  rw [if_pos hk]
  by_cases h : k + 1 < s.length
  · rw [if_pos h, List.getElem?_eq_getElem h]
  · rw [if_neg h, List.getElem?_eq_none (by omega)]

theorem drop_eq_cons (s : List Nat) (k : Nat) (hk : k < s.length) : s.drop k = s[k] :: s.drop (k + 1) := by
  rw [List.drop_eq_getElem_cons hk]

/-- `do c = getc; nread++; while (isspace (c))` -/
theorem skip_eq (s : List Nat) : ∀ (fuel pos : Nat), pos ≤ s.length → s.length - pos < fuel →
    mpz_inp_str.skip s fuel pos pos = St s (pos + ((s.drop pos).takeWhile isSpace).length)
  | 0, pos, _, h => by omega
  | fuel + 1, pos, hle, hf => by
    rw [mpz_inp_str.skip]
    by_cases hk : pos < s.length
    · rw [List.getElem?_eq_getElem hk, drop_eq_cons s pos hk]
      simp only []
      by_cases hsp : isSpace s[pos] = true
      · rw [if_pos hsp, List.takeWhile_cons_of_pos hsp, skip_eq s fuel (pos + 1) (by omega) (by omega)]
        simp only [List.length_cons]
        congr 1; omega
      · rw [if_neg hsp, List.takeWhile_cons_of_neg hsp]
        simp [St, posOf, hk]
    · have : pos = s.length := by omega
      subst this
      simp [St, posOf]

/-- `while (c == '0') { c = getc; nread++; }` -/
theorem skipZeros_eq (s : List Nat) : ∀ (fuel k : Nat), k ≤ s.length → s.length - k < fuel →
    inp_str_nowhite.skipZeros s fuel (St s k).1 (St s k).2.1 (St s k).2.2 =
      St s (k + ((s.drop k).takeWhile (· == 48)).length)
  | 0, k, _, h => by omega
  | fuel + 1, k, hle, hf => by
    rw [inp_str_nowhite.skipZeros]
    by_cases hk : k < s.length
    · rw [drop_eq_cons s k hk]
      by_cases h0 : s[k] = 48
      · have hc : ((St s k).1 == some 48) = true := by simp [St, List.getElem?_eq_getElem hk, h0]
        rw [if_pos hc, show (St s k).2.1 = posOf s k from rfl, getc_St s k hk]
        have hn : (St s k).2.2 + 1 = (St s (k + 1)).2.2 := by simp [St]
        rw [hn, skipZeros_eq s fuel (k + 1) (by omega) (by omega),
          List.takeWhile_cons_of_pos (by simp [h0])]
        simp only [List.length_cons]
        congr 1; omega
      · have hc : ¬ ((St s k).1 == some 48) = true := by simp [St, List.getElem?_eq_getElem hk, h0]
        rw [if_neg hc, List.takeWhile_cons_of_neg (by simp [h0])]
        simp
    · have hc : ¬ ((St s k).1 == some 48) = true := by simp [St, List.getElem?_eq_none (by omega : s.length ≤ k)]
      rw [if_neg hc, List.drop_eq_nil_of_le (by omega)]
      simp

/-- the digit loop: the longest run of characters whose table value is below the base -/
theorem inpDigits_eq (off base : Nat) (s : List Nat) : ∀ (fuel pos : Nat) (acc : List Nat), pos ≤ s.length →
    s.length - pos < fuel →
    inpDigits off base s fuel pos acc =
      (acc.reverse ++ ((s.drop pos).takeWhile (fun c => decide (digitValue off c < base))).map (digitValue off),
       pos + ((s.drop pos).takeWhile (fun c => decide (digitValue off c < base))).length)
  | 0, pos, _, _, h => by omega
  | fuel + 1, pos, acc, hle, hf => by
    rw [inpDigits]
    by_cases hk : pos < s.length
    · rw [List.getElem?_eq_getElem hk, drop_eq_cons s pos hk]
      simp only []
      by_cases hd : digitValue off s[pos] ≥ base
      · rw [if_pos hd, List.takeWhile_cons_of_neg (by simpa using hd)]
        simp
      · rw [if_neg hd, List.takeWhile_cons_of_pos (by simpa using hd),
          inpDigits_eq off base s fuel (pos + 1) _ (by omega) (by omega)]
        simp only [List.reverse_cons, List.map_cons, List.length_cons, List.append_assoc, List.singleton_append]
        congr 1; omega
    · rw [List.getElem?_eq_none (by omega), List.drop_eq_nil_of_le (by omega)]
      simp

/-! ### mpz_inp_str_nowhite in terms of character indices -/

theorem some45_lt {s : List Nat} {k : Nat} (h : (s[k]? == some 45) = true) : k < s.length := by
  by_contra hcon
  rw [List.getElem?_eq_none (by omega)] at h; simp at h

/-- `if (c == '-') { negative = 1; c = getc (stream); nread++; }` -/
theorem sign_eq (s : List Nat) (k : Nat) :
    (if (St s k).1 == some 45 then (true, (getc s (St s k).2.1).1, (getc s (St s k).2.1).2, (St s k).2.2 + 1)
      else (false, (St s k).1, (St s k).2.1, (St s k).2.2)) =
    (s[k]? == some 45, (St s (if s[k]? == some 45 then k + 1 else k)).1,
      (St s (if s[k]? == some 45 then k + 1 else k)).2.1, (St s (if s[k]? == some 45 then k + 1 else k)).2.2) := by
  have e : (St s k).1 = s[k]? := rfl
  rw [e]
  by_cases h : (s[k]? == some 45) = true
  · rw [if_pos h, if_pos h, show (St s k).2.1 = posOf s k from rfl, getc_St s k (some45_lt h), h]
    rfl
  · rw [if_neg h, if_neg h]
    simp only [Bool.not_eq_true] at h
    rw [h]; rfl

/-- base and index of the first character after the base-0 prefix -/
def prefK (base : Int) (s : List Nat) (k1 : Nat) : Nat × Nat :=
  if base = 0 then
    if s[k1]? == some 48 then
      if s[k1 + 1]? == some 120 || s[k1 + 1]? == some 88 then (16, k1 + 2)
      else if s[k1 + 1]? == some 98 || s[k1 + 1]? == some 66 then (2, k1 + 2)
      else (8, k1 + 1)
    else (10, k1)
  else (base.toNat, k1)

theorem some_lt {s : List Nat} {k c : Nat} (h : s[k]? = some c) : k < s.length := by
  by_contra hcon
  rw [List.getElem?_eq_none (by omega)] at h; simp at h

/-- the base-0 prefix detection (inp_str.c:73-96) -/
theorem prefix_eq (base : Int) (s : List Nat) (k1 c0 : Nat) (hc0 : s[k1]? = some c0) :
    (if base = 0 then
        if c0 == 48 then
          let (c1, pos1) := getc s (St s k1).2.1
          if c1 == some 120 || c1 == some 88 then (16, (getc s pos1).1, (getc s pos1).2, (St s k1).2.2 + 2)
          else if c1 == some 98 || c1 == some 66 then (2, (getc s pos1).1, (getc s pos1).2, (St s k1).2.2 + 2)
          else (8, c1, pos1, (St s k1).2.2 + 1)
        else (10, some c0, (St s k1).2.1, (St s k1).2.2)
      else (base.toNat, some c0, (St s k1).2.1, (St s k1).2.2) : Nat × Option Nat × Nat × Nat) =
    ((prefK base s k1).1, (St s (prefK base s k1).2).1, (St s (prefK base s k1).2).2.1, (St s (prefK base s k1).2).2.2) := by
  have hk1 := some_lt hc0
  have hst : (some c0, (St s k1).2.1, (St s k1).2.2) = St s k1 := by simp [St, hc0]
  unfold prefK
  by_cases hb : base = 0
  · rw [if_pos hb, if_pos hb, hc0]
    by_cases h48 : c0 = 48
    · subst h48
      simp only [beq_self_eq_true, if_true]
      rw [show (St s k1).2.1 = posOf s k1 from rfl, getc_St s k1 hk1]
      simp only []
      have e1 : (St s (k1 + 1)).1 = s[k1 + 1]? := rfl
      rw [e1]
      by_cases hx : (s[k1 + 1]? == some 120 || s[k1 + 1]? == some 88) = true
      · have hk2 : k1 + 1 < s.length := by
          by_contra hcon
          rw [List.getElem?_eq_none (by omega)] at hx; simp at hx
        rw [if_pos hx, if_pos hx, show (St s (k1 + 1)).2.1 = posOf s (k1 + 1) from rfl, getc_St s (k1 + 1) hk2]
        rfl
      · rw [if_neg hx, if_neg hx]
        by_cases hbb : (s[k1 + 1]? == some 98 || s[k1 + 1]? == some 66) = true
        · have hk2 : k1 + 1 < s.length := by
            by_contra hcon
            rw [List.getElem?_eq_none (by omega)] at hbb; simp at hbb
          rw [if_pos hbb, if_pos hbb, show (St s (k1 + 1)).2.1 = posOf s (k1 + 1) from rfl, getc_St s (k1 + 1) hk2]
          rfl
        · rw [if_neg hbb, if_neg hbb]
          rfl
    · have : (c0 == 48) = false := by simpa using h48
      have h2 : (some c0 == some 48) = false := by simpa using h48
      rw [this, h2]
      simp only [Bool.false_eq_true, if_false]
      rw [← hst]
  · rw [if_neg hb, if_neg hb]
    simp only []
    rw [← hst]

/-- the successful part of mpz_inp_str_nowhite: `k1` = index of the first character after the sign -/
def nowhiteBody (base : Int) (s : List Nat) (neg : Bool) (k1 : Nat) : InpResult :=
  let off := if base > 36 then 224 else 0
  let b := (prefK base s k1).1
  let k2 := (prefK base s k1).2
  let k3 := k2 + ((s.drop k2).takeWhile (· == 48)).length
  let run := (s.drop k3).takeWhile (fun c => decide (digitValue off c < b))
  let ds := run.map (digitValue off)
  let value : Int := if ds.length == 0 then 0 else
    let v := Int.ofNat (val (mpn_set_str b ds))
    if neg then -v else v
  ⟨k3 + run.length, some value, k3 + run.length⟩

/-- mpz_inp_str_nowhite written with character indices: `k` = index of the character `c` -/
def nowhiteK (base : Int) (s : List Nat) (k : Nat) : InpResult :=
  match s[(if s[k]? == some 45 then k + 1 else k)]? with
  | none => ⟨0, none, posOf s (if s[k]? == some 45 then k + 1 else k)⟩
  | some c0 =>
    if (digitValue (if base > 36 then 224 else 0) c0 : Int) ≥ (if base = 0 then 10 else base) then
      ⟨0, none, posOf s (if s[k]? == some 45 then k + 1 else k)⟩
    else nowhiteBody base s (s[k]? == some 45) (if s[k]? == some 45 then k + 1 else k)

theorem prefK_le (base : Int) (s : List Nat) (k1 : Nat) (hk : k1 < s.length) : (prefK base s k1).2 ≤ s.length := by
  unfold prefK
  split
  · split
    · split
      · rename_i h
        have : k1 + 1 < s.length := by
          by_contra hcon
          rw [List.getElem?_eq_none (by omega)] at h; simp at h
        simp only; omega
      · split
        · rename_i h
          have : k1 + 1 < s.length := by
            by_contra hcon
            rw [List.getElem?_eq_none (by omega)] at h; simp at h
          simp only; omega
        · simp only; omega
    · simp only; omega
  · simp only; omega

theorem nowhite_eq (base : Int) (hb62 : base ≤ 62) (s : List Nat) (k : Nat) (_hk : k ≤ s.length) :
    inp_str_nowhite base s (St s k).1 (St s k).2.1 (St s k).2.2 = nowhiteK base s k := by
  unfold inp_str_nowhite
  simp only [show ¬ base > 62 by omega, if_false]
  rw [sign_eq]
  unfold nowhiteK
  generalize hk1 : (if (s[k]? == some 45) = true then k + 1 else k) = k1
  have e1 : (St s k1).1 = s[k1]? := rfl
  rw [e1]
  cases hc : s[k1]? with
  | none => rfl
  | some c0 =>
    show (if _ then _ else _) = (if _ then _ else _)
    by_cases hcond : (digitValue (if base > 36 then 224 else 0) c0 : Int) ≥ (if base = 0 then 10 else base)
    · rw [if_pos hcond, if_pos hcond]; rfl
    · rw [if_neg hcond, if_neg hcond, prefix_eq base s k1 c0 hc]
      unfold nowhiteBody
      have hk1l := some_lt hc
      have hk2 := prefK_le base s k1 hk1l
      generalize (prefK base s k1).2 = k2 at *
      generalize (prefK base s k1).1 = b at *
      rw [skipZeros_eq s (s.length + 1) k2 hk2 (by omega)]
      generalize hk3 : k2 + ((s.drop k2).takeWhile (· == 48)).length = k3 at *
      have hk3l : k3 ≤ s.length := by
        have : ((s.drop k2).takeWhile (· == 48)).length ≤ (s.drop k2).length := (List.takeWhile_sublist _).length_le
        rw [List.length_drop] at this; omega
      have hstart : inpStart (St s k3).1 (St s k3).2.1 = k3 := by
        unfold inpStart St posOf
        by_cases h : k3 < s.length
        · rw [List.getElem?_eq_getElem h, if_pos h]; simp
        · rw [List.getElem?_eq_none (by omega), if_neg h]
      rw [hstart, inpDigits_eq _ b s (s.length + 1) k3 [] hk3l (by omega)]
      simp only [List.reverse_nil, List.nil_append, List.length_map]
      have hn : (St s k3).2.2 = k3 + 1 := rfl
      rw [hn, Nat.add_right_comm, Nat.add_sub_cancel]
      subst hk3
      rfl

end Mpir.Radix
