/- Lemmas about the parameter selection of mpn_mul_fft_main (Mpir/Model/FftParams.lean). -/
import Mpir.Model.FftParams
import Mathlib.Tactic.Ring
import Mathlib.Tactic.Linarith
import Mathlib.Tactic.IntervalCases
import Mathlib.Tactic.NormNum
namespace Mpir.FftParams

/-- mul_fft_main.c:55-68 — whatever the first loop returns satisfies its exit condition. -/
theorem findInit_spec (b1 b2 : Nat) : ∀ (fuel depth w d' w' : Nat), 6 ≤ depth → (w = 1 ∨ w = 2) →
    findInit b1 b2 fuel depth w = some (d', w') →
    6 ≤ d' ∧ (w' = 1 ∨ w' = 2) ∧ trunc b1 b2 d' w' ≤ 4 * 2 ^ d' := by
  intro fuel
  induction fuel with
  | zero => intro depth w d' w' _ _ h; simp [findInit] at h
  | succ f ih =>
    intro depth w d' w' hd hw h
    unfold findInit at h
    by_cases hc : trunc b1 b2 depth w > 4 * 2 ^ depth
    · simp only [hc, if_true] at h
      by_cases h1 : w = 1
      · simp only [h1, if_true] at h
        exact ih depth 2 d' w' hd (Or.inr rfl) h
      · simp only [h1, if_false] at h
        exact ih (depth + 1) 1 d' w' (by omega) (Or.inl rfl) h
    · simp only [hc, if_false, Option.some.injEq, Prod.mk.injEq] at h
      obtain ⟨rfl, rfl⟩ := h
      exact ⟨hd, hw, by omega⟩

/-- mul_fft_main.c:83-89 — the "smaller w" loop keeps w a multiple of wadj, at least wadj, and only ever
    returns a w whose coefficient count was tested (or the w it started from). -/
theorem smallerW_spec (b1 b2 depth wadj : Nat) (hwa : 0 < wadj) : ∀ (fuel w : Nat), wadj ∣ w → wadj ≤ w →
    trunc b1 b2 depth w ≤ 4 * 2 ^ depth →
    wadj ∣ smallerW b1 b2 depth wadj fuel w ∧ wadj ≤ smallerW b1 b2 depth wadj fuel w ∧
    trunc b1 b2 depth (smallerW b1 b2 depth wadj fuel w) ≤ 4 * 2 ^ depth := by
  intro fuel
  induction fuel with
  | zero => intro w h1 h2 h3; simp only [smallerW]; exact ⟨h1, h2, h3⟩
  | succ f ih =>
    intro w h1 h2 h3
    unfold smallerW
    simp only []
    by_cases hc : trunc b1 b2 depth (w - wadj) ≤ 4 * 2 ^ depth ∧ w - wadj > wadj
    · simp only [hc, and_self, if_true]
      exact ih (w - wadj) (Nat.dvd_sub h1 (dvd_refl _)) (by omega) hc.1
    · simp only [hc, if_false]
      have : w - wadj + wadj = w := by omega
      rw [this]; exact ⟨h1, h2, h3⟩

/-- the conditions the transforms need, from: 64 | n*w, n*w large enough, coefficient count fits -/
theorem sound_of (n1 n2 D r : Nat) (mfa : Bool) (h64 : 64 ∣ 2 ^ D * r) (hbig : D + 3 ≤ 2 ^ D * r)
    (htr : trunc (n1 * limbBits) (n2 * limbBits) D r ≤ 4 * 2 ^ D) (hm : mfa = true → 1 ≤ D) :
    Sound n1 n2 ⟨mfa, D, r⟩ := by
  unfold Sound
  simp only [limbBits, bitsOf] at *
  generalize 2 ^ D * r = X at *
  refine ⟨h64, ?_, ?_, htr, ?_, hm⟩ <;> omega

/-- rounding argument for the MFA adjustment (mul_fft_main.c:95-99): if at most 3n coefficients are needed at
    (depth, w) then at most 4(n/2) are needed at (depth-1, 3w). -/
theorem mfa_fit (m w d X Y c1 c2 q1 q2 p1 p2 : ℕ) (hw : w = 1 ∨ w = 2) (hd : 11 ≤ d)
    (hX : 2 * X + (d + 1) ≤ 2 * m * w) (hY : 3 * m * w ≤ 2 * Y + d + 1)
    (a1 : c1 + 1 ≤ (q1 + 1) * X) (a2 : c2 + 1 ≤ (q2 + 1) * X) (e1 : p1 * Y ≤ c1) (e2 : p2 * Y ≤ c2)
    (hq : q1 + q2 + 1 ≤ 6 * m) : p1 + p2 + 1 ≤ 4 * m := by
  by_contra hc
  have h4 : 4 * m ≤ p1 + p2 := by omega
  have s1 : (p1 + p2) * Y ≤ (q1 + q2 + 2) * X - 2 := by
    have : (p1 + p2) * Y + 2 ≤ (q1 + q2 + 2) * X := by nlinarith
    omega
  have s2 : (q1 + q2 + 2) * X ≤ (6 * m + 1) * X := Nat.mul_le_mul_right X (by omega)
  have s3 : 4 * m * Y ≤ (p1 + p2) * Y := Nat.mul_le_mul_right Y h4
  rcases hw with rfl | rfl
  · nlinarith
  · nlinarith

theorem pow_ge (d : Nat) : d + 1 ≤ 2 ^ d := Nat.lt_two_pow_self

/-- mul_fft_main.c:74-77 — the FFT_TAB adjustment (depth -= off, w *= 4^off) never needs more coefficients
    than the shorter transform has: checked for every (depth, w) the first loop can deliver below depth 11 and
    every offset 0..4 (50 cases, each a linear arithmetic fact about floor divisions by literals). -/
theorem adjust_fits (b1 b2 depth w off : Nat) (hd6 : 6 ≤ depth) (hd : depth < 11) (hw : w = 1 ∨ w = 2) (ho : off ≤ 4)
    (h : trunc b1 b2 depth w ≤ 4 * 2 ^ depth) :
    trunc b1 b2 (depth - off) (w * 2 ^ (2 * off)) ≤ 4 * 2 ^ (depth - off) := by
  unfold trunc coeffs bitsOf at *
  interval_cases depth <;> rcases hw with rfl | rfl <;> interval_cases off <;> norm_num at h ⊢ <;> omega

/-- the w finally passed on (mul_fft_main.c:81-90) -/
theorem pick_spec (b1 b2 D wadj W : Nat) (hwa : 0 < wadj) (hdv : wadj ∣ W) (hle : wadj ≤ W)
    (ht : trunc b1 b2 D W ≤ 4 * 2 ^ D) :
    wadj ∣ (if W > wadj then smallerW b1 b2 D wadj W W else W) ∧
    wadj ≤ (if W > wadj then smallerW b1 b2 D wadj W W else W) ∧
    trunc b1 b2 D (if W > wadj then smallerW b1 b2 D wadj W W else W) ≤ 4 * 2 ^ D := by
  split
  · exact smallerW_spec b1 b2 D wadj hwa W W hdv hle ht
  · exact ⟨hdv, hle, ht⟩

/-- depth < 11 branch of mul_fft_main.c:70-92 -/
theorem adjust_lt11 (tab : List (List Int)) (n1 n2 depth w : Nat) (hd6 : 6 ≤ depth) (hd : depth < 11)
    (hw : w = 1 ∨ w = 2) (hoff : tabGet tab depth w ≤ 4)
    (htr : trunc (n1 * limbBits) (n2 * limbBits) depth w ≤ 4 * 2 ^ depth) :
    Sound n1 n2 (adjust tab (n1 * limbBits) (n2 * limbBits) depth w) := by
  unfold adjust
  simp only [hd, if_true]
  generalize tabGet tab depth w = off at *
  have hfit := adjust_fits _ _ depth w off hd6 hd hw hoff htr
  generalize hD : depth - off = D at *
  generalize hW : w * 2 ^ (2 * off) = W at *
  have hwadj_pos : 0 < (if D < 6 then 2 ^ (6 - D) else 1) := by split <;> positivity
  have hdv : (if D < 6 then 2 ^ (6 - D) else 1) ∣ W := by
    split
    · rw [← hW]; exact Dvd.dvd.mul_left (Nat.pow_dvd_pow 2 (by omega)) w
    · exact one_dvd _
  have hWpos : 0 < W := by rw [← hW]; rcases hw with rfl | rfl <;> positivity
  have hle : (if D < 6 then 2 ^ (6 - D) else 1) ≤ W := Nat.le_of_dvd hWpos hdv
  obtain ⟨p1, p2, p3⟩ := pick_spec _ _ D _ W hwadj_pos hdv hle hfit
  generalize (if W > (if D < 6 then 2 ^ (6 - D) else 1) then smallerW (n1 * limbBits) (n2 * limbBits) D (if D < 6 then 2 ^ (6 - D) else 1) W W else W) = r at *
  have h64w : 64 ∣ 2 ^ D * (if D < 6 then 2 ^ (6 - D) else 1) := by
    split
    · rw [← pow_add, show D + (6 - D) = 6 by omega]; norm_num
    · rw [mul_one]; exact Nat.pow_dvd_pow 2 (show 6 ≤ D by omega)
  have h64 : 64 ∣ 2 ^ D * r := dvd_trans h64w (Nat.mul_dvd_mul_left _ p1)
  have hpos : 0 < 2 ^ D * r := Nat.mul_pos (by positivity) (by omega)
  have hge : 64 ≤ 2 ^ D * r := Nat.le_of_dvd hpos h64
  exact sound_of n1 n2 D r false h64 (by omega) p3 (by simp)

/-- depth ≥ 11 branch of mul_fft_main.c:93-102 (MFA), including the depth--, w *= 3 adjustment -/
theorem adjust_ge11 (tab : List (List Int)) (n1 n2 depth w : Nat) (hn1 : 1 ≤ n1) (hn2 : 1 ≤ n2) (hd : 11 ≤ depth)
    (hw : w = 1 ∨ w = 2)
    (htr : trunc (n1 * limbBits) (n2 * limbBits) depth w ≤ 4 * 2 ^ depth) :
    Sound n1 n2 (adjust tab (n1 * limbBits) (n2 * limbBits) depth w) := by
  unfold adjust
  have hnd : ¬ depth < 11 := by omega
  simp only [hnd, if_false]
  have hp := pow_ge depth
  have h64 : 64 ∣ 2 ^ depth := Nat.pow_dvd_pow 2 (show 6 ≤ depth by omega)
  have hwpos : 0 < w := by rcases hw with rfl | rfl <;> norm_num
  split
  · -- (depth - 1, 3 w)
    rename_i h3
    obtain ⟨e, rfl⟩ : ∃ e, depth = e + 1 := ⟨depth - 1, by omega⟩
    simp only [Nat.add_sub_cancel]
    have hpe := pow_ge e
    have h64e : 64 ∣ 2 ^ e := Nat.pow_dvd_pow 2 (show 6 ≤ e by omega)
    have hm1024 : 1024 ≤ 2 ^ e := by
      calc 1024 = 2 ^ 10 := by norm_num
        _ ≤ 2 ^ e := Nat.pow_le_pow_right (by norm_num) (by omega)
    apply sound_of
    · exact Dvd.dvd.mul_right h64e _
    · nlinarith
    · -- the rounding argument
      unfold trunc coeffs at h3 ⊢
      have hX0 : 0 < bitsOf (e + 1) w := by
        unfold bitsOf; rw [pow_succ]
        rcases hw with rfl | rfl <;> (generalize 2 ^ e = N at *; omega)
      have hY0 : 0 < bitsOf e (w * 3) := by
        unfold bitsOf
        rcases hw with rfl | rfl <;> (generalize 2 ^ e = N at *; omega)
      have hX : 2 * bitsOf (e + 1) w + (e + 1 + 1) ≤ 2 * 2 ^ e * w := by
        unfold bitsOf; rw [pow_succ]
        rcases hw with rfl | rfl <;> (generalize 2 ^ e = N at *; omega)
      have hY : 3 * 2 ^ e * w ≤ 2 * bitsOf e (w * 3) + (e + 1) + 1 := by
        unfold bitsOf
        rcases hw with rfl | rfl <;> (generalize 2 ^ e = N at *; omega)
      generalize bitsOf (e + 1) w = X at *
      generalize bitsOf e (w * 3) = Y at *
      have c1 : 1 ≤ n1 * limbBits := by unfold limbBits; omega
      have c2 : 1 ≤ n2 * limbBits := by unfold limbBits; omega
      generalize n1 * limbBits = B1 at *
      generalize n2 * limbBits = B2 at *
      have a1 : (B1 - 1) + 1 ≤ ((B1 - 1) / X + 1) * X := by
        have := Nat.lt_succ_iff.mp (Nat.lt_succ_of_lt (Nat.lt_div_mul_add hX0 (a := B1 - 1)))
        nlinarith [Nat.div_add_mod (B1 - 1) X, Nat.mod_lt (B1 - 1) hX0]
      have a2 : (B2 - 1) + 1 ≤ ((B2 - 1) / X + 1) * X := by
        nlinarith [Nat.div_add_mod (B2 - 1) X, Nat.mod_lt (B2 - 1) hX0]
      have e1 : (B1 - 1) / Y * Y ≤ B1 - 1 := Nat.div_mul_le_self _ _
      have e2 : (B2 - 1) / Y * Y ≤ B2 - 1 := Nat.div_mul_le_self _ _
      have hq : (B1 - 1) / X + (B2 - 1) / X + 1 ≤ 6 * 2 ^ e := by
        rw [pow_succ] at h3; omega
      have := mfa_fit (2 ^ e) w (e + 1) X Y (B1 - 1) (B2 - 1) _ _ _ _ hw hd hX hY a1 a2 e1 e2 hq
      omega
    · intro _; omega
  · -- (depth, w) unchanged
    have hp2 : depth + 3 ≤ 2 ^ depth := by
      obtain ⟨e, rfl⟩ : ∃ e, depth = e + 1 := ⟨depth - 1, by omega⟩
      have := pow_ge e
      rw [pow_succ]; omega
    apply sound_of
    · exact Dvd.dvd.mul_right h64 _
    · nlinarith
    · exact htr
    · intro _; omega

/-! ### termination of the first loop -/

theorem two_d_le (d : Nat) (hd : 4 ≤ d) : 2 * d + 4 ≤ 2 ^ d := by
  induction d with
  | zero => omega
  | succ e ih =>
    by_cases h : e = 3
    · subst h; norm_num
    · have := ih (by omega); rw [pow_succ]; omega

/-- the first loop's exit test holds at (d, 1) as soon as (2^d)^2 ≥ total bits -/
theorem stop_at (d b1 b2 : Nat) (hd : 6 ≤ d) (h1 : 1 ≤ b1) (h2 : 1 ≤ b2) (hb : b1 + b2 ≤ (2 ^ d) ^ 2) :
    trunc b1 b2 d 1 ≤ 4 * 2 ^ d := by
  unfold trunc coeffs
  have hn := two_d_le d (by omega)
  have hbits : 2 ^ d ≤ 4 * bitsOf d 1 := by unfold bitsOf; omega
  have hpos : 0 < bitsOf d 1 := by
    have : 64 ≤ 2 ^ d := by
      calc 64 = 2 ^ 6 := by norm_num
        _ ≤ 2 ^ d := Nat.pow_le_pow_right (by norm_num) hd
    omega
  generalize bitsOf d 1 = X at *
  generalize 2 ^ d = n at *
  have e1 : (b1 - 1) / X * X ≤ b1 - 1 := Nat.div_mul_le_self _ _
  have e2 : (b2 - 1) / X * X ≤ b2 - 1 := Nat.div_mul_le_self _ _
  generalize (b1 - 1) / X = q1 at *
  generalize (b2 - 1) / X = q2 at *
  have e1' : q1 * X + 1 ≤ b1 := by omega
  have e2' : q2 * X + 1 ≤ b2 := by omega
  have k1 : n ^ 2 ≤ 4 * n * X := by nlinarith [Nat.mul_le_mul_left n hbits]
  have : (q1 + q2) * X < 4 * n * X := by nlinarith
  have := Nat.lt_of_mul_lt_mul_right this
  omega

theorem findInit_some (b1 b2 D : Nat) (hstop : trunc b1 b2 D 1 ≤ 4 * 2 ^ D) :
    ∀ (fuel d w : Nat), d ≤ D → ((w = 1 ∧ 2 * (D - d) + 1 ≤ fuel) ∨ (w = 2 ∧ d < D ∧ 2 * (D - d) ≤ fuel)) →
      findInit b1 b2 fuel d w ≠ none := by
  intro fuel
  induction fuel with
  | zero => intro d w _ h; omega
  | succ f ih =>
    intro d w hd h
    unfold findInit
    by_cases hc : trunc b1 b2 d w > 4 * 2 ^ d
    · simp only [hc, if_true]
      rcases h with ⟨rfl, hf⟩ | ⟨rfl, hlt, hf⟩
      · simp only [if_true]
        have : d < D := by
          by_contra hx
          have : d = D := by omega
          subst this; omega
        exact ih d 2 hd (Or.inr ⟨rfl, this, by omega⟩)
      · simp only [show ¬ (2 = 1) by decide, if_false]
        exact ih (d + 1) 1 (by omega) (Or.inl ⟨rfl, by omega⟩)
    · simp [hc]

/-- total bits fit under (2^D)^2 for D = log2(n1+n2)/2 + 6 -/
theorem depth_bound (n1 n2 : Nat) :
    n1 * limbBits + n2 * limbBits ≤ (2 ^ (Nat.log2 (n1 + n2) / 2 + 6)) ^ 2 := by
  have hN : n1 + n2 < 2 ^ (Nat.log2 (n1 + n2) + 1) := Nat.lt_log2_self
  generalize Nat.log2 (n1 + n2) = L at *
  have : (2 ^ (L / 2 + 6)) ^ 2 = 2 ^ (2 * (L / 2) + 12) := by rw [← pow_mul]; congr 1; ring
  rw [this]
  have h2 : 2 ^ (L + 7) ≤ 2 ^ (2 * (L / 2) + 12) := Nat.pow_le_pow_right (by norm_num) (by omega)
  have h3 : 2 ^ (L + 7) = 64 * 2 ^ (L + 1) := by rw [show L + 7 = (L + 1) + 6 by omega, pow_add]; norm_num; ring
  unfold limbBits
  omega

/-- mul_fft_main.c:55-68 terminates: the model's fuel is sufficient, so `fftParams` never returns `none`. -/
theorem fftParams_total (tab : List (List Int)) (n1 n2 : Nat) (hn1 : 1 ≤ n1) (hn2 : 1 ≤ n2) :
    fftParams tab n1 n2 ≠ none := by
  unfold fftParams
  simp only []
  have hb := depth_bound n1 n2
  have hstop := stop_at (Nat.log2 (n1 + n2) / 2 + 6) (n1 * limbBits) (n2 * limbBits) (by omega)
    (by unfold limbBits; omega) (by unfold limbBits; omega) hb
  have := findInit_some _ _ _ hstop (initFuel n1 n2) 6 1 (by omega) (Or.inl ⟨rfl, by unfold initFuel; omega⟩)
  split
  · contradiction
  · simp
end Mpir.FftParams
