/-
  C02 / mpn_tdiv_q, first branch (tdiv_q.c:113-193, `qn + FUDGE >= dn`): the whole dividend is shifted and divided
  by an exact callee.  Also: the dispatch stays inside every callee's ASSERTed domain, and the `qh != 0` fill of
  tdiv_q.c:154-163 is dead code.
-/
import MpirProofs.Lemmas.TdivQ
namespace Mpir.TdivQ
open Mpir Mpir.DivWord

/-- the shifted divisor of tdiv_q.c:128: no bit is shifted out, the dn limbs hold D·2^cnt, and it is normalised -/
theorem lshift_divisor (d : List Nat) (hd : Limbs d) (hdn : 1 ≤ d.length)
    (htop : d.getD (d.length - 1) 0 ≠ 0) :
    val (lshift d (count_leading_zeros (d.getD (d.length - 1) 0))).1
      = val d * 2 ^ count_leading_zeros (d.getD (d.length - 1) 0) ∧
    (lshift d (count_leading_zeros (d.getD (d.length - 1) 0))).1.length = d.length ∧
    Limbs (lshift d (count_leading_zeros (d.getD (d.length - 1) 0))).1 ∧
    B ^ d.length ≤ 2 * (val d * 2 ^ count_leading_zeros (d.getD (d.length - 1) 0)) := by
  have hdhB := SbDiv.limb_getD hd (d.length - 1)
  obtain ⟨hc63, hcc, hnorm, hfit⟩ := clz_facts _ htop hdhB
  obtain ⟨hv, _, hl, hlen⟩ := lshift_val d (count_leading_zeros (d.getD (d.length - 1) 0)) (by omega) hd
  obtain ⟨hb1, hb2⟩ := top_bracket d hd hdn
  set dh := d.getD (d.length - 1) 0
  set c := 2 ^ count_leading_zeros dh
  have hpow : B ^ d.length = B ^ (d.length - 1) * B := by
    rw [← pow_succ]; congr 1; omega
  -- D·c < B^dn
  have hlt : val d * c < B ^ d.length := by
    calc val d * c < B ^ (d.length - 1) * (dh + 1) * c := by
          apply Nat.mul_lt_mul_of_pos_right hb2
          rcases Nat.eq_zero_or_pos c with h | h
          · rw [h, Nat.mul_zero] at hfit; rw [h, Nat.mul_zero] at hnorm; have := B_pos; omega
          · exact h
      _ = B ^ (d.length - 1) * ((dh + 1) * c) := by ring
      _ ≤ B ^ (d.length - 1) * B := Nat.mul_le_mul_left _ hfit
      _ = B ^ d.length := hpow.symm
  have hout : (lshift d (count_leading_zeros dh)).2 = 0 := by
    rcases Nat.eq_zero_or_pos (lshift d (count_leading_zeros dh)).2 with h | h
    · exact h
    · have : B ^ d.length * 1 ≤ B ^ d.length * (lshift d (count_leading_zeros dh)).2 := Nat.mul_le_mul_left _ h
      omega
  rw [hout, Nat.mul_zero, Nat.add_zero] at hv
  refine ⟨hv, hlen, hl, ?_⟩
  calc B ^ d.length = B ^ (d.length - 1) * B := hpow
    _ ≤ B ^ (d.length - 1) * (2 * (dh * c)) := Nat.mul_le_mul_left _ hnorm
    _ = 2 * (B ^ (d.length - 1) * dh * c) := by ring
    _ ≤ 2 * (val d * c) := Nat.mul_le_mul_left _ (Nat.mul_le_mul_right _ hb1)

/-- first branch: the limbs stored are exactly the nn-dn+1 limbs of ⌊N/D⌋ -/
theorem branch1_spec (T : Thresholds) (n d : List Nat) (hn : Limbs n) (hd : Limbs d) (hdn : 1 ≤ d.length)
    (hnn : d.length ≤ n.length) (htop : d.getD (d.length - 1) 0 ≠ 0) :
    (branch1 T n d).1 = toLimbs (n.length - d.length + 1) (val n / val d) := by
  have hdhB := SbDiv.limb_getD hd (d.length - 1)
  have hfit := quot_fits n d hn hd hdn hnn htop
  have hQ : val n / val d < B ^ (n.length - d.length + 1) := Nat.div_lt_of_lt_mul hfit
  unfold branch1
  simp only []
  rw [highbit_clear _ hdhB]
  by_cases hu : d.getD (d.length - 1) 0 < B / 2
  · -- unnormalised divisor
    rw [if_pos (by simpa using hu)]
    obtain ⟨hc63, hcc, _, _⟩ := clz_facts _ htop hdhB
    obtain ⟨dv, dl, dL, _⟩ := lshift_divisor d hd hdn htop
    obtain ⟨nv, nl, nL⟩ := lshift_ext n (count_leading_zeros (d.getD (d.length - 1) 0)) (by omega) hn
    have hc0 : 0 < 2 ^ count_leading_zeros (d.getD (d.length - 1) 0) := by positivity
    set cnt := count_leading_zeros (d.getD (d.length - 1) 0) with hcnt
    set cy := (lshift n cnt).2 with hcy
    set npx := List.take (n.length + if cy ≠ 0 then 1 else 0) ((lshift n cnt).1 ++ [cy]) with hnpx
    set dpx := (lshift d cnt).1 with hdpx
    have key := call_store_spec (dispatchDivQ T d.length (n.length + if cy ≠ 0 then 1 else 0) n.length)
      0 npx dpx cy (n.length - d.length) (val n / val d)
      (by rw [nl, dl]; split <;> omega)
      (by rw [nv, dv, Nat.mul_div_mul_right _ _ hc0])
      hQ (fun _ => by rw [Nat.add_zero]; exact hQ)
    obtain ⟨k1, k2, k3, k4, _⟩ := key
    dsimp only
    exact eq_toLimbs _ _ _ k2 k1 (by omega)
  · -- normalised divisor
    rw [if_neg (by simpa using hu)]
    have key := call_store_spec (dispatchDivQ T d.length n.length n.length) 0 n d 0 (n.length - d.length)
      (val n / val d) (by simp) rfl hQ (fun _ => by rw [Nat.add_zero]; exact hQ)
    obtain ⟨k1, k2, k3, k4, _⟩ := key
    have hs : storeQh 0 (call (dispatchDivQ T d.length n.length n.length) 0 n d).1
        (call (dispatchDivQ T d.length n.length n.length) 0 n d).2
        = (call (dispatchDivQ T d.length n.length n.length) 0 n d).1 ++
          [(call (dispatchDivQ T d.length n.length n.length) 0 n d).2] := by simp [storeQh]
    rw [hs] at k1 k2 k3 k4
    dsimp only
    exact eq_toLimbs _ _ _ k2 k1 (by omega)

/-- tdiv_q.c:154-163 is unreachable: when the shift produced an extra limb (cy ≠ 0) the exact quotient of the
    nn+1-limb dividend still fits nn+1-dn limbs (N < D·B^(nn-dn+1)), so an exact callee returns qh = 0.
    (The comment there, "mpn_*_divappr_q returned B^n", is about the second branch; no divappr function is called
    in this one.) -/
theorem branch1_qh_zero (c : Callee) (n d : List Nat) (hn : Limbs n) (hd : Limbs d) (hdn : 1 ≤ d.length)
    (hnn : d.length ≤ n.length) (htop : d.getD (d.length - 1) 0 ≠ 0)
    (_hcy : (lshift n (count_leading_zeros (d.getD (d.length - 1) 0))).2 ≠ 0) :
    (call c 0 ((lshift n (count_leading_zeros (d.getD (d.length - 1) 0))).1 ++
        [(lshift n (count_leading_zeros (d.getD (d.length - 1) 0))).2])
      (lshift d (count_leading_zeros (d.getD (d.length - 1) 0))).1).2 = 0 := by
  have hdhB := SbDiv.limb_getD hd (d.length - 1)
  have hfit := quot_fits n d hn hd hdn hnn htop
  have hQ : val n / val d < B ^ (n.length - d.length + 1) := Nat.div_lt_of_lt_mul hfit
  obtain ⟨hc63, _, _, _⟩ := clz_facts _ htop hdhB
  obtain ⟨dv, dl, _, _⟩ := lshift_divisor d hd hdn htop
  obtain ⟨nv, _, _, nl⟩ := lshift_val n (count_leading_zeros (d.getD (d.length - 1) 0)) (by omega) hn
  have hc0 : 0 < 2 ^ count_leading_zeros (d.getD (d.length - 1) 0) := by positivity
  simp only [call, quotOracle, ite_self, Nat.add_zero, SbDiv.val_top1, List.length_append, List.length_cons,
    List.length_nil, nl, dl, nv, dv, Nat.mul_div_mul_right _ _ hc0]
  apply Nat.div_eq_of_lt
  have : n.length + (0 + 1) - d.length = n.length - d.length + 1 := by omega
  rw [this]; exact hQ

/-! ### the dispatch stays inside the callees' domains -/

theorem above_ge {size k : Nat} {t : Gen.Threshold} (ht : thrGe k t) (_hk : 1 ≤ k)
    (h : BELOW_THRESHOLD size t = false) : k ≤ size := by
  cases t with
  | none => simp [BELOW_THRESHOLD, ABOVE_THRESHOLD] at h
  | some t =>
    simp only [thrGe] at ht
    simp only [BELOW_THRESHOLD, ABOVE_THRESHOLD, Bool.not_eq_false', Bool.or_eq_true, beq_iff_eq,
      decide_eq_true_eq] at h
    omega

/-- first branch: with DC_DIV_Q_THRESHOLD ≥ 6 every callee is called on sizes it ASSERTs
    (dn ≥ 2 here because dn == 1 returned at tdiv_q.c:102-106; new_nn ≥ nn ≥ dn) -/
theorem dispatchDivQ_domain (T : Thresholds) (dn new_nn nn : Nat) (hT : thrGe 6 T.dcDivQ)
    (hdn : 2 ≤ dn) (hnn : dn ≤ new_nn) :
    (dispatchDivQ T dn new_nn nn).domain new_nn dn := by
  unfold dispatchDivQ
  split
  · rename_i h; subst h; exact ⟨rfl, hnn⟩
  · rename_i h2
    split
    · exact ⟨by omega, hnn⟩
    · rename_i h
      simp only [Bool.or_eq_true, not_or, Bool.not_eq_true] at h
      have a1 := above_ge hT (by decide) h.1
      have a2 := above_ge hT (by decide) h.2
      split
      · exact ⟨a1, by omega, hnn⟩
      · exact ⟨a1, by omega, hnn⟩

/-- second branch: with DC_DIVAPPR_Q_THRESHOLD ≥ 4 every callee is called on sizes it ASSERTs
    (divisor of qn+1 limbs, dividend of new_nn ≥ 2qn+1 limbs, qn ≥ 1) -/
theorem dispatchDivapprQ_domain (T : Thresholds) (qn new_nn : Nat) (hT : thrGe 4 T.dcDivapprQ)
    (hqn : 1 ≤ qn) (hnn : 2 * qn + 1 ≤ new_nn) :
    (dispatchDivapprQ T qn).domain new_nn (qn + 1) := by
  unfold dispatchDivapprQ
  split
  · rename_i h; exact ⟨h, by omega⟩
  · rename_i h2
    split
    · exact ⟨by omega, by omega⟩
    · rename_i h
      simp only [Bool.not_eq_true] at h
      have a1 := above_ge hT (by decide) h
      split
      · exact ⟨by omega, by omega⟩
      · exact ⟨by omega, by omega⟩

end Mpir.TdivQ
