/- The negacyclic transforms of Mpir/Model/FftNeg.lean: the forward transform is the radix-2 transform of the weighted
   vector, the inverse undoes it up to 2n, and the transform chain is the negacyclic convolution. -/
import MpirProofs.Lemmas.FftXMul
import Mpir.Model.FftNeg
set_option linter.unusedSimpArgs false
namespace Mpir.FftX
open Mpir Finset

/-- the weight of position k: (√2)^(k·w) as the C applies it -/
def twN (wn w k : Nat) : Int :=
  if w % 2 = 1 then (if k % 2 = 0 then 2 ^ (k / 2 * w) else sq2 wn k w) else 2 ^ (k * (w / 2))

/-- the inverse weight of position k < 2n, up to sign: (√2)^((2n−k)·w) -/
def uwN (wn w n k : Nat) : Int :=
  if w % 2 = 1 then (if k % 2 = 0 then 2 ^ ((n - k / 2) * w) else sq2 wn (2 * n - k) w) else 2 ^ ((2 * n - k) * (w / 2))

/-- the weighted vector -/
def negW (d w : Nat) (xs : List Int) : List Int :=
  (List.range (2 * 2 ^ d)).map fun k => el xs k * twN (wnOf (2 ^ d) w) w k

theorem pow_succ_mod2 (d i : Nat) : (2 ^ (d + 1) + i) % 2 = i % 2 := by
  rw [pow_succ, Nat.add_comm, Nat.add_mul_mod_self_right]

/-- mpir_fft_negacyclic = mpir_fft_radix2 of the weighted vector -/
theorem fft_negacyclic_eq (d w : Nat) (xs : List Int) :
    fft_negacyclic (d + 1) w xs = fft_radix2 (d + 1) w (negW (d + 1) w xs) := by
  have hp : 2 * 2 ^ (d + 1) = 2 ^ (d + 1) + 2 ^ (d + 1) := by ring
  unfold fft_negacyclic
  simp only [Nat.add_sub_cancel]
  rw [fft_radix2_succ]
  have key : ∀ i < 2 ^ (d + 1),
      (if w % 2 = 1 then
        if i % 2 = 0 then
          bfly (adj (el xs i) (i / 2) w) (adj (el xs (2 ^ (d + 1) + i)) ((2 ^ (d + 1) + i) / 2) w) i w
        else
          bfly (adjSqrt2 (wnOf (2 ^ (d + 1)) w) (el xs i) i w)
            (adjSqrt2 (wnOf (2 ^ (d + 1)) w) (el xs (2 ^ (d + 1) + i)) (2 ^ (d + 1) + i) w) i w
      else bfly (adj (el xs i) i (w / 2)) (adj (el xs (2 ^ (d + 1) + i)) (2 ^ (d + 1) + i) (w / 2)) i w) =
      bfly (el (negW (d + 1) w xs) i) (el (negW (d + 1) w xs) (2 ^ (d + 1) + i)) i w := by
    intro i hi
    have hm := pow_succ_mod2 d i
    unfold negW
    rw [el_range_map _ _ _ (by omega), el_range_map _ _ _ (by omega)]
    unfold twN
    by_cases hw : w % 2 = 1
    · rw [if_pos hw, if_pos hw, if_pos hw, hm]
      by_cases hi2 : i % 2 = 0
      · rw [if_pos hi2, if_pos hi2, if_pos hi2]; rfl
      · rw [if_neg hi2, if_neg hi2, if_neg hi2]; rfl
    · rw [if_neg hw, if_neg hw, if_neg hw]; rfl
  congr 1
  · congr 1; apply fsts_congr; intro i hi; rw [key i hi]
  · congr 1; apply snds_congr; intro i hi; rw [key i hi]

theorem length_fft_negacyclic (d w : Nat) (xs : List Int) : (fft_negacyclic (d + 1) w xs).length = 2 ^ (d + 1 + 1) := by
  rw [fft_negacyclic_eq, length_fft_radix2]

section ring
variable {S : Type} [CommRing S] (f : ℤ →+* S)

/-- the weight of position k is τ^(k·w), τ = √2 -/
theorem f_twN (wn w k : Nat) (hτ : f (s2 wn) ^ 2 = f 2) : f (twN wn w k) = f (s2 wn) ^ (k * w) := by
  unfold twN
  by_cases hw : w % 2 = 1
  · rw [if_pos hw]
    by_cases hk : k % 2 = 0
    · rw [if_pos hk]; exact f_two_pow_even f wn k w hk hτ
    · rw [if_neg hk]; exact f_sq2 f wn k w (by omega) hw hτ
  · rw [if_neg hw]
    have e : k * w = 2 * (k * (w / 2)) := by
      have h1 : w = 2 * (w / 2) := by omega
      generalize w / 2 = b at *; rw [h1]; ring
    rw [map_pow, e, pow_mul (f (s2 wn)) 2, hτ]

/-- weight times inverse weight: τ^(2n·w) = −1 -/
theorem f_twN_uwN (d w k : Nat) (hz : f 2 ^ (2 ^ d * w) = -1) (hτ : f (s2 (2 ^ d * w)) ^ 2 = f 2) (hk : k < 2 * 2 ^ d)
    (_hd1 : 1 ≤ d) :
    f (twN (2 ^ d * w) w k) * f (uwN (2 ^ d * w) w (2 ^ d) k) = -1 := by
  have hfin : f (s2 (2 ^ d * w)) ^ (2 * 2 ^ d * w) = -1 := by
    rw [show 2 * 2 ^ d * w = 2 * (2 ^ d * w) by ring, pow_mul, hτ, hz]
  have hu : f (uwN (2 ^ d * w) w (2 ^ d) k) = f (s2 (2 ^ d * w)) ^ ((2 * 2 ^ d - k) * w) := by
    unfold uwN
    by_cases hw : w % 2 = 1
    · rw [if_pos hw]
      by_cases hk2 : k % 2 = 0
      · rw [if_pos hk2]
        have heven : (2 * 2 ^ d - k) % 2 = 0 := by omega
        have := f_two_pow_even f (2 ^ d * w) (2 * 2 ^ d - k) w heven hτ
        have e : (2 * 2 ^ d - k) / 2 = 2 ^ d - k / 2 := by omega
        rw [e] at this; exact this
      · rw [if_neg hk2]
        exact f_sq2 f _ _ w (by omega) hw hτ
    · rw [if_neg hw]
      have e : (2 * 2 ^ d - k) * w = 2 * ((2 * 2 ^ d - k) * (w / 2)) := by
        have h1 : w = 2 * (w / 2) := by omega
        generalize w / 2 = b at *; rw [h1]; ring
      rw [map_pow, e, pow_mul (f (s2 (2 ^ d * w))) 2, hτ]
  rw [f_twN f _ w k hτ, hu, ← pow_add, ← hfin]
  congr 1
  rw [← Nat.add_mul]; congr 1; omega

theorem f_negW (d w : Nat) (xs : List Int) (hd : 64 ∣ 2 ^ d * w) (hτ : f (s2 (2 ^ d * w)) ^ 2 = f 2) (k : Nat)
    (hk : k < 2 * 2 ^ d) : f (el (negW d w xs) k) = f (el xs k) * f (s2 (2 ^ d * w)) ^ (k * w) := by
  unfold negW
  rw [el_range_map _ _ _ hk, map_mul, wnOf_eq _ _ hd, f_twN f _ w k hτ]

/-- position k of mpir_fft_negacyclic holds the value of the polynomial Σ x_j Y^j at Y = τ^(w·(2·rev k + 1)), an odd power of
    the 4n-th root of unity τ^w -/
theorem fft_negacyclic_dft (d w : Nat) (hd : 64 ∣ 2 ^ (d + 1) * w) (hz : f 2 ^ (2 ^ (d + 1) * w) = -1) (xs : List Int)
    (k : Nat) (hk : k < 2 ^ (d + 1 + 1)) :
    f (el (fft_negacyclic (d + 1) w xs) k) =
      ∑ j ∈ range (2 * 2 ^ (d + 1)), f (el xs j) *
        (f (s2 (2 ^ (d + 1) * w)) ^ (w * (2 * rev (d + 1 + 1) k + 1))) ^ j := by
  have hτ := s2_sq f (2 ^ (d + 1) * w) (four_dvd_of_64 _ hd) hz
  have hp : 2 ^ (d + 1 + 1) = 2 * 2 ^ (d + 1) := by rw [pow_succ]; ring
  rw [fft_negacyclic_eq, fft_radix2_dft f (d + 1) w _ hz k hk, hp]
  apply sum_congr rfl; intro j hj
  rw [f_negW f (d + 1) w xs hd hτ j (mem_range.mp hj), ← hτ]
  simp only [← pow_mul, mul_assoc, ← pow_add]
  congr 2; ring

/-- mpir_ifft_negacyclic applied to values congruent to those of mpir_fft_negacyclic returns 2n times the input -/
theorem ifft_negacyclic_spec (d w : Nat) (hd : 64 ∣ 2 ^ (d + 1) * w) (hz : f 2 ^ (2 ^ (d + 1) * w) = -1)
    (xs ys : List Int) (h : ∀ k < 2 ^ (d + 1 + 1), f (el ys k) = f (el (fft_negacyclic (d + 1) w xs) k))
    (j : Nat) (hj : j < 2 ^ (d + 1 + 1)) :
    f (el (ifft_negacyclic (d + 1) w ys) j) = 2 ^ (d + 1 + 1) * f (el xs j) := by
  have hu : f 2 ^ (2 * (2 ^ (d + 1) * w)) = 1 := by rw [pow_mul' (f 2) 2 _, hz]; norm_num
  have hτ := s2_sq f (2 ^ (d + 1) * w) (four_dvd_of_64 _ hd) hz
  have hp : 2 ^ (d + 1 + 1) = 2 * 2 ^ (d + 1) := by rw [pow_succ]; ring
  have ewn : wnOf (2 ^ (d + 1)) w = 2 ^ (d + 1) * w := wnOf_eq _ _ hd
  -- the radix-2 inverse gives 2n times the weighted vector
  have R := fun k hk => ifft_radix2_spec f (d + 1) w hd hu (negW (d + 1) w xs) ys
    (fun k hk => by rw [h k hk, fft_negacyclic_eq]) k hk
  -- … and it is the same butterfly layer as in the model
  have hR : ifft_radix2 (d + 1) w ys =
      fsts (2 ^ (d + 1)) (fun i => ibfly (wnOf (2 ^ (d + 1)) w)
        (el (ifft_radix2 d (2 * w) (ys.take (2 ^ (d + 1))) ++ ifft_radix2 d (2 * w) (ys.drop (2 ^ (d + 1)))) i)
        (el (ifft_radix2 d (2 * w) (ys.take (2 ^ (d + 1))) ++ ifft_radix2 d (2 * w) (ys.drop (2 ^ (d + 1)))) (2 ^ (d + 1) + i)) i w) ++
      snds (2 ^ (d + 1)) (fun i => ibfly (wnOf (2 ^ (d + 1)) w)
        (el (ifft_radix2 d (2 * w) (ys.take (2 ^ (d + 1))) ++ ifft_radix2 d (2 * w) (ys.drop (2 ^ (d + 1)))) i)
        (el (ifft_radix2 d (2 * w) (ys.take (2 ^ (d + 1))) ++ ifft_radix2 d (2 * w) (ys.drop (2 ^ (d + 1)))) (2 ^ (d + 1) + i)) i w) := by
    simp only [ifft_radix2]
  generalize hY : ifft_radix2 d (2 * w) (ys.take (2 ^ (d + 1))) ++ ifft_radix2 d (2 * w) (ys.drop (2 ^ (d + 1))) = Y at *
  have R1 : ∀ i < 2 ^ (d + 1), f (ibfly (wnOf (2 ^ (d + 1)) w) (el Y i) (el Y (2 ^ (d + 1) + i)) i w).1 =
      2 ^ (d + 1 + 1) * (f (el xs i) * f (s2 (2 ^ (d + 1) * w)) ^ (i * w)) := by
    intro i hi
    have := R i (by omega)
    rw [hR, el_append_left _ _ _ (by rw [length_fsts]; exact hi), el_fsts _ _ _ hi] at this
    rw [this, f_negW f (d + 1) w xs hd hτ i (by omega)]
  have R2 : ∀ i < 2 ^ (d + 1), f (ibfly (wnOf (2 ^ (d + 1)) w) (el Y i) (el Y (2 ^ (d + 1) + i)) i w).2 =
      2 ^ (d + 1 + 1) * (f (el xs (2 ^ (d + 1) + i)) * f (s2 (2 ^ (d + 1) * w)) ^ ((2 ^ (d + 1) + i) * w)) := by
    intro i hi
    have := R (2 ^ (d + 1) + i) (by omega)
    rw [hR, el_append_right' _ _ _ _ (length_fsts _ _), el_snds _ _ _ hi] at this
    rw [this, f_negW f (d + 1) w xs hd hτ _ (by omega)]
  -- the unweighting
  have U := fun k (hk : k < 2 * 2 ^ (d + 1)) => f_twN_uwN f (d + 1) w k hz hτ hk (by omega)
  have tw := fun k => f_twN f (2 ^ (d + 1) * w) w k hτ
  unfold ifft_negacyclic
  simp only [Nat.add_sub_cancel, hY, ewn]
  have hm := fun i => pow_succ_mod2 d i
  by_cases hjn : j < 2 ^ (d + 1)
  · rw [el_append_left _ _ _ (by rw [length_fsts]; exact hjn), el_fsts _ _ _ hjn]
    have u := U j (by omega)
    rw [tw] at u
    have r1 := R1 j hjn
    rw [ewn] at r1
    unfold uwN at u
    by_cases hw : w % 2 = 1
    · rw [if_pos hw] at u ⊢
      by_cases hj2 : j % 2 = 0
      · rw [if_pos hj2] at u ⊢
        simp only [adj, map_neg, map_mul]
        rw [r1]; linear_combination (-(2 ^ (d + 1 + 1) * f (el xs j))) * u
      · rw [if_neg hj2] at u ⊢
        simp only [adjSqrt2, map_neg, map_mul]
        rw [r1]; linear_combination (-(2 ^ (d + 1 + 1) * f (el xs j))) * u
    · rw [if_neg hw] at u ⊢
      simp only [adj, map_neg, map_mul]
      rw [r1]; linear_combination (-(2 ^ (d + 1 + 1) * f (el xs j))) * u
  · have hj' : j - 2 ^ (d + 1) < 2 ^ (d + 1) := by omega
    have ej : j = 2 ^ (d + 1) + (j - 2 ^ (d + 1)) := by omega
    generalize hi : j - 2 ^ (d + 1) = i at *
    rw [ej, el_append_right' _ _ _ _ (length_fsts _ _), el_snds _ _ _ hj']
    have u := U (2 ^ (d + 1) + i) (by omega)
    rw [tw] at u
    have r2 := R2 i hj'
    rw [ewn] at r2
    unfold uwN at u
    have e1 : 2 * 2 ^ (d + 1) - (2 ^ (d + 1) + i) = 2 ^ (d + 1) - i := by omega
    rw [e1, hm i] at u
    by_cases hw : w % 2 = 1
    · rw [if_pos hw] at u ⊢
      by_cases hj2 : i % 2 = 0
      · rw [if_pos hj2] at u ⊢
        simp only [adj, map_neg, map_mul]
        rw [r2]; linear_combination (-(2 ^ (d + 1 + 1) * f (el xs (2 ^ (d + 1) + i)))) * u
      · rw [if_neg hj2] at u ⊢
        simp only [adjSqrt2, map_neg, map_mul]
        rw [r2]; linear_combination (-(2 ^ (d + 1 + 1) * f (el xs (2 ^ (d + 1) + i)))) * u
    · rw [if_neg hw] at u ⊢
      simp only [adj, map_neg, map_mul]
      rw [r2]; linear_combination (-(2 ^ (d + 1 + 1) * f (el xs (2 ^ (d + 1) + i)))) * u

/-! ### the negacyclic convolution theorem -/

/-- for y^m = −1 the product of two polynomials of degree < m, evaluated at y, folds to the negacyclic convolution -/
theorem neg_cauchy (a b : Nat → S) (y : S) (m : Nat) (ha : ∀ i, m ≤ i → a i = 0) (hb : ∀ k, m ≤ k → b k = 0)
    (hy : y ^ m = -1) :
    ∑ k ∈ range m, ((∑ i ∈ range (k + 1), a i * b (k - i)) - (∑ i ∈ range (m + k + 1), a i * b (m + k - i))) * y ^ k =
      (∑ i ∈ range m, a i * y ^ i) * (∑ k ∈ range m, b k * y ^ k) := by
  have h2 := cauchy_range a b y (2 * m) m m ha hb (by omega)
  have ea : ∑ i ∈ range (2 * m), a i * y ^ i = ∑ i ∈ range m, a i * y ^ i := by
    symm; apply sum_subset (range_subset_range.mpr (by omega))
    intro i _ hi; have : m ≤ i := by simpa using hi
    rw [ha i this]; ring
  have eb : ∑ i ∈ range (2 * m), b i * y ^ i = ∑ i ∈ range m, b i * y ^ i := by
    symm; apply sum_subset (range_subset_range.mpr (by omega))
    intro i _ hi; have : m ≤ i := by simpa using hi
    rw [hb i this]; ring
  rw [ea, eb] at h2
  rw [← h2, two_mul m, sum_range_add, ← sum_add_distrib]
  apply sum_congr rfl; intro k _
  rw [pow_add, hy]; ring

end ring

/-- the negacyclic convolution of length m of two coefficient lists (entries from m on must be zero) -/
noncomputable def negconv (a b : List Int) (m : Nat) : List Int :=
  (List.range m).map fun k => el (conv a b (2 * m)) k - el (conv a b (2 * m)) (m + k)

theorem el_negconv (a b : List Int) (m k : Nat) (hk : k < m) :
    el (negconv a b m) k = (∑ i ∈ range (k + 1), el a i * el b (k - i)) - ∑ i ∈ range (m + k + 1), el a i * el b (m + k - i) := by
  unfold negconv
  rw [el_range_map _ _ _ hk, el_conv _ _ _ _ (by omega), el_conv _ _ _ _ (by omega)]

section ring
variable {S : Type} [CommRing S] (f : ℤ →+* S)

/-- the transform of the negacyclic convolution is the pointwise product of the transforms -/
theorem fft_negacyclic_conv (d w : Nat) (hd : 64 ∣ 2 ^ (d + 1) * w) (hz : f 2 ^ (2 ^ (d + 1) * w) = -1)
    (a b : List Int) (ha : ∀ i, 2 * 2 ^ (d + 1) ≤ i → el a i = 0) (hb : ∀ i, 2 * 2 ^ (d + 1) ≤ i → el b i = 0)
    (k : Nat) (hk : k < 2 ^ (d + 1 + 1)) :
    f (el (fft_negacyclic (d + 1) w (negconv a b (2 * 2 ^ (d + 1)))) k) =
      f (el (fft_negacyclic (d + 1) w a) k) * f (el (fft_negacyclic (d + 1) w b) k) := by
  have hτ := s2_sq f (2 ^ (d + 1) * w) (four_dvd_of_64 _ hd) hz
  have hp : 2 ^ (d + 1 + 1) = 2 * 2 ^ (d + 1) := by rw [pow_succ]; ring
  -- the transform of any vector as a polynomial evaluated at y = τ^(w·(2r+1))
  have ev : ∀ xs : List Int, f (el (fft_negacyclic (d + 1) w xs) k) =
      ∑ j ∈ range (2 * 2 ^ (d + 1)), f (el xs j) *
        (f (s2 (2 ^ (d + 1) * w)) ^ (w * (2 * rev (d + 1 + 1) k + 1))) ^ j := by
    intro xs
    rw [fft_negacyclic_eq, fft_radix2_dft f (d + 1) w _ hz k hk, hp]
    apply sum_congr rfl; intro j hj
    rw [f_negW f (d + 1) w xs hd hτ j (mem_range.mp hj), ← hτ]
    simp only [← pow_mul, mul_assoc, ← pow_add]
    congr 2; ring
  have hy : (f (s2 (2 ^ (d + 1) * w)) ^ (w * (2 * rev (d + 1 + 1) k + 1))) ^ (2 * 2 ^ (d + 1)) = -1 := by
    have e : (f (s2 (2 ^ (d + 1) * w)) ^ (w * (2 * rev (d + 1 + 1) k + 1))) ^ (2 * 2 ^ (d + 1)) =
        ((f (s2 (2 ^ (d + 1) * w)) ^ 2) ^ (2 ^ (d + 1) * w)) ^ (2 * rev (d + 1 + 1) k + 1) := by
      simp only [← pow_mul]; congr 1; ring
    rw [e, hτ, hz, neg_one_pow_two_mul_add_one]
  rw [ev, ev a, ev b]
  generalize f (s2 (2 ^ (d + 1) * w)) ^ (w * (2 * rev (d + 1 + 1) k + 1)) = y at *
  rw [← neg_cauchy (fun i => f (el a i)) (fun i => f (el b i)) y (2 * 2 ^ (d + 1))
    (fun i hi => by simp [ha i hi]) (fun i hi => by simp [hb i hi]) hy]
  apply sum_congr rfl; intro j hj
  rw [el_negconv _ _ _ _ (mem_range.mp hj), map_sub, map_sum, map_sum]
  congr 2
  · apply sum_congr rfl; intro i _; rw [map_mul]
  · apply sum_congr rfl; intro i _; rw [map_mul]

end ring

/-- transform, pointwise product, inverse transform, division by 2n: the negacyclic convolution modulo p -/
theorem neg_conv_chain (d w L : Nat) (a b : List Int) (hL : 2 ^ (d + 1) * w = 64 * L) (hw : 1 ≤ w)
    (ha : ∀ i, 2 * 2 ^ (d + 1) ≤ i → el a i = 0) (hb : ∀ i, 2 * 2 ^ (d + 1) ≤ i → el b i = 0)
    (j : Nat) (hj : j < 2 * 2 ^ (d + 1)) :
    el (ifft_negacyclic (d + 1) w
        ((List.range (2 * 2 ^ (d + 1))).map fun j =>
          pointwise L (64 * L) (el (fft_negacyclic (d + 1) w a) j) (el (fft_negacyclic (d + 1) w b) j))) j *
        2 ^ (2 * (64 * L) - (d + 1 + 1))
      ≡ el (negconv a b (2 * 2 ^ (d + 1))) j [ZMOD pOf (64 * L)] := by
  have hd : 64 ∣ 2 ^ (d + 1) * w := ⟨L, hL⟩
  have hL1 : 1 ≤ L := by
    have : 1 ≤ 2 ^ (d + 1) * w := Nat.mul_pos (two_pow_pos' _) hw
    omega
  have hp : 2 ^ (d + 1 + 1) = 2 * 2 ^ (d + 1) := by rw [pow_succ]; ring
  rw [← zmod_eq_iff]
  set F := Int.castRingHom (ZMod (2 ^ (64 * L) + 1)) with hF
  have hz' : F 2 ^ (64 * L) = -1 := zmod_two_pow (64 * L)
  have hz : F 2 ^ (2 ^ (d + 1) * w) = -1 := (congrArg (fun e => F 2 ^ e) hL).trans hz'
  have hu : F 2 ^ (2 * (64 * L)) = 1 := by rw [pow_mul' (F 2) 2 (64 * L), hz']; norm_num
  have I := ifft_negacyclic_spec F d w hd hz (negconv a b (2 * 2 ^ (d + 1)))
    ((List.range (2 * 2 ^ (d + 1))).map fun j =>
      pointwise L (64 * L) (el (fft_negacyclic (d + 1) w a) j) (el (fft_negacyclic (d + 1) w b) j))
    (fun k hk => by
      rw [el_range_map _ _ _ (by omega), (zmod_eq_iff (64 * L) _ _).mpr (pointwise_spec L hL1 _ _), map_mul,
        fft_negacyclic_conv F d w hd hz a b ha hb k hk]) j (by omega)
  rw [map_mul, I, map_pow]
  have hle : d + 1 + 1 ≤ 2 * (64 * L) := by
    have := two_pow_ge (d + 1)
    have : 2 ^ (d + 1) ≤ 2 ^ (d + 1) * w := Nat.le_mul_of_pos_right _ hw
    omega
  have e := pow_mul_pow_sub_eq_one (F 2) (2 * (64 * L)) (d + 1 + 1) hu hle
  have f2 : F 2 = 2 := by simp [hF]
  rw [f2] at e ⊢
  linear_combination (F (el (negconv a b (2 * 2 ^ (d + 1))) j)) * e

end Mpir.FftX
